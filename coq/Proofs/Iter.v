(* Proofs/Iter.v — lemmas about the iterator-state model (property C09). *)
From Tevec Require Import Base.Prelude Model.Iter.
Local Open Scope nat_scope.

(* every model state has an upper bound (no unbounded source is a node of its own) *)
Lemma size_hint_upper_some : forall s, exists u, snd (size_hint s) = Some u.
Proof.
  induction s; cbn [size_hint fst snd]; eauto.
  - destruct IHs1 as [u1 H1], IHs2 as [u2 H2]. destruct la, lb; cbn [fst snd]; eauto.
    rewrite H1, H2. cbn. eauto.
  - destruct IHs as [u H]. destruct (n =? 0); cbn [snd]; eauto.
    rewrite H. destruct (u <? n); eauto.
  - destruct IHs as [u H]. rewrite H. cbn. eauto.
  - destruct IHs1 as [u1 H1], IHs2 as [u2 H2]. rewrite H1, H2. cbn. eauto.
Qed.

(* ---- well-formedness ---------------------------------------------------------------------------
   wfb false s : s may be consumed from the front   (every ITrust below announces the true count)
   wfb true  s : s may be consumed from both ends   (additionally: no FnMut map — its result depends on
                 the order of the calls — and no padded take, which std does not make double-ended)    *)
Fixpoint wfb (b : bool) (s : it) : Prop :=
  match s with
  | IList _ | IRange _ _ | IRepeatN _ _ => True
  | ILin _ _ index len => index <= len
  | IChain _ _ x y | IZip x y => wfb b x /\ wfb b y
  | ITake i _ | ISkip i _ | IEnum i _ | IMap _ i | IBox i => wfb b i
  | IMapS _ _ i => b = false /\ wfb false i
  | IPad _ i _ _ => b = false /\ wfb false i
  | IRev i => wfb true i
  | ITrust i len => len = length (elems i) /\ wfb b i
  end.

Lemma wfb_weaken : forall s, wfb true s -> wfb false s.
Proof.
  induction s; cbn [wfb]; intros H; try tauto; destruct H as [H _]; discriminate.
Qed.

Lemma wfb_any : forall b s, wfb true s -> wfb b s.
Proof. intros [] s H; [exact H | apply wfb_weaken; exact H]. Qed.

Lemma wfb_front b s : wfb b s -> wfb false s.
Proof. destruct b; [apply wfb_weaken | auto]. Qed.

Definition exact (s : it) : Prop :=
  size_hint s = (length (elems s), Some (length (elems s))).

Lemma run_len {St X O} (g : St -> X -> St * O) s l : length (run g s l) = length l.
Proof. apply run_length. Qed.

Lemma wfb_exact : forall s, wfb false s -> exact s.
Proof.
  unfold exact. induction s; cbn [wfb size_hint elems]; intros H.
  - reflexivity.
  - rewrite map_length, seq_length. reflexivity.
  - rewrite repeat_length. reflexivity.
  - destruct H as [Ha Hb]. specialize (IHs1 Ha). specialize (IHs2 Hb).
    rewrite app_length. destruct la, lb; cbn [length]; rewrite ?IHs1, ?IHs2; cbn [fst snd oadd];
      rewrite ?Nat.add_0_r; reflexivity.
  - specialize (IHs H). rewrite IHs. cbn [fst snd]. rewrite firstn_length.
    destruct (n =? 0) eqn:E.
    + apply Nat.eqb_eq in E. subst n. reflexivity.
    + destruct (length (elems s) <? n) eqn:E2.
      * apply Nat.ltb_lt in E2. f_equal; [lia | f_equal; lia].
      * apply Nat.ltb_ge in E2. f_equal; [lia | f_equal; lia].
  - specialize (IHs H). rewrite IHs. cbn [fst snd option_map]. rewrite skipn_length. reflexivity.
  - destruct H as (Ha & Hb). specialize (IHs1 Ha). specialize (IHs2 Hb). rewrite IHs1, IHs2.
    cbn [fst snd omin]. rewrite map_length, combine_length. reflexivity.
  - specialize (IHs H). rewrite IHs, map_length. reflexivity.
  - destruct H as [_ H]. specialize (IHs H). rewrite IHs, run_len. reflexivity.
  - specialize (IHs (wfb_weaken _ H)). rewrite IHs, rev_length. reflexivity.
  - specialize (IHs H). rewrite IHs, map_length, combine_length, seq_length, Nat.min_id. reflexivity.
  - cbv zeta. rewrite app_length, firstn_length, repeat_length.
    assert (E : Nat.min n (length (if la then elems s else [])) + (n - length (if la then elems s else [])) = n) by lia.
    rewrite E. reflexivity.
  - destruct H as [-> _]. reflexivity.
  - rewrite map_length, seq_length. reflexivity.
  - exact (IHs H).
Qed.

(* ---- one call of next / next_back ------------------------------------------------------------- *)
Definition spec (back : bool) (s : it) (o : option val) (s' : it) : Prop :=
  match o with
  | Some x => if back then elems s = elems s' ++ [x] else elems s = x :: elems s'
  | None => elems s = [] /\ elems s' = []
  end.

(* the direction `back` is only allowed on states that are double-ended-well-formed *)
Definition dir_ok (back b : bool) : Prop := back = true -> b = true.

Definition sound_at (f : nat) : Prop :=
  forall back b s o s', dir_ok back b -> wfb b s -> depth s <= f -> step f back s = (o, s') ->
                        spec back s o s' /\ wfb b s' /\ depth s' = depth s.

Lemma repeat_snoc {A} (v : A) n : repeat v (S n) = repeat v n ++ [v].
Proof. induction n as [|n IH]; [reflexivity|]. cbn [repeat app] in *. rewrite <- IH. reflexivity. Qed.

(* Iterator::nth on a sound inner iterator: skips k items, returns the next *)
Lemma nth_by_fwd f (Hf : sound_at f) : forall k b i o i',
  wfb b i -> depth i <= f -> nth_by (step f false) k i = (o, i') ->
  match o with
  | Some x => skipn k (elems i) = x :: elems i'
  | None => skipn k (elems i) = [] /\ elems i' = []
  end /\ wfb b i' /\ depth i' = depth i.
Proof.
  induction k as [|k IH]; intros b i o i' Hw Hd E; cbn [nth_by] in E.
  - destruct (Hf false b i o i') as (Hs & Hw' & Hd'); try assumption; [intros X; discriminate|].
    split; [|split; assumption]. unfold spec in Hs. cbn [skipn]. exact Hs.
  - destruct (step f false i) as [o1 i1] eqn:E1.
    destruct (Hf false b i o1 i1) as (Hs & Hw1 & Hd1); try assumption; [intros X; discriminate|].
    unfold spec in Hs. destruct o1 as [x1|].
    + destruct (IH b i1 o i') as (Hs2 & Hw2 & Hd2); try assumption; [lia|].
      split; [|split; [assumption|lia]]. rewrite Hs. cbn [skipn]. exact Hs2.
    + injection E as <- <-. destruct Hs as [Hs1 Hs2]. split; [|split; assumption].
      rewrite Hs1. split; [destruct k; reflexivity | exact Hs2].
Qed.

Lemma seq_cons a n : 0 < n -> seq a n = a :: seq (S a) (n - 1).
Proof. intros H. destruct n; [lia|]. replace (S n - 1) with n by lia. reflexivity. Qed.

Lemma seq_snoc a n : 0 < n -> seq a n = seq a (n - 1) ++ [a + (n - 1)].
Proof. intros H. destruct n; [lia|]. replace (S n - 1) with n by lia. apply seq_S. Qed.

(* DoubleEndedIterator::nth_back on a sound inner iterator *)
Lemma nth_by_back f (Hf : sound_at f) : forall k i o i',
  wfb true i -> depth i <= f -> nth_by (step f true) k i = (o, i') ->
  match o with
  | Some x => exists D, length D = k /\ elems i = elems i' ++ x :: D
  | None => length (elems i) <= k /\ elems i' = []
  end /\ wfb true i' /\ depth i' = depth i.
Proof.
  assert (Hdir : dir_ok true true) by (intros _; reflexivity).
  induction k as [|k IH]; intros i o i' Hw Hd E; cbn [nth_by] in E.
  - destruct (Hf true true i o i' Hdir Hw Hd E) as (Hs & Hw' & Hd'). split; [|split; assumption].
    unfold spec in Hs. destruct o as [x|].
    + exists []. split; [reflexivity | exact Hs].
    + destruct Hs as [-> ->]. cbn. auto.
  - destruct (step f true i) as [o1 i1] eqn:E1.
    destruct (Hf true true i o1 i1 Hdir Hw Hd E1) as (Hs & Hw1 & Hd1). unfold spec in Hs.
    destruct o1 as [x1|].
    + destruct (IH i1 o i' Hw1 ltac:(lia) E) as (Hs2 & Hw2 & Hd2). split; [|split; [assumption|lia]].
      destruct o as [x|].
      * destruct Hs2 as (D & HD & HE). exists (D ++ [x1]). split; [rewrite app_length; cbn; lia|].
        rewrite Hs, HE, <- app_assoc. reflexivity.
      * destruct Hs2 as [Hl He]. split; [|exact He]. rewrite Hs, app_length. cbn. lia.
    + injection E as <- <-. destruct Hs as [Hs1 Hs2]. split; [|split; assumption].
      rewrite Hs1. cbn. split; [lia | exact Hs2].
Qed.

Lemma firstn_app_le {A} n (l1 l2 : list A) : n <= length l1 -> firstn n (l1 ++ l2) = firstn n l1.
Proof.
  intros H. rewrite firstn_app. replace (n - length l1) with 0 by lia. cbn. apply app_nil_r.
Qed.

Lemma drop_by_back f (Hf : sound_at f) : forall k i,
  wfb true i -> depth i <= f ->
  elems (drop_by (step f true) k i) = firstn (length (elems i) - k) (elems i)
  /\ wfb true (drop_by (step f true) k i) /\ depth (drop_by (step f true) k i) = depth i.
Proof.
  assert (Hdir : dir_ok true true) by (intros _; reflexivity).
  induction k as [|k IH]; intros i Hw Hd; cbn [drop_by].
  - rewrite Nat.sub_0_r, firstn_all. auto.
  - destruct (step f true i) as [o1 i1] eqn:E1. cbn [snd].
    destruct (Hf true true i o1 i1 Hdir Hw Hd E1) as (Hs & Hw1 & Hd1). unfold spec in Hs.
    destruct (IH i1 Hw1 ltac:(lia)) as (He & Hw2 & Hd2). split; [|split; [assumption|lia]].
    rewrite He. destruct o1 as [x1|].
    + rewrite Hs, app_length. cbn [length]. rewrite firstn_app_le by lia. f_equal. lia.
    + destruct Hs as [-> ->]. rewrite !firstn_nil. reflexivity.
Qed.

Lemma combine_app_eq {A B} (l1 l2 : list A) (m1 m2 : list B) :
  length l1 = length m1 -> combine (l1 ++ l2) (m1 ++ m2) = combine l1 m1 ++ combine l2 m2.
Proof.
  revert m1; induction l1 as [|a l1 IH]; intros [|b m1] H; try discriminate; [reflexivity|].
  cbn. f_equal. apply IH. cbn in H. lia.
Qed.

Lemma combine_firstn_both {A B} : forall n (l : list A) (m : list B),
  combine (firstn n l) (firstn n m) = firstn n (combine l m).
Proof.
  induction n as [|n IH]; intros [|a l] [|b m]; cbn; try reflexivity. f_equal. apply IH.
Qed.

Ltac fin := split; [|split; [cbn [wfb]; tauto | cbn [depth]; lia]]; unfold spec in *; cbn [elems].

Lemma step_sound : forall f, sound_at f.
Proof.
  induction f as [|f IHf]; intros back b s o s' Hdir Hw Hd E.
  { destruct s; cbn [depth] in Hd; lia. }
  destruct s; cbn [step] in E; cbn [wfb] in Hw; cbn [depth] in Hd.
  - (* IList *)
    destruct back.
    + destruct l as [|y l].
      * injection E as <- <-. cbn. auto.
      * injection E as <- <-. cbn [spec elems wfb depth]. split; [|auto].
        assert (Hne : y :: l <> []) by discriminate.
        exact (app_removelast_last (l:=y :: l) VNull Hne).
    + destruct l as [|y l]; injection E as <- <-; cbn; auto.
  - (* IRange *)
    destruct (a <? b0) eqn:Eab.
    + apply Nat.ltb_lt in Eab. destruct back; injection E as <- <-; cbn [spec elems wfb depth]; (split; [|auto]).
      * rewrite (seq_snoc a (b0 - a)) by lia. rewrite map_app. cbn [map].
        replace (b0 - 1 - a) with (b0 - a - 1) by lia. replace (a + (b0 - a - 1)) with (b0 - 1) by lia. reflexivity.
      * rewrite (seq_cons a (b0 - a)) by lia. cbn [map]. replace (b0 - S a) with (b0 - a - 1) by lia. reflexivity.
    + apply Nat.ltb_ge in Eab. injection E as <- <-. cbn [spec elems wfb depth].
      replace (b0 - a) with 0 by lia. cbn. auto.
  - (* IRepeatN *)
    destruct n as [|m]; injection E as <- <-; cbn [spec elems wfb depth]; [cbn; auto|].
    split; [|auto]. destruct back; [apply repeat_snoc | reflexivity].
  - (* IChain *)
    destruct Hw as [Hwa Hwb].
    assert (Hda : depth s1 <= f) by lia. assert (Hdb : depth s2 <= f) by lia.
    destruct back.
    + (* next_back: b first, then a *)
      destruct lb.
      * destruct (step f true s2) as [ob b'] eqn:Eb.
        destruct (IHf true b s2 ob b' Hdir Hwb Hdb Eb) as (Hsb & Hwb' & Hdb').
        destruct ob as [y|].
        { injection E as <- <-. fin. rewrite Hsb. rewrite app_assoc. reflexivity. }
        destruct Hsb as [Hb1 Hb2]. destruct la.
        { destruct (step f true s1) as [oa a'] eqn:Ea. injection E as <- <-.
          destruct (IHf true b s1 oa a' Hdir Hwa Hda Ea) as (Hsa & Hwa' & Hda').
          destruct oa as [x|]; fin; rewrite Hb1, !app_nil_r; [exact Hsa | tauto]. }
        { injection E as <- <-. fin. rewrite Hb1. cbn. auto. }
      * destruct la.
        { destruct (step f true s1) as [oa a'] eqn:Ea. injection E as <- <-.
          destruct (IHf true b s1 oa a' Hdir Hwa Hda Ea) as (Hsa & Hwa' & Hda').
          destruct oa as [x|]; fin; rewrite !app_nil_r; [exact Hsa | tauto]. }
        { injection E as <- <-. fin. cbn. auto. }
    + (* next: a first, then b *)
      destruct la.
      * destruct (step f false s1) as [oa a'] eqn:Ea.
        destruct (IHf false b s1 oa a' Hdir Hwa Hda Ea) as (Hsa & Hwa' & Hda').
        destruct oa as [x|].
        { injection E as <- <-. fin. rewrite Hsa. reflexivity. }
        destruct Hsa as [Ha1 Ha2]. destruct lb.
        { destruct (step f false s2) as [ob b'] eqn:Eb. injection E as <- <-.
          destruct (IHf false b s2 ob b' Hdir Hwb Hdb Eb) as (Hsb & Hwb' & Hdb').
          destruct ob as [y|]; fin; rewrite Ha1; cbn [app]; [exact Hsb | tauto]. }
        { injection E as <- <-. fin. rewrite Ha1. cbn. auto. }
      * destruct lb.
        { destruct (step f false s2) as [ob b'] eqn:Eb. injection E as <- <-.
          destruct (IHf false b s2 ob b' Hdir Hwb Hdb Eb) as (Hsb & Hwb' & Hdb').
          destruct ob as [y|]; fin; cbn [app]; [exact Hsb | tauto]. }
        { injection E as <- <-. fin. cbn. auto. }
  - (* ITake *)
    assert (Hdi : depth s <= f) by lia.
    destruct n as [|m].
    + injection E as <- <-. fin. destruct back; auto.
    + destruct back.
      * assert (b = true) as -> by (apply Hdir; reflexivity).
        destruct (nth_by (step f true) (fst (size_hint s) - S m) s) as [oi i'] eqn:Ei. injection E as <- <-.
        destruct (nth_by_back f IHf _ s oi i' Hw Hdi Ei) as (Hs & Hw' & Hd').
        rewrite (wfb_exact s (wfb_weaken _ Hw)) in Hs. cbn [fst] in Hs.
        destruct oi as [x|]; fin.
        { destruct Hs as (D & HD & HE). rewrite HE in *. rewrite app_length in HD. cbn [length] in HD.
          rewrite firstn_app.
          assert (Hle : length (elems i') <= m) by lia.
          rewrite (firstn_all2 (n:=S m)) by lia. rewrite (firstn_all2 (n:=m)) by lia. f_equal.
          replace (S m - length (elems i')) with (S (m - length (elems i'))) by lia. cbn [firstn]. f_equal.
          destruct D as [|d D]; [apply firstn_nil|]. cbn [length] in HD.
          replace (m - length (elems i')) with 0 by lia. reflexivity. }
        { destruct Hs as [Hl He]. assert (Hz : length (elems s) = 0) by lia.
          destruct (elems s); [|discriminate]. rewrite He, !firstn_nil. auto. }
      * destruct (step f false s) as [oi i'] eqn:Ei. injection E as <- <-.
        destruct (IHf false b s oi i' Hdir Hw Hdi Ei) as (Hs & Hw' & Hd').
        destruct oi as [x|]; fin.
        { rewrite Hs. reflexivity. }
        { destruct Hs as [-> ->]. rewrite !firstn_nil. auto. }
  - (* ISkip *)
    assert (Hdi : depth s <= f) by lia.
    destruct back.
    + assert (b = true) as -> by (apply Hdir; reflexivity).
      pose proof (wfb_exact s (wfb_weaken _ Hw)) as Hex.
      cbn [size_hint fst] in E. rewrite Hex in E. cbn [fst] in E.
      destruct (0 <? length (elems s) - n) eqn:Eg.
      * apply Nat.ltb_lt in Eg.
        destruct (step f true s) as [oi i'] eqn:Ei. injection E as <- <-.
        destruct (IHf true true s oi i' Hdir Hw Hdi Ei) as (Hs & Hw' & Hd').
        destruct oi as [x|]; fin.
        { rewrite Hs in *. rewrite app_length in Eg. cbn [length] in Eg.
          rewrite skipn_app. replace (n - length (elems i')) with 0 by lia. reflexivity. }
        { destruct Hs as [Hs _]. rewrite Hs in Eg. cbn in Eg. lia. }
      * apply Nat.ltb_ge in Eg. injection E as <- <-. fin.
        rewrite skipn_all2 by lia. auto.
    + destruct (nth_by (step f false) n s) as [oi i'] eqn:Ei. injection E as <- <-.
      destruct (nth_by_fwd f IHf n b s oi i' Hw Hdi Ei) as (Hs & Hw' & Hd').
      destruct oi as [x|]; fin; cbn [skipn]; tauto.
  - (* IZip *)
    destruct Hw as (Hwa & Hwb).
    assert (Hda : depth s1 <= f) by lia. assert (Hdb : depth s2 <= f) by lia.
    destruct back.
    + assert (b = true) as -> by (apply Hdir; reflexivity).
      rewrite (wfb_exact s1 (wfb_weaken _ Hwa)), (wfb_exact s2 (wfb_weaken _ Hwb)) in E. cbn [fst] in E.
      set (A := elems s1) in *. set (B := elems s2) in *.
      destruct (drop_by_back f IHf (length A - length B) s1 Hwa Hda) as (Ea1 & Hwa1 & Hda1).
      destruct (drop_by_back f IHf (length B - length A) s2 Hwb Hdb) as (Eb1 & Hwb1 & Hdb1).
      fold A in Ea1. fold B in Eb1.
      set (a1 := drop_by (step f true) (length A - length B) s1) in *.
      set (b1 := drop_by (step f true) (length B - length A) s2) in *.
      destruct (step f true a1) as [oa a2] eqn:Ea.
      destruct (step f true b1) as [ob b2] eqn:Eb.
      destruct (IHf true true a1 oa a2 Hdir Hwa1 ltac:(lia) Ea) as (Hsa & Hwa2 & Hda2).
      destruct (IHf true true b1 ob b2 Hdir Hwb1 ltac:(lia) Eb) as (Hsb & Hwb2 & Hdb2).
      unfold spec in Hsa, Hsb.
      set (M := Nat.min (length A) (length B)).
      replace (length A - (length A - length B)) with M in Ea1 by lia.
      replace (length B - (length B - length A)) with M in Eb1 by lia.
      assert (HAB : combine A B = combine (firstn M A) (firstn M B)).
      { rewrite combine_firstn_both. symmetry. apply firstn_all2. rewrite combine_length. lia. }
      assert (La : length (elems a1) = M) by (rewrite Ea1, firstn_length; lia).
      assert (Lb : length (elems b1) = M) by (rewrite Eb1, firstn_length; lia).
      destruct oa as [x|], ob as [y|]; injection E as <- <-;
        (split; [|split; [cbn [wfb]; tauto | cbn [depth]; lia]]); unfold spec; cbn [elems]; fold A; fold B;
        rewrite HAB, <- Ea1, <- Eb1.
      * rewrite Hsa, Hsb in *. rewrite app_length in La, Lb. cbn [length] in La, Lb.
        rewrite combine_app_eq by lia. rewrite map_app. reflexivity.
      * destruct Hsb as [Hb1 Hb2]. rewrite Hsa in La. rewrite Hb1 in Lb. rewrite app_length in La. cbn in La, Lb. lia.
      * destruct Hsa as [Ha1 Ha2]. rewrite Hsb in Lb. rewrite Ha1 in La. rewrite app_length in Lb. cbn in La, Lb. lia.
      * destruct Hsa as [Ha1 Ha2]. rewrite Ha1, Ha2. cbn. auto.
    + destruct (step f false s1) as [oa a'] eqn:Ea.
      destruct (IHf false b s1 oa a' Hdir Hwa Hda Ea) as (Hsa & Hwa' & Hda').
      destruct oa as [x|].
      * destruct (step f false s2) as [ob b'] eqn:Eb.
        destruct (IHf false b s2 ob b' Hdir Hwb Hdb Eb) as (Hsb & Hwb' & Hdb').
        destruct ob as [y|]; injection E as <- <-; fin.
        { rewrite Hsa, Hsb. reflexivity. }
        { destruct Hsb as [-> ->]. rewrite !combine_nil. auto. }
      * injection E as <- <-. fin. destruct Hsa as [-> ->]. auto.
  - (* IMap *)
    assert (Hdi : depth s <= f) by lia.
    destruct (step f back s) as [oi i'] eqn:Ei. injection E as <- <-.
    destruct (IHf back b s oi i' Hdir Hw Hdi Ei) as (Hs & Hw' & Hd').
    destruct oi as [x|]; cbn [option_map]; fin.
    + destruct back; rewrite Hs; [rewrite map_app|]; reflexivity.
    + destruct Hs as [-> ->]. auto.
  - (* IMapS *)
    destruct Hw as [-> Hw]. assert (back = false) as -> by (destruct back; [discriminate (Hdir eq_refl) | reflexivity]).
    assert (Hdi : depth s <= f) by lia.
    destruct (step f false s) as [oi i'] eqn:Ei.
    destruct (IHf false false s oi i' Hdir Hw Hdi Ei) as (Hs & Hw' & Hd').
    destruct oi as [x|].
    + destruct (g st x) as [st' y] eqn:Eg. injection E as <- <-. fin.
      rewrite Hs. cbn [run]. rewrite Eg. reflexivity.
    + injection E as <- <-. fin. destruct Hs as [-> ->]. auto.
  - (* IRev *)
    assert (Hdi : depth s <= f) by lia.
    destruct (step f (negb back) s) as [oi i'] eqn:Ei. injection E as <- <-.
    assert (Hdir' : dir_ok (negb back) true) by (intros _; reflexivity).
    destruct (IHf (negb back) true s oi i' Hdir' Hw Hdi Ei) as (Hs & Hw' & Hd').
    destruct oi as [x|]; fin.
    + destruct back; cbn [negb] in Hs; rewrite Hs.
      * reflexivity.
      * rewrite rev_app_distr. reflexivity.
    + destruct Hs as [-> ->]. auto.
  - (* IEnum *)
    assert (Hdi : depth s <= f) by lia.
    destruct (step f back s) as [oi i'] eqn:Ei.
    destruct (IHf back b s oi i' Hdir Hw Hdi Ei) as (Hs & Hw' & Hd').
    destruct oi as [x|].
    + destruct back; injection E as <- <-; fin.
      * rewrite (wfb_exact i' (wfb_front _ _ Hw')). cbn [fst].
        rewrite Hs, app_length. cbn [length]. rewrite Nat.add_1_r, seq_S.
        rewrite combine_app_eq by (rewrite seq_length; reflexivity). rewrite map_app. reflexivity.
      * rewrite Hs. reflexivity.
    + injection E as <- <-. fin. destruct Hs as [-> ->]. auto.
  - (* IPad *)
    destruct Hw as [-> Hw]. assert (back = false) as -> by (destruct back; [discriminate (Hdir eq_refl) | reflexivity]).
    assert (Hdi : depth s <= f) by lia.
    destruct n as [|m].
    + injection E as <- <-. fin. auto.
    + destruct la.
      * destruct (step f false s) as [oi i'] eqn:Ei.
        destruct (IHf false false s oi i' Hdir Hw Hdi Ei) as (Hs & Hw' & Hd').
        destruct oi as [x|]; injection E as <- <-; fin.
        { rewrite Hs. reflexivity. }
        { destruct Hs as [-> _]. cbn. rewrite Nat.sub_0_r, firstn_nil. reflexivity. }
      * injection E as <- <-. fin. cbn. rewrite Nat.sub_0_r, firstn_nil. reflexivity.
  - (* ITrust *)
    destruct Hw as [Hl Hw]. assert (Hdi : depth s <= f) by lia.
    destruct (step f back s) as [oi i'] eqn:Ei. injection E as <- <-.
    destruct (IHf back b s oi i' Hdir Hw Hdi Ei) as (Hs & Hw' & Hd').
    split; [|split; [|cbn [depth]; lia]].
    + unfold spec in *. cbn [elems]. exact Hs.
    + cbn [wfb]. split; [|exact Hw']. unfold spec in Hs. destruct oi as [x|].
      * destruct back; rewrite Hs in Hl; rewrite ?app_length in Hl; cbn [length] in Hl; lia.
      * destruct Hs as [Hs1 Hs2]. rewrite Hs1 in Hl. rewrite Hs2. exact Hl.
  - (* ILin *)
    destruct (len <=? index) eqn:El.
    + apply Nat.leb_le in El. injection E as <- <-. cbn [spec elems wfb depth].
      replace (len - index) with 0 by lia. cbn. auto.
    + apply Nat.leb_gt in El. destruct back; injection E as <- <-; cbn [spec elems wfb depth]; (split; [|split; [lia|reflexivity]]).
      * rewrite (seq_snoc index (len - index)) by lia. rewrite map_app. cbn [map].
        replace (len - 1 - index) with (len - index - 1) by lia.
        replace (index + (len - index - 1)) with (len - 1) by lia. reflexivity.
      * rewrite (seq_cons index (len - index)) by lia. cbn [map].
        replace (len - S index) with (len - index - 1) by lia. reflexivity.
  - (* IBox *)
    assert (Hdi : depth s <= f) by lia.
    destruct (step f back s) as [oi i'] eqn:Ei. injection E as <- <-.
    destruct (IHf back b s oi i' Hdir Hw Hdi Ei) as (Hs & Hw' & Hd').
    fin. exact Hs.
Qed.

(* ---- next / next_back with the canonical fuel -------------------------------------------------- *)
Lemma nextd_sound back b s o s' :
  dir_ok back b -> wfb b s -> nextd back s = (o, s') ->
  spec back s o s' /\ wfb b s' /\ depth s' = depth s.
Proof.
  intros Hdir Hw E. unfold nextd in E.
  eapply (step_sound (depth s)); eauto.
Qed.


(* what plain safe iteration (call next() until None) yields *)
Inductive yields : it -> list val -> Prop :=
| Y_done s s' : next s = (None, s') -> yields s []
| Y_item s x s' l : next s = (Some x, s') -> yields s' l -> yields s (x :: l).

Lemma yields_fun s l1 : yields s l1 -> forall l2, yields s l2 -> l1 = l2.
Proof.
  induction 1 as [s s' E | s x s' l E Hy IH]; intros l2 H2; inversion H2 as [t t' E2 | t y t' l' E2 Hy2]; subst.
  - reflexivity.
  - rewrite E in E2. discriminate.
  - rewrite E in E2. discriminate.
  - rewrite E in E2. injection E2 as <- <-. f_equal. apply IH. exact Hy2.
Qed.

Lemma dir_front b : dir_ok false b.
Proof. intros H. discriminate. Qed.

Lemma yields_elems_aux : forall n s, wfb false s -> length (elems s) = n -> yields s (elems s).
Proof.
  induction n as [|n IH]; intros s Hw Hl; destruct (next s) as [o s'] eqn:E;
    destruct (nextd_sound false false s o s' (dir_front false) Hw E) as (Hs & Hw' & _); unfold spec in Hs;
    destruct o as [x|].
  - rewrite Hs in Hl. discriminate.
  - destruct Hs as [Hs _]. rewrite Hs. eapply Y_done. exact E.
  - rewrite Hs. eapply Y_item; [exact E|]. apply IH; [exact Hw'|]. rewrite Hs in Hl. cbn in Hl. lia.
  - destruct Hs as [Hs _]. rewrite Hs in Hl. discriminate.
Qed.

Lemma yields_elems s : wfb false s -> yields s (elems s).
Proof. intros Hw. exact (yields_elems_aux _ s Hw eq_refl). Qed.

Lemma yields_is_elems s l : wfb false s -> yields s l -> l = elems s.
Proof. intros Hw Hy. exact (yields_fun s l Hy _ (yields_elems s Hw)). Qed.

Lemma consume_wf b : forall cs s, (forall c, In c cs -> dir_ok c b) -> wfb b s -> wfb b (consume cs s).
Proof.
  induction cs as [|c cs IH]; intros s Hc Hw; [exact Hw|].
  cbn [consume]. destruct (nextd c s) as [o s'] eqn:E. cbn [snd].
  apply IH; [intros c' Hin; apply Hc; right; exact Hin|].
  destruct (nextd_sound c b s o s' (Hc c (or_introl eq_refl)) Hw E) as (_ & Hw' & _). exact Hw'.
Qed.

(* the central statement: after any admissible consumption the announced bounds are the true count *)
Lemma hint_exact_consume b cs s l :
  (forall c, In c cs -> dir_ok c b) -> wfb b s -> yields (consume cs s) l ->
  size_hint (consume cs s) = (length l, Some (length l)).
Proof.
  intros Hc Hw Hy. pose proof (wfb_front _ _ (consume_wf b cs s Hc Hw)) as Hw'.
  rewrite (yields_is_elems _ _ Hw' Hy). apply wfb_exact. exact Hw'.
Qed.

Lemma fronts_ok b k : forall c, In c (repeat false k) -> dir_ok c b.
Proof. intros c Hin. apply repeat_spec in Hin. subst c. apply dir_front. Qed.

Lemma all_dirs_ok cs : forall c : bool, In c cs -> dir_ok c true.
Proof. intros c _ _. reflexivity. Qed.

(* the executable drain agrees with the relation *)
Lemma drain_n_elems : forall k s, wfb false s -> length (elems s) < k -> drain_n k s = elems s.
Proof.
  induction k as [|k IH]; intros s Hw Hl; [lia|].
  cbn [drain_n]. destruct (next s) as [o s'] eqn:E.
  destruct (nextd_sound false false s o s' (dir_front false) Hw E) as (Hs & Hw' & _). unfold spec in Hs.
  destruct o as [x|].
  - rewrite Hs. f_equal. apply IH; [exact Hw'|]. rewrite Hs in Hl. cbn in Hl. lia.
  - destruct Hs as [Hs _]. rewrite Hs. reflexivity.
Qed.

Lemma drain_elems s : wfb false s -> drain s = elems s.
Proof. intros Hw. unfold drain. apply drain_n_elems; [exact Hw | lia]. Qed.

(* ---- the raw collector -------------------------------------------------------------------------- *)
Lemma firstn_len_app {A} (l1 l2 : list A) : firstn (length l1) (l1 ++ l2) = l1.
Proof. induction l1 as [|a l1 IH]; [destruct l2; reflexivity|]. cbn. f_equal. exact IH. Qed.
Lemma skipn_len_app {A} (l1 l2 : list A) : skipn (length l1) (l1 ++ l2) = l2.
Proof. induction l1 as [|a l1 IH]; [reflexivity|]. cbn. exact IH. Qed.

Lemma skipn_S_len_app {A} (l1 l2 : list A) x : skipn (S (length l1)) (l1 ++ x :: l2) = l2.
Proof. induction l1 as [|a l1 IH]; [reflexivity|]. cbn [length app]. rewrite skipn_cons. exact IH. Qed.

Lemma write_all_exact : forall items done k,
  length items = k ->
  write_all (map Some done ++ repeat None k) (length done) items = Some (map Some (done ++ items)).
Proof.
  induction items as [|x r IH]; intros done k Hk.
  - cbn in Hk. subst k. cbn. rewrite !app_nil_r. reflexivity.
  - destruct k as [|k]; [discriminate|]. cbn [write_all].
    assert (Hlt : (length done <? length (map Some done ++ repeat None (S k))) = true).
    { apply Nat.ltb_lt. rewrite app_length, map_length, repeat_length. lia. }
    rewrite Hlt.
    assert (H1 : firstn (length done) (map Some done ++ repeat None (S k)) = map Some done).
    { rewrite <- (map_length Some done) at 1. apply firstn_len_app. }
    assert (H2 : skipn (S (length done)) (map Some done ++ repeat None (S k)) = repeat (@None val) k).
    { rewrite <- (map_length Some done) at 1. cbn [repeat]. apply skipn_S_len_app. }
    rewrite H1, H2.
    replace (map Some done ++ Some x :: repeat None k) with (map Some (done ++ [x]) ++ repeat None k)
      by (rewrite map_app, <- app_assoc; reflexivity).
    replace (S (length done)) with (length (done ++ [x])) by (rewrite app_length; cbn; lia).
    rewrite IH by (cbn in Hk; lia). rewrite <- app_assoc. reflexivity.
Qed.

Lemma all_init_map : forall l, all_init (map Some l) = Some l.
Proof. induction l as [|a l IH]; [reflexivity|]. cbn. rewrite IH. reflexivity. Qed.

Lemma collect_items_exact items : collect_items (Some (length items)) items = CDone items.
Proof.
  unfold collect_items. pose proof (write_all_exact items [] _ eq_refl) as H. cbn [map app length] in H.
  rewrite H, all_init_map. reflexivity.
Qed.

Lemma collect_raw_safe s : wfb false s -> collect_raw s = CDone (elems s).
Proof.
  intros Hw. unfold collect_raw. rewrite (drain_elems s Hw), (wfb_exact s Hw). cbn [snd].
  apply collect_items_exact.
Qed.

(* an announced bound that is too small overflows, one that is too large exposes uninitialised slots *)
Lemma write_all_overflow : forall items buf ptr, length buf < ptr + length items -> length buf >= ptr ->
  write_all buf ptr items = None.
Proof.
  induction items as [|x r IH]; intros buf ptr H1 H2; [cbn in H1; lia|].
  cbn [write_all]. destruct (ptr <? length buf) eqn:E; [|reflexivity].
  apply Nat.ltb_lt in E. apply IH.
  - rewrite app_length, firstn_length. cbn [length]. rewrite skipn_length. cbn [length] in H1. lia.
  - rewrite app_length, firstn_length. cbn [length]. rewrite skipn_length. lia.
Qed.

(* ---- the adaptors keep well-formedness and (where they claim to) the length ---------------------- *)
Lemma tlen_exact s : wfb false s -> tlen s = Ok (length (elems s)).
Proof. intros Hw. unfold tlen. rewrite (wfb_exact s Hw). reflexivity. Qed.

Lemma nabs_lt len n : len_le_nabs len n = false -> n_abs n < len.
Proof. unfold len_le_nabs, n_abs. intros H. apply Z.leb_gt in H. lia. Qed.

Lemma shift_wf n v s : wfb false s ->
  exists s', shift n v s = Ok s' /\ wfb false s' /\ length (elems s') = length (elems s).
Proof.
  intros Hw. unfold shift. rewrite (tlen_exact s Hw). cbn [bind].
  destruct (len_le_nabs (length (elems s)) n) eqn:Eg.
  { eexists. split; [reflexivity|]. cbn [wfb elems]. rewrite repeat_length. auto. }
  apply nabs_lt in Eg.
  destruct (0 <? n)%Z.
  { unfold usub. replace (n_abs n <=? length (elems s)) with true by (symmetry; apply Nat.leb_le; lia).
    cbn [bind]. eexists. split; [reflexivity|]. cbn [wfb elems].
    rewrite app_length, repeat_length, firstn_length. repeat split; try assumption; lia. }
  destruct (n <? 0)%Z.
  { eexists. split; [reflexivity|]. cbn [wfb elems].
    rewrite app_length, repeat_length, skipn_length. repeat split; try assumption; lia. }
  eexists. split; [reflexivity|]. cbn [wfb elems]. auto.
Qed.

Lemma vshift_wf n v s : wfb false s ->
  exists s', vshift n v s = Ok s' /\ wfb false s' /\ length (elems s') = length (elems s).
Proof. apply shift_wf. Qed.

Lemma lag_nonpos_wf h na value xs : na < length xs ->
  wfb false (lag_nonpos h na value xs) /\ length (elems (lag_nonpos h na value xs)) = length xs.
Proof.
  intros Hlt. unfold lag_nonpos. cbn [wfb elems].
  rewrite app_length, repeat_length, !map_length, combine_length, skipn_length.
  repeat split; auto; lia.
Qed.

Lemma vdiff_wf n value xs :
  exists s', vdiff n value xs = Ok s' /\ wfb false s' /\ length (elems s') = length xs.
Proof.
  unfold vdiff. cbv zeta. destruct (len_le_nabs (length xs) n) eqn:Eg.
  { eexists. split; [reflexivity|]. cbn [wfb elems]. rewrite repeat_length. auto. }
  apply nabs_lt in Eg.
  destruct (0 <? n)%Z.
  { unfold usub. replace (n_abs n <=? length xs) with true by (symmetry; apply Nat.leb_le; lia).
    cbn [bind]. eexists. split; [reflexivity|]. cbn [wfb elems].
    rewrite app_length, repeat_length, !map_length, combine_length, firstn_length, skipn_length.
    repeat split; auto; lia. }
  eexists. split; [reflexivity|]. apply lag_nonpos_wf. exact Eg.
Qed.

Lemma vpct_change_wf n xs :
  exists s', vpct_change n xs = Ok s' /\ wfb false s' /\ length (elems s') = length xs.
Proof.
  unfold vpct_change. cbv zeta. destruct (len_le_nabs (length xs) n) eqn:Eg.
  { eexists. split; [reflexivity|]. cbn [wfb elems]. rewrite repeat_length. auto. }
  apply nabs_lt in Eg.
  destruct (0 <? n)%Z.
  { unfold usub. replace (n_abs n <=? length xs) with true by (symmetry; apply Nat.leb_le; lia).
    cbn [bind]. eexists. split; [reflexivity|]. cbn [wfb elems].
    rewrite !map_length, combine_length, app_length, repeat_length, firstn_length.
    repeat split; auto; lia. }
  eexists. split; [reflexivity|]. apply lag_nonpos_wf. exact Eg.
Qed.

Lemma ffill_wf v s : wfb false s -> wfb false (ffill v s) /\ length (elems (ffill v s)) = length (elems s).
Proof. intros Hw. cbn [ffill wfb elems]. rewrite run_len. auto. Qed.

Lemma fill_wf b v s : wfb b s -> wfb b (fill v s) /\ length (elems (fill v s)) = length (elems s).
Proof. intros Hw. cbn [fill wfb elems]. rewrite map_length. auto. Qed.

Lemma vabs_wf b s : wfb b s -> wfb b (vabs s) /\ length (elems (vabs s)) = length (elems s).
Proof. intros Hw. cbn [vabs wfb elems]. rewrite map_length. auto. Qed.

Lemma vclip_wf b lo hi s : wfb b s -> wfb b (vclip lo hi s) /\ length (elems (vclip lo hi s)) = length (elems s).
Proof.
  intros Hw. unfold vclip. destruct (not_none lo), (not_none hi); cbn [wfb elems]; rewrite ?map_length; auto.
Qed.

Lemma bfill_wf v s : wfb true s ->
  exists s', bfill v s = Ok s' /\ wfb true s' /\ length (elems s') = length (elems s).
Proof.
  intros Hw. unfold bfill.
  assert (Hw2 : wfb false (IMapS (fill_f v) VNull (IRev s))) by (cbn [wfb]; auto).
  rewrite (collect_raw_safe _ Hw2). eexists. split; [reflexivity|]. cbn [wfb elems].
  rewrite rev_length, run_len, rev_length. auto.
Qed.

Lemma vcut_wf tmin tmax bins labels right add s s' : wfb false s ->
  vcut tmin tmax bins labels right add s = Some s' ->
  wfb false s' /\ length (elems s') = length (elems s).
Proof.
  intros Hw. unfold vcut.
  destruct add; [destruct (negb (length labels =? length bins + 1)) | destruct (negb (length labels + 1 =? length bins))];
    intros E; try discriminate; injection E as <-; cbn [wfb elems]; rewrite map_length; auto.
Qed.

Lemma filter_length_le {A} (p : A -> bool) l : length (filter p l) <= length l.
Proof. induction l as [|a l IH]; [auto|]. cbn. destruct (p a); cbn; lia. Qed.

Lemma pad_length la i v n : length (elems (IPad la i v n)) = n.
Proof. cbn [elems]. cbv zeta. rewrite app_length, firstn_length, repeat_length. lia. Qed.

Lemma vpartition_wf kth sort xs :
  wfb false (vpartition kth sort xs) /\ length (elems (vpartition kth sort xs)) = kth + 1.
Proof.
  unfold vpartition.
  destruct (andb (count_valid xs =? kth + 1) (negb sort)) eqn:E1.
  { apply andb_true_iff in E1. destruct E1 as [E1 _]. apply Nat.eqb_eq in E1.
    cbn [wfb elems]. unfold count_valid in E1. auto. }
  destruct (count_valid xs <=? kth + 1) eqn:E2.
  { destruct (negb sort); cbn [wfb elems]; cbv zeta; rewrite !app_length, !firstn_length, !repeat_length;
      repeat split; auto; lia. }
  apply Nat.leb_gt in E2. cbn [wfb elems]. rewrite firstn_length.
  unfold count_valid in E2. pose proof (filter_length_le not_none xs). repeat split; lia.
Qed.

Lemma varg_partition_wf kth sort xs :
  wfb false (varg_partition kth sort xs) /\ length (elems (varg_partition kth sort xs)) = kth + 1.
Proof.
  unfold varg_partition.
  destruct (count_valid xs <=? kth + 1) eqn:E2.
  { destruct (negb sort); cbn [wfb elems]; cbv zeta; rewrite !app_length, !firstn_length, !repeat_length;
      repeat split; auto; lia. }
  apply Nat.leb_gt in E2. cbn [wfb elems]. rewrite firstn_length, map_length, seq_length.
  unfold count_valid in E2. pose proof (filter_length_le not_none xs). repeat split; lia.
Qed.

Lemma winsorize_wf xs : wfb true (winsorize xs) /\ length (elems (winsorize xs)) = length xs.
Proof. cbn. rewrite map_length. auto. Qed.

Lemma rolling_wf w xs : 1 <= w ->
  exists s', rolling_custom_iter w xs = Ok s' /\ wfb false s' /\ length (elems s') = length xs.
Proof.
  intros Hw. unfold rolling_custom_iter, usub.
  replace (1 <=? w) with true by (symmetry; apply Nat.leb_le; exact Hw). cbn [bind].
  eexists. split; [reflexivity|]. cbn [wfb elems].
  rewrite !map_length, combine_length, app_length, repeat_length, !map_length, !seq_length.
  repeat split; auto; lia.
Qed.

Lemma linspace_wf a b n : wfb true (linspace a b n) /\ length (elems (linspace a b n)) = n.
Proof. cbn. rewrite map_length, seq_length. split; lia. Qed.

Lemma range_f_wf a b st : wfb true (range_f a b st).
Proof. cbn. lia. Qed.

Lemma range_i_wf a b st s : range_i a b st = Ok s -> wfb true s.
Proof.
  unfold range_i. destruct (andb (negb (range_empty a b st)) (st =? 0)%Z); [discriminate|].
  intros E. injection E as <-. cbn. lia.
Qed.

(* the count of the repaired range: nothing when the direction is empty, else ceil((b - a) / step) *)
Lemma range_count_spec a b st : (st <> 0)%Z ->
  (range_empty a b st = true -> range_count a b st = 0) /\
  (range_empty a b st = false ->
     let c := Z.of_nat (range_count a b st) in
     (0 < c /\ Z.abs st * (c - 1) < Z.abs (b - a) <= Z.abs st * c)%Z).
Proof.
  intros Hst. unfold range_count. split; intros He; rewrite He; [reflexivity|].
  replace (st =? 0)%Z with false by (symmetry; apply Z.eqb_neq; exact Hst).
  cbv zeta. unfold range_empty in He.
  assert (Hd : (0 < Z.abs (b - a))%Z).
  { destruct (0 <? st)%Z; [apply Z.leb_gt in He | apply Z.leb_gt in He]; lia. }
  assert (Hs : (0 < Z.abs st)%Z) by lia.
  set (d := Z.abs (b - a)) in *. set (s := Z.abs st) in *.
  pose proof (Z.div_mod (d + s - 1) s ltac:(lia)) as Hdm.
  pose proof (Z.mod_pos_bound (d + s - 1) s Hs) as Hm.
  assert (Hq : (0 < (d + s - 1) / s)%Z) by (apply Z.div_str_pos; lia).
  rewrite Z2Nat.id by lia. nia.
Qed.

Lemma create_safe s : wfb false s -> create s = CDone (elems s).
Proof.
  intros Hw. unfold create. rewrite collect_raw_safe by (cbn [wfb]; exact Hw).
  cbn [elems]. rewrite map_id. reflexivity.
Qed.

(* ---- pipelines of the adaptor grammar ----------------------------------------------------------- *)
Lemma apply_stage_wf g s s' : wfb false s -> apply_stage g s = Ok s' -> wfb false s'.
Proof.
  intros Hw. destruct g; cbn [apply_stage].
  - destruct (shift_wf n v s Hw) as (t & E & Ht & _). rewrite E. intros X. injection X as <-. exact Ht.
  - destruct (vshift_wf n v s Hw) as (t & E & Ht & _). rewrite E. intros X. injection X as <-. exact Ht.
  - intros X. injection X as <-. apply ffill_wf. exact Hw.
  - intros X. injection X as <-. apply fill_wf. exact Hw.
  - intros X. injection X as <-. apply vclip_wf. exact Hw.
  - intros X. injection X as <-. apply vabs_wf. exact Hw.
  - intros X. injection X as <-. cbn [wfb]. auto.
  - intros X. injection X as <-. cbn [wfb]. auto.
  - intros X. injection X as <-. cbn [wfb]. auto.
  - intros X. injection X as <-. cbn [wfb]. auto.
  - intros X. injection X as <-. cbn [wfb]. auto.
  - rewrite (tlen_exact s Hw). cbn [bind]. intros X. injection X as <-. cbn [wfb]. auto.
  - intros X. injection X as <-. apply consume_wf; [apply fronts_ok | exact Hw].
Qed.

Lemma apply_stages_wf : forall gs s s', wfb false s -> apply_stages gs s = Ok s' -> wfb false s'.
Proof.
  induction gs as [|g gs IH]; intros s s' Hw E; cbn [apply_stages] in E.
  - injection E as <-. exact Hw.
  - destruct (apply_stage g s) as [t|k] eqn:Eg; cbn [bind] in E; [|discriminate].
    apply (IH (IBox t) s'); [|exact E]. cbn [wfb]. exact (apply_stage_wf g s t Hw Eg).
Qed.

Lemma build_source_wf src s : build_source src = Ok s -> wfb false s.
Proof.
  destruct src; cbn [build_source]; intros E.
  - injection E as <-. exact I.
  - injection E as <-. exact I.
  - destruct (bfill_wf value (IList xs) I) as (t & Et & Ht & _). rewrite Et in E. injection E as <-.
    apply wfb_weaken. exact Ht.
  - destruct (vdiff_wf n value xs) as (t & Et & Ht & _).
    rewrite Et in E. injection E as <-. exact Ht.
  - destruct w as [|w].
    + cbn in E. discriminate.
    + destruct (rolling_wf (S w) xs) as (t & Et & Ht & _); [lia|]. rewrite Et in E. cbn [bind] in E.
      injection E as <-. cbn [wfb]. exact Ht.
  - injection E as <-. apply wfb_weaken. apply linspace_wf.
  - injection E as <-. exact I.
Qed.

Lemma build_wf src gs s : build src gs = Ok s -> wfb false s.
Proof.
  unfold build. destruct (build_source src) as [t|k] eqn:Es; cbn [bind]; [|discriminate].
  intros E. apply (apply_stages_wf gs (IBox t)); [|exact E]. cbn [wfb]. exact (build_source_wf src t Es).
Qed.

(* summary lemmas used by Props/C09.v *)
Lemma hint_exact_front s k l :
  wfb false s -> yields (consume (repeat false k) s) l ->
  size_hint (consume (repeat false k) s) = (length l, Some (length l)).
Proof. intros Hw Hy. exact (hint_exact_consume false _ s l (fronts_ok false k) Hw Hy). Qed.

Lemma hint_exact_both s cs l :
  wfb true s -> yields (consume cs s) l ->
  size_hint (consume cs s) = (length l, Some (length l)).
Proof. intros Hw Hy. exact (hint_exact_consume true cs s l (all_dirs_ok cs) Hw Hy). Qed.

Lemma hint_exact_pipeline src gs s k l :
  build src gs = Ok s -> yields (consume (repeat false k) s) l ->
  size_hint (consume (repeat false k) s) = (length l, Some (length l)).
Proof. intros Hb. apply hint_exact_front. exact (build_wf src gs s Hb). Qed.

Lemma collect_after_consume b cs s l :
  (forall c, In c cs -> dir_ok c b) -> wfb b s -> yields (consume cs s) l ->
  collect_raw (consume cs s) = CDone l.
Proof.
  intros Hc Hw Hy. pose proof (wfb_front _ _ (consume_wf b cs s Hc Hw)) as Hw'.
  rewrite (yields_is_elems _ _ Hw' Hy). apply collect_raw_safe. exact Hw'.
Qed.

(* CDone l means: capacity = length l, slot k was written once with the k-th item, nothing else *)
Lemma collect_items_done hint items l :
  collect_items hint items = CDone l -> hint = Some (length items) /\ l = items.
Proof.
  unfold collect_items. destruct hint as [cap|]; [|discriminate].
  destruct (write_all (repeat None cap) 0 items) as [buf|] eqn:Ew; [|discriminate].
  destruct (all_init buf) as [l'|] eqn:Ei; [|discriminate]. intros E. injection E as <-.
  destruct (Nat.lt_trichotomy (length items) cap) as [Hlt|[Heq|Hgt]].
  - (* fewer items than slots: a slot stays None, all_init fails *)
    exfalso.
    assert (G : forall its done k, length its < k ->
              forall buf, write_all (map Some done ++ repeat None k) (length done) its = Some buf ->
              all_init buf = None).
    { induction its as [|x r IH]; intros done k Hk buf0 Hb.
      - cbn in Hb. injection Hb as <-. destruct k; [cbn in Hk; lia|]. cbn [repeat].
        clear. induction done as [|d done IH]; [reflexivity|]. cbn. rewrite IH. reflexivity.
      - destruct k as [|k]; [cbn in Hk; lia|]. cbn [write_all] in Hb.
        assert (Hlt' : (length done <? length (map Some done ++ repeat None (S k))) = true).
        { apply Nat.ltb_lt. rewrite app_length, map_length, repeat_length. lia. }
        rewrite Hlt' in Hb.
        assert (H1 : firstn (length done) (map Some done ++ repeat None (S k)) = map Some done).
        { rewrite <- (map_length Some done) at 1. apply firstn_len_app. }
        assert (H2 : skipn (S (length done)) (map Some done ++ repeat None (S k)) = repeat (@None val) k).
        { rewrite <- (map_length Some done) at 1. cbn [repeat]. apply skipn_S_len_app. }
        rewrite H1, H2 in Hb.
        replace (map Some done ++ Some x :: repeat None k) with (map Some (done ++ [x]) ++ repeat None k) in Hb
          by (rewrite map_app, <- app_assoc; reflexivity).
        replace (S (length done)) with (length (done ++ [x])) in Hb by (rewrite app_length; cbn; lia).
        apply (IH (done ++ [x]) k); [cbn in Hk; lia | exact Hb]. }
    specialize (G items [] cap Hlt buf Ew). rewrite G in Ei. discriminate.
  - subst cap. pose proof (write_all_exact items [] _ eq_refl) as H. cbn [map app length] in H.
    rewrite H in Ew. injection Ew as <-. rewrite all_init_map in Ei. injection Ei as <-. auto.
  - exfalso. rewrite write_all_overflow in Ew; [discriminate | rewrite repeat_length; lia | lia].
Qed.
