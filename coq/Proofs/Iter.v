(* Proofs/Iter.v — lemmas about the iterator-state model (property C09). *)
From Tevec Require Import Base.Prelude Model.Iter.
Local Open Scope nat_scope.

(* every model state has an upper bound (no unbounded source is a node of its own) *)
Lemma size_hint_upper_some : forall s, exists u, snd (size_hint s) = Some u.
Proof.
  induction s; cbn [size_hint fst snd]; eauto.
  - destruct IHs1 as [u1 H1], IHs2 as [u2 H2]. destruct la, lb; cbn [fst snd]; eauto.
    rewrite H1, H2. cbn. eauto.
  - destruct IHs as [u H]. destruct (n =? 0); cbn [snd]; eauto.
    rewrite H. destruct (u <? n); eauto.
  - destruct IHs as [u H]. rewrite H. cbn. eauto.
  - destruct IHs1 as [u1 H1], IHs2 as [u2 H2]. rewrite H1, H2. cbn. eauto.
Qed.

(* ---- well-formedness ---------------------------------------------------------------------------
   wfb false s : s may be consumed from the front   (every ITrust below announces the true count)
   wfb true  s : s may be consumed from both ends   (additionally: no FnMut map — its result depends on
                 the order of the calls — and no padded take, which std does not make double-ended)    *)
Fixpoint wfb (b : bool) (s : it) : Prop :=
  match s with
  | IList _ | IRange _ _ | IRepeatN _ _ => True
  | ILin _ _ index len => index <= len
  | IChain _ _ x y | IZip x y => wfb b x /\ wfb b y
  | ITake i _ | ISkip i _ | IEnum i _ | IMap _ i | IBox i => wfb b i
  | IMapS _ _ i => b = false /\ wfb false i
  | IPad _ i _ _ => b = false /\ wfb false i
  | IRev i => wfb true i
  | ITrust i len => len = length (elems i) /\ wfb b i
  end.

Lemma wfb_weaken : forall s, wfb true s -> wfb false s.
Proof.
  induction s; cbn [wfb]; intros H; try tauto; destruct H as [H _]; discriminate.
Qed.

Lemma wfb_any : forall b s, wfb true s -> wfb b s.
Proof. intros [] s H; [exact H | apply wfb_weaken; exact H]. Qed.

Lemma wfb_front b s : wfb b s -> wfb false s.
Proof. destruct b; [apply wfb_weaken | auto]. Qed.

Definition exact (s : it) : Prop :=
  size_hint s = (length (elems s), Some (length (elems s))).

Lemma run_len {St X O} (g : St -> X -> St * O) s l : length (run g s l) = length l.
Proof. apply run_length. Qed.

Lemma wfb_exact : forall s, wfb false s -> exact s.
Proof.
  unfold exact. induction s; cbn [wfb size_hint elems]; intros H.
  - reflexivity.
  - rewrite map_length, seq_length. reflexivity.
  - rewrite repeat_length. reflexivity.
  - destruct H as [Ha Hb]. specialize (IHs1 Ha). specialize (IHs2 Hb).
    rewrite app_length. destruct la, lb; cbn [length]; rewrite ?IHs1, ?IHs2; cbn [fst snd oadd];
      rewrite ?Nat.add_0_r; reflexivity.
  - specialize (IHs H). rewrite IHs. cbn [fst snd]. rewrite firstn_length.
    destruct (n =? 0) eqn:E.
    + apply Nat.eqb_eq in E. subst n. reflexivity.
    + destruct (length (elems s) <? n) eqn:E2.
      * apply Nat.ltb_lt in E2. f_equal; [lia | f_equal; lia].
      * apply Nat.ltb_ge in E2. f_equal; [lia | f_equal; lia].
  - specialize (IHs H). rewrite IHs. cbn [fst snd option_map]. rewrite skipn_length. reflexivity.
  - destruct H as (Ha & Hb). specialize (IHs1 Ha). specialize (IHs2 Hb). rewrite IHs1, IHs2.
    cbn [fst snd omin]. rewrite map_length, combine_length. reflexivity.
  - specialize (IHs H). rewrite IHs, map_length. reflexivity.
  - destruct H as [_ H]. specialize (IHs H). rewrite IHs, run_len. reflexivity.
  - specialize (IHs (wfb_weaken _ H)). rewrite IHs, rev_length. reflexivity.
  - specialize (IHs H). rewrite IHs, map_length, combine_length, seq_length, Nat.min_id. reflexivity.
  - cbv zeta. rewrite app_length, firstn_length, repeat_length.
    assert (E : Nat.min n (length (if la then elems s else [])) + (n - length (if la then elems s else [])) = n) by lia.
    rewrite E. reflexivity.
  - destruct H as [-> _]. reflexivity.
  - rewrite map_length, seq_length. reflexivity.
  - exact (IHs H).
Qed.

(* ---- one call of next / next_back ------------------------------------------------------------- *)
Definition spec (back : bool) (s : it) (o : option val) (s' : it) : Prop :=
  match o with
  | Some x => if back then elems s = elems s' ++ [x] else elems s = x :: elems s'
  | None => elems s = [] /\ elems s' = []
  end.

(* the direction `back` is only allowed on states that are double-ended-well-formed *)
Definition dir_ok (back b : bool) : Prop := back = true -> b = true.

Definition sound_at (f : nat) : Prop :=
  forall back b s o s', dir_ok back b -> wfb b s -> depth s <= f -> step f back s = (o, s') ->
                        spec back s o s' /\ wfb b s' /\ depth s' = depth s.

Lemma repeat_snoc {A} (v : A) n : repeat v (S n) = repeat v n ++ [v].
Proof. induction n as [|n IH]; [reflexivity|]. cbn [repeat app] in *. rewrite <- IH. reflexivity. Qed.

(* Iterator::nth on a sound inner iterator: skips k items, returns the next *)
Lemma nth_by_fwd f (Hf : sound_at f) : forall k b i o i',
  wfb b i -> depth i <= f -> nth_by (step f false) k i = (o, i') ->
  match o with
  | Some x => skipn k (elems i) = x :: elems i'
  | None => skipn k (elems i) = [] /\ elems i' = []
  end /\ wfb b i' /\ depth i' = depth i.
Proof.
  induction k as [|k IH]; intros b i o i' Hw Hd E; cbn [nth_by] in E.
  - destruct (Hf false b i o i') as (Hs & Hw' & Hd'); try assumption; [intros X; discriminate|].
    split; [|split; assumption]. unfold spec in Hs. cbn [skipn]. exact Hs.
  - destruct (step f false i) as [o1 i1] eqn:E1.
    destruct (Hf false b i o1 i1) as (Hs & Hw1 & Hd1); try assumption; [intros X; discriminate|].
    unfold spec in Hs. destruct o1 as [x1|].
    + destruct (IH b i1 o i') as (Hs2 & Hw2 & Hd2); try assumption; [lia|].
      split; [|split; [assumption|lia]]. rewrite Hs. cbn [skipn]. exact Hs2.
    + injection E as <- <-. destruct Hs as [Hs1 Hs2]. split; [|split; assumption].
      rewrite Hs1. split; [destruct k; reflexivity | exact Hs2].
Qed.

Lemma seq_cons a n : 0 < n -> seq a n = a :: seq (S a) (n - 1).
Proof. intros H. destruct n; [lia|]. replace (S n - 1) with n by lia. reflexivity. Qed.

Lemma seq_snoc a n : 0 < n -> seq a n = seq a (n - 1) ++ [a + (n - 1)].
Proof. intros H. destruct n; [lia|]. replace (S n - 1) with n by lia. apply seq_S. Qed.

(* DoubleEndedIterator::nth_back on a sound inner iterator *)
Lemma nth_by_back f (Hf : sound_at f) : forall k i o i',
  wfb true i -> depth i <= f -> nth_by (step f true) k i = (o, i') ->
  match o with
  | Some x => exists D, length D = k /\ elems i = elems i' ++ x :: D
  | None => length (elems i) <= k /\ elems i' = []
  end /\ wfb true i' /\ depth i' = depth i.
Proof.
  assert (Hdir : dir_ok true true) by (intros _; reflexivity).
  induction k as [|k IH]; intros i o i' Hw Hd E; cbn [nth_by] in E.
  - destruct (Hf true true i o i' Hdir Hw Hd E) as (Hs & Hw' & Hd'). split; [|split; assumption].
    unfold spec in Hs. destruct o as [x|].
    + exists []. split; [reflexivity | exact Hs].
    + destruct Hs as [-> ->]. cbn. auto.
  - destruct (step f true i) as [o1 i1] eqn:E1.
    destruct (Hf true true i o1 i1 Hdir Hw Hd E1) as (Hs & Hw1 & Hd1). unfold spec in Hs.
    destruct o1 as [x1|].
    + destruct (IH i1 o i' Hw1 ltac:(lia) E) as (Hs2 & Hw2 & Hd2). split; [|split; [assumption|lia]].
      destruct o as [x|].
      * destruct Hs2 as (D & HD & HE). exists (D ++ [x1]). split; [rewrite app_length; cbn; lia|].
        rewrite Hs, HE, <- app_assoc. reflexivity.
      * destruct Hs2 as [Hl He]. split; [|exact He]. rewrite Hs, app_length. cbn. lia.
    + injection E as <- <-. destruct Hs as [Hs1 Hs2]. split; [|split; assumption].
      rewrite Hs1. cbn. split; [lia | exact Hs2].
Qed.

Lemma firstn_app_le {A} n (l1 l2 : list A) : n <= length l1 -> firstn n (l1 ++ l2) = firstn n l1.
Proof.
  intros H. rewrite firstn_app. replace (n - length l1) with 0 by lia. cbn. apply app_nil_r.
Qed.

Lemma drop_by_back f (Hf : sound_at f) : forall k i,
  wfb true i -> depth i <= f ->
  elems (drop_by (step f true) k i) = firstn (length (elems i) - k) (elems i)
  /\ wfb true (drop_by (step f true) k i) /\ depth (drop_by (step f true) k i) = depth i.
Proof.
  assert (Hdir : dir_ok true true) by (intros _; reflexivity).
  induction k as [|k IH]; intros i Hw Hd; cbn [drop_by].
  - rewrite Nat.sub_0_r, firstn_all. auto.
  - destruct (step f true i) as [o1 i1] eqn:E1. cbn [snd].
    destruct (Hf true true i o1 i1 Hdir Hw Hd E1) as (Hs & Hw1 & Hd1). unfold spec in Hs.
    destruct (IH i1 Hw1 ltac:(lia)) as (He & Hw2 & Hd2). split; [|split; [assumption|lia]].
    rewrite He. destruct o1 as [x1|].
    + rewrite Hs, app_length. cbn [length]. rewrite firstn_app_le by lia. f_equal. lia.
    + destruct Hs as [-> ->]. rewrite !firstn_nil. reflexivity.
Qed.

Lemma combine_app_eq {A B} (l1 l2 : list A) (m1 m2 : list B) :
  length l1 = length m1 -> combine (l1 ++ l2) (m1 ++ m2) = combine l1 m1 ++ combine l2 m2.
Proof.
  revert m1; induction l1 as [|a l1 IH]; intros [|b m1] H; try discriminate; [reflexivity|].
  cbn. f_equal. apply IH. cbn in H. lia.
Qed.

Lemma combine_firstn_both {A B} : forall n (l : list A) (m : list B),
  combine (firstn n l) (firstn n m) = firstn n (combine l m).
Proof.
  induction n as [|n IH]; intros [|a l] [|b m]; cbn; try reflexivity. f_equal. apply IH.
Qed.

Ltac fin := split; [|split; [cbn [wfb]; tauto | cbn [depth]; lia]]; unfold spec in *; cbn [elems].

Lemma step_sound : forall f, sound_at f.
Proof.
  induction f as [|f IHf]; intros back b s o s' Hdir Hw Hd E.
  { destruct s; cbn [depth] in Hd; lia. }
  destruct s; cbn [step] in E; cbn [wfb] in Hw; cbn [depth] in Hd.
  - (* IList *)
    destruct back.
    + destruct l as [|y l].
      * injection E as <- <-. cbn. auto.
      * injection E as <- <-. cbn [spec elems wfb depth]. split; [|auto].
        assert (Hne : y :: l <> []) by discriminate.
        exact (app_removelast_last (l:=y :: l) VNull Hne).
    + destruct l as [|y l]; injection E as <- <-; cbn; auto.
  - (* IRange *)
    destruct (a <? b0) eqn:Eab.
    + apply Nat.ltb_lt in Eab. destruct back; injection E as <- <-; cbn [spec elems wfb depth]; (split; [|auto]).
      * rewrite (seq_snoc a (b0 - a)) by lia. rewrite map_app. cbn [map].
        replace (b0 - 1 - a) with (b0 - a - 1) by lia. replace (a + (b0 - a - 1)) with (b0 - 1) by lia. reflexivity.
      * rewrite (seq_cons a (b0 - a)) by lia. cbn [map]. replace (b0 - S a) with (b0 - a - 1) by lia. reflexivity.
    + apply Nat.ltb_ge in Eab. injection E as <- <-. cbn [spec elems wfb depth].
      replace (b0 - a) with 0 by lia. cbn. auto.
  - (* IRepeatN *)
    destruct n as [|m]; injection E as <- <-; cbn [spec elems wfb depth]; [cbn; auto|].
    split; [|auto]. destruct back; [apply repeat_snoc | reflexivity].
  - (* IChain *)
    destruct Hw as [Hwa Hwb].
    assert (Hda : depth s1 <= f) by lia. assert (Hdb : depth s2 <= f) by lia.
    destruct back.
    + (* next_back: b first, then a *)
      destruct lb.
      * destruct (step f true s2) as [ob b'] eqn:Eb.
        destruct (IHf true b s2 ob b' Hdir Hwb Hdb Eb) as (Hsb & Hwb' & Hdb').
        destruct ob as [y|].
        { injection E as <- <-. fin. rewrite Hsb. rewrite app_assoc. reflexivity. }
        destruct Hsb as [Hb1 Hb2]. destruct la.
        { destruct (step f true s1) as [oa a'] eqn:Ea. injection E as <- <-.
          destruct (IHf true b s1 oa a' Hdir Hwa Hda Ea) as (Hsa & Hwa' & Hda').
          destruct oa as [x|]; fin; rewrite Hb1, !app_nil_r; [exact Hsa | tauto]. }
        { injection E as <- <-. fin. rewrite Hb1. cbn. auto. }
      * destruct la.
        { destruct (step f true s1) as [oa a'] eqn:Ea. injection E as <- <-.
          destruct (IHf true b s1 oa a' Hdir Hwa Hda Ea) as (Hsa & Hwa' & Hda').
          destruct oa as [x|]; fin; rewrite !app_nil_r; [exact Hsa | tauto]. }
        { injection E as <- <-. fin. cbn. auto. }
    + (* next: a first, then b *)
      destruct la.
      * destruct (step f false s1) as [oa a'] eqn:Ea.
        destruct (IHf false b s1 oa a' Hdir Hwa Hda Ea) as (Hsa & Hwa' & Hda').
        destruct oa as [x|].
        { injection E as <- <-. fin. rewrite Hsa. reflexivity. }
        destruct Hsa as [Ha1 Ha2]. destruct lb.
        { destruct (step f false s2) as [ob b'] eqn:Eb. injection E as <- <-.
          destruct (IHf false b s2 ob b' Hdir Hwb Hdb Eb) as (Hsb & Hwb' & Hdb').
          destruct ob as [y|]; fin; rewrite Ha1; cbn [app]; [exact Hsb | tauto]. }
        { injection E as <- <-. fin. rewrite Ha1. cbn. auto. }
      * destruct lb.
        { destruct (step f false s2) as [ob b'] eqn:Eb. injection E as <- <-.
          destruct (IHf false b s2 ob b' Hdir Hwb Hdb Eb) as (Hsb & Hwb' & Hdb').
          destruct ob as [y|]; fin; cbn [app]; [exact Hsb | tauto]. }
        { injection E as <- <-. fin. cbn. auto. }
  - (* ITake *)
    assert (Hdi : depth s <= f) by lia.
    destruct n as [|m].
    + injection E as <- <-. fin. destruct back; auto.
    + destruct back.
      * assert (b = true) as -> by (apply Hdir; reflexivity).
        destruct (nth_by (step f true) (fst (size_hint s) - S m) s) as [oi i'] eqn:Ei. injection E as <- <-.
        destruct (nth_by_back f IHf _ s oi i' Hw Hdi Ei) as (Hs & Hw' & Hd').
        rewrite (wfb_exact s (wfb_weaken _ Hw)) in Hs. cbn [fst] in Hs.
        destruct oi as [x|]; fin.
        { destruct Hs as (D & HD & HE). rewrite HE in *. rewrite app_length in HD. cbn [length] in HD.
          rewrite firstn_app.
          assert (Hle : length (elems i') <= m) by lia.
          rewrite (firstn_all2 (n:=S m)) by lia. rewrite (firstn_all2 (n:=m)) by lia. f_equal.
          replace (S m - length (elems i')) with (S (m - length (elems i'))) by lia. cbn [firstn]. f_equal.
          destruct D as [|d D]; [apply firstn_nil|]. cbn [length] in HD.
          replace (m - length (elems i')) with 0 by lia. reflexivity. }
        { destruct Hs as [Hl He]. assert (Hz : length (elems s) = 0) by lia.
          destruct (elems s); [|discriminate]. rewrite He, !firstn_nil. auto. }
      * destruct (step f false s) as [oi i'] eqn:Ei. injection E as <- <-.
        destruct (IHf false b s oi i' Hdir Hw Hdi Ei) as (Hs & Hw' & Hd').
        destruct oi as [x|]; fin.
        { rewrite Hs. reflexivity. }
        { destruct Hs as [-> ->]. rewrite !firstn_nil. auto. }
  - (* ISkip *)
    assert (Hdi : depth s <= f) by lia.
    destruct back.
    + assert (b = true) as -> by (apply Hdir; reflexivity).
      pose proof (wfb_exact s (wfb_weaken _ Hw)) as Hex.
      cbn [size_hint fst] in E. rewrite Hex in E. cbn [fst] in E.
      destruct (0 <? length (elems s) - n) eqn:Eg.
      * apply Nat.ltb_lt in Eg.
        destruct (step f true s) as [oi i'] eqn:Ei. injection E as <- <-.
        destruct (IHf true true s oi i' Hdir Hw Hdi Ei) as (Hs & Hw' & Hd').
        destruct oi as [x|]; fin.
        { rewrite Hs in *. rewrite app_length in Eg. cbn [length] in Eg.
          rewrite skipn_app. replace (n - length (elems i')) with 0 by lia. reflexivity. }
        { destruct Hs as [Hs _]. rewrite Hs in Eg. cbn in Eg. lia. }
      * apply Nat.ltb_ge in Eg. injection E as <- <-. fin.
        rewrite skipn_all2 by lia. auto.
    + destruct (nth_by (step f false) n s) as [oi i'] eqn:Ei. injection E as <- <-.
      destruct (nth_by_fwd f IHf n b s oi i' Hw Hdi Ei) as (Hs & Hw' & Hd').
      destruct oi as [x|]; fin; cbn [skipn]; tauto.
  - (* IZip *)
    destruct Hw as (Hwa & Hwb).
    assert (Hda : depth s1 <= f) by lia. assert (Hdb : depth s2 <= f) by lia.
    destruct back.
    + assert (b = true) as -> by (apply Hdir; reflexivity).
      rewrite (wfb_exact s1 (wfb_weaken _ Hwa)), (wfb_exact s2 (wfb_weaken _ Hwb)) in E. cbn [fst] in E.
      set (A := elems s1) in *. set (B := elems s2) in *.
      destruct (drop_by_back f IHf (length A - length B) s1 Hwa Hda) as (Ea1 & Hwa1 & Hda1).
      destruct (drop_by_back f IHf (length B - length A) s2 Hwb Hdb) as (Eb1 & Hwb1 & Hdb1).
      fold A in Ea1. fold B in Eb1.
      set (a1 := drop_by (step f true) (length A - length B) s1) in *.
      set (b1 := drop_by (step f true) (length B - length A) s2) in *.
      destruct (step f true a1) as [oa a2] eqn:Ea.
      destruct (step f true b1) as [ob b2] eqn:Eb.
      destruct (IHf true true a1 oa a2 Hdir Hwa1 ltac:(lia) Ea) as (Hsa & Hwa2 & Hda2).
      destruct (IHf true true b1 ob b2 Hdir Hwb1 ltac:(lia) Eb) as (Hsb & Hwb2 & Hdb2).
      unfold spec in Hsa, Hsb.
      set (M := Nat.min (length A) (length B)).
      replace (length A - (length A - length B)) with M in Ea1 by lia.
      replace (length B - (length B - length A)) with M in Eb1 by lia.
      assert (HAB : combine A B = combine (firstn M A) (firstn M B)).
      { rewrite combine_firstn_both. symmetry. apply firstn_all2. rewrite combine_length. lia. }
      assert (La : length (elems a1) = M) by (rewrite Ea1, firstn_length; lia).
      assert (Lb : length (elems b1) = M) by (rewrite Eb1, firstn_length; lia).
      destruct oa as [x|], ob as [y|]; injection E as <- <-;
        (split; [|split; [cbn [wfb]; tauto | cbn [depth]; lia]]); unfold spec; cbn [elems]; fold A; fold B;
        rewrite HAB, <- Ea1, <- Eb1.
      * rewrite Hsa, Hsb in *. rewrite app_length in La, Lb. cbn [length] in La, Lb.
        rewrite combine_app_eq by lia. rewrite map_app. reflexivity.
      * destruct Hsb as [Hb1 Hb2]. rewrite Hsa in La. rewrite Hb1 in Lb. rewrite app_length in La. cbn in La, Lb. lia.
      * destruct Hsa as [Ha1 Ha2]. rewrite Hsb in Lb. rewrite Ha1 in La. rewrite app_length in Lb. cbn in La, Lb. lia.
      * destruct Hsa as [Ha1 Ha2]. rewrite Ha1, Ha2. cbn. auto.
    + destruct (step f false s1) as [oa a'] eqn:Ea.
      destruct (IHf false b s1 oa a' Hdir Hwa Hda Ea) as (Hsa & Hwa' & Hda').
      destruct oa as [x|].
      * destruct (step f false s2) as [ob b'] eqn:Eb.
        destruct (IHf false b s2 ob b' Hdir Hwb Hdb Eb) as (Hsb & Hwb' & Hdb').
        destruct ob as [y|]; injection E as <- <-; fin.
        { rewrite Hsa, Hsb. reflexivity. }
        { destruct Hsb as [-> ->]. rewrite !combine_nil. auto. }
      * injection E as <- <-. fin. destruct Hsa as [-> ->]. auto.
  - (* IMap *)
    assert (Hdi : depth s <= f) by lia.
    destruct (step f back s) as [oi i'] eqn:Ei. injection E as <- <-.
    destruct (IHf back b s oi i' Hdir Hw Hdi Ei) as (Hs & Hw' & Hd').
    destruct oi as [x|]; cbn [option_map]; fin.
    + destruct back; rewrite Hs; [rewrite map_app|]; reflexivity.
    + destruct Hs as [-> ->]. auto.
  - (* IMapS *)
    destruct Hw as [-> Hw]. assert (back = false) as -> by (destruct back; [discriminate (Hdir eq_refl) | reflexivity]).
    assert (Hdi : depth s <= f) by lia.
    destruct (step f false s) as [oi i'] eqn:Ei.
    destruct (IHf false false s oi i' Hdir Hw Hdi Ei) as (Hs & Hw' & Hd').
    destruct oi as [x|].
    + destruct (g st x) as [st' y] eqn:Eg. injection E as <- <-. fin.
      rewrite Hs. cbn [run]. rewrite Eg. reflexivity.
    + injection E as <- <-. fin. destruct Hs as [-> ->]. auto.
  - (* IRev *)
    assert (Hdi : depth s <= f) by lia.
    destruct (step f (negb back) s) as [oi i'] eqn:Ei. injection E as <- <-.
    assert (Hdir' : dir_ok (negb back) true) by (intros _; reflexivity).
    destruct (IHf (negb back) true s oi i' Hdir' Hw Hdi Ei) as (Hs & Hw' & Hd').
    destruct oi as [x|]; fin.
    + destruct back; cbn [negb] in Hs; rewrite Hs.
      * reflexivity.
      * rewrite rev_app_distr. reflexivity.
    + destruct Hs as [-> ->]. auto.
  - (* IEnum *)
    assert (Hdi : depth s <= f) by lia.
    destruct (step f back s) as [oi i'] eqn:Ei.
    destruct (IHf back b s oi i' Hdir Hw Hdi Ei) as (Hs & Hw' & Hd').
    destruct oi as [x|].
    + destruct back; injection E as <- <-; fin.
      * rewrite (wfb_exact i' (wfb_front _ _ Hw')). cbn [fst].
        rewrite Hs, app_length. cbn [length]. rewrite Nat.add_1_r, seq_S.
        rewrite combine_app_eq by (rewrite seq_length; reflexivity). rewrite map_app. reflexivity.
      * rewrite Hs. reflexivity.
    + injection E as <- <-. fin. destruct Hs as [-> ->]. auto.
  - (* IPad *)
    destruct Hw as [-> Hw]. assert (back = false) as -> by (destruct back; [discriminate (Hdir eq_refl) | reflexivity]).
    assert (Hdi : depth s <= f) by lia.
    destruct n as [|m].
    + injection E as <- <-. fin. auto.
    + destruct la.
      * destruct (step f false s) as [oi i'] eqn:Ei.
        destruct (IHf false false s oi i' Hdir Hw Hdi Ei) as (Hs & Hw' & Hd').
        destruct oi as [x|]; injection E as <- <-; fin.
        { rewrite Hs. reflexivity. }
        { destruct Hs as [-> _]. cbn. rewrite Nat.sub_0_r, firstn_nil. reflexivity. }
      * injection E as <- <-. fin. cbn. rewrite Nat.sub_0_r, firstn_nil. reflexivity.
  - (* ITrust *)
    destruct Hw as [Hl Hw]. assert (Hdi : depth s <= f) by lia.
    destruct (step f back s) as [oi i'] eqn:Ei. injection E as <- <-.
    destruct (IHf back b s oi i' Hdir Hw Hdi Ei) as (Hs & Hw' & Hd').
    split; [|split; [|cbn [depth]; lia]].
    + unfold spec in *. cbn [elems]. exact Hs.
    + cbn [wfb]. split; [|exact Hw']. unfold spec in Hs. destruct oi as [x|].
      * destruct back; rewrite Hs in Hl; rewrite ?app_length in Hl; cbn [length] in Hl; lia.
      * destruct Hs as [Hs1 Hs2]. rewrite Hs1 in Hl. rewrite Hs2. exact Hl.
  - (* ILin *)
    destruct (len <=? index) eqn:El.
    + apply Nat.leb_le in El. injection E as <- <-. cbn [spec elems wfb depth].
      replace (len - index) with 0 by lia. cbn. auto.
    + apply Nat.leb_gt in El. destruct back; injection E as <- <-; cbn [spec elems wfb depth]; (split; [|split; [lia|reflexivity]]).
      * rewrite (seq_snoc index (len - index)) by lia. rewrite map_app. cbn [map].
        replace (len - 1 - index) with (len - index - 1) by lia.
        replace (index + (len - index - 1)) with (len - 1) by lia. reflexivity.
      * rewrite (seq_cons index (len - index)) by lia. cbn [map].
        replace (len - S index) with (len - index - 1) by lia. reflexivity.
  - (* IBox *)
    assert (Hdi : depth s <= f) by lia.
    destruct (step f back s) as [oi i'] eqn:Ei. injection E as <- <-.
    destruct (IHf back b s oi i' Hdir Hw Hdi Ei) as (Hs & Hw' & Hd').
    fin. exact Hs.
Qed.

(* ---- next / next_back with the canonical fuel -------------------------------------------------- *)
Lemma nextd_sound back b s o s' :
  dir_ok back b -> wfb b s -> nextd back s = (o, s') ->
  spec back s o s' /\ wfb b s' /\ depth s' = depth s.
Proof.
  intros Hdir Hw E. unfold nextd in E.
  eapply (step_sound (depth s)); eauto.
Qed.


(* what plain safe iteration (call next() until None) yields *)
Inductive yields : it -> list val -> Prop :=
| Y_done s s' : next s = (None, s') -> yields s []
| Y_item s x s' l : next s = (Some x, s') -> yields s' l -> yields s (x :: l).

Lemma yields_fun s l1 : yields s l1 -> forall l2, yields s l2 -> l1 = l2.
Proof.
  induction 1 as [s s' E | s x s' l E Hy IH]; intros l2 H2; inversion H2 as [t t' E2 | t y t' l' E2 Hy2]; subst.
  - reflexivity.
  - rewrite E in E2. discriminate.
  - rewrite E in E2. discriminate.
  - rewrite E in E2. injection E2 as <- <-. f_equal. apply IH. exact Hy2.
Qed.

Lemma dir_front b : dir_ok false b.
Proof. intros H. discriminate. Qed.

Lemma yields_elems_aux : forall n s, wfb false s -> length (elems s) = n -> yields s (elems s).
Proof.
  induction n as [|n IH]; intros s Hw Hl; destruct (next s) as [o s'] eqn:E;
    destruct (nextd_sound false false s o s' (dir_front false) Hw E) as (Hs & Hw' & _); unfold spec in Hs;
    destruct o as [x|].
  - rewrite Hs in Hl. discriminate.
  - destruct Hs as [Hs _]. rewrite Hs. eapply Y_done. exact E.
  - rewrite Hs. eapply Y_item; [exact E|]. apply IH; [exact Hw'|]. rewrite Hs in Hl. cbn in Hl. lia.
  - destruct Hs as [Hs _]. rewrite Hs in Hl. discriminate.
Qed.

Lemma yields_elems s : wfb false s -> yields s (elems s).
Proof. intros Hw. exact (yields_elems_aux _ s Hw eq_refl). Qed.

Lemma yields_is_elems s l : wfb false s -> yields s l -> l = elems s.
Proof. intros Hw Hy. exact (yields_fun s l Hy _ (yields_elems s Hw)). Qed.

Lemma consume_wf b : forall cs s, (forall c, In c cs -> dir_ok c b) -> wfb b s -> wfb b (consume cs s).
Proof.
  induction cs as [|c cs IH]; intros s Hc Hw; [exact Hw|].
  cbn [consume]. destruct (nextd c s) as [o s'] eqn:E. cbn [snd].
  apply IH; [intros c' Hin; apply Hc; right; exact Hin|].
  destruct (nextd_sound c b s o s' (Hc c (or_introl eq_refl)) Hw E) as (_ & Hw' & _). exact Hw'.
Qed.

(* the central statement: after any admissible consumption the announced bounds are the true count *)
Lemma hint_exact_consume b cs s l :
  (forall c, In c cs -> dir_ok c b) -> wfb b s -> yields (consume cs s) l ->
  size_hint (consume cs s) = (length l, Some (length l)).
Proof.
  intros Hc Hw Hy. pose proof (wfb_front _ _ (consume_wf b cs s Hc Hw)) as Hw'.
  rewrite (yields_is_elems _ _ Hw' Hy). apply wfb_exact. exact Hw'.
Qed.

Lemma fronts_ok b k : forall c, In c (repeat false k) -> dir_ok c b.
Proof. intros c Hin. apply repeat_spec in Hin. subst c. apply dir_front. Qed.

Lemma all_dirs_ok cs : forall c : bool, In c cs -> dir_ok c true.
Proof. intros c _ _. reflexivity. Qed.

(* the executable drain agrees with the relation *)
Lemma drain_n_elems : forall k s, wfb false s -> length (elems s) < k -> drain_n k s = elems s.
Proof.
  induction k as [|k IH]; intros s Hw Hl; [lia|].
  cbn [drain_n]. destruct (next s) as [o s'] eqn:E.
  destruct (nextd_sound false false s o s' (dir_front false) Hw E) as (Hs & Hw' & _). unfold spec in Hs.
  destruct o as [x|].
  - rewrite Hs. f_equal. apply IH; [exact Hw'|]. rewrite Hs in Hl. cbn in Hl. lia.
  - destruct Hs as [Hs _]. rewrite Hs. reflexivity.
Qed.

Lemma drain_elems s : wfb false s -> drain s = elems s.
Proof. intros Hw. unfold drain. apply drain_n_elems; [exact Hw | lia]. Qed.

(* ---- the raw collector -------------------------------------------------------------------------- *)
Lemma firstn_len_app {A} (l1 l2 : list A) : firstn (length l1) (l1 ++ l2) = l1.
Proof. induction l1 as [|a l1 IH]; [destruct l2; reflexivity|]. cbn. f_equal. exact IH. Qed.
Lemma skipn_len_app {A} (l1 l2 : list A) : skipn (length l1) (l1 ++ l2) = l2.
Proof. induction l1 as [|a l1 IH]; [reflexivity|]. cbn. exact IH. Qed.

Lemma skipn_S_len_app {A} (l1 l2 : list A) x : skipn (S (length l1)) (l1 ++ x :: l2) = l2.
Proof. induction l1 as [|a l1 IH]; [reflexivity|]. cbn [length app]. rewrite skipn_cons. exact IH. Qed.

Lemma write_all_exact : forall items done k,
  length items = k ->
  write_all (map Some done ++ repeat None k) (length done) items = Some (map Some (done ++ items)).
Proof.
  induction items as [|x r IH]; intros done k Hk.
  - cbn in Hk. subst k. cbn. rewrite !app_nil_r. reflexivity.
  - destruct k as [|k]; [discriminate|]. cbn [write_all].
    assert (Hlt : (length done <? length (map Some done ++ repeat None (S k))) = true).
    { apply Nat.ltb_lt. rewrite app_length, map_length, repeat_length. lia. }
    rewrite Hlt.
    assert (H1 : firstn (length done) (map Some done ++ repeat None (S k)) = map Some done).
    { rewrite <- (map_length Some done) at 1. apply firstn_len_app. }
    assert (H2 : skipn (S (length done)) (map Some done ++ repeat None (S k)) = repeat (@None val) k).
    { rewrite <- (map_length Some done) at 1. cbn [repeat]. apply skipn_S_len_app. }
    rewrite H1, H2.
    replace (map Some done ++ Some x :: repeat None k) with (map Some (done ++ [x]) ++ repeat None k)
      by (rewrite map_app, <- app_assoc; reflexivity).
    replace (S (length done)) with (length (done ++ [x])) by (rewrite app_length; cbn; lia).
    rewrite IH by (cbn in Hk; lia). rewrite <- app_assoc. reflexivity.
Qed.

Lemma all_init_map : forall l, all_init (map Some l) = Some l.
Proof. induction l as [|a l IH]; [reflexivity|]. cbn. rewrite IH. reflexivity. Qed.

Lemma collect_items_exact items : collect_items (Some (length items)) items = CDone items.
Proof.
  unfold collect_items. pose proof (write_all_exact items [] _ eq_refl) as H. cbn [map app length] in H.
  rewrite H, all_init_map. reflexivity.
Qed.

Lemma collect_raw_safe s : wfb false s -> collect_raw s = CDone (elems s).
Proof.
  intros Hw. unfold collect_raw. rewrite (drain_elems s Hw), (wfb_exact s Hw). cbn [snd].
  apply collect_items_exact.
Qed.

(* an announced bound that is too small overflows, one that is too large exposes uninitialised slots *)
Lemma write_all_overflow : forall items buf ptr, length buf < ptr + length items -> length buf >= ptr ->
  write_all buf ptr items = None.
Proof.
  induction items as [|x r IH]; intros buf ptr H1 H2; [cbn in H1; lia|].
  cbn [write_all]. destruct (ptr <? length buf) eqn:E; [|reflexivity].
  apply Nat.ltb_lt in E. apply IH.
  - rewrite app_length, firstn_length. cbn [length]. rewrite skipn_length. cbn [length] in H1. lia.
  - rewrite app_length, firstn_length. cbn [length]. rewrite skipn_length. lia.
Qed.

(* ---- the adaptors keep well-formedness and (where they claim to) the length ---------------------- *)
Lemma tlen_exact s : wfb false s -> tlen s = Ok (length (elems s)).
Proof. intros Hw. unfold tlen. rewrite (wfb_exact s Hw). reflexivity. Qed.

Lemma nabs_lt len n : len_le_nabs len n = false -> n_abs n < len.
Proof. unfold len_le_nabs, n_abs. intros H. apply Z.leb_gt in H. lia. Qed.

Lemma shift_wf n v s : wfb false s ->
  exists s', shift n v s = Ok s' /\ wfb false s' /\ length (elems s') = length (elems s).
Proof.
  intros Hw. unfold shift. rewrite (tlen_exact s Hw). cbn [bind].
  destruct (len_le_nabs (length (elems s)) n) eqn:Eg.
  { eexists. split; [reflexivity|]. cbn [wfb elems]. rewrite repeat_length. auto. }
  apply nabs_lt in Eg.
  destruct (0 <? n)%Z.
  { unfold usub. replace (n_abs n <=? length (elems s)) with true by (symmetry; apply Nat.leb_le; lia).
    cbn [bind]. eexists. split; [reflexivity|]. cbn [wfb elems].
    rewrite app_length, repeat_length, firstn_length. repeat split; try assumption; lia. }
  destruct (n <? 0)%Z.
  { eexists. split; [reflexivity|]. cbn [wfb elems].
    rewrite app_length, repeat_length, skipn_length. repeat split; try assumption; lia. }
  eexists. split; [reflexivity|]. cbn [wfb elems]. auto.
Qed.

Lemma vshift_wf n v s : wfb false s ->
  exists s', vshift n v s = Ok s' /\ wfb false s' /\ length (elems s') = length (elems s).
Proof. apply shift_wf. Qed.

Lemma lag_nonpos_wf h na value xs : na < length xs ->
  wfb false (lag_nonpos h na value xs) /\ length (elems (lag_nonpos h na value xs)) = length xs.
Proof.
  intros Hlt. unfold lag_nonpos. cbn [wfb elems].
  rewrite app_length, repeat_length, !map_length, combine_length, skipn_length.
  repeat split; auto; lia.
Qed.

Lemma vdiff_wf n value xs :
  exists s', vdiff n value xs = Ok s' /\ wfb false s' /\ length (elems s') = length xs.
Proof.
  unfold vdiff. cbv zeta. destruct (len_le_nabs (length xs) n) eqn:Eg.
  { eexists. split; [reflexivity|]. cbn [wfb elems]. rewrite repeat_length. auto. }
  apply nabs_lt in Eg.
  destruct (0 <? n)%Z.
  { unfold usub. replace (n_abs n <=? length xs) with true by (symmetry; apply Nat.leb_le; lia).
    cbn [bind]. eexists. split; [reflexivity|]. cbn [wfb elems].
    rewrite app_length, repeat_length, !map_length, combine_length, firstn_length, skipn_length.
    repeat split; auto; lia. }
  eexists. split; [reflexivity|]. apply lag_nonpos_wf. exact Eg.
Qed.

Lemma vpct_change_wf n xs :
  exists s', vpct_change n xs = Ok s' /\ wfb false s' /\ length (elems s') = length xs.
Proof.
  unfold vpct_change. cbv zeta. destruct (len_le_nabs (length xs) n) eqn:Eg.
  { eexists. split; [reflexivity|]. cbn [wfb elems]. rewrite repeat_length. auto. }
  apply nabs_lt in Eg.
  destruct (0 <? n)%Z.
  { unfold usub. replace (n_abs n <=? length xs) with true by (symmetry; apply Nat.leb_le; lia).
    cbn [bind]. eexists. split; [reflexivity|]. cbn [wfb elems].
    rewrite !map_length, combine_length, app_length, repeat_length, firstn_length.
    repeat split; auto; lia. }
  eexists. split; [reflexivity|]. apply lag_nonpos_wf. exact Eg.
Qed.

Lemma ffill_wf v s : wfb false s -> wfb false (ffill v s) /\ length (elems (ffill v s)) = length (elems s).
Proof. intros Hw. cbn [ffill wfb elems]. rewrite run_len. auto. Qed.

Lemma fill_wf b v s : wfb b s -> wfb b (fill v s) /\ length (elems (fill v s)) = length (elems s).
Proof. intros Hw. cbn [fill wfb elems]. rewrite map_length. auto. Qed.

Lemma vabs_wf b s : wfb b s -> wfb b (vabs s) /\ length (elems (vabs s)) = length (elems s).
Proof. intros Hw. cbn [vabs wfb elems]. rewrite map_length. auto. Qed.

Lemma vclip_wf b lo hi s : wfb b s -> wfb b (vclip lo hi s) /\ length (elems (vclip lo hi s)) = length (elems s).
Proof.
  intros Hw. unfold vclip. destruct (not_none lo), (not_none hi); cbn [wfb elems]; rewrite ?map_length; auto.
Qed.

Lemma bfill_wf v s : wfb true s ->
  exists s', bfill v s = Ok s' /\ wfb true s' /\ length (elems s') = length (elems s).
Proof.
  intros Hw. unfold bfill.
  assert (Hw2 : wfb false (IMapS (fill_f v) VNull (IRev s))) by (cbn [wfb]; auto).
  rewrite (collect_raw_safe _ Hw2). eexists. split; [reflexivity|]. cbn [wfb elems].
  rewrite rev_length, run_len, rev_length. auto.
Qed.

Lemma vcut_wf tmin tmax bins labels right add s s' : wfb false s ->
  vcut tmin tmax bins labels right add s = Some s' ->
  wfb false s' /\ length (elems s') = length (elems s).
Proof.
  intros Hw. unfold vcut.
  destruct add; [destruct (negb (length labels =? length bins + 1)) | destruct (negb (length labels + 1 =? length bins))];
    intros E; try discriminate; injection E as <-; cbn [wfb elems]; rewrite map_length; auto.
Qed.

Lemma filter_length_le {A} (p : A -> bool) l : length (filter p l) <= length l.
Proof. induction l as [|a l IH]; [auto|]. cbn. destruct (p a); cbn; lia. Qed.

Lemma pad_length la i v n : length (elems (IPad la i v n)) = n.
Proof. cbn [elems]. cbv zeta. rewrite app_length, firstn_length, repeat_length. lia. Qed.

Lemma vpartition_wf kth sort xs :
  wfb false (vpartition kth sort xs) /\ length (elems (vpartition kth sort xs)) = kth + 1.
Proof.
  unfold vpartition.
  destruct (andb (count_valid xs =? kth + 1) (negb sort)) eqn:E1.
  { apply andb_true_iff in E1. destruct E1 as [E1 _]. apply Nat.eqb_eq in E1.
    cbn [wfb elems]. unfold count_valid in E1. auto. }
  destruct (count_valid xs <=? kth + 1) eqn:E2.
  { destruct (negb sort); cbn [wfb elems]; cbv zeta; rewrite !app_length, !firstn_length, !repeat_length;
      repeat split; auto; lia. }
  apply Nat.leb_gt in E2. cbn [wfb elems]. rewrite firstn_length.
  unfold count_valid in E2. pose proof (filter_length_le not_none xs). repeat split; lia.
Qed.

Lemma varg_partition_wf kth sort xs :
  wfb false (varg_partition kth sort xs) /\ length (elems (varg_partition kth sort xs)) = kth + 1.
Proof.
  unfold varg_partition.
  destruct (count_valid xs <=? kth + 1) eqn:E2.
  { destruct (negb sort); cbn [wfb elems]; cbv zeta; rewrite !app_length, !firstn_length, !repeat_length;
      repeat split; auto; lia. }
  apply Nat.leb_gt in E2. cbn [wfb elems]. rewrite firstn_length, map_length, seq_length.
  unfold count_valid in E2. pose proof (filter_length_le not_none xs). repeat split; lia.
Qed.

Lemma winsorize_wf xs : wfb true (winsorize xs) /\ length (elems (winsorize xs)) = length xs.
Proof. cbn. rewrite map_length. auto. Qed.

Lemma rolling_wf w xs : 1 <= w ->
  exists s', rolling_custom_iter w xs = Ok s' /\ wfb false s' /\ length (elems s') = length xs.
Proof.
  intros Hw. unfold rolling_custom_iter, usub.
  replace (1 <=? w) with true by (symmetry; apply Nat.leb_le; exact Hw). cbn [bind].
  eexists. split; [reflexivity|]. cbn [wfb elems].
  rewrite !map_length, combine_length, app_length, repeat_length, !map_length, !seq_length.
  repeat split; auto; lia.
Qed.

Lemma linspace_wf a b n : wfb true (linspace a b n) /\ length (elems (linspace a b n)) = n.
Proof. cbn. rewrite map_length, seq_length. split; lia. Qed.

Lemma range_f_wf a b st : wfb true (range_f a b st).
Proof. cbn. lia. Qed.

Lemma range_i_wf a b st s : range_i a b st = Ok s -> wfb true s.
Proof.
  unfold range_i. destruct (andb (negb (range_empty a b st)) (st =? 0)%Z); [discriminate|].
  intros E. injection E as <-. cbn. lia.
Qed.

(* the count of the repaired range: nothing when the direction is empty, else ceil((b - a) / step) *)
Lemma range_count_spec a b st : (st <> 0)%Z ->
  (range_empty a b st = true -> range_count a b st = 0) /\
  (range_empty a b st = false ->
     let c := Z.of_nat (range_count a b st) in
     (0 < c /\ Z.abs st * (c - 1) < Z.abs (b - a) <= Z.abs st * c)%Z).
Proof.
  intros Hst. unfold range_count. split; intros He; rewrite He; [reflexivity|].
  replace (st =? 0)%Z with false by (symmetry; apply Z.eqb_neq; exact Hst).
  cbv zeta. unfold range_empty in He.
  assert (Hd : (0 < Z.abs (b - a))%Z).
  { destruct (0 <? st)%Z; [apply Z.leb_gt in He | apply Z.leb_gt in He]; lia. }
  assert (Hs : (0 < Z.abs st)%Z) by lia.
  set (d := Z.abs (b - a)) in *. set (s := Z.abs st) in *.
  pose proof (Z.div_mod (d + s - 1) s ltac:(lia)) as Hdm.
  pose proof (Z.mod_pos_bound (d + s - 1) s Hs) as Hm.
  assert (Hq : (0 < (d + s - 1) / s)%Z) by (apply Z.div_str_pos; lia).
  rewrite Z2Nat.id by lia. nia.
Qed.

Lemma create_safe s : wfb false s -> create s = CDone (elems s).
Proof.
  intros Hw. unfold create. rewrite collect_raw_safe by (cbn [wfb]; exact Hw).
  cbn [elems]. rewrite map_id. reflexivity.
Qed.

(* ---- pipelines of the adaptor grammar ----------------------------------------------------------- *)
Lemma apply_stage_wf g s s' : wfb false s -> apply_stage g s = Ok s' -> wfb false s'.
Proof.
  intros Hw. destruct g; cbn [apply_stage].
  - destruct (shift_wf n v s Hw) as (t & E & Ht & _). rewrite E. intros X. injection X as <-. exact Ht.
  - destruct (vshift_wf n v s Hw) as (t & E & Ht & _). rewrite E. intros X. injection X as <-. exact Ht.
  - intros X. injection X as <-. apply ffill_wf. exact Hw.
  - intros X. injection X as <-. apply fill_wf. exact Hw.
  - intros X. injection X as <-. apply vclip_wf. exact Hw.
  - intros X. injection X as <-. apply vabs_wf. exact Hw.
  - intros X. injection X as <-. cbn [wfb]. auto.
  - intros X. injection X as <-. cbn [wfb]. auto.
  - intros X. injection X as <-. cbn [wfb]. auto.
  - intros X. injection X as <-. cbn [wfb]. auto.
  - intros X. injection X as <-. cbn [wfb]. auto.
  - rewrite (tlen_exact s Hw). cbn [bind]. intros X. injection X as <-. cbn [wfb]. auto.
  - intros X. injection X as <-. apply consume_wf; [apply fronts_ok | exact Hw].
Qed.

Lemma apply_stages_wf : forall gs s s', wfb false s -> apply_stages gs s = Ok s' -> wfb false s'.
Proof.
  induction gs as [|g gs IH]; intros s s' Hw E; cbn [apply_stages] in E.
  - injection E as <-. exact Hw.
  - destruct (apply_stage g s) as [t|k] eqn:Eg; cbn [bind] in E; [|discriminate].
    apply (IH (IBox t) s'); [|exact E]. cbn [wfb]. exact (apply_stage_wf g s t Hw Eg).
Qed.

Lemma build_source_wf src s : build_source src = Ok s -> wfb false s.
Proof.
  destruct src; cbn [build_source]; intros E.
  - injection E as <-. exact I.
  - injection E as <-. exact I.
  - destruct (bfill_wf value (IList xs) I) as (t & Et & Ht & _). rewrite Et in E. injection E as <-.
    apply wfb_weaken. exact Ht.
  - destruct (vdiff_wf n value xs) as (t & Et & Ht & _).
    rewrite Et in E. injection E as <-. exact Ht.
  - destruct w as [|w].
    + cbn in E. discriminate.
    + destruct (rolling_wf (S w) xs) as (t & Et & Ht & _); [lia|]. rewrite Et in E. cbn [bind] in E.
      injection E as <-. cbn [wfb]. exact Ht.
  - injection E as <-. apply wfb_weaken. apply linspace_wf.
  - injection E as <-. exact I.
Qed.

Lemma build_wf src gs s : build src gs = Ok s -> wfb false s.
Proof.
  unfold build. destruct (build_source src) as [t|k] eqn:Es; cbn [bind]; [|discriminate].
  intros E. apply (apply_stages_wf gs (IBox t)); [|exact E]. cbn [wfb]. exact (build_source_wf src t Es).
Qed.

(* summary lemmas used by Props/C09.v *)
Lemma hint_exact_front s k l :
  wfb false s -> yields (consume (repeat false k) s) l ->
  size_hint (consume (repeat false k) s) = (length l, Some (length l)).
Proof. intros Hw Hy. exact (hint_exact_consume false _ s l (fronts_ok false k) Hw Hy). Qed.

Lemma hint_exact_both s cs l :
  wfb true s -> yields (consume cs s) l ->
  size_hint (consume cs s) = (length l, Some (length l)).
Proof. intros Hw Hy. exact (hint_exact_consume true cs s l (all_dirs_ok cs) Hw Hy). Qed.

Lemma hint_exact_pipeline src gs s k l :
  build src gs = Ok s -> yields (consume (repeat false k) s) l ->
  size_hint (consume (repeat false k) s) = (length l, Some (length l)).
Proof. intros Hb. apply hint_exact_front. exact (build_wf src gs s Hb). Qed.

Lemma collect_after_consume b cs s l :
  (forall c, In c cs -> dir_ok c b) -> wfb b s -> yields (consume cs s) l ->
  collect_raw (consume cs s) = CDone l.
Proof.
  intros Hc Hw Hy. pose proof (wfb_front _ _ (consume_wf b cs s Hc Hw)) as Hw'.
  rewrite (yields_is_elems _ _ Hw' Hy). apply collect_raw_safe. exact Hw'.
Qed.

(* CDone l means: capacity = length l, slot k was written once with the k-th item, nothing else *)
Lemma collect_items_done hint items l :
  collect_items hint items = CDone l -> hint = Some (length items) /\ l = items.
Proof.
  unfold collect_items. destruct hint as [cap|]; [|discriminate].
  destruct (write_all (repeat None cap) 0 items) as [buf|] eqn:Ew; [|discriminate].
  destruct (all_init buf) as [l'|] eqn:Ei; [|discriminate]. intros E. injection E as <-.
  destruct (Nat.lt_trichotomy (length items) cap) as [Hlt|[Heq|Hgt]].
  - (* fewer items than slots: a slot stays None, all_init fails *)
    exfalso.
    assert (G : forall its done k, length its < k ->
              forall buf, write_all (map Some done ++ repeat None k) (length done) its = Some buf ->
              all_init buf = None).
    { induction its as [|x r IH]; intros done k Hk buf0 Hb.
      - cbn in Hb. injection Hb as <-. destruct k; [cbn in Hk; lia|]. cbn [repeat].
        clear. induction done as [|d done IH]; [reflexivity|]. cbn. rewrite IH. reflexivity.
      - destruct k as [|k]; [cbn in Hk; lia|]. cbn [write_all] in Hb.
        assert (Hlt' : (length done <? length (map Some done ++ repeat None (S k))) = true).
        { apply Nat.ltb_lt. rewrite app_length, map_length, repeat_length. lia. }
        rewrite Hlt' in Hb.
        assert (H1 : firstn (length done) (map Some done ++ repeat None (S k)) = map Some done).
        { rewrite <- (map_length Some done) at 1. apply firstn_len_app. }
        assert (H2 : skipn (S (length done)) (map Some done ++ repeat None (S k)) = repeat (@None val) k).
        { rewrite <- (map_length Some done) at 1. cbn [repeat]. apply skipn_S_len_app. }
        rewrite H1, H2 in Hb.
        replace (map Some done ++ Some x :: repeat None k) with (map Some (done ++ [x]) ++ repeat None k) in Hb
          by (rewrite map_app, <- app_assoc; reflexivity).
        replace (S (length done)) with (length (done ++ [x])) in Hb by (rewrite app_length; cbn; lia).
        apply (IH (done ++ [x]) k); [cbn in Hk; lia | exact Hb]. }
    specialize (G items [] cap Hlt buf Ew). rewrite G in Ei. discriminate.
  - subst cap. pose proof (write_all_exact items [] _ eq_refl) as H. cbn [map app length] in H.
    rewrite H in Ew. injection Ew as <-. rewrite all_init_map in Ei. injection Ei as <-. auto.
  - exfalso. rewrite write_all_overflow in Ew; [discriminate | rewrite repeat_length; lia | lia].
Qed.

(* ==== nth / nth_back / last / count / instruction scripts / StepBy (X21) ============================ *)

(* what `nth k` (back = false) / `nth_back k` (back = true) does to the abstract sequence: D = the k skipped items *)
Definition nth_spec (back : bool) (k : nat) (s : it) (o : option val) (s' : it) : Prop :=
  match o with
  | Some x => exists D, length D = k /\
                        (if back then elems s = elems s' ++ x :: D else elems s = D ++ x :: elems s')
  | None => length (elems s) <= k /\ elems s' = []
  end.

Lemma nthd_sound back b : dir_ok back b -> forall k s o s',
  wfb b s -> nthd back k s = (o, s') -> nth_spec back k s o s' /\ wfb b s' /\ depth s' = depth s.
Proof.
  intros Hdir. induction k as [|k IH]; intros s o s' Hw E; unfold nthd in *; cbn [nth_by] in E.
  - destruct (nextd_sound back b s o s' Hdir Hw E) as (Hs & Hw' & Hd). split; [|auto].
    unfold spec in Hs. unfold nth_spec. destruct o as [x|].
    + exists []. split; [reflexivity|]. destruct back; cbn [app]; exact Hs.
    + destruct Hs as [-> ->]. cbn. auto.
  - destruct (nextd back s) as [o1 s1] eqn:E1.
    destruct (nextd_sound back b s o1 s1 Hdir Hw E1) as (Hs & Hw1 & Hd1). unfold spec in Hs.
    destruct o1 as [x1|].
    + destruct (IH s1 o s' Hw1 E) as (Hs2 & Hw2 & Hd2). split; [|split; [assumption|lia]].
      unfold nth_spec in *. destruct o as [x|].
      * destruct Hs2 as (D & HD & HE). destruct back.
        -- exists (D ++ [x1]). split; [rewrite app_length; cbn; lia|]. rewrite Hs, HE, <- app_assoc. reflexivity.
        -- exists (x1 :: D). split; [cbn; lia|]. rewrite Hs, HE. reflexivity.
      * destruct Hs2 as [Hl He]. split; [|exact He].
        destruct back; rewrite Hs; rewrite ?app_length; cbn [length]; lia.
    + injection E as <- <-. destruct Hs as [Hs1 Hs2]. split; [|auto]. unfold nth_spec. rewrite Hs1. cbn.
      split; [lia | exact Hs2].
Qed.

(* k+1 unconditional calls have the same effect on a well-formed state (an exhausted state stays exhausted) *)
Lemma calls_sound back b : dir_ok back b -> forall k s o s',
  wfb b s -> calls back k s = (o, s') -> nth_spec back k s o s' /\ wfb b s'.
Proof.
  intros Hdir. induction k as [|k IH]; intros s o s' Hw E; cbn [calls] in E.
  - apply (nthd_sound back b Hdir 0 s o s' Hw) in E. tauto.
  - destruct (nextd back s) as [o1 s1] eqn:E1. cbn [snd] in E.
    destruct (nextd_sound back b s o1 s1 Hdir Hw E1) as (Hs & Hw1 & Hd1). unfold spec in Hs.
    destruct (IH s1 o s' Hw1 E) as (Hs2 & Hw2). split; [|exact Hw2].
    unfold nth_spec in *. destruct o1 as [x1|].
    + destruct o as [x|].
      * destruct Hs2 as (D & HD & HE). destruct back.
        -- exists (D ++ [x1]). split; [rewrite app_length; cbn; lia|]. rewrite Hs, HE, <- app_assoc. reflexivity.
        -- exists (x1 :: D). split; [cbn; lia|]. rewrite Hs, HE. reflexivity.
      * destruct Hs2 as [Hl He]. split; [|exact He].
        destruct back; rewrite Hs; rewrite ?app_length; cbn [length]; lia.
    + destruct Hs as [Hn1 Hn2]. destruct o as [x|].
      * exfalso. destruct Hs2 as (D & _ & HE). rewrite Hn2 in HE.
        destruct back; [destruct (elems s') | destruct D]; discriminate.
      * destruct Hs2 as [_ He]. rewrite Hn1. cbn. split; [lia | exact He].
Qed.

(* the closed form: the k-th item from the front (back), the rest after (before) it *)
Lemma nth_spec_closed back k s o s' : nth_spec back k s o s' ->
  o = nth_error (if back then rev (elems s) else elems s) k /\
  elems s' = (if back then firstn (length (elems s) - S k) (elems s) else skipn (S k) (elems s)).
Proof.
  unfold nth_spec. destruct o as [x|].
  - intros (D & HD & HE). destruct back; rewrite HE; subst k.
    + split.
      * rewrite rev_app_distr. cbn [rev]. rewrite <- app_assoc. cbn [app].
        rewrite nth_error_app2 by (rewrite rev_length; lia). rewrite rev_length, Nat.sub_diag. reflexivity.
      * rewrite app_length. cbn [length].
        replace (length (elems s') + S (length D) - S (length D)) with (length (elems s')) by lia.
        symmetry. apply firstn_len_app.
    + split.
      * rewrite nth_error_app2 by lia. rewrite Nat.sub_diag. reflexivity.
      * symmetry. apply skipn_S_len_app.
  - intros [Hl He]. rewrite He. destruct back.
    + split.
      * symmetry. apply nth_error_None. rewrite rev_length. exact Hl.
      * replace (length (elems s) - S k) with 0 by lia. reflexivity.
    + split.
      * symmetry. apply nth_error_None. exact Hl.
      * symmetry. apply skipn_all2. lia.
Qed.

Lemma nthd_closed back b k s : dir_ok back b -> wfb b s ->
  fst (nthd back k s) = nth_error (if back then rev (elems s) else elems s) k /\
  elems (snd (nthd back k s)) =
    (if back then firstn (length (elems s) - S k) (elems s) else skipn (S k) (elems s)) /\
  wfb b (snd (nthd back k s)).
Proof.
  intros Hdir Hw. destruct (nthd back k s) as [o s'] eqn:E. cbn [fst snd].
  destruct (nthd_sound back b Hdir k s o s' Hw E) as (Hs & Hw' & _).
  destruct (nth_spec_closed back k s o s' Hs) as [H1 H2]. auto.
Qed.

(* nth k = k+1 x next, on EVERY state (no well-formedness): literally, with advance_by's early exit ... *)
Lemma iter_swap {A} (f : A -> A) n x : Nat.iter n f (f x) = f (Nat.iter n f x).
Proof.
  induction n as [|n IH]; [reflexivity|].
  change (f (Nat.iter n f (f x)) = f (f (Nat.iter n f x))). rewrite IH. reflexivity.
Qed.

Lemma iter_fix {A} (f : A -> A) n x : f x = x -> Nat.iter n f x = x.
Proof.
  intros H. induction n as [|n IH]; [reflexivity|].
  change (f (Nat.iter n f x) = x). rewrite IH. exact H.
Qed.

Lemma nthd_iter back : forall k s, nthd back k s = Nat.iter k (and_next back) (nextd back s).
Proof.
  unfold nthd. induction k as [|k IH]; intros s; [reflexivity|].
  cbn [nth_by]. destruct (nextd back s) as [o s1] eqn:E1. destruct o as [x|].
  - rewrite IH. change (Nat.iter (S k) (and_next back) (Some x, s1))
      with (and_next back (Nat.iter k (and_next back) (Some x, s1))).
    rewrite <- iter_swap. reflexivity.
  - symmetry. apply iter_fix. reflexivity.
Qed.

(* ... and without the early exit whenever an item is returned *)
Lemma nthd_some_calls back : forall k s x s', nthd back k s = (Some x, s') -> calls back k s = (Some x, s').
Proof.
  unfold nthd. induction k as [|k IH]; intros s x s' E; cbn [nth_by calls] in *; [exact E|].
  destruct (nextd back s) as [o s1]. cbn [snd]. destruct o as [y|]; [apply IH; exact E | discriminate].
Qed.

(* when nth returns None it stopped at the first None of the k+1 calls *)
Lemma nthd_none_calls back : forall k s s', nthd back k s = (None, s') ->
  exists j, j <= k /\ calls back j s = (None, s').
Proof.
  unfold nthd. induction k as [|k IH]; intros s s' E; cbn [nth_by] in E.
  - exists 0. split; [lia | exact E].
  - destruct (nextd back s) as [o s1] eqn:E1. destruct o as [y|].
    + destruct (IH s1 s' E) as (j & Hj & Hc). exists (S j). split; [lia|]. cbn [calls]. rewrite E1. exact Hc.
    + injection E as <-. exists 0. split; [lia | exact E1].
Qed.

(* on well-formed states the early exit is unobservable *)
Lemma nthd_calls_wf back b k s : dir_ok back b -> wfb b s ->
  fst (nthd back k s) = fst (calls back k s) /\
  elems (snd (nthd back k s)) = elems (snd (calls back k s)) /\
  size_hint (snd (nthd back k s)) = size_hint (snd (calls back k s)) /\
  wfb b (snd (calls back k s)).
Proof.
  intros Hdir Hw. destruct (nthd back k s) as [o1 s1] eqn:E1. destruct (calls back k s) as [o2 s2] eqn:E2.
  cbn [fst snd].
  destruct (nthd_sound back b Hdir k s o1 s1 Hw E1) as (H1 & Hw1 & _).
  destruct (calls_sound back b Hdir k s o2 s2 Hw E2) as (H2 & Hw2).
  destruct (nth_spec_closed _ _ _ _ _ H1) as [Ho1 He1]. destruct (nth_spec_closed _ _ _ _ _ H2) as [Ho2 He2].
  split; [congruence|]. split; [congruence|]. split; [|exact Hw2].
  rewrite (wfb_exact s1 (wfb_front _ _ Hw1)), (wfb_exact s2 (wfb_front _ _ Hw2)). congruence.
Qed.

(* advance_by + next is nth (std's definition of the default) *)
Lemma nthd_advance back : forall k s,
  nthd back k s = let '(r, s') := advance_by back k s in if r =? 0 then nextd back s' else (None, s').
Proof.
  unfold nthd. induction k as [|k IH]; intros s; cbn [nth_by advance_by]; [reflexivity|].
  destruct (nextd back s) as [o s1]. destruct o as [x|]; [apply IH | reflexivity].
Qed.

(* ---- instruction scripts ---------------------------------------------------------------------- *)
Lemma exec_sound b c s : dir_ok (instr_back c) b -> wfb b s -> wfb b (snd (exec c s)).
Proof.
  intros Hd Hw. destruct c; cbn [exec instr_back] in *.
  - destruct (next s) as [o s'] eqn:E. destruct (nextd_sound false b s o s' Hd Hw E) as (_ & H & _). exact H.
  - destruct (next_back s) as [o s'] eqn:E. destruct (nextd_sound true b s o s' Hd Hw E) as (_ & H & _). exact H.
  - unfold nth_it. destruct (nthd false k s) as [o s'] eqn:E.
    destruct (nthd_sound false b Hd k s o s' Hw E) as (_ & H & _). exact H.
  - unfold nth_back_it. destruct (nthd true k s) as [o s'] eqn:E.
    destruct (nthd_sound true b Hd k s o s' Hw E) as (_ & H & _). exact H.
Qed.

Lemma run_script_wf b : forall cs s, (forall c, In c cs -> dir_ok (instr_back c) b) -> wfb b s ->
  wfb b (run_script cs s).
Proof.
  induction cs as [|c cs IH]; intros s Hc Hw; [exact Hw|]. cbn [run_script].
  apply IH; [intros c' Hin; apply Hc; right; exact Hin|].
  apply exec_sound; [apply Hc; left; reflexivity | exact Hw].
Qed.

Lemma hint_exact_script b cs s l :
  (forall c, In c cs -> dir_ok (instr_back c) b) -> wfb b s -> yields (run_script cs s) l ->
  size_hint (run_script cs s) = (length l, Some (length l)).
Proof.
  intros Hc Hw Hy. pose proof (wfb_front _ _ (run_script_wf b cs s Hc Hw)) as Hw'.
  rewrite (yields_is_elems _ _ Hw' Hy). apply wfb_exact. exact Hw'.
Qed.

Lemma hint_exact_script_drain b cs s :
  (forall c, In c cs -> dir_ok (instr_back c) b) -> wfb b s ->
  size_hint (run_script cs s) =
    (length (drain (run_script cs s)), Some (length (drain (run_script cs s)))).
Proof.
  intros Hc Hw. pose proof (wfb_front _ _ (run_script_wf b cs s Hc Hw)) as Hw'.
  rewrite (drain_elems _ Hw'). apply wfb_exact. exact Hw'.
Qed.

Lemma run_script_of_bools : forall cs s, run_script (map instr_of_bool cs) s = consume cs s.
Proof.
  induction cs as [|c cs IH]; intros s; [reflexivity|]. cbn [map run_script consume].
  rewrite IH. destruct c; reflexivity.
Qed.

(* the abstract sequence after a script: each instruction cuts the front or the back *)
Definition cut (c : instr) (l : list val) : list val :=
  match c with
  | INext => skipn 1 l
  | INextBack => firstn (length l - 1) l
  | INth k => skipn (S k) l
  | INthBack k => firstn (length l - S k) l
  end.

Lemma exec_elems b c s : dir_ok (instr_back c) b -> wfb b s -> elems (snd (exec c s)) = cut c (elems s).
Proof.
  intros Hd Hw. destruct c; cbn [exec instr_back cut] in *.
  - exact (proj1 (proj2 (nthd_closed false b 0 s Hd Hw))).
  - exact (proj1 (proj2 (nthd_closed true b 0 s Hd Hw))).
  - exact (proj1 (proj2 (nthd_closed false b k s Hd Hw))).
  - exact (proj1 (proj2 (nthd_closed true b k s Hd Hw))).
Qed.

Lemma run_script_elems b : forall cs s, (forall c, In c cs -> dir_ok (instr_back c) b) -> wfb b s ->
  elems (run_script cs s) = fold_left (fun l c => cut c l) cs (elems s).
Proof.
  induction cs as [|c cs IH]; intros s Hc Hw; [reflexivity|]. cbn [run_script fold_left].
  rewrite IH; [| intros c' Hin; apply Hc; right; exact Hin
               | apply exec_sound; [apply Hc; left; reflexivity | exact Hw]].
  rewrite (exec_elems b c s (Hc c (or_introl eq_refl)) Hw). reflexivity.
Qed.

Lemma collect_after_script b cs s :
  (forall c, In c cs -> dir_ok (instr_back c) b) -> wfb b s ->
  collect_raw (run_script cs s) = CDone (drain (run_script cs s)).
Proof.
  intros Hc Hw. pose proof (wfb_front _ _ (run_script_wf b cs s Hc Hw)) as Hw'.
  rewrite (drain_elems _ Hw'). apply collect_raw_safe. exact Hw'.
Qed.

(* ---- fold / last / count ------------------------------------------------------------------------ *)
Lemma fold_n_sound {A} back b (f : A -> val -> A) : dir_ok back b -> forall fuel s acc,
  wfb b s -> length (elems s) < fuel ->
  fst (fold_n fuel back f acc s) = fold_left f (if back then rev (elems s) else elems s) acc /\
  elems (snd (fold_n fuel back f acc s)) = [] /\ wfb b (snd (fold_n fuel back f acc s)).
Proof.
  intros Hdir. induction fuel as [|fuel IH]; intros s acc Hw Hl; [lia|].
  cbn [fold_n]. destruct (nextd back s) as [o s1] eqn:E1.
  destruct (nextd_sound back b s o s1 Hdir Hw E1) as (Hs & Hw1 & _). unfold spec in Hs.
  destruct o as [x|].
  - assert (Hl1 : length (elems s1) < fuel).
    { destruct back; rewrite Hs in Hl; rewrite ?app_length in Hl; cbn [length] in Hl; lia. }
    destruct (IH s1 (f acc x) Hw1 Hl1) as (H1 & H2 & H3). split; [|auto]. rewrite H1.
    destruct back; rewrite Hs; [rewrite rev_app_distr|]; reflexivity.
  - destruct Hs as [Hs1 Hs2]. cbn [fst snd]. rewrite Hs1. destruct back; cbn; auto.
Qed.

Lemma fold_left_last (l : list val) : forall a,
  fold_left (fun (_ : option val) x => Some x) l a = match rev l with [] => a | x :: _ => Some x end.
Proof.
  induction l as [|y l IH] using rev_ind; intros a; [reflexivity|].
  rewrite fold_left_app, rev_app_distr. reflexivity.
Qed.

Lemma fold_left_count (l : list val) : forall a, fold_left (fun n (_ : val) => S n) l a = a + length l.
Proof. induction l as [|y l IH]; intros a; cbn [fold_left length]; [lia|]. rewrite IH. lia. Qed.

Lemma last_it_sound s : wfb false s ->
  fst (last_it s) = nth_error (rev (elems s)) 0 /\ elems (snd (last_it s)) = [] /\
  size_hint (snd (last_it s)) = (0, Some 0).
Proof.
  intros Hw. unfold last_it, fold_it.
  destruct (fold_n_sound false false (fun (_ : option val) x => Some x) (dir_front false)
              (S (length (elems s))) s None Hw ltac:(lia)) as (H1 & H2 & H3).
  rewrite H1, fold_left_last. split; [destruct (rev (elems s)); reflexivity|]. split; [exact H2|].
  rewrite (wfb_exact _ H3), H2. reflexivity.
Qed.

(* on a double-ended state, last() is what next_back() would have returned *)
Lemma last_is_next_back s : wfb true s -> fst (last_it s) = fst (next_back s).
Proof.
  intros Hw. rewrite (proj1 (last_it_sound s (wfb_weaken _ Hw))).
  symmetry. exact (proj1 (nthd_closed true true 0 s (fun _ => eq_refl) Hw)).
Qed.

Lemma count_it_sound s : wfb false s ->
  fst (count_it s) = length (elems s) /\ size_hint s = (fst (count_it s), Some (fst (count_it s))) /\
  size_hint (snd (count_it s)) = (0, Some 0).
Proof.
  intros Hw. unfold count_it, fold_it.
  destruct (fold_n_sound false false (fun n (_ : val) => S n) (dir_front false)
              (S (length (elems s))) s 0 Hw ltac:(lia)) as (H1 & H2 & H3).
  rewrite H1, fold_left_count. cbn [Nat.add]. split; [reflexivity|]. split; [apply wfb_exact; exact Hw|].
  rewrite (wfb_exact _ H3), H2. reflexivity.
Qed.

(* fold visits exactly the items plain iteration yields, in order (rfold: in reverse order) *)
Lemma fold_it_sound {A} back b (f : A -> val -> A) acc s : dir_ok back b -> wfb b s ->
  fst (fold_it back f acc s) = fold_left f (if back then rev (elems s) else elems s) acc /\
  elems (snd (fold_it back f acc s)) = [].
Proof.
  intros Hdir Hw. unfold fold_it.
  destruct (fold_n_sound back b f Hdir (S (length (elems s))) s acc Hw ltac:(lia)) as (H1 & H2 & _). auto.
Qed.

(* ---- Skip::next is nth on the inner iterator ------------------------------------------------------ *)
Lemma nth_by_fuel b : forall k s, wfb b s ->
  nth_by (step (depth s) false) k s = nth_by (nextd false) k s.
Proof.
  induction k as [|k IH]; intros s Hw; cbn [nth_by]; [reflexivity|].
  change (step (depth s) false s) with (nextd false s).
  destruct (nextd false s) as [o s1] eqn:E1.
  destruct (nextd_sound false b s o s1 (dir_front b) Hw E1) as (_ & Hw1 & Hd1).
  destruct o as [x|]; [|reflexivity]. rewrite <- Hd1. apply IH. exact Hw1.
Qed.

Lemma skip_next_is_nth b s n : wfb b s ->
  next (ISkip s n) = let '(o, s') := nth_it n s in (o, ISkip s' 0).
Proof.
  intros Hw. unfold next. cbn [depth step]. rewrite (nth_by_fuel b n s Hw). reflexivity.
Qed.

(* ---- StepBy over a well-formed state --------------------------------------------------------------- *)
Definition sb_wf (t : stepby) : Prop := wfb false (sb_iter t).

Lemma sb_next_sound t : sb_wf t ->
  fst (sb_next t) = nth_error (elems (sb_iter t)) (if sb_first t then 0 else sb_step1 t) /\
  elems (sb_iter (snd (sb_next t))) = skipn (S (if sb_first t then 0 else sb_step1 t)) (elems (sb_iter t)) /\
  sb_wf (snd (sb_next t)) /\ sb_first (snd (sb_next t)) = false /\ sb_step1 (snd (sb_next t)) = sb_step1 t.
Proof.
  intros Hw. unfold sb_next, nth_it.
  destruct (nthd_closed false false (if sb_first t then 0 else sb_step1 t) (sb_iter t) (dir_front false) Hw)
    as (H1 & H2 & H3).
  destruct (nthd false (if sb_first t then 0 else sb_step1 t) (sb_iter t)) as [o i'].
  cbn [fst snd sb_iter sb_first sb_step1] in *. unfold sb_wf. cbn [sb_iter]. auto.
Qed.

Lemma sb_consume_wf : forall k t, sb_wf t -> sb_wf (sb_consume k t).
Proof.
  induction k as [|k IH]; intros t Hw; [exact Hw|]. cbn [sb_consume]. apply IH.
  exact (proj1 (proj2 (proj2 (sb_next_sound t Hw)))).
Qed.

Lemma sb_drain_n_length : forall fuel t, sb_wf t -> length (elems (sb_iter t)) < fuel ->
  length (sb_drain_n fuel t) = sb_size (sb_first t) (sb_step1 t) (length (elems (sb_iter t))).
Proof.
  induction fuel as [|fuel IH]; intros t Hw Hl; [lia|].
  cbn [sb_drain_n]. destruct (sb_next_sound t Hw) as (H1 & H2 & H3 & H4 & H5).
  destruct (sb_next t) as [o t']. cbn [fst snd] in *.
  set (n := length (elems (sb_iter t))) in *. set (k := if sb_first t then 0 else sb_step1 t) in *.
  destruct o as [x|].
  - assert (Hk : k < n) by (apply nth_error_Some; rewrite <- H1; discriminate).
    cbn [length]. rewrite IH; [| exact H3 | rewrite H2, skipn_length; fold n; lia].
    rewrite H4, H5, H2, skipn_length. fold n. unfold sb_size. subst k. destruct (sb_first t).
    + destruct (Nat.eqb_spec n 0) as [Hz|Hz]; [lia|]. replace (n - 1) with (n - 1) by lia. reflexivity.
    + set (c := sb_step1 t + 1) in *.
      replace n with ((n - S (sb_step1 t)) + 1 * c) at 2 by (unfold c; lia).
      rewrite Nat.div_add by (unfold c; lia). lia.
  - symmetry in H1. apply nth_error_None in H1. fold n in H1. cbn [length]. unfold sb_size. subst k.
    destruct (sb_first t).
    + replace n with 0 by lia. reflexivity.
    + symmetry. apply Nat.div_small. lia.
Qed.

Lemma sb_hint_exact t : sb_wf t ->
  sb_size_hint t = (length (sb_drain t), Some (length (sb_drain t))).
Proof.
  intros Hw. unfold sb_size_hint, sb_drain. rewrite (wfb_exact _ Hw). cbn [fst snd option_map].
  rewrite sb_drain_n_length by (auto; lia). reflexivity.
Qed.

Lemma step_by_wf n s t : wfb false s -> step_by n s = Ok t -> sb_wf t.
Proof.
  unfold step_by. intros Hw. destruct (n =? 0); [discriminate|]. intros E. injection E as <-. exact Hw.
Qed.

Lemma sb_hint_exact_consume n s t k : wfb false s -> step_by n s = Ok t ->
  sb_size_hint (sb_consume k t) =
    (length (sb_drain (sb_consume k t)), Some (length (sb_drain (sb_consume k t)))).
Proof. intros Hw E. apply sb_hint_exact. apply sb_consume_wf. exact (step_by_wf n s t Hw E). Qed.

(* what a StepBy yields: every (step)-th element of what its source yields *)
Lemma every_nth_fuel st : forall f1 f2 l, length l <= f1 -> length l <= f2 ->
  every_nth f1 st l = every_nth f2 st l.
Proof.
  induction f1 as [|f1 IH]; intros f2 l H1 H2.
  - destruct l; [|cbn in H1; lia]. destruct f2; reflexivity.
  - destruct l as [|x r]; [destruct f2; reflexivity|]. destruct f2 as [|f2]; [cbn in H2; lia|].
    cbn [every_nth]. f_equal. cbn [length] in *. apply IH; rewrite skipn_length; lia.
Qed.

Lemma skipn_nth_error {A} : forall k (l : list A) x, nth_error l k = Some x -> skipn k l = x :: skipn (S k) l.
Proof.
  induction k as [|k IH]; intros [|y l] x H; try discriminate.
  - injection H as <-. reflexivity.
  - cbn [nth_error] in H. rewrite skipn_cons. rewrite (IH l x H). reflexivity.
Qed.

Lemma sb_drain_n_elems : forall fuel t, sb_wf t -> length (elems (sb_iter t)) < fuel ->
  sb_drain_n fuel t = sb_elems t.
Proof.
  induction fuel as [|fuel IH]; intros t Hw Hl; [lia|].
  cbn [sb_drain_n]. destruct (sb_next_sound t Hw) as (H1 & H2 & H3 & H4 & H5).
  destruct (sb_next t) as [o t']. cbn [fst snd] in *. unfold sb_elems. cbv zeta.
  set (l := elems (sb_iter t)) in *.
  destruct o as [x|].
  - assert (Hk : (if sb_first t then 0 else sb_step1 t) < length l)
      by (apply nth_error_Some; rewrite <- H1; discriminate).
    rewrite IH; [| exact H3 | rewrite H2, skipn_length; lia].
    unfold sb_elems. cbv zeta. rewrite H4, H5, H2. symmetry in H1.
    destruct (sb_first t).
    + destruct l as [|y r]; [discriminate|]. cbn [nth_error] in H1. injection H1 as ->.
      cbn [length every_nth skipn]. f_equal.
    + rewrite (skipn_nth_error _ _ _ H1).
      destruct (length l) as [|n'] eqn:En; [lia|]. cbn [every_nth]. f_equal.
      apply every_nth_fuel; rewrite !skipn_length; lia.
  - symmetry in H1. apply nth_error_None in H1. destruct (sb_first t).
    + destruct l; [reflexivity | cbn in H1; lia].
    + rewrite skipn_all2 by exact H1. destruct (length l); reflexivity.
Qed.

Lemma sb_drain_elems t : sb_wf t -> sb_drain t = sb_elems t.
Proof. intros Hw. unfold sb_drain. apply sb_drain_n_elems; [exact Hw | lia]. Qed.

(* step_by 1 is the identity on the yielded sequence *)
Lemma every_nth_0 : forall f l, length l <= f -> every_nth f 0 l = l.
Proof.
  induction f as [|f IH]; intros [|x r] H; try reflexivity; [cbn in H; lia|].
  cbn [every_nth skipn]. f_equal. apply IH. cbn in H. lia.
Qed.
