(* Proofs/Kernels.v — the drivers' access traces are in bounds and write every slot exactly once. *)
From Tevec Require Import Base.Prelude Model.Driver Proofs.Driver Model.Kernels.

Lemma In_mapi {X Y} (h : nat -> X -> Y) xs y :
  In y (mapi h xs) -> exists i v, nth_error xs i = Some v /\ y = h i v.
Proof.
  intros H. apply In_nth_error in H. destruct H as [i Hi]. rewrite nth_error_mapi in Hi.
  destruct (nth_error xs i) as [v|] eqn:E; [|discriminate]. cbn in Hi. injection Hi as <-.
  exists i, v. split; [exact E|reflexivity].
Qed.

Lemma nth_error_seq_Some a n i v : nth_error (seq a n) i = Some v -> v = a + i /\ i < n.
Proof.
  rewrite nth_error_seq. destruct (i <? n) eqn:E; [|discriminate]. intros H. injection H as <-.
  apply Nat.ltb_lt in E. split; [reflexivity|exact E].
Qed.

Lemma calls_to_w0 {T} (xs : list T) : calls_to 0 xs = [].
Proof. reflexivity. Qed.
Lemma calls_to_idx_w0 {T} (xs : list T) : calls_to_idx 0 xs = [].
Proof. reflexivity. Qed.
Lemma slices_to_w0 len : slices_to 0 len = [].
Proof. reflexivity. Qed.

(* ---- remove/add form ------------------------------------------------------------------- *)
Lemma calls_to_positions w len slot rm v :
  In (slot, (rm, v)) (calls_to w (seq 0 len)) ->
  slot < len /\ v = slot /\ (forall r, rm = Some r -> r <= slot).
Proof.
  destruct w as [|w]; [rewrite calls_to_w0; intros []|].
  rewrite calls_to_spec by lia. intros H. apply In_mapi in H. destruct H as (i & v0 & Hv0 & E).
  injection E as -> -> ->. apply nth_error_seq_Some in Hv0. destruct Hv0 as [-> Hi]. cbn [plus].
  split; [exact Hi|]. split; [reflexivity|]. intros r Hr.
  unfold removed_to, removed in Hr. destruct (_ <? _); [discriminate|].
  apply nth_error_seq_Some in Hr. lia.
Qed.

Theorem trace_apply_to_ok w len len2 : Forall (acc_ok len len2) (trace_apply_to w len).
Proof.
  apply Forall_forall. intros a Ha. unfold trace_apply_to in Ha. apply in_flat_map in Ha.
  destruct Ha as ([slot [rm v]] & Hin & Ha). apply calls_to_positions in Hin.
  destruct Hin as (Hs & -> & Hr). destruct rm as [r|]; cbn in Ha.
  - specialize (Hr r eq_refl). destruct Ha as [<-|[<-|[<-|[]]]]; cbn; lia.
  - destruct Ha as [<-|[<-|[]]]; cbn; lia.
Qed.

Theorem trace_apply2_to_ok w len len2 :
  len <= len2 -> Forall (acc_ok len len2) (trace_apply2_to w len).
Proof.
  intros Hl. apply Forall_forall. intros a Ha. unfold trace_apply2_to in Ha. apply in_flat_map in Ha.
  destruct Ha as ([slot [rm v]] & Hin & Ha). apply calls_to_positions in Hin.
  destruct Hin as (Hs & -> & Hr). destruct rm as [r|]; cbn in Ha.
  - specialize (Hr r eq_refl). destruct Ha as [<-|[<-|[<-|[<-|[<-|[]]]]]]; cbn; lia.
  - destruct Ha as [<-|[<-|[<-|[]]]]; cbn; lia.
Qed.

Lemma writes_of_app t1 t2 : writes_of (t1 ++ t2) = writes_of t1 ++ writes_of t2.
Proof. unfold writes_of. apply flat_map_app. Qed.

Lemma flat_map_writes {X} (h : X -> list acc) (k : X -> nat) (l : list X) :
  (forall x, In x l -> writes_of (h x) = [k x]) -> writes_of (flat_map h l) = map k l.
Proof.
  intros H. induction l as [|x l IH]; [reflexivity|]. cbn [flat_map map].
  rewrite writes_of_app, (H x (or_introl eq_refl)). cbn. f_equal. apply IH.
  intros y Hy. apply H. right. exact Hy.
Qed.

(* every output slot is written exactly once, in order — unless the window is rejected *)
Theorem trace_apply_to_writes w len :
  bad_window w (seq 0 len) = false -> writes_of (trace_apply_to w len) = seq 0 len.
Proof.
  intros Hb. destruct w as [|w].
  - unfold bad_window in Hb. rewrite seq_length in Hb. cbn in Hb.
    destruct len; [reflexivity|discriminate].
  - unfold trace_apply_to. rewrite calls_to_spec by lia.
    rewrite (flat_map_writes _ fst).
    + rewrite map_mapi. cbn [fst]. rewrite mapi_fst_seq, seq_length. reflexivity.
    + intros [slot [rm v]] _. destruct rm; reflexivity.
Qed.

Theorem trace_apply2_to_writes w len :
  bad_window w (seq 0 len) = false -> writes_of (trace_apply2_to w len) = seq 0 len.
Proof.
  intros Hb. destruct w as [|w].
  - unfold bad_window in Hb. rewrite seq_length in Hb. cbn in Hb.
    destruct len; [reflexivity|discriminate].
  - unfold trace_apply2_to. rewrite calls_to_spec by lia.
    rewrite (flat_map_writes _ fst).
    + rewrite map_mapi. cbn [fst]. rewrite mapi_fst_seq, seq_length. reflexivity.
    + intros [slot [rm v]] _. destruct rm; reflexivity.
Qed.

(* ---- window-index form: the driver's own read plus whatever the callback reads in its window *)
Lemma calls_to_idx_positions w len slot st e v :
  In (slot, (st, e, v)) (calls_to_idx w (seq 0 len)) ->
  slot < len /\ v = slot /\ e = slot /\ (forall s, st = Some s -> s <= slot).
Proof.
  destruct w as [|w]; [rewrite calls_to_idx_w0; intros []|].
  rewrite calls_to_idx_spec by lia. intros H. apply In_mapi in H. destruct H as (i & v0 & Hv0 & E).
  injection E as -> -> -> ->. apply nth_error_seq_Some in Hv0. destruct Hv0 as [-> Hi]. cbn [plus].
  repeat split; try assumption. intros s Hs. unfold start_of in Hs.
  destruct (_ <? _); [discriminate|]. injection Hs as <-. lia.
Qed.

Theorem trace_idx_to_ok cb w len len2 :
  cb_reads_in_window cb -> len <= len2 -> Forall (acc_ok len len2) (trace_idx_to cb w len).
Proof.
  intros Hcb Hl. apply Forall_forall. intros a Ha. unfold trace_idx_to in Ha. apply in_flat_map in Ha.
  destruct Ha as ([slot [[st e] v]] & Hin & Ha). apply calls_to_idx_positions in Hin.
  destruct Hin as (Hs & -> & -> & Hst). cbn in Ha. destruct Ha as [<-|Ha]; [cbn; lia|].
  apply in_app_or in Ha. destruct Ha as [Ha|[<-|[]]]; [|cbn; lia].
  specialize (Hcb st slot a Ha). destruct a as [view i| | |]; try contradiction.
  destruct view as [|view]; cbn; lia.
Qed.

Theorem trace_idx2_to_ok cb w len len2 :
  cb_reads_in_window cb -> len <= len2 -> Forall (acc_ok len len2) (trace_idx2_to cb w len).
Proof.
  intros Hcb Hl. apply Forall_forall. intros a Ha. unfold trace_idx2_to in Ha. apply in_flat_map in Ha.
  destruct Ha as ([slot [[st e] v]] & Hin & Ha). apply calls_to_idx_positions in Hin.
  destruct Hin as (Hs & -> & -> & Hst). cbn in Ha. destruct Ha as [<-|[<-|Ha]]; [cbn; lia|cbn; lia|].
  apply in_app_or in Ha. destruct Ha as [Ha|[<-|[]]]; [|cbn; lia].
  specialize (Hcb st slot a Ha). destruct a as [view i| | |]; try contradiction.
  destruct view as [|view]; cbn; lia.
Qed.

Theorem trace_idx_to_writes cb w len :
  (forall st e, writes_of (cb st e) = []) ->
  bad_window w (seq 0 len) = false -> writes_of (trace_idx_to cb w len) = seq 0 len.
Proof.
  intros Hcb Hb. destruct w as [|w].
  - unfold bad_window in Hb. rewrite seq_length in Hb. cbn in Hb.
    destruct len; [reflexivity|discriminate].
  - unfold trace_idx_to. rewrite calls_to_idx_spec by lia.
    rewrite (flat_map_writes _ fst).
    + rewrite map_mapi. cbn [fst]. rewrite mapi_fst_seq, seq_length. reflexivity.
    + intros [slot [[st e] v]] _. change (AUget 0 v :: cb st e ++ [AUset slot]) with ([AUget 0 v] ++ cb st e ++ [AUset slot]).
      rewrite !writes_of_app, Hcb. reflexivity.
Qed.

(* ---- slice forms ---------------------------------------------------------------------------- *)
Theorem trace_custom_to_ok w len len2 : Forall (acc_ok len len2) (trace_custom_to w len).
Proof.
  apply Forall_forall. intros a Ha. unfold trace_custom_to in Ha. apply in_flat_map in Ha.
  destruct Ha as ([slot [st e]] & Hin & Ha).
  destruct w as [|w]; [rewrite slices_to_w0 in Hin; destruct Hin|].
  rewrite slices_to_spec in Hin by lia. apply in_map_iff in Hin. destruct Hin as (i & E & Hi).
  injection E as <- <- <-. apply in_seq in Hi. unfold wstart in Ha.
  destruct Ha as [<-|[<-|[]]]; cbn [acc_ok]; lia.
Qed.

Theorem trace_custom_to_writes w len :
  bad_window w (seq 0 len) = false -> writes_of (trace_custom_to w len) = seq 0 len.
Proof.
  intros Hb. destruct w as [|w].
  - unfold bad_window in Hb. rewrite seq_length in Hb. cbn in Hb.
    destruct len; [reflexivity|discriminate].
  - unfold trace_custom_to. rewrite slices_to_spec by lia.
    rewrite (flat_map_writes _ fst).
    + rewrite map_map. cbn [fst]. apply map_id.
    + intros [slot [st e]] _. reflexivity.
Qed.

Theorem trace_custom_iter_ok w len len2 :
  1 <= w -> Forall (acc_ok len len2) (trace_custom_iter w len).
Proof.
  intros Hw. apply Forall_forall. intros a Ha. unfold trace_custom_iter in Ha.
  rewrite slices_iter_spec in Ha by exact Hw. rewrite map_map in Ha.
  apply in_map_iff in Ha. destruct Ha as (i & <- & Hi). apply in_seq in Hi. unfold wstart. cbn [acc_ok]. lia.
Qed.

Theorem trace_custom2_ok w len len2 :
  1 <= w -> len <= len2 -> Forall (acc_ok len len2) (trace_custom2 w len).
Proof.
  intros Hw Hl. apply Forall_forall. intros a Ha. unfold trace_custom2 in Ha.
  rewrite slices_iter_spec in Ha by exact Hw. apply in_flat_map in Ha.
  destruct Ha as ([st e] & Hin & Ha). apply in_map_iff in Hin. destruct Hin as (i & E & Hi).
  injection E as <- <-. apply in_seq in Hi. unfold wstart in Ha.
  destruct Ha as [<-|[<-|[]]]; cbn [acc_ok]; lia.
Qed.

Theorem trace_write_ok len len2 :
  Forall (acc_ok len len2) (trace_write len) /\ writes_of (trace_write len) = seq 0 len.
Proof.
  split.
  - apply Forall_forall. intros a Ha. unfold trace_write in Ha. apply in_map_iff in Ha.
    destruct Ha as (i & <- & Hi). apply in_seq in Hi. cbn. lia.
  - unfold trace_write, writes_of. induction (seq 0 len) as [|x l IH]; [reflexivity|].
    cbn. f_equal. exact IH.
Qed.

(* ---- degenerate parameters: a clean panic before anything is exposed, or a complete result --- *)
Section Degenerate.
  Context {T St O : Type}.
  Lemma window0_rejected_to (f : St -> option T * T -> St * O) s0 (xs : list T) :
    xs <> [] -> rolling_apply_to 0 f s0 xs = Panicked AssertFail.
  Proof. intros H. unfold rolling_apply_to, bad_window. destruct xs; [contradiction|reflexivity]. Qed.
  Lemma window0_rejected_default (f : St -> option T * T -> St * O) s0 (xs : list T) :
    xs <> [] -> rolling_apply_default 0 f s0 xs = Panicked AssertFail.
  Proof. intros H. unfold rolling_apply_default, bad_window. destruct xs; [contradiction|reflexivity]. Qed.
  Lemma window0_rejected_idx_to (f : St -> option nat * nat * T -> St * O) s0 (xs : list T) :
    xs <> [] -> rolling_apply_idx_to 0 f s0 xs = Panicked AssertFail.
  Proof. intros H. unfold rolling_apply_idx_to, bad_window. destruct xs; [contradiction|reflexivity]. Qed.
  Lemma window0_rejected_custom_to (f : St -> list T -> St * O) s0 (xs : list T) :
    xs <> [] -> rolling_custom_to 0 f s0 xs = Panicked AssertFail.
  Proof. intros H. unfold rolling_custom_to, bad_window. destruct xs; [contradiction|reflexivity]. Qed.
  Lemma empty_input_to w (f : St -> option T * T -> St * O) s0 :
    rolling_apply_to w f s0 [] = Done [] /\ rolling_apply_default w f s0 [] = Done [].
  Proof.
    unfold rolling_apply_to, rolling_apply_default, bad_window. cbn [length Nat.eqb negb andb].
    rewrite Bool.andb_false_r. split; [|unfold args_iter; rewrite combine_nil; reflexivity].
    unfold calls_to. cbn [length]. rewrite Nat.min_0_r. reflexivity.
  Qed.
  Lemma empty_input_idx w (f : St -> option nat * nat * T -> St * O) s0 :
    rolling_apply_idx_to w f s0 [] = Done [] /\ rolling_apply_idx_default w f s0 [] = Done [].
  Proof.
    unfold rolling_apply_idx_to, rolling_apply_idx_default, bad_window. cbn [length Nat.eqb negb andb].
    rewrite Bool.andb_false_r. split; [|destruct w; reflexivity].
    unfold calls_to_idx. cbn [length]. rewrite Nat.min_0_r. reflexivity.
  Qed.
End Degenerate.

Lemma short_second_rejected {T1 T2 St O} w (f : St -> option (T1 * T2) * (T1 * T2) -> St * O) s0
      (xs : list T1) (ys : list T2) :
  length ys < length xs -> rolling2_apply_to w f s0 xs ys = Panicked AssertFail.
Proof.
  intros H. unfold rolling2_apply_to.
  replace (length ys <? length xs) with true by (symmetry; apply Nat.ltb_lt; exact H). reflexivity.
Qed.
Lemma short_second_rejected_idx {T1 T2 St O} w (f : St -> option nat * nat * (T1 * T2) -> St * O) s0
      (xs : list T1) (ys : list T2) :
  length ys < length xs -> rolling2_apply_idx_to w f s0 xs ys = Panicked AssertFail.
Proof.
  intros H. unfold rolling2_apply_idx_to.
  replace (length ys <? length xs) with true by (symmetry; apply Nat.ltb_lt; exact H). reflexivity.
Qed.
Lemma short_second_rejected_custom {T1 T2 St O} w (f : St -> list T1 * list T2 -> St * O) s0
      (xs : list T1) (ys : list T2) :
  length ys < length xs -> rolling2_custom_default w f s0 xs ys = Panicked AssertFail.
Proof.
  intros H. unfold rolling2_custom_default.
  replace (length ys <? length xs) with true by (symmetry; apply Nat.ltb_lt; exact H). reflexivity.
Qed.

(* the run-time outcome is never `Uninit` *)
Lemma outcome_never_uninit_apply {T St O} w (f : St -> option T * T -> St * O) s0 (xs : list T) :
  (exists out, rolling_apply_to w f s0 xs = Done out /\ length out = length xs) \/
  rolling_apply_to w f s0 xs = Panicked AssertFail.
Proof.
  destruct w as [|w].
  - destruct xs as [|x xs]; [left; exists []; split; [apply empty_input_to|reflexivity]|].
    right. apply window0_rejected_to. discriminate.
  - left. rewrite rolling_apply_to_eq by lia. eexists. split; [reflexivity|].
    rewrite run_length. unfold args_to. apply mapi_length.
Qed.
