(* Proofs/CmpOrdFloat.v — the order laws of Spec/ExtremaOrd.v hold for Coq's primitive binary64 `float`
   (Base/F64.v: NumF64) restricted to its non-NaN values, from the standard library's specification of the
   primitive comparisons (Floats.FloatAxioms: eqb_spec, ltb_spec, leb_spec relate PrimFloat.eqb/ltb/leb to
   SpecFloat.SFcompare on Prim2SF).  Hence the generic theorems of Proofs/CmpOrd.v / RollRankOrd.v apply to the
   float instance the correspondence runs execute (f64 with NaN as the null, Option<f64>).
   neqb is NOT Leibniz equality here (+0 == -0): OrdLaws holds, OrdStrict does not — which is why the generic
   specification says "the LAST among equivalent extremes".
   Assumptions (Print Assumptions at the end): the primitive float/int63 constants and the three FloatAxioms
   above — axioms of the STANDARD LIBRARY about primitive floats, nothing else.  These theorems are therefore
   not in Props/C03.v (the driver's allow-list has only the Reals axioms); see notes/C03.md.           *)
From Coq Require Import ZArith List Lia Bool Floats.
From Tevec Require Import Base.Prelude Base.Num Base.XR Base.F64 Model.Driver Model.Cmp Spec.ExtremaOrd Proofs.CmpOrd
     Proofs.RollRankOrd.
Import ListNotations.

(* ---- SFcompare on non-NaN spec floats is a lexicographic comparison of integer triples ---------------- *)
Definition sf_key (f : spec_float) : Z * Z * Z :=
  match f with
  | S754_nan => (3, 0, 0)
  | S754_infinity true => (-2, 0, 0)
  | S754_infinity false => (2, 0, 0)
  | S754_zero _ => (0, 0, 0)
  | S754_finite true m e => (-1, - e, Zneg m)
  | S754_finite false m e => (1, e, Zpos m)
  end%Z.

Definition lexcmp (k1 k2 : Z * Z * Z) : comparison :=
  let '(a1, b1, c1) := k1 in
  let '(a2, b2, c2) := k2 in
  match (a1 ?= a2)%Z with
  | Eq => match (b1 ?= b2)%Z with Eq => (c1 ?= c2)%Z | c => c end
  | c => c
  end.
Definition lexlt (k1 k2 : Z * Z * Z) : Prop :=
  let '(a1, b1, c1) := k1 in
  let '(a2, b2, c2) := k2 in
  (a1 < a2 \/ (a1 = a2 /\ (b1 < b2 \/ (b1 = b2 /\ c1 < c2))))%Z.

Lemma lexcmp_spec k1 k2 :
  match lexcmp k1 k2 with Lt => lexlt k1 k2 | Eq => k1 = k2 | Gt => lexlt k2 k1 end.
Proof.
  destruct k1 as [[a1 b1] c1], k2 as [[a2 b2] c2]. unfold lexcmp, lexlt.
  destruct (Z.compare_spec a1 a2); [|lia|lia].
  destruct (Z.compare_spec b1 b2); [|lia|lia].
  destruct (Z.compare_spec c1 c2); [subst; reflexivity|lia|lia].
Qed.

Lemma lexlt_asym k1 k2 : lexlt k1 k2 -> ~ lexlt k2 k1.
Proof. destruct k1 as [[a1 b1] c1], k2 as [[a2 b2] c2]. unfold lexlt. lia. Qed.
Lemma lexlt_irrefl k : ~ lexlt k k.
Proof. destruct k as [[a b] c]. unfold lexlt. lia. Qed.
Lemma lexlt_cotrans k1 k2 k3 : lexlt k1 k2 -> lexlt k1 k3 \/ lexlt k3 k2.
Proof. destruct k1 as [[a1 b1] c1], k2 as [[a2 b2] c2], k3 as [[a3 b3] c3]. unfold lexlt. lia. Qed.

Lemma lexcmp_lt k1 k2 : lexcmp k1 k2 = Lt <-> lexlt k1 k2.
Proof.
  pose proof (lexcmp_spec k1 k2) as H. split.
  - intros E. rewrite E in H. exact H.
  - intros L. destruct (lexcmp k1 k2); [subst; exfalso; exact (lexlt_irrefl _ L)|reflexivity|
                                         exfalso; exact (lexlt_asym _ _ L H)].
Qed.

Lemma SFcompare_key f1 f2 : f1 <> S754_nan -> f2 <> S754_nan ->
  SFcompare f1 f2 = Some (lexcmp (sf_key f1) (sf_key f2)).
Proof.
  intros H1 H2.
  destruct f1 as [s1|s1| |s1 m1 e1], f2 as [s2|s2| |s2 m2 e2]; try congruence;
    try destruct s1; try destruct s2; try reflexivity.
  (* left: both finite and negative (both positive is closed by conversion) *)
  cbn [SFcompare sf_key lexcmp]. change (-1 ?= -1)%Z with Eq. cbv iota.
  rewrite Z.compare_opp, (Z.compare_antisym e1 e2).
  destruct (e1 ?= e2)%Z; reflexivity.
Qed.

(* ---- the laws for NumF64 ----------------------------------------------------------------------------- *)
Lemma f64_ok_not_nan (a : float) : num_ok a -> Prim2SF a <> S754_nan.
Proof.
  unfold num_ok. cbn [nisnan NumF64]. unfold is_nan. rewrite FloatAxioms.eqb_spec. intros H E. rewrite E in H. discriminate.
Qed.

Definition fkey (a : float) : Z * Z * Z := sf_key (Prim2SF a).

Lemma f64_ltb_key (a b : float) : num_ok a -> num_ok b -> (nltb a b = true <-> lexlt (fkey a) (fkey b)).
Proof.
  intros Ha Hb. cbn [nltb NumF64]. rewrite FloatAxioms.ltb_spec. unfold SFltb.
  rewrite (SFcompare_key _ _ (f64_ok_not_nan a Ha) (f64_ok_not_nan b Hb)). fold (fkey a) (fkey b).
  rewrite <- lexcmp_lt. destruct (lexcmp (fkey a) (fkey b)); split; intros H; try reflexivity; discriminate.
Qed.
Lemma f64_ltb_false (a b : float) : num_ok a -> num_ok b -> (nltb a b = false <-> ~ lexlt (fkey a) (fkey b)).
Proof.
  intros Ha Hb. rewrite <- (f64_ltb_key a b Ha Hb). destruct (nltb a b); split; intros H; congruence.
Qed.

Lemma ordlaws_F64 : OrdLaws float.
Proof.
  split.
  - intros a b Ha Hb H. apply (f64_ltb_key a b Ha Hb) in H. apply (f64_ltb_false b a Hb Ha).
    apply lexlt_asym. exact H.
  - intros a b c Ha Hb Hc H. apply (f64_ltb_key a b Ha Hb) in H.
    destruct (lexlt_cotrans _ _ (fkey c) H) as [H'|H'];
      [left; apply (f64_ltb_key a c Ha Hc)|right; apply (f64_ltb_key c b Hc Hb)]; exact H'.
  - intros a b Ha Hb. cbn [neqb nltb NumF64]. rewrite FloatAxioms.eqb_spec, !FloatAxioms.ltb_spec. unfold SFeqb, SFltb.
    rewrite (SFcompare_key _ _ (f64_ok_not_nan a Ha) (f64_ok_not_nan b Hb)),
            (SFcompare_key _ _ (f64_ok_not_nan b Hb) (f64_ok_not_nan a Ha)).
    fold (fkey a) (fkey b).
    pose proof (lexcmp_spec (fkey a) (fkey b)) as H1. pose proof (lexcmp_spec (fkey b) (fkey a)) as H2.
    destruct (lexcmp (fkey a) (fkey b)), (lexcmp (fkey b) (fkey a)); try reflexivity; exfalso;
      try (rewrite H1 in H2; exact (lexlt_irrefl _ H2)); try (rewrite H2 in H1; exact (lexlt_irrefl _ H1));
      try exact (lexlt_asym _ _ H1 H2).
  - intros a b Ha Hb. cbn [nleb nltb NumF64]. rewrite FloatAxioms.leb_spec, FloatAxioms.ltb_spec. unfold SFleb, SFltb.
    rewrite (SFcompare_key _ _ (f64_ok_not_nan a Ha) (f64_ok_not_nan b Hb)),
            (SFcompare_key _ _ (f64_ok_not_nan b Hb) (f64_ok_not_nan a Ha)).
    fold (fkey a) (fkey b).
    pose proof (lexcmp_spec (fkey a) (fkey b)) as H1. pose proof (lexcmp_spec (fkey b) (fkey a)) as H2.
    destruct (lexcmp (fkey a) (fkey b)), (lexcmp (fkey b) (fkey a)); try reflexivity; exfalso;
      try (rewrite H1 in H2; exact (lexlt_irrefl _ H2)); try (rewrite H2 in H1; exact (lexlt_irrefl _ H1));
      try exact (lexlt_asym _ _ H1 H2).
Qed.

(* +0 and -0 are equal for neqb and different terms: the float order is a weak order only *)
Lemma f64_not_strict : ~ OrdStrict float.
Proof.
  intros H. assert (E : (0%float = (-0)%float)) by (apply H; reflexivity).
  assert (E2 : (1 / 0 <? 0)%float = (1 / -0 <? 0)%float) by (rewrite <- E; reflexivity).
  vm_compute in E2. discriminate.
Qed.

(* ---- the cmp.rs functions on f64 series (NaN = null): the generic theorems apply ---------------------- *)
Theorem ts_vmin_f64 body w mp (xs : list float) :
  1 <= w -> 1 <= length xs ->
  exists out, ts_vmin (DT := IsNoneF64) body w mp xs = Done out /\ length out = length xs /\
    forall i, i < length xs ->
      nth_error out i =
      Some (let V := gvalid (win w i (map to_opt xs)) in
            if cmp_mp mp (cmp_window w xs) <=? length V then gmin V else None).
Proof.
  apply (ts_vmin_ord ordlaws_F64). intros v _ H. exact H.
Qed.
Theorem ts_vmax_f64 body w mp (xs : list float) :
  1 <= w -> 1 <= length xs ->
  exists out, ts_vmax (DT := IsNoneF64) body w mp xs = Done out /\ length out = length xs /\
    forall i, i < length xs ->
      nth_error out i =
      Some (let V := gvalid (win w i (map to_opt xs)) in
            if cmp_mp mp (cmp_window w xs) <=? length V then gmax V else None).
Proof.
  apply (ts_vmax_ord ordlaws_F64). intros v _ H. exact H.
Qed.
Theorem ts_vargmin_f64 body w mp (xs : list float) :
  1 <= w -> 1 <= length xs ->
  exists out, ts_vargmin (DT := IsNoneF64) body w mp xs = Done out /\ length out = length xs /\
    forall i, i < length xs ->
      nth_error out i =
      Some (let W := win w i (map to_opt xs) in
            if cmp_mp mp (cmp_window w xs) <=? length (gvalid W) then gargmin_spec W else None).
Proof.
  apply (ts_vargmin_ord ordlaws_F64). intros v _ H. exact H.
Qed.
Theorem ts_vargmax_f64 body w mp (xs : list float) :
  1 <= w -> 1 <= length xs ->
  exists out, ts_vargmax (DT := IsNoneF64) body w mp xs = Done out /\ length out = length xs /\
    forall i, i < length xs ->
      nth_error out i =
      Some (let W := win w i (map to_opt xs) in
            if cmp_mp mp (cmp_window w xs) <=? length (gvalid W) then gargmax_spec W else None).
Proof.
  apply (ts_vargmax_ord ordlaws_F64). intros v _ H. exact H.
Qed.

(* non-vacuity: the float model on a window with +0 / -0 ties, a NaN and an expiring extreme agrees with the
   generic specification evaluated on the same data *)
Example f64_example_min :
  ts_vmin (DT := IsNoneF64) true 2 (Some 0) [0%float; (-0)%float; nan; 3%float; 2%float] =
  Done (map (fun i => gmin (gvalid (win 2 i (map (to_opt (H := IsNoneF64)) [0%float; (-0)%float; nan; 3%float; 2%float]))))
            (seq 0 5)).
Proof. vm_compute. reflexivity. Qed.

(* Option<f64> (IsNone_option: only `None` is null): the same four theorems under the premise that no element is
   Some(NaN) (DESIGN 5.4) *)
Theorem cmp_optf64 body w mp (xs : list (option float)) :
  valid_not_nan (DT := IsNoneOptF64) xs -> 1 <= w -> 1 <= length xs ->
  (exists out, ts_vmin (DT := IsNoneOptF64) body w mp xs = Done out /\ length out = length xs /\
     forall i, i < length xs ->
       nth_error out i =
       Some (let V := gvalid (win w i (map to_opt xs)) in
             if cmp_mp mp (cmp_window w xs) <=? length V then gmin V else None)) /\
  (exists out, ts_vmax (DT := IsNoneOptF64) body w mp xs = Done out /\ length out = length xs /\
     forall i, i < length xs ->
       nth_error out i =
       Some (let V := gvalid (win w i (map to_opt xs)) in
             if cmp_mp mp (cmp_window w xs) <=? length V then gmax V else None)) /\
  (exists out, ts_vargmin (DT := IsNoneOptF64) body w mp xs = Done out /\ length out = length xs /\
     forall i, i < length xs ->
       nth_error out i =
       Some (let W := win w i (map to_opt xs) in
             if cmp_mp mp (cmp_window w xs) <=? length (gvalid W) then gargmin_spec W else None)) /\
  (exists out, ts_vargmax (DT := IsNoneOptF64) body w mp xs = Done out /\ length out = length xs /\
     forall i, i < length xs ->
       nth_error out i =
       Some (let W := win w i (map to_opt xs) in
             if cmp_mp mp (cmp_window w xs) <=? length (gvalid W) then gargmax_spec W else None)).
Proof.
  intros Hxs Hw Hlen. repeat split.
  - exact (ts_vmin_ord ordlaws_F64 body w mp xs Hxs Hw Hlen).
  - exact (ts_vmax_ord ordlaws_F64 body w mp xs Hxs Hw Hlen).
  - exact (ts_vargmin_ord ordlaws_F64 body w mp xs Hxs Hw Hlen).
  - exact (ts_vargmax_ord ordlaws_F64 body w mp xs Hxs Hw Hlen).
Qed.

(* the premise cannot be dropped: with Some(NaN) elements the NaN fall-back of sort_cmp never "takes", the rescan
   leaves the stale index in place and ts_vargmin computes `min_idx - start` below zero (model; DESIGN 5.4 puts
   such series outside the property) *)
Example f64_some_nan_is_outside :
  ts_vargmin (DT := IsNoneOptF64) true 2 (Some 0) [Some nan; Some nan; Some nan] = Panicked Underflow /\
  ~ valid_not_nan (DT := IsNoneOptF64) [Some nan; Some nan; Some nan].
Proof.
  split; [vm_compute; reflexivity|].
  intros H. specialize (H (Some nan) (or_introl eq_refl) eq_refl). vm_compute in H. discriminate.
Qed.

(* ts_vrank with f64 input (NaN = null): the counts are those of the float comparisons; the output arithmetic is
   stated over exact reals (B = option R), as in C03_ts_vrank *)
Theorem ts_vrank_f64_input body w mp pct rev (xs : list float) :
  1 <= w -> 1 <= length xs ->
  exists out, ts_vrank (DT := IsNoneF64) (B := XR) body w mp pct rev xs = Done out /\ length out = length xs /\
    forall i, i < length xs ->
      nth_error out i =
      Some (match nth_error (map to_opt xs) i with
            | Some (Some x) =>
                let V' := gvalid (seg (wstart w i) i (map to_opt xs)) in
                if cmp_mp mp (cmp_window w xs) <=? S (length V') then Some (g_avg_rank pct rev x V')
                else None
            | _ => None
            end).
Proof.
  apply (ts_vrank_ord ordlaws_F64). intros v _ H. exact H.
Qed.

Print Assumptions ordlaws_F64.
Print Assumptions ts_vargmax_f64.
Print Assumptions cmp_optf64.
Print Assumptions ts_vrank_f64_input.
