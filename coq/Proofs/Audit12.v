(* Proofs/Audit12.v — C12 audit, part 1: the clauses of the property that need NO law of the carrier.
   Every numeric class instance `Num A` (binary64, integers, option R, ...), every null dictionary
   `IsNone T A` (NaN-as-null floats, Option<_>, never-null integers); no order law, no axiom.

   * vpartition: ALWAYS kth + 1 entries (every kth, also kth >= len; both sort flags; both directions);
     the entries are non-null elements of the series (a sub-multiset of size min (kth+1) n) followed by
     nulls only; what happens when `T::none()` panics (integer element types).
   * varg_partition: ALWAYS kth + 1 entries: distinct in-range positions of NON-NULL elements
     (min (kth+1) n of them) followed by -1 only — never the position of a null.
   * vquantile: the decomposition of the result into two non-null ELEMENTS OF THE SERIES vi, vj
     (lower / higher / the exact-index case return one of them), given the index facts of the carrier
     (proved at binary64 in Proofs/QIdxFloat.v and at option R).
   * vpercentile_of: the three counters are the numbers of non-null elements below / equal to / in
     total, and the result is the documented proportion of them, in the carrier's arithmetic.
   * vrank: the output has the length of the input.                                                  *)
From Coq Require Import List Bool Arith Lia ZArith Permutation.
From Tevec Require Import Base.Prelude Base.Num Model.NullView Model.SortCmp Model.Quantile Model.Partition
     Model.Rank Proofs.SortCmp Proofs.TransQuantile.
From Tevec Require Proofs.Partition.
Import ListNotations.

(* ---- list helpers --------------------------------------------------------------------------------- *)
Lemma Forall_firstn {X} (P : X -> Prop) k (l : list X) : Forall P l -> Forall P (firstn k l).
Proof.
  rewrite !Forall_forall. intros H x Hx. apply H. eapply Proofs.Partition.In_firstn. exact Hx.
Qed.

Lemma Forall_perm {X} (P : X -> Prop) (l1 l2 : list X) : Permutation l1 l2 -> Forall P l1 -> Forall P l2.
Proof.
  intros HP. rewrite !Forall_forall. intros H x Hx. apply H. apply Permutation_in with l2; [symmetry; exact HP|exact Hx].
Qed.

Lemma Forall_repeat {X} (P : X -> Prop) (x : X) n : P x -> Forall P (repeat x n).
Proof. intros H. induction n; cbn; constructor; assumption. Qed.

(* comparator on optional values: the closure of the argsorts reads the series through nth_error *)
Definition ocmp {X} (cmp : X -> X -> comparison) (a b : option X) : comparison :=
  match a, b with Some va, Some vb => cmp va vb | _, _ => Eq end.

Lemma cmp_idx_ocmp {X} (cmp : X -> X -> comparison) (xs : list X) :
  cmp_idx cmp xs = fun a b => ocmp cmp (nth_error xs a) (nth_error xs b).
Proof. reflexivity. Qed.

Lemma map_nth_error_seq {X} (xs : list X) : map (nth_error xs) (seq 0 (length xs)) = map Some xs.
Proof.
  apply nth_error_ext. intros i. rewrite !nth_error_map, nth_error_seq.
  destruct (i <? length xs) eqn:E; cbn [option_map].
  - apply Nat.ltb_lt in E. cbn [Nat.add]. destruct (nth_error xs i) eqn:En; [reflexivity|].
    apply nth_error_None in En. lia.
  - apply Nat.ltb_ge in E. apply nth_error_None in E. rewrite E. reflexivity.
Qed.

(* argsort: along the sorted index vector one reads the sorted series *)
Lemma argsort_values_gen {X} (cmp : X -> X -> comparison) (xs : list X) :
  map (nth_error xs) (isort (cmp_idx cmp xs) (seq 0 (length xs))) = map Some (isort cmp xs).
Proof.
  rewrite cmp_idx_ocmp.
  rewrite (Proofs.Partition.isort_map (nth_error xs) (ocmp cmp)), map_nth_error_seq.
  symmetry. exact (Proofs.Partition.isort_map (@Some X) (ocmp cmp) xs).
Qed.

Section Generic.
  Context {A : Type} {NA : Num A} {T : Type} {DT : IsNone T A}.

  Lemma not_none_valid (v : T) : not_none v = true <-> is_none v = false.
  Proof. unfold not_none. destruct (is_none v); cbn; split; congruence. Qed.

  Lemma all_valid_in (l : list T) x : all_valid l -> In x l -> not_none x = true.
  Proof.
    unfold all_valid. rewrite Forall_forall. intros H Hx. apply not_none_valid. apply H. exact Hx.
  Qed.

  Lemma filter_valid_id (l : list T) : all_valid l -> filter not_none l = l.
  Proof.
    induction 1 as [|x l Hx _ IH]; [reflexivity|]. cbn [filter]. unfold not_none at 1. rewrite Hx. cbn [negb].
    f_equal. exact IH.
  Qed.

  Lemma count_valid_filter (xs : list T) : count_valid xs = length (filter not_none xs).
  Proof. reflexivity. Qed.

  Lemma valid_null_lengths (xs : list T) :
    (length (filter not_none xs) + length (filter is_none xs) = length xs)%nat.
  Proof.
    induction xs as [|x xs IH]; [reflexivity|]. cbn [filter]. unfold not_none at 1.
    destruct (is_none x); cbn [negb length]; lia.
  Qed.

  (* ================================================================== vpartition ================ *)
  Context {DX : IsNoneX T A}.

  (* the shape every successful result has *)
  Definition part_shape (kth : nat) (xs r : list T) : Prop :=
    exists taken nulls rest : list T,
      r = taken ++ nulls /\ all_valid taken /\ all_null nulls /\
      length taken = Nat.min (kth + 1) (count_valid xs) /\ length r = (kth + 1)%nat /\
      Permutation (filter not_none xs) (taken ++ rest).

  (* does the call have to evaluate T::none()? *)
  Definition needs_pad (kth : nat) (sort : bool) (xs : list T) : bool :=
    if sort then (count_valid xs <=? kth + 1)%nat && (length xs <? kth + 1)%nat
    else (count_valid xs <? kth + 1)%nat.

  Lemma vpartition_shape kth sort rev xs :
    match tnone with
    | Ok pad => is_none pad = true ->
                exists r, vpartition kth sort rev xs = Ok r /\ part_shape kth xs r
    | Panic e => if needs_pad kth sort xs then vpartition kth sort rev xs = Panic e
                 else exists r, vpartition kth sort rev xs = Ok r /\ part_shape kth xs r
    end.
  Proof.
    unfold vpartition, needs_pad, part_shape. rewrite (isort_split rev xs), count_valid_filter.
    set (V := filter not_none xs). set (n := length V). set (Zs := filter is_none xs).
    set (S0 := isort (cmp_dir rev) V).
    pose proof (filter_not_none_all_valid xs) as HV. fold V in HV.
    pose proof (filter_is_none_all_null xs) as HZ. fold Zs in HZ.
    assert (HS0 : length S0 = n) by (unfold S0; rewrite isort_length; reflexivity).
    assert (HS0v : all_valid S0) by (unfold S0; apply isort_all_valid; exact HV).
    assert (HS0p : Permutation V S0) by (unfold S0; symmetry; apply isort_perm).
    pose proof (valid_null_lengths xs) as HL. fold V Zs n in HL.
    assert (Hlen : length (S0 ++ Zs) = length xs) by (rewrite app_length; lia).
    (* the four successful shapes *)
    assert (Case1 : n = (kth + 1)%nat ->
              exists r, Ok V = Ok r /\ exists taken nulls rest, r = taken ++ nulls /\ all_valid taken /\ all_null nulls /\
                length taken = Nat.min (kth + 1) n /\ length r = (kth + 1)%nat /\ Permutation V (taken ++ rest)).
    { intros E. exists V. split; [reflexivity|]. exists V, [], []. rewrite !app_nil_r.
      repeat split; try assumption; try constructor; try (fold n; lia). apply Permutation_refl. }
    assert (Case2 : forall pad, is_none pad = true -> (n <= kth + 1)%nat ->
              exists r, Ok (pad_take (kth + 1) pad V) = Ok r /\ exists taken nulls rest, r = taken ++ nulls /\ all_valid taken /\
                all_null nulls /\ length taken = Nat.min (kth + 1) n /\ length r = (kth + 1)%nat /\ Permutation V (taken ++ rest)).
    { intros pad Hp Hn. eexists. split; [reflexivity|]. rewrite Proofs.Partition.pad_take_short by (fold n; lia).
      exists V, (repeat pad (kth + 1 - length V)), []. rewrite app_nil_r.
      split; [reflexivity|]. split; [exact HV|]. split; [apply Forall_repeat; exact Hp|].
      split; [fold n; lia|]. split; [rewrite app_length, repeat_length; fold n; lia|apply Permutation_refl]. }
    assert (Case3a : forall pad, is_none pad = true -> (n <= kth + 1)%nat -> (length xs < kth + 1)%nat ->
              exists r, Ok (pad_take (kth + 1) pad (S0 ++ Zs)) = Ok r /\ exists taken nulls rest, r = taken ++ nulls /\
                all_valid taken /\ all_null nulls /\ length taken = Nat.min (kth + 1) n /\ length r = (kth + 1)%nat /\
                Permutation V (taken ++ rest)).
    { intros pad Hp Hn Hl. eexists. split; [reflexivity|]. rewrite Proofs.Partition.pad_take_short by lia.
      exists S0, (Zs ++ repeat pad (kth + 1 - length (S0 ++ Zs))), []. rewrite app_nil_r, <- app_assoc.
      split; [reflexivity|]. split; [exact HS0v|]. split.
      { apply Forall_app. split; [exact HZ|apply Forall_repeat; exact Hp]. }
      split; [lia|]. split; [|exact HS0p].
      rewrite !app_length, repeat_length. lia. }
    assert (Case3b : (n <= kth + 1)%nat -> (kth + 1 <= length xs)%nat ->
              exists r, Ok (firstn (kth + 1) (S0 ++ Zs)) = Ok r /\ exists taken nulls rest, r = taken ++ nulls /\
                all_valid taken /\ all_null nulls /\ length taken = Nat.min (kth + 1) n /\ length r = (kth + 1)%nat /\
                Permutation V (taken ++ rest)).
    { intros Hn Hl. eexists. split; [reflexivity|]. rewrite firstn_app, (firstn_all2 (n := kth + 1) S0) by lia.
      exists S0, (firstn (kth + 1 - length S0) Zs), []. rewrite app_nil_r.
      split; [reflexivity|]. split; [exact HS0v|]. split; [apply all_null_firstn; exact HZ|].
      split; [lia|]. split; [|exact HS0p]. rewrite app_length, firstn_length. lia. }
    assert (Case4 : (kth + 1 < n)%nat ->
              exists r, Ok (if sort then isort (cmp_dir rev) (firstn (kth + 1) (S0 ++ Zs)) else firstn (kth + 1) (S0 ++ Zs)) = Ok r /\
                exists taken nulls rest, r = taken ++ nulls /\
                all_valid taken /\ all_null nulls /\ length taken = Nat.min (kth + 1) n /\ length r = (kth + 1)%nat /\
                Permutation V (taken ++ rest)).
    { intros Hn. eexists. split; [reflexivity|].
      rewrite firstn_app. replace (kth + 1 - length S0)%nat with 0%nat by lia. cbn [firstn]. rewrite app_nil_r.
      set (t := firstn (kth + 1) S0).
      assert (Ht : length t = (kth + 1)%nat) by (unfold t; rewrite firstn_length; lia).
      assert (Htv : all_valid t) by (apply Forall_firstn; exact HS0v).
      assert (Hsplit : Permutation V (t ++ skipn (kth + 1) S0)).
      { unfold t. rewrite firstn_skipn. exact HS0p. }
      destruct sort.
      - exists (isort (cmp_dir rev) t), [], (skipn (kth + 1) S0). rewrite app_nil_r.
        split; [reflexivity|]. split; [apply isort_all_valid; exact Htv|]. split; [constructor|].
        rewrite isort_length. split; [lia|]. split; [lia|].
        eapply Permutation_trans; [exact Hsplit|]. apply Permutation_app_tail. symmetry. apply isort_perm.
      - exists t, [], (skipn (kth + 1) S0). rewrite app_nil_r.
        split; [reflexivity|]. split; [exact Htv|]. split; [constructor|]. split; [lia|]. split; [lia|exact Hsplit]. }
    (* dispatch *)
    destruct tnone as [pad|e].
    - intros Hp.
      destruct ((n =? kth + 1)%nat && negb sort) eqn:E1.
      { apply andb_true_iff in E1. destruct E1 as [E1 _]. apply Nat.eqb_eq in E1. exact (Case1 E1). }
      destruct (n <=? kth + 1)%nat eqn:E2.
      + apply Nat.leb_le in E2. destruct (negb sort); cbn [bind].
        * exact (Case2 pad Hp E2).
        * rewrite Hlen. destruct (length xs <? kth + 1)%nat eqn:E3; cbn [bind].
          -- apply Nat.ltb_lt in E3. exact (Case3a pad Hp E2 E3).
          -- apply Nat.ltb_ge in E3. exact (Case3b E2 E3).
      + apply Nat.leb_gt in E2. exact (Case4 E2).
    - destruct sort; cbn [negb andb].
      + rewrite andb_false_r. destruct (n <=? kth + 1)%nat eqn:E2; cbn [andb].
        * apply Nat.leb_le in E2. rewrite Hlen. destruct (length xs <? kth + 1)%nat eqn:E3; cbn [bind].
          -- reflexivity.
          -- apply Nat.ltb_ge in E3. exact (Case3b E2 E3).
        * apply Nat.leb_gt in E2. exact (Case4 E2).
      + rewrite andb_true_r. destruct (n =? kth + 1)%nat eqn:E1.
        * apply Nat.eqb_eq in E1. replace (n <? kth + 1)%nat with false by (symmetry; apply Nat.ltb_ge; lia).
          exact (Case1 E1).
        * apply Nat.eqb_neq in E1. destruct (n <=? kth + 1)%nat eqn:E2.
          -- apply Nat.leb_le in E2. replace (n <? kth + 1)%nat with true by (symmetry; apply Nat.ltb_lt; lia).
             reflexivity.
          -- apply Nat.leb_gt in E2. replace (n <? kth + 1)%nat with false by (symmetry; apply Nat.ltb_ge; lia).
             exact (Case4 E2).
  Qed.

  (* consequences in the words of the property *)
  Lemma part_shape_facts kth xs r :
    part_shape kth xs r ->
    length r = (kth + 1)%nat /\
    length (filter not_none r) = Nat.min (kth + 1) (count_valid xs) /\
    (forall x, In x r -> not_none x = true -> In x xs) /\
    (exists rest, Permutation (filter not_none xs) (filter not_none r ++ rest)) /\
    (exists m, all_valid (firstn m r) /\ all_null (skipn m r)).
  Proof.
    intros (taken & nulls & rest & -> & Htv & Hnl & Hlt & Hlr & Hperm).
    assert (Hf : filter not_none (taken ++ nulls) = taken).
    { rewrite filter_app, (filter_valid_id _ Htv), (filter_valid_of_null _ Hnl). apply app_nil_r. }
    split; [exact Hlr|]. rewrite Hf. split; [exact Hlt|]. split; [|split].
    - intros x Hx Hxv. apply in_app_or in Hx. destruct Hx as [Hx|Hx].
      + assert (Hin : In x (filter not_none xs)).
        { apply Permutation_in with (taken ++ rest); [symmetry; exact Hperm|]. apply in_or_app. left. exact Hx. }
        apply filter_In in Hin. exact (proj1 Hin).
      + exfalso. unfold all_null in Hnl. rewrite Forall_forall in Hnl. specialize (Hnl x Hx).
        apply not_none_valid in Hxv. congruence.
    - exists rest. exact Hperm.
    - exists (length taken). rewrite firstn_app, Nat.sub_diag, firstn_all. cbn [firstn]. rewrite app_nil_r.
      rewrite skipn_app, Nat.sub_diag, skipn_all. cbn [skipn app]. split; assumption.
  Qed.

  (* ================================================================ varg_partition ============== *)
  Lemma valid_idx_gen (xs : list T) (a : nat) :
    exists idx : list nat,
      flat_map (fun p : nat * T => if not_none (snd p) then [Z.of_nat (fst p)] else [])
               (combine (seq a (length xs)) xs) = map Z.of_nat idx /\ NoDup idx /\
      (forall i, In i idx -> (a <= i)%nat /\ exists v, nth_error xs (i - a) = Some v /\ not_none v = true) /\
      length idx = count_valid xs.
  Proof.
    revert a. induction xs as [|x xs IH]; intros a; cbn [length seq combine flat_map].
    - exists []. split; [reflexivity|]. split; [constructor|]. split; [intros i []|reflexivity].
    - destruct (IH (S a)) as (idx & E & Hnd & Hr & Hl). cbn [snd fst]. unfold count_valid. cbn [filter].
      destruct (not_none x) eqn:Ex.
      + exists (a :: idx). rewrite E. split; [reflexivity|]. split.
        { constructor; [|exact Hnd]. intros Hin. apply Hr in Hin. lia. }
        split.
        { intros i [<-|Hi].
          - split; [lia|]. rewrite Nat.sub_diag. exists x. split; [reflexivity|exact Ex].
          - destruct (Hr i Hi) as (Hle & v & Hv & Hvv). split; [lia|]. exists v. split; [|exact Hvv].
            replace (i - a)%nat with (S (i - S a)) by lia. exact Hv. }
        cbn [length]. f_equal. exact Hl.
      + exists idx. cbn [app]. split; [exact E|]. split; [exact Hnd|]. split; [|exact Hl].
        intros i Hi. destruct (Hr i Hi) as (Hle & v & Hv & Hvv). split; [lia|]. exists v. split; [|exact Hvv].
        replace (i - a)%nat with (S (i - S a)) by lia. exact Hv.
  Qed.

  Definition argpart_shape (kth : nat) (xs : list T) (out : list Z) : Prop :=
    exists idx : list nat,
      out = map Z.of_nat idx ++ repeat (-1)%Z (kth + 1 - count_valid xs) /\
      NoDup idx /\ length idx = Nat.min (kth + 1) (count_valid xs) /\
      (forall i, In i idx -> exists v, nth_error xs i = Some v /\ not_none v = true).

  Lemma varg_partition_shape kth sort rev xs : argpart_shape kth xs (varg_partition kth sort rev xs).
  Proof.
    unfold argpart_shape, varg_partition.
    set (cmp := cmp_dir (DT := DT) rev). set (cmpi := cmp_idx cmp xs).
    set (p := isort cmpi (seq 0 (length xs))). set (n := count_valid xs).
    assert (Hpp : Permutation p (seq 0 (length xs))) by apply isort_perm.
    assert (Hpnd : NoDup p) by (apply Permutation_NoDup with (seq 0 (length xs)); [symmetry; exact Hpp|apply seq_NoDup]).
    assert (Hplen : length p = length xs) by (rewrite (Permutation_length Hpp); apply seq_length).
    assert (Hpv : map (nth_error xs) p = map Some (isort cmp (filter not_none xs)) ++ map Some (filter is_none xs)).
    { unfold p, cmpi. rewrite argsort_values_gen. unfold cmp. rewrite (isort_split rev xs). apply map_app. }
    set (S0 := isort cmp (filter not_none xs)) in *.
    assert (HS0 : length S0 = n) by (unfold S0; rewrite isort_length; reflexivity).
    assert (HS0v : all_valid S0) by (unfold S0, cmp; apply isort_all_valid; apply filter_not_none_all_valid).
    assert (Hnl : (n <= length xs)%nat) by apply count_valid_le_length.
    (* the first m <= n positions of p point at non-null elements *)
    assert (Hfv : forall m i, (m <= n)%nat -> In i (firstn m p) -> exists v, nth_error xs i = Some v /\ not_none v = true).
    { intros m i Hm Hi.
      assert (Hin : In (nth_error xs i) (map (nth_error xs) (firstn m p))) by (apply in_map; exact Hi).
      rewrite <- firstn_map, Hpv, firstn_app, map_length in Hin.
      replace (m - length S0)%nat with 0%nat in Hin by lia. cbn [firstn] in Hin. rewrite app_nil_r in Hin.
      apply Proofs.Partition.In_firstn in Hin. apply in_map_iff in Hin. destruct Hin as (v & Hv & Hvin).
      exists v. split; [symmetry; exact Hv|]. apply (all_valid_in S0); assumption. }
    destruct (n <=? kth + 1)%nat eqn:E2.
    - apply Nat.leb_le in E2. destruct sort; cbn [negb].
      + exists (firstn n p).
        rewrite Proofs.Partition.pad_take_short by (rewrite map_length, firstn_length; lia).
        rewrite map_length, firstn_length. replace (Nat.min n (length p)) with n by lia.
        split; [reflexivity|]. split; [apply Proofs.Partition.NoDup_firstn; exact Hpnd|].
        split; [try rewrite firstn_length; lia|]. intros i Hi. apply (Hfv n i); [lia|exact Hi].
      + destruct (valid_idx_gen xs 0) as (idx & E & Hnd & Hr & Hl). fold n in Hl.
        exists idx. unfold valid_idx. rewrite E.
        rewrite Proofs.Partition.pad_take_short by (rewrite map_length; lia). rewrite map_length, Hl.
        split; [reflexivity|]. split; [exact Hnd|]. split; [lia|].
        intros i Hi. destruct (Hr i Hi) as (_ & v & Hv & Hvv). rewrite Nat.sub_0_r in Hv. exists v. split; assumption.
    - apply Nat.leb_gt in E2. replace (kth + 1 - n)%nat with 0%nat by lia. cbn [repeat].
      set (t := firstn (kth + 1) p).
      assert (Htnd : NoDup t) by (apply Proofs.Partition.NoDup_firstn; exact Hpnd).
      assert (Htl : length t = (kth + 1)%nat) by (unfold t; rewrite firstn_length; lia).
      assert (Htv : forall i, In i t -> exists v, nth_error xs i = Some v /\ not_none v = true).
      { intros i Hi. apply (Hfv (kth + 1)%nat i); [lia|exact Hi]. }
      destruct sort.
      + exists (isort cmpi t). rewrite app_nil_r. split; [reflexivity|].
        assert (Hpt : Permutation (isort cmpi t) t) by apply isort_perm.
        split; [apply Permutation_NoDup with t; [symmetry; exact Hpt|exact Htnd]|].
        split; [rewrite isort_length; lia|]. intros i Hi. apply Htv. apply (Permutation_in _ Hpt). exact Hi.
      + exists t. rewrite app_nil_r. split; [reflexivity|]. split; [exact Htnd|]. split; [lia|exact Htv].
  Qed.

  Lemma argpart_shape_facts kth xs out :
    argpart_shape kth xs out ->
    length out = (kth + 1)%nat /\
    (forall z, In z out -> z = (-1)%Z \/
       ((0 <= z)%Z /\ exists v, nth_error xs (Z.to_nat z) = Some v /\ not_none v = true)) /\
    (forall i j z, nth_error out i = Some z -> nth_error out j = Some z -> z <> (-1)%Z -> i = j) /\
    (exists m, m = Nat.min (kth + 1) (count_valid xs) /\
               Forall (fun z => (0 <= z)%Z) (firstn m out) /\ skipn m out = repeat (-1)%Z (kth + 1 - count_valid xs)).
  Proof.
    intros (idx & -> & Hnd & Hl & Hv).
    assert (Hnd' : NoDup (map Z.of_nat idx)).
    { apply FinFun.Injective_map_NoDup; [intros a b; apply Nat2Z.inj|exact Hnd]. }
    split; [rewrite app_length, map_length, repeat_length; lia|]. split; [|split].
    - intros z Hz. apply in_app_or in Hz. destruct Hz as [Hz|Hz]; [right|left; eapply repeat_spec; exact Hz].
      apply in_map_iff in Hz. destruct Hz as (i & <- & Hi). split; [lia|]. rewrite Nat2Z.id. apply Hv. exact Hi.
    - intros i j z Hi Hj Hz.
      assert (Hlt : forall k, nth_error (map Z.of_nat idx ++ repeat (-1)%Z (kth + 1 - count_valid xs)) k = Some z ->
                              nth_error (map Z.of_nat idx) k = Some z).
      { intros k Hk. rewrite nth_error_app in Hk. destruct (k <? length (map Z.of_nat idx))%nat; [exact Hk|].
        rewrite nth_error_repeat in Hk. destruct (_ <? _)%nat; [|discriminate]. injection Hk as <-. contradiction. }
      apply Hlt in Hi. apply Hlt in Hj.
      apply (proj1 (NoDup_nth_error (map Z.of_nat idx)) Hnd' i j); [|congruence].
      apply nth_error_Some. rewrite Hi. discriminate.
    - exists (length idx). split; [exact Hl|].
      rewrite firstn_app, skipn_app, map_length, Nat.sub_diag. cbn [firstn skipn].
      rewrite app_nil_r, <- (map_length Z.of_nat idx), firstn_all, skipn_all. cbn [app]. split; [|reflexivity].
      apply Forall_forall. intros z Hz. apply in_map_iff in Hz. destruct Hz as (i & <- & _). lia.
  Qed.

  (* ================================================================== vquantile ================= *)
  Context {NF : NumFloor A}.
  Local Open Scope num_scope.

  (* a null-skipping extremum fold over non-null elements returns the value of one of them (or its seed):
     no order law is needed, max_with / min_with return one of their arguments *)
  Lemma fold_ext_val (sel : A -> A -> A) (Hsel : forall a b, sel a b = a \/ sel a b = b) (l : list T) :
    all_valid l -> forall acc : option A,
    match fold_left (fun acc x => if not_none x then
                            Some (match acc with None => unwrap x | Some v => sel v (unwrap x) end)
                          else acc) l acc with
    | Some v => acc = Some v \/ exists x, In x l /\ v = unwrap x
    | None => acc = None /\ l = []
    end.
  Proof.
    induction 1 as [|y l Hy _ IH]; intros acc.
    - cbn [fold_left]. destruct acc; [left; reflexivity|split; reflexivity].
    - cbn [fold_left]. assert (Hyv : not_none y = true) by (apply not_none_valid; exact Hy). rewrite Hyv.
      match goal with |- context [fold_left ?f l ?a] => specialize (IH a); destruct (fold_left f l a) as [v|] end.
      + destruct IH as [E|(x & Hx & Ev)]; [|right; exists x; split; [right; exact Hx|exact Ev]].
        injection E as E. destruct acc as [a|].
        * destruct (Hsel a (unwrap y)) as [E'|E']; rewrite E' in E.
          -- left. f_equal. exact E.
          -- right. exists y. split; [left; reflexivity|symmetry; exact E].
        * right. exists y. split; [left; reflexivity|symmetry; exact E].
      + destruct IH as [IH _]. discriminate.
  Qed.

  Lemma max_with_sel (a b : A) : max_with a b = a \/ max_with a b = b.
  Proof. unfold max_with. destruct (nltb a b); [right|left]; reflexivity. Qed.
  Lemma min_with_sel (a b : A) : min_with a b = a \/ min_with a b = b.
  Proof. unfold min_with. destruct (nltb b a); [right|left]; reflexivity. Qed.

  Lemma vmax_in (l : list T) : all_valid l -> l <> [] -> exists x, In x l /\ vmax l = Some (unwrap x).
  Proof.
    intros Hv Hne. pose proof (fold_ext_val max_with max_with_sel l Hv None) as H. unfold vmax.
    destruct (fold_left _ l None) as [v|].
    - destruct H as [H|(x & Hx & ->)]; [discriminate|]. exists x. split; [exact Hx|reflexivity].
    - destruct H as [_ H]. contradiction.
  Qed.
  Lemma vmin_in (l : list T) : all_valid l -> l <> [] -> exists x, In x l /\ vmin l = Some (unwrap x).
  Proof.
    intros Hv Hne. pose proof (fold_ext_val min_with min_with_sel l Hv None) as H. unfold vmin.
    destruct (fold_left _ l None) as [v|].
    - destruct H as [H|(x & Hx & ->)]; [discriminate|]. exists x. split; [exact Hx|reflexivity].
    - destruct H as [_ H]. contradiction.
  Qed.

  Lemma tcast_valid (v : T) : not_none v = true -> tcast v = unwrap v.
  Proof. intros H. apply not_none_valid in H. unfold tcast. rewrite H. reflexivity. Qed.

  (* the two elements the quantile is computed from: the pivot m = (sorted valid)[j] and the extremum vi of
     the head (sorted valid)[0..j), both NON-NULL ELEMENTS OF THE SERIES *)
  Definition qfac (q : A) : A := if nleb q nhalf then q else none - q.
  Definition qrev (q : A) : bool := negb (nleb q nhalf).
  Definition qi_of (q : A) (n : nat) : nat := Z.to_nat (nfloorZ (nofnat (n - 1)%nat * qfac q)).
  Definition qj_of (q : A) (n : nat) : nat := Z.to_nat (nceilZ (nofnat (n - 1)%nat * qfac q)).

  Definition qvalue (q : A) (n : nat) (mth : qmethod) (vi vj : A) : A :=
    let len_1 := nofnat (n - 1)%nat in
    let qq := qfac q in
    let i := qi_of q n in let j := qj_of q n in
    if (i =? j)%nat then vj else
    match mth with
    | Linear => vi + (vj - vi) * ((qq - nofnat i / len_1) / (nofnat j / len_1 - nofnat i / len_1))
    | Lower => if qrev q then vj else vi
    | Higher => if qrev q then vi else vj
    | MidPoint => (vi + vj) / ntwo
    end.

  Definition is_valid_elem (xs : list T) (v : A) : Prop := exists x, In x xs /\ not_none x = true /\ v = unwrap x.

  Lemma select_nth_valid rev j xs :
    (j < count_valid xs)%nat ->
    let S0 := isort (cmp_dir rev) (filter not_none xs) in
    exists m, nth_error S0 j = Some m /\ select_nth (cmp_dir rev) j xs = Ok (firstn j S0, m).
  Proof.
    intros Hj S0. unfold select_nth. rewrite (isort_split rev xs). fold S0.
    assert (HS0 : length S0 = count_valid xs) by (unfold S0; rewrite isort_length; reflexivity).
    destruct (nth_error S0 j) as [m|] eqn:E; [|apply nth_error_None in E; lia].
    exists m. split; [reflexivity|]. rewrite nth_error_app1 by lia. rewrite E.
    rewrite firstn_app. replace (j - length S0)%nat with 0%nat by lia. cbn [firstn]. rewrite app_nil_r. reflexivity.
  Qed.

  Theorem vquantile_elements (q : A) (mth : qmethod) (xs : list T) :
    nleb nzero q && nleb q none = true ->
    let n := count_valid xs in
    (2 <= n)%nat -> (qi_of q n <= qj_of q n)%nat -> (qj_of q n < n)%nat ->
    exists vi vj, is_valid_elem xs vi /\ is_valid_elem xs vj /\
      vquantile q mth xs = Ok (Some (qvalue q n mth vi vj)) /\
      (* where they sit in the arrangement std's selection produces *)
      (let S0 := isort (cmp_dir (qrev q)) (filter not_none xs) in
       (exists m, nth_error S0 (qj_of q n) = Some m /\ vj = unwrap m) /\
       (qi_of q n <> qj_of q n -> exists x, In x (firstn (qj_of q n) S0) /\ vi = unwrap x)).
  Proof.
    intros Hg n Hn Hij Hjn. unfold vquantile. rewrite Hg. cbn [negb]. fold n.
    replace (n =? 0)%nat with false by (symmetry; apply Nat.eqb_neq; lia).
    replace (n =? 1)%nat with false by (symmetry; apply Nat.eqb_neq; lia).
    unfold qvalue, qi_of, qj_of, qfac, qrev in *.
    pose proof (filter_not_none_all_valid xs) as HV.
    assert (Hin_xs : forall rev x, In x (isort (cmp_dir rev) (filter not_none xs)) -> In x xs /\ not_none x = true).
    { intros rev x Hx. apply (Permutation_in _ (isort_perm _ _)) in Hx. apply filter_In in Hx. exact Hx. }
    destruct (nleb q nhalf) eqn:Eh; cbn [negb] in *.
    - set (h := nofnat (n - 1)%nat * q) in *.
      set (i := Z.to_nat (nfloorZ h)) in *. set (j := Z.to_nat (nceilZ h)) in *.
      change (@sort_cmp A NA T DT) with (cmp_dir (DT := DT) false).
      destruct (select_nth_valid false j xs Hjn) as (m & Hm & Hsel). rewrite Hsel. cbn [bind].
      set (S0 := isort (cmp_dir false) (filter not_none xs)) in *.
      destruct (Hin_xs false m (nth_error_In _ _ Hm)) as [Hmx Hmv].
      destruct (i =? j)%nat eqn:Eij; cbn [negb].
      + exists (unwrap m), (unwrap m).
        assert (Hve : is_valid_elem xs (unwrap m)) by (exists m; auto).
        split; [exact Hve|]. split; [exact Hve|]. split; [rewrite (tcast_valid m Hmv); reflexivity|].
        split; [exists m; auto|]. apply Nat.eqb_eq in Eij. intros H. contradiction.
      + apply Nat.eqb_neq in Eij.
        assert (Hhv : all_valid (firstn j S0)).
        { apply Forall_firstn. unfold S0. apply isort_all_valid. exact HV. }
        assert (Hhne : firstn j S0 <> []).
        { intros E. apply (f_equal (@length T)) in E. rewrite firstn_length in E. cbn in E.
          assert (length S0 = n) by (unfold S0; rewrite isort_length; reflexivity). lia. }
        destruct (vmax_in _ Hhv Hhne) as (x & Hx & Emax). rewrite Emax. cbn [opt_cast].
        destruct (Hin_xs false x (Proofs.Partition.In_firstn _ _ _ Hx)) as [Hxx Hxv].
        exists (unwrap x), (unwrap m). split; [exists x; auto|]. split; [exists m; auto|].
        rewrite (tcast_valid m Hmv). split; [destruct mth; reflexivity|].
        split; [exists m; auto|]. intros _. exists x. auto.
    - set (h := nofnat (n - 1)%nat * (none - q)) in *.
      set (i := Z.to_nat (nfloorZ h)) in *. set (j := Z.to_nat (nceilZ h)) in *.
      change (@sort_cmp_rev A NA T DT) with (cmp_dir (DT := DT) true).
      destruct (select_nth_valid true j xs Hjn) as (m & Hm & Hsel). rewrite Hsel. cbn [bind].
      set (S0 := isort (cmp_dir true) (filter not_none xs)) in *.
      destruct (Hin_xs true m (nth_error_In _ _ Hm)) as [Hmx Hmv].
      destruct (i =? j)%nat eqn:Eij; cbn [negb].
      + exists (unwrap m), (unwrap m).
        assert (Hve : is_valid_elem xs (unwrap m)) by (exists m; auto).
        split; [exact Hve|]. split; [exact Hve|]. split; [rewrite (tcast_valid m Hmv); reflexivity|].
        split; [exists m; auto|]. apply Nat.eqb_eq in Eij. intros H. contradiction.
      + apply Nat.eqb_neq in Eij.
        assert (Hhv : all_valid (firstn j S0)).
        { apply Forall_firstn. unfold S0. apply isort_all_valid. exact HV. }
        assert (Hhne : firstn j S0 <> []).
        { intros E. apply (f_equal (@length T)) in E. rewrite firstn_length in E. cbn in E.
          assert (length S0 = n) by (unfold S0; rewrite isort_length; reflexivity). lia. }
        destruct (vmin_in _ Hhv Hhne) as (x & Hx & Emin). rewrite Emin. cbn [opt_cast].
        destruct (Hin_xs true x (Proofs.Partition.In_firstn _ _ _ Hx)) as [Hxx Hxv].
        exists (unwrap x), (unwrap m). split; [exists x; auto|]. split; [exists m; auto|].
        rewrite (tcast_valid m Hmv). split; [destruct mth; reflexivity|].
        split; [exists m; auto|]. intros _. exists x. auto.
  Qed.

  (* the two early returns *)
  Theorem vquantile_small (q : A) (mth : qmethod) (xs : list T) :
    nleb nzero q && nleb q none = true ->
    (count_valid xs = 0%nat -> vquantile q mth xs = Ok (Some nnan)) /\
    (count_valid xs = 1%nat -> exists x, In x xs /\ not_none x = true /\ filter not_none xs = [x] /\
                                 vquantile q mth xs = Ok (Some (unwrap x))).
  Proof.
    intros Hg. unfold vquantile. rewrite Hg. cbn [negb]. split.
    - intros ->. reflexivity.
    - intros E. rewrite E. cbn [Nat.eqb]. unfold count_valid in E.
      destruct (filter not_none xs) as [|x [|y r]] eqn:Ef; try discriminate.
      assert (Hx : In x xs /\ not_none x = true) by (apply filter_In; rewrite Ef; left; reflexivity).
      exists x. split; [exact (proj1 Hx)|]. split; [exact (proj2 Hx)|]. split; [reflexivity|].
      assert (Hf : vfirst xs = Some x).
      { unfold vfirst. clear -Ef. induction xs as [|y ys IH]; [discriminate|]. cbn [filter find] in *.
        destruct (not_none y); [injection Ef as -> _; reflexivity|apply IH; exact Ef]. }
      rewrite Hf, (tcast_valid x (proj2 Hx)). reflexivity.
  Qed.

  (* ================================================================ vpercentile_of ============== *)
  Definition cnt_lt (sc : A) (xs : list T) : nat :=
    length (filter (fun v => not_none v && nltb (unwrap v) sc) xs).
  Definition cnt_eq (sc : A) (xs : list T) : nat :=
    length (filter (fun v => not_none v && negb (nltb (unwrap v) sc) && neqb (unwrap v) sc) xs).

  Lemma pct_counts_gen (sc : A) (xs : list T) : forall l0 e0 t0,
    fold_left (fun (c : nat * nat * nat) v =>
                 let '(l, e, t) := c in
                 if is_none v then c else
                 let x := unwrap v in
                 if nltb x sc then (S l, e, S t)
                 else if neqb x sc then (l, S e, S t)
                 else (l, e, S t)) xs (l0, e0, t0)
    = ((l0 + cnt_lt sc xs)%nat, (e0 + cnt_eq sc xs)%nat, (t0 + count_valid xs)%nat).
  Proof.
    unfold cnt_lt, cnt_eq, count_valid.
    induction xs as [|v xs IH]; intros l0 e0 t0.
    - cbn [fold_left filter length]. rewrite !Nat.add_0_r. reflexivity.
    - cbn [fold_left filter].
      assert (Hn : not_none v = negb (is_none v)) by reflexivity. rewrite Hn.
      destruct (is_none v); cbn [negb andb].
      + apply IH.
      + destruct (nltb (unwrap v) sc); cbn [negb andb length].
        * rewrite IH. cbn [Nat.add]. rewrite <- !plus_n_Sm. reflexivity.
        * destruct (neqb (unwrap v) sc); cbn [length]; rewrite IH; cbn [Nat.add]; rewrite <- !plus_n_Sm; reflexivity.
  Qed.

  Theorem vpercentile_of_counts (score : T) (m : pmethod) (xs : list T) :
    vpercentile_of score m xs =
    if is_none score then nnan else
    let sc := unwrap score in
    let L := cnt_lt sc xs in let E := cnt_eq sc xs in let N := count_valid xs in
    if (N =? 0)%nat then nnan else
    match m with
    | PRank => if (1 <? E)%nat then (nofnat ((L + 1) + (L + 1 + (E - 1)))%nat * nhalf) / nofnat N
               else nofnat (L + E)%nat / nofnat N
    | PWeak => nofnat (L + E)%nat / nofnat N
    | PStrict => nofnat L / nofnat N
    end.
  Proof.
    unfold vpercentile_of, pct_counts. destruct (is_none score); [reflexivity|].
    rewrite pct_counts_gen. cbn [Nat.add]. reflexivity.
  Qed.
End Generic.

(* ==================================================================== vrank: length ============= *)
Section RankLen.
  Context {A : Type} {NA : Num A} {T : Type} {DT : IsNone T A} {DX : IsNoneX T A}.

  Lemma uset_length {X} i (v : X) out : length (uset i v out) = length out.
  Proof.
    unfold uset. rewrite app_length, firstn_length.
    destruct (skipn i out) as [|y r] eqn:E.
    - cbn [length]. assert (length (skipn i out) = 0%nat) by (rewrite E; reflexivity).
      rewrite skipn_length in H. lia.
    - cbn [length]. assert (length (skipn i out) = S (length r)) by (rewrite E; reflexivity).
      rewrite skipn_length in H. lia.
  Qed.

  Lemma fold_uset_length {X I} (f : I -> nat) (g : I -> X) (l : list I) (out : list (option X)) :
    length (fold_left (fun o i => uset (f i) (g i) o) l out) = length out.
  Proof. revert out. induction l as [|i l IH]; intros out; [reflexivity|]. cbn [fold_left]. rewrite IH. apply uset_length. Qed.

  Lemma write_run_length idx i rep (v : A) out : length (write_run idx i rep v out) = length out.
  Proof. unfold write_run. apply (fold_uset_length (fun j => nth (i - j) idx 0%nat) (fun _ => v)). Qed.

  Lemma rank_loop_length pct nn (xs : list T) idx is st :
    length (r_out (fst (rank_loop pct nn xs idx is st))) = length (r_out st).
  Proof.
    revert st. induction is as [|i is IH]; intros st; [reflexivity|]. cbn [rank_loop].
    destruct (get_is_none xs _); [cbn [fst r_out]; apply write_run_length|].
    destruct (get_eq xs _ _); [rewrite IH; reflexivity|].
    destruct (r_rep st =? 1)%nat; rewrite IH; cbn [r_out]; [apply uset_length|apply write_run_length].
  Qed.

  Theorem vrank_length_gen (pct rev : bool) (xs : list T) : length (vrank pct rev xs) = length xs.
  Proof.
    unfold vrank. destruct (length xs =? 0)%nat eqn:E0; [apply Nat.eqb_eq in E0; rewrite E0; reflexivity|].
    destruct (length xs =? 1)%nat eqn:E1; [apply Nat.eqb_eq in E1; rewrite E1; reflexivity|].
    destruct (get_is_none xs _); [apply repeat_length|].
    match goal with |- context [rank_loop ?a ?b ?c ?d ?e ?f] =>
      pose proof (rank_loop_length a b c d e f) as H; destruct (rank_loop a b c d e f) as [st brk] end.
    cbn [fst r_out] in H. rewrite repeat_length in H. unfold rank_finish.
    destruct brk.
    - rewrite (fold_uset_length (fun i => nth i _ 0%nat) (fun _ => nnan)). exact H.
    - rewrite (fold_uset_length (fun i => nth i _ 0%nat) (fun _ => rk_avg pct _ _ _)). exact H.
  Qed.
End RankLen.
