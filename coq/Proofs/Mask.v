(* Proofs/Mask.v — C05: the null pattern of the rolling moment family is exactly the warm-up mask.
   Corollaries of the closed forms of Proofs/Features.v (carrier XR: None is the null).            *)
From Coq Require Import Reals Lra Lia List.
From Tevec Require Import Base.Prelude Base.Num Base.XR Spec.Stats Model.Driver Model.Features
     Proofs.Features.
Import ListNotations.

Definition is_null (x : XR) : bool := match x with None => true | Some _ => false end.

(* generic: if the emitted value is G(valid window), the mask is the mask of G *)
Lemma mom_mask (emit : @mom XR -> XR) (G : list R -> XR) (M : list R -> bool) body (w : nat) (xs : list XR) :
  (1 <= w)%nat ->
  (forall s W, mom_abs s W -> emit s = G (valid W)) ->
  (forall V, is_null (G V) = M V) ->
  exists out, ts_run (mom_feat emit) body w xs = Done out /\ length out = length xs /\
    forall i, (i < length xs)%nat ->
      exists o, nth_error out i = Some o /\ is_null o = M (valid (win w i xs)).
Proof.
  intros Hw HG HM. destruct (mom_entry emit G body w xs Hw HG) as (out & H1 & H2 & H3).
  exists out. split; [exact H1|]. split; [exact H2|]. intros i Hi.
  exists (G (valid (win w i xs))). split; [apply H3; exact Hi|apply HM].
Qed.

Definition below (k : nat) (V : list R) : bool := (length V <? k)%nat.

Lemma leb_ltb_neg a b : (a <=? b)%nat = negb (b <? a)%nat.
Proof. destruct (a <=? b)%nat eqn:E1; destruct (b <? a)%nat eqn:E2; try reflexivity;
       [apply Nat.leb_le in E1; apply Nat.ltb_lt in E2; lia|apply Nat.leb_gt in E1; apply Nat.ltb_ge in E2; lia]. Qed.

Theorem mask_vsum body (w : nat) mp (xs : list XR) :
  (1 <= w)%nat ->
  exists out, ts_run (ts_vsum_f w mp) body w xs = Done out /\ length out = length xs /\
    forall i, (i < length xs)%nat ->
      exists o, nth_error out i = Some o /\ is_null o = below (mp_eff mp w 0) (valid (win w i xs)).
Proof.
  intros Hw. apply (mom_mask (emit_sum (mp_eff mp w 0))
    (fun V => if (mp_eff mp w 0 <=? length V)%nat then Some (sumR V) else None)); [exact Hw| |].
  - intros s W HA. apply emit_sum_spec. exact HA.
  - intros V. unfold below. rewrite leb_ltb_neg. destruct (_ <? _)%nat; reflexivity.
Qed.

(* mean, wma: additionally null on a window without valid element *)
Theorem mask_vmean body (w : nat) mp (xs : list XR) :
  (1 <= w)%nat ->
  exists out, ts_run (ts_vmean_f w mp) body w xs = Done out /\ length out = length xs /\
    forall i, (i < length xs)%nat ->
      exists o, nth_error out i = Some o /\
        is_null o = orb (below (mp_eff mp w 0) (valid (win w i xs))) (below 1 (valid (win w i xs))).
Proof.
  intros Hw. apply (mom_mask (emit_mean (mp_eff mp w 0))
    (fun V => if (mp_eff mp w 0 <=? length V)%nat then (if (length V =? 0)%nat then None else Some (meanR V)) else None)
    (fun V => orb (below (mp_eff mp w 0) V) (below 1 V)));
    [exact Hw| |].
  - intros s W HA. apply emit_mean_spec. exact HA.
  - intros V. unfold below. rewrite leb_ltb_neg. destruct (_ <? _)%nat eqn:E; [reflexivity|].
    cbn [negb orb]. destruct (length V) as [|n]; reflexivity.
Qed.

(* variance-type statistics: null exactly below max(min_periods', k) valid observations *)
Theorem mask_vvar body (w : nat) mp (xs : list XR) :
  (1 <= w)%nat ->
  exists out, ts_run (ts_vvar_f w mp) body w xs = Done out /\ length out = length xs /\
    forall i, (i < length xs)%nat ->
      exists o, nth_error out i = Some o /\ is_null o = below (mp_eff mp w 2) (valid (win w i xs)).
Proof.
  intros Hw. apply (mom_mask (emit_var (mp_eff mp w 2))
    (fun V => if (mp_eff mp w 2 <=? length V)%nat
              then (if Rlt_dec EPS (popvarR V) then Some (samplevarR V) else Some 0%R) else None)); [exact Hw| |].
  - intros s W HA. apply emit_var_spec; [exact HA|apply mp_eff_ge].
  - intros V. unfold below. rewrite leb_ltb_neg. destruct (_ <? _)%nat; [reflexivity|].
    cbn [negb]. destruct (Rlt_dec _ _); reflexivity.
Qed.

Theorem mask_vstd body (w : nat) mp (xs : list XR) :
  (1 <= w)%nat ->
  exists out, ts_run (ts_vstd_f w mp) body w xs = Done out /\ length out = length xs /\
    forall i, (i < length xs)%nat ->
      exists o, nth_error out i = Some o /\ is_null o = below (mp_eff mp w 2) (valid (win w i xs)).
Proof.
  intros Hw. apply (mom_mask (emit_std (mp_eff mp w 2))
    (fun V => if (mp_eff mp w 2 <=? length V)%nat
              then (if Rlt_dec EPS (popvarR V) then Some (samplestdR V) else Some 0%R) else None)); [exact Hw| |].
  - intros s W HA. apply emit_std_spec; [exact HA|apply mp_eff_ge].
  - intros V. unfold below. rewrite leb_ltb_neg. destruct (_ <? _)%nat; [reflexivity|].
    cbn [negb]. destruct (Rlt_dec _ _); reflexivity.
Qed.

Theorem mask_vskew body (w : nat) mp (xs : list XR) :
  (1 <= w)%nat ->
  exists out, ts_run (ts_vskew_f w mp) body w xs = Done out /\ length out = length xs /\
    forall i, (i < length xs)%nat ->
      exists o, nth_error out i = Some o /\ is_null o = below (mp_eff mp w 3) (valid (win w i xs)).
Proof.
  intros Hw. apply (mom_mask (emit_skew (mp_eff mp w 3))
    (fun V => if (mp_eff mp w 3 <=? length V)%nat
              then (if Rle_dec (popvarR V) EPS then Some 0%R else Some (skewR V)) else None)); [exact Hw| |].
  - intros s W HA. apply emit_skew_spec; [exact HA|apply mp_eff_ge].
  - intros V. unfold below. rewrite leb_ltb_neg. destruct (_ <? _)%nat; [reflexivity|].
    cbn [negb]. destruct (Rle_dec _ _); reflexivity.
Qed.

Theorem mask_vkurt body (w : nat) mp (xs : list XR) :
  (1 <= w)%nat ->
  exists out, ts_run (ts_vkurt_f w mp) body w xs = Done out /\ length out = length xs /\
    forall i, (i < length xs)%nat ->
      exists o, nth_error out i = Some o /\ is_null o = below (mp_eff mp w 4) (valid (win w i xs)).
Proof.
  intros Hw. apply (mom_mask (emit_kurt (mp_eff mp w 4))
    (fun V => if (mp_eff mp w 4 <=? length V)%nat
              then (if Rle_dec (popvarR V) EPS then Some 0%R else Some (kurtR V)) else None)); [exact Hw| |].
  - intros s W HA. apply emit_kurt_spec; [exact HA|apply mp_eff_ge].
  - intros V. unfold below. rewrite leb_ltb_neg. destruct (_ <? _)%nat; [reflexivity|].
    cbn [negb]. destruct (Rle_dec _ _); reflexivity.
Qed.

(* the effective min_periods: min(mp or w/2, w) raised to the intrinsic minimum k *)
Lemma mp_eff_value mp w k :
  mp_eff mp w k = Nat.max (Nat.min (match mp with Some m => m | None => (w / 2)%nat end) w) k.
Proof. reflexivity. Qed.
