(* Proofs/Audit15.v — audit of property C15 (notes/C15.md, "Audit matrix"): what the 21 theorems of Props/C15.v left
   unsaid about the model of Model/Cast.v.
     1. the inputs that the premises of `cast_nonnull_preserved` exclude get their own theorems: the i64::MIN sentinel
        collision (numeric -> time is null EXACTLY there), TimeDelta -> i64 / Option<i64> with overflowing microseconds
        or with months, null source -> target that cannot represent a null (panic, never a made-up value; the two
        exceptions are stated), which null casts into a nullable target panic and that all others are total;
     2. values, not only nullness: vabs, IsNone::map, bool <-> numeric, integer `as` exact iff representable;
     3. the unit-changing casts DateTime<A> -> DateTime<B> (time_unit_cast!, modelled by Model/Time.into_unit);
     4. the comparators never panic (no premise at all);
     5. IsNone for Vec<T> (isnone.rs l.800-848; model added to Model/Cast.v: `vec_*`);
     6. the pair coverage table: every implemented pair is classified and counted.
   Arbitrary float type F, arbitrary X : Ext F; `ExtLaws X` only where stated.  Axiom-free.                     *)
From Coq Require Import ZArith List Bool Lia.
From Tevec Require Import Base.Prelude Model.Cast Proofs.Cast Proofs.CastLattice Proofs.CastWitness.
From Tevec Require Model.Time.
Import ListNotations.
Local Open Scope Z_scope.

Section Audit.
  Context {F : Type} (X : Ext F).

  (* ---------------------------------------------------------------- *)
  (* 1a. numeric -> time type: the result is null exactly at the sentinel *)

  Definition num_src (s : ty) : bool := match s with Plain (N _) | Opt (N _) => true | _ => false end.

  Lemma sent_dt (z : Z) : (z =? i64min) = true <-> Some z = Some i64min.
  Proof. rewrite Z.eqb_eq. split; [intros ->; reflexivity|intros E; injection E as ->; reflexivity]. Qed.
  Lemma sent_td (z : Z) : (fst (if z =? i64min then (i32min, 0) else (0, z)) =? i32min) = true <-> Some z = Some i64min.
  Proof.
    destruct (z =? i64min) eqn:E; cbn [fst].
    - apply Z.eqb_eq in E. subst z. split; reflexivity.
    - apply Z.eqb_neq in E. split; [discriminate|]. intros E2. injection E2 as E2. contradiction.
  Qed.

  Theorem cast_to_time_null_iff (s t : ty) (v : val s) (w : val t) :
    num_src s = true -> is_time_ty t = true ->
    canonical X s v = true -> is_none X s v = false -> cast X s t v = Ok w ->
    (is_none X t w = true <-> src_i64 X s v = Some i64min).
  Proof.
    intros Hs Ht Hcan Hn Hw.
    destr_ty s; try discriminate Hs; destr_ty t; try discriminate Ht.
    all: lazymatch type of v with val (Opt _) => destruct v as [x|]; [|discriminate Hn] | _ => idtac end.
    all: cbn in Hn, Hw, Hcan; try apply negb_true_iff in Hcan; try rewrite Hn in Hw; try rewrite Hcan in Hw;
         unfold n_to_dt, n_to_td, td_of_i64 in Hw; cbn [n_is_none] in Hw; try rewrite Hn in Hw; try rewrite Hcan in Hw;
         injection Hw as <-; cbn [src_i64 option_map is_none b_is_none].
    all: cbn [as_nn f_to z_to i2i nt_eqb]; first [apply sent_dt | apply sent_td].
  Qed.

  (* 1b. TimeDelta -> i64 / Option<i64>: microseconds that overflow an i64 are the null of the target; a TimeDelta
         with months cannot be converted at all (panic "not support cast TimeDelta to i64 when months is not zero") *)
  Theorem cast_td_i64_overflow (d : Z * Z) :
    fst d = 0 -> td_micros d = None ->
    cast X (Plain TD) (Opt (N I64)) d = Ok None /\ cast X (Plain TD) (Plain (N I64)) d = Ok i64min.
  Proof. intros H0 Hm. cbn. rewrite H0, Hm. cbn. auto. Qed.

  Theorem cast_td_i64_in_range (d : Z * Z) (q : Z) :
    fst d = 0 -> td_micros d = Some q ->
    cast X (Plain TD) (Opt (N I64)) d = Ok (Some q) /\ cast X (Plain TD) (Plain (N I64)) d = Ok q /\
    q = Z.quot (snd d) 1000 /\ i64min <= q <= 2 ^ 63 - 1.
  Proof.
    intros H0 Hm. cbn. rewrite H0, Hm. cbn. split; [reflexivity|]. split; [reflexivity|].
    unfold td_micros in Hm.
    destruct ((i64min <=? Z.quot (snd d) 1000) && (Z.quot (snd d) 1000 <=? 2 ^ 63 - 1)) eqn:E; [|discriminate].
    injection Hm as <-. apply andb_true_iff in E. destruct E as [E1 E2].
    apply Z.leb_le in E1, E2. auto.
  Qed.

  Theorem cast_td_months_panics (d : Z * Z) (u : nt) :
    fst d <> 0 -> fst d <> i32min ->
    cast X (Plain TD) (Plain (N u)) d = Panic OtherPanic /\ cast X (Plain TD) (Opt (N u)) d = Panic OtherPanic.
  Proof.
    intros H0 Hn. apply Z.eqb_neq in H0, Hn.
    change i32min with (-2147483648) in Hn.
    destruct u; cbn; unfold time_to_n; cbn; rewrite ?Hn, ?H0; cbn; rewrite ?Hn; cbn; auto.
  Qed.

  (* 1c. a null source and a target that cannot represent a null: never a made-up value.  None -> integer / bool,
         "None" -> integer / bool, NaT -> integer (other than i64) / bool all panic; the two exceptions are the
         documented raw views DateTime / Time -> i64 (the sentinel itself) and float NaN -> integer, which follows the
         language's `as` (theorem cast_value_as) *)
  Theorem cast_none_to_nonnullable_panics (a b : bt) :
    implemented (Opt a) (Plain b) = true -> b_can_null b = false ->
    cast X (Opt a) (Plain b) None = Panic OtherPanic.
  Proof. intros Hi Hc. destr_bt a; destr_bt b; try discriminate Hi; try discriminate Hc; reflexivity. Qed.

  Theorem cast_text_null_to_nonnullable_panics (b : bt) :
    implemented (Plain Str) (Plain b) = true -> b_can_null b = false ->
    cast X (Plain Str) (Plain b) s_None = Panic OtherPanic.
  Proof. intros Hi Hc. destr_bt b; try discriminate Hi; try discriminate Hc; reflexivity. Qed.

  Theorem cast_nat_to_nonnullable_panics (a : bt) (u : nt) (v : bval a) :
    is_time a = true -> is_float u = false -> nt_eqb u I64 = false -> b_is_none X a v = true ->
    cast X (Plain a) (Plain (N u)) v = Panic OtherPanic /\ cast X (Plain a) (Plain Bool) v = Panic OtherPanic.
  Proof.
    intros Ha Hu H64 Hn.
    destr_bt a; try discriminate Ha; destruct u; try discriminate Hu; try discriminate H64;
      cbn [cast cast_time]; unfold time_to_n, time_to_bool; rewrite Hn; split; reflexivity.
  Qed.

  Theorem cast_nat_to_i64_is_the_sentinel (ns : Z) :
    cast X (Plain DT) (Plain (N I64)) i64min = Ok i64min /\ cast X (Plain TM) (Plain (N I64)) i64min = Ok i64min /\
    cast X (Plain TD) (Plain (N I64)) (i32min, ns) = Panic OtherPanic.
  Proof. repeat split. Qed.

  (* 1d. which null casts into a NULLABLE target panic instead of giving the null (all by design), and that every other
         implemented pair is total on nulls *)
  Definition null_panics (s t : ty) : bool :=
    match s, t with
    | Opt Bool, Plain DT | Opt Bool, Plain TD | Opt Bool, Plain TM => true      (* "Should not cast option bool to datetime" *)
    | Plain Str, Plain DT | Plain Str, Plain TD => true                          (* the parsers of C18 reject "None" *)
    | Plain Str, Plain (N F32) | Plain Str, Plain (N F64) => true                (* "None".parse::<f64>() fails *)
    | Plain DT, Plain TD | Plain TD, Plain DT => true                            (* unreachable!() *)
    | _, _ => false
    end.

  Theorem cast_null_total (L : ExtLaws X) (s t : ty) (v : val s) :
    implemented s t = true -> can_null t = true -> is_none X s v = true ->
    if null_panics s t then cast X s t v = Panic OtherPanic
    else exists w, cast X s t v = Ok w.
  Proof.
    intros Hi Hc Hn.
    destr_ty s; destr_ty t; try discriminate Hi; try discriminate Hc; cbn [null_panics].
    all: cbn [is_none b_is_none n_is_none] in Hn; try discriminate Hn.
    all: lazymatch type of v with val (Opt _) => destruct v; [discriminate Hn|] | _ => idtac end.
    all: try (apply str_eqb_eq in Hn; subst v).
    all: cbn; try rewrite Hn; cbn;
         rewrite ?(s2dt_None X L), ?(s2td_None X L), ?(s2f32_None X L), ?(s2f64_None X L).
    all: try reflexivity.
    all: try (eexists; reflexivity).
    all: try (unfold time_to_n; cbn [b_is_none]; rewrite Hn; cbn; eexists; reflexivity).
    all: try (apply Z.eqb_eq in Hn; subst v; cbn; try reflexivity; eexists; reflexivity).
    all: destruct v as [m ns]; cbn [fst] in Hn; apply Z.eqb_eq in Hn; subst m; cbn; try reflexivity; eexists; reflexivity.
  Qed.

  (* ---------------------------------------------------------------- *)
  (* 2a. vabs: the value, and exactly when it panics *)

  Definition is_signed (n : nt) : bool := match n with I32 | I64 | Isize => true | _ => false end.
  Definition is_int (n : nt) : bool := negb (is_float n).

  Lemma int_val (n : nt) (H : is_float n = false) : nval (F := F) n = Z.
  Proof. destruct n; try discriminate H; reflexivity. Qed.

  Theorem n_abs_int_value (n : nt) (x : Z) :
    (n_abs X I32 x = if x =? imin I32 then Panic Overflow else Ok (Z.abs x)) /\
    (n_abs X I64 x = if x =? imin I64 then Panic Overflow else Ok (Z.abs x)) /\
    (n_abs X Isize x = if x =? imin Isize then Panic Overflow else Ok (Z.abs x)) /\
    n_abs X U8 x = Ok x /\ n_abs X U64 x = Ok x /\ n_abs X Usize x = Ok x.
  Proof. repeat split. Qed.

  (* in range, not the minimum: the result is the mathematical |x| and is again in range (no wrap, no sign left) *)
  Theorem n_abs_signed_in_range (n : nt) (x : Z) :
    is_signed n = true -> imin n < x <= imax n ->
    0 <= Z.abs x <= imax n /\
    match n return (nval n -> res (nval n)) -> Prop with
    | I32 | I64 | Isize => fun f => f x = Ok (Z.abs x)
    | _ => fun _ => True
    end (n_abs X n).
  Proof.
    intros Hs Hr. destruct n; try discriminate Hs; cbn [imin imax] in Hr |- *;
      (split; [lia|]); cbn [n_abs imin];
      match goal with |- context [?a =? ?b] => replace (a =? b) with false by (symmetry; apply Z.eqb_neq; lia) end;
      reflexivity.
  Qed.

  Theorem vabs_opt_value (n : nt) (x a : nval n) :
    n_abs X n x = Ok a -> n_is_none X n a = false ->
    vabs X true n (Some x) = Ok (Some a) /\ vabs X true n None = Ok None /\ vabs X false n x = Ok a.
  Proof. intros H Hn. cbn [vabs]. rewrite H. cbn [bind]. rewrite Hn. auto. Qed.

  Theorem n_abs_panic_iff (x : Z) (f : F) :
    (n_abs X I32 x = Panic Overflow <-> x = imin I32) /\
    (n_abs X I64 x = Panic Overflow <-> x = imin I64) /\
    (n_abs X Isize x = Panic Overflow <-> x = imin Isize) /\
    n_abs X F32 f = Ok (fabs X f) /\ n_abs X F64 f = Ok (fabs X f).
  Proof.
    cbn [n_abs]. repeat split; try (intros ->; reflexivity);
      match goal with |- (if ?c then _ else _) = _ -> _ => destruct c eqn:E; [intros _; apply Z.eqb_eq; exact E|discriminate] end.
  Qed.

  (* the only panic of vabs is the overflow of a signed minimum (debug build) *)
  Theorem vabs_panics_only_overflow (shape : bool) (n : nt) (v : val (if shape then Opt (N n) else Plain (N n))) k :
    vabs X shape n v = Panic k -> k = Overflow /\ is_signed n = true.
  Proof.
    destruct shape; cbn [vabs].
    - destruct v as [x|]; [|discriminate].
      destruct n; cbn [n_abs bind]; try discriminate;
        match goal with |- context [if ?c then _ else _] => destruct c end; cbn [bind]; try discriminate;
        intros H; injection H as <-; split; reflexivity.
    - destruct n; cbn [n_abs bind]; try discriminate;
        match goal with |- context [if ?c then _ else _] => destruct c end; cbn [bind]; try discriminate;
        intros H; injection H as <-; split; reflexivity.
  Qed.

  (* 2b. IsNone::map.  Option<T> source (default method + Option override): the function is applied to the inner value
         of a non-null, a null gives U::none().  Plain source (every non-Option impl overrides map with
         `U::from_inner(f(self))`): the function is applied to the value WHATEVER it is - also to a NaN / "None" / NaT;
         nullness of the result is then that of f's result (U::from_inner canonicalises) *)
  Theorem map_spec (s u : ty) (f : inner s -> inner u) (v : val s) :
    (forall x, to_opt X s v = Some x -> map_ X s u f v = Ok (from_inner X u (f x))) /\
    (forall b (E : s = Opt b), eq_rect s val v (Opt b) E = None -> map_ X s u f v = none X u).
  Proof.
    split.
    - intros x Hx. destruct s as [b|b]; cbn [map_ to_opt] in *.
      + destruct (b_is_none X b v); [discriminate|]. injection Hx as <-. reflexivity.
      + subst v. reflexivity.
    - intros b E Hv. subst s. cbn [eq_rect] in Hv. subst v. reflexivity.
  Qed.

  Theorem map_plain_applies_f (b : bt) (u : ty) (f : bval b -> inner u) (v : bval b) :
    map_ X (Plain b) u f v = Ok (from_inner X u (f v)).
  Proof. reflexivity. Qed.

  Theorem map_result_nullness (s u : ty) (f : inner s -> inner u) (v : val s) (x : inner s) (w : val u) :
    to_opt X s v = Some x -> map_ X s u f v = Ok w ->
    is_none X u w = b_is_none X (base u) (f x).
  Proof.
    intros Hx Hw. rewrite (proj1 (map_spec s u f v) x Hx) in Hw. injection Hw as <-.
    destruct u as [b|b]; cbn [from_inner is_none base]; [reflexivity|].
    destruct (b_is_none X b (f x)); reflexivity.
  Qed.

  (* 2c. bool <-> numeric: `self as u8` then the numeric cast; 0 / 1 / panic the other way *)
  Theorem cast_bool_values (b : bool) :
    cast X (Plain Bool) (Plain (N I32)) b = Ok (if b then 1 else 0) /\
    cast X (Plain Bool) (Plain (N I64)) b = Ok (if b then 1 else 0) /\
    cast X (Plain Bool) (Plain (N U8)) b = Ok (if b then 1 else 0) /\
    cast X (Plain Bool) (Plain (N U64)) b = Ok (if b then 1 else 0) /\
    cast X (Plain Bool) (Plain (N Usize)) b = Ok (if b then 1 else 0) /\
    cast X (Plain Bool) (Plain (N Isize)) b = Ok (if b then 1 else 0) /\
    cast X (Plain Bool) (Plain (N F64)) b = Ok (z2f64 X (if b then 1 else 0)) /\
    cast X (Plain Bool) (Plain (N F32)) b = Ok (z2f32 X (if b then 1 else 0)) /\
    cast X (Plain Bool) (Plain Str) b = Ok (if b then s_true else s_false) /\
    cast X (Plain Bool) (Opt Bool) b = Ok (Some b) /\ cast X (Plain Bool) (Plain Bool) b = Ok b.
  Proof. destruct b; repeat split. Qed.

  Theorem cast_num_to_bool (a : nt) (v : nval a) :
    cast X (Plain (N a)) (Plain Bool) v =
      (let i : Z := as_nn X a I32 v in if i =? 0 then Ok false else if i =? 1 then Ok true else Panic OtherPanic) /\
    cast X (Opt (N a)) (Plain Bool) (Some v) = cast X (Plain (N a)) (Plain Bool) v /\
    cast X (Opt (N a)) (Plain Bool) None = Panic OtherPanic.
  Proof. repeat split. Qed.

  (* 2d. integer -> integer `as` (z_to s u is `as_nn s u` for every integer source s, by definition): exact exactly when
         the value is representable in the target; otherwise the result is in range and congruent to the value modulo
         2^bits: never silently "close" *)
  Theorem int_source_as_is_z_to (u : nt) :
    as_nn X I32 u = z_to X I32 u /\ as_nn X I64 u = z_to X I64 u /\ as_nn X U8 u = z_to X U8 u /\
    as_nn X U64 u = z_to X U64 u /\ as_nn X Usize u = z_to X Usize u /\ as_nn X Isize u = z_to X Isize u.
  Proof. repeat split. Qed.

  Theorem int_as_exact_iff (s u : nt) (z : Z) :
    is_float u = false ->
    match u return nval u -> Prop with
    | F32 | F64 => fun _ => True
    | _ => fun r => (nt_eqb s u = true -> r = z) /\
                    (nt_eqb s u = false ->
                       imin u <= r <= imax u /\ (r = z <-> imin u <= z <= imax u) /\
                       exists k, r = z + k * (imax u - imin u + 1))
    end (z_to X s u z).
  Proof.
    intros Hu.
    assert (G : forall t, is_float t = false ->
              (imin t <= wrap t z <= imax t) /\ ((imin t <= z <= imax t) -> wrap t z = z) /\
              (exists k, wrap t z = z + k * (imax t - imin t + 1))).
    { intros t Ht. assert (Hlt : imin t < imax t) by (destruct t; cbn; try discriminate; lia).
      split; [apply wrap_range; exact Hlt|].
      split; [intros H; apply wrap_in_range; assumption|].
      unfold wrap. exists (- ((z - imin t) / (imax t - imin t + 1))).
      pose proof (Z.div_mod (z - imin t) (imax t - imin t + 1) ltac:(lia)). lia. }
    destruct u; try discriminate Hu; cbn [z_to]; unfold i2i;
      (destruct (nt_eqb s _) eqn:E; (split; [intros H; try discriminate H; reflexivity|intros H; try discriminate H]));
      match goal with |- context [wrap ?t z] =>
        destruct (G t eq_refl) as (G1 & G2 & G3);
        split; [exact G1|split; [split; [intros E2; rewrite E2 in G1; exact G1|exact G2]|exact G3]]
      end.
  Qed.

  (* ---------------------------------------------------------------- *)
  (* 4. the comparators never panic: no premise on the values (also Some(NaN)), no law on the float operations *)
  Theorem sort_cmp_never_panics (t : ty) (a b : val t) :
    (exists o, sort_cmp X t a b = Ok o) /\ (exists o, sort_cmp_rev X t a b = Ok o).
  Proof.
    split.
    - destruct t as [bb|bb]; cbn [sort_cmp].
      + destruct (is_intlike bb) eqn:E.
        * destr_bt bb; try discriminate E; cbn; eexists; reflexivity.
        * destruct (as_opt X (Plain bb) a), (as_opt X (Plain bb) b); eexists; reflexivity.
      + destruct (as_opt X (Opt bb) a), (as_opt X (Opt bb) b); eexists; reflexivity.
    - unfold sort_cmp_rev. destruct (as_opt X t a), (as_opt X t b); eexists; reflexivity.
  Qed.
End Audit.

(* ------------------------------------------------------------------ *)
(* 3. the unit-changing casts DateTime<A> -> DateTime<B> (cast.rs time_unit_cast! = into_unit; Model/Time.v, the value
      theorems are C16's): a null stays the null, a non-null never becomes the null, for all 16 unit pairs; the only
      failure is the overflow panic of a refinement *)
Theorem unit_cast_nullness (u t : Time.tunit) (x y : Z) :
  Time.in_i64 x = true -> Time.into_unit u t x = Ok y -> Time.is_nat y = Time.is_nat x.
Proof.
  intros Hx. unfold Time.in_i64, Time.i64_min, Time.i64_max in Hx. apply andb_true_iff in Hx.
  destruct Hx as [Hx1 Hx2]. apply Z.leb_le in Hx1, Hx2.
  unfold Time.into_unit. destruct (Time.unit_eqb u t); [intros H; injection H as <-; reflexivity|].
  destruct (Time.is_nat x) eqn:E; [intros H; injection H as <-; reflexivity|].
  unfold Time.is_nat, Time.NaT, Time.i64_min in *. apply Z.eqb_neq in E. intros H. apply Z.eqb_neq.
  destruct u, t; cbn in H; try discriminate H;
    unfold Time.chk64, Time.in_i64, Time.i64_min, Time.i64_max, Time.NANOS_PER_MICRO, Time.NANOS_PER_MILLI,
      Time.NANOS_PER_SEC, Time.MICROS_PER_MILLI, Time.MICROS_PER_SEC, Time.MILLIS_PER_SEC in H;
    try (match type of H with (if ?c then _ else _) = _ => destruct c; [|discriminate H] end);
    injection H as <-; try lia;
    match goal with |- ?a / ?k <> _ => pose proof (Z.div_mod a k ltac:(lia)); pose proof (Z.mod_pos_bound a k ltac:(lia)); lia end.
Qed.

Theorem unit_cast_null (u t : Time.tunit) : Time.into_unit u t Time.NaT = Ok Time.NaT.
Proof. destruct u, t; reflexivity. Qed.

Theorem unit_cast_panic_only_overflow (u t : Time.tunit) (x : Z) (k : panic_kind) :
  Time.into_unit u t x = Panic k -> k = Overflow /\ Time.is_nat x = false /\ Time.unit_ns t < Time.unit_ns u.
Proof.
  unfold Time.into_unit. destruct (Time.unit_eqb u t) eqn:Eu; [discriminate|].
  destruct (Time.is_nat x); [discriminate|]. intros H.
  destruct u, t; cbn in Eu, H; try discriminate; unfold Time.chk64 in H;
    match type of H with (if ?c then _ else _) = _ => destruct c; [discriminate H|] end;
    injection H as <-; repeat split; cbn; lia.
Qed.

(* ------------------------------------------------------------------ *)
(* 5. IsNone for Vec<T>: the null is the empty vector *)
Section VecNone.
  Context {T : Type}.
  Theorem vec_isnone_coherent (v : list T) :
    vec_not_none v = negb (vec_is_none v) /\
    (vec_to_opt v = None <-> vec_is_none v = true) /\
    vec_as_opt v = vec_to_opt v /\
    (forall x, vec_to_opt v = Some x -> vec_unwrap v = Ok x /\ x = v) /\
    vec_is_none (@vec_none T) = true /\
    (vec_is_none v = true <-> v = []) /\
    (vec_is_none v = false -> vec_to_opt (vec_from_inner v) = Some v /\ vec_from_opt (vec_to_opt v) = v) /\
    vec_from_opt (@None (list T)) = [].
  Proof.
    unfold vec_not_none, vec_to_opt, vec_as_opt, vec_unwrap, vec_from_opt, vec_from_inner, vec_none.
    destruct v as [|a r]; cbn; repeat split; try discriminate; try reflexivity; intros; try discriminate;
      try (injection H as <-; reflexivity).
  Qed.
End VecNone.

(* ------------------------------------------------------------------ *)
(* 6. pair coverage: every implemented pair falls in exactly one row of the audit matrix *)
Definition pair_class (s t : ty) : nat :=
  if negb (implemented s t) then 0
  else if negb (can_null t) then 1                                 (* target cannot represent a null: 1c, (7) *)
  else if kf_text_null s t then 2                                   (* known finding class 1 *)
  else if parser_pair s t then 3                                    (* C18 parsers: nullness of the result only compared *)
  else 4.                                                           (* (5) and (6) apply *)

Definition count_class (k : nat) : nat :=
  length (filter (fun p => Nat.eqb (pair_class (fst p) (snd p)) k) (list_prod all_ty all_ty)).

Lemma pair_coverage :
  count_class 0 = 191%nat /\ count_class 1 = 154%nat /\ count_class 2 = 5%nat /\ count_class 3 = 2%nat /\
  count_class 4 = 324%nat.
Proof. vm_compute. repeat split. Qed.
