(* Proofs/SrcTablesMapGen.v — translator tie (DESIGN 10.2) for C19: conformance of Model/Create.v with the decision tables
   GENERATED from the text of tea-core/src/linspace.rs and tea-core/src/create.rs (coq/Gen/SrcTables.v, section (b), written
   by tools/gen_tables_map.py on every run of the C19 check).

   Linspace::next / next_back / size_hint: the exhaustion test, the increment / decrement, the element formula
   `start + step * i`; linspace: `n > 1`, `(b - a) / (n - 1)`, else zero; range: the emptiness guard (the operator per sign of
   step), span / step, ceil, the remainder and the `+ 1` adjustment (its four operators), Vec1Create's defaults.

   Every theorem: FOR ALL `Number` dictionaries (num_ops), arguments and iterator states, the model function IS the function
   read out of the source table.  `b <= a` -> `b < a`, `n > 1` -> `n >= 1`, `start + step * i` -> `start - step * i`,
   `.ceil()` -> `.floor()`: the table changes and the theorem named in the error message no longer compiles.  Axiom-free. *)
From Coq Require Import ZArith List String PeanoNat Bool.
From Tevec Require Import Base.Prelude Model.Driver Model.Create Gen.SrcTables Proofs.SrcTablesMapBase.
Import ListNotations.
Local Open Scope string_scope.
Local Open Scope nat_scope.

Ltac eval_gen_tables :=
  repeat match goal with
         | |- context [src_ls_next] => let v := eval vm_compute in src_ls_next in change src_ls_next with v
         | |- context [src_ls_next_back] => let v := eval vm_compute in src_ls_next_back in change src_ls_next_back with v
         | |- context [src_ls_size_hint] => let v := eval vm_compute in src_ls_size_hint in change src_ls_size_hint with v
         | |- context [src_linspace_step] => let v := eval vm_compute in src_linspace_step in change src_linspace_step with v
         | |- context [src_range_empty] => let v := eval vm_compute in src_range_empty in change src_range_empty with v
         | |- context [src_range_count] => let v := eval vm_compute in src_range_count in change src_range_count with v
         | |- context [src_range_adjust] => let v := eval vm_compute in src_range_adjust in change src_range_adjust with v
         | |- context [src_create_range_defaults] =>
             let v := eval vm_compute in src_create_range_defaults in change src_create_range_defaults with v
         | |- context [src_create_linspace_default] =>
             let v := eval vm_compute in src_create_linspace_default in change src_create_linspace_default with v
         end.

Section GenConf.
  Context {A : Type} (N : num_ops A).

  (* `x <o> y` on T: subtraction of an unsigned type and integer division may panic *)
  Definition aop (o : src_aop) (x y : A) : res A :=
    match o with AAdd => Ok (n_add N x y) | ASub => n_sub N x y | AMul => Ok (n_mul N x y) | ADiv => n_div N x y end.
  (* `x <c> y` on T (PartialOrd: `x > y` is `y < x`) *)
  Definition acmp (c : src_cmp) (x y : A) : bool :=
    match c with
    | CLt => n_ltb N x y | CLe => n_leb N x y | CGt => n_ltb N y x | CGe => n_leb N y x
    | CEq => n_eqb N x y | CNe => negb (n_eqb N x y)
    end.
  (* T::zero() / T::one(); any other associated constant is not what the model uses *)
  Definition const_eval (s : string) : A :=
    if String.eqb s "zero" then n_zero N else if String.eqb s "one" then n_one N else n_add N (n_one N) (n_one N).
  Definition rnd_eval (s : string) (q : A) : A := if String.eqb s "ceil" then n_ceil N q else n_add N q q.

  (* self.start <o1> self.step <o2> i.cast() *)
  Definition src_elem (o1 o2 : src_aop) (s : linspace A) (i : nat) : res A :=
    do m <- aop o2 (ls_step s) (n_of_usize N i); aop o1 (ls_start s) m.

  Definition src_ls_next_f (s : linspace A) : res (option A * linspace A) :=
    let '(c, inc, o1, o2) := src_ls_next in
    if mcmp_nat c (ls_index s) (ls_len s) then Ok (None, s)
    else do e <- src_elem o1 o2 s (ls_index s);
         Ok (Some e, LS (ls_start s) (ls_step s) (inc + ls_index s) (ls_len s)).
  Theorem src_ls_next_conforms : forall s, src_ls_next_f s = Ok (ls_next N s).
  Proof.
    conformance "src_ls_next_conforms"
      (intros s; unfold src_ls_next_f, ls_next; eval_gen_tables; cbv beta iota; cbn [mcmp_nat];
       destruct (ls_len s <=? ls_index s); reflexivity).
  Qed.

  Definition src_ls_next_back_f (s : linspace A) : res (option A * linspace A) :=
    let '(c, dec, o1, o2) := src_ls_next_back in
    if mcmp_nat c (ls_index s) (ls_len s) then Ok (None, s)
    else let len' := ls_len s - dec in
         do e <- src_elem o1 o2 s len';
         Ok (Some e, LS (ls_start s) (ls_step s) (ls_index s) len').
  Theorem src_ls_next_back_conforms : forall s, src_ls_next_back_f s = Ok (ls_next_back N s).
  Proof.
    conformance "src_ls_next_back_conforms"
      (intros s; unfold src_ls_next_back_f, ls_next_back; eval_gen_tables; cbv beta iota; cbn [mcmp_nat];
       destruct (ls_len s <=? ls_index s); reflexivity).
  Qed.

  (* `self.len <o> self.index` on usize *)
  Definition src_size_hint_f (s : linspace A) : res nat :=
    match src_ls_size_hint with
    | ASub => usub (ls_len s) (ls_index s)
    | AAdd => Ok (ls_len s + ls_index s) | AMul => Ok (ls_len s * ls_index s) | ADiv => Ok (ls_len s / ls_index s)
    end.
  Theorem src_ls_size_hint_conforms : forall s, src_size_hint_f s = ls_size_hint s.
  Proof. conformance "src_ls_size_hint_conforms" (intros s; unfold src_size_hint_f; eval_gen_tables; reflexivity). Qed.

  (* linspace(a, b, n) *)
  Definition src_linspace_new (a b : A) (n : nat) : res (linspace A) :=
    let '(c, k, k2, o1, o2, dflt) := src_linspace_step in
    do step <- (if mcmp_nat c n k then do d <- aop o1 b a; aop o2 d (n_of_usize N (n - k2)) else Ok (const_eval dflt));
    Ok (LS a step 0 n).
  Theorem src_linspace_new_conforms : forall a b n, src_linspace_new a b n = linspace_new N a b n.
  Proof.
    conformance "src_linspace_new_conforms"
      (intros a b n; unfold src_linspace_new, linspace_new; eval_gen_tables; reflexivity).
  Qed.

  (* range(a, b, step) *)
  Definition src_range_new (a b step : A) : res (linspace A) :=
    let zero := n_zero N in
    let '(s, ep, en) := src_range_empty in
    let '(o1, o2, rnd, o3, o4) := src_range_count in
    let '(r1, r2, r3, r4, inc) := src_range_adjust in
    let empty := if acmp s step zero then acmp ep b a else acmp en b a in
    if empty then Ok (LS a step 0 0)
    else
      do span <- aop o1 b a;
      do q <- aop o2 span step;
      let steps := rnd_eval rnd q in
      do m <- aop o4 steps step;
      do rest <- aop o3 span m;
      let steps := if acmp r1 rest zero && mcmp_bool r3 (acmp r2 rest zero) (acmp r4 step zero)
                   then n_add N steps (const_eval inc) else steps in
      do len <- n_to_usize N steps;
      Ok (LS a step 0 len).
  Theorem src_range_new_conforms : forall a b step, src_range_new a b step = range_new N a b step.
  Proof.
    conformance "src_range_new_conforms"
      (intros a b step; unfold src_range_new, range_new, gtb, geb; eval_gen_tables; reflexivity).
  Qed.

  (* Vec1Create::range / linspace: defaults of the omitted arguments, then the generator, then the trusted collection *)
  Definition src_create_range (trusted : bool) (start : option A) (e : A) (step : option A) : outcome A :=
    let '(d1, d2) := src_create_range_defaults in
    let a := match start with Some v => v | None => const_eval d1 end in
    let st := match step with Some v => v | None => const_eval d2 end in
    match src_range_new a e st with Panic k => Panicked k | Ok s => collect_ls N trusted s end.
  Theorem src_create_range_conforms : forall trusted start e step,
    src_create_range trusted start e step = create_range N trusted start e step.
  Proof.
    conformance "src_create_range_conforms"
      (intros trusted start e step; unfold src_create_range, create_range; eval_gen_tables; cbv beta iota zeta;
       rewrite src_range_new_conforms; reflexivity).
  Qed.

  Definition src_create_linspace (trusted : bool) (start : option A) (e : A) (n : nat) : outcome A :=
    let a := match start with Some v => v | None => const_eval src_create_linspace_default end in
    match src_linspace_new a e n with Panic k => Panicked k | Ok s => collect_ls N trusted s end.
  Theorem src_create_linspace_conforms : forall trusted start e n,
    src_create_linspace trusted start e n = create_linspace N trusted start e n.
  Proof.
    conformance "src_create_linspace_conforms"
      (intros trusted start e n; unfold src_create_linspace, create_linspace; eval_gen_tables; cbv beta iota zeta;
       rewrite src_linspace_new_conforms; reflexivity).
  Qed.
End GenConf.

(* non-vacuity: the table semantics computes counts and elements at the integer instance (signed) *)
Example src_gen_examples :
  src_range_new (z_ops true) 0%Z 10%Z 3%Z = Ok (LS 0%Z 3%Z 0 4) /\
  src_range_new (z_ops true) 10%Z 0%Z (-5)%Z = Ok (LS 10%Z (-5)%Z 0 2) /\
  src_range_new (z_ops true) 5%Z 5%Z 1%Z = Ok (LS 5%Z 1%Z 0 0) /\
  src_range_new (z_ops false) 5%Z 2%Z 1%Z = Ok (LS 5%Z 1%Z 0 0) /\
  src_linspace_new (z_ops true) 0%Z 10%Z 6 = Ok (LS 0%Z 2%Z 0 6) /\
  src_ls_next_f (z_ops true) (LS 1%Z 2%Z 3 5) = Ok (Some 7%Z, LS 1%Z 2%Z 4 5) /\
  src_ls_next_back_f (z_ops true) (LS 1%Z 2%Z 3 5) = Ok (Some 9%Z, LS 1%Z 2%Z 3 4) /\
  src_ls_next_f (z_ops true) (LS 1%Z 2%Z 5 5) = Ok (None, LS 1%Z 2%Z 5 5).
Proof. vm_compute. repeat split; reflexivity. Qed.

Print Assumptions src_ls_next_conforms.
Print Assumptions src_ls_next_back_conforms.
Print Assumptions src_ls_size_hint_conforms.
Print Assumptions src_linspace_new_conforms.
Print Assumptions src_range_new_conforms.
Print Assumptions src_create_range_conforms.
Print Assumptions src_create_linspace_conforms.
