(* Proofs/TimeCal.v — the calendar-dependent lemmas for C17 (month arithmetic, month truncation), proved
   against the CalendarLaws record as a Section hypothesis. Axiom-free. *)
From Coq Require Import ZArith List Bool Lia ZifyBool.
From Tevec Require Import Base.Prelude Spec.Calendar Model.Time Proofs.Time.
Local Open Scope Z_scope.
(* keep the Hinnant arithmetic folded: the proofs only use the laws *)
#[local] Opaque days_of_civil civil_of_days.

(* ------------------------------------------------------------------ months: calendar arithmetic *)
Lemma dim_bounds y m : 28 <= days_in_month y m <= 31.
Proof. unfold days_in_month. destruct (m =? 2); [destruct (is_leap y)|destruct (_ || _)]; lia. Qed.

Lemma valid_civil_iff y m d :
  valid_civil (y, m, d) <-> 1 <= m <= 12 /\ 1 <= d <= days_in_month y m.
Proof. unfold valid_civil, valid_civilb. lia. Qed.

Lemma sod_bounds c : 0 <= cr_sod c < 86400.
Proof. unfold cr_sod, SECS_PER_DAY. apply Z.mod_pos_bound. lia. Qed.

Section WithCalendar.
  (* the calendar laws (Spec/Calendar.v) enter as a hypothesis; Proofs/Calendar.v proves them for the
     executable calendar (calendar_lawful) *)
  Hypothesis Hcal : CalendarLaws civil_of_days days_of_civil.

  Lemma cr_civil_valid c : valid_civil (cr_civil c).
  Proof. apply (cl_valid _ _ Hcal). Qed.

  (* a chrono value assembled from a valid civil date and a time of day reads back those fields *)
  Lemma cr_fields_of_parts cv sod n :
    valid_civil cv -> 0 <= sod < 86400 ->
    let c := mkcr (days_of_civil cv * SECS_PER_DAY + sod) n in
    cr_civil c = cv /\ cr_sod c = sod /\ cr_nanos c = n.
  Proof.
    intros Hv Hs c. subst c. unfold cr_civil, cr_day, cr_sod, SECS_PER_DAY. cbn [cr_secs cr_nanos].
    assert (E1 : (days_of_civil cv * 86400 + sod) / 86400 = days_of_civil cv) by (Z.div_mod_to_equations; lia).
    assert (E2 : (days_of_civil cv * 86400 + sod) mod 86400 = sod) by (Z.div_mod_to_equations; lia).
    rewrite E1, E2, (cl_civil_days_civil _ _ Hcal _ Hv). auto.
  Qed.

  (* chrono's month arithmetic is Spec add_months on the date, the time of day untouched *)
  Lemma cr_add_months_spec c k c' :
    cr_add_months c k = Some c' ->
    cr_civil c' = add_months (cr_civil c) k /\ cr_sod c' = cr_sod c /\ cr_nanos c' = cr_nanos c.
  Proof.
    unfold cr_add_months. pose proof (cr_civil_valid c) as Hv.
    destruct (cr_civil c) as [[y m] d] eqn:Ecv. apply valid_civil_iff in Hv.
    cbv zeta. destruct (_ && _); [|discriminate]. intros [= <-].
    set (t := y * 12 + (m - 1) + k).
    set (d' := if days_in_month (t / 12) (t mod 12 + 1) <? d then days_in_month (t / 12) (t mod 12 + 1) else d).
    assert (Hd' : d' = Z.min d (days_in_month (t / 12) (t mod 12 + 1)))
      by (subst d'; destruct (Z.ltb_spec (days_in_month (t / 12) (t mod 12 + 1)) d); lia).
    pose proof (dim_bounds (t / 12) (t mod 12 + 1)) as Hb.
    assert (Hv' : valid_civil (t / 12, t mod 12 + 1, d')).
    { apply valid_civil_iff. pose proof (Z.mod_pos_bound t 12 ltac:(lia)). lia. }
    destruct (cr_fields_of_parts _ (cr_sod c) (cr_nanos c) Hv' (sod_bounds c)) as (E1 & E2 & E3).
    rewrite E1, E2, E3. unfold add_months. fold t. rewrite Hd'. auto.
  Qed.

  Lemma cr_add_months_wf c k c' : cr_wf c -> cr_add_months c k = Some c' -> cr_wf c'.
  Proof.
    intros Hw H. destruct (cr_add_months_spec _ _ _ H) as (_ & _ & E). unfold cr_wf. rewrite E. exact Hw.
  Qed.

  Lemma as_cr_wf u x c : as_cr u x = Some c -> cr_wf c.
  Proof. intros H. destruct (as_cr_total _ _ _ H) as [-> _]. apply cr_of_total_wf. Qed.

  Lemma as_cr_unit_whole u x c : as_cr u x = Some c -> cr_nanos c mod unit_ns u = 0.
  Proof.
    intros H. destruct (as_cr_some_inv _ _ _ H) as (_ & _ & ->). apply Z.mod_mul.
    pose proof (unit_ns_pos u). lia.
  Qed.

  Lemma cr_add_ns_0 c r : cr_wf c -> cr_add_ns c 0 = Some r -> r = c /\ date_in_range (cr_day c) = true.
  Proof.
    intros Hw H. apply cr_add_ns_inv in H. destruct H as [-> Hr].
    rewrite Z.add_0_r, (cr_of_total_total _ Hw) in *. auto.
  Qed.

  (* DateTime<u> + k months (k <> 0, fixed part zero): the fields of the result *)
  Lemma dt_add_months_fields u x k y :
    x <> NaT -> k <> 0 -> k <> i32_min -> dt_add u x (mktd k 0) = Ok y -> y <> NaT ->
    exists c c', as_cr u x = Some c /\ as_cr u y = Some c'
                 /\ cr_civil c' = add_months (cr_civil c) k /\ cr_sod c' = cr_sod c /\ cr_nanos c' = cr_nanos c.
  Proof.
    intros Hx Hk Hk' H Hy. unfold dt_add in H.
    rewrite (proj2 (is_nat_false x) Hx) in H. unfold td_is_nat in H. cbn [td_months td_ns] in H.
    replace (k =? i32_min) with false in H by lia. replace (k =? 0) with false in H by lia.
    cbn [negb andb] in H.
    destruct (as_cr u x) as [c|] eqn:Ec; [|discriminate]. cbn [unwrap bind] in H.
    assert (exists c', cr_add_months c k = Some c' /\ (do r <- expect_overflow (cr_add_ns c' 0); from_cr u r) = Ok y)
      as (c' & Hc' & H').
    { destruct (0 <? k).
      - destruct (cr_add_months c k) as [c'|] eqn:E; [|discriminate]. exists c'. auto.
      - unfold cr_sub_months in H. rewrite Z.opp_involutive in H.
        destruct (cr_add_months c k) as [c'|] eqn:E; [|discriminate]. exists c'. auto. }
    clear H. destruct (cr_add_ns c' 0) as [r|] eqn:Er; [|discriminate]. cbn [expect_overflow bind] in H'.
    pose proof (cr_add_months_wf _ _ _ (as_cr_wf _ _ _ Ec) Hc') as Hw'.
    destruct (cr_add_ns_0 _ _ Hw' Er) as [-> Hrange].
    destruct (cr_add_months_spec _ _ _ Hc') as (E1 & E2 & E3).
    exists c, c'. repeat split; try assumption.
    apply from_cr_as_cr; try assumption. rewrite E3. apply (as_cr_unit_whole _ _ _ Ec).
  Qed.

  Lemma dt_sub_months_fields u x k y :
    x <> NaT -> k <> 0 -> k <> i32_min -> dt_sub u x (mktd k 0) = Ok y -> y <> NaT ->
    exists c c', as_cr u x = Some c /\ as_cr u y = Some c'
                 /\ cr_civil c' = add_months (cr_civil c) (- k) /\ cr_sod c' = cr_sod c /\ cr_nanos c' = cr_nanos c.
  Proof.
    intros Hx Hk Hk' H Hy. unfold dt_sub in H.
    rewrite (proj2 (is_nat_false x) Hx) in H. unfold td_is_nat in H. cbn [td_months td_ns] in H.
    replace (k =? i32_min) with false in H by lia. replace (k =? 0) with false in H by lia.
    cbn [negb andb] in H.
    destruct (as_cr u x) as [c|] eqn:Ec; [|discriminate]. cbn [unwrap bind] in H.
    assert (exists c', cr_add_months c (- k) = Some c' /\ (do r <- expect_overflow (cr_add_ns c' (- 0)); from_cr u r) = Ok y)
      as (c' & Hc' & H').
    { destruct (0 <? k).
      - unfold cr_sub_months in H.
        destruct (cr_add_months c (- k)) as [c'|] eqn:E; [|discriminate]. exists c'. auto.
      - destruct (cr_add_months c (- k)) as [c'|] eqn:E; [|discriminate]. exists c'. auto. }
    clear H. change (- 0) with 0 in H'.
    destruct (cr_add_ns c' 0) as [r|] eqn:Er; [|discriminate]. cbn [expect_overflow bind] in H'.
    pose proof (cr_add_months_wf _ _ _ (as_cr_wf _ _ _ Ec) Hc') as Hw'.
    destruct (cr_add_ns_0 _ _ Hw' Er) as [-> Hrange].
    destruct (cr_add_months_spec _ _ _ Hc') as (E1 & E2 & E3).
    exists c, c'. repeat split; try assumption.
    apply from_cr_as_cr; try assumption. rewrite E3. apply (as_cr_unit_whole _ _ _ Ec).
  Qed.

  (* ---------------------------------------------------------------- duration_trunc, months dividing 12 *)
  Definition divides12 (m : Z) : Prop := m = 1 \/ m = 2 \/ m = 3 \/ m = 4 \/ m = 6 \/ m = 12.

  (* first month (1-based) of the period of m months that contains month mo *)
  Definition period_start (mo m : Z) : Z := (mo - 1) - (mo - 1) mod m + 1.

  Lemma trunc_months_spec c m c' :
    divides12 m -> trunc_months c m = Ok c' ->
    let '(y, mo, _) := cr_civil c in
    cr_civil c' = (y, period_start mo m, 1) /\ cr_sod c' = 0 /\ cr_nanos c' = 0.
  Proof.
    intros Hm. unfold trunc_months. pose proof (cr_civil_valid c) as Hv.
    destruct (cr_civil c) as [[y mo] d] eqn:Ecv. apply valid_civil_iff in Hv. destruct Hv as [Hmo Hd].
    set (dtm := if 1 <=? y then y * 12 + (mo - 1) else (1 - y) * -12 + (mo - 1)).
    set (c0 := mkcr (days_of_civil (y, mo, 1) * SECS_PER_DAY) 0).
    assert (Hv0 : valid_civil (y, mo, 1)).
    { apply valid_civil_iff. pose proof (dim_bounds y mo). lia. }
    pose proof (cr_fields_of_parts (y, mo, 1) 0 0 Hv0 ltac:(lia)) as HF. cbv zeta in HF.
    rewrite Z.add_0_r in HF. fold c0 in HF. destruct HF as (F1 & F2 & F3).
    (* the amount stepped back is (mo - 1) mod m in every case *)
    assert (Hstep : forall k c1, cr_sub_months c0 k = Some c1 -> k = (mo - 1) mod m ->
                                 cr_civil c1 = (y, period_start mo m, 1) /\ cr_sod c1 = 0 /\ cr_nanos c1 = 0).
    { intros k c1 H1 Hk. unfold cr_sub_months in H1.
      destruct (cr_add_months_spec _ _ _ H1) as (E1 & E2 & E3).
      rewrite E1, E2, E3, F1, F2, F3. repeat split. unfold add_months, period_start.
      pose proof (dim_bounds ((y * 12 + (mo - 1) + - k) / 12) ((y * 12 + (mo - 1) + - k) mod 12 + 1)).
      rewrite Z.min_l by lia.
      assert (0 <= (mo - 1) - k <= 11).
      { subst k. destruct Hm as [->|[->|[->|[->|[->| ->]]]]]; Z.div_mod_to_equations; lia. }
      rewrite <- Hk. clear Hk. f_equal. f_equal; Z.div_mod_to_equations; lia. }
    assert (Hrem : Z.rem dtm m = 0 /\ (mo - 1) mod m = 0
                   \/ 0 < Z.rem dtm m /\ Z.rem dtm m = (mo - 1) mod m
                   \/ Z.rem dtm m < 0 /\ m - Z.abs (Z.rem dtm m) = (mo - 1) mod m).
    { assert (Hm0 : 0 < m) by (destruct Hm as [->|[->|[->|[->|[->| ->]]]]]; lia).
      subst dtm. destruct (1 <=? y) eqn:Ey.
      - (* common era: the index is non-negative, rem = mod *)
        rewrite Z.rem_mod_nonneg by lia.
        destruct Hm as [->|[->|[->|[->|[->| ->]]]]]; Z.div_mod_to_equations; lia.
      - (* year <= 0: the index is negative, rem = - ((- index) mod m) *)
        set (a := (1 - y) * 12 - (mo - 1)).
        replace ((1 - y) * -12 + (mo - 1)) with (- a) by (subst a; lia).
        assert (Ha : 0 < a) by (subst a; lia).
        rewrite Z.rem_opp_l, Z.rem_mod_nonneg by lia.
        assert (Hmo1 : mo - 1 = (1 - y) * 12 - a) by (subst a; lia).
        rewrite Hmo1. clearbody a.
        destruct Hm as [->|[->|[->|[->|[->| ->]]]]]; Z.div_mod_to_equations; lia. }
    destruct (Z.rem dtm m =? 0) eqn:E0.
    - intros [= <-]. rewrite F1, F2, F3. repeat split. unfold period_start.
      destruct Hrem as [[_ ->]|[[? _]|[? _]]]; try lia. f_equal. f_equal. lia.
    - destruct (0 <? Z.rem dtm m) eqn:E1.
      + destruct (cr_sub_months c0 _) as [c1|] eqn:E; [|discriminate]. cbn [expect_other]. intros [= <-].
        apply (Hstep _ _ E). lia.
      + destruct (cr_sub_months c0 _) as [c1|] eqn:E; [|discriminate]. cbn [expect_other]. intros [= <-].
        apply (Hstep _ _ E). lia.
  Qed.

  Lemma from_cr_as_cr_unique u c x c2 :
    cr_wf c -> cr_nanos c mod unit_ns u = 0 -> from_cr u c = Ok x -> as_cr u x = Some c2 -> c2 = c.
  Proof.
    intros Hw Hm Hf H2. destruct (as_cr_total _ _ _ H2) as [-> _].
    rewrite <- (cr_of_total_total _ Hw). f_equal.
    destruct c as [s n]. unfold cr_wf, cr_total_ns, from_cr in *. cbn [cr_secs cr_nanos] in *.
    destruct u; cbn [unit_ns] in *.
    - injection Hf as <-. Z.div_mod_to_equations; lia.
    - injection Hf as <-. Z.div_mod_to_equations; lia.
    - injection Hf as <-. Z.div_mod_to_equations; lia.
    - destruct (as_cr_total _ _ _ H2) as [_ Hxn]. destruct (in_i64 _); injection Hf as <-; [lia|contradiction].
  Qed.

  Lemma dt_trunc_months_fields u x m y :
    x <> NaT -> divides12 m -> dt_trunc u x (mktd m 0) = Ok y ->
    exists c, as_cr u x = Some c /\
      forall cy, as_cr u y = Some cy ->
                 (let '(yr, mo, _) := cr_civil c in cr_civil cy = (yr, period_start mo m, 1))
                 /\ cr_sod cy = 0 /\ cr_nanos cy = 0.
  Proof.
    intros Hx Hm H. unfold dt_trunc in H. rewrite (proj2 (is_nat_false x) Hx) in H.
    destruct (as_cr u x) as [c|] eqn:Ec; [|discriminate]. cbn [unwrap bind td_months td_ns] in H. cbv zeta in H.
    assert (Hm0 : (m =? 0) = false /\ (m <? 0) = false) by (destruct Hm as [->|[->|[->|[->|[->| ->]]]]]; auto).
    destruct Hm0 as [Hm1 Hm2]. rewrite Hm1, Hm2 in H. cbn [negb] in H.
    destruct (trunc_months c m) as [c'|] eqn:Et; [|discriminate]. cbn [bind] in H.
    change (num_ns 0) with (Some 0) in H. cbv iota in H.
    pose proof (trunc_months_spec _ _ _ Hm Et) as HS.
    exists c. split; [reflexivity|]. intros cy Hcy.
    destruct (cr_civil c) as [[yr mo] dd]. destruct HS as (S1 & S2 & S3).
    assert (cy = c').
    { apply (from_cr_as_cr_unique u c' y cy); try assumption.
      - unfold cr_wf. rewrite S3. lia.
      - rewrite S3. apply Z.mod_0_l. pose proof (unit_ns_pos u). lia. }
    subst cy. auto.
  Qed.
End WithCalendar.
