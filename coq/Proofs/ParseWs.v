(* Proofs/ParseWs.v — C18: white space and the duration scanner.  TimeDelta::parse never consults
   char::is_whitespace: a white-space character is just a character that is neither a digit, a sign nor an
   ASCII letter, so it belongs to no term of the grammar.  Consequences of the characterisation of the
   accepted strings (Proofs/ParseRejects.v): in an accepted string a white-space character can only be the
   head of the degenerate tail, i.e. it is followed by digits only up to the end of the string; a string
   starting with white space is rejected unless digits only follow.  Axiom-free. *)
From Coq Require Import List ZArith Lia Bool ZifyBool.
From Tevec Require Import Base.Prelude Model.Parse Spec.DurationC18 Proofs.Parse Proofs.ParseRejects Model.ParseDT.
Import ListNotations.
Local Open Scope Z_scope.

(* the alphabet of the terms: digits, the two signs, ASCII letters *)
Definition term_char (c : Z) : Prop := is_digit c = true \/ c = 43 \/ c = 45 \/ is_alpha c = true.

Lemma ws_not_term_char c : is_ws c = true -> ~ term_char c.
Proof. unfold term_char, is_ws, is_digit, is_alpha. lia. Qed.

Lemma unit_str_alpha u : Forall (fun c => is_alpha c = true) (unit_str u).
Proof. destruct u; repeat constructor. Qed.

Lemma render_term_chars t : wf_term t -> Forall term_char (render_term t).
Proof.
  intros [_ Hd]. unfold render_term. apply Forall_app. split; [|apply Forall_app; split].
  - destruct (t_sign t) as [[|]|]; cbn [sign_str]; [apply Forall_cons; [|apply Forall_nil]..|apply Forall_nil];
      unfold term_char; auto.
  - eapply Forall_impl; [|exact Hd]. intros c Hc. left. exact Hc.
  - eapply Forall_impl; [|apply unit_str_alpha]. intros c Hc. right. right. right. exact Hc.
Qed.

Lemma render_terms_chars ts : Forall wf_term ts -> Forall term_char (render_terms ts).
Proof.
  induction 1 as [|t ts Ht _ IH]; [constructor|].
  change (render_terms (t :: ts)) with (render_term t ++ render_terms ts).
  apply Forall_app. split; [apply render_term_chars; exact Ht|exact IH].
Qed.

(* in an accepted string, a white-space character is followed by digits only up to the end *)
Theorem parse_ws_position : forall s m ns, parse s = POk m ns ->
  forall pre c post, s = pre ++ c :: post -> is_ws c = true -> Forall digit post.
Proof.
  intros s m ns H pre c post Hs Hc.
  destruct (parse_accepts_grammar s m ns H) as (ts & tail & E & Hw & Ht & _).
  pose proof (render_terms_chars ts Hw) as HR.
  pose proof (ws_not_term_char c Hc) as Hn.
  assert (Hnd : is_digit c = true -> False) by (intros Hd; apply Hn; left; exact Hd).
  (* the tail, if it contains c, has it at its head *)
  assert (Htail : forall l, tail = l ++ c :: post -> Forall digit post).
  { intros l El. destruct Ht as [->|(c' & ds & -> & Hds & _)]; [destruct l; discriminate|].
    destruct l as [|c0 l']; cbn [app] in El.
    - injection El as _ <-. exact Hds.
    - injection El as _ ->. apply Forall_app in Hds. destruct Hds as [_ Hds].
      inversion Hds as [|? ? Hcd _]; subst. contradiction (Hnd Hcd). }
  rewrite E in Hs. symmetry in Hs. apply app_eq_app in Hs. destruct Hs as [l [[E1 E2]|[E1 E2]]].
  - exact (Htail l E2).
  - destruct l as [|c0 l']; cbn [app] in E2.
    + apply (Htail []). symmetry. exact E2.
    + injection E2 as <- _. rewrite E1 in HR. apply Forall_app in HR. destruct HR as [_ HR].
      inversion HR as [|? ? Hcc _]; subst. contradiction.
Qed.

(* leading white space is rejected unless nothing but digits follows *)
Theorem parse_leading_ws_rejected : forall c r, is_ws c = true -> ~ Forall digit r -> parse (c :: r) = PErr.
Proof.
  intros c r Hc Hr. pose proof (ws_not_term_char c Hc) as Hn. unfold term_char in Hn.
  apply parse_bad_head_rejected; try exact Hr.
  - destruct (is_digit c); [exfalso; apply Hn; auto|reflexivity].
  - intros ->. apply Hn. auto.
  - intros ->. apply Hn. auto.
Qed.

(* white space between two terms is rejected ("1d 2h"): the space would head the second term *)
Theorem parse_inner_ws_rejected : forall pre c post,
  is_ws c = true -> ~ Forall digit post -> parse (pre ++ c :: post) = PErr.
Proof.
  intros pre c post Hc Hp. destruct (parse_ok_or_err (pre ++ c :: post)) as [[m [ns H]]|H]; [|exact H].
  exfalso. apply Hp. exact (parse_ws_position _ m ns H pre c post eq_refl Hc).
Qed.

Print Assumptions parse_ws_position.
Print Assumptions parse_inner_ws_rejected.
