(* Proofs/CastOutput.v — C08, output encodings: a rolling / aggregation result (an f64, or an Option<f64> for
   the rolling extrema) cast into the requested output element type f64 / f32 / Option<f64> / Option<i32>
   (tea-dtype/src/cast.rs:25-64, `f64: Cast<U>` / `Option<T::Inner>: Cast<U>` in the rolling signatures) is
   null exactly when the result is null.  Corollary of the C15 cast-lattice theorems (Proofs/CastProps.v),
   for every value and every float implementation satisfying ExtLaws.  Axiom-free.                       *)
From Coq Require Import ZArith List Bool.
From Tevec Require Import Base.Prelude Model.Cast Proofs.Cast Proofs.CastLattice Proofs.CastProps.
Import ListNotations.

Definition result_tys : list ty := [Plain (N F64); Opt (N F64)].
Definition output_tys : list ty := [Plain (N F64); Plain (N F32); Opt (N F64); Opt (N I32)].

Definition output_encoding_statement : Prop :=
  forall (F : Type) (X : Ext F), ExtLaws X ->
  forall (s t : ty) (v : val s) (w : val t),
    In s result_tys -> In t output_tys -> cast X s t v = Ok w ->
    (is_none X s v = true -> is_none X t w = true) /\
    (canonical X s v = true -> is_none X s v = false -> is_none X t w = false) /\
    (is_none X s v = true -> forall b (E : t = Opt b), eq_rect t val w (Opt b) E = None).

Theorem output_encoding : output_encoding_statement.
Proof.
  intros F X L s t v w Hs Ht Hc.
  assert (Hi : implemented s t = true /\ can_null t = true /\ kf_text_null s t = false /\ parser_pair s t = false
               /\ is_time_ty t = false /\ t <> Opt (N I64)).
  { cbn in Hs, Ht. destruct Hs as [<-|[<-|[]]]; destruct Ht as [<-|[<-|[<-|[<-|[]]]]];
      repeat split; try reflexivity; discriminate. }
  destruct Hi as (Hi & Hcn & Hkf & Hpp & Htm & H64).
  split; [|split].
  - intros Hn. exact (cast_null_preserved X L s t v w Hi Hcn Hkf Hn Hc).
  - intros Hcan Hn. apply (cast_nonnull_preserved X L s t v w Hi Hcn Hkf Hpp Hcan Hn); [| |exact Hc].
    + intros Ht'. rewrite Htm in Ht'. discriminate.
    + intros E. contradiction.
  - intros Hn b E. subst t. cbn [eq_rect]. exact (cast_null_to_option X L s b v w Hi Hn Hc).
Qed.

(* the casts involved never panic *)
Theorem output_cast_total :
  forall (F : Type) (X : Ext F) (s t : ty) (v : val s),
    In s result_tys -> In t output_tys -> exists w, cast X s t v = Ok w.
Proof.
  intros F X s t v Hs Ht. cbn in Hs, Ht.
  destruct Hs as [<-|[<-|[]]]; destruct Ht as [<-|[<-|[<-|[<-|[]]]]]; cbn in v |- *;
    try (eexists; reflexivity); try (destruct v; eexists; reflexivity).
Qed.
