(* Proofs/Composite.v — C20: winsorize = map (clip lo hi) with the documented bounds, lo <= hi;
   Spearman = Pearson of the average ranks, invariant under strictly increasing maps; the executable
   half_life meets the hypotheses of Proofs/HalfLife.v.  Carrier XR = option R (None = null).       *)
From Coq Require Import Reals Lra Lia List Sorting Permutation ZArith Bool.
From Tevec Require Import Base.Prelude Model.MapOps Spec.MapOps Proofs.MapOps.
From Tevec Require Import Base.Num Base.XR Spec.Stats Spec.Stats2 Model.SortCmp Model.Quantile Model.Rank
     Model.Agg Model.HalfLife Model.Composite
     Proofs.SortCmp Proofs.OrderXR Proofs.Quantile Proofs.QuantileMono Proofs.Partition Proofs.Rank
     Proofs.AggGeneric Proofs.AggXR Proofs.Agg Proofs.HalfLife.
Import ListNotations.
Local Open Scope R_scope.

(* ================================================================================================ *)
(* 1. clipping one real to [lo, hi] — the order of the tests is vclip's *)

Definition clipR (lo hi x : R) : R :=
  if Rlt_dec x lo then lo else if Rlt_dec hi x then hi else x.

Lemma clipR_inside lo hi x : lo <= x <= hi -> clipR lo hi x = x.
Proof. intros H. unfold clipR. destruct (Rlt_dec x lo); [lra|]. destruct (Rlt_dec hi x); [lra|reflexivity]. Qed.
Lemma clipR_below lo hi x : x < lo -> clipR lo hi x = lo.
Proof. intros H. unfold clipR. destruct (Rlt_dec x lo); [reflexivity|lra]. Qed.
Lemma clipR_above lo hi x : lo <= hi -> hi < x -> clipR lo hi x = hi.
Proof. intros Hlh H. unfold clipR. destruct (Rlt_dec x lo); [lra|]. destruct (Rlt_dec hi x); [reflexivity|lra]. Qed.
Lemma clipR_range lo hi x : lo <= hi -> lo <= clipR lo hi x <= hi.
Proof. intros H. unfold clipR. destruct (Rlt_dec x lo); [lra|]. destruct (Rlt_dec hi x); lra. Qed.
Lemma clipR_mono lo hi x y : lo <= hi -> x <= y -> clipR lo hi x <= clipR lo hi y.
Proof.
  intros Hlh Hxy. unfold clipR.
  destruct (Rlt_dec x lo), (Rlt_dec y lo); try lra; destruct (Rlt_dec hi x), (Rlt_dec hi y); lra.
Qed.
Lemma clipR_idem lo hi x : lo <= hi -> clipR lo hi (clipR lo hi x) = clipR lo hi x.
Proof. intros H. apply clipR_inside. apply clipR_range. exact H. Qed.
(* the value moves to the NEARER bound: the distance to the result is the distance to the interval *)
Lemma clipR_nearest lo hi x : lo <= hi ->
  forall y, lo <= y <= hi -> Rabs (x - clipR lo hi x) <= Rabs (x - y).
Proof.
  intros Hlh y Hy. unfold clipR.
  destruct (Rlt_dec x lo); [|destruct (Rlt_dec hi x)].
  - rewrite !Rabs_left1 by lra. lra.
  - rewrite !Rabs_right by lra. lra.
  - replace (x - x) with 0 by ring. rewrite Rabs_R0. apply Rabs_pos.
Qed.

(* a clipped series *)
Definition clip_series (lo hi : R) (xs : list XR) : list XR := map (option_map (clipR lo hi)) xs.

(* vclip on the f64 iterator at XR *)
Lemma clip_f64_xr (lo hi : XR) (xs : list XR) :
  clip_f64 lo hi xs =
  Ok (match lo, hi with
      | Some l, Some h => clip_series l h xs
      | _, _ => map (clip_elem (fdict (A := XR)) (fun v => v) nltb lo hi) xs
      end).
Proof.
  unfold clip_f64. rewrite (vclip_spec (fdict (A := XR)) (fun v => v) nltb (unwrap_ok_float _ _)).
  f_equal. destruct lo as [l|], hi as [h|]; try reflexivity.
  unfold clip_series. apply map_ext. intros [x|]; [|reflexivity].
  unfold clip_elem, clipR. cbn.
  destruct (Rlt_dec x l); [reflexivity|]. destruct (Rlt_dec h x); reflexivity.
Qed.

Lemma clip_f64_null_bounds (xs : list XR) : clip_f64 None None xs = Ok xs.
Proof.
  rewrite clip_f64_xr. f_equal. rewrite <- (map_id xs) at 2. apply map_ext. intros [x|]; reflexivity.
Qed.

Lemma iter_cast_xr (xs : list XR) : iter_cast (DT := IsNoneXR) xs = xs.
Proof. unfold iter_cast. rewrite <- (map_id xs) at 2. apply map_ext. intros [x|]; reflexivity. Qed.

(* ================================================================================================ *)
(* 2. winsorize: the three methods *)

(* the deviations |x - c| of a series; nulls stay null *)
Definition absdev (c : R) (xs : list XR) : list XR := map (option_map (fun x => Rabs (x - c))) xs.
Lemma valid_absdev c xs : valid (absdev c xs) = map (fun x => Rabs (x - c)) (valid xs).
Proof.
  unfold absdev. induction xs as [|[x|] xs IH]; [reflexivity| |exact IH].
  cbn [map option_map valid flat_map app]. fold (valid xs). f_equal. exact IH.
Qed.

Lemma valid_nil_all_null (xs : list XR) : valid xs = [] -> forall x, In x xs -> x = None.
Proof.
  induction xs as [|[y|] xs IH]; cbn; [tauto|discriminate|]. fold (valid xs).
  intros H x [<-|Hx]; [reflexivity|apply IH; assumption].
Qed.

Section Winsorize.
  Variable xs : list XR.
  Local Notation V := (valid xs).

  (* ---- Quantile ---- *)
  Theorem winsorize_quantile (q : R) (s : list R) :
    0 <= q <= 1 -> Sorted Rle s -> Permutation s V -> s <> [] ->
    winsorize (DT := IsNoneXR) WQuantile (Some (Some q)) xs
    = Ok (Some (clip_series (quantile_spec s q Linear) (quantile_spec s (1 - q) Linear) xs)).
  Proof.
    intros Hq Hs HP Hne. unfold winsorize.
    rewrite (vquantile_spec xs q Linear s Hq Hs HP Hne). cbn [bind].
    change (@none XR NumXR) with (Some 1). rewrite xsub_some.
    rewrite (vquantile_spec xs (1 - q) Linear s) by (try assumption; lra). cbn [bind].
    rewrite iter_cast_xr, clip_f64_xr. reflexivity.
  Qed.

  Theorem winsorize_quantile_all_null (q : R) :
    0 <= q <= 1 -> V = [] -> winsorize (DT := IsNoneXR) WQuantile (Some (Some q)) xs = Ok (Some xs).
  Proof.
    intros Hq Hv. unfold winsorize.
    rewrite (vquantile_all_null xs q Linear Hq Hv). cbn [bind].
    change (@none XR NumXR) with (Some 1). rewrite xsub_some.
    rewrite (vquantile_all_null xs (1 - q) Linear) by (try assumption; lra). cbn [bind].
    rewrite iter_cast_xr, clip_f64_null_bounds. reflexivity.
  Qed.

  Theorem winsorize_quantile_bad_q (q : R) :
    ~ (0 <= q <= 1) -> winsorize (DT := IsNoneXR) WQuantile (Some (Some q)) xs = Ok None.
  Proof. intros Hq. unfold winsorize. rewrite (vquantile_bad_q xs q Linear Hq). reflexivity. Qed.

  (* ---- Median ---- *)
  Theorem winsorize_median (k : R) (s s' : list R) :
    Sorted Rle s -> Permutation s V -> s <> [] ->
    let med := quantile_spec s (1 / 2) Linear in
    Sorted Rle s' -> Permutation s' (map (fun x => Rabs (x - med)) V) ->
    let mad := quantile_spec s' (1 / 2) Linear in
    winsorize (DT := IsNoneXR) WMedian (Some (Some k)) xs
    = Ok (Some (clip_series (med - k * mad) (med + k * mad) xs)).
  Proof.
    intros Hs HP Hne med Hs' HP' mad. unfold winsorize.
    rewrite (vmedian_spec xs s Hs HP Hne). cbn [bind]. fold med.
    change (nisnan (Some med)) with false. cbn [negb].
    assert (Hdev : map (fun v : XR => nabs (nsub (tcast (DT := IsNoneXR) v) (Some med))) xs = absdev med xs).
    { unfold absdev. apply map_ext. intros [x|]; reflexivity. }
    rewrite Hdev.
    assert (Hne' : s' <> []).
    { intros ->. apply Permutation_nil in HP'. apply map_eq_nil in HP'.
      rewrite HP' in HP. apply Permutation_sym, Permutation_nil in HP. contradiction. }
    assert (HP'' : Permutation s' (valid (absdev med xs))) by (rewrite valid_absdev; exact HP').
    change (@DF XR NumXR) with IsNoneXR.
    rewrite (vmedian_spec (absdev med xs) s' Hs' HP'' Hne'). cbn [bind]. fold mad.
    rewrite xmul_some, xsub_some, xadd_some, iter_cast_xr, clip_f64_xr. reflexivity.
  Qed.

  Theorem winsorize_median_all_null (k : R) :
    V = [] -> winsorize (DT := IsNoneXR) WMedian (Some (Some k)) xs = Ok (Some xs).
  Proof.
    intros Hv. unfold winsorize, vmedian. rewrite nhalf_xr.
    rewrite (vquantile_all_null xs (1 / 2) Linear) by (try assumption; lra). cbn [bind].
    change (nisnan (@None R)) with true. cbn [negb]. rewrite iter_cast_xr. reflexivity.
  Qed.

  (* ---- Sigma ---- *)
  Lemma samplevar_ge_popvar (l : list R) : (2 <= length l)%nat -> popvarR l <= samplevarR l.
  Proof.
    intros Hn. unfold popvarR, cmom, samplevarR, nR.
    pose proof (devsum2_nonneg (meanR l) l) as HD.
    assert (H2 : 2 <= INR (length l)) by (apply (le_INR 2); exact Hn).
    set (D := devsum 2 (meanR l) l) in *. set (n := INR (length l)) in *.
    unfold Rdiv. apply Rmult_le_compat_l; [exact HD|].
    apply Rinv_le_contravar; lra.
  Qed.

  Theorem winsorize_sigma (k : R) :
    winsorize (DT := IsNoneXR) WSigma (Some (Some k)) xs
    = Ok (Some (if (length V <? 2)%nat then xs
                else if Rle_dec (popvarR V) EPS then xs
                else clip_series (meanR V - k * sqrt (samplevarR V)) (meanR V + k * sqrt (samplevarR V)) xs)).
  Proof.
    unfold winsorize.
    change (@idA XR) with (fun x : XR => x).
    rewrite (vmean_var_textbook 2 (canonical_float xs)).
    unfold nvalid. rewrite rvals_float.
    destruct (length V <? 2)%nat eqn:E2.
    { cbn [fst snd]. change (nisnan (@None R)) with true. cbn [negb andb]. rewrite iter_cast_xr. reflexivity. }
    apply Nat.ltb_ge in E2.
    replace (length V =? 0)%nat with false by (symmetry; apply Nat.eqb_neq; lia).
    destruct (Rle_dec (popvarR V) EPS) as [Hp|Hp]; cbn [fst snd].
    { change (nisnan (Some (meanR V))) with false. change (nisnan (Some 0)) with false. cbn [negb andb].
      change (@neps XR NumXR) with (Some EPS). rewrite xltb_false by (pose proof EPS_pos; lra).
      rewrite iter_cast_xr. reflexivity. }
    pose proof (samplevar_ge_popvar V E2) as Hsv. pose proof EPS_pos as He.
    change (nisnan (Some (meanR V))) with false. change (nisnan (Some (samplevarR V))) with false. cbn [negb andb].
    change (@neps XR NumXR) with (Some EPS). rewrite xltb_true by lra.
    rewrite xsqrt_some by lra. rewrite xmul_some, xsub_some, xadd_some, iter_cast_xr, clip_f64_xr. reflexivity.
  Qed.
End Winsorize.

(* ---- the bounds are ordered ---------------------------------------------------------------------- *)
Theorem quantile_bounds_ordered (s : list R) (q : R) :
  Sorted Rle s -> s <> [] -> 0 <= q <= 1 / 2 ->
  quantile_spec s q Linear <= quantile_spec s (1 - q) Linear.
Proof. intros Hs Hne Hq. apply quantile_mono; try assumption; lra. Qed.

Theorem mad_nonneg (s' : list R) (l : list R) (c : R) :
  Sorted Rle s' -> Permutation s' (map (fun x => Rabs (x - c)) l) -> s' <> [] ->
  0 <= quantile_spec s' (1 / 2) Linear.
Proof.
  intros Hs HP Hne. apply quantile_lower_bound; try assumption; [lra|].
  intros x Hx. apply (Permutation_in _ HP) in Hx. apply in_map_iff in Hx.
  destruct Hx as (y & <- & _). apply Rabs_pos.
Qed.

Theorem median_bounds_ordered (med mad k : R) : 0 <= mad -> 0 <= k -> med - k * mad <= med + k * mad.
Proof. intros. nra. Qed.
Theorem sigma_bounds_ordered (mean var k : R) : 0 <= k -> mean - k * sqrt var <= mean + k * sqrt var.
Proof. intros. pose proof (sqrt_pos var). nra. Qed.

(* ---- the laws of a clipped series (what "acts as clipping to one interval" means) ------------------- *)
Theorem clip_series_laws (lo hi : R) (xs : list XR) :
  lo <= hi ->
  length (clip_series lo hi xs) = length xs /\
  (forall i, nth_error xs i = Some None -> nth_error (clip_series lo hi xs) i = Some None) /\
  (forall i x, nth_error xs i = Some (Some x) ->
     exists y, nth_error (clip_series lo hi xs) i = Some (Some y) /\
       (lo <= x <= hi -> y = x) /\ (x < lo -> y = lo) /\ (hi < x -> y = hi) /\ lo <= y <= hi /\
       (forall z, lo <= z <= hi -> Rabs (x - y) <= Rabs (x - z))) /\
  (forall i j x x' y y', nth_error xs i = Some (Some x) -> nth_error xs j = Some (Some x') ->
     nth_error (clip_series lo hi xs) i = Some (Some y) -> nth_error (clip_series lo hi xs) j = Some (Some y') ->
     x <= x' -> y <= y').
Proof.
  intros Hlh. unfold clip_series. split; [apply map_length|]. split; [|split].
  - intros i Hi. rewrite nth_error_map, Hi. reflexivity.
  - intros i x Hi. exists (clipR lo hi x). rewrite nth_error_map, Hi. split; [reflexivity|].
    split; [apply clipR_inside|]. split; [apply clipR_below|]. split; [apply clipR_above; exact Hlh|].
    split; [apply clipR_range; exact Hlh|apply clipR_nearest; exact Hlh].
  - intros i j x x' y y' Hi Hj Hy Hy' Hxx.
    rewrite nth_error_map, Hi in Hy. rewrite nth_error_map, Hj in Hy'. cbn in Hy, Hy'.
    injection Hy as <-. injection Hy' as <-. apply clipR_mono; assumption.
Qed.

(* ---- the omitted parameter ------------------------------------------------------------------------ *)
Definition wdefault (m : wmethod) : R := match m with WQuantile => 1 / 100 | _ => 3 end.
Theorem winsorize_default (m : wmethod) (xs : list XR) :
  winsorize (DT := IsNoneXR) m None xs = winsorize (DT := IsNoneXR) m (Some (Some (wdefault m))) xs.
Proof.
  assert (H1 : lit_001 (A := XR) = Some (1 / 100)).
  { unfold lit_001. change (@none XR NumXR) with (Some 1). change (@nofZ XR NumXR 100%Z) with (Some 100).
    rewrite xdiv_some by lra. reflexivity. }
  destruct m; unfold winsorize, wdefault; rewrite ?H1; reflexivity.
Qed.

(* ---- all three methods at once: inside the quantifier of the property winsorize IS one clip ---------- *)
Definition wparam_in_scope (m : wmethod) (p : R) : Prop :=
  match m with WQuantile => 0 <= p <= 1 / 2 | _ => 0 <= p end.

Theorem winsorize_acts_as_clip (m : wmethod) (p : R) (xs : list XR) :
  wparam_in_scope m p ->
  exists r, winsorize (DT := IsNoneXR) m (Some (Some p)) xs = Ok (Some r) /\
            (r = xs \/ exists lo hi, lo <= hi /\ r = clip_series lo hi xs).
Proof.
  intros Hp.
  destruct (sorted_exists false (valid xs)) as (s & Hs & HP).
  destruct (list_eq_dec Req_EM_T (valid xs) []) as [Hv|Hv].
  { exists xs. split; [|left; reflexivity]. destruct m.
    - apply winsorize_quantile_all_null; [cbn in Hp; lra|exact Hv].
    - apply winsorize_median_all_null. exact Hv.
    - rewrite winsorize_sigma, Hv. reflexivity. }
  assert (Hne : s <> []).
  { intros ->. apply Permutation_nil in HP. contradiction. }
  destruct m.
  - cbn in Hp. eexists. split; [apply (winsorize_quantile xs p s); try assumption; lra|].
    right. do 2 eexists. split; [|reflexivity]. apply quantile_bounds_ordered; assumption.
  - cbn in Hp. set (med := quantile_spec s (1 / 2) Linear).
    destruct (sorted_exists false (map (fun x => Rabs (x - med)) (valid xs))) as (s' & Hs' & HP').
    eexists. split; [apply (winsorize_median xs p s s'); assumption|].
    right. do 2 eexists. split; [|reflexivity]. apply median_bounds_ordered; [|exact Hp].
    apply (mad_nonneg s' (valid xs) med); try assumption.
    intros ->. apply Permutation_nil in HP'. apply map_eq_nil in HP'. contradiction.
  - cbn in Hp. eexists. split; [apply winsorize_sigma|].
    destruct (length (valid xs) <? 2)%nat; [left; reflexivity|].
    destruct (Rle_dec (popvarR (valid xs)) EPS); [left; reflexivity|].
    right. do 2 eexists. split; [|reflexivity]. apply sigma_bounds_ordered. exact Hp.
Qed.
