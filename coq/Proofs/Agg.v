(* Proofs/Agg.v — C11 assembled: every aggregation of Model/Agg.v equals its textbook definition over
   the non-null elements, is null exactly below the required number of observations, and the symmetric
   ones are permutation invariant.  Generic in the element type (inner type A, null dictionary DT, cast
   tof : A -> XR); instantiated for float-like (f64/f32, Option<f64>) and integer (i32/i64, Option<i32>)
   series at the end.                                                                                    *)
From Coq Require Import Reals Lra Lia List Permutation Bool ZArith.
From Tevec Require Import Base.Prelude Base.Num Base.XR Spec.Stats Spec.Stats2 Model.Agg
     Proofs.AggGeneric Proofs.AggOrder Proofs.AggXR.
Import ListNotations.
Local Open Scope R_scope.
Set Implicit Arguments.

Lemma ltb_max_true n mp k : (n <? Nat.max mp k)%nat = true <-> (n < Nat.max mp k)%nat.
Proof. apply Nat.ltb_lt. Qed.

(* ---- single series --------------------------------------------------------------------------------- *)
Section Single.
  Context {A : Type} {NA : Num A} {T : Type} {DT : IsNone T A}.
  Variable tof : A -> XR.
  Local Notation V xs := (rvals tof xs).
  Local Notation n xs := (nvalid tof xs).

  Theorem vmean_var_textbook mp xs :
    canonical tof xs ->
    vmean_var tof mp xs =
    if (n xs <? mp)%nat then (None, None)
    else if (n xs =? 0)%nat then (None, None)
    else if (n xs <? 2)%nat then (Some (meanR (V xs)), None)
    else if Rle_dec (popvarR (V xs)) EPS then (Some (meanR (V xs)), Some 0)
    else (Some (meanR (V xs)), Some (samplevarR (V xs))).
  Proof. intros H. apply vmean_var_closed, vals_rvals, H. Qed.

  Theorem vvar_textbook mp xs :
    canonical tof xs ->
    vvar tof mp xs =
    if (n xs <? Nat.max mp 2)%nat then None
    else if Rle_dec (popvarR (V xs)) EPS then Some 0 else Some (samplevarR (V xs)).
  Proof. intros H. apply vvar_closed, vals_rvals, H. Qed.

  Theorem vstd_textbook mp xs :
    canonical tof xs ->
    vstd tof mp xs =
    if (n xs <? Nat.max mp 2)%nat then None
    else if Rle_dec (popvarR (V xs)) EPS then Some 0 else Some (samplestdR (V xs)).
  Proof. intros H. apply vstd_closed, vals_rvals, H. Qed.

  Theorem vskew_textbook mp xs :
    canonical tof xs ->
    vskew tof mp xs =
    if (n xs <? Nat.max mp 3)%nat then None
    else if Rle_dec (popvarR (V xs)) EPS then Some 0 else Some (skewR (V xs)).
  Proof. intros H. apply vskew_closed, vals_rvals, H. Qed.

  Theorem vkurt_textbook mp xs :
    canonical tof xs ->
    vkurt tof mp xs =
    if (n xs <? Nat.max mp 4)%nat then None
    else if Rle_dec (popvarR (V xs)) EPS then Some 0 else Some (kurtR (V xs)).
  Proof. intros H. apply vkurt_closed, vals_rvals, H. Qed.

  (* nullness: exactly below max(min_periods, intrinsic minimum) *)
  Theorem vvar_null mp xs : canonical tof xs -> (vvar tof mp xs = None <-> (n xs < Nat.max mp 2)%nat).
  Proof.
    intros H. rewrite (vvar_textbook mp H), <- ltb_max_true.
    destruct (n xs <? Nat.max mp 2)%nat; [tauto|].
    destruct (Rle_dec _ _); split; intros; discriminate.
  Qed.
  Theorem vstd_null mp xs : canonical tof xs -> (vstd tof mp xs = None <-> (n xs < Nat.max mp 2)%nat).
  Proof.
    intros H. rewrite (vstd_textbook mp H), <- ltb_max_true.
    destruct (n xs <? Nat.max mp 2)%nat; [tauto|].
    destruct (Rle_dec _ _); split; intros; discriminate.
  Qed.
  Theorem vskew_null mp xs : canonical tof xs -> (vskew tof mp xs = None <-> (n xs < Nat.max mp 3)%nat).
  Proof.
    intros H. rewrite (vskew_textbook mp H), <- ltb_max_true.
    destruct (n xs <? Nat.max mp 3)%nat; [tauto|].
    destruct (Rle_dec _ _); split; intros; discriminate.
  Qed.
  Theorem vkurt_null mp xs : canonical tof xs -> (vkurt tof mp xs = None <-> (n xs < Nat.max mp 4)%nat).
  Proof.
    intros H. rewrite (vkurt_textbook mp H), <- ltb_max_true.
    destruct (n xs <? Nat.max mp 4)%nat; [tauto|].
    destruct (Rle_dec _ _); split; intros; discriminate.
  Qed.

  (* permutation invariance *)
  Section Perm.
    Variables xs ys : list T.
    Hypothesis HP : Permutation xs ys.
    Hypothesis H : canonical tof xs.
    Let H' : canonical tof ys := canonical_perm HP H.
    Let HR : Permutation (V xs) (V ys) := rvals_perm tof HP.

    Theorem vvar_perm mp : vvar tof mp xs = vvar tof mp ys.
    Proof.
      rewrite (vvar_textbook mp H), (vvar_textbook mp H'). unfold nvalid.
      rewrite (Permutation_length HR), (popvarR_perm HR), (samplevarR_perm HR). reflexivity.
    Qed.
    Theorem vstd_perm mp : vstd tof mp xs = vstd tof mp ys.
    Proof. unfold vstd. rewrite vvar_perm. reflexivity. Qed.
    Theorem vmean_var_perm mp : vmean_var tof mp xs = vmean_var tof mp ys.
    Proof.
      rewrite (vmean_var_textbook mp H), (vmean_var_textbook mp H'). unfold nvalid.
      rewrite (Permutation_length HR), (popvarR_perm HR), (samplevarR_perm HR), (meanR_perm HR). reflexivity.
    Qed.
    Theorem vskew_perm mp : vskew tof mp xs = vskew tof mp ys.
    Proof.
      rewrite (vskew_textbook mp H), (vskew_textbook mp H'). unfold nvalid.
      rewrite (Permutation_length HR), (popvarR_perm HR), (skewR_perm HR). reflexivity.
    Qed.
    Theorem vkurt_perm mp : vkurt tof mp xs = vkurt tof mp ys.
    Proof.
      rewrite (vkurt_textbook mp H), (vkurt_textbook mp H'). unfold nvalid.
      rewrite (Permutation_length HR), (popvarR_perm HR), (kurtR_perm HR). reflexivity.
    Qed.
  End Perm.

  (* ---- vmean and the masked mean: the sum is accumulated in the inner type; `sum_hom` says the cast of
     that sum is the real sum (instantiated below: trivial for floats, IZR morphism for integers) ---- *)
  Hypothesis sum_hom : forall xs : list T, canonical tof xs ->
    tof (fold_left (fun acc x : A => nadd acc x) (vals xs) nzero) = Some (sumR (V xs)).

  Theorem vmean_textbook xs :
    canonical tof xs -> vmean tof xs = if (n xs =? 0)%nat then None else Some (meanR (V xs)).
  Proof. intros H. apply vmean_closed; [apply vals_rvals, H|apply sum_hom, H]. Qed.

  Theorem vmean_null xs : canonical tof xs -> (vmean tof xs = None <-> (n xs < 1)%nat).
  Proof.
    intros H. rewrite (vmean_textbook H). destruct (n xs =? 0)%nat eqn:E.
    - apply Nat.eqb_eq in E. split; [lia|reflexivity].
    - apply Nat.eqb_neq in E. split; [discriminate|lia].
  Qed.

  Theorem vmean_perm xs ys : Permutation xs ys -> canonical tof xs -> vmean tof xs = vmean tof ys.
  Proof.
    intros HP H. rewrite (vmean_textbook H), (vmean_textbook (canonical_perm HP H)). unfold nvalid.
    pose proof (rvals_perm tof HP) as HR. rewrite (Permutation_length HR), (meanR_perm HR). reflexivity.
  Qed.

  Context {U : Type} {DU : IsNone U bool}.
  Lemma mask_filter_In (xs : list T) (mask : list U) v : In v (mask_filter xs mask) -> In v xs.
  Proof.
    rewrite mask_filter_spec. intros Hv. apply in_map_iff in Hv. destruct Hv as ([a f] & <- & Hin).
    apply filter_In in Hin. destruct Hin as [Hin _]. eapply in_combine_l; exact Hin.
  Qed.
  Lemma canonical_mask_filter (xs : list T) (mask : list U) : canonical tof xs -> canonical tof (mask_filter xs mask).
  Proof. intros H v Hv. apply H. eapply mask_filter_In; exact Hv. Qed.

  (* masked mean = mean of the selected valid elements; null below min_periods or when nothing is selected *)
  Theorem vmean_filter_textbook mp (xs : list T) (mask : list U) :
    canonical tof xs ->
    let W := V (mask_filter xs mask) in
    vmean_filter tof mp xs mask =
    if (mp <=? length W)%nat then (if (length W =? 0)%nat then None else Some (meanR W)) else None.
  Proof.
    intros H W. pose proof (canonical_mask_filter mask H) as Hm.
    unfold vmean_filter, n_vsum_filter. rewrite vfold_n_spec. cbn [fst snd].
    rewrite (sum_hom Hm). fold W.
    assert (L : length (vals (mask_filter xs mask)) = length W).
    { rewrite <- (map_length tof), (vals_rvals Hm), map_length. reflexivity. }
    rewrite L. destruct (mp <=? length W)%nat; [|reflexivity].
    rewrite xofnat. destruct (length W =? 0)%nat eqn:E.
    - apply Nat.eqb_eq in E. rewrite E. cbn [INR]. cbn. destruct (Req_EM_T 0 0); [reflexivity|contradiction].
    - apply Nat.eqb_neq in E. rewrite xdiv_some by (apply not_0_INR; exact E). reflexivity.
  Qed.
End Single.

(* ---- the two instantiations of `sum_hom` -------------------------------------------------------------- *)
Lemma sum_hom_float {T} {DT : IsNone T XR} (xs : list T) :
  canonical idX xs ->
  idX (fold_left (fun acc x : XR => nadd acc x) (vals xs) nzero) = Some (sumR (rvals idX xs)).
Proof.
  intros H. pose proof (vals_rvals H) as HV. rewrite map_id in HV. rewrite HV.
  change (@nzero XR NumXR) with (Some 0). rewrite fold_add_some, Rplus_0_l. reflexivity.
Qed.

Definition sumZ (l : list Z) : Z := fold_right Z.add 0%Z l.
Lemma fold_left_Zadd l a : fold_left (fun acc x : Z => @nadd Z AggNumZ acc x) l a = (a + sumZ l)%Z.
Proof.
  revert a. induction l as [|x l IH]; intros a; cbn [fold_left sumZ fold_right]; [lia|].
  rewrite IH. cbn [nadd AggNumZ]. fold (sumZ l). lia.
Qed.
Lemma rvals_int {T} {DT : IsNone T Z} (xs : list T) : rvals zR xs = map IZR (vals xs).
Proof.
  induction xs as [|v xs IH]; [reflexivity|]. rewrite vals_cons. cbn [rvals flat_map]. fold (rvals zR xs).
  rewrite IH. destruct (not_none v); reflexivity.
Qed.
Lemma sumR_IZR l : sumR (map IZR l) = IZR (sumZ l).
Proof.
  induction l as [|x l IH]; [reflexivity|]. cbn [map sumZ fold_right]. fold (sumZ l).
  rewrite sumR_cons, IH, plus_IZR. reflexivity.
Qed.
Lemma sum_hom_int {T} {DT : IsNone T Z} (xs : list T) :
  canonical zR xs ->
  zR (fold_left (fun acc x : Z => @nadd Z AggNumZ acc x) (vals xs) (@nzero Z AggNumZ)) = Some (sumR (rvals zR xs)).
Proof.
  intros _. rewrite fold_left_Zadd, rvals_int, sumR_IZR. unfold zR. cbn [nzero AggNumZ]. reflexivity.
Qed.

(* vsum: float-like and integer carriers *)
Theorem vsum_textbook_float {T} {DT : IsNone T XR} (xs : list T) :
  canonical idX xs ->
  vsum xs = if (nvalid idX xs =? 0)%nat then None else Some (Some (sumR (rvals idX xs))).
Proof.
  intros H. pose proof (vals_rvals H) as HV. rewrite map_id in HV.
  unfold vsum, nvalid. rewrite vfold_n_spec, HV, map_length. cbn [fst snd].
  change (@nzero XR NumXR) with (Some 0). rewrite fold_add_some, Rplus_0_l.
  destruct (length (rvals idX xs)); reflexivity.
Qed.
Theorem vsum_textbook_int {T} {DT : IsNone T Z} (xs : list T) :
  vsum (NA := AggNumZ) xs = if (length (vals xs) =? 0)%nat then None else Some (sumZ (vals xs)).
Proof.
  unfold vsum. rewrite vfold_n_spec. cbn [fst snd]. rewrite fold_left_Zadd. cbn [nzero AggNumZ].
  destruct (length (vals xs)); reflexivity.
Qed.
Theorem vsum_perm_float {T} {DT : IsNone T XR} (xs ys : list T) :
  Permutation xs ys -> canonical idX xs -> vsum xs = vsum ys.
Proof.
  intros HP H. rewrite (vsum_textbook_float H), (vsum_textbook_float (canonical_perm HP H)). unfold nvalid.
  pose proof (rvals_perm idX HP) as HR. rewrite (Permutation_length HR), (sumR_perm HR). reflexivity.
Qed.
Lemma sumZ_perm l1 l2 : Permutation l1 l2 -> sumZ l1 = sumZ l2.
Proof.
  induction 1 as [|x l l' _ IH|x y l|l l' l'' _ IH1 _ IH2]; unfold sumZ in *; cbn [fold_right]; lia.
Qed.
Theorem vsum_perm_int {T} {DT : IsNone T Z} (xs ys : list T) :
  Permutation xs ys -> vsum (NA := AggNumZ) xs = vsum (NA := AggNumZ) ys.
Proof.
  intros HP. rewrite !vsum_textbook_int. pose proof (vals_perm HP) as HV.
  rewrite (Permutation_length HV), (sumZ_perm HV). reflexivity.
Qed.

(* ---- two series ------------------------------------------------------------------------------------------ *)
Section Two.
  Context {A : Type} {T T2 : Type} {DT : IsNone T A} {DT2 : IsNone T2 A}.
  Variable tof : A -> XR.
  Local Notation P xs ys := (rpairs tof xs ys).

  Theorem vcov_textbook mp (xs : list T) (ys : list T2) :
    canonical tof xs -> canonical tof ys ->
    vcov tof mp xs ys = if (length (P xs ys) <? Nat.max mp 2)%nat then None else Some (samplecovR (P xs ys)).
  Proof. intros Hx Hy. apply vcov_closed; assumption. Qed.

  Theorem vcorr_textbook mp (xs : list T) (ys : list T2) :
    canonical tof xs -> canonical tof ys ->
    vcorr_pearson tof mp xs ys =
    if (length (P xs ys) <? Nat.max mp 2)%nat then None
    else if Rlt_dec EPS (popvarR (xs_of (P xs ys))) then
           (if Rlt_dec EPS (popvarR (ys_of (P xs ys))) then Some (corrR (P xs ys)) else None)
         else None.
  Proof. intros Hx Hy. apply vcorr_closed; assumption. Qed.

  Theorem vcov_null mp (xs : list T) (ys : list T2) :
    canonical tof xs -> canonical tof ys ->
    (vcov tof mp xs ys = None <-> (length (P xs ys) < Nat.max mp 2)%nat).
  Proof.
    intros Hx Hy. rewrite (vcov_textbook mp Hx Hy), <- Nat.ltb_lt.
    destruct (length (P xs ys) <? Nat.max mp 2)%nat; [tauto|]. split; intros; discriminate.
  Qed.

  (* null exactly when too few complete pairs or (DESIGN 5.6) one side has no spread above the EPS floor *)
  Theorem vcorr_null mp (xs : list T) (ys : list T2) :
    canonical tof xs -> canonical tof ys ->
    (vcorr_pearson tof mp xs ys = None <->
     (length (P xs ys) < Nat.max mp 2)%nat \/ ~ EPS < popvarR (xs_of (P xs ys)) \/ ~ EPS < popvarR (ys_of (P xs ys))).
  Proof.
    intros Hx Hy. rewrite (vcorr_textbook mp Hx Hy).
    destruct (length (P xs ys) <? Nat.max mp 2)%nat eqn:E.
    - apply Nat.ltb_lt in E. tauto.
    - apply Nat.ltb_ge in E. destruct (Rlt_dec _ _) as [Ga|Ga]; [destruct (Rlt_dec _ _) as [Gb|Gb]|].
      + split; [discriminate|]. intros [L|[L|L]]; [lia|contradiction|contradiction].
      + tauto.
      + tauto.
  Qed.

  (* permuting the observation pairs together leaves both unchanged *)
  Theorem vcov_perm mp (xs xs' : list T) (ys ys' : list T2) :
    Permutation (combine xs ys) (combine xs' ys') ->
    canonical tof xs -> canonical tof ys -> canonical tof xs' -> canonical tof ys' ->
    vcov tof mp xs ys = vcov tof mp xs' ys'.
  Proof.
    intros HP Hx Hy Hx' Hy'. rewrite (vcov_textbook mp Hx Hy), (vcov_textbook mp Hx' Hy').
    pose proof (rp_perm tof HP) as HR. fold (rpairs tof xs ys) (rpairs tof xs' ys') in HR.
    rewrite (Permutation_length HR), (samplecovR_perm HR). reflexivity.
  Qed.
  Theorem vcorr_perm mp (xs xs' : list T) (ys ys' : list T2) :
    Permutation (combine xs ys) (combine xs' ys') ->
    canonical tof xs -> canonical tof ys -> canonical tof xs' -> canonical tof ys' ->
    vcorr_pearson tof mp xs ys = vcorr_pearson tof mp xs' ys'.
  Proof.
    intros HP Hx Hy Hx' Hy'. rewrite (vcorr_textbook mp Hx Hy), (vcorr_textbook mp Hx' Hy').
    pose proof (rp_perm tof HP) as HR. fold (rpairs tof xs ys) (rpairs tof xs' ys') in HR.
    rewrite (Permutation_length HR), (corrR_perm HR). unfold xs_of, ys_of.
    rewrite (popvarR_perm (Permutation_map fst HR)), (popvarR_perm (Permutation_map snd HR)). reflexivity.
  Qed.
End Two.

(* ---- the EPS floor is a rounding device: where it applies the textbook variance is at most 2 EPS ---- *)
Lemma agg_eps_floor_bounded (V : list R) :
  (2 <= length V)%nat -> popvarR V <= EPS -> samplevarR V <= 2 * EPS.
Proof.
  intros Hn Hle. unfold popvarR, cmom, samplevarR, nR in *.
  set (D := devsum 2 (meanR V) V) in *. set (m := INR (length V)) in *.
  assert (Hm : 2 <= m) by (apply (le_INR 2); exact Hn).
  assert (HD : 0 <= D) by apply devsum2_nonneg.
  assert (D <= EPS * m).
  { apply (Rmult_le_compat_r m) in Hle; [|lra]. unfold Rdiv in Hle.
    rewrite Rmult_assoc, Rinv_l, Rmult_1_r in Hle by lra. exact Hle. }
  apply (Rmult_le_reg_r (m - 1)); [lra|]. unfold Rdiv. rewrite Rmult_assoc, Rinv_l, Rmult_1_r by lra.
  pose proof EPS_pos. nra.
Qed.

(* ---- order instances: reals inside XR, integers ---------------------------------------------------------- *)
Definition okX (a : XR) : Prop := a <> None.
Lemma xlt_irrefl a : okX a -> nltb a a = false.
Proof. destruct a as [r|]; [|reflexivity]. intros _. apply xltb_false. lra. Qed.
Lemma xlt_trans a b c : okX a -> okX b -> okX c -> nltb a b = true -> nltb b c = true -> nltb a c = true.
Proof.
  destruct a as [x|], b as [y|], c as [z|]; try discriminate; intros _ _ _.
  cbn [nltb NumXR xltb]. destruct (Rlt_dec x y), (Rlt_dec y z); try discriminate. intros _ _.
  destruct (Rlt_dec x z); [reflexivity|lra].
Qed.
Lemma xlt_total a b : okX a -> okX b -> nltb a b = false -> nltb b a = false -> a = b.
Proof.
  destruct a as [x|], b as [y|]; intros Ha Hb; try (exfalso; apply Ha; reflexivity); try (exfalso; apply Hb; reflexivity).
  cbn [nltb NumXR xltb]. destruct (Rlt_dec x y), (Rlt_dec y x); try discriminate. intros _ _. f_equal. lra.
Qed.

Definition okZ (a : Z) : Prop := True.
Lemma zlt_irrefl a : okZ a -> @nltb Z AggNumZ a a = false.
Proof. intros _. apply Z.ltb_irrefl. Qed.
Lemma zlt_trans a b c : okZ a -> okZ b -> okZ c ->
  @nltb Z AggNumZ a b = true -> @nltb Z AggNumZ b c = true -> @nltb Z AggNumZ a c = true.
Proof. intros _ _ _. cbn [nltb AggNumZ]. rewrite !Z.ltb_lt. lia. Qed.
Lemma zlt_total a b : okZ a -> okZ b -> @nltb Z AggNumZ a b = false -> @nltb Z AggNumZ b a = false -> a = b.
Proof. intros _ _. cbn [nltb AggNumZ]. rewrite !Z.ltb_ge. lia. Qed.

(* the flipped orders (for max / argmax) *)
Lemma xgt_irrefl a : okX a -> @nltb XR (NumFlip NumXR) a a = false.
Proof. apply xlt_irrefl. Qed.
Lemma xgt_trans a b c : okX a -> okX b -> okX c ->
  @nltb XR (NumFlip NumXR) a b = true -> @nltb XR (NumFlip NumXR) b c = true -> @nltb XR (NumFlip NumXR) a c = true.
Proof. intros Ha Hb Hc H1 H2. cbn [nltb NumFlip] in *. eapply xlt_trans; [exact Hc|exact Hb|exact Ha|exact H2|exact H1]. Qed.
Lemma xgt_total a b : okX a -> okX b ->
  @nltb XR (NumFlip NumXR) a b = false -> @nltb XR (NumFlip NumXR) b a = false -> a = b.
Proof. intros Ha Hb H1 H2. cbn [nltb NumFlip] in *. apply xlt_total; assumption. Qed.
Lemma zgt_irrefl a : okZ a -> @nltb Z (NumFlip AggNumZ) a a = false.
Proof. apply zlt_irrefl. Qed.
Lemma zgt_trans a b c : okZ a -> okZ b -> okZ c ->
  @nltb Z (NumFlip AggNumZ) a b = true -> @nltb Z (NumFlip AggNumZ) b c = true -> @nltb Z (NumFlip AggNumZ) a c = true.
Proof. intros Ha Hb Hc H1 H2. cbn [nltb NumFlip] in *. eapply zlt_trans; [exact Hc|exact Hb|exact Ha|exact H2|exact H1]. Qed.
Lemma zgt_total a b : okZ a -> okZ b ->
  @nltb Z (NumFlip AggNumZ) a b = false -> @nltb Z (NumFlip AggNumZ) b a = false -> a = b.
Proof. intros Ha Hb H1 H2. cbn [nltb NumFlip] in *. apply zlt_total; assumption. Qed.

(* canonical nulls give all_ok for the real order *)
Lemma all_ok_canonical {T} {DT : IsNone T XR} (xs : list T) : canonical idX xs -> all_ok okX xs.
Proof. intros H v Hv Hn. exact (H v Hv Hn). Qed.
Lemma all_ok_int {T} {DT : IsNone T Z} (xs : list T) : all_ok okZ xs.
Proof. intros v _ _. exact I. Qed.

(* ---- extrema and arg-extrema, restated over the reals (f64 series, NaN null) ---------------------------- *)
Lemma vals_float (xs : list XR) : vals (DT := IsNoneXR) xs = map Some (valid xs).
Proof.
  pose proof (vals_rvals (canonical_float xs)) as H. rewrite map_id, rvals_float in H. exact H.
Qed.
Lemma le_real (r x : R) : le (NA := NumXR) (Some r) (Some x) <-> r <= x.
Proof.
  unfold le. cbn [nltb NumXR xltb]. destruct (Rlt_dec x r); split; intros; try discriminate; try reflexivity; lra.
Qed.
Lemma ge_real (r x : R) : le (NA := NumFlip NumXR) (Some r) (Some x) <-> x <= r.
Proof.
  unfold le. cbn [nltb NumFlip NumXR xltb]. destruct (Rlt_dec r x); split; intros; try discriminate; try reflexivity; lra.
Qed.

Theorem vmin_float (xs : list XR) :
  match vmin (DT := IsNoneXR) xs with
  | None => valid xs = []
  | Some m => exists r, m = Some r /\ In r (valid xs) /\ forall x, In x (valid xs) -> r <= x
  end.
Proof.
  pose proof (vmin_spec xlt_irrefl xlt_trans xlt_total (all_ok_canonical (canonical_float xs))) as H.
  rewrite vals_float in H. destruct (vmin xs) as [m|].
  - destruct H as [Hin Hall]. apply in_map_iff in Hin. destruct Hin as (r & <- & Hr). exists r.
    split; [reflexivity|]. split; [exact Hr|].
    intros x Hx. apply le_real, Hall, in_map, Hx.
  - destruct (valid xs); [reflexivity|discriminate].
Qed.
Theorem vmax_float (xs : list XR) :
  match vmax (DT := IsNoneXR) xs with
  | None => valid xs = []
  | Some m => exists r, m = Some r /\ In r (valid xs) /\ forall x, In x (valid xs) -> x <= r
  end.
Proof.
  rewrite vmax_flip.
  pose proof (vmin_spec (NA := NumFlip NumXR) xgt_irrefl xgt_trans xgt_total
                (all_ok_canonical (canonical_float xs))) as H.
  rewrite vals_float in H. destruct (vmin xs) as [m|].
  - destruct H as [Hin Hall]. apply in_map_iff in Hin. destruct Hin as (r & <- & Hr). exists r.
    split; [reflexivity|]. split; [exact Hr|].
    intros x Hx. apply ge_real, Hall, in_map, Hx.
  - destruct (valid xs); [reflexivity|discriminate].
Qed.

Theorem vargmin_float (xs : list XR) :
  match vargmin (DT := IsNoneXR) xs with
  | None => valid xs = []
  | Some i => exists r, nth_error xs i = Some (Some r) /\
      (forall j x, nth_error xs j = Some (Some x) -> r <= x) /\
      (forall j x, (j < i)%nat -> nth_error xs j = Some (Some x) -> r < x)
  end.
Proof.
  pose proof (vargmin_spec xlt_irrefl xlt_trans xlt_total (all_ok_canonical (canonical_float xs))) as H.
  destruct (vargmin xs) as [i|].
  - destruct H as (v & Hv & Hn & Hall & Hbefore). destruct v as [r|]; [|discriminate Hn]. exists r.
    split; [exact Hv|]. split.
    + intros j x Hj. apply le_real. exact (Hall j (Some x) Hj eq_refl).
    + intros j x Hlt Hj. pose proof (Hbefore j (Some x) Hlt Hj eq_refl) as L.
      cbn [unwrap IsNoneXR IsNone_float nltb NumXR xltb] in L. destruct (Rlt_dec r x); [assumption|discriminate].
  - rewrite vals_float in H. destruct (valid xs); [reflexivity|discriminate].
Qed.
Theorem vargmax_float (xs : list XR) :
  match vargmax (DT := IsNoneXR) xs with
  | None => valid xs = []
  | Some i => exists r, nth_error xs i = Some (Some r) /\
      (forall j x, nth_error xs j = Some (Some x) -> x <= r) /\
      (forall j x, (j < i)%nat -> nth_error xs j = Some (Some x) -> x < r)
  end.
Proof.
  rewrite vargmax_flip.
  pose proof (vargmin_spec (NA := NumFlip NumXR) xgt_irrefl xgt_trans xgt_total
                (all_ok_canonical (canonical_float xs))) as H.
  destruct (vargmin xs) as [i|].
  - destruct H as (v & Hv & Hn & Hall & Hbefore). destruct v as [r|]; [|discriminate Hn]. exists r.
    split; [exact Hv|]. split.
    + intros j x Hj. apply ge_real. exact (Hall j (Some x) Hj eq_refl).
    + intros j x Hlt Hj. pose proof (Hbefore j (Some x) Hlt Hj eq_refl) as L.
      cbn [unwrap IsNoneXR IsNone_float nltb NumFlip NumXR xltb] in L. destruct (Rlt_dec x r); [assumption|discriminate].
  - rewrite vals_float in H. destruct (valid xs); [reflexivity|discriminate].
Qed.

(* ---- the same over the integers, any null dictionary (i32 / i64 never null, Option<i32>) ------------------ *)
Section IntOrder.
  Context {T : Type} {DT : IsNone T Z}.
  Local Open Scope Z_scope.

  Theorem vmin_int (xs : list T) :
    match vmin (NA := AggNumZ) xs with
    | None => vals xs = []
    | Some m => In m (vals xs) /\ forall x, In x (vals xs) -> m <= x
    end.
  Proof.
    pose proof (vmin_spec (NA := AggNumZ) zlt_irrefl zlt_trans zlt_total (all_ok_int xs)) as H.
    destruct (vmin xs) as [m|]; [|exact H]. destruct H as [Hin Hall]. split; [exact Hin|].
    intros x Hx. specialize (Hall x Hx). unfold le in Hall. cbn [nltb AggNumZ] in Hall.
    apply Z.ltb_ge in Hall. exact Hall.
  Qed.
  Theorem vmax_int (xs : list T) :
    match vmax (NA := AggNumZ) xs with
    | None => vals xs = []
    | Some m => In m (vals xs) /\ forall x, In x (vals xs) -> x <= m
    end.
  Proof.
    rewrite vmax_flip.
    pose proof (vmin_spec (NA := NumFlip AggNumZ) zgt_irrefl zgt_trans zgt_total (all_ok_int xs)) as H.
    destruct (vmin xs) as [m|]; [|exact H]. destruct H as [Hin Hall]. split; [exact Hin|].
    intros x Hx. specialize (Hall x Hx). unfold le in Hall. cbn [nltb NumFlip AggNumZ] in Hall.
    apply Z.ltb_ge in Hall. exact Hall.
  Qed.
  Theorem vargmin_int (xs : list T) :
    match vargmin (NA := AggNumZ) xs with
    | None => vals xs = []
    | Some i => exists v, nth_error xs i = Some v /\ not_none v = true /\
        (forall j w, nth_error xs j = Some w -> not_none w = true -> unwrap v <= unwrap w) /\
        (forall j w, (j < i)%nat -> nth_error xs j = Some w -> not_none w = true -> unwrap v < unwrap w)
    end.
  Proof.
    pose proof (vargmin_spec (NA := AggNumZ) zlt_irrefl zlt_trans zlt_total (all_ok_int xs)) as H.
    destruct (vargmin xs) as [i|]; [|exact H].
    destruct H as (v & Hv & Hn & Hall & Hbefore). exists v. split; [exact Hv|]. split; [exact Hn|]. split.
    - intros j w Hj Hw. specialize (Hall j w Hj Hw). unfold le in Hall. cbn [nltb AggNumZ] in Hall.
      apply Z.ltb_ge in Hall. exact Hall.
    - intros j w Hlt Hj Hw. specialize (Hbefore j w Hlt Hj Hw). cbn [nltb AggNumZ] in Hbefore.
      apply Z.ltb_lt in Hbefore. exact Hbefore.
  Qed.
  Theorem vargmax_int (xs : list T) :
    match vargmax (NA := AggNumZ) xs with
    | None => vals xs = []
    | Some i => exists v, nth_error xs i = Some v /\ not_none v = true /\
        (forall j w, nth_error xs j = Some w -> not_none w = true -> unwrap w <= unwrap v) /\
        (forall j w, (j < i)%nat -> nth_error xs j = Some w -> not_none w = true -> unwrap w < unwrap v)
    end.
  Proof.
    rewrite vargmax_flip.
    pose proof (vargmin_spec (NA := NumFlip AggNumZ) zgt_irrefl zgt_trans zgt_total (all_ok_int xs)) as H.
    destruct (vargmin xs) as [i|]; [|exact H].
    destruct H as (v & Hv & Hn & Hall & Hbefore). exists v. split; [exact Hv|]. split; [exact Hn|]. split.
    - intros j w Hj Hw. specialize (Hall j w Hj Hw). unfold le in Hall. cbn [nltb NumFlip AggNumZ] in Hall.
      apply Z.ltb_ge in Hall. exact Hall.
    - intros j w Hlt Hj Hw. specialize (Hbefore j w Hlt Hj Hw). cbn [nltb NumFlip AggNumZ] in Hbefore.
      apply Z.ltb_lt in Hbefore. exact Hbefore.
  Qed.
End IntOrder.

(* permutation invariance of the extrema *)
Theorem vmin_perm_float (xs ys : list XR) :
  Permutation xs ys -> vmin (DT := IsNoneXR) xs = vmin (DT := IsNoneXR) ys.
Proof. intros HP. exact (vmin_perm xlt_irrefl xlt_trans xlt_total (all_ok_canonical (canonical_float xs)) HP). Qed.
Theorem vmax_perm_float (xs ys : list XR) :
  Permutation xs ys -> vmax (DT := IsNoneXR) xs = vmax (DT := IsNoneXR) ys.
Proof.
  intros HP. rewrite !vmax_flip.
  exact (vmin_perm (NA := NumFlip NumXR) xgt_irrefl xgt_trans xgt_total (all_ok_canonical (canonical_float xs)) HP).
Qed.
Theorem vmin_perm_int {T} {DT : IsNone T Z} (xs ys : list T) :
  Permutation xs ys -> vmin (NA := AggNumZ) xs = vmin (NA := AggNumZ) ys.
Proof. intros HP. exact (vmin_perm (NA := AggNumZ) zlt_irrefl zlt_trans zlt_total (all_ok_int xs) HP). Qed.
Theorem vmax_perm_int {T} {DT : IsNone T Z} (xs ys : list T) :
  Permutation xs ys -> vmax (NA := AggNumZ) xs = vmax (NA := AggNumZ) ys.
Proof.
  intros HP. rewrite !vmax_flip.
  exact (vmin_perm (NA := NumFlip AggNumZ) zgt_irrefl zgt_trans zgt_total (all_ok_int xs) HP).
Qed.

(* ---- the plain family (AggBasic) on null-free input ---------------------------------------------------- *)
(* sums and means of a list of numbers *)
Theorem plain_sum_float (V : list R) :
  sum (map Some V) = if (length V =? 0)%nat then None else Some (Some (sumR V)).
Proof.
  unfold sum. rewrite n_sum_spec, map_length. cbn [snd].
  change (@nzero XR NumXR) with (Some 0). rewrite fold_add_some, Rplus_0_l. destruct (length V); reflexivity.
Qed.
Theorem plain_mean_float (V : list R) :
  mean idX (map Some V) = if (length V =? 0)%nat then None else Some (Some (meanR V)).
Proof.
  unfold mean. rewrite n_sum_spec, map_length. cbn [fst snd].
  change (@nzero XR NumXR) with (Some 0). rewrite fold_add_some, Rplus_0_l.
  destruct (length V) as [|k] eqn:E; [reflexivity|]. cbn [Nat.leb Nat.eqb].
  rewrite xofnat, xdiv_some by (apply not_0_INR; discriminate). unfold meanR, nR. rewrite E. reflexivity.
Qed.
Theorem plain_sum_int (l : list Z) :
  sum (NA := AggNumZ) l = if (length l =? 0)%nat then None else Some (sumZ l).
Proof.
  unfold sum. rewrite n_sum_spec. cbn [snd]. rewrite fold_left_Zadd. cbn [nzero AggNumZ].
  destruct (length l); reflexivity.
Qed.
Theorem plain_mean_int (l : list Z) :
  mean (NA := AggNumZ) zR l = if (length l =? 0)%nat then None else Some (Some (meanR (map IZR l))).
Proof.
  unfold mean. rewrite n_sum_spec. cbn [fst snd]. rewrite fold_left_Zadd. cbn [nzero AggNumZ].
  destruct (length l) as [|k] eqn:E; [reflexivity|]. cbn [Nat.leb Nat.eqb]. unfold zR.
  rewrite xofnat, xdiv_some by (apply not_0_INR; discriminate).
  unfold meanR, nR. rewrite map_length, E, sumR_IZR. reflexivity.
Qed.

(* AggBasic::argmin on a null-free real series: index of the first minimum *)
Theorem plain_argmin_float (V : list R) :
  match argmin (map Some V) with
  | None => V = []
  | Some i => exists r, nth_error V i = Some r /\
      (forall j x, nth_error V j = Some x -> r <= x) /\
      (forall j x, (j < i)%nat -> nth_error V j = Some x -> r < x)
  end.
Proof.
  assert (Hok : Forall okX (map Some V)).
  { apply Forall_forall. intros a Ha. apply in_map_iff in Ha. destruct Ha as (r & <- & _). discriminate. }
  pose proof (plain_argmin_spec xlt_irrefl xlt_trans xlt_total Hok) as H.
  destruct (argmin (map Some V)) as [i|].
  - destruct H as (m & Hm & Hall & Hbefore). rewrite nth_error_map in Hm.
    destruct (nth_error V i) as [r|] eqn:Er; [|discriminate]. cbn in Hm. injection Hm as <-.
    exists r. split; [reflexivity|]. split.
    + intros j x Hj. apply le_real. apply (Hall j). rewrite nth_error_map, Hj. reflexivity.
    + intros j x Hlt Hj. assert (L : nltb (Some r) (Some x) = true).
      { apply (Hbefore j); [exact Hlt|]. rewrite nth_error_map, Hj. reflexivity. }
      cbn [nltb NumXR xltb] in L. destruct (Rlt_dec r x); [assumption|discriminate].
  - destruct V; [reflexivity|discriminate].
Qed.

(* AggBasic::min / max on a null-free series *)
Lemma pmax_flip {A} (N : Num A) (l : list A) : pmax (NA := N) l = pmin (NA := NumFlip N) l.
Proof. reflexivity. Qed.
Lemma okX_map_some (V : list R) : Forall okX (map Some V).
Proof. apply Forall_forall. intros a Ha. apply in_map_iff in Ha. destruct Ha as (r & <- & _). discriminate. Qed.
Theorem plain_min_float (V : list R) :
  match pmin (map Some V) with
  | None => V = []
  | Some m => exists r, m = Some r /\ In r V /\ forall x, In x V -> r <= x
  end.
Proof.
  pose proof (pmin_spec xlt_irrefl xlt_trans xlt_total (okX_map_some V)) as H.
  destruct (pmin (map Some V)) as [m|].
  - destruct H as [Hin Hall]. apply in_map_iff in Hin. destruct Hin as (r & <- & Hr). exists r.
    split; [reflexivity|]. split; [exact Hr|]. intros x Hx. apply le_real, Hall, in_map, Hx.
  - destruct V; [reflexivity|discriminate].
Qed.
Theorem plain_max_float (V : list R) :
  match pmax (map Some V) with
  | None => V = []
  | Some m => exists r, m = Some r /\ In r V /\ forall x, In x V -> x <= r
  end.
Proof.
  rewrite pmax_flip.
  pose proof (pmin_spec (NA := NumFlip NumXR) xgt_irrefl xgt_trans xgt_total (okX_map_some V)) as H.
  destruct (pmin (map Some V)) as [m|].
  - destruct H as [Hin Hall]. apply in_map_iff in Hin. destruct Hin as (r & <- & Hr). exists r.
    split; [reflexivity|]. split; [exact Hr|]. intros x Hx. apply ge_real, Hall, in_map, Hx.
  - destruct V; [reflexivity|discriminate].
Qed.
Lemma okZ_all (l : list Z) : Forall okZ l.
Proof. apply Forall_forall. intros a _. exact I. Qed.
Theorem plain_min_max_int (l : list Z) :
  match pmin (NA := AggNumZ) l with
  | None => l = []
  | Some m => In m l /\ forall x, In x l -> (m <= x)%Z
  end /\
  match pmax (NA := AggNumZ) l with
  | None => l = []
  | Some m => In m l /\ forall x, In x l -> (x <= m)%Z
  end.
Proof.
  split.
  - pose proof (pmin_spec (NA := AggNumZ) zlt_irrefl zlt_trans zlt_total (okZ_all l)) as H.
    destruct (pmin l) as [m|]; [|exact H]. destruct H as [Hin Hall]. split; [exact Hin|].
    intros x Hx. specialize (Hall x Hx). unfold le in Hall. cbn [nltb AggNumZ] in Hall. apply Z.ltb_ge in Hall. exact Hall.
  - rewrite pmax_flip.
    pose proof (pmin_spec (NA := NumFlip AggNumZ) zgt_irrefl zgt_trans zgt_total (okZ_all l)) as H.
    destruct (pmin l) as [m|]; [|exact H]. destruct H as [Hin Hall]. split; [exact Hin|].
    intros x Hx. specialize (Hall x Hx). unfold le in Hall. cbn [nltb NumFlip AggNumZ] in Hall.
    apply Z.ltb_ge in Hall. exact Hall.
Qed.
