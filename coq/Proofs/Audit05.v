(* Proofs/Audit05.v — audit of property C05 (notes/C05.md, "Audit matrix").
   (A) huge windows: for every window beyond the series length the drivers pass no removed element / no start
       index, and an explicit min_periods gate `mp' <= n` cannot tell two such windows apart because the count n
       never exceeds the length — so every entry point whose closure uses the window only through the gate gives
       THE SAME OUTCOME for every w > len (in particular w = len + 1, where the correspondence run evaluates the
       model, and w = 2^40 .. usize::MAX, where it runs the code).  Every carrier, both bodies.
   (B) the two-series functions on series of unequal length: the masks on the common prefix.
   (C) "null below min_periods" at EVERY carrier, no order law, for the entry points that had it at ordered
       carriers / option R only: ts_vmin, ts_vmax, ts_vargmin, ts_vargmax, ts_vminmaxnorm, ts_vfdiff.
   (D) min_periods > window.                                                                              *)
From Coq Require Import ZArith Reals Lia List Bool.
From Tevec Require Import Base.Prelude Base.Num Base.XR Spec.Stats Spec.Ols Model.Driver Proofs.Driver
     Model.Features Model.Cmp Model.Norm Model.Binary Model.Reg Model.Fdiff Proofs.Generic Proofs.IdxRun
     Proofs.IdxPrefix Proofs.Kernels3 Proofs.Audit01 Proofs.Audit03 Proofs.Audit04 Proofs.Mask Proofs.Mask2
     Proofs.Mask3.
Import ListNotations.

(* ================================================================================================ *)
(* (A) huge windows                                                                                   *)
(* ================================================================================================ *)
(* two callbacks that agree on the states an indexed invariant allows give the same run *)
Lemma run_ext_inv {St X O} (g1 g2 : St -> X -> St * O) (I : nat -> St -> Prop) (N : nat) :
  (forall k s a, k < N -> I k s -> g1 s a = g2 s a /\ I (S k) (fst (g2 s a))) ->
  forall args k s, k + length args <= N -> I k s -> run g1 s args = run g2 s args.
Proof.
  intros H. induction args as [|a r IH]; intros k s Hk HI; [reflexivity|].
  cbn [run]. cbn [length] in Hk. destruct (H k s a ltac:(lia) HI) as [E HI'].
  rewrite E. destruct (g2 s a) as [s' o]. cbn [fst] in HI'. f_equal. apply (IH (S k)); [lia|exact HI'].
Qed.

(* the same feature under two windows beyond the length: no element is ever removed *)
Lemma ts_run_large_window {T St O} (F : feat T St O) body (w1 w2 : nat) (xs : list T) :
  length xs < w1 -> length xs < w2 -> ts_run F body w1 xs = ts_run F body w2 xs.
Proof.
  intros H1 H2. rewrite !Audit01.ts_run_total, !bad_window_false by lia. do 2 f_equal.
  apply mapi_ext. intros i v Hv. assert (Hi : i < length xs) by (apply nth_error_Some; congruence).
  unfold removed.
  replace (i <? w1 - 1) with true by (symmetry; apply Nat.ltb_lt; lia).
  replace (i <? w2 - 1) with true by (symmetry; apply Nat.ltb_lt; lia). reflexivity.
Qed.

(* beyond the length the window is the whole prefix (the "expanding" statistic) *)
Lemma win_large {T} (w i : nat) (xs : list T) : length xs < w -> i < length xs -> win w i xs = firstn (S i) xs.
Proof. intros Hw Hi. apply Audit01.win_beyond; lia. Qed.

(* two features that differ in the emit function only, a counter that the add step raises by at most one and the
   remove step never raises: emits that agree on counts <= len give the same outcome *)
Section EmitExt.
  Context {T St O : Type}.
  Variables F1 F2 : feat T St O.
  Variable cnt : St -> nat.
  Hypothesis Hinit : f_init F1 = f_init F2.
  Hypothesis Hpre : forall s v, f_pre F1 s v = f_pre F2 s v.
  Hypothesis Hpost : forall s rm, f_post F1 s rm = f_post F2 s rm.
  Hypothesis cnt0 : cnt (f_init F2) = 0.
  Hypothesis cnt_pre : forall s v, cnt (f_pre F2 s v) <= S (cnt s).
  Hypothesis cnt_post : forall s rm, cnt (f_post F2 s rm) <= cnt s.

  Lemma ts_run_emit_ext body (w : nat) (xs : list T) :
    (forall s, cnt s <= length xs -> f_emit F1 s = f_emit F2 s) ->
    ts_run F1 body w xs = ts_run F2 body w xs.
  Proof.
    intros He. rewrite !Audit01.ts_run_total. destruct (bad_window w xs); [reflexivity|]. f_equal.
    rewrite Hinit.
    apply (run_ext_inv (feat_cb F1) (feat_cb F2) (fun k s => cnt s <= k) (length xs)) with (k := 0).
    - intros k s [rm v] Hk HI. unfold feat_cb. cbn [fst snd]. rewrite Hpre, Hpost.
      pose proof (cnt_pre s v) as P1. pose proof (cnt_post (f_pre F2 s v) rm) as P2.
      split; [f_equal; apply He; lia|lia].
    - rewrite mapi_length. lia.
    - rewrite cnt0. lia.
  Qed.
End EmitExt.

(* a min_periods gate: the emit function looks at its threshold only through `m <=? count` *)
Definition gated {St O} (cnt : St -> nat) (emit : nat -> St -> O) : Prop :=
  forall m1 m2 s, (m1 <=? cnt s) = (m2 <=? cnt s) -> emit m1 s = emit m2 s.

(* two windows beyond the length and an explicit min_periods: the effective thresholds differ at most above len *)
Lemma mp_eff_gate_agree (m w1 w2 k len n : nat) :
  len < w1 -> len < w2 -> n <= len -> (mp_eff (Some m) w1 k <=? n) = (mp_eff (Some m) w2 k <=? n).
Proof.
  intros H1 H2 Hn. unfold mp_eff.
  destruct (Nat.leb_spec (Nat.max (Nat.min m w1) k) n), (Nat.leb_spec (Nat.max (Nat.min m w2) k) n);
    try reflexivity; lia.
Qed.

Section HugeFamily.
  Context {T St O : Type}.
  Variable init : St.
  Variable pre : St -> T -> St.
  Variable post : St -> option T -> St.
  Variable cnt : St -> nat.
  Variable emit : nat -> St -> O.
  Hypothesis cnt0 : cnt init = 0.
  Hypothesis cnt_pre : forall s v, cnt (pre s v) <= S (cnt s).
  Hypothesis cnt_post : forall s rm, cnt (post s rm) <= cnt s.
  Hypothesis Hg : gated cnt emit.
  Let F (m : nat) : feat T St O := {| f_init := init; f_pre := pre; f_emit := emit m; f_post := post |}.

  Lemma huge_window_family body (w1 w2 k m : nat) (xs : list T) :
    length xs < w1 -> length xs < w2 ->
    ts_run (F (mp_eff (Some m) w1 k)) body w1 xs = ts_run (F (mp_eff (Some m) w2 k)) body w2 xs.
  Proof.
    intros H1 H2. rewrite (ts_run_large_window _ body w1 w2 xs H1 H2).
    apply (ts_run_emit_ext _ _ cnt); try reflexivity; try assumption.
    intros s Hs. cbn [f_emit F]. apply Hg. apply (mp_eff_gate_agree m w1 w2 k (length xs)); assumption.
  Qed.
End HugeFamily.

(* past the checks a two-series run is the one-series run over the zipped series *)
Lemma ts_run2_as_ts_run {T1 T2 St O} (F : feat (T1 * T2) St O) body (w : nat) (xs : list T1) (ys : list T2) :
  1 <= w ->
  ts_run2 F body w xs ys =
  if body && (length ys <? length xs) then Panicked AssertFail else ts_run F body w (combine xs ys).
Proof.
  intros Hw. unfold ts_run2, ts_run. destruct body; cbn [andb].
  - unfold rolling2_apply_to. destruct (length ys <? length xs); reflexivity.
  - unfold rolling2_apply_default, rolling_apply_default. rewrite !bad_window_false by exact Hw. reflexivity.
Qed.

Section HugeInstances.
  Context {A : Type} {NA : Num A} {T : Type} {DT : IsNone T A}.

  Lemma mom_cnt_pre (s : @mom A) (v : T) : m_n (mom_pre s v) <= S (m_n s).
  Proof. unfold mom_pre. destruct (not_none v); cbn [m_n mom_add]; lia. Qed.
  Lemma mom_cnt_post (s : @mom A) (rm : option T) : m_n (mom_post s rm) <= m_n s.
  Proof. unfold mom_post. destruct rm as [v|]; [|lia]. destruct (not_none v); cbn [m_n mom_sub]; lia. Qed.

  (* any gated emit of the moment accumulator *)
  Lemma huge_window_mom (emit : nat -> @mom A -> A) body (w1 w2 k m : nat) (xs : list T) :
    gated (@m_n A) emit -> length xs < w1 -> length xs < w2 ->
    ts_run (mom_feat (emit (mp_eff (Some m) w1 k))) body w1 xs
    = ts_run (mom_feat (emit (mp_eff (Some m) w2 k))) body w2 xs.
  Proof.
    intros Hg. exact (huge_window_family mom0 mom_pre mom_post (@m_n A) emit eq_refl mom_cnt_pre mom_cnt_post Hg
                                         body w1 w2 k m xs).
  Qed.

  Lemma gated_sum : gated (@m_n A) emit_sum.
  Proof. intros m1 m2 s E. unfold emit_sum. rewrite E. reflexivity. Qed.
  Lemma gated_mean : gated (@m_n A) emit_mean.
  Proof. intros m1 m2 s E. unfold emit_mean. rewrite E. reflexivity. Qed.
  Lemma gated_var : gated (@m_n A) emit_var.
  Proof. intros m1 m2 s E. unfold emit_var. rewrite E. reflexivity. Qed.
  Lemma gated_std : gated (@m_n A) emit_std.
  Proof. intros m1 m2 s E. unfold emit_std. rewrite E. reflexivity. Qed.
  Lemma gated_skew : gated (@m_n A) emit_skew.
  Proof. intros m1 m2 s E. unfold emit_skew. rewrite E. reflexivity. Qed.
  Lemma gated_kurt : gated (@m_n A) emit_kurt.
  Proof. intros m1 m2 s E. unfold emit_kurt. rewrite E. reflexivity. Qed.

  Theorem huge_window_moments body (w1 w2 m : nat) (xs : list T) :
    length xs < w1 -> length xs < w2 ->
    ts_run (ts_vsum_f w1 (Some m)) body w1 xs = ts_run (ts_vsum_f w2 (Some m)) body w2 xs /\
    ts_run (ts_vmean_f w1 (Some m)) body w1 xs = ts_run (ts_vmean_f w2 (Some m)) body w2 xs /\
    ts_run (ts_vvar_f w1 (Some m)) body w1 xs = ts_run (ts_vvar_f w2 (Some m)) body w2 xs /\
    ts_run (ts_vstd_f w1 (Some m)) body w1 xs = ts_run (ts_vstd_f w2 (Some m)) body w2 xs /\
    ts_run (ts_vskew_f w1 (Some m)) body w1 xs = ts_run (ts_vskew_f w2 (Some m)) body w2 xs /\
    ts_run (ts_vkurt_f w1 (Some m)) body w1 xs = ts_run (ts_vkurt_f w2 (Some m)) body w2 xs.
  Proof.
    intros H1 H2. repeat split.
    - apply (huge_window_mom emit_sum); [exact gated_sum|exact H1|exact H2].
    - apply (huge_window_mom emit_mean); [exact gated_mean|exact H1|exact H2].
    - apply (huge_window_mom emit_var); [exact gated_var|exact H1|exact H2].
    - apply (huge_window_mom emit_std); [exact gated_std|exact H1|exact H2].
    - apply (huge_window_mom emit_skew); [exact gated_skew|exact H1|exact H2].
    - apply (huge_window_mom emit_kurt); [exact gated_kurt|exact H1|exact H2].
  Qed.

  (* the linearly weighted mean: its weights 1..n do not depend on the window either *)
  Theorem huge_window_wma body (w1 w2 m : nat) (xs : list T) :
    length xs < w1 -> length xs < w2 ->
    ts_run (ts_vwma_f w1 (Some m)) body w1 xs = ts_run (ts_vwma_f w2 (Some m)) body w2 xs.
  Proof.
    apply (huge_window_family {| w_n := 0; w_sum := nzero; w_xt := nzero |} wma_pre wma_post (@w_n A) wma_emit).
    - reflexivity.
    - intros s v. unfold wma_pre. destruct (not_none v); cbn [w_n]; lia.
    - intros s [v|]; cbn [wma_post]; [|lia]. destruct (not_none v); cbn [w_n]; lia.
    - intros m1 m2 s E. unfold wma_emit. rewrite E. reflexivity.
  Qed.

  Theorem huge_window_zscore body (w1 w2 m : nat) (xs : list T) :
    length xs < w1 -> length xs < w2 ->
    ts_vzscore body w1 (Some m) xs = ts_vzscore body w2 (Some m) xs.
  Proof.
    unfold ts_vzscore.
    apply (huge_window_family zs0 zs_pre zs_post (@z_n A) zs_emit).
    - reflexivity.
    - intros s v. unfold zs_pre. destruct (not_none v); cbn [z_n]; lia.
    - intros s [v|]; cbn [zs_post]; [|lia]. destruct (not_none v); cbn [z_n]; lia.
    - intros m1 m2 s E. unfold zs_emit. destruct (z_cur s); [rewrite E|]; reflexivity.
  Qed.

  (* the five time-trend regressions: any gated emit of the trend accumulator *)
  Lemma huge_window_trend (emit : nat -> @tr_st A -> A) body (w1 w2 m : nat) (xs : list T) :
    gated (@t_n A) emit -> length xs < w1 -> length xs < w2 ->
    ts_run (tr_feat (emit (mp_eff (Some m) w1 0))) body w1 xs
    = ts_run (tr_feat (emit (mp_eff (Some m) w2 0))) body w2 xs.
  Proof.
    intros Hg. apply (huge_window_family tr0 tr_pre tr_post (@t_n A) emit).
    - reflexivity.
    - intros s v. unfold tr_pre. destruct (not_none v); cbn [t_n]; lia.
    - intros s [v|]; cbn [tr_post]; [|lia]. destruct (not_none v); cbn [t_n]; lia.
    - exact Hg.
  Qed.

  Theorem huge_window_trends body (w1 w2 m : nat) (xs : list T) :
    length xs < w1 -> length xs < w2 ->
    ts_run (ts_vreg_f w1 (Some m)) body w1 xs = ts_run (ts_vreg_f w2 (Some m)) body w2 xs /\
    ts_run (ts_vtsf_f w1 (Some m)) body w1 xs = ts_run (ts_vtsf_f w2 (Some m)) body w2 xs /\
    ts_run (ts_vreg_slope_f w1 (Some m)) body w1 xs = ts_run (ts_vreg_slope_f w2 (Some m)) body w2 xs /\
    ts_run (ts_vreg_intercept_f w1 (Some m)) body w1 xs = ts_run (ts_vreg_intercept_f w2 (Some m)) body w2 xs /\
    ts_run (ts_vreg_resid_mean_f w1 (Some m)) body w1 xs = ts_run (ts_vreg_resid_mean_f w2 (Some m)) body w2 xs.
  Proof.
    intros H1 H2. repeat split.
    - apply (huge_window_trend emit_reg); [|exact H1|exact H2]. intros m1 m2 s E. unfold emit_reg. rewrite E. reflexivity.
    - apply (huge_window_trend emit_tsf); [|exact H1|exact H2]. intros m1 m2 s E. unfold emit_tsf. rewrite E. reflexivity.
    - apply (huge_window_trend emit_slope); [|exact H1|exact H2]. intros m1 m2 s E. unfold emit_slope. rewrite E. reflexivity.
    - apply (huge_window_trend emit_intercept); [|exact H1|exact H2].
      intros m1 m2 s E. unfold emit_intercept. rewrite E. reflexivity.
    - apply (huge_window_trend emit_resid_mean); [|exact H1|exact H2].
      intros m1 m2 s E. unfold emit_resid_mean. rewrite E. reflexivity.
  Qed.
End HugeInstances.

(* the two-series cross-sum family: cov, corr, regression-on-x alpha / beta / (alpha, beta, SSE) *)
Section HugeTwo.
  Context {A : Type} {NA : Num A} {T1 : Type} {D1 : IsNone T1 A} {T2 : Type} {D2 : IsNone T2 A}.

  Lemma huge_window_csum {O} (emit : nat -> @csum A -> O) body (w1 w2 k m : nat) (xs : list T1) (ys : list T2) :
    gated (@c_n A) emit -> length xs < w1 -> length xs < w2 ->
    ts_run2 (csum_feat (D1 := D1) (D2 := D2) (emit (mp_eff (Some m) w1 k))) body w1 xs ys
    = ts_run2 (csum_feat (D1 := D1) (D2 := D2) (emit (mp_eff (Some m) w2 k))) body w2 xs ys.
  Proof.
    intros Hg H1 H2. rewrite !ts_run2_as_ts_run by lia. destruct (body && (length ys <? length xs)); [reflexivity|].
    assert (Hc : length (combine xs ys) <= length xs) by (rewrite combine_length; lia).
    apply (huge_window_family csum0 (csum_pre (D1 := D1) (D2 := D2)) (csum_post (D1 := D1) (D2 := D2))
                              (@c_n A) emit); try lia.
    - reflexivity.
    - intros s v. unfold csum_pre. destruct (both v); cbn [c_n csum_add]; lia.
    - intros s [v|]; cbn [csum_post]; [|lia]. destruct (both v); cbn [c_n csum_sub]; lia.
    - exact Hg.
  Qed.

  Theorem huge_window_two_series body (w1 w2 m : nat) (xs : list T1) (ys : list T2) :
    length xs < w1 -> length xs < w2 ->
    ts_run2 (ts_vcov_f (D1 := D1) (D2 := D2) w1 (Some m)) body w1 xs ys
      = ts_run2 (ts_vcov_f (D1 := D1) (D2 := D2) w2 (Some m)) body w2 xs ys /\
    ts_run2 (ts_vcorr_f (D1 := D1) (D2 := D2) w1 (Some m)) body w1 xs ys
      = ts_run2 (ts_vcorr_f (D1 := D1) (D2 := D2) w2 (Some m)) body w2 xs ys /\
    ts_run2 (ts_vregx_alpha_f (D1 := D1) (D2 := D2) w1 (Some m)) body w1 xs ys
      = ts_run2 (ts_vregx_alpha_f (D1 := D1) (D2 := D2) w2 (Some m)) body w2 xs ys /\
    ts_run2 (ts_vregx_beta_f (D1 := D1) (D2 := D2) w1 (Some m)) body w1 xs ys
      = ts_run2 (ts_vregx_beta_f (D1 := D1) (D2 := D2) w2 (Some m)) body w2 xs ys /\
    ts_run2 (ts_vregx_all_f (D1 := D1) (D2 := D2) w1 (Some m)) body w1 xs ys
      = ts_run2 (ts_vregx_all_f (D1 := D1) (D2 := D2) w2 (Some m)) body w2 xs ys.
  Proof.
    intros H1 H2. repeat split.
    - apply (huge_window_csum emit_cov); [|exact H1|exact H2]. intros m1 m2 s E. unfold emit_cov. rewrite E. reflexivity.
    - apply (huge_window_csum emit_corr); [|exact H1|exact H2]. intros m1 m2 s E. unfold emit_corr. rewrite E. reflexivity.
    - apply (huge_window_csum emit_regx_alpha); [|exact H1|exact H2].
      intros m1 m2 s E. unfold emit_regx_alpha. rewrite E. reflexivity.
    - apply (huge_window_csum emit_regx_beta); [|exact H1|exact H2].
      intros m1 m2 s E. unfold emit_regx_beta. rewrite E. reflexivity.
    - apply (huge_window_csum emit_regx_all); [|exact H1|exact H2].
      intros m1 m2 s E. unfold emit_regx_all. rewrite E. reflexivity.
  Qed.
End HugeTwo.

(* the extrema / arg-extrema / rank family clamps the window to the length first: EVERY window >= len is the window
   len, for omitted min_periods too *)
Section HugeCmp.
  Context {A : Type} {NA : Num A} {T : Type} {DT : IsNone T A}.

  Lemma cmp_window_ge (w : nat) (xs : list T) : length xs <= w -> cmp_window w xs = cmp_window (length xs) xs.
  Proof. intros H. unfold cmp_window. lia. Qed.

  Theorem huge_window_cmp_family body (w : nat) (mp : option nat) (xs : list T) :
    length xs <= w ->
    ts_vmin body w mp xs = ts_vmin body (length xs) mp xs /\
    ts_vmax body w mp xs = ts_vmax body (length xs) mp xs /\
    ts_vargmin body w mp xs = ts_vargmin body (length xs) mp xs /\
    ts_vargmax body w mp xs = ts_vargmax body (length xs) mp xs /\
    (forall (B : Type) (NB : Num B) pct rev,
        ts_vrank (B := B) body w mp pct rev xs = ts_vrank (B := B) body (length xs) mp pct rev xs).
  Proof.
    intros H. unfold ts_vmin, ts_vmax, ts_vargmin, ts_vargmax, ts_vext, ts_varg, ts_vrank. cbv zeta.
    rewrite (cmp_window_ge w xs H). repeat split; reflexivity.
  Qed.
End HugeCmp.

(* ---- window-index drivers (ts_vminmaxnorm, the regression-residual statistics): the window is NOT clamped ---- *)
Lemma idx_args_large_window {T} body (w1 w2 : nat) (xs : list T) :
  length xs < w1 -> length xs < w2 ->
  mapi (fun i v => (start_of (eff_window body w1 (length xs)) i, i, v)) xs
  = mapi (fun i v => (start_of (eff_window body w2 (length xs)) i, i, v)) xs.
Proof.
  intros H1 H2. destruct body; cbn [eff_window].
  - rewrite !Nat.min_r by lia. reflexivity.
  - apply mapi_ext. intros i v Hv. assert (Hi : i < length xs) by (apply nth_error_Some; congruence).
    unfold start_of.
    replace (i <? w1 - 1) with true by (symmetry; apply Nat.ltb_lt; lia).
    replace (i <? w2 - 1) with true by (symmetry; apply Nat.ltb_lt; lia). reflexivity.
Qed.

Lemma idx_raw_eq {T St O} (body : bool) (w : nat) (f : St -> option nat * nat * T -> St * O) s0 (xs : list T) :
  1 <= w ->
  (if body then rolling_apply_idx_to w f s0 xs else rolling_apply_idx_default w f s0 xs)
  = Done (run f s0 (mapi (fun i v => (start_of (eff_window body w (length xs)) i, i, v)) xs)).
Proof.
  intros Hw. destruct body; cbn [eff_window].
  - rewrite rolling_apply_idx_to_eq by exact Hw. reflexivity.
  - apply rolling_apply_idx_default_eq. exact Hw.
Qed.

Lemma idx_run_large_window {T St O} body (w1 w2 : nat) (cb : St -> option nat * nat * T -> res (St * O)) s0
      (xs : list T) :
  length xs < w1 -> length xs < w2 -> idx_run body w1 cb s0 xs = idx_run body w2 cb s0 xs.
Proof.
  intros H1 H2. unfold idx_run. rewrite !idx_raw_eq by lia.
  rewrite (idx_args_large_window body w1 w2 xs H1 H2). reflexivity.
Qed.

Lemma filter_len_le {X} (p : X -> bool) (l : list X) : length (filter p l) <= length l.
Proof. induction l as [|a l IH]; [apply le_n|]. cbn. destruct (p a); cbn; lia. Qed.

Lemma cnt_at_le {T} (p : T -> bool) (xs : list T) (W k : nat) : cnt_at p xs W k <= k.
Proof.
  unfold cnt_at, cntp, seg.
  pose proof (filter_len_le p (firstn (k - (k - (W - 1))) (skipn (k - (W - 1)) xs))) as H.
  rewrite firstn_length in H. lia.
Qed.

Section HugeNorm.
  Context {A : Type} {NA : Num A} {T : Type} {DT : IsNone T A}.
  Variables tmin tmax : A.

  Lemma mm_head_gate (m1 m2 : nat) (s1 : @mm A) (e : nat) (v : T) :
    (m1 <=? S (mm_n s1)) = (m2 <=? S (mm_n s1)) -> mm_head m1 s1 e v = mm_head m2 s1 e v.
  Proof. intros E. unfold mm_head. rewrite E. reflexivity. Qed.

  Theorem huge_window_minmaxnorm body (w1 w2 m : nat) (xs : list T) :
    length xs < w1 -> length xs < w2 ->
    ts_vminmaxnorm tmin tmax body w1 (Some m) xs = ts_vminmaxnorm tmin tmax body w2 (Some m) xs.
  Proof.
    intros H1 H2. unfold ts_vminmaxnorm. rewrite (idx_run_large_window body w1 w2 _ _ xs H1 H2).
    set (W := eff_window body w2 (length xs)).
    apply (idx_run_agree _ _ xs (fun k s => mm_n s = cnt_at (@not_none T A DT) xs W k)).
    - rewrite cnt_at_0. reflexivity.
    - intros k v s Hv HP. fold W.
      assert (Hk : k < length xs) by (apply nth_error_Some; congruence).
      destruct (mmnorm_step tmin tmax xs W (mp_eff (Some m) w1 0) k v s Hv HP) as (s' & o & E & HP').
      exists s', o. split; [exact E|]. split; [exact HP'|].
      rewrite mmnorm_cb_unfold in E |- *.
      destruct (mm_research_ok tmin tmax xs s (start_of W k) k (start_of_le W k) ltac:(lia)) as (s1 & R & N0).
      rewrite R in E |- *. cbn [bind] in E |- *.
      rewrite (mm_head_gate (mp_eff (Some m) w2 0) (mp_eff (Some m) w1 0) s1 k v); [exact E|].
      symmetry. apply (mp_eff_gate_agree m w1 w2 0 (length xs)); [exact H1|exact H2|].
      rewrite N0, HP. pose proof (cnt_at_le (@not_none T A DT) xs W k). lia.
  Qed.
End HugeNorm.

Section HugeResid.
  Context {A : Type} {NA : Num A} {T1 : Type} {D1 : IsNone T1 A} {T2 : Type} {D2 : IsNone T2 A}.

  Theorem huge_window_resid (k : rstat) body (w1 w2 m : nat) (xs : list T1) (ys : list T2) :
    length xs < w1 -> length xs < w2 ->
    ts_vregx_resid (D1 := D1) (D2 := D2) k body w1 (Some m) xs ys
    = ts_vregx_resid (D1 := D1) (D2 := D2) k body w2 (Some m) xs ys.
  Proof.
    intros H1 H2. unfold ts_vregx_resid. cbv zeta. set (zs := combine xs ys).
    assert (Hz : length zs <= length xs) by (unfold zs; rewrite combine_length; lia).
    assert (Hcore : forall b : bool,
               (if b then rolling_apply_idx_to w1 (resid_cb k (mp_eff (Some m) w1 0) zs) csum0 zs
                else rolling_apply_idx_default w1 (resid_cb k (mp_eff (Some m) w1 0) zs) csum0 zs)
               = (if b then rolling_apply_idx_to w2 (resid_cb k (mp_eff (Some m) w2 0) zs) csum0 zs
                  else rolling_apply_idx_default w2 (resid_cb k (mp_eff (Some m) w2 0) zs) csum0 zs)).
    { intros b. rewrite !idx_raw_eq by lia. rewrite (idx_args_large_window b w1 w2 zs) by lia. f_equal.
      apply (run_ext_inv _ _ (fun j (s : @csum A) => c_n s <= j) (length zs)) with (k := 0).
      - intros j s [[st e] v] Hj HI. unfold resid_cb. cbn [fst].
        assert (P1 : c_n (csum_pre (D1 := D1) (D2 := D2) s v) <= S (c_n s)).
        { unfold csum_pre. destruct (both v); cbn [c_n csum_add]; lia. }
        assert (P2 : c_n (resid_post zs (csum_pre (D1 := D1) (D2 := D2) s v) st) <= c_n (csum_pre (D1 := D1) (D2 := D2) s v)).
        { unfold resid_post. destruct st as [j0|]; [|lia]. unfold csum_post.
          destruct (nth_error zs j0) as [p|]; [|lia]. destruct (both p); cbn [c_n csum_sub]; lia. }
        split; [|lia]. f_equal. unfold resid_emit.
        rewrite (mp_eff_gate_agree m w1 w2 0 (length xs)) by lia. reflexivity.
      - rewrite mapi_length. lia.
      - cbn. lia. }
    destruct body.
    - unfold rolling2_apply_idx_to. destruct (length ys <? length xs); [reflexivity|]. exact (Hcore true).
    - rewrite !rolling2_apply_idx_default_pos by lia. exact (Hcore false).
  Qed.
End HugeResid.

(* ================================================================================================ *)
(* (B) two-series functions on series of unequal length: any statement about the windows lifts from equal       *)
(*     lengths to every accepted pair of lengths, on the common prefix                                         *)
(* ================================================================================================ *)
Lemma two_series_lift {T1 T2 St O} (F : feat (T1 * T2) St O) body (w : nat) (xs : list T1) (ys : list T2)
      (Q : nat -> O -> list T1 -> list T2 -> Prop) :
  1 <= w -> (body = false \/ length xs <= length ys) ->
  (forall xs' ys', length xs' = length ys' ->
     exists out, ts_run2 F body w xs' ys' = Done out /\ length out = length xs' /\
       forall i, i < length xs' -> exists o, nth_error out i = Some o /\ Q i o (win w i xs') (win w i ys')) ->
  exists out, ts_run2 F body w xs ys = Done out /\ length out = common xs ys /\
    forall i, i < common xs ys -> exists o, nth_error out i = Some o /\ Q i o (win w i xs) (win w i ys).
Proof.
  intros Hw Hb H. rewrite (ts_run2_common F body w xs ys Hw Hb).
  destruct (firstn_common_lengths xs ys) as [L1 L2].
  destruct (H (firstn (common xs ys) xs) (firstn (common xs ys) ys) ltac:(congruence)) as (out & E1 & E2 & E3).
  exists out. split; [exact E1|]. split; [rewrite E2; exact L1|].
  intros i Hi. destruct (E3 i ltac:(rewrite L1; exact Hi)) as (o & Ho & HQ). exists o. split; [exact Ho|].
  rewrite !win_firstn in HQ by exact Hi. exact HQ.
Qed.

Theorem mask_vcov_any_lengths body (w : nat) mp (xs ys : list XR) :
  1 <= w -> (body = false \/ length xs <= length ys) ->
  exists out, ts_run2 (ts_vcov_f w mp) body w xs ys = Done out /\ length out = common xs ys /\
    forall i, i < common xs ys ->
      exists o, nth_error out i = Some o /\
        is_null o = (length (pairs (win w i xs) (win w i ys)) <? mp_eff mp w 2).
Proof.
  intros Hw Hb.
  apply (two_series_lift (ts_vcov_f w mp) body w xs ys
           (fun _ o W1 W2 => is_null o = (length (pairs W1 W2) <? mp_eff mp w 2)) Hw Hb).
  intros xs' ys' Hl. exact (mask_vcov body w mp xs' ys' Hw Hl).
Qed.

Theorem mask_vcorr_any_lengths body (w : nat) mp (xs ys : list XR) :
  1 <= w -> (body = false \/ length xs <= length ys) ->
  exists out, ts_run2 (ts_vcorr_f w mp) body w xs ys = Done out /\ length out = common xs ys /\
    forall i, i < common xs ys ->
      exists o, nth_error out i = Some o /\
        (is_null o = true <->
         length (pairs (win w i xs) (win w i ys)) < mp_eff mp w 0 \/
         (popvarR (map fst (pairs (win w i xs) (win w i ys))) <= EPS)%R \/
         (popvarR (map snd (pairs (win w i xs) (win w i ys))) <= EPS)%R).
Proof.
  intros Hw Hb.
  apply (two_series_lift (ts_vcorr_f w mp) body w xs ys
           (fun _ o W1 W2 => is_null o = true <->
              length (pairs W1 W2) < mp_eff mp w 0 \/ (popvarR (map fst (pairs W1 W2)) <= EPS)%R \/
              (popvarR (map snd (pairs W1 W2)) <= EPS)%R) Hw Hb).
  intros xs' ys' Hl. exact (mask_vcorr body w mp xs' ys' Hw Hl).
Qed.

Theorem mask_vregx_any_lengths body (w : nat) mp (xs ys : list XR) :
  1 <= w -> (body = false \/ length xs <= length ys) ->
  (exists out, ts_run2 (ts_vregx_alpha_f w mp) body w xs ys = Done out /\ length out = common xs ys /\
     forall i, i < common xs ys ->
       exists o, nth_error out i = Some o /\
         (is_null o = true <->
          length (pairs (win w i xs) (win w i ys)) < mp_eff mp w 0 \/ detB (pairs (win w i xs) (win w i ys)) = 0%R)) /\
  (exists out, ts_run2 (ts_vregx_beta_f w mp) body w xs ys = Done out /\ length out = common xs ys /\
     forall i, i < common xs ys ->
       exists o, nth_error out i = Some o /\
         (is_null o = true <->
          length (pairs (win w i xs) (win w i ys)) < mp_eff mp w 0 \/ detB (pairs (win w i xs) (win w i ys)) = 0%R)) /\
  (exists out, ts_run2 (ts_vregx_all_f w mp) body w xs ys = Done out /\ length out = common xs ys /\
     forall i, i < common xs ys ->
       exists o, nth_error out i = Some o /\
         (is_null (fst (fst o)) = true <->
          length (pairs (win w i xs) (win w i ys)) < mp_eff mp w 0 \/ detB (pairs (win w i xs) (win w i ys)) = 0%R) /\
         (is_null (snd (fst o)) = true <->
          length (pairs (win w i xs) (win w i ys)) < mp_eff mp w 0 \/ detB (pairs (win w i xs) (win w i ys)) = 0%R) /\
         (is_null (snd o) = true <->
          length (pairs (win w i xs) (win w i ys)) < mp_eff mp w 0 \/ detB (pairs (win w i xs) (win w i ys)) = 0%R)).
Proof.
  intros Hw Hb. split; [|split].
  - apply (two_series_lift (ts_vregx_alpha_f w mp) body w xs ys
             (fun _ o W1 W2 => is_null o = true <-> length (pairs W1 W2) < mp_eff mp w 0 \/ detB (pairs W1 W2) = 0%R) Hw Hb).
    intros xs' ys' Hl. exact (mask_vregx_alpha body w mp xs' ys' Hw Hl).
  - apply (two_series_lift (ts_vregx_beta_f w mp) body w xs ys
             (fun _ o W1 W2 => is_null o = true <-> length (pairs W1 W2) < mp_eff mp w 0 \/ detB (pairs W1 W2) = 0%R) Hw Hb).
    intros xs' ys' Hl. exact (mask_vregx_beta body w mp xs' ys' Hw Hl).
  - apply (two_series_lift (ts_vregx_all_f w mp) body w xs ys
             (fun _ o W1 W2 =>
                (is_null (fst (fst o)) = true <-> length (pairs W1 W2) < mp_eff mp w 0 \/ detB (pairs W1 W2) = 0%R) /\
                (is_null (snd (fst o)) = true <-> length (pairs W1 W2) < mp_eff mp w 0 \/ detB (pairs W1 W2) = 0%R) /\
                (is_null (snd o) = true <-> length (pairs W1 W2) < mp_eff mp w 0 \/ detB (pairs W1 W2) = 0%R)) Hw Hb).
    intros xs' ys' Hl. exact (mask_vregx_all body w mp xs' ys' Hw Hl).
Qed.

Theorem mask_vregx_resid_any_lengths k body (w : nat) mp (xs ys : list XR) :
  1 <= w -> (body = false \/ length xs <= length ys) ->
  exists out, ts_vregx_resid k body w mp xs ys = Done out /\ length out = common xs ys /\
    forall i, i < common xs ys ->
      exists o, nth_error out i = Some o /\
        (is_null o = true <->
         length (pairs (win w i xs) (win w i ys)) < mp_eff mp w 0 \/ detB (pairs (win w i xs) (win w i ys)) = 0%R \/
         (k = RSkew /\ length (pairs (win w i xs) (win w i ys)) < 3)).
Proof.
  intros Hw Hb. rewrite resid_common by assumption.
  destruct (firstn_common_lengths xs ys) as [L1 L2].
  destruct (mask_vregx_resid k body w mp (firstn (common xs ys) xs) (firstn (common xs ys) ys) Hw ltac:(congruence))
    as (out & E1 & E2 & E3).
  exists out. split; [exact E1|]. split; [rewrite E2; exact L1|].
  intros i Hi. destruct (E3 i ltac:(rewrite L1; exact Hi)) as (o & Ho & HQ). exists o. split; [exact Ho|].
  cbv zeta in HQ. rewrite !win_firstn in HQ by exact Hi. exact HQ.
Qed.

(* ================================================================================================ *)
(* (C) "null below min_periods" at EVERY carrier — no order law, no premise on the data                    *)
(* ================================================================================================ *)
(* the window of the clamped driver window is the window of the requested one *)
Lemma seg_is_win {T} (w k : nat) (xs : list T) :
  1 <= w -> k < length xs ->
  seg (k - (cmp_window w xs - 1)) (S k) xs = win w k xs.
Proof. intros Hw Hk. rewrite win_seg. unfold wstart, cmp_window. f_equal. lia. Qed.
Lemma seg_is_win_unclamped {T} (W w k : nat) (xs : list T) :
  1 <= w -> k < length xs -> (W = w \/ W = Nat.min w (length xs)) ->
  seg (k - (W - 1)) (S k) xs = win w k xs.
Proof. intros Hw Hk HW. rewrite win_seg. unfold wstart. f_equal. lia. Qed.

Section ExtBelow.
  Context {A : Type} {NA : Num A} {T : Type} {DT : IsNone T A}.
  Variable scmp : option A -> option A -> comparison.
  Variable xs : list T.
  Variable W : nat.

  Lemma vext_step_out mp k v s : nth_error xs k = Some v -> x_n s = cnt_at (@not_none T A DT) xs W k ->
    exists s' o, vext_cb scmp mp xs s (start_of W k, k, v) = Ok (s', o) /\
                 x_n s' = cnt_at (@not_none T A DT) xs W (S k) /\
                 (cntp (@not_none T A DT) (seg (k - (W - 1)) (S k) xs) < mp -> o = None).
  Proof.
    intros Hv Hn. destruct (ext_step_ok scmp xs s (start_of W k) k v (start_of_le W k) Hv) as (s1 & E1 & N1).
    unfold vext_cb. rewrite E1. cbn [bind].
    assert (N1' : x_n s1 = cntp (@not_none T A DT) (seg (k - (W - 1)) (S k) xs)).
    { rewrite N1, Hn. symmetry. apply cnt_add. exact Hv. }
    destruct (ext_post_ok xs W s1 k v Hv N1') as (s2 & E2 & N2).
    rewrite E2. cbn [bind]. eexists _, _. split; [reflexivity|]. split; [exact N2|].
    intros Hlt. rewrite N1', (proj2 (Nat.leb_gt _ _) Hlt). reflexivity.
  Qed.

  Hypothesis Hrefl : scmp_refl_on scmp xs.
  Lemma varg_step_out mp k v s : nth_error xs k = Some v -> x_n s = cnt_at (@not_none T A DT) xs W k ->
    exists s' o, varg_cb scmp mp xs s (start_of W k, k, v) = Ok (s', o) /\
                 x_n s' = cnt_at (@not_none T A DT) xs W (S k) /\
                 (cntp (@not_none T A DT) (seg (k - (W - 1)) (S k) xs) < mp -> o = None).
  Proof.
    intros Hv Hn. destruct (varg_step scmp xs W Hrefl mp k v s Hv Hn) as (s' & o & E & N).
    exists s', o. split; [exact E|]. split; [exact N|]. intros Hlt.
    destruct (ext_step_ok scmp xs s (start_of W k) k v (start_of_le W k) Hv) as (s1 & E1 & N1).
    assert (N1' : x_n s1 = cntp (@not_none T A DT) (seg (k - (W - 1)) (S k) xs)).
    { rewrite N1, Hn. symmetry. apply cnt_add. exact Hv. }
    unfold varg_cb in E. rewrite E1 in E. cbn [bind] in E.
    rewrite N1', (proj2 (Nat.leb_gt _ _) Hlt) in E. cbn [andb bind] in E.
    destruct (ext_post xs s1 (start_of W k)) as [s2|pk]; cbn [bind] in E; [|discriminate].
    injection E as _ <-. reflexivity.
  Qed.
End ExtBelow.

Section ExtBelowEntry.
  Context {A : Type} {NA : Num A} {T : Type} {DT : IsNone T A}.
  Variable scmp : option A -> option A -> comparison.

  Definition nvalid_win (w i : nat) (xs : list T) : nat := cntp (@not_none T A DT) (win w i xs).

  Theorem ts_vext_below_null body (w : nat) mp (xs : list T) : 1 <= w ->
    exists out, ts_vext scmp body w mp xs = Done out /\ length out = length xs /\
      forall i, i < length xs -> nvalid_win w i xs < cmp_mp mp (cmp_window w xs) -> nth_error out i = Some None.
  Proof.
    intros Hw. destruct xs as [|x0 xs'] eqn:Ex.
    { exists []. split; [unfold ts_vext; apply idx_run_empty|]. split; [reflexivity|]. intros i Hi. cbn in Hi. lia. }
    rewrite <- Ex. assert (Hl : 1 <= length xs) by (rewrite Ex; cbn; lia). clear Ex x0 xs'.
    unfold ts_vext. cbv zeta. set (W := cmp_window w xs). assert (HW : 1 <= W) by (unfold W, cmp_window; lia).
    destruct (idx_run_spec (vext_cb scmp (cmp_mp mp W) xs) xs body W
                (fun k s => x_n s = cnt_at (@not_none T A DT) xs W k)
                (fun k o => k < length xs -> nvalid_win w k xs < cmp_mp mp W -> o = None) ext0 HW)
      as (outs & E & L & Hout).
    - rewrite cnt_at_0. reflexivity.
    - intros k v s Hv HP. unfold W. rewrite cmp_window_eff. fold W.
      destruct (vext_step_out scmp xs W (cmp_mp mp W) k v s Hv HP) as (s' & o & E & N & Hb).
      exists s', o. split; [exact E|]. split; [exact N|]. intros Hk Hlt. apply Hb.
      unfold W. rewrite seg_is_win by assumption. exact Hlt.
    - exists outs. split; [exact E|]. split; [exact L|]. intros i Hi Hlt.
      destruct (nth_error outs i) as [o|] eqn:Eo; [|apply nth_error_None in Eo; lia].
      rewrite (Hout i o Eo Hi Hlt). reflexivity.
  Qed.

  Theorem ts_varg_below_null body (w : nat) mp (xs : list T) : 1 <= w -> scmp_refl_on scmp xs ->
    exists out, ts_varg scmp body w mp xs = Done out /\ length out = length xs /\
      forall i, i < length xs -> nvalid_win w i xs < cmp_mp mp (cmp_window w xs) -> nth_error out i = Some None.
  Proof.
    intros Hw Hr. destruct xs as [|x0 xs'] eqn:Ex.
    { exists []. split; [unfold ts_varg; apply idx_run_empty|]. split; [reflexivity|]. intros i Hi. cbn in Hi. lia. }
    rewrite <- Ex in *. assert (Hl : 1 <= length xs) by (rewrite Ex; cbn; lia). clear Ex x0 xs'.
    unfold ts_varg. cbv zeta. set (W := cmp_window w xs). assert (HW : 1 <= W) by (unfold W, cmp_window; lia).
    destruct (idx_run_spec (varg_cb scmp (cmp_mp mp W) xs) xs body W
                (fun k s => x_n s = cnt_at (@not_none T A DT) xs W k)
                (fun k o => k < length xs -> nvalid_win w k xs < cmp_mp mp W -> o = None) ext0 HW)
      as (outs & E & L & Hout).
    - rewrite cnt_at_0. reflexivity.
    - intros k v s Hv HP. unfold W. rewrite cmp_window_eff. fold W.
      destruct (varg_step_out scmp xs W Hr (cmp_mp mp W) k v s Hv HP) as (s' & o & E & N & Hb).
      exists s', o. split; [exact E|]. split; [exact N|]. intros Hk Hlt. apply Hb.
      unfold W. rewrite seg_is_win by assumption. exact Hlt.
    - exists outs. split; [exact E|]. split; [exact L|]. intros i Hi Hlt.
      destruct (nth_error outs i) as [o|] eqn:Eo; [|apply nth_error_None in Eo; lia].
      rewrite (Hout i o Eo Hi Hlt). reflexivity.
  Qed.
End ExtBelowEntry.

(* ts_vminmaxnorm: below the effective min_periods the carrier's NaN, whatever the sentinels and the order *)
Section NormBelow.
  Context {A : Type} {NA : Num A} {T : Type} {DT : IsNone T A}.
  Variables tmin tmax : A.

  Lemma mm_head_below mp (s1 : @mm A) e v : mm_n s1 + b2n (not_none v) < mp -> snd (mm_head mp s1 e v) = nnan.
  Proof.
    intros H. unfold mm_head. destruct (not_none v); [|reflexivity]. cbn [b2n] in H.
    assert (Hg : (mp <=? S (mm_n s1)) = false) by (apply Nat.leb_gt; lia).
    destruct (nleb (mm_max s1) (unwrap v)), (nleb (unwrap v) (mm_min s1)); cbn [snd]; rewrite Hg; reflexivity.
  Qed.

  Theorem ts_vminmaxnorm_below_null body (w : nat) mp (xs : list T) : 1 <= w ->
    exists out, ts_vminmaxnorm tmin tmax body w mp xs = Done out /\ length out = length xs /\
      forall i, i < length xs -> nvalid_win (DT := DT) w i xs < mp_eff mp w 0 -> nth_error out i = Some nnan.
  Proof.
    intros Hw. unfold ts_vminmaxnorm. set (W := eff_window body w (length xs)).
    destruct (idx_run_spec (mmnorm_cb tmin tmax (mp_eff mp w 0) xs) xs body w
                (fun k s => mm_n s = cnt_at (@not_none T A DT) xs W k)
                (fun k o => k < length xs -> nvalid_win (DT := DT) w k xs < mp_eff mp w 0 -> o = nnan) (mm0 tmin tmax) Hw)
      as (outs & E & L & Hout).
    - rewrite cnt_at_0. reflexivity.
    - intros k v s Hv HP. fold W.
      assert (Hk : k < length xs) by (apply nth_error_Some; congruence).
      destruct (mmnorm_step tmin tmax xs W (mp_eff mp w 0) k v s Hv HP) as (s' & o & Ecb & HP').
      exists s', o. split; [exact Ecb|]. split; [exact HP'|]. intros _ Hlt.
      rewrite mmnorm_cb_unfold in Ecb.
      destruct (mm_research_ok tmin tmax xs s (start_of W k) k (start_of_le W k) ltac:(lia)) as (s1 & R & N0).
      rewrite R in Ecb. cbn [bind] in Ecb. cbv zeta in Ecb.
      match type of Ecb with (do s3 <- ?X; _) = _ => destruct X as [s3|pk]; cbn [bind] in Ecb; [|discriminate] end.
      injection Ecb as _ <-. apply mm_head_below.
      rewrite N0, HP, <- (cnt_add (@not_none T A DT) xs W k v Hv).
      rewrite (seg_is_win_unclamped W w k xs Hw Hk); [exact Hlt|]. unfold W. destruct body; cbn [eff_window]; auto.
    - exists outs. split; [exact E|]. split; [exact L|]. intros i Hi Hlt.
      destruct (nth_error outs i) as [o|] eqn:Eo; [|apply nth_error_None in Eo; lia].
      rewrite (Hout i o Eo Hi Hlt). reflexivity.
  Qed.
End NormBelow.

(* ts_vfdiff: below the effective min_periods the carrier's NaN, for every order d (a null order included) *)
Section FdiffBelow.
  Context {A : Type} {NA : Num A} {T : Type} {DT : IsNone T A}.

  Lemma custom_unit_run {O} (g : list T -> O) (l : list (list T)) :
    run (fun (u : unit) (a : list T) => (u, g a)) tt l = map g l.
  Proof. induction l as [|a l IH]; [reflexivity|]. cbn [run map]. f_equal. exact IH. Qed.

  Theorem ts_vfdiff_below_null body (d : A) (w : nat) mp (xs : list T) : 1 <= w ->
    exists out, ts_vfdiff body d w mp xs = Done out /\ length out = length xs /\
      forall i, i < length xs -> nvalid_win (DT := DT) w i xs < mp_eff mp w 0 -> nth_error out i = Some nnan.
  Proof.
    intros Hw.
    assert (E : ts_vfdiff body d w mp xs
                = Done (map (fun arr => snd (ts_vfdiff_cb d w (mp_eff mp w 0) tt arr)) (windows w xs))).
    { unfold ts_vfdiff. cbv zeta.
      destruct body; [rewrite rolling_custom_to_eq by exact Hw|rewrite rolling_custom_default_eq by exact Hw];
        f_equal; apply (custom_unit_run (fun arr => snd (ts_vfdiff_cb d w (mp_eff mp w 0) tt arr))). }
    eexists. split; [exact E|]. split; [unfold windows; rewrite !map_length, seq_length; reflexivity|].
    intros i Hi Hlt. unfold windows. rewrite map_map, nth_error_map, nth_error_seq.
    replace (i <? length xs) with true by (symmetry; apply Nat.ltb_lt; exact Hi). cbn [option_map Nat.add].
    f_equal. unfold ts_vfdiff_cb. cbn [snd]. unfold nvalid_win, cntp in Hlt.
    pose proof (Audit01.mp_eff_le_window mp w 0 ltac:(lia)) as Hle.
    replace (length (filter not_none (win w i xs)) =? w) with false by (symmetry; apply Nat.eqb_neq; lia).
    rewrite (proj2 (Nat.leb_gt _ _) Hlt). reflexivity.
  Qed.
End FdiffBelow.

(* ================================================================================================ *)
(* (D) min_periods above the window: the clamp `.min(window)` makes it the window; all other entry points     *)
(* ================================================================================================ *)
Section AboveWindow.
  Context {A : Type} {NA : Num A} {T : Type} {DT : IsNone T A} {T2 : Type} {D2 : IsNone T2 A}.

  Theorem min_periods_above_window_rest (w m : nat) : w <= m ->
    ts_vzscore_f (DT := DT) w (Some m) = ts_vzscore_f w (Some w) /\
    ts_vreg_f (DT := DT) w (Some m) = ts_vreg_f w (Some w) /\
    ts_vtsf_f (DT := DT) w (Some m) = ts_vtsf_f w (Some w) /\
    ts_vreg_slope_f (DT := DT) w (Some m) = ts_vreg_slope_f w (Some w) /\
    ts_vreg_intercept_f (DT := DT) w (Some m) = ts_vreg_intercept_f w (Some w) /\
    ts_vreg_resid_mean_f (DT := DT) w (Some m) = ts_vreg_resid_mean_f w (Some w) /\
    ts_vcov_f (D1 := DT) (D2 := D2) w (Some m) = ts_vcov_f w (Some w) /\
    ts_vcorr_f (D1 := DT) (D2 := D2) w (Some m) = ts_vcorr_f w (Some w) /\
    ts_vregx_alpha_f (D1 := DT) (D2 := D2) w (Some m) = ts_vregx_alpha_f w (Some w) /\
    ts_vregx_beta_f (D1 := DT) (D2 := D2) w (Some m) = ts_vregx_beta_f w (Some w) /\
    ts_vregx_all_f (D1 := DT) (D2 := D2) w (Some m) = ts_vregx_all_f w (Some w) /\
    (forall tmin tmax body xs, ts_vminmaxnorm (DT := DT) tmin tmax body w (Some m) xs
                               = ts_vminmaxnorm tmin tmax body w (Some w) xs) /\
    (forall k body xs ys, ts_vregx_resid (D1 := DT) (D2 := D2) k body w (Some m) xs ys
                          = ts_vregx_resid k body w (Some w) xs ys) /\
    (forall body d xs, ts_vfdiff (DT := DT) body d w (Some m) xs = ts_vfdiff body d w (Some w) xs).
  Proof.
    intros H.
    assert (E : forall k, mp_eff (Some m) w k = mp_eff (Some w) w k) by (intros k; unfold mp_eff; lia).
    unfold ts_vzscore_f, ts_vreg_f, ts_vtsf_f, ts_vreg_slope_f, ts_vreg_intercept_f, ts_vreg_resid_mean_f,
      ts_vcov_f, ts_vcorr_f, ts_vregx_alpha_f, ts_vregx_beta_f, ts_vregx_all_f, ts_vminmaxnorm, ts_vregx_resid,
      ts_vfdiff.
    rewrite !E. repeat split; reflexivity.
  Qed.
End AboveWindow.

(* ================================================================================================ *)
(* (E) every input of every entry point: the shape of the outcome                                            *)
(* ================================================================================================ *)
Lemma ts_run_safe {T St O} (F : feat T St O) body (w : nat) (xs : list T) : kernel_safe w xs (ts_run F body w xs).
Proof.
  rewrite Audit01.ts_run_total. destruct (bad_window_cases w xs) as [(Hb & Hw & Hx)|(Hb & Hc)]; rewrite Hb.
  - right. split; [exact Hw|]. split; [exact Hx|reflexivity].
  - left. eexists. split; [reflexivity|]. rewrite run_length. apply mapi_length.
Qed.

(* the iterator body of the two-series entry points never compares the lengths: with a shorter second series it
   returns FEWER outputs than the first series has elements *)
Lemma shorter_second_iterator_truncates {T1 T2 St O} (F : feat (T1 * T2) St O) (w : nat) (xs : list T1) (ys : list T2) :
  1 <= w -> length ys < length xs ->
  exists out, ts_run2 F false w xs ys = Done out /\ length out = length ys /\ length out < length xs.
Proof.
  intros Hw Hl. pose proof (ts_run2_by_check F false w xs ys) as H. unfold check2, check2_default in H.
  rewrite bad_window_false in H by exact Hw. destruct H as (l & E & Hn). unfold common in Hn.
  exists l. split; [exact E|]. lia.
Qed.

(* witnesses: the huge-window equivalence needs an EXPLICIT min_periods (omitted means floor(w/2), which grows with
   the window), and does not hold for the exponentially weighted mean (its weights are powers of 1 - 2/w) *)
Lemma huge_window_omitted_differs :
  ts_run (ts_vsum_f (A := Z) (DT := IsNone_option) 3 None) true 3 [Some 1%Z; Some 2%Z]
  <> ts_run (ts_vsum_f (A := Z) (DT := IsNone_option) 9 None) true 9 [Some 1%Z; Some 2%Z].
Proof. vm_compute. discriminate. Qed.
Lemma huge_window_ewm_differs :
  ts_run (ts_vewm_f (A := Z) (DT := IsNone_option) 2 (Some 1)) true 2 [Some 5%Z]
  <> ts_run (ts_vewm_f (A := Z) (DT := IsNone_option) 3 (Some 1)) true 3 [Some 5%Z].
Proof. vm_compute. discriminate. Qed.
