(* Proofs/ViewBase.v — the elementary facts about option views shared by the C08 proof files:
   the option view of an element determines is_none / not_none and, on a non-null element, unwrap.
   Axiom-free.                                                                                   *)
From Coq Require Import List Bool.
From Tevec Require Import Base.Prelude Base.Num Model.NullView.
Import ListNotations.
Set Implicit Arguments.

(* ---- generic list facts ----------------------------------------------------------------------------- *)
Lemma fold_left_rel {St X1 X2} (R : X1 -> X2 -> Prop) (f1 : St -> X1 -> St) (f2 : St -> X2 -> St) :
  (forall s a b, R a b -> f1 s a = f2 s b) ->
  forall l1 l2, Forall2 R l1 l2 -> forall s, fold_left f1 l1 s = fold_left f2 l2 s.
Proof.
  intros Hf l1 l2 HF. induction HF as [|a b r1 r2 Hab _ IH]; intros s; [reflexivity|].
  cbn [fold_left]. rewrite (Hf s a b Hab). apply IH.
Qed.

Lemma Forall2_len {X Y} (R : X -> Y -> Prop) l1 l2 : Forall2 R l1 l2 -> length l1 = length l2.
Proof. induction 1; cbn [length]; congruence. Qed.

Lemma Forall2_firstn {X Y} (R : X -> Y -> Prop) n l1 l2 : Forall2 R l1 l2 -> Forall2 R (firstn n l1) (firstn n l2).
Proof.
  intros HF. revert n. induction HF as [|a b r1 r2 Hab _ IH]; intros [|n]; cbn [firstn]; constructor; auto.
Qed.
Lemma Forall2_skipn {X Y} (R : X -> Y -> Prop) n l1 l2 : Forall2 R l1 l2 -> Forall2 R (skipn n l1) (skipn n l2).
Proof.
  intros HF. revert n. induction HF as [|a b r1 r2 Hab HF IH]; intros [|n]; cbn [skipn]; try constructor; auto.
Qed.
Lemma Forall2_seg {X Y} (R : X -> Y -> Prop) a b l1 l2 : Forall2 R l1 l2 -> Forall2 R (seg a b l1) (seg a b l2).
Proof. intros HF. unfold seg. apply Forall2_firstn, Forall2_skipn, HF. Qed.
Lemma map_rel {X Y Z} (R : X -> Y -> Prop) (f : X -> Z) (g : Y -> Z) l1 l2 :
  (forall a b, R a b -> f a = g b) -> Forall2 R l1 l2 -> map f l1 = map g l2.
Proof. intros H HF. induction HF as [|a b r1 r2 Hab _ IH]; cbn [map]; [reflexivity|]. rewrite (H a b Hab), IH. reflexivity. Qed.
Lemma Forall2_filter {X Y} (R : X -> Y -> Prop) (p : X -> bool) (q : Y -> bool) l1 l2 :
  (forall a b, R a b -> p a = q b) -> Forall2 R l1 l2 -> Forall2 R (filter p l1) (filter q l2).
Proof.
  intros H HF. induction HF as [|a b r1 r2 Hab _ IH]; cbn [filter]; [constructor|]. rewrite (H a b Hab).
  destruct (q b); [constructor; assumption|exact IH].
Qed.

Lemma hd_error_map {X Y} (f : X -> Y) (l : list X) : hd_error (map f l) = option_map f (hd_error l).
Proof. destruct l; reflexivity. Qed.

Lemma Forall2_rev {X Y} (R : X -> Y -> Prop) l1 l2 : Forall2 R l1 l2 -> Forall2 R (rev l1) (rev l2).
Proof.
  induction 1 as [|a b r1 r2 Hab _ IH]; [constructor|]. cbn [rev].
  apply Forall2_app; [exact IH|repeat constructor; exact Hab].
Qed.

Lemma Forall2_combine {X1 X2 Y1 Y2} (R : X1 -> X2 -> Prop) (Q : Y1 -> Y2 -> Prop) xs1 xs2 ys1 ys2 :
  Forall2 R xs1 xs2 -> Forall2 Q ys1 ys2 ->
  Forall2 (fun p q => R (fst p) (fst q) /\ Q (snd p) (snd q)) (combine xs1 ys1) (combine xs2 ys2).
Proof.
  intros HX. revert ys1 ys2. induction HX as [|a b r1 r2 Hab _ IH]; intros ys1 ys2 HY; [constructor|].
  destruct HY as [|c d s1 s2 Hcd HY]; [constructor|]. cbn [combine]. constructor; [split; assumption|].
  apply IH. exact HY.
Qed.

(* ---- the option view determines the predicates and the unwrapped value --------------------------------- *)
Section View.
  Context {A T1 T2 : Type} (D1 : IsNone T1 A) (D2 : IsNone T2 A).

  Lemma sv_is_none a b : same_view D1 D2 a b -> is_none a = is_none b.
  Proof. unfold same_view, to_opt. destruct (is_none a), (is_none b); intros E; congruence. Qed.
  Lemma sv_not_none a b : same_view D1 D2 a b -> not_none a = not_none b.
  Proof. intros E. unfold not_none. rewrite (sv_is_none E). reflexivity. Qed.
  Lemma sv_unwrap a b : same_view D1 D2 a b -> not_none b = true -> unwrap a = unwrap b.
  Proof.
    intros E. pose proof (sv_is_none E) as Hn. unfold not_none. unfold same_view, to_opt in E.
    rewrite Hn in E. destruct (is_none b); [discriminate|]. intros _. congruence.
  Qed.

End View.
