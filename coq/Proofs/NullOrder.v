(* Proofs/NullOrder.v — C08 for the order statistics of Model/Quantile.v (vquantile, vmedian, vpercentile_of):
     * re-encoding (SameView): every carrier, every pair of dictionaries — the comparators sort_cmp /
       sort_cmp_rev see an element only through `to_opt`, so the sorted arrangements are pointwise related;
     * null insertion: vpercentile_of for every carrier (the counting fold skips nulls); vquantile / vmedian
       over option R from the C12 characterisation (the result is a function of the sorted valid elements).  *)
From Coq Require Import Reals Lra Lia List Sorting Permutation.
From Tevec Require Import Base.Prelude Base.Num Base.XR Spec.Stats Model.NullView Model.SortCmp Model.Quantile
     Proofs.SortCmp Proofs.OrderXR Proofs.Quantile Proofs.ViewBase.
Import ListNotations.

(* ---- local copies of the view lemmas (Proofs/NullView.v imports Model/Agg.v, whose names clash with
        Model/SortCmp.v) ------------------------------------------------------------------------------- *)
Section View.
  Context {A T1 T2 : Type} (D1 : IsNone T1 A) (D2 : IsNone T2 A).
  Lemma ov_is_none a b : same_view D1 D2 a b -> is_none a = is_none b.
  Proof. unfold same_view, to_opt. destruct (is_none a), (is_none b); intros E; congruence. Qed.
  Lemma ov_not_none a b : same_view D1 D2 a b -> not_none a = not_none b.
  Proof. intros E. unfold not_none. rewrite (ov_is_none _ _ E). reflexivity. Qed.
  Lemma ov_unwrap a b : same_view D1 D2 a b -> is_none b = false -> unwrap a = unwrap b.
  Proof.
    intros E Hb. pose proof (ov_is_none _ _ E) as Hn. unfold same_view, to_opt in E.
    rewrite Hn, Hb in E. congruence.
  Qed.
End View.

Lemma fold_left_rel' {St X1 X2} (R : X1 -> X2 -> Prop) (f1 : St -> X1 -> St) (f2 : St -> X2 -> St) :
  (forall s a b, R a b -> f1 s a = f2 s b) ->
  forall l1 l2, Forall2 R l1 l2 -> forall s, fold_left f1 l1 s = fold_left f2 l2 s.
Proof.
  intros Hf l1 l2 HF. induction HF as [|a b r1 r2 Hab _ IH]; intros s; [reflexivity|].
  cbn [fold_left]. rewrite (Hf s a b Hab). apply IH.
Qed.

(* ---- sorting related lists with related comparators --------------------------------------------------- *)
Section SortRel.
  Context {X1 X2 : Type} (R : X1 -> X2 -> Prop) (cmp1 : X1 -> X1 -> comparison) (cmp2 : X2 -> X2 -> comparison).
  Hypothesis Hcmp : forall a1 a2 b1 b2, R a1 a2 -> R b1 b2 -> cmp1 a1 b1 = cmp2 a2 b2.

  Lemma insert_rel x1 x2 l1 l2 : R x1 x2 -> Forall2 R l1 l2 -> Forall2 R (insert cmp1 x1 l1) (insert cmp2 x2 l2).
  Proof.
    intros Hx HF. induction HF as [|a b r1 r2 Hab HF IH]; cbn [insert]; [repeat constructor; exact Hx|].
    unfold cle. rewrite (Hcmp _ _ _ _ Hx Hab). destruct (cmp2 x2 b).
    - constructor; [exact Hx|constructor; assumption].
    - constructor; [exact Hx|constructor; assumption].
    - constructor; [exact Hab|exact IH].
  Qed.
  Lemma isort_rel l1 l2 : Forall2 R l1 l2 -> Forall2 R (isort cmp1 l1) (isort cmp2 l2).
  Proof.
    induction 1 as [|a b r1 r2 Hab _ IH]; [constructor|]. unfold isort in *. cbn [fold_right].
    apply insert_rel; assumption.
  Qed.
End SortRel.

Lemma Forall2_nth {X Y} (R : X -> Y -> Prop) l1 l2 : Forall2 R l1 l2 ->
  forall i, match nth_error l1 i, nth_error l2 i with
            | Some a, Some b => R a b | None, None => True | _, _ => False end.
Proof.
  intros HF. induction HF as [|a b r1 r2 Hab _ IH]; intros i.
  - destruct i; exact I.
  - destruct i as [|i]; [exact Hab|]. cbn. apply IH.
Qed.

(* ---- re-encoding ------------------------------------------------------------------------------------------ *)
Section Encoding.
  Context {A : Type} {NA : Num A} {NF : NumFloor A} {T1 T2 : Type} (D1 : IsNone T1 A) (D2 : IsNone T2 A).
  Local Notation SV := (same_view D1 D2).

  Lemma sort_cmp_view a1 a2 b1 b2 : SV a1 a2 -> SV b1 b2 -> sort_cmp (DT := D1) a1 b1 = sort_cmp (DT := D2) a2 b2.
  Proof. intros Ha Hb. unfold sort_cmp. unfold same_view in Ha, Hb. rewrite Ha, Hb. reflexivity. Qed.
  Lemma sort_cmp_rev_view a1 a2 b1 b2 :
    SV a1 a2 -> SV b1 b2 -> sort_cmp_rev (DT := D1) a1 b1 = sort_cmp_rev (DT := D2) a2 b2.
  Proof. intros Ha Hb. unfold sort_cmp_rev. unfold same_view in Ha, Hb. rewrite Ha, Hb. reflexivity. Qed.

  Lemma tcast_view a b : SV a b -> tcast (DT := D1) a = tcast (DT := D2) b.
  Proof.
    intros E. unfold tcast. rewrite (ov_is_none _ _ _ _ E). destruct (is_none b) eqn:Hb; [reflexivity|].
    apply ov_unwrap; assumption.
  Qed.

  Lemma count_valid_view xs1 xs2 : SameView D1 D2 xs1 xs2 -> count_valid (DT := D1) xs1 = count_valid (DT := D2) xs2.
  Proof.
    unfold count_valid. induction 1 as [|a b r1 r2 Hab _ IH]; [reflexivity|]. cbn [filter].
    rewrite (ov_not_none _ _ _ _ Hab). destruct (not_none b); cbn [length]; congruence.
  Qed.
  Lemma vfirst_view xs1 xs2 : SameView D1 D2 xs1 xs2 ->
    match vfirst (DT := D1) xs1, vfirst (DT := D2) xs2 with
    | Some a, Some b => SV a b | None, None => True | _, _ => False end.
  Proof.
    unfold vfirst. induction 1 as [|a b r1 r2 Hab _ IH]; [exact I|]. cbn [find].
    rewrite (ov_not_none _ _ _ _ Hab). destruct (not_none b); [exact Hab|exact IH].
  Qed.
  Lemma vmax_view xs1 xs2 : SameView D1 D2 xs1 xs2 -> vmax (DT := D1) xs1 = vmax (DT := D2) xs2.
  Proof.
    intros HS. unfold vmax. apply (fold_left_rel' (same_view D1 D2)); [|exact HS].
    intros s a b E. rewrite (ov_not_none _ _ _ _ E). unfold not_none. destruct (is_none b) eqn:Hb; [reflexivity|].
    cbn [negb]. rewrite (ov_unwrap _ _ _ _ E Hb). reflexivity.
  Qed.
  Lemma vmin_view xs1 xs2 : SameView D1 D2 xs1 xs2 -> vmin (DT := D1) xs1 = vmin (DT := D2) xs2.
  Proof.
    intros HS. unfold vmin. apply (fold_left_rel' (same_view D1 D2)); [|exact HS].
    intros s a b E. rewrite (ov_not_none _ _ _ _ E). unfold not_none. destruct (is_none b) eqn:Hb; [reflexivity|].
    cbn [negb]. rewrite (ov_unwrap _ _ _ _ E Hb). reflexivity.
  Qed.

  (* select_nth_unstable_by on the two encodings: related heads and pivots, or the same panic *)
  Lemma select_nth_view cmp1 cmp2 j xs1 xs2 :
    (forall a1 a2 b1 b2, SV a1 a2 -> SV b1 b2 -> cmp1 a1 b1 = cmp2 a2 b2) ->
    SameView D1 D2 xs1 xs2 ->
    match select_nth cmp1 j xs1, select_nth cmp2 j xs2 with
    | Ok (h1, m1), Ok (h2, m2) => SameView D1 D2 h1 h2 /\ SV m1 m2
    | Panic k1, Panic k2 => k1 = k2
    | _, _ => False
    end.
  Proof.
    intros Hc HS. unfold select_nth.
    pose proof (isort_rel _ _ _ Hc _ _ HS) as Hs. pose proof (Forall2_nth _ _ _ Hs j) as Hn.
    destruct (nth_error (isort cmp1 xs1) j), (nth_error (isort cmp2 xs2) j); try contradiction; [|reflexivity].
    split; [apply Forall2_firstn; exact Hs|exact Hn].
  Qed.

  Theorem vquantile_same_view (q : A) (m : qmethod) xs1 xs2 :
    SameView D1 D2 xs1 xs2 -> vquantile (DT := D1) q m xs1 = vquantile (DT := D2) q m xs2.
  Proof.
    intros HS. unfold vquantile. rewrite (count_valid_view _ _ HS).
    destruct (negb (nleb nzero q && nleb q none)); [reflexivity|].
    destruct (count_valid xs2 =? 0)%nat; [reflexivity|].
    destruct (count_valid xs2 =? 1)%nat.
    { pose proof (vfirst_view _ _ HS) as Hf.
      destruct (vfirst xs1), (vfirst xs2); try contradiction; [|reflexivity]. rewrite (tcast_view _ _ Hf). reflexivity. }
    destruct (nleb q nhalf).
    - set (j := Z.to_nat (nceilZ (nmul (nofnat (count_valid xs2 - 1)) q))).
      pose proof (select_nth_view _ _ j _ _ sort_cmp_view HS) as Hsel.
      destruct (select_nth sort_cmp j xs1) as [[h1 m1]|k1], (select_nth sort_cmp j xs2) as [[h2 m2]|k2];
        try contradiction; cbn [bind]; [|congruence].
      destruct Hsel as [Hh Hm]. rewrite (vmax_view _ _ Hh), (tcast_view _ _ Hm). reflexivity.
    - set (j := Z.to_nat (nceilZ (nmul (nofnat (count_valid xs2 - 1)) (nsub none q)))).
      pose proof (select_nth_view _ _ j _ _ sort_cmp_rev_view HS) as Hsel.
      destruct (select_nth sort_cmp_rev j xs1) as [[h1 m1]|k1], (select_nth sort_cmp_rev j xs2) as [[h2 m2]|k2];
        try contradiction; cbn [bind]; [|congruence].
      destruct Hsel as [Hh Hm]. rewrite (vmin_view _ _ Hh), (tcast_view _ _ Hm). reflexivity.
  Qed.

  Theorem vmedian_same_view xs1 xs2 :
    SameView D1 D2 xs1 xs2 -> vmedian (DT := D1) xs1 = vmedian (DT := D2) xs2.
  Proof. intros HS. unfold vmedian. rewrite (vquantile_same_view _ _ _ _ HS). reflexivity. Qed.

  Lemma pct_counts_view (sc : A) xs1 xs2 :
    SameView D1 D2 xs1 xs2 -> pct_counts (DT := D1) sc xs1 = pct_counts (DT := D2) sc xs2.
  Proof.
    intros HS. unfold pct_counts. apply (fold_left_rel' (same_view D1 D2)); [|exact HS].
    intros [[l e] t] a b E. rewrite (ov_is_none _ _ _ _ E). destruct (is_none b) eqn:Hb; [reflexivity|].
    rewrite (ov_unwrap _ _ _ _ E Hb). reflexivity.
  Qed.
  Theorem vpercentile_of_same_view (sc1 : T1) (sc2 : T2) (m : pmethod) xs1 xs2 :
    SV sc1 sc2 -> SameView D1 D2 xs1 xs2 ->
    vpercentile_of (DT := D1) sc1 m xs1 = vpercentile_of (DT := D2) sc2 m xs2.
  Proof.
    intros E HS. unfold vpercentile_of. rewrite (ov_is_none _ _ _ _ E).
    destruct (is_none sc2) eqn:Hb; [reflexivity|].
    rewrite (ov_unwrap _ _ _ _ E Hb), (pct_counts_view _ _ _ HS). reflexivity.
  Qed.
End Encoding.

(* ---- null insertion --------------------------------------------------------------------------------------- *)
Section InsertGeneric.
  Context {A : Type} {NA : Num A} {T : Type} {DT : IsNone T A}.

  Lemma pct_counts_insert (sc : A) xs ys : NullInsert xs ys -> pct_counts sc ys = pct_counts sc xs.
  Proof.
    unfold pct_counts. generalize (0, 0, 0)%nat.
    intros c H. revert c. induction H as [|x xs ys _ IH|v xs ys Hv _ IH]; intros c; [reflexivity| |].
    - cbn [fold_left]. apply IH.
    - cbn [fold_left]. destruct c as [[l e] t]. rewrite Hv. apply IH.
  Qed.
  (* every carrier, every dictionary, every score (null or not), every method *)
  Theorem vpercentile_of_insert (sc : T) (m : pmethod) xs ys :
    NullInsert xs ys -> vpercentile_of sc m ys = vpercentile_of sc m xs.
  Proof. intros H. unfold vpercentile_of. rewrite (pct_counts_insert _ _ _ H). reflexivity. Qed.
End InsertGeneric.

Lemma valid_null_insert (xs ys : list XR) : NullInsert (D := IsNoneXR) xs ys -> valid ys = valid xs.
Proof.
  induction 1 as [|x xs ys _ IH|v xs ys Hv _ IH]; [reflexivity| |].
  - unfold valid in *. cbn [flat_map]. rewrite IH. reflexivity.
  - destruct v as [r|]; [discriminate Hv|]. exact IH.
Qed.

Lemma vquantile_nan_q (m : qmethod) (xs : list XR) : vquantile (DT := IsNoneXR) None m xs = Ok None.
Proof. reflexivity. Qed.

(* the quantile of a float series (exact reals) does not see inserted nulls: every q (in range, out of range,
   NaN), every method, every insertion pattern *)
Theorem vquantile_insert (q : XR) (m : qmethod) (xs ys : list XR) :
  NullInsert (D := IsNoneXR) xs ys -> vquantile q m ys = vquantile q m xs.
Proof.
  intros H. pose proof (valid_null_insert _ _ H) as Hv. destruct q as [q|]; [|rewrite !vquantile_nan_q; reflexivity].
  destruct (Rle_dec 0 q) as [H0|H0]; [destruct (Rle_dec q 1) as [H1|H1]|].
  - assert (Hq : (0 <= q <= 1)%R) by (split; assumption).
    destruct (valid xs) as [|x l] eqn:E.
    + rewrite (vquantile_all_null ys q m Hq Hv), (vquantile_all_null xs q m Hq E). reflexivity.
    + destruct (sorted_exists false (x :: l)) as (s & Hs & HP).
      assert (Hne : s <> []) by (intros ->; apply Permutation_nil in HP; discriminate).
      assert (HPx : Permutation s (valid xs)) by (rewrite E; exact HP).
      assert (HPy : Permutation s (valid ys)) by (rewrite Hv; exact HP).
      rewrite (vquantile_spec ys q m s Hq Hs HPy Hne), (vquantile_spec xs q m s Hq Hs HPx Hne). reflexivity.
  - rewrite !vquantile_bad_q; [reflexivity|lra|lra].
  - rewrite !vquantile_bad_q; [reflexivity|lra|lra].
Qed.

Theorem vmedian_insert (xs ys : list XR) :
  NullInsert (D := IsNoneXR) xs ys -> vmedian ys = vmedian xs.
Proof. intros H. unfold vmedian. rewrite (vquantile_insert _ _ _ _ H). reflexivity. Qed.
