(* Proofs/Audit20.v — clause-by-clause audit of property C20 (notes/C20.md, "Audit matrix"): what the audit added.
   Part 1  winsorize at EVERY carrier (so also Coq's binary64 `float`), every dictionary, method and parameter
           (omitted, NaN, out of range): the unconditional shape of the result; one value per input; nulls stay
           null; a value is bit-identical to the cast input or sits on one of two bounds.
   Part 2  winsorize at option R for the parameters OUTSIDE the quantifier (q in (1/2, 1], k < 0, NaN): what the
           code does there; the scope hypothesis of the order-preservation theorem is exactly needed.
   Part 3  half_life: the oracle hypothesis is exactly needed (which oracles panic); the threshold theorem for
           every L; totality / probes at every carrier.
   Part 4  the Pearson arm of vcorr.                                                                        *)
From Coq Require Import Reals Lra Lia List Sorting Permutation ZArith Bool.
From Tevec Require Import Base.Prelude Model.MapOps Spec.MapOps Proofs.MapOps.
From Tevec Require Import Base.Num Base.XR Spec.Stats Spec.Stats2 Model.SortCmp Model.Quantile Model.Rank
     Model.Agg Model.HalfLife Model.Composite
     Proofs.SortCmp Proofs.OrderXR Proofs.Quantile Proofs.QuantileMono Proofs.Partition Proofs.Rank
     Proofs.AggGeneric Proofs.AggXR Proofs.Agg Proofs.HalfLife Proofs.Composite Proofs.Spearman
     Proofs.HalfLifeExec Proofs.HalfLifeProbes.
Import ListNotations.

(* ================================================================================================ *)
(* Part 1.  winsorize, every carrier                                                                  *)
(* ================================================================================================ *)
Section Shape.
  Context {A : Type} {NA : Num A} {NF : NumFloor A} {T : Type} {DT : IsNone T A}.

  (* vclip's element function on the f64 iterator: `>` / `<` of the carrier, NaN bounds are null bounds *)
  Definition clipA (lo hi : A) (x : A) : A := clip_elem (fdict (A := A)) (fun v => v) nltb lo hi x.

  Lemma clip_f64_map (lo hi : A) (ys : list A) : clip_f64 lo hi ys = Ok (map (clipA lo hi) ys).
  Proof. unfold clip_f64. apply (vclip_spec (fdict (A := A)) (fun v => v) nltb (unwrap_ok_float _ _)). Qed.

  (* the value is the input, or (only for a non-null input) one of the two bounds; nullness never changes *)
  Lemma clipA_cases (lo hi x : A) :
    nisnan (clipA lo hi x) = nisnan x /\
    (clipA lo hi x = x \/
     (nisnan x = false /\ ((nisnan lo = false /\ nltb x lo = true /\ clipA lo hi x = lo) \/
                           (nisnan hi = false /\ nltb hi x = true /\ clipA lo hi x = hi)))).
  Proof.
    split; [apply (clip_elem_nullness (fdict (A := A)) (fun v => v) nltb lo hi x)|].
    unfold clipA, clip_elem, fdict. cbn [MapOps.is_none dict_float].
    destruct (nisnan x) eqn:Hx; [left; reflexivity|].
    destruct (nisnan lo) eqn:Hl; cbn [negb andb].
    - destruct (nisnan hi) eqn:Hh; cbn [negb andb]; [left; reflexivity|].
      destruct (nltb hi x) eqn:E; [right; split; [reflexivity|]; right; auto|left; reflexivity].
    - destruct (nltb x lo) eqn:E1; [right; split; [reflexivity|]; left; auto|].
      destruct (nisnan hi) eqn:Hh; cbn [negb andb]; [left; reflexivity|].
      destruct (nltb hi x) eqn:E; [right; split; [reflexivity|]; right; auto|left; reflexivity].
  Qed.

  (* a value strictly inside the (non-null) bounds is returned as it is — bit for bit *)
  Lemma clipA_inside (lo hi x : A) :
    (nisnan lo = false -> nltb x lo = false) -> (nisnan hi = false -> nltb hi x = false) -> clipA lo hi x = x.
  Proof.
    intros H1 H2. destruct (clipA_cases lo hi x) as [_ [E|(_ & [(Hl & Hc & _)|(Hh & Hc & _)])]]; [exact E| |].
    - rewrite (H1 Hl) in Hc. discriminate.
    - rewrite (H2 Hh) in Hc. discriminate.
  Qed.

  (* THE SHAPE: every method, every parameter (omitted, NaN, out of range), every series, every dictionary.
     `Panic` is the propagated panic of the order-statistic selection (excluded at option R below, by the
     correspondence at binary64); `Ok None` = the Err of vquantile, Quantile method only. *)
  Theorem winsorize_shape (m : wmethod) (p : option A) (xs : list T) :
    (exists k, winsorize m p xs = Panic k) \/
    (m = WQuantile /\ winsorize m p xs = Ok None) \/
    winsorize m p xs = Ok (Some (iter_cast xs)) \/
    (exists lo hi, winsorize m p xs = Ok (Some (map (clipA lo hi) (iter_cast xs)))).
  Proof.
    destruct m; unfold winsorize.
    - destruct (vquantile _ Linear xs) as [[mn|]|k]; cbn [bind];
        [|right; left; split; reflexivity|left; eexists; reflexivity].
      destruct (vquantile _ Linear xs) as [[mx|]|k]; cbn [bind];
        [|right; left; split; reflexivity|left; eexists; reflexivity].
      rewrite clip_f64_map. cbn [bind]. right; right; right. do 2 eexists. reflexivity.
    - destruct (vmedian xs) as [median|k]; cbn [bind]; [|left; eexists; reflexivity].
      destruct (negb (nisnan median)); [|right; right; left; reflexivity].
      destruct (vmedian _) as [mad|k]; cbn [bind]; [|left; eexists; reflexivity].
      rewrite clip_f64_map. cbn [bind]. right; right; right. do 2 eexists. reflexivity.
    - destruct (_ && _); [|right; right; left; reflexivity].
      rewrite clip_f64_map. cbn [bind]. right; right; right. do 2 eexists. reflexivity.
  Qed.

  (* the Sigma method never fails: no Err, no panic *)
  Theorem winsorize_sigma_returns (p : option A) (xs : list T) :
    exists r, winsorize WSigma p xs = Ok (Some r).
  Proof.
    unfold winsorize. destruct (_ && _); [|eexists; reflexivity].
    rewrite clip_f64_map. cbn [bind]. eexists. reflexivity.
  Qed.

  (* hence, WHENEVER winsorize returns a series (no scope hypothesis at all): one value per input, in the input's
     order; the null pattern of the cast input is kept; there are two bounds such that every output is the cast input
     itself or — for a non-null input only — one of the two bounds *)
  Theorem winsorize_returns (m : wmethod) (p : option A) (xs : list T) (r : list A) :
    winsorize m p xs = Ok (Some r) ->
    length r = length xs /\
    exists lo hi, forall i x, nth_error xs i = Some x ->
      exists y, nth_error r i = Some y /\ nisnan y = nisnan (tcast x) /\
        (y = tcast x \/ (nisnan (tcast x) = false /\ ((nltb (tcast x) lo = true /\ y = lo) \/ (nltb hi (tcast x) = true /\ y = hi)))).
  Proof.
    intros Hr.
    destruct (winsorize_shape m p xs) as [(k & E)|[(_ & E)|[E|(lo & hi & E)]]]; rewrite E in Hr; try discriminate.
    - injection Hr as <-. split; [apply map_length|]. exists nnan, nnan. intros i x Hi.
      exists (tcast x). unfold iter_cast. rewrite nth_error_map, Hi. split; [reflexivity|]. split; [reflexivity|left; reflexivity].
    - injection Hr as <-. split; [unfold iter_cast; rewrite !map_length; reflexivity|]. exists lo, hi. intros i x Hi.
      exists (clipA lo hi (tcast x)). unfold iter_cast. rewrite !nth_error_map, Hi. split; [reflexivity|].
      destruct (clipA_cases lo hi (tcast x)) as [Hn Hc]. split; [exact Hn|].
      destruct Hc as [Hc|(Hx & [(_ & Hc & Hy)|(_ & Hc & Hy)])]; [left; exact Hc|right|right]; (split; [exact Hx|]); auto.
  Qed.

  (* a null input position is a null output position, for every carrier whose NaN is a NaN *)
  Corollary winsorize_keeps_nulls (m : wmethod) (p : option A) (xs : list T) (r : list A) :
    nisnan (nnan : A) = true ->
    winsorize m p xs = Ok (Some r) ->
    forall i x, nth_error xs i = Some x -> is_none x = true -> nth_error r i = Some nnan.
  Proof.
    intros Hnan Hr i x Hi Hx. destruct (winsorize_returns m p xs r Hr) as (_ & lo & hi & H).
    destruct (H i x Hi) as (y & Hy & _ & Hc). rewrite Hy. f_equal.
    assert (Ec : tcast x = nnan) by (unfold tcast; rewrite Hx; reflexivity).
    rewrite Ec in Hc. destruct Hc as [Hc|(Hc & _)]; [exact Hc|congruence].
  Qed.
End Shape.

(* ================================================================================================ *)
(* Part 2.  winsorize at option R: the parameters OUTSIDE the quantifier                               *)
(* ================================================================================================ *)
Local Open Scope R_scope.

(* clipping with REVERSED bounds (hi <= lo): every value below lo goes to lo, every other value to hi *)
Definition clipR_rev (lo hi x : R) : R := if Rlt_dec x lo then lo else hi.
Lemma clipR_reversed (lo hi x : R) : hi <= lo -> clipR lo hi x = clipR_rev lo hi x.
Proof.
  intros H. unfold clipR, clipR_rev. destruct (Rlt_dec x lo); [reflexivity|].
  destruct (Rlt_dec hi x); [reflexivity|lra].
Qed.
Lemma clip_series_reversed (lo hi : R) (xs : list XR) :
  hi <= lo -> clip_series lo hi xs = map (option_map (clipR_rev lo hi)) xs.
Proof.
  intros H. unfold clip_series. apply map_ext. intros [x|]; [|reflexivity]. cbn. rewrite clipR_reversed by exact H. reflexivity.
Qed.

Section OutOfScope.
  Variable xs : list XR.
  Local Notation V := (valid xs).

  (* ---- the Median method for EVERY multiplier, NaN included: never an Err, never a panic ---- *)
  Theorem winsorize_median_any (k : XR) (s s' : list R) :
    Sorted Rle s -> Permutation s V -> s <> [] ->
    let med := quantile_spec s (1 / 2) Linear in
    Sorted Rle s' -> Permutation s' (map (fun x => Rabs (x - med)) V) ->
    let mad := quantile_spec s' (1 / 2) Linear in
    winsorize (DT := IsNoneXR) WMedian (Some k) xs
    = Ok (Some (match k with Some k => clip_series (med - k * mad) (med + k * mad) xs | None => xs end)).
  Proof.
    intros Hs HP Hne med Hs' HP' mad. destruct k as [k|]; [apply winsorize_median; assumption|].
    unfold winsorize.
    rewrite (vmedian_spec xs s Hs HP Hne). cbn [bind]. fold med.
    change (nisnan (Some med)) with false. cbn [negb].
    assert (Hdev : map (fun v : XR => nabs (nsub (tcast (DT := IsNoneXR) v) (Some med))) xs = absdev med xs).
    { unfold absdev. apply map_ext. intros [x|]; reflexivity. }
    rewrite Hdev.
    assert (Hne' : s' <> []).
    { intros ->. apply Permutation_nil in HP'. apply map_eq_nil in HP'.
      rewrite HP' in HP. apply Permutation_sym, Permutation_nil in HP. contradiction. }
    assert (HP'' : Permutation s' (valid (absdev med xs))) by (rewrite valid_absdev; exact HP').
    change (@DF XR NumXR) with IsNoneXR.
    rewrite (vmedian_spec (absdev med xs) s' Hs' HP'' Hne'). cbn [bind]. fold mad.
    change (nmul (@None R) (Some mad)) with (@None R).
    change (nsub (Some med) (@None R)) with (@None R). change (nadd (Some med) (@None R)) with (@None R).
    rewrite iter_cast_xr, clip_f64_null_bounds. reflexivity.
  Qed.

  Theorem winsorize_median_all_null_any (k : XR) :
    V = [] -> winsorize (DT := IsNoneXR) WMedian (Some k) xs = Ok (Some xs).
  Proof.
    intros Hv. unfold winsorize, vmedian. rewrite nhalf_xr.
    rewrite (vquantile_all_null xs (1 / 2) Linear) by (try assumption; lra). cbn [bind].
    change (nisnan (@None R)) with true. cbn [negb]. rewrite iter_cast_xr. reflexivity.
  Qed.

  (* ---- the Sigma method with a NaN multiplier: the series unchanged ---- *)
  Theorem winsorize_sigma_nan : winsorize (DT := IsNoneXR) WSigma (Some None) xs = Ok (Some xs).
  Proof.
    unfold winsorize.
    destruct (negb (nisnan (fst (vmean_var (@idA XR) 2 xs))) && negb (nisnan (snd (vmean_var (@idA XR) 2 xs))) &&
              nltb neps (snd (vmean_var (@idA XR) 2 xs))).
    - assert (E1 : forall x : XR, nmul (@None R) x = None) by reflexivity.
      assert (E2 : forall x : XR, nsub x (@None R) = None) by (intros [x|]; reflexivity).
      assert (E3 : forall x : XR, nadd x (@None R) = None) by (intros [x|]; reflexivity).
      rewrite E1, E2, E3, iter_cast_xr, clip_f64_null_bounds. reflexivity.
    - rewrite iter_cast_xr. reflexivity.
  Qed.

  (* ---- the Quantile method with a NaN parameter: Err (the range test `0 <= q && q <= 1` is false on NaN) ---- *)
  Theorem winsorize_quantile_nan : winsorize (DT := IsNoneXR) WQuantile (Some None) xs = Ok None.
  Proof. reflexivity. Qed.
End OutOfScope.

(* ---- the bounds when the parameter is outside the quantifier: REVERSED ---------------------------- *)
Theorem quantile_bounds_reversed (s : list R) (q : R) :
  Sorted Rle s -> s <> [] -> 1 / 2 <= q <= 1 ->
  quantile_spec s (1 - q) Linear <= quantile_spec s q Linear.
Proof. intros Hs Hne Hq. apply quantile_mono; try assumption; lra. Qed.
Theorem median_bounds_reversed (med mad k : R) : 0 <= mad -> k <= 0 -> med + k * mad <= med - k * mad.
Proof. intros. nra. Qed.
Theorem sigma_bounds_reversed (mean var k : R) : k <= 0 -> mean + k * sqrt var <= mean - k * sqrt var.
Proof. intros. pose proof (sqrt_pos var). nra. Qed.

(* the effective parameter: the default when omitted *)
Definition weff (m : wmethod) (p : option XR) : XR := match p with Some v => v | None => Some (wdefault m) end.
Lemma winsorize_weff (m : wmethod) (p : option XR) (xs : list XR) :
  winsorize (DT := IsNoneXR) m p xs = winsorize (DT := IsNoneXR) m (Some (weff m p)) xs.
Proof. destruct p as [v|]; [reflexivity|apply winsorize_default]. Qed.

(* EVERY method, EVERY parameter (omitted, NaN, any real), every series: never a panic; an Err exactly for the
   Quantile method with q NaN or outside [0, 1]; otherwise the input or ONE clip_series (bounds possibly reversed) *)
Theorem winsorize_total_xr (m : wmethod) (p : option XR) (xs : list XR) :
  let rejected := m = WQuantile /\ (weff m p = None \/ exists q, weff m p = Some q /\ ~ 0 <= q <= 1) in
  (rejected /\ winsorize (DT := IsNoneXR) m p xs = Ok None) \/
  (~ rejected /\ exists r, winsorize (DT := IsNoneXR) m p xs = Ok (Some r) /\
                           (r = xs \/ exists lo hi, r = clip_series lo hi xs)).
Proof.
  cbv zeta. rewrite winsorize_weff. set (e := weff m p). clearbody e.
  destruct (sorted_exists false (valid xs)) as (s & Hs & HP).
  destruct m.
  - destruct e as [q|].
    + destruct (Rle_dec 0 q) as [H0|H0]; [destruct (Rle_dec q 1) as [H1|H1]|].
      * right. split; [intros (_ & [E|(q' & E & Hq')]); [discriminate|injection E as <-; apply Hq'; split; assumption]|].
        destruct (list_eq_dec Req_EM_T (valid xs) []) as [Hv|Hv].
        { exists xs. split; [apply winsorize_quantile_all_null; [split|]; assumption|left; reflexivity]. }
        assert (Hne : s <> []) by (intros ->; apply Permutation_nil in HP; contradiction).
        eexists. split; [apply (winsorize_quantile xs q s); try assumption; split; assumption|].
        right. do 2 eexists. reflexivity.
      * left. split; [split; [reflexivity|right; exists q; split; [reflexivity|lra]]|].
        apply winsorize_quantile_bad_q. lra.
      * left. split; [split; [reflexivity|right; exists q; split; [reflexivity|lra]]|].
        apply winsorize_quantile_bad_q. lra.
    + left. split; [split; [reflexivity|left; reflexivity]|reflexivity].
  - right. split; [intros (E & _); discriminate|].
    destruct (list_eq_dec Req_EM_T (valid xs) []) as [Hv|Hv].
    { exists xs. split; [apply winsorize_median_all_null_any; exact Hv|left; reflexivity]. }
    assert (Hne : s <> []) by (intros ->; apply Permutation_nil in HP; contradiction).
    set (med := quantile_spec s (1 / 2) Linear).
    destruct (sorted_exists false (map (fun x => Rabs (x - med)) (valid xs))) as (s' & Hs' & HP').
    eexists. split; [apply (winsorize_median_any xs e s s'); assumption|].
    destruct e as [k|]; [right; do 2 eexists; reflexivity|left; reflexivity].
  - right. split; [intros (E & _); discriminate|].
    destruct e as [k|].
    + eexists. split; [apply winsorize_sigma|].
      destruct (length (valid xs) <? 2)%nat; [left; reflexivity|].
      destruct (Rle_dec (popvarR (valid xs)) EPS); [left; reflexivity|]. right. do 2 eexists. reflexivity.
    + exists xs. split; [apply winsorize_sigma_nan|left; reflexivity].
Qed.

(* the parameters just outside the quantifier: q in (1/2, 1], k < 0 *)
Definition wparam_reversed (m : wmethod) (p : R) : Prop :=
  match m with WQuantile => 1 / 2 < p <= 1 | _ => p < 0 end.

(* there the code still returns a series, but it is NOT a clip to an interval: the bounds are reversed, every valid
   value below the first bound is moved UP onto it and every other valid value is moved onto the second, lower one *)
Theorem winsorize_reversed_scope (m : wmethod) (p : R) (xs : list XR) :
  wparam_reversed m p ->
  exists r, winsorize (DT := IsNoneXR) m (Some (Some p)) xs = Ok (Some r) /\
            (r = xs \/ exists lo hi, hi <= lo /\ r = clip_series lo hi xs /\
                                     r = map (option_map (clipR_rev lo hi)) xs).
Proof.
  intros Hp.
  destruct (sorted_exists false (valid xs)) as (s & Hs & HP).
  destruct (list_eq_dec Req_EM_T (valid xs) []) as [Hv|Hv].
  { exists xs. split; [|left; reflexivity]. destruct m.
    - apply winsorize_quantile_all_null; [cbn in Hp; lra|exact Hv].
    - apply winsorize_median_all_null. exact Hv.
    - rewrite winsorize_sigma, Hv. reflexivity. }
  assert (Hne : s <> []) by (intros ->; apply Permutation_nil in HP; contradiction).
  destruct m.
  - cbn in Hp. eexists. split; [apply (winsorize_quantile xs p s); try assumption; lra|].
    right. do 2 eexists. assert (Hrev : quantile_spec s (1 - p) Linear <= quantile_spec s p Linear)
      by (apply quantile_bounds_reversed; try assumption; lra).
    split; [exact Hrev|]. split; [reflexivity|apply clip_series_reversed; exact Hrev].
  - cbn in Hp. set (med := quantile_spec s (1 / 2) Linear).
    destruct (sorted_exists false (map (fun x => Rabs (x - med)) (valid xs))) as (s' & Hs' & HP').
    eexists. split; [apply (winsorize_median xs p s s'); assumption|].
    right. do 2 eexists.
    assert (Hrev : med + p * quantile_spec s' (1 / 2) Linear <= med - p * quantile_spec s' (1 / 2) Linear).
    { apply median_bounds_reversed; [|lra]. apply (mad_nonneg s' (valid xs) med); try assumption.
      intros ->. apply Permutation_nil in HP'. apply map_eq_nil in HP'. contradiction. }
    split; [exact Hrev|]. split; [reflexivity|apply clip_series_reversed; exact Hrev].
  - cbn in Hp. eexists. split; [apply winsorize_sigma|].
    destruct (length (valid xs) <? 2)%nat; [left; reflexivity|].
    destruct (Rle_dec (popvarR (valid xs)) EPS); [left; reflexivity|].
    right. do 2 eexists.
    assert (Hrev : meanR (valid xs) + p * sqrt (samplevarR (valid xs)) <= meanR (valid xs) - p * sqrt (samplevarR (valid xs)))
      by (apply sigma_bounds_reversed; lra).
    split; [exact Hrev|]. split; [reflexivity|apply clip_series_reversed; exact Hrev].
Qed.

(* ---- the scope hypotheses of C20_winsorize_order_preserving are exactly needed: witnesses ---- *)
Lemma sorted_123 : Sorted Rle [1; 2; 3] /\ Permutation [1; 2; 3] (valid [Some 1; Some 2; Some 3]).
Proof. split; [repeat constructor; lra|reflexivity]. Qed.

Lemma q123_1 : quantile_spec [1; 2; 3] 1 Linear = 3.
Proof.
  unfold quantile_spec. cbn [length Nat.sub INR]. replace ((1 + 1) * 1) with (IZR 2) by lra.
  rewrite Rfloor_IZR, Rceil_IZR. change (Z.to_nat 2) with 2%nat. cbn [nth]. lra.
Qed.
Lemma q123_0 : quantile_spec [1; 2; 3] (1 - 1) Linear = 1.
Proof.
  unfold quantile_spec. cbn [length Nat.sub INR]. replace ((1 + 1) * (1 - 1)) with (IZR 0) by lra.
  rewrite Rfloor_IZR, Rceil_IZR. change (Z.to_nat 0) with 0%nat. cbn [nth]. lra.
Qed.
Lemma clip_31_123 : clip_series 3 1 [Some 1; Some 2; Some 3] = [Some 3; Some 3; Some 1].
Proof.
  unfold clip_series, clipR. cbn [map option_map].
  destruct (Rlt_dec 1 3); [|lra]. destruct (Rlt_dec 2 3); [|lra]. destruct (Rlt_dec 3 3); [lra|].
  destruct (Rlt_dec 1 3); [|lra]. reflexivity.
Qed.

(* Quantile, q = 1: [1; 2; 3] -> [3; 3; 1] *)
Theorem winsorize_quantile_q1_witness :
  winsorize (DT := IsNoneXR) WQuantile (Some (Some 1)) [Some 1; Some 2; Some 3] = Ok (Some [Some 3; Some 3; Some 1]).
Proof.
  destruct sorted_123 as [Hs HP].
  rewrite (winsorize_quantile [Some 1; Some 2; Some 3] 1 [1; 2; 3] ltac:(lra) Hs HP ltac:(discriminate)).
  rewrite q123_1, q123_0, clip_31_123. reflexivity.
Qed.

Lemma q_half_3 (a b c : R) : quantile_spec [a; b; c] (1 / 2) Linear = b.
Proof.
  unfold quantile_spec. cbn [length Nat.sub INR]. replace ((1 + 1) * (1 / 2)) with (IZR 1) by lra.
  rewrite Rfloor_IZR, Rceil_IZR. change (Z.to_nat 1) with 1%nat. cbn [nth]. lra.
Qed.

(* Median, k = -1: median 2, MAD = median of [1; 0; 1] = 1, bounds (3, 1): [1; 2; 3] -> [3; 3; 1] *)
Theorem winsorize_median_kneg_witness :
  winsorize (DT := IsNoneXR) WMedian (Some (Some (-1))) [Some 1; Some 2; Some 3] = Ok (Some [Some 3; Some 3; Some 1]).
Proof.
  destruct sorted_123 as [Hs HP].
  assert (Hs' : Sorted Rle [0; 1; 1]) by (repeat constructor; lra).
  assert (HP' : Permutation [0; 1; 1]
                  (map (fun x => Rabs (x - quantile_spec [1; 2; 3] (1 / 2) Linear)) (valid [Some 1; Some 2; Some 3]))).
  { rewrite q_half_3. cbn [valid flat_map app map].
    replace (Rabs (1 - 2)) with 1 by (rewrite Rabs_left; lra).
    replace (Rabs (2 - 2)) with 0 by (rewrite Rabs_right; lra).
    replace (Rabs (3 - 2)) with 1 by (rewrite Rabs_right; lra).
    apply perm_swap. }
  rewrite (winsorize_median [Some 1; Some 2; Some 3] (-1) [1; 2; 3] [0; 1; 1] Hs HP ltac:(discriminate) Hs' HP').
  rewrite !q_half_3. replace (2 - -1 * 1) with 3 by lra. replace (2 + -1 * 1) with 1 by lra.
  rewrite clip_31_123. reflexivity.
Qed.

(* order preservation FAILS on these outputs: 2 <= 3 but 3 > 1 *)
Lemma order_broken_331 :
  ~ (forall i j x x' y y', nth_error [Some 1; Some 2; Some 3] i = Some (Some x) ->
       nth_error [Some 1; Some 2; Some 3] j = Some (Some x') ->
       nth_error [Some 3; Some 3; Some 1] i = Some (Some y) -> nth_error [Some 3; Some 3; Some 1] j = Some (Some y') ->
       x <= x' -> y <= y').
Proof. intros H. specialize (H 1%nat 2%nat 2 3 3 1 eq_refl eq_refl eq_refl eq_refl ltac:(lra)). lra. Qed.

(* ================================================================================================ *)
(* Part 3.  half_life                                                                                  *)
(* ================================================================================================ *)
Local Close Scope R_scope.

(* ---- 3a. ANY oracle: the search never runs out of fuel; it returns a lag in range or panics with the underflow of
        `n - last_n`, and it panics exactly when the oracle stays true on the whole doubling sequence, i.e. also at
        the first power of two >= len — a lag at which the real autocorrelation is null (autocorr_out).  So the
        hypothesis "false for lags >= len" of half_life_range is needed only at that one lag, and it IS needed. *)
Section AnyOracle.
  Variable above : nat -> bool.
  Variable len : nat.
  Hypothesis Hlen : 1 <= len.

  Lemma doubling_any fuel : forall n last i,
    len < fuel + i ->
    (forall t, t < i -> above (2 ^ t) = true) ->
    (i = 0 /\ n = 0 /\ last = 0) \/ (exists j, i = S j /\ n = 2 ^ j /\ last = n /\ prev_pow j < len) ->
    (exists j, first_fail above j /\ prev_pow j < len /\ doubling above len fuel n last i = Some (2 ^ j, prev_pow j)) \/
    (exists j, (forall t, t <= j -> above (2 ^ t) = true) /\ len <= 2 ^ j /\ prev_pow j < len /\
               doubling above len fuel n last i = Some (2 ^ j, 2 ^ j)).
  Proof.
    induction fuel as [|fuel IH]; intros n last i Hf Hall Hinv.
    - exfalso. destruct Hinv as [(-> & _)|(j & -> & _ & _ & Hp)]; [lia|].
      destruct j as [|j]; [lia|]. cbn [prev_pow] in Hp. pose proof (pow2_gt j). lia.
    - cbn [doubling]. destruct (n <? len) eqn:En.
      + apply Nat.ltb_lt in En. destruct (above (2 ^ i)) eqn:Ea.
        * apply IH; [lia| |].
          -- intros t Ht. destruct (Nat.eq_dec t i) as [->|Hne]; [exact Ea|apply Hall; lia].
          -- right. exists i. repeat split; try reflexivity.
             destruct Hinv as [(-> & _)|(j & -> & -> & _ & _)]; [cbn; lia|cbn [prev_pow]; exact En].
        * left. exists i. split; [split; [exact Ea|exact Hall]|]. split.
          -- destruct Hinv as [(-> & _)|(j & -> & -> & _ & _)]; [cbn; lia|cbn [prev_pow]; exact En].
          -- destruct Hinv as [(-> & -> & ->)|(j & -> & -> & -> & _)]; reflexivity.
      + apply Nat.ltb_ge in En. destruct Hinv as [(-> & -> & ->)|(j & -> & -> & -> & Hp)]; [lia|].
        right. exists j. split; [intros t Ht; apply Hall; lia|]. split; [exact En|]. split; [exact Hp|reflexivity].
  Qed.

  Lemma bisect_underflow fuel n last : n < last -> bisect above (S fuel) n last = Some (Panic Underflow).
  Proof.
    intros H. rewrite bisect_unfold. unfold usub.
    replace (last <=? n) with false by (symmetry; apply Nat.leb_gt; exact H). reflexivity.
  Qed.

  Definition doubling_all_above : Prop := forall t, prev_pow t < len -> above (2 ^ t) = true.

  Theorem half_life_any_oracle :
    (exists j, first_fail above j /\ prev_pow j < len /\
       exists r, half_life above len = Some (Ok r) /\ r <= len - 1 /\ (r = 0 <-> len < 2)) \/
    (doubling_all_above /\ half_life above len = Some (Panic Underflow)).
  Proof.
    unfold half_life. replace (len =? 0) with false by (symmetry; apply Nat.eqb_neq; lia).
    destruct (doubling_any (S (S len)) 0 0 0 ltac:(lia) ltac:(intros t Ht; lia) ltac:(left; auto))
      as [(j & F & Hp & ->)|(j & Hall & Hge & Hp & ->)].
    - left. exists j. split; [exact F|]. split; [exact Hp|].
      pose proof (prev_pow_lt len Hlen j) as Hlt.
      destruct (bisect_spec above 1 ltac:(lia) len (Nat.min (2 ^ j) (len - 1)) (prev_pow j) ltac:(lia) ltac:(lia))
        as (r & Hr & Hb & Hs).
      exists r. split; [exact Hr|]. split; [lia|]. split; [|lia]. intros ->.
      destruct (Nat.lt_ge_cases len 2) as [L|L]; [exact L|exfalso].
      assert (prev_pow j < Nat.min (2 ^ j) (len - 1)) by (destruct j; cbn [prev_pow] in *; lia). lia.
    - right. split.
      + intros t Ht. apply Hall. destruct (Nat.le_gt_cases t j) as [L|L]; [exact L|exfalso].
        destruct t as [|t]; [lia|]. cbn [prev_pow] in Ht.
        pose proof (Nat.pow_le_mono_r 2 j t ltac:(lia) ltac:(lia)). lia.
      + apply bisect_underflow. lia.
  Qed.

  (* the two cases exclude each other: an iff *)
  Corollary half_life_panics_iff : half_life above len = Some (Panic Underflow) <-> doubling_all_above.
  Proof.
    destruct half_life_any_oracle as [(j & [Ff _] & Hp & r & Hr & _)|(Hall & Hr)].
    - split; [rewrite Hr; discriminate|]. intros Hall. rewrite (Hall j Hp) in Ff. discriminate.
    - split; [intros _; exact Hall|intros _; exact Hr].
  Qed.

  (* ---- 3b. the threshold theorem for EVERY L: L = 0 ("never above") behaves as L = 1 ---- *)
  Theorem half_life_threshold_any_L (L : nat) :
    (forall k, len <= k -> above k = false) ->
    (forall k, 1 <= k -> above k = (k <? L)) ->
    half_life above len = Some (Ok (Nat.min (Nat.max L 1) (len - 1))).
  Proof.
    intros Hout Hthr. apply half_life_threshold_from_1; try assumption; [lia|].
    intros k Hk. rewrite (Hthr k Hk). destruct L as [|L].
    - cbn [Nat.max]. symmetry. apply Nat.ltb_ge. exact Hk.
    - replace (Nat.max (S L) 1) with (S L) by lia. reflexivity.
  Qed.
End AnyOracle.

(* the smallest witness that the hypothesis is needed: an oracle that is always true, len = 3 *)
Lemma half_life_always_true_panics : half_life (fun _ => true) 3 = Some (Panic Underflow).
Proof. reflexivity. Qed.

(* ---- 3c. the executable half_life at EVERY carrier (binary64 included): what totality needs is only that the carrier's
        NaN is a NaN and that T::none() is a null.  The proofs of Proofs/HalfLifeExec.v never use option R. ---- *)
Section ExecAny.
  Context {A : Type} {NA : Num A} {T : Type} {DT : IsNone T A}.
  Variable dm : NullDict T A.
  Hypothesis nan_is_nan : nisnan (nnan : A) = true.

  Lemma lagged_out_any (nv : T) (lag : nat) (xs : list T) :
    length xs <= lag -> lagged nv lag xs = repeat nv (length xs).
  Proof.
    intros H. unfold lagged, shift.
    replace (Z.of_nat (length xs) <=? Z.abs (Z.of_nat lag))%Z with true; [reflexivity|].
    symmetry. apply Z.leb_le. lia.
  Qed.

  Lemma corr_fold_all_null_any (nv : T) (Hnv : Num.is_none nv = true) (xs : list T) :
    forall n st, fold_left (corr_step (DT := DT) (DT2 := DT) (@idA A)) (combine xs (repeat nv n)) st = st.
  Proof.
    induction xs as [|x xs IH]; intros n st; [reflexivity|].
    destruct n as [|n]; [reflexivity|]. cbn [repeat combine fold_left].
    assert (Hs : corr_step (DT := DT) (DT2 := DT) (@idA A) st (x, nv) = st).
    { destruct st as [[[[[c sa] s2a] sb] s2b] sab]. unfold corr_step. cbn [fst snd].
      unfold not_none. rewrite Hnv. rewrite andb_false_r. reflexivity. }
    rewrite Hs. apply IH.
  Qed.

  (* a lag >= len leaves no complete pair: the correlation is literally the carrier's NaN *)
  Lemma autocorr_out_any (mp : nat) (nv : T) (Hnv : Num.is_none nv = true) (xs : list T) (lag : nat) :
    length xs <= lag -> autocorr (DT := DT) mp nv xs lag = nnan.
  Proof.
    intros H. unfold autocorr, vcorr_pearson. rewrite (lagged_out_any nv lag xs H), (corr_fold_all_null_any nv Hnv).
    replace (Nat.max mp 2 <=? 0) with false by (symmetry; apply Nat.leb_gt; lia). reflexivity.
  Qed.

  Lemma above_half_out_any (mp : nat) (nv : T) (Hnv : Num.is_none nv = true) (xs : list T) (lag : nat) :
    length xs <= lag -> above_half (DT := DT) mp nv xs lag = false.
  Proof.
    intros H. unfold above_half. rewrite (autocorr_out_any mp nv Hnv xs lag H), nan_is_nan, orb_true_r. reflexivity.
  Qed.

  Theorem half_life_exec_total_any (mp : option nat) (nv : T) (xs : list T) :
    MapOps.none dm = Ok nv -> Num.is_none nv = true ->
    exists r, half_life_exec (DT := DT) dm mp xs = Some (Ok r) /\
              r <= length xs - 1 /\ (r = 0 <-> length xs < 2).
  Proof.
    intros Hn Hnv. unfold half_life_exec.
    destruct (length xs =? 0) eqn:E.
    - apply Nat.eqb_eq in E. exists 0. split; [reflexivity|]. split; lia.
    - apply Nat.eqb_neq in E. rewrite Hn.
      apply half_life_range; [|lia].
      intros k Hk. apply above_half_out_any; assumption.
  Qed.

  Theorem half_life_exec_threshold_any (mp : option nat) (nv : T) (xs : list T) (L : nat) :
    MapOps.none dm = Ok nv -> Num.is_none nv = true -> xs <> [] ->
    (forall k, 1 <= k -> above_half (DT := DT) (mp_default mp (length xs)) nv xs k = (k <? L)) ->
    half_life_exec (DT := DT) dm mp xs = Some (Ok (Nat.min (Nat.max L 1) (length xs - 1))).
  Proof.
    intros Hn Hnv Hne Hthr. unfold half_life_exec.
    assert (E : length xs <> 0) by (destruct xs; [contradiction|cbn; lia]).
    replace (length xs =? 0) with false by (symmetry; apply Nat.eqb_neq; exact E).
    rewrite Hn. apply half_life_threshold_any_L; [lia| |exact Hthr].
    intros k Hk. apply above_half_out_any; assumption.
  Qed.

  Theorem half_life_exec_probes_any (mp : option nat) (nv : T) (xs : list T) :
    MapOps.none dm = Ok nv -> Num.is_none nv = true -> xs <> [] ->
    let len := length xs in
    let ab := above_half (DT := DT) (mp_default mp len) nv xs in
    exists j r,
      first_fail ab j /\
      half_life_exec (DT := DT) dm mp xs = Some (Ok r) /\
      (let n := Nat.min (2 ^ j) (len - 1) in let last := prev_pow j in
       half_life_tr ab len = (Some (Ok r), pows 0 (S j) ++ mids ab (n - last) n last) /\
       Forall (fun m => last < m < n) (mids ab (n - last) n last)) /\
      prev_pow j <= r <= Nat.min (2 ^ j) (len - 1) /\ (prev_pow j < len - 1 -> prev_pow j < r) /\
      (r = len - 1 \/ (ab r = false /\ (r = 1 \/ ab (r - 1) = true))).
  Proof.
    intros Hn Hnv Hne len ab.
    assert (Hlen : 1 <= len) by (unfold len; destruct xs; [contradiction|cbn; lia]).
    assert (Hout : forall k, len <= k -> ab k = false) by (intros k Hk; apply above_half_out_any; assumption).
    destruct (first_fail_exists ab len Hout Hlen) as (j & F).
    pose proof (half_life_exact ab len Hout Hlen j F) as Hr.
    set (r := bis_end ab (Nat.min (2 ^ j) (len - 1) - prev_pow j) (Nat.min (2 ^ j) (len - 1)) (prev_pow j)) in *.
    exists j, r. split; [exact F|].
    assert (He : half_life_exec (DT := DT) dm mp xs = Some (Ok r)).
    { unfold half_life_exec. fold len. replace (len =? 0) with false by (symmetry; apply Nat.eqb_neq; lia).
      rewrite Hn. exact Hr. }
    split; [exact He|]. split.
    - split; [apply (half_life_tr_exact ab len Hout Hlen j F)|apply mids_inside].
    - apply (half_life_crossing ab len Hout Hlen j r F Hr).
  Qed.

  (* element types without a null value: T::none() panics, whatever the carrier *)
  Theorem half_life_exec_none_panics_any (mp : option nat) (k : panic_kind) (xs : list T) :
    MapOps.none dm = Panic k ->
    half_life_exec (DT := DT) dm mp xs = if length xs =? 0 then Some (Ok 0) else Some (Panic k).
  Proof. intros Hn. unfold half_life_exec. destruct (length xs =? 0); [reflexivity|]. rewrite Hn. reflexivity. Qed.
End ExecAny.

(* ================================================================================================ *)
(* Part 4.  vcorr: the Pearson arm (tevec/src/agg.rs:44), and what unequal lengths / the default do    *)
(* ================================================================================================ *)
Section PearsonArm.
  Context {A : Type} {NA : Num A} {T : Type} {DT : IsNone T A} {DX : IsNoneX T A}.

  (* every carrier, every dictionary: the Pearson arm IS vcorr_pearson on the two series as they are, with
     min_periods defaulting to HALF THE LENGTH OF THE FIRST series; it never reports an uninitialised slot *)
  Theorem vcorr_pearson_arm (mp : option nat) (xs ys : list T) :
    vcorr (DT := DT) (DX := DX) mp false xs ys
    = Some (vcorr_pearson (DT := DT) (DT2 := DT) (@idA A) (mp_default mp (length xs)) xs ys).
  Proof. reflexivity. Qed.

  (* unequal lengths: the pairs are zipped, the longer series is cut — but the default min_periods still comes from
     the un-cut first series *)
  Theorem vcorr_pearson_arm_truncates (mp : option nat) (xs ys : list T) :
    let n := Nat.min (length xs) (length ys) in
    vcorr (DT := DT) (DX := DX) mp false xs ys
    = vcorr (DT := DT) (DX := DX) (Some (mp_default mp (length xs))) false (firstn n xs) (firstn n ys).
  Proof.
    intros n. rewrite !vcorr_pearson_arm. cbn [mp_default]. unfold vcorr_pearson.
    rewrite <- combine_firstn. rewrite firstn_all2; [reflexivity|]. rewrite combine_length. apply Nat.le_refl.
  Qed.
End PearsonArm.

Local Open Scope R_scope.
(* option R: Pearson's r (C11) of the pairwise-complete pairs, null below max(min_periods, 2) pairs or on a spread at or
   below the EPS floor *)
Theorem vcorr_pearson_arm_textbook (mp : option nat) (xs ys : list XR) :
  let P := rpairs (DT := IsNoneXR) (DT2 := IsNoneXR) (fun x : XR => x) xs ys in
  vcorr (DT := IsNoneXR) (DX := IsNoneXXR) mp false xs ys
  = Some (if (length P <? Nat.max (mp_default mp (length xs)) 2)%nat then None
          else if Rlt_dec EPS (popvarR (xs_of P)) then
                 (if Rlt_dec EPS (popvarR (ys_of P)) then Some (corrR P) else None)
               else None).
Proof.
  intros P. rewrite vcorr_pearson_arm. f_equal.
  apply (vcorr_textbook (mp_default mp (length xs)) (canonical_float xs) (canonical_float ys)).
Qed.

(* ================================================================================================ *)
(* Part 5.  clipping at an ORDERED carrier (Spec/ExtremaOrd.v: `nltb` a strict weak order on the non-NaN     *)
(*          elements — proved for binary64 in Proofs/CmpOrdFloat.v): inside the bounds, order preserving       *)
(* ================================================================================================ *)
From Tevec Require Import Spec.ExtremaOrd.
Local Close Scope R_scope.

Section ClipOrdered.
  Context {A : Type} {NA : Num A}.
  Hypothesis OL : OrdLaws A.

  Local Notation le a b := (nltb b a = false).

  Lemma ol_irrefl a : num_ok a -> nltb a a = false.
  Proof. intros Ha. destruct (nltb a a) eqn:E; [|reflexivity]. pose proof (ol_asym OL a a Ha Ha E). congruence. Qed.
  Lemma ol_le_trans a b c : num_ok a -> num_ok b -> num_ok c -> le a b -> le b c -> le a c.
  Proof.
    intros Ha Hb Hc H1 H2. destruct (nltb c a) eqn:E; [|reflexivity].
    destruct (ol_cotrans OL c a b Hc Ha Hb E) as [H|H]; congruence.
  Qed.
  Lemma ol_lt_le a b : num_ok a -> num_ok b -> nltb a b = true -> le a b.
  Proof. intros Ha Hb H. apply (ol_asym OL); assumption. Qed.
  Lemma ol_lt_le_trans a b c : num_ok a -> num_ok b -> num_ok c -> nltb a b = true -> le b c -> nltb a c = true.
  Proof. intros Ha Hb Hc H1 H2. destruct (ol_cotrans OL a b c Ha Hb Hc H1) as [H|H]; [exact H|congruence]. Qed.
  Lemma ol_le_lt_trans a b c : num_ok a -> num_ok b -> num_ok c -> le a b -> nltb b c = true -> nltb a c = true.
  Proof. intros Ha Hb Hc H1 H2. destruct (ol_cotrans OL b c a Hb Hc Ha H2) as [H|H]; [congruence|exact H]. Qed.

  (* which branch of vclip's element function is taken, with the tests that were made *)
  Lemma clipA_spec (lo hi x : A) :
    num_ok x ->
    (nisnan lo = false /\ nltb x lo = true /\ clipA lo hi x = lo) \/
    ((nisnan lo = true \/ nltb x lo = false) /\ nisnan hi = false /\ nltb hi x = true /\ clipA lo hi x = hi) \/
    ((nisnan lo = true \/ nltb x lo = false) /\ (nisnan hi = true \/ nltb hi x = false) /\ clipA lo hi x = x).
  Proof.
    intros Hx. unfold num_ok in Hx. unfold clipA, clip_elem, fdict. cbn [MapOps.is_none dict_float]. rewrite Hx.
    destruct (nisnan lo) eqn:Hl; cbn [negb andb].
    - destruct (nisnan hi) eqn:Hh; cbn [negb andb]; [right; right; auto|].
      destruct (nltb hi x) eqn:E; [right; left; auto|right; right; auto].
    - destruct (nltb x lo) eqn:E1; [left; auto|].
      destruct (nisnan hi) eqn:Hh; cbn [negb andb]; [right; right; auto|].
      destruct (nltb hi x) eqn:E; [right; left; auto|right; right; auto].
  Qed.

  Lemma clipA_ok (lo hi x : A) : num_ok x -> num_ok (clipA lo hi x).
  Proof. intros Hx. unfold num_ok. rewrite (proj1 (clipA_cases lo hi x)). exact Hx. Qed.

  (* bounds that are not reversed (a NaN bound is no bound): the result lies inside the bounds ... *)
  Theorem clipA_contained (lo hi x : A) :
    (nisnan lo = false -> nisnan hi = false -> le lo hi) -> num_ok x ->
    (nisnan lo = false -> le lo (clipA lo hi x)) /\ (nisnan hi = false -> le (clipA lo hi x) hi).
  Proof.
    intros Hlh Hx.
    destruct (clipA_spec lo hi x Hx) as [(Hl & Hc & ->)|[(Hlo & Hh & Hc & ->)|(Hlo & Hhi & ->)]].
    - split; [intros _; apply ol_irrefl; exact Hl|intros Hh; apply Hlh; assumption].
    - split; [intros Hl; apply Hlh; assumption|intros _; apply ol_irrefl; exact Hh].
    - split; [intros Hl; destruct Hlo; congruence|intros Hh; destruct Hhi; congruence].
  Qed.

  (* ... and clipping is ORDER PRESERVING for the carrier's own comparison: x <= y  ->  clip x <= clip y *)
  Theorem clipA_monotone (lo hi x y : A) :
    (nisnan lo = false -> nisnan hi = false -> le lo hi) -> num_ok x -> num_ok y ->
    le x y -> le (clipA lo hi x) (clipA lo hi y).
  Proof.
    intros Hlh Hx Hy Hxy.
    destruct (clipA_spec lo hi x Hx) as [(Hl & Hc & ->)|[(Hlo & Hh & Hc & ->)|(Hlo & Hhi & ->)]].
    - (* x below lo *)
      destruct (clipA_spec lo hi y Hy) as [(_ & _ & ->)|[(_ & Hh' & _ & ->)|(Hlo' & _ & ->)]].
      + apply ol_irrefl; exact Hl.
      + apply Hlh; assumption.
      + destruct Hlo'; congruence.
    - (* x above hi: so is y *)
      assert (Hhy : nltb hi y = true) by (apply (ol_lt_le_trans hi x y); assumption).
      destruct (clipA_spec lo hi y Hy) as [(Hl' & Hc' & ->)|[(_ & _ & _ & ->)|(_ & Hhi' & ->)]].
      + exfalso. assert (H : nltb hi lo = true) by (apply (ol_lt_le_trans hi y lo); try assumption; apply ol_lt_le; assumption).
        rewrite (Hlh Hl' Hh) in H. discriminate.
      + apply ol_irrefl; exact Hh.
      + destruct Hhi'; congruence.
    - (* x inside *)
      destruct (clipA_spec lo hi y Hy) as [(Hl' & Hc' & ->)|[(_ & Hh' & _ & ->)|(_ & _ & ->)]].
      + exfalso. destruct Hlo as [Hlo|Hlo]; [congruence|].
        assert (H : nltb x lo = true) by (apply (ol_le_lt_trans x y lo); assumption). congruence.
      + destruct Hhi as [Hhi|Hhi]; [congruence|exact Hhi].
      + exact Hxy.
  Qed.

  (* idempotent: a second pass changes nothing (bounds not reversed) *)
  Theorem clipA_idempotent (lo hi x : A) :
    (nisnan lo = false -> nisnan hi = false -> le lo hi) -> clipA lo hi (clipA lo hi x) = clipA lo hi x.
  Proof.
    intros Hlh. destruct (nisnan x) eqn:Hx.
    { assert (E : clipA lo hi x = x) by (unfold clipA, clip_elem, fdict; cbn [MapOps.is_none dict_float]; rewrite Hx; reflexivity).
      rewrite E. exact E. }
    destruct (clipA_contained lo hi x Hlh Hx) as [H1 H2]. apply clipA_inside; assumption.
  Qed.
End ClipOrdered.

(* the winsorized series at an ordered carrier: WHENEVER winsorize returns and the two bounds it used are not reversed,
   positions keep their order:  x_i <= x_j  ->  r_i <= r_j  on the non-null positions.  (That the bounds ARE ordered
   inside the quantifier is a statement about rounding at binary64 — proved at option R, compared by the run.) *)
Section WinsorizeOrdered.
  Context {A : Type} {NA : Num A} {NF : NumFloor A} {T : Type} {DT : IsNone T A}.
  Hypothesis OL : OrdLaws A.

  Theorem winsorize_order_preserving_ordered (m : wmethod) (p : option A) (xs : list T) (r : list A) :
    winsorize m p xs = Ok (Some r) ->
    r = iter_cast xs \/
    exists lo hi, r = map (clipA lo hi) (iter_cast xs) /\
      ((nisnan lo = false -> nisnan hi = false -> nltb hi lo = false) ->
       forall i j x x', nth_error xs i = Some x -> nth_error xs j = Some x' ->
         nisnan (tcast x) = false -> nisnan (tcast x') = false -> nltb (tcast x') (tcast x) = false ->
         exists y y', nth_error r i = Some y /\ nth_error r j = Some y' /\ nltb y' y = false /\
                      (nisnan lo = false -> nltb y lo = false) /\ (nisnan hi = false -> nltb hi y = false)).
  Proof.
    intros Hr.
    destruct (winsorize_shape m p xs) as [(k & E)|[(_ & E)|[E|(lo & hi & E)]]]; rewrite E in Hr; try discriminate.
    - left. injection Hr as <-. reflexivity.
    - right. injection Hr as <-. exists lo, hi. split; [reflexivity|].
      intros Hlh i j x x' Hi Hj Hx Hx' Hle.
      exists (clipA lo hi (tcast x)), (clipA lo hi (tcast x')). unfold iter_cast. rewrite !nth_error_map, Hi, Hj.
      split; [reflexivity|]. split; [reflexivity|]. split; [apply clipA_monotone; assumption|].
      apply clipA_contained; assumption.
  Qed.
End WinsorizeOrdered.

(* ================================================================================================ *)
(* Part 6.  the Sigma method with fewer than two valid elements: winsorize calls vmean_var(2), so that case is   *)
(*          answered by the `n < min_periods` test; the later `n < 2 -> (m1, NaN)` line of vmean_var (agg.rs:340)  *)
(*          is never reached from winsorize.  Every carrier.                                                   *)
(* ================================================================================================ *)
Section SigmaShort.
  Context {A : Type} {NA : Num A} {NF : NumFloor A} {T : Type} {DT : IsNone T A}.

  Lemma vmean_var_mp2_short (xs : list T) :
    length (vals xs) < 2 -> Agg.vmean_var (@idA A) 2 xs = (nnan, nnan).
  Proof.
    intros H. unfold Agg.vmean_var. rewrite vapply_n_spec. cbn [fst snd].
    replace (length (vals xs) <? 2) with true by (symmetry; apply Nat.ltb_lt; exact H). reflexivity.
  Qed.

  Theorem winsorize_sigma_short (p : option A) (xs : list T) :
    nisnan (nnan : A) = true -> length (vals xs) < 2 ->
    winsorize WSigma p xs = Ok (Some (iter_cast xs)).
  Proof.
    intros Hnan H. unfold winsorize. rewrite (vmean_var_mp2_short xs H). cbn [fst snd]. rewrite Hnan. reflexivity.
  Qed.
End SigmaShort.
