(* Proofs/CastWitness.v — an instance of `Ext` that provably satisfies `ExtLaws` (the hypotheses of the C15
   theorems are satisfiable): "floats" are the integers plus one NaN.  Used by the non-vacuity Examples and by the
   witnesses of the known-finding class.                                                                  *)
From Coq Require Import ZArith List Bool Lia.
From Tevec Require Import Base.Prelude Model.Cast Proofs.Cast.
Import ListNotations.
Local Open Scope Z_scope.

Definition zf := option Z.

Definition XZ : Ext zf := {|
  f_nan := None;
  feq := fun a b => match a, b with Some x, Some y => x =? y | _, _ => false end;
  fabs := option_map Z.abs;
  fcmp := fun a b => match a, b with Some x, Some y => Some (x ?= y) | _, _ => None end;
  ftrunc := fun a => match a with Some z => FFin z | None => FNaN end;
  round32 := fun a => a;
  z2f32 := Some; z2f64 := Some;
  f2s32 := fun a => match a with Some z => z_to_string z | None => [78; 97; 78] end;
  f2s64 := fun a => match a with Some z => z_to_string z | None => [78; 97; 78] end;
  s2f32 := fun s => if str_eqb s [78; 97; 78] then Some None else option_map Some (parse_int I64 s);
  s2f64 := fun s => if str_eqb s [78; 97; 78] then Some None else option_map Some (parse_int I64 s);
  td2s := fun _ => [63];
  s2dt := fun _ => None;
  s2td := fun _ => None;
|}.

Lemma XZ_laws : ExtLaws XZ.
Proof.
  split; cbn.
  - reflexivity.
  - intros [z|]; cbn; [|reflexivity]. rewrite !Z.eqb_refl. reflexivity.
  - reflexivity.
  - intros z. apply Z.eqb_refl.
  - intros z. apply Z.eqb_refl.
  - intros [x|] [y|] Hx Hy; try discriminate. eexists; reflexivity.
  - intros [x|] Hx; try discriminate. rewrite Z.compare_refl. reflexivity.
  - intros [x|] [y|] c H; try discriminate. injection H as <-. rewrite (Z.compare_antisym x y). reflexivity.
  - intros [x|] [y|] [z|] c1 c2 H1 H2 N1 N2; try discriminate. injection H1 as <-. injection H2 as <-.
    eexists; split; [reflexivity|].
    pose proof (proj1 (Z.compare_le_iff x y) N1). pose proof (proj1 (Z.compare_le_iff y z) N2).
    apply (proj2 (Z.compare_le_iff x z)). lia.
  - intros [z|] H; [apply z_to_string_not_None|discriminate].
  - intros [z|] H; [apply z_to_string_not_None|discriminate].
  - reflexivity.
  - reflexivity.
  - reflexivity.
  - reflexivity.
Qed.
