(* Proofs/Features2.v — C01 complements:
   (a) plain entry points = null-aware twins on null-free input, entry point by entry point
       (ts_sum .. ts_kurt, ts_ewm, ts_wma, ts_fdiff);
   (b) the EPS floor of ts_vstd, and the zero-variance branches of var / std / skew / kurt.      *)
From Coq Require Import Reals Lra Lia List.
From Tevec Require Import Base.Prelude Base.Num Base.XR Spec.Stats Model.Driver Proofs.Driver
     Model.Features Model.Fdiff Proofs.Features Proofs.Fdiff Proofs.Fdiff2.
Import ListNotations.
Local Open Scope R_scope.

(* ====================================================================== *)
(* (a) plain = null-aware on null-free input *)

(* position by position: the null-aware twin only adds the min_periods mask; on a null-free
   series the number of valid elements of the window is min(i+1, w) *)
Theorem plain_fdiff_vs_vfdiff body d (w : nat) (mp : option nat) (rs : list R) :
  (1 <= w)%nat ->
  exists outp outv,
    ts_fdiff body (Some d) w (fun x : XR => x) (map Some rs) = Done outp /\
    ts_vfdiff (DT := IsNoneXR) body (Some d) w mp (map Some rs) = Done outv /\
    length outp = length rs /\ length outv = length rs /\
    forall i, (i < length rs)%nat ->
      nth_error outv i =
      if (mp_eff mp w 0 <=? Nat.min (S i) w)%nat then nth_error outp i else Some None.
Proof.
  intros Hw.
  destruct (ts_fdiff_spec body d w rs Hw) as (outp & P1 & P2 & P3).
  destruct (ts_vfdiff_spec body d w mp (map Some rs) Hw) as (outv & V1 & V2 & V3).
  rewrite map_length in V2, V3.
  exists outp, outv. repeat split; try assumption.
  intros i Hi. rewrite (V3 i Hi), (P3 i Hi). cbv zeta.
  rewrite win_map, valid_map_some, win_length_min by assumption.
  destruct (mp_eff mp w 0 <=? Nat.min (S i) w)%nat; reflexivity.
Qed.

(* whole outputs coincide as soon as min_periods cannot mask anything (effective value <= 1) *)
Theorem plain_family_fdiff body d (w : nat) (mp : option nat) (rs : list R) :
  (1 <= w)%nat -> (mp_eff mp w 0 <= 1)%nat ->
  ts_fdiff body (Some d) w (fun x : XR => x) (map Some rs)
  = ts_vfdiff (DT := IsNoneXR) body (Some d) w mp (map Some rs).
Proof.
  intros Hw Hmp.
  destruct (plain_fdiff_vs_vfdiff body d w mp rs Hw) as (outp & outv & P1 & V1 & P2 & V2 & H).
  rewrite P1, V1. f_equal. apply nth_error_ext. intros i.
  destruct (Nat.lt_ge_cases i (length rs)) as [Hi|Hi].
  - rewrite (H i Hi).
    replace (mp_eff mp w 0 <=? Nat.min (S i) w)%nat with true by (symmetry; apply Nat.leb_le; lia).
    reflexivity.
  - transitivity (@None XR); [|symmetry]; apply nth_error_None; lia.
Qed.

(* the masked prefix: positions i + 1 < effective min_periods are null in the twin only *)
Theorem vfdiff_warmup_mask body d (w : nat) (mp : option nat) (rs : list R) :
  (1 <= w)%nat ->
  exists outv, ts_vfdiff (DT := IsNoneXR) body (Some d) w mp (map Some rs) = Done outv /\
    forall i, (i < length rs)%nat -> (S i < mp_eff mp w 0)%nat -> nth_error outv i = Some None.
Proof.
  intros Hw.
  destruct (plain_fdiff_vs_vfdiff body d w mp rs Hw) as (outp & outv & P1 & V1 & P2 & V2 & H).
  exists outv. split; [exact V1|]. intros i Hi Hlt. rewrite (H i Hi).
  replace (mp_eff mp w 0 <=? Nat.min (S i) w)%nat with false by (symmetry; apply Nat.leb_gt; lia).
  reflexivity.
Qed.

(* every entry point of the family, by name *)
Theorem plain_equals_null_aware body (w : nat) (mp : option nat) (d : R) (rs : list R) :
  (1 <= w)%nat ->
  let xs := map Some rs in
  ts_run (ts_vsum_f (DT := IsNone_never) w mp) body w xs = ts_run (ts_vsum_f (DT := IsNoneXR) w mp) body w xs /\
  ts_run (ts_vmean_f (DT := IsNone_never) w mp) body w xs = ts_run (ts_vmean_f (DT := IsNoneXR) w mp) body w xs /\
  ts_run (ts_vvar_f (DT := IsNone_never) w mp) body w xs = ts_run (ts_vvar_f (DT := IsNoneXR) w mp) body w xs /\
  ts_run (ts_vstd_f (DT := IsNone_never) w mp) body w xs = ts_run (ts_vstd_f (DT := IsNoneXR) w mp) body w xs /\
  ts_run (ts_vskew_f (DT := IsNone_never) w mp) body w xs = ts_run (ts_vskew_f (DT := IsNoneXR) w mp) body w xs /\
  ts_run (ts_vkurt_f (DT := IsNone_never) w mp) body w xs = ts_run (ts_vkurt_f (DT := IsNoneXR) w mp) body w xs /\
  ts_run (ts_vewm_f (DT := IsNone_never) w mp) body w xs = ts_run (ts_vewm_f (DT := IsNoneXR) w mp) body w xs /\
  ts_run (ts_vwma_f (DT := IsNone_never) w mp) body w xs = ts_run (ts_vwma_f (DT := IsNoneXR) w mp) body w xs /\
  ((mp_eff mp w 0 <= 1)%nat ->
   ts_fdiff body (Some d) w (fun x : XR => x) xs = ts_vfdiff (DT := IsNoneXR) body (Some d) w mp xs).
Proof.
  intros Hw xs. unfold xs.
  repeat split; try (apply plain_family_mom; exact Hw).
  - apply plain_family_ewm. exact Hw.
  - apply plain_family_wma. exact Hw.
  - intros Hmp. apply plain_family_fdiff; assumption.
Qed.

(* ====================================================================== *)
(* (b) EPS floor and zero-variance branches *)

Lemma samplevar_nonneg' (V : list R) : (2 <= length V)%nat -> 0 <= samplevarR V.
Proof.
  intros Hn. unfold samplevarR. apply Rmult_le_pos; [apply devsum2_nonneg|].
  apply Rlt_le, Rinv_0_lt_compat. unfold nR.
  assert (2 <= INR (length V)) by (apply (le_INR 2); lia). lra.
Qed.

(* ts_vstd floors to 0 where the textbook sample std is at most sqrt(2 EPS) (~1.41e-7) *)
Lemma eps_floor_bounded_std (V : list R) :
  (2 <= length V)%nat -> ~ EPS < popvarR V -> 0 <= samplestdR V <= sqrt (2 * EPS).
Proof.
  intros Hn Hle. unfold samplestdR. split; [apply sqrt_pos|].
  apply sqrt_le_1_alt. apply eps_floor_bounded; assumption.
Qed.

(* the two spellings of the guard (`var > EPS` in var/std, `var <= EPS` in skew/kurt) select the
   same windows *)
Lemma floor_guards_agree (p : R) : ~ EPS < p <-> p <= EPS.
Proof. split; intros H; lra. Qed.

Lemma sumR_repeat c n : sumR (repeat c n) = INR n * c.
Proof.
  induction n as [|n IH]; [cbn; ring|]. cbn [repeat sumR fold_right]. fold (sumR (repeat c n)).
  rewrite IH, S_INR. ring.
Qed.

Lemma devsum_repeat_self k c n : devsum (S k) c (repeat c n) = 0.
Proof.
  unfold devsum. apply sumR_zero. intros x Hx. apply repeat_spec in Hx. subst x.
  rewrite Rminus_diag_eq by reflexivity. cbn [pow]. ring.
Qed.

(* a constant window has population variance exactly 0 (so it is always in the floored class) *)
Lemma popvar_constant c n : popvarR (repeat c n) = 0.
Proof.
  unfold popvarR, cmom. destruct n as [|n].
  - cbn. unfold Rdiv. ring.
  - assert (Hm : meanR (repeat c (S n)) = c).
    { unfold meanR, nR. rewrite sumR_repeat, repeat_length.
      assert (INR (S n) <> 0) by (apply not_0_INR; lia). field. assumption. }
    rewrite Hm, devsum_repeat_self. unfold Rdiv. ring.
Qed.

(* what the four second-and-higher-moment entry points return on a window whose population
   variance is at most EPS: exactly 0 (never null, never the 0/0 of the textbook formula) *)
Theorem zero_variance_outputs body (w : nat) (mp : option nat) (xs : list XR) :
  (1 <= w)%nat ->
  exists ovar ostd oskew okurt,
    ts_run (ts_vvar_f w mp) body w xs = Done ovar /\
    ts_run (ts_vstd_f w mp) body w xs = Done ostd /\
    ts_run (ts_vskew_f w mp) body w xs = Done oskew /\
    ts_run (ts_vkurt_f w mp) body w xs = Done okurt /\
    forall i, (i < length xs)%nat ->
      let V := valid (win w i xs) in
      popvarR V <= EPS ->
      ((mp_eff mp w 2 <= length V)%nat ->
         nth_error ovar i = Some (Some 0) /\ nth_error ostd i = Some (Some 0)) /\
      ((mp_eff mp w 3 <= length V)%nat -> nth_error oskew i = Some (Some 0)) /\
      ((mp_eff mp w 4 <= length V)%nat -> nth_error okurt i = Some (Some 0)).
Proof.
  intros Hw.
  destruct (mom_entry (emit_var (mp_eff mp w 2))
     (fun V => if (mp_eff mp w 2 <=? length V)%nat
               then (if Rlt_dec EPS (popvarR V) then Some (samplevarR V) else Some 0) else None)
     body w xs Hw) as (ovar & A1 & A2 & A3).
  { intros s W HA. apply emit_var_spec; [exact HA|apply mp_eff_ge]. }
  destruct (mom_entry (emit_std (mp_eff mp w 2))
     (fun V => if (mp_eff mp w 2 <=? length V)%nat
               then (if Rlt_dec EPS (popvarR V) then Some (samplestdR V) else Some 0) else None)
     body w xs Hw) as (ostd & B1 & B2 & B3).
  { intros s W HA. apply emit_std_spec; [exact HA|apply mp_eff_ge]. }
  destruct (mom_entry (emit_skew (mp_eff mp w 3))
     (fun V => if (mp_eff mp w 3 <=? length V)%nat
               then (if Rle_dec (popvarR V) EPS then Some 0 else Some (skewR V)) else None)
     body w xs Hw) as (oskew & C1 & C2 & C3).
  { intros s W HA. apply emit_skew_spec; [exact HA|apply mp_eff_ge]. }
  destruct (mom_entry (emit_kurt (mp_eff mp w 4))
     (fun V => if (mp_eff mp w 4 <=? length V)%nat
               then (if Rle_dec (popvarR V) EPS then Some 0 else Some (kurtR V)) else None)
     body w xs Hw) as (okurt & D1 & D2 & D3).
  { intros s W HA. apply emit_kurt_spec; [exact HA|apply mp_eff_ge]. }
  exists ovar, ostd, oskew, okurt. repeat split; try assumption.
  - rewrite (A3 i H). replace (mp_eff mp w 2 <=? _)%nat with true by (symmetry; apply Nat.leb_le; assumption).
    destruct (Rlt_dec EPS _); [lra|reflexivity].
  - rewrite (B3 i H). replace (mp_eff mp w 2 <=? _)%nat with true by (symmetry; apply Nat.leb_le; assumption).
    destruct (Rlt_dec EPS _); [lra|reflexivity].
  - intros Hn. rewrite (C3 i H). replace (mp_eff mp w 3 <=? _)%nat with true by (symmetry; apply Nat.leb_le; assumption).
    destruct (Rle_dec _ EPS); [reflexivity|contradiction].
  - intros Hn. rewrite (D3 i H). replace (mp_eff mp w 4 <=? _)%nat with true by (symmetry; apply Nat.leb_le; assumption).
    destruct (Rle_dec _ EPS); [reflexivity|contradiction].
Qed.

(* ====================================================================== *)
(* (c) the exponentially weighted mean is null exactly on windows without a valid element:
       the normalising denominator 1 - (1 - 2/w)^n vanishes iff n = 0 (for n <= w)              *)
Lemma ewm_denominator_zero_iff (w n : nat) :
  (1 <= w)%nat -> (n <= w)%nat ->
  (1 - (1 - 2 / INR w) ^ n = 0 <-> n = 0%nat).
Proof.
  intros Hw Hn. split; [|intros ->; cbn [pow]; ring].
  intros H0. destruct n as [|n]; [reflexivity|exfalso].
  destruct w as [|[|[|w]]]; [lia| | |].
  - (* w = 1: n + 1 <= 1, oma = -1 *)
    assert (n = 0%nat) by lia. subst n. cbn [INR pow] in H0.
    replace (2 / 1) with 2 in H0 by field. lra.
  - (* w = 2: oma = 0 *)
    cbn [INR] in H0. replace (1 - 2 / (1 + 1)) with 0 in H0 by field.
    rewrite pow_ne_zero in H0 by lia. lra.
  - (* w >= 3: 0 < oma < 1 *)
    set (W := INR (S (S (S w)))) in *.
    assert (HW : 3 <= W). { unfold W. rewrite !S_INR. pose proof (pos_INR w). lra. }
    assert (Ha : 0 < 2 / W < 1).
    { split; [apply Rdiv_lt_0_compat; lra|].
      apply (Rmult_lt_reg_r W); [lra|]. unfold Rdiv. rewrite Rmult_assoc, Rinv_l by lra. lra. }
    pose proof (pow_lt_1_compat (1 - 2 / W) (S n) ltac:(lra) ltac:(lia)) as Hp. lra.
Qed.

Theorem ts_vewm_total (w : nat) mp body (xs : list XR) :
  (1 <= w)%nat ->
  exists out, ts_run (ts_vewm_f w mp) body w xs = Done out /\ length out = length xs /\
    forall i, (i < length xs)%nat ->
      nth_error out i =
      Some (let V := valid (win w i xs) in
            if (mp_eff mp w 0 <=? length V)%nat
            then (if (length V =? 0)%nat then None else Some (ewmR (1 - 2 / INR w) V))
            else None).
Proof.
  intros Hw. destruct (ewm_state_tracks_window w Hw mp body xs) as (out & H1 & H2 & H3).
  exists out. split; [exact H1|]. split; [exact H2|]. intros i Hi.
  destruct (nth_error xs i) as [v|] eqn:Hv; [|apply nth_error_None in Hv; lia].
  destruct (H3 i v Hv) as (s & Habs & Hn). rewrite Hn. f_equal.
  rewrite (ewm_emit_spec w Hw (mp_eff mp w 0) s (win w i xs) Habs). cbv zeta.
  destruct (_ <=? _)%nat; [|reflexivity].
  assert (HV : (length (valid (win w i xs)) <= w)%nat).
  { pose proof (valid_length_le (win w i xs)). pose proof (win_length_le w i xs Hw). lia. }
  pose proof (ewm_denominator_zero_iff w _ Hw HV) as Hz.
  destruct (Req_EM_T _ 0) as [E|E]; destruct (length (valid (win w i xs)) =? 0)%nat eqn:E0.
  - reflexivity.
  - apply Nat.eqb_neq in E0. exfalso. apply E0. apply Hz. exact E.
  - apply Nat.eqb_eq in E0. exfalso. apply E. apply Hz. exact E0.
  - f_equal. apply (ewm_normalised w). exact E.
Qed.

(* ====================================================================== *)
(* (d) window = 0 (why every theorem asks 1 <= w): both fractional differences are rejected, for
       every carrier — the iterator body underflows `window - 1`, the index body asserts        *)
Theorem fdiff_window0 {A} `{Num A} {T} `{IsNone T A} (d : A) (cast : T -> A) mp (xs : list T) :
  ts_fdiff false d 0 cast xs = Panicked Underflow /\
  ts_vfdiff false d 0 mp xs = Panicked Underflow /\
  (xs <> [] -> ts_fdiff true d 0 cast xs = Panicked AssertFail /\
               ts_vfdiff true d 0 mp xs = Panicked AssertFail).
Proof.
  split; [reflexivity|]. split; [reflexivity|]. intros Hx.
  destruct xs as [|x xs]; [contradiction|]. split; reflexivity.
Qed.
