(* Proofs/CmpOrdInst.v — the order laws of Spec/ExtremaOrd.v hold for the integer carrier (NumZ) and for the
   exact-real carrier XR = option R restricted to its non-NaN elements (Some _), so the generic theorems of
   Proofs/CmpOrd.v / RollRankOrd.v are non-vacuous twice; at Z the generic specification IS the integer
   specification of Spec/Extrema.v (gmin = list_min, ...), so the integer theorems of Proofs/Cmp.v are
   corollaries of the generic ones; at XR the generic extreme is the least / greatest real of the window.
   Z part axiom-free; XR part: stdlib Reals axioms only.                                                *)
From Coq Require Import ZArith List Lia ZifyBool Bool Reals Lra.
From Tevec Require Import Base.Prelude Base.Num Base.XR Model.Driver Model.Cmp Spec.Extrema Spec.ExtremaOrd
     Proofs.CmpOrd Proofs.RollRank Proofs.RollRankOrd.
Import ListNotations.

(* ---- any carrier: the float-like dictionary (NaN IS the null) satisfies the premise on the series ------ *)
Lemma valid_not_nan_floatlike {A} {NA : Num A} (xs : list A) : valid_not_nan (DT := IsNone_float) xs.
Proof. intros v _ H. exact H. Qed.

(* for a carrier with Leibniz neqb the extreme is characterised completely *)
Lemma ext_last_iff {A} {NA : Num A} (ltb : A -> A -> bool) (l : list A) (m : A) :
  DirLaws ltb -> OrdStrict A -> Forall num_ok l ->
  (ext_last ltb l = Some m <-> In m l /\ forall a, In a l -> ltb a m = false).
Proof.
  intros DL HS Hok. split.
  - intros E. apply (ext_last_sound ltb DL l Hok m E).
  - intros [H1 H2]. apply (ext_last_spec ltb DL l m HS Hok H1 H2).
Qed.

(* ---- Z ------------------------------------------------------------------------------------------------ *)
Lemma ordlaws_Z : OrdLaws Z.
Proof. split; unfold num_ok; cbn; intros; lia. Qed.
Lemma ordstrict_Z : OrdStrict Z.
Proof. intros a b _ _ H. cbn in H. apply Z.eqb_eq. exact H. Qed.

Lemma valid_not_nan_Z {T} {DT : IsNone T Z} (xs : list T) : valid_not_nan xs.
Proof. intros v _ _. reflexivity. Qed.

Lemma gvalid_Z (l : list (option Z)) : gvalid l = validZ l.
Proof. reflexivity. Qed.
Lemma gmin_Z (l : list Z) : gmin l = list_min l.
Proof.
  unfold gmin. induction l as [|x r IH]; [reflexivity|]. cbn [ext_last list_min]. rewrite IH.
  destruct (list_min r) as [m|]; [|reflexivity]. cbn [nltb NumZ].
  destruct (Z.ltb_spec x m); f_equal; lia.
Qed.
Lemma gmax_Z (l : list Z) : gmax l = list_max l.
Proof.
  unfold gmax. induction l as [|x r IH]; [reflexivity|]. cbn [ext_last list_max]. rewrite IH.
  destruct (list_max r) as [m|]; [|reflexivity]. unfold ngtb. cbn [nltb NumZ].
  destruct (Z.ltb_spec m x); f_equal; lia.
Qed.
Lemma glast_pos_Z (m : Z) (W : list (option Z)) : glast_pos m W = last_pos m W.
Proof. induction W as [|a r IH]; [reflexivity|]. cbn [glast_pos last_pos]. rewrite IH. reflexivity. Qed.
Lemma gargmin_spec_Z (W : list (option Z)) : gargmin_spec W = argmin_spec W.
Proof. unfold gargmin_spec, argmin_spec. rewrite gvalid_Z, gmin_Z. destruct (list_min (validZ W)); [rewrite glast_pos_Z|]; reflexivity. Qed.
Lemma gargmax_spec_Z (W : list (option Z)) : gargmax_spec W = argmax_spec W.
Proof. unfold gargmax_spec, argmax_spec. rewrite gvalid_Z, gmax_Z. destruct (list_max (validZ W)); [rewrite glast_pos_Z|]; reflexivity. Qed.
Lemma g_avg_rank_Z pct rev (x : Z) V' : g_avg_rank pct rev x V' = avg_rank pct rev x V'.
Proof. reflexivity. Qed.

(* the integer theorems of Proofs/Cmp.v, Proofs/RollRank.v re-derived from the generic ones *)
Section ZCorollaries.
  Context {T : Type} {DT : IsNone T Z}.

  Corollary ts_vmin_Z_from_ord body w mp (xs : list T) :
    1 <= w -> 1 <= length xs ->
    exists out, ts_vmin body w mp xs = Done out /\ length out = length xs /\
      forall i, i < length xs ->
        nth_error out i =
        Some (let V := validZ (win w i (map to_opt xs)) in
              if cmp_mp mp (cmp_window w xs) <=? length V then list_min V else None).
  Proof.
    intros Hw Hlen.
    destruct (ts_vmin_ord ordlaws_Z body w mp xs (valid_not_nan_Z xs) Hw Hlen) as (out & H1 & H2 & H3).
    exists out. split; [exact H1|]. split; [exact H2|]. intros i Hi. rewrite (H3 i Hi). cbv zeta.
    rewrite gvalid_Z, gmin_Z. reflexivity.
  Qed.
  Corollary ts_vmax_Z_from_ord body w mp (xs : list T) :
    1 <= w -> 1 <= length xs ->
    exists out, ts_vmax body w mp xs = Done out /\ length out = length xs /\
      forall i, i < length xs ->
        nth_error out i =
        Some (let V := validZ (win w i (map to_opt xs)) in
              if cmp_mp mp (cmp_window w xs) <=? length V then list_max V else None).
  Proof.
    intros Hw Hlen.
    destruct (ts_vmax_ord ordlaws_Z body w mp xs (valid_not_nan_Z xs) Hw Hlen) as (out & H1 & H2 & H3).
    exists out. split; [exact H1|]. split; [exact H2|]. intros i Hi. rewrite (H3 i Hi). cbv zeta.
    rewrite gvalid_Z, gmax_Z. reflexivity.
  Qed.
  Corollary ts_vargmin_Z_from_ord body w mp (xs : list T) :
    1 <= w -> 1 <= length xs ->
    exists out, ts_vargmin body w mp xs = Done out /\ length out = length xs /\
      forall i, i < length xs ->
        nth_error out i =
        Some (let W := win w i (map to_opt xs) in
              if cmp_mp mp (cmp_window w xs) <=? length (validZ W) then argmin_spec W else None).
  Proof.
    intros Hw Hlen.
    destruct (ts_vargmin_ord ordlaws_Z body w mp xs (valid_not_nan_Z xs) Hw Hlen) as (out & H1 & H2 & H3).
    exists out. split; [exact H1|]. split; [exact H2|]. intros i Hi. rewrite (H3 i Hi). cbv zeta.
    rewrite gvalid_Z, gargmin_spec_Z. reflexivity.
  Qed.
  Corollary ts_vargmax_Z_from_ord body w mp (xs : list T) :
    1 <= w -> 1 <= length xs ->
    exists out, ts_vargmax body w mp xs = Done out /\ length out = length xs /\
      forall i, i < length xs ->
        nth_error out i =
        Some (let W := win w i (map to_opt xs) in
              if cmp_mp mp (cmp_window w xs) <=? length (validZ W) then argmax_spec W else None).
  Proof.
    intros Hw Hlen.
    destruct (ts_vargmax_ord ordlaws_Z body w mp xs (valid_not_nan_Z xs) Hw Hlen) as (out & H1 & H2 & H3).
    exists out. split; [exact H1|]. split; [exact H2|]. intros i Hi. rewrite (H3 i Hi). cbv zeta.
    rewrite gvalid_Z, gargmax_spec_Z. reflexivity.
  Qed.
  Corollary ts_vrank_Z_from_ord body w mp pct rev (xs : list T) :
    1 <= w -> 1 <= length xs ->
    exists out, ts_vrank (B := XR) body w mp pct rev xs = Done out /\ length out = length xs /\
      forall i, i < length xs ->
        nth_error out i =
        Some (match nth_error (map to_opt xs) i with
              | Some (Some x) =>
                  let V' := validZ (seg (wstart w i) i (map to_opt xs)) in
                  if cmp_mp mp (cmp_window w xs) <=? S (length V') then Some (avg_rank pct rev x V')
                  else None
              | _ => None
              end).
  Proof.
    intros Hw Hlen.
    exact (ts_vrank_ord ordlaws_Z body w mp pct rev xs (valid_not_nan_Z xs) Hw Hlen).
  Qed.
End ZCorollaries.

(* ---- XR = option R, non-NaN = Some _ ------------------------------------------------------------------- *)
Lemma num_ok_XR (a : XR) : num_ok a <-> exists r, a = Some r.
Proof.
  unfold num_ok. cbn. destruct a as [r|]; cbn; split; intros H; try discriminate; try reflexivity.
  - exists r. reflexivity.
  - destruct H as [r H]. discriminate.
Qed.

Lemma xltb_iff (x y : R) : nltb (Some x) (Some y) = true <-> (x < y)%R.
Proof. cbn. destruct (Rlt_dec x y); split; intros H; try reflexivity; try assumption; try discriminate; contradiction. Qed.
Lemma xltb_false_iff (x y : R) : nltb (Some x) (Some y) = false <-> (y <= x)%R.
Proof. cbn. destruct (Rlt_dec x y); split; intros H; try reflexivity; try discriminate; lra. Qed.

Lemma ordlaws_XR : OrdLaws XR.
Proof.
  split.
  - intros [x|] [y|] Ha Hb; try discriminate. intros H. apply xltb_iff in H. apply xltb_false_iff. lra.
  - intros [x|] [y|] [z|] Ha Hb Hc; try discriminate. intros H. apply xltb_iff in H.
    destruct (Rlt_dec x z) as [Hxz|Hxz]; [left; apply xltb_iff; exact Hxz|right; apply xltb_iff; lra].
  - intros [x|] [y|] Ha Hb; try discriminate. cbn.
    destruct (Req_EM_T x y), (Rlt_dec x y), (Rlt_dec y x); cbn; try reflexivity; exfalso; lra.
  - intros [x|] [y|] Ha Hb; try discriminate. cbn.
    destruct (Rle_dec x y), (Rlt_dec y x); cbn; try reflexivity; exfalso; lra.
Qed.
Lemma ordstrict_XR : OrdStrict XR.
Proof.
  intros [x|] [y|] Ha Hb; try discriminate. cbn. destruct (Req_EM_T x y); [intros _; f_equal; assumption|discriminate].
Qed.

(* the generic extreme at XR is the least / greatest real of the list *)
Lemma gmin_XR (V : list XR) (m : R) : Forall num_ok V ->
  (gmin V = Some (Some m) <-> In (Some m) V /\ forall r, In (Some r) V -> (m <= r)%R).
Proof.
  intros Hok. unfold gmin.
  rewrite (ext_last_iff nltb V (Some m) (dir_lt ordlaws_XR) ordstrict_XR Hok). split; intros [H1 H2]; (split; [exact H1|]).
  - intros r Hr. apply xltb_false_iff. apply H2. exact Hr.
  - intros a Ha. rewrite Forall_forall in Hok. pose proof (Hok a Ha) as Hoka.
    destruct a as [r|]; [|discriminate]. apply xltb_false_iff. apply H2. exact Ha.
Qed.
Lemma gmax_XR (V : list XR) (m : R) : Forall num_ok V ->
  (gmax V = Some (Some m) <-> In (Some m) V /\ forall r, In (Some r) V -> (r <= m)%R).
Proof.
  intros Hok. unfold gmax.
  rewrite (ext_last_iff ngtb V (Some m) (dir_gt ordlaws_XR) ordstrict_XR Hok). split; intros [H1 H2]; (split; [exact H1|]).
  - intros r Hr. apply xltb_false_iff. apply (H2 (Some r)). exact Hr.
  - intros a Ha. rewrite Forall_forall in Hok. pose proof (Hok a Ha) as Hoka.
    destruct a as [r|]; [|discriminate]. unfold ngtb. apply xltb_false_iff. apply H2. exact Ha.
Qed.

(* the counts at XR are the counts of smaller / equal reals *)
Lemma gcount_lt_XR (x : R) (l : list R) :
  gcount_lt (Some x) (map Some l) = length (filter (fun a => if Rlt_dec a x then true else false) l).
Proof.
  unfold gcount_lt. induction l as [|a l IH]; [reflexivity|]. cbn [map filter].
  change (nltb (Some a) (Some x)) with (if Rlt_dec a x then true else false).
  destruct (Rlt_dec a x); cbn [length]; rewrite IH; reflexivity.
Qed.
Lemma gcount_eq_XR (x : R) (l : list R) :
  gcount_eq (Some x) (map Some l) = length (filter (fun a => if Req_EM_T a x then true else false) l).
Proof.
  unfold gcount_eq. induction l as [|a l IH]; [reflexivity|]. cbn [map filter].
  change (neqb (Some a) (Some x)) with (if Req_EM_T a x then true else false).
  destruct (Req_EM_T a x); cbn [length]; rewrite IH; reflexivity.
Qed.
