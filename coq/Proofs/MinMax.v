(* Proofs/MinMax.v — ts_vminmaxnorm (Model/Norm.v) at XR = option R with float-like nulls: the lazily
   re-searched (max, max_idx) / (min, min_idx) pairs always describe the greatest / least valid element of the
   window, hence the output is (x - min) / (max - min), null when max = min, x is null, or below min_periods.
   The maximum and the minimum side are one proof over a direction (geb, le').                          *)
From Coq Require Import Reals Lra Lia List Bool.
From Tevec Require Import Base.Prelude Base.Num Base.XR Spec.Stats Model.Driver Proofs.Driver
     Model.Features Model.Cmp Model.Norm Proofs.IdxRun Proofs.Cmp Proofs.Norm.
Import ListNotations.
Local Open Scope R_scope.

(* ---- greatest / least element of a list -------------------------------------------------------- *)
Lemma fold_Rmax_spec l : forall a0, (a0 <= fold_left Rmax l a0 /\ forall a, In a l -> a <= fold_left Rmax l a0) /\
                                    (fold_left Rmax l a0 = a0 \/ In (fold_left Rmax l a0) l).
Proof.
  induction l as [|b l IH]; intros a0; cbn [fold_left].
  - split; [split; [lra|intros a []]|left; reflexivity].
  - destruct (IH (Rmax a0 b)) as [[H1 H2] H3]. pose proof (Rmax_l a0 b). pose proof (Rmax_r a0 b).
    split; [split; [lra|]|].
    + intros a [<-|Ha]; [lra|apply H2; exact Ha].
    + destruct H3 as [H3|H3]; [|right; right; exact H3].
      rewrite H3. unfold Rmax. destruct (Rle_dec a0 b); [right; left; reflexivity|left; reflexivity].
Qed.
Lemma fold_Rmin_spec l : forall a0, (fold_left Rmin l a0 <= a0 /\ forall a, In a l -> fold_left Rmin l a0 <= a) /\
                                    (fold_left Rmin l a0 = a0 \/ In (fold_left Rmin l a0) l).
Proof.
  induction l as [|b l IH]; intros a0; cbn [fold_left].
  - split; [split; [lra|intros a []]|left; reflexivity].
  - destruct (IH (Rmin a0 b)) as [[H1 H2] H3]. pose proof (Rmin_l a0 b). pose proof (Rmin_r a0 b).
    split; [split; [lra|]|].
    + intros a [<-|Ha]; [lra|apply H2; exact Ha].
    + destruct H3 as [H3|H3]; [|right; right; exact H3].
      rewrite H3. unfold Rmin. destruct (Rle_dec a0 b); [left; reflexivity|right; left; reflexivity].
Qed.

Lemma lmaxR_spec l m : In m l -> (forall a, In a l -> a <= m) -> lmaxR l = m.
Proof.
  intros Hin Hub. destruct l as [|a0 l]; [contradiction|]. unfold lmaxR.
  destruct (fold_Rmax_spec l a0) as [[H1 H2] H3].
  assert (Hle : fold_left Rmax l a0 <= m) by (destruct H3 as [->|H3]; apply Hub; [left; reflexivity|right; exact H3]).
  assert (Hge : m <= fold_left Rmax l a0) by (destruct Hin as [<-|Hin]; [exact H1|apply H2; exact Hin]).
  lra.
Qed.
Lemma lminR_spec l m : In m l -> (forall a, In a l -> m <= a) -> lminR l = m.
Proof.
  intros Hin Hlb. destruct l as [|a0 l]; [contradiction|]. unfold lminR.
  destruct (fold_Rmin_spec l a0) as [[H1 H2] H3].
  assert (Hge : m <= fold_left Rmin l a0) by (destruct H3 as [->|H3]; apply Hlb; [left; reflexivity|right; exact H3]).
  assert (Hle : fold_left Rmin l a0 <= m) by (destruct Hin as [<-|Hin]; [exact H1|apply H2; exact Hin]).
  lra.
Qed.

(* ---- one direction ------------------------------------------------------------------------------- *)
Definition xv (xs : list XR) (j : nat) : XR := match nth_error xs j with Some v => v | None => None end.

Lemma xv_nth xs j v : nth_error xs j = Some v -> xv xs j = v.
Proof. intros H. unfold xv. rewrite H. reflexivity. Qed.

Lemma In_valid_seg_R xs a b r :
  In r (valid (seg a b xs)) <-> exists j, (a <= j < b)%nat /\ xv xs j = Some r.
Proof.
  unfold valid. rewrite in_flat_map. split.
  - intros (o & Ho & Hr). destruct o as [x|]; [|contradiction]. destruct Hr as [->|[]].
    apply In_nth_error in Ho. destruct Ho as [k Hk]. rewrite nth_error_seg in Hk.
    destruct (k <? b - a)%nat eqn:E; [|discriminate]. apply Nat.ltb_lt in E.
    exists (a + k)%nat. split; [lia|]. apply xv_nth. exact Hk.
  - intros (j & Hj & Hx). exists (Some r). split; [|left; reflexivity].
    apply nth_error_In with (n := (j - a)%nat). rewrite nth_error_seg.
    replace (j - a <? b - a)%nat with true by (symmetry; apply Nat.ltb_lt; lia).
    replace (a + (j - a))%nat with j by lia.
    unfold xv in Hx. destruct (nth_error xs j) as [v|]; [rewrite Hx; reflexivity|discriminate].
Qed.

Section Dir.
  Variable xs : list XR.
  Variable geb : XR -> XR -> bool.       (* geb cached candidate: the candidate replaces the cached value *)
  Variable le' : R -> R -> Prop.         (* le' m x : x is at least as extreme as m *)
  Variable sent : R.
  Hypothesis geb_le : forall m x, geb (Some m) (Some x) = true <-> le' m x.
  Hypothesis le_refl' : forall a, le' a a.
  Hypothesis le_trans' : forall a b c, le' a b -> le' b c -> le' a c.
  Hypothesis le_total' : forall a b, ~ le' a b -> le' b a.
  Hypothesis sent_le : forall r, In (Some r) xs -> le' sent r.

  Fixpoint scan_gen (i cnt : nat) (m : XR) (mi : nat) : res (XR * nat) :=
    match cnt with
    | O => Ok (m, mi)
    | S c => do v <- uget xs i;
             if not_none v then
               let x := unwrap v in
               if geb m x then scan_gen (S i) c x i else scan_gen (S i) c m mi
             else scan_gen (S i) c m mi
    end.

  (* the pair (m, mi) describes the positions [a, b): either m is the extreme valid value, held at mi inside
     the interval, or the interval has no valid element and m is the sentinel *)
  Definition OKg (a b : nat) (m : XR) (mi : nat) : Prop :=
    (exists r, m = Some r /\ (a <= mi < b)%nat /\ xv xs mi = Some r /\
               forall j r', (a <= j < b)%nat -> xv xs j = Some r' -> le' r' r) \/
    (m = Some sent /\ forall j, (a <= j < b)%nat -> xv xs j = None).

  Definition upd (m : XR) (mi i : nat) (v : XR) : XR * nat :=
    if not_none v then (if geb m (unwrap v) then (unwrap v, i) else (m, mi)) else (m, mi).

  Lemma upd_ok a i m mi v :
    OKg a i m mi -> (a <= i)%nat -> nth_error xs i = Some v ->
    OKg a (S i) (fst (upd m mi i v)) (snd (upd m mi i v)).
  Proof.
    intros HOK Hai Hv. pose proof (xv_nth xs i v Hv) as Hxi. unfold upd.
    destruct v as [x|]; cbn [not_none is_none IsNoneXR IsNone_float nisnan NumXR xisnan negb unwrap].
    - assert (Hin : In (Some x) xs) by (apply nth_error_In with i; exact Hv).
      destruct HOK as [(r & -> & Hmi & Hxm & Hub)|(-> & Hnone)].
      + destruct (geb (Some r) (Some x)) eqn:E; cbn [fst snd].
        * apply geb_le in E. left. exists x. split; [reflexivity|]. split; [lia|]. split; [exact Hxi|].
          intros j r' Hj Hr'. destruct (Nat.eq_dec j i) as [->|Hne].
          -- rewrite Hxi in Hr'. injection Hr' as <-. apply le_refl'.
          -- apply le_trans' with r; [apply (Hub j); [lia|exact Hr']|exact E].
        * left. exists r. split; [reflexivity|]. split; [lia|]. split; [exact Hxm|].
          intros j r' Hj Hr'. destruct (Nat.eq_dec j i) as [->|Hne].
          -- rewrite Hxi in Hr'. injection Hr' as <-. apply le_total'. intros Hc.
             apply geb_le in Hc. congruence.
          -- apply (Hub j); [lia|exact Hr'].
      + assert (E : geb (Some sent) (Some x) = true) by (apply geb_le, sent_le; exact Hin).
        rewrite E. cbn [fst snd]. left. exists x. split; [reflexivity|]. split; [lia|]. split; [exact Hxi|].
        intros j r' Hj Hr'. destruct (Nat.eq_dec j i) as [->|Hne].
        * rewrite Hxi in Hr'. injection Hr' as <-. apply le_refl'.
        * rewrite Hnone in Hr' by lia. discriminate.
    - cbn [fst snd]. destruct HOK as [(r & -> & Hmi & Hxm & Hub)|(-> & Hnone)].
      + left. exists r. split; [reflexivity|]. split; [lia|]. split; [exact Hxm|].
        intros j r' Hj Hr'. destruct (Nat.eq_dec j i) as [->|Hne]; [rewrite Hxi in Hr'; discriminate|].
        apply (Hub j); [lia|exact Hr'].
      + right. split; [reflexivity|]. intros j Hj. destruct (Nat.eq_dec j i) as [->|Hne]; [exact Hxi|].
        apply Hnone. lia.
  Qed.

  Lemma scan_gen_step i c m mi v :
    nth_error xs i = Some v ->
    scan_gen i (S c) m mi = scan_gen (S i) c (fst (upd m mi i v)) (snd (upd m mi i v)).
  Proof.
    intros Hv. cbn [scan_gen]. unfold uget. rewrite Hv. cbn [bind]. unfold upd.
    destruct (not_none v); [destruct (geb m (unwrap v))|]; reflexivity.
  Qed.

  Lemma scan_gen_spec : forall cnt i m mi a,
    OKg a i m mi -> (a <= i)%nat -> (i + cnt <= length xs)%nat ->
    exists m' mi', scan_gen i cnt m mi = Ok (m', mi') /\ OKg a (i + cnt) m' mi'.
  Proof.
    induction cnt as [|cnt IH]; intros i m mi a HOK Hai Hlen.
    - exists m, mi. rewrite Nat.add_0_r. split; [reflexivity|exact HOK].
    - destruct (nth_error_Some_lt xs i) as [v Hv]; [lia|].
      rewrite (scan_gen_step i cnt m mi v Hv). replace (i + S cnt)%nat with (S i + cnt)%nat by lia.
      apply IH; [apply upd_ok; assumption|lia|lia].
  Qed.

  (* the lazy re-search at the top of step e: [a0, e) was described, the window now starts at a *)
  Lemma research_ok a0 a e m mi :
    OKg a0 e m mi -> (a0 <= a <= e)%nat -> (e <= length xs)%nat ->
    exists m' mi',
      (if (mi <? a)%nat then scan_gen a (e - a) (Some sent) mi else Ok (m, mi)) = Ok (m', mi') /\
      OKg a e m' mi'.
  Proof.
    intros HOK Ha He. destruct (mi <? a)%nat eqn:E.
    - destruct (scan_gen_spec (e - a) a (Some sent) mi a) as (m' & mi' & H1 & H2); [|lia|lia|].
      { right. split; [reflexivity|]. intros j Hj. lia. }
      exists m', mi'. split; [exact H1|]. replace (a + (e - a))%nat with e in H2 by lia. exact H2.
    - apply Nat.ltb_ge in E. exists m, mi. split; [reflexivity|].
      destruct HOK as [(r & -> & Hmi & Hxm & Hub)|(-> & Hnone)].
      + left. exists r. split; [reflexivity|]. split; [lia|]. split; [exact Hxm|].
        intros j r' Hj Hr'. apply (Hub j); [lia|exact Hr'].
      + right. split; [reflexivity|]. intros j Hj. apply Hnone. lia.
  Qed.

  (* with a valid element in the interval the pair is the extreme valid value *)
  Lemma OKg_extreme a b m mi j0 r0 :
    OKg a b m mi -> (a <= j0 < b)%nat -> xv xs j0 = Some r0 ->
    exists r, m = Some r /\ In r (valid (seg a b xs)) /\ forall r', In r' (valid (seg a b xs)) -> le' r' r.
  Proof.
    intros [(r & -> & Hmi & Hxm & Hub)|(-> & Hnone)] Hj Hx.
    - exists r. split; [reflexivity|]. split; [apply In_valid_seg_R; exists mi; split; assumption|].
      intros r' Hr'. apply In_valid_seg_R in Hr'. destruct Hr' as (j & Hj' & Hxj). apply (Hub j); assumption.
    - rewrite Hnone in Hx by exact Hj. discriminate.
  Qed.
End Dir.

(* the model's two scans are the generic scan in the two directions; the combined loop is both *)
Definition gmax (m x : XR) : bool := nleb m x.
Definition gmin (m x : XR) : bool := nleb x m.

Lemma scan_max_gen xs : forall cnt i m mi, scan_max (T := XR) xs i cnt m mi = scan_gen xs gmax i cnt m mi.
Proof.
  induction cnt as [|cnt IH]; intros i m mi; [reflexivity|]. cbn [scan_max scan_gen].
  destruct (uget xs i) as [v|k]; [|reflexivity]. cbn [bind]. unfold gmax.
  destruct (not_none v); [destruct (nleb m (unwrap v))|]; apply IH.
Qed.
Lemma scan_min_gen xs : forall cnt i m mi, scan_min (T := XR) xs i cnt m mi = scan_gen xs gmin i cnt m mi.
Proof.
  induction cnt as [|cnt IH]; intros i m mi; [reflexivity|]. cbn [scan_min scan_gen].
  destruct (uget xs i) as [v|k]; [|reflexivity]. cbn [bind]. unfold gmin.
  destruct (not_none v); [destruct (nleb (unwrap v) m)|]; apply IH.
Qed.
Lemma scan_both_split xs : forall cnt i mx mxi mn mni,
  scan_both (T := XR) xs i cnt mx mxi mn mni =
  do r1 <- scan_gen xs gmax i cnt mx mxi; do r2 <- scan_gen xs gmin i cnt mn mni; Ok (r1, r2).
Proof.
  induction cnt as [|cnt IH]; intros i mx mxi mn mni; [reflexivity|]. cbn [scan_both scan_gen].
  destruct (uget xs i) as [v|k]; [|reflexivity]. cbn [bind]. unfold gmax, gmin.
  destruct (not_none v); [|apply IH].
  destruct (nleb mx (unwrap v)), (nleb (unwrap v) mn); apply IH.
Qed.

Lemma gmax_le m x : gmax (Some m) (Some x) = true <-> m <= x.
Proof. unfold gmax. cbn. destruct (Rle_dec m x); split; intros; try reflexivity; try assumption; try discriminate; contradiction. Qed.
Lemma gmin_le m x : gmin (Some m) (Some x) = true <-> x <= m.
Proof. unfold gmin. cbn. destruct (Rle_dec x m); split; intros; try reflexivity; try assumption; try discriminate; contradiction. Qed.

(* ---- the state machine ----------------------------------------------------------------------------- *)
Section MM.
  Variables lo hi : R.
  Variable xs : list XR.
  Hypothesis Hb : forall r, In (Some r) xs -> lo <= r <= hi.
  Variable wd : nat.
  Hypothesis Hwd : (1 <= wd)%nat.
  Variable mp : nat.

  Definition OKmax := OKg xs (fun m x => m <= x) lo.
  Definition OKmin := OKg xs (fun m x => x <= m) hi.
  Definition cntR (a b : nat) : nat := nv (seg a b xs).

  Definition PreMM (k : nat) (s : @mm XR) : Prop :=
    mm_n s = cntR (wstart wd k) k /\
    OKmax (wstart wd (k - 1)) k (mm_max s) (mm_maxi s) /\
    OKmin (wstart wd (k - 1)) k (mm_min s) (mm_mini s).

  Definition mm_at (k : nat) : XR :=
    match xv xs k with
    | Some x =>
        let V := valid (seg (wstart wd k) (S k) xs) in
        if (mp <=? length V)%nat then
          (if Req_EM_T (lmaxR V) (lminR V) then None else Some ((x - lminR V) / (lmaxR V - lminR V)))
        else None
    | None => None
    end.

  Lemma isv_R (v : XR) : not_none v = match v with Some _ => true | None => false end.
  Proof. destruct v; reflexivity. Qed.

  Lemma cntR_snoc a k v : (a <= k)%nat -> nth_error xs k = Some v ->
    cntR a (S k) = (cntR a k + if not_none v then 1 else 0)%nat.
  Proof.
    intros Hak Hv. unfold cntR, nv. rewrite (@seg_snoc _ a k xs v Hak Hv), valid_app, app_length.
    f_equal. destruct v; reflexivity.
  Qed.
  Lemma cntR_cons a b v0 : (a < b)%nat -> nth_error xs a = Some v0 ->
    cntR a b = ((if not_none v0 then 1 else 0) + cntR (S a) b)%nat.
  Proof.
    intros Hab Hv. unfold cntR, nv. rewrite (@seg_cons _ a b xs v0 Hab Hv).
    change (v0 :: seg (S a) b xs) with ([v0] ++ seg (S a) b xs). rewrite valid_app, app_length.
    f_equal. destruct v0; reflexivity.
  Qed.

  Lemma max_dir_research a0 a e m mi :
    OKmax a0 e m mi -> (a0 <= a <= e)%nat -> (e <= length xs)%nat ->
    exists m' mi', (if (mi <? a)%nat then scan_gen xs gmax a (e - a) (Some lo) mi else Ok (m, mi)) = Ok (m', mi') /\
                   OKmax a e m' mi'.
  Proof.
    apply (research_ok xs gmax (fun m x : R => m <= x) lo gmax_le); try (intros; cbv beta in *; lra).
    intros r Hr. apply Hb in Hr. lra.
  Qed.
  Lemma min_dir_research a0 a e m mi :
    OKmin a0 e m mi -> (a0 <= a <= e)%nat -> (e <= length xs)%nat ->
    exists m' mi', (if (mi <? a)%nat then scan_gen xs gmin a (e - a) (Some hi) mi else Ok (m, mi)) = Ok (m', mi') /\
                   OKmin a e m' mi'.
  Proof.
    apply (research_ok xs gmin (fun m x : R => x <= m) hi gmin_le); try (intros; cbv beta in *; lra).
    intros r Hr. apply Hb in Hr. lra.
  Qed.
  Lemma max_upd a i m mi v :
    OKmax a i m mi -> (a <= i)%nat -> nth_error xs i = Some v ->
    OKmax a (S i) (fst (upd gmax m mi i v)) (snd (upd gmax m mi i v)).
  Proof.
    apply (upd_ok xs gmax (fun m x : R => m <= x) lo gmax_le); try (intros; cbv beta in *; lra).
    intros r Hr. apply Hb in Hr. lra.
  Qed.
  Lemma min_upd a i m mi v :
    OKmin a i m mi -> (a <= i)%nat -> nth_error xs i = Some v ->
    OKmin a (S i) (fst (upd gmin m mi i v)) (snd (upd gmin m mi i v)).
  Proof.
    apply (upd_ok xs gmin (fun m x : R => x <= m) hi gmin_le); try (intros; cbv beta in *; lra).
    intros r Hr. apply Hb in Hr. lra.
  Qed.

  Lemma mm_research_spec k s :
    (k < length xs)%nat -> PreMM k s ->
    exists s1, mm_research (Some lo) (Some hi) xs s (start_of wd k) k = Ok s1 /\
               mm_n s1 = mm_n s /\
               OKmax (wstart wd k) k (mm_max s1) (mm_maxi s1) /\
               OKmin (wstart wd k) k (mm_min s1) (mm_mini s1).
  Proof.
    intros Hk (Hn & HM & Hm). unfold mm_research. rewrite (start_of_wstart wd Hwd).
    assert (Hmono : (wstart wd (k - 1) <= wstart wd k <= k)%nat) by (unfold wstart; lia).
    destruct (k <? wd - 1)%nat eqn:Ew.
    - apply Nat.ltb_lt in Ew. exists s. split; [reflexivity|]. split; [reflexivity|].
      replace (wstart wd k) with (wstart wd (k - 1)) by (unfold wstart; lia). split; assumption.
    - set (a := wstart wd k) in *.
      destruct (max_dir_research (wstart wd (k - 1)) a k (mm_max s) (mm_maxi s))
        as (mx & mxi & HrM & HOKM); try assumption; try lia.
      destruct (min_dir_research (wstart wd (k - 1)) a k (mm_min s) (mm_mini s))
        as (mn & mni & Hrm & HOKm); try assumption; try lia.
      exists {| mm_max := mx; mm_maxi := mxi; mm_min := mn; mm_mini := mni; mm_n := mm_n s |}.
      cbn [mm_max mm_maxi mm_min mm_mini mm_n]. split; [|split; [reflexivity|split; assumption]].
      destruct (mm_maxi s <? a)%nat, (mm_mini s <? a)%nat.
      + rewrite scan_both_split, HrM. cbn [bind]. rewrite Hrm. cbn [bind fst snd]. reflexivity.
      + rewrite scan_max_gen, HrM. cbn [bind fst snd]. injection Hrm as <- <-. reflexivity.
      + rewrite scan_min_gen, Hrm. cbn [bind fst snd]. injection HrM as <- <-. reflexivity.
      + injection HrM as <- <-. injection Hrm as <- <-. destruct s; reflexivity.
  Qed.

  Lemma mmnorm_cb_step k v s :
    nth_error xs k = Some v -> PreMM k s ->
    exists s' o, mmnorm_cb (Some lo) (Some hi) mp xs s (start_of wd k, k, v) = Ok (s', o) /\
                 PreMM (S k) s' /\ o = mm_at k.
  Proof.
    intros Hv HP.
    assert (Hk : (k < length xs)%nat) by (apply nth_error_Some; congruence).
    destruct (mm_research_spec k s Hk HP) as (s1 & Hs1 & Hn1 & HM & Hm).
    destruct HP as (Hn & _ & _).
    unfold mmnorm_cb. rewrite Hs1. cbn [bind].
    set (a := wstart wd k) in *.
    assert (Hak : (a <= k)%nat) by (unfold a, wstart; lia).
    (* the update by the current element is one scan step in each direction *)
    pose proof (max_upd a k (mm_max s1) (mm_maxi s1) v HM Hak Hv) as HM'.
    pose proof (min_upd a k (mm_min s1) (mm_mini s1) v Hm Hak Hv) as Hm'.
    assert (Hcnt : cntR a (S k) = (cntR a k + if not_none v then 1 else 0)%nat) by (apply cntR_snoc; assumption).
    (* the post step for a state whose count is that of the full window *)
    assert (Hpost : forall (s2 : @mm XR) (o : XR),
              mm_n s2 = cntR a (S k) ->
              OKmax a (S k) (mm_max s2) (mm_maxi s2) -> OKmin a (S k) (mm_min s2) (mm_mini s2) ->
              exists s3,
                (do s3 <- match start_of wd k with
                          | None => Ok s2
                          | Some st =>
                              do v0 <- uget xs st;
                              if not_none v0 then
                                do n' <- usub (mm_n s2) 1;
                                Ok {| mm_max := mm_max s2; mm_maxi := mm_maxi s2; mm_min := mm_min s2;
                                      mm_mini := mm_mini s2; mm_n := n' |}
                              else Ok s2
                          end; Ok (s3, o)) = Ok (s3, o) /\ PreMM (S k) s3).
    { intros s2 o Hn2 HM2 Hm2. rewrite (start_of_wstart wd Hwd). fold a.
      assert (Hpre : forall s3, mm_max s3 = mm_max s2 -> mm_maxi s3 = mm_maxi s2 -> mm_min s3 = mm_min s2 ->
                       mm_mini s3 = mm_mini s2 -> mm_n s3 = cntR (wstart wd (S k)) (S k) -> PreMM (S k) s3).
      { intros s3 E1 E2 E3 E4 E5. split; [exact E5|]. cbn [Nat.sub]. rewrite Nat.sub_0_r.
        rewrite E1, E2, E3, E4. split; assumption. }
      destruct (k <? wd - 1)%nat eqn:Ew.
      - apply Nat.ltb_lt in Ew. cbn [bind]. exists s2. split; [reflexivity|]. apply Hpre; try reflexivity.
        rewrite Hn2. unfold a, wstart. f_equal. lia.
      - apply Nat.ltb_ge in Ew.
        destruct (nth_error_Some_lt xs a) as [v0 Hv0]; [unfold a, wstart; lia|].
        unfold uget. rewrite Hv0. cbn [bind].
        assert (Hc : cntR a (S k) = ((if not_none v0 then 1 else 0) + cntR (wstart wd (S k)) (S k))%nat).
        { replace (wstart wd (S k)) with (S a) by (unfold a, wstart; lia).
          apply cntR_cons; [unfold a, wstart; lia|exact Hv0]. }
        destruct (not_none v0).
        + unfold usub. replace (1 <=? mm_n s2)%nat with true by (symmetry; apply Nat.leb_le; lia).
          cbn [bind]. eexists. split; [reflexivity|]. apply Hpre; cbn [mm_max mm_maxi mm_min mm_mini mm_n]; try reflexivity. lia.
        + cbn [bind]. exists s2. split; [reflexivity|]. apply Hpre; try reflexivity. lia. }
    unfold mm_at. rewrite (xv_nth xs k v Hv). fold a.
    unfold upd in HM', Hm'.
    destruct v as [x|]; cbn [not_none is_none IsNoneXR IsNone_float nisnan NumXR xisnan negb unwrap] in *.
    - (* valid current element *)
      unfold gmax in HM'. unfold gmin in Hm'.
      set (pM := if nleb (mm_max s1) (Some x) then (Some x, k) else (mm_max s1, mm_maxi s1)) in *.
      set (pm := if nleb (Some x) (mm_min s1) then (Some x, k) else (mm_min s1, mm_mini s1)) in *.
      destruct pM as [mx mxi] eqn:EM. destruct pm as [mn mni] eqn:Em. cbn [fst snd] in HM', Hm'.
      assert (Hxk : xv xs k = Some x) by (apply xv_nth; exact Hv).
      destruct (OKg_extreme xs (fun m x : R => m <= x) lo a (S k) mx mxi k x HM' ltac:(lia) Hxk) as (rM & -> & HinM & HubM).
      destruct (OKg_extreme xs (fun m x : R => x <= m) hi a (S k) mn mni k x Hm' ltac:(lia) Hxk) as (rm & -> & Hinm & Hlbm).
      rewrite (lmaxR_spec _ rM HinM HubM), (lminR_spec _ rm Hinm Hlbm).
      assert (HnS : S (mm_n s1) = length (valid (seg a (S k) xs))).
      { change (length (valid (seg a (S k) xs))) with (cntR a (S k)). rewrite Hcnt, Hn1, Hn. fold a. lia. }
      rewrite HnS, mmnorm_emit_closed.
      destruct (Hpost {| mm_max := Some rM; mm_maxi := mxi; mm_min := Some rm; mm_mini := mni;
                         mm_n := length (valid (seg a (S k) xs)) |}
                      (if (mp <=? length (valid (seg a (S k) xs)))%nat
                       then (if Req_EM_T rM rm then None else Some ((x - rm) / (rM - rm))) else None))
        as (s3 & H3 & HP3);
        [reflexivity|cbn [mm_max mm_maxi]; exact HM'|cbn [mm_min mm_mini]; exact Hm'|].
      exists s3. eexists. split; [exact H3|]. split; [exact HP3|reflexivity].
    - (* null current element *)
      cbn [fst snd] in HM', Hm'.
      destruct (Hpost s1 nnan) as (s3 & H3 & HP3); [rewrite Hcnt, Hn1, Hn; fold a; lia|exact HM'|exact Hm'|].
      exists s3. eexists. split; [exact H3|]. split; [exact HP3|reflexivity].
  Qed.

  Lemma PreMM_init : PreMM 0 (mm0 (Some lo) (Some hi)).
  Proof.
    assert (H0 : wstart wd 0 = 0%nat) by (unfold wstart; lia).
    split; [cbn [mm_n mm0]; rewrite H0; unfold cntR; rewrite seg_nil; reflexivity|].
    cbn [Nat.sub]. rewrite H0. split; right; (split; [reflexivity|intros j Hj; lia]).
  Qed.
End MM.

Theorem ts_vminmaxnorm_spec (lo hi : R) body (w : nat) (mp : option nat) (xs : list XR) :
  (1 <= w)%nat ->
  (forall r, In (Some r) xs -> lo <= r <= hi) ->
  exists out, ts_vminmaxnorm (Some lo) (Some hi) body w mp xs = Done out /\ length out = length xs /\
    forall i, (i < length xs)%nat ->
      nth_error out i =
      Some (match nth_error xs i with
            | Some (Some x) =>
                let V := valid (win w i xs) in
                if (mp_eff mp w 0 <=? length V)%nat then
                  (if Req_EM_T (lmaxR V) (lminR V) then None
                   else Some ((x - lminR V) / (lmaxR V - lminR V)))
                else None
            | _ => None
            end).
Proof.
  intros Hw Hb. unfold ts_vminmaxnorm.
  destruct (Nat.eq_dec (length xs) 0) as [E0|En0].
  { (* the empty series: both bodies return the empty result *)
    apply length_zero_iff_nil in E0. subst xs.
    exists []. split; [|split; [reflexivity|intros i Hi; cbn in Hi; lia]].
    unfold idx_run. destruct body.
    - rewrite rolling_apply_idx_to_eq by exact Hw. reflexivity.
    - rewrite rolling_apply_idx_default_eq by exact Hw. reflexivity. }
  assert (Hlen : (1 <= length xs)%nat) by lia.
  set (wd := eff_window body w (length xs)). set (m := mp_eff mp w 0).
  assert (Hwd : (1 <= wd)%nat) by (unfold wd, eff_window; destruct body; lia).
  destruct (@idx_run_spec XR (@mm XR) XR (mmnorm_cb (Some lo) (Some hi) m xs) xs body w
              (PreMM lo hi xs wd) (fun k o => o = mm_at xs wd m k) (mm0 (Some lo) (Some hi)) Hw)
    as (out & H1 & H2 & H3).
  { apply PreMM_init. exact Hwd. }
  { intros k v s Hv HP. fold wd. apply mmnorm_cb_step; assumption. }
  exists out. split; [exact H1|]. split; [exact H2|].
  apply (@nth_from_rel XR out (length xs) (fun k o => o = mm_at xs wd m k)); [exact H2|exact H3|].
  intros i o Hi ->. unfold mm_at, xv.
  destruct (nth_error xs i) as [v|] eqn:Ev; [|apply nth_error_None in Ev; lia].
  rewrite win_seg.
  replace (wstart wd i) with (wstart w i) by (unfold wd, eff_window, wstart; destruct body; lia).
  destruct v; reflexivity.
Qed.
