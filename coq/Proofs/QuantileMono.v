(* Proofs/QuantileMono.v — the linearly interpolated quantile of a sorted list lies between its two
   neighbouring order statistics and is monotone in q (used by C20: Q(q) <= Q(1-q) for q <= 1/2,
   MAD >= 0).                                                                                      *)
From Coq Require Import Reals Lra Lia List Sorting ZArith.
From Tevec Require Import Base.Prelude Base.Num Base.XR Model.Quantile Proofs.OrderXR Proofs.Quantile.
Import ListNotations.
Local Open Scope R_scope.

Lemma sorted_nth_le (s : list R) : Sorted Rle s ->
  forall i j, (i <= j < length s)%nat -> nth i s 0 <= nth j s 0.
Proof.
  intros Hs. apply Sorted_StronglySorted in Hs; [|intros a b c; apply Rle_trans].
  induction Hs as [|a l Hl IH Hall]; intros i j Hij; [cbn in Hij; lia|].
  destruct j as [|j].
  - assert (i = 0)%nat by lia. subst. lra.
  - destruct i as [|i].
    + cbn [nth]. rewrite Forall_forall in Hall. apply Hall. apply nth_In. cbn in Hij. lia.
    + cbn [nth]. apply IH. cbn in Hij. lia.
Qed.

(* the interpolation at fractional index h *)
Definition interp (s : list R) (h : R) : R :=
  let lo := nth (Z.to_nat (Rfloor h)) s 0 in
  let hi := nth (Z.to_nat (Rceil h)) s 0 in
  lo + (hi - lo) * (h - IZR (Rfloor h)).

Lemma quantile_spec_interp s q : quantile_spec s q Linear = interp s (INR (length s - 1) * q).
Proof. reflexivity. Qed.

Section Interp.
  Variable s : list R.
  Hypothesis Hs : Sorted Rle s.
  Hypothesis Hne : s <> [].
  Let L := (length s - 1)%nat.

  Lemma len_pos : (1 <= length s)%nat.
  Proof. destruct s; [contradiction|cbn; lia]. Qed.

  Lemma idx_range h : 0 <= h <= INR L ->
    (Z.to_nat (Rfloor h) <= Z.to_nat (Rceil h) < length s)%nat /\
    INR (Z.to_nat (Rfloor h)) = IZR (Rfloor h) /\ INR (Z.to_nat (Rceil h)) = IZR (Rceil h).
  Proof.
    intros Hh. pose proof len_pos as Hl.
    assert (HL : INR L = IZR (Z.of_nat L)) by apply INR_IZR_INZ.
    rewrite HL in Hh.
    destruct (Rfloor_range h (Z.of_nat L) Hh) as [F0 F1].
    destruct (Rceil_range h (Z.of_nat L) Hh) as [C0 C1].
    assert (FC : (Rfloor h <= Rceil h)%Z).
    { destruct (floor_ceil_cases h) as [[_ E]|[_ E]]; rewrite E; lia. }
    split; [|split; apply INR_Ztonat; assumption].
    unfold L in *. split; [apply Z2Nat.inj_le; lia|].
    apply Nat2Z.inj_lt. rewrite Z2Nat.id by lia. lia.
  Qed.

  (* between the two neighbours *)
  Lemma interp_between h : 0 <= h <= INR L ->
    nth (Z.to_nat (Rfloor h)) s 0 <= interp s h <= nth (Z.to_nat (Rceil h)) s 0.
  Proof.
    intros Hh. destruct (idx_range h Hh) as (Hidx & _ & _).
    pose proof (sorted_nth_le s Hs _ _ Hidx) as Hle.
    unfold interp. destruct (Rfloor_spec h) as [F1 F2].
    set (a := nth (Z.to_nat (Rfloor h)) s 0) in *. set (b := nth (Z.to_nat (Rceil h)) s 0) in *.
    set (t := h - IZR (Rfloor h)). assert (0 <= t < 1) by (unfold t; lra).
    split; nra.
  Qed.

  Lemma interp_mono h h' : 0 <= h -> h <= h' -> h' <= INR L -> interp s h <= interp s h'.
  Proof.
    intros H0 Hhh HL.
    assert (Hh : 0 <= h <= INR L) by lra. assert (Hh' : 0 <= h' <= INR L) by lra.
    destruct (idx_range h Hh) as (Hidx & Fi & Ci). destruct (idx_range h' Hh') as (Hidx' & Fi' & Ci').
    destruct (interp_between h Hh) as [_ Hup]. destruct (interp_between h' Hh') as [Hlow' _].
    destruct (Z_le_gt_dec (Rceil h) (Rfloor h')) as [Hcf|Hcf].
    - (* ceil h <= floor h': chain through the order statistics *)
      assert (Hn : (Z.to_nat (Rceil h) <= Z.to_nat (Rfloor h') < length s)%nat).
      { split; [|lia]. apply INR_le. rewrite Ci, Fi'. apply IZR_le. exact Hcf. }
      pose proof (sorted_nth_le s Hs _ _ Hn). lra.
    - (* same cell: floor h = floor h' = i, ceil = i + 1 on both *)
      destruct (Rfloor_spec h) as [A1 A2]. destruct (Rfloor_spec h') as [B1 B2].
      assert (Hff : (Rfloor h <= Rfloor h')%Z).
      { apply Z.lt_succ_r. apply lt_IZR. rewrite succ_IZR. lra. }
      destruct (floor_ceil_cases h) as [[E1 E2]|[E1 E2]]; [lia|].
      assert (Ef : Rfloor h' = Rfloor h) by lia.
      destruct (floor_ceil_cases h') as [[E1' E2']|[E1' E2']].
      { (* h' is an integer: then h' = floor h < h, impossible *) rewrite Ef in E1'. lra. }
      unfold interp. rewrite E2, E2', Ef.
      set (a := nth (Z.to_nat (Rfloor h)) s 0). set (b := nth (Z.to_nat (Rfloor h + 1)) s 0).
      assert (Hab : a <= b).
      { unfold a, b. rewrite <- E2. apply sorted_nth_le; [exact Hs|exact Hidx]. }
      nra.
  Qed.
End Interp.

Lemma INR_pred_le (n : nat) (q : R) : 0 <= q <= 1 -> 0 <= INR n * q <= INR n.
Proof. intros Hq. pose proof (pos_INR n). nra. Qed.

(* Q(q) is monotone in q *)
Theorem quantile_mono (s : list R) (q q' : R) :
  Sorted Rle s -> s <> [] -> 0 <= q -> q <= q' -> q' <= 1 ->
  quantile_spec s q Linear <= quantile_spec s q' Linear.
Proof.
  intros Hs Hne H0 Hqq H1. rewrite !quantile_spec_interp.
  pose proof (pos_INR (length s - 1)) as Hn.
  apply interp_mono; try assumption; nra.
Qed.

(* Q(q) lies between the smallest and the largest element; in particular it is >= any lower bound *)
Theorem quantile_lower_bound (s : list R) (q c : R) :
  Sorted Rle s -> s <> [] -> 0 <= q <= 1 -> (forall x, In x s -> c <= x) -> c <= quantile_spec s q Linear.
Proof.
  intros Hs Hne Hq Hc. rewrite quantile_spec_interp.
  pose proof (INR_pred_le (length s - 1) q Hq) as Hh.
  destruct (interp_between s Hs Hne _ Hh) as [Hlo _].
  destruct (idx_range s Hs Hne _ Hh) as (Hidx & _).
  pose proof (Hc (nth (Z.to_nat (Rfloor (INR (length s - 1) * q))) s 0)) as H.
  assert (Hin : In (nth (Z.to_nat (Rfloor (INR (length s - 1) * q))) s 0) s) by (apply nth_In; lia).
  specialize (H Hin). lra.
Qed.
