(* Proofs/Time.v — lemmas about Model/Time.v for C16 and C17. Axiom-free (Z, bool, lists only). *)
From Coq Require Import ZArith List Bool Lia ZifyBool.
From Tevec Require Import Base.Prelude Spec.Calendar Model.Time.
Local Open Scope Z_scope.

(* ------------------------------------------------------------------ small tools *)
Ltac unfold_consts :=
  unfold NANOS_PER_MICRO, NANOS_PER_MILLI, NANOS_PER_SEC, MICROS_PER_MILLI, MICROS_PER_SEC, MILLIS_PER_SEC,
         SECS_PER_DAY, SECS_PER_HOUR, SECS_PER_MINUTE, NaT, i64_min, i64_max, i32_min, i32_max in *.

Lemma is_nat_true x : is_nat x = true <-> x = NaT.
Proof. unfold is_nat. apply Z.eqb_eq. Qed.
Lemma is_nat_false x : is_nat x = false <-> x <> NaT.
Proof. unfold is_nat. apply Z.eqb_neq. Qed.

Lemma in_i64_iff z : in_i64 z = true <-> i64_min <= z <= i64_max.
Proof. unfold in_i64. lia. Qed.
Lemma in_i32_iff z : in_i32 z = true <-> i32_min <= z <= i32_max.
Proof. unfold in_i32. lia. Qed.

Lemma chk64_ok z : in_i64 z = true -> chk64 z = Ok z.
Proof. unfold chk64. intros ->. reflexivity. Qed.
Lemma chk64_inv z r : chk64 z = Ok r -> r = z /\ in_i64 z = true.
Proof. unfold chk64. destruct (in_i64 z); [intros [= <-]; auto|discriminate]. Qed.
Lemma chk64s_inv z r : chk64s z = Ok r -> r = z /\ in_i64 z = true.
Proof. unfold chk64s. destruct (in_i64 z); [intros [= <-]; auto|discriminate]. Qed.
Lemma chk32_inv z r : chk32 z = Ok r -> r = z /\ in_i32 z = true.
Proof. unfold chk32. destruct (in_i32 z); [intros [= <-]; auto|discriminate]. Qed.
Lemma chk32s_inv z r : chk32s z = Ok r -> r = z /\ in_i32 z = true.
Proof. unfold chk32s. destruct (in_i32 z); [intros [= <-]; auto|discriminate]. Qed.

(* ratio between two units: number of t-units in one u-unit when t is finer *)
Definition finer (u t : tunit) : bool := per_sec u <? per_sec t.      (* t strictly finer than u *)
Definition ratio (u t : tunit) : Z := per_sec t / per_sec u.           (* for t finer than u *)

(* ------------------------------------------------------------------ C16: NaT through conversions *)
Lemma into_unit_nat u t : into_unit u t NaT = Ok NaT.
Proof. destruct u, t; reflexivity. Qed.

Lemma into_opt_i64_nat : into_opt_i64 NaT = None.
Proof. reflexivity. Qed.
Lemma into_opt_i64_valid x : x <> NaT -> into_opt_i64 x = Some x.
Proof. intros H. unfold into_opt_i64. apply is_nat_false in H. rewrite H. reflexivity. Qed.
Lemma from_into_opt_i64 x : from_opt_i64 (into_opt_i64 x) = x.
Proof. unfold into_opt_i64. destruct (is_nat x) eqn:E; [apply is_nat_true in E; subst|]; reflexivity. Qed.

Lemma as_cr_nat u : as_cr u NaT = None.
Proof. destruct u; reflexivity. Qed.
Lemma dt_field_nat f u : dt_field f u NaT = None.
Proof. unfold dt_field. rewrite as_cr_nat. reflexivity. Qed.

(* ------------------------------------------------------------------ C16: NaT through operators *)
Lemma dt_add_nat_l u d : dt_add u NaT d = Ok NaT.
Proof. reflexivity. Qed.
Lemma dt_add_nat_r u x d : td_is_nat d = true -> dt_add u x d = Ok NaT.
Proof. intros H. unfold dt_add. rewrite H, andb_false_r. reflexivity. Qed.
Lemma dt_sub_nat_l u d : dt_sub u NaT d = Ok NaT.
Proof. reflexivity. Qed.
Lemma dt_sub_nat_r u x d : td_is_nat d = true -> dt_sub u x d = Ok NaT.
Proof. intros H. unfold dt_sub. rewrite H, andb_false_r. reflexivity. Qed.
Lemma dt_diff_nat_l u b : dt_diff u NaT b = Ok td_nat.
Proof. reflexivity. Qed.
Lemma dt_diff_nat_r u a : dt_diff u a NaT = Ok td_nat.
Proof. unfold dt_diff. change (is_nat NaT) with true. rewrite andb_false_r. reflexivity. Qed.
Lemma td_neg_nat d : td_is_nat d = true -> td_is_nat (td_neg d) = true.
Proof. intros H. unfold td_neg. rewrite H. exact H. Qed.
Lemma td_add_nat_l a b : td_is_nat a = true -> td_add a b = Ok td_nat.
Proof. intros H. unfold td_add. rewrite H. reflexivity. Qed.
Lemma td_add_nat_r a b : td_is_nat b = true -> td_add a b = Ok td_nat.
Proof. intros H. unfold td_add. rewrite H, andb_false_r. reflexivity. Qed.
Lemma td_sub_nat_l a b : td_is_nat a = true -> td_sub a b = Ok td_nat.
Proof. intros H. unfold td_sub. rewrite H. reflexivity. Qed.
Lemma td_sub_nat_r a b : td_is_nat b = true -> td_sub a b = Ok td_nat.
Proof. intros H. unfold td_sub. rewrite H, andb_false_r. reflexivity. Qed.
Lemma td_mul_nat a k : td_is_nat a = true -> td_mul a k = Ok td_nat.
Proof. intros H. unfold td_mul. rewrite H. reflexivity. Qed.
Lemma time_add_nat_l d : time_add NaT d = Ok NaT.
Proof. reflexivity. Qed.
Lemma time_add_nat_r t d : td_is_nat d = true -> time_add t d = Ok NaT.
Proof. intros H. unfold time_add. rewrite H, andb_false_r. reflexivity. Qed.
Lemma time_sub_nat_l d : time_sub NaT d = Ok NaT.
Proof. reflexivity. Qed.
Lemma time_sub_nat_r t d : td_is_nat d = true -> time_sub t d = Ok NaT.
Proof. intros H. unfold time_sub. rewrite H, andb_false_r. reflexivity. Qed.
Lemma dt_trunc_nat u d : dt_trunc u NaT d = Ok NaT.
Proof. reflexivity. Qed.
Lemma td_from_i64_nat : td_is_nat (td_from_i64 i64_min) = true.
Proof. reflexivity. Qed.

(* ------------------------------------------------------------------ C16: coarsening = Euclidean floor *)
(* t coarser than u: the result is floor (x / ratio), i.e. the instant truncated toward the past *)
Lemma into_unit_coarsen u t x :
  finer t u = true -> x <> NaT -> into_unit u t x = Ok (x / ratio t u).
Proof.
  intros Hf Hx. apply is_nat_false in Hx. unfold into_unit. rewrite Hx.
  destruct u, t; try discriminate Hf; reflexivity.
Qed.

Lemma ratio_pos u t : finer u t = true -> 1 < ratio u t.
Proof. destruct u, t; intros H; try discriminate H; vm_compute; reflexivity. Qed.

Lemma ratio_unit_ns u t : finer u t = true -> unit_ns u = ratio u t * unit_ns t.
Proof. destruct u, t; intros H; try discriminate H; reflexivity. Qed.

(* floor characterisation, also for x < 0 *)
Lemma into_unit_coarsen_floor u t x y :
  finer t u = true -> x <> NaT -> into_unit u t x = Ok y ->
  y * ratio t u <= x < (y + 1) * ratio t u.
Proof.
  intros Hf Hx H. rewrite into_unit_coarsen in H by assumption. injection H as <-.
  pose proof (ratio_pos _ _ Hf) as Hr.
  pose proof (Z.mul_div_le x (ratio t u) ltac:(lia)).
  pose proof (Z.mul_succ_div_gt x (ratio t u) ltac:(lia)). lia.
Qed.

(* in terms of instants (nanoseconds since the epoch): the greatest t-instant not after x *)
Definition instant_ns (u : tunit) (x : Z) : Z := x * unit_ns u.
Lemma into_unit_coarsen_instant u t x y :
  finer t u = true -> x <> NaT -> into_unit u t x = Ok y ->
  instant_ns t y = unit_ns t * (instant_ns u x / unit_ns t).
Proof.
  intros Hf Hx H. rewrite into_unit_coarsen in H by assumption. injection H as <-.
  unfold instant_ns. rewrite (ratio_unit_ns _ _ Hf).
  assert (0 < unit_ns u) by (destruct u; reflexivity).
  pose proof (ratio_pos _ _ Hf).
  rewrite Z.div_mul_cancel_r by lia. lia.
Qed.

(* ... exactly as the calendar library does: going through chrono gives the same value *)
Lemma as_cr_some_inv u x c :
  as_cr u x = Some c ->
  x <> NaT /\ cr_secs c = x / per_sec u /\ cr_nanos c = (x mod per_sec u) * unit_ns u.
Proof.
  unfold as_cr. destruct (is_nat x) eqn:E; [discriminate|]. apply is_nat_false in E.
  destruct u; unfold cr_from_timestamp; cbn [per_sec unit_ns].
  - destruct (date_in_range _); [|discriminate]. intros [= <-]. cbn [cr_secs cr_nanos].
    rewrite Z.div_1_r, Z.mod_1_r. auto.
  - destruct (date_in_range _); [|discriminate]. intros [= <-]. cbn [cr_secs cr_nanos]. auto.
  - destruct (date_in_range _); [|discriminate]. intros [= <-]. cbn [cr_secs cr_nanos]. auto.
  - intros [= <-]. cbn [cr_secs cr_nanos]. rewrite Z.mul_1_r. auto.
Qed.

Lemma into_unit_coarsen_chrono u t x c :
  finer t u = true -> as_cr u x = Some c -> from_cr t c = into_unit u t x.
Proof.
  intros Hf Hc. apply as_cr_some_inv in Hc. destruct Hc as (Hx & Hs & Hn).
  rewrite into_unit_coarsen by assumption.
  destruct u, t; try discriminate Hf; unfold from_cr, ratio; cbn [per_sec unit_ns] in *; rewrite ?Hs, ?Hn; f_equal;
    change (1000 / 1) with 1000; change (1000000 / 1) with 1000000; change (1000000000 / 1) with 1000000000;
    change (1000000 / 1000) with 1000; change (1000000000 / 1000) with 1000000;
    change (1000000000 / 1000000) with 1000;
    Z.div_mod_to_equations; lia.
Qed.

(* ------------------------------------------------------------------ C16: refine and back *)
Lemma into_unit_refine u t x y :
  finer u t = true -> x <> NaT -> into_unit u t x = Ok y -> y = x * ratio u t /\ in_i64 y = true.
Proof.
  intros Hf Hx. apply is_nat_false in Hx. unfold into_unit. rewrite Hx.
  destruct u, t; try discriminate Hf; cbn [unit_eqb]; intros H; apply chk64_inv in H;
    destruct H as [-> H]; (split; [reflexivity|exact H]).
Qed.

Lemma into_unit_refine_back u t x y :
  finer u t = true -> x <> NaT -> into_unit u t x = Ok y -> into_unit t u y = Ok x.
Proof.
  intros Hf Hx H. destruct (into_unit_refine _ _ _ _ Hf Hx H) as [Hy Hr].
  assert (Hny : y <> NaT).
  { subst y. unfold NaT, i64_min. destruct u, t; try discriminate Hf; unfold ratio; cbn [per_sec];
      change (1000 / 1) with 1000; change (1000000 / 1) with 1000000; change (1000000000 / 1) with 1000000000;
      change (1000000 / 1000) with 1000; change (1000000000 / 1000) with 1000000;
      change (1000000000 / 1000000) with 1000; lia. }
  rewrite into_unit_coarsen by assumption. subst y.
  rewrite Z.div_mul; [reflexivity|]. pose proof (ratio_pos _ _ Hf). lia.
Qed.

(* the refined value denotes the same instant *)
Lemma into_unit_refine_instant u t x y :
  finer u t = true -> x <> NaT -> into_unit u t x = Ok y -> instant_ns t y = instant_ns u x.
Proof.
  intros Hf Hx H. destruct (into_unit_refine _ _ _ _ Hf Hx H) as [-> _].
  unfold instant_ns. rewrite (ratio_unit_ns _ _ Hf). lia.
Qed.

(* refinement succeeds whenever the product is representable *)
Lemma into_unit_refine_ok u t x :
  finer u t = true -> x <> NaT -> in_i64 (x * ratio u t) = true -> into_unit u t x = Ok (x * ratio u t).
Proof.
  intros Hf Hx Hr. apply is_nat_false in Hx. unfold into_unit. rewrite Hx.
  destruct u, t; try discriminate Hf; cbn [unit_eqb]; apply chk64_ok; exact Hr.
Qed.

Lemma into_unit_same u x : into_unit u u x = Ok x.
Proof. destruct u; reflexivity. Qed.

(* ------------------------------------------------------------------ C16: chrono round trip *)
Lemma as_cr_from_cr u x c : in_i64 x = true -> as_cr u x = Some c -> from_cr u c = Ok x.
Proof.
  intros Hx Hc. apply as_cr_some_inv in Hc. destruct Hc as (_ & Hs & Hn).
  destruct u; unfold from_cr; cbn [per_sec unit_ns] in *; rewrite ?Hs, ?Hn.
  - f_equal. apply Z.div_1_r.
  - f_equal. Z.div_mod_to_equations; lia.
  - f_equal. Z.div_mod_to_equations; lia.
  - replace (x / 1000000000 * 1000000000 + x mod 1000000000 * 1) with x by (Z.div_mod_to_equations; lia).
    rewrite Hx. reflexivity.
Qed.

(* a chrono value that is whole in the unit comes back unchanged *)
Definition cr_wf (c : crdt) : Prop := 0 <= cr_nanos c < 1000000000.
Lemma from_cr_as_cr u c x :
  cr_wf c -> cr_nanos c mod unit_ns u = 0 -> date_in_range (cr_day c) = true ->
  from_cr u c = Ok x -> x <> NaT -> as_cr u x = Some c.
Proof.
  intros Hwf Hm Hr Hf Hx. apply is_nat_false in Hx. unfold as_cr. rewrite Hx.
  destruct c as [s n]. unfold cr_wf, cr_day in *. cbn [cr_secs cr_nanos] in *.
  destruct u; unfold from_cr in Hf; cbn [cr_secs cr_nanos unit_ns] in *.
  - injection Hf as <-. unfold cr_from_timestamp. rewrite Hr. f_equal. f_equal.
    Z.div_mod_to_equations; lia.
  - injection Hf as <-. unfold cr_from_timestamp.
    assert (E1 : (s * 1000 + n / 1000000) / 1000 = s) by (Z.div_mod_to_equations; lia).
    assert (E2 : (s * 1000 + n / 1000000) mod 1000 * 1000000 = n) by (Z.div_mod_to_equations; lia).
    rewrite E1, E2, Hr. reflexivity.
  - injection Hf as <-. unfold cr_from_timestamp.
    assert (E1 : (s * 1000000 + n / 1000) / 1000000 = s) by (Z.div_mod_to_equations; lia).
    assert (E2 : (s * 1000000 + n / 1000) mod 1000000 * 1000 = n) by (Z.div_mod_to_equations; lia).
    rewrite E1, E2, Hr. reflexivity.
  - destruct (in_i64 _); injection Hf as <-; [|discriminate Hx].
    assert (E1 : (s * 1000000000 + n) / 1000000000 = s) by (Z.div_mod_to_equations; lia).
    assert (E2 : (s * 1000000000 + n) mod 1000000000 = n) by (Z.div_mod_to_equations; lia).
    rewrite E1, E2. reflexivity.
Qed.

(* ------------------------------------------------------------------ chrono values as total nanoseconds *)
Lemma cr_total_of_total t : cr_total_ns (cr_of_total_ns t) = t.
Proof. unfold cr_total_ns, cr_of_total_ns. cbn [cr_secs cr_nanos]. Z.div_mod_to_equations; lia. Qed.

Lemma cr_of_total_total c : cr_wf c -> cr_of_total_ns (cr_total_ns c) = c.
Proof.
  destruct c as [s n]. unfold cr_wf, cr_total_ns, cr_of_total_ns. cbn [cr_secs cr_nanos]. intros H.
  f_equal; Z.div_mod_to_equations; lia.
Qed.

Lemma cr_of_total_wf t : cr_wf (cr_of_total_ns t).
Proof. unfold cr_wf, cr_of_total_ns. cbn [cr_nanos]. apply Z.mod_pos_bound. lia. Qed.

Lemma unit_ns_per_sec u : unit_ns u * per_sec u = 1000000000.
Proof. destruct u; reflexivity. Qed.
Lemma unit_ns_pos u : 0 < unit_ns u.
Proof. destruct u; reflexivity. Qed.
Lemma per_sec_pos u : 0 < per_sec u.
Proof. destruct u; reflexivity. Qed.

(* every i64 nanosecond timestamp is inside chrono's date range *)
Lemma nano_in_range x : in_i64 x = true -> date_in_range (x / 1000000000 / SECS_PER_DAY) = true.
Proof.
  rewrite in_i64_iff. unfold date_in_range, cr_min_day, cr_max_day, SECS_PER_DAY, i64_min, i64_max.
  intros H. Z.div_mod_to_equations. lia.
Qed.

(* as_cr in terms of the instant x * unit_ns u *)
Lemma as_cr_total u x c :
  as_cr u x = Some c -> c = cr_of_total_ns (x * unit_ns u) /\ x <> NaT.
Proof.
  intros H. destruct (as_cr_some_inv _ _ _ H) as (Hx & Hs & Hn). split; [|exact Hx].
  destruct c as [s n]. cbn [cr_secs cr_nanos] in *. subst s n. unfold cr_of_total_ns.
  destruct u; cbn [per_sec unit_ns]; f_equal; Z.div_mod_to_equations; lia.
Qed.

Lemma as_cr_range u x c :
  in_i64 x = true -> as_cr u x = Some c -> date_in_range (cr_day c) = true.
Proof.
  intros Hx. unfold as_cr. destruct (is_nat x); [discriminate|]. unfold cr_day.
  destruct u; unfold cr_from_timestamp;
    try (destruct (date_in_range _) eqn:E; [|discriminate]; intros [= <-]; exact E).
  intros [= <-]. cbn [cr_secs]. apply nano_in_range. exact Hx.
Qed.

Lemma as_cr_of_total u x :
  x <> NaT -> date_in_range (x * unit_ns u / 1000000000 / SECS_PER_DAY) = true ->
  as_cr u x = Some (cr_of_total_ns (x * unit_ns u)).
Proof.
  intros Hx Hr. apply is_nat_false in Hx. unfold as_cr. rewrite Hx. unfold cr_of_total_ns, cr_from_timestamp.
  destruct u; cbn [unit_ns] in *.
  - replace (x / SECS_PER_DAY) with (x * 1000000000 / 1000000000 / SECS_PER_DAY)
      by (f_equal; apply Z.div_mul; lia).
    rewrite Hr. f_equal. f_equal; Z.div_mod_to_equations; lia.
  - replace (x / 1000) with (x * 1000000 / 1000000000) by (Z.div_mod_to_equations; lia).
    rewrite Hr. f_equal. f_equal. Z.div_mod_to_equations; lia.
  - replace (x / 1000000) with (x * 1000 / 1000000000) by (Z.div_mod_to_equations; lia).
    rewrite Hr. f_equal. f_equal. Z.div_mod_to_equations; lia.
  - rewrite Z.mul_1_r. reflexivity.
Qed.

(* From<chrono> of a total: floor to the unit; at ns resolution NaT when the total is not an i64 *)
Lemma from_cr_total u c : exists x, from_cr u c = Ok x.
Proof. destruct u; eexists; reflexivity. Qed.

Lemma from_cr_nano_value c :
  from_cr Nano c = Ok (if in_i64 (cr_total_ns c) then cr_total_ns c else NaT).
Proof. reflexivity. Qed.

Lemma from_cr_of_total_val u t y :
  from_cr u (cr_of_total_ns t) = Ok y -> y <> NaT -> y = t / unit_ns u.
Proof.
  unfold from_cr, cr_of_total_ns. cbn [cr_secs cr_nanos].
  destruct u; cbn [unit_ns].
  - intros [= <-] _. reflexivity.
  - intros [= <-] _. Z.div_mod_to_equations; lia.
  - intros [= <-] _. Z.div_mod_to_equations; lia.
  - replace (t / 1000000000 * 1000000000 + t mod 1000000000) with t by (Z.div_mod_to_equations; lia).
    rewrite Z.div_1_r. destruct (in_i64 t); intros [= <-] Hy; [reflexivity|contradiction].
Qed.

Lemma cr_day_of_total t : cr_day (cr_of_total_ns t) = t / 1000000000 / SECS_PER_DAY.
Proof. reflexivity. Qed.

(* month-free dt_add / dt_sub, inverted *)
Lemma td_months0_not_nat d : td_months d = 0 -> td_is_nat d = false.
Proof. unfold td_is_nat. intros ->. reflexivity. Qed.

Lemma dt_add_monthfree u x d y :
  td_months d = 0 -> dt_add u x d = Ok y -> x <> NaT ->
  exists c r, as_cr u x = Some c /\ cr_add_ns c (td_ns d) = Some r /\ from_cr u r = Ok y.
Proof.
  intros Hm H Hx. unfold dt_add in H. apply is_nat_false in Hx.
  rewrite Hx, (td_months0_not_nat _ Hm), Hm in H. cbn [negb andb Z.eqb] in H.
  destruct (as_cr u x) as [c|]; [|discriminate]. cbn [unwrap bind] in H.
  destruct (cr_add_ns c (td_ns d)) as [r|] eqn:Er; [|discriminate]. cbn [expect_overflow bind] in H.
  exists c, r. auto.
Qed.

Lemma dt_sub_monthfree u x d y :
  td_months d = 0 -> dt_sub u x d = Ok y -> x <> NaT ->
  exists c r, as_cr u x = Some c /\ cr_add_ns c (- td_ns d) = Some r /\ from_cr u r = Ok y.
Proof.
  intros Hm H Hx. unfold dt_sub in H. apply is_nat_false in Hx.
  rewrite Hx, (td_months0_not_nat _ Hm), Hm in H. cbn [negb andb Z.eqb] in H.
  destruct (as_cr u x) as [c|]; [|discriminate]. cbn [unwrap bind] in H.
  destruct (cr_add_ns c (- td_ns d)) as [r|] eqn:Er; [|discriminate]. cbn [expect_overflow bind] in H.
  exists c, r. auto.
Qed.

Lemma dt_add_monthfree_intro u x d c r :
  td_months d = 0 -> x <> NaT -> as_cr u x = Some c -> cr_add_ns c (td_ns d) = Some r ->
  dt_add u x d = from_cr u r.
Proof.
  intros Hm Hx Hc Hr. unfold dt_add. apply is_nat_false in Hx.
  rewrite Hx, (td_months0_not_nat _ Hm), Hm. cbn [negb andb Z.eqb]. rewrite Hc. cbn [unwrap bind].
  rewrite Hr. reflexivity.
Qed.

Lemma dt_sub_monthfree_intro u x d c r :
  td_months d = 0 -> x <> NaT -> as_cr u x = Some c -> cr_add_ns c (- td_ns d) = Some r ->
  dt_sub u x d = from_cr u r.
Proof.
  intros Hm Hx Hc Hr. unfold dt_sub. apply is_nat_false in Hx.
  rewrite Hx, (td_months0_not_nat _ Hm), Hm. cbn [negb andb Z.eqb]. rewrite Hc. cbn [unwrap bind].
  rewrite Hr. reflexivity.
Qed.

Lemma cr_add_ns_inv c n r :
  cr_add_ns c n = Some r -> r = cr_of_total_ns (cr_total_ns c + n) /\ date_in_range (cr_day r) = true.
Proof.
  unfold cr_add_ns. destruct (date_in_range _) eqn:E; [|discriminate]. intros [= <-]. auto.
Qed.

(* the shift of a month-free duration, exact when d is a whole number of units *)
Lemma dt_shift_exact (sgn : Z) u x ns y :
  (sgn = 1 \/ sgn = -1) ->
  ns mod unit_ns u = 0 -> x <> NaT ->
  forall c r, as_cr u x = Some c -> cr_add_ns c (sgn * ns) = Some r -> from_cr u r = Ok y -> y <> NaT ->
  y = x + sgn * (ns / unit_ns u) /\ r = cr_of_total_ns (y * unit_ns u).
Proof.
  intros Hs Hd Hx c r Hc Hr Hy Hyn.
  apply as_cr_total in Hc. destruct Hc as [-> _].
  apply cr_add_ns_inv in Hr. destruct Hr as [-> _].
  rewrite cr_total_of_total in *.
  apply from_cr_of_total_val in Hy; [|exact Hyn].
  pose proof (unit_ns_pos u) as HU.
  assert (Hns : ns = unit_ns u * (ns / unit_ns u)).
  { pose proof (Z.div_mod ns (unit_ns u) ltac:(lia)). lia. }
  set (q := ns / unit_ns u) in *.
  assert (E : x * unit_ns u + sgn * ns = (x + sgn * q) * unit_ns u) by (rewrite Hns at 1; ring).
  rewrite E in *. rewrite Z.div_mul in Hy by lia. subst y. auto.
Qed.

Lemma add_sub_inverse_gen (sgn : Z) u x d y :
  (sgn = 1 \/ sgn = -1) ->
  in_i64 x = true -> x <> NaT -> td_months d = 0 -> kf_subunit u d = false ->
  (if sgn =? 1 then dt_add u x d else dt_sub u x d) = Ok y -> y <> NaT ->
  (if sgn =? 1 then dt_sub u y d else dt_add u y d) = Ok x.
Proof.
  intros Hs Hx64 Hx Hm Hk H Hy.
  unfold kf_subunit in Hk. apply negb_false_iff in Hk. apply Z.eqb_eq in Hk.
  assert (exists c r, as_cr u x = Some c /\ cr_add_ns c (sgn * td_ns d) = Some r /\ from_cr u r = Ok y)
    as (c & r & Hc & Hr & Hf).
  { destruct Hs as [-> | ->]; cbn [Z.eqb] in H.
    - destruct (dt_add_monthfree _ _ _ _ Hm H Hx) as (c & r & ? & ? & ?). exists c, r.
      rewrite Z.mul_1_l. auto.
    - destruct (dt_sub_monthfree _ _ _ _ Hm H Hx) as (c & r & ? & ? & ?). exists c, r.
      replace (-1 * td_ns d) with (- td_ns d) by lia. auto. }
  destruct (dt_shift_exact sgn u x (td_ns d) y Hs Hk Hx c r Hc Hr Hf Hy) as [Ey Er].
  pose proof (as_cr_range _ _ _ Hx64 Hc) as Hrange_c.
  destruct (cr_add_ns_inv _ _ _ Hr) as [_ Hrange_r].
  (* as_cr u y = Some r *)
  assert (Hyr : as_cr u y = Some r).
  { rewrite Er. apply as_cr_of_total; [exact Hy|]. rewrite <- cr_day_of_total, <- Er. exact Hrange_r. }
  (* going back by the opposite shift lands on c *)
  assert (Hback : cr_add_ns r (- sgn * td_ns d) = Some c).
  { unfold cr_add_ns. destruct (as_cr_total _ _ _ Hc) as [Ec _].
    assert (Et : cr_total_ns r + - sgn * td_ns d = x * unit_ns u).
    { rewrite Er, cr_total_of_total. rewrite Ey.
      pose proof (unit_ns_pos u). pose proof (Z.div_mod (td_ns d) (unit_ns u) ltac:(lia)). 
      rewrite Hk in *. nia. }
    rewrite Et, <- Ec, Hrange_c. reflexivity. }
  pose proof (as_cr_from_cr _ _ _ Hx64 Hc) as Hfc.
  destruct Hs as [-> | ->]; cbn [Z.eqb].
  - rewrite (dt_sub_monthfree_intro u y d r c Hm Hy Hyr); [exact Hfc|].
    replace (- td_ns d) with (- (1) * td_ns d) by lia. exact Hback.
  - rewrite (dt_add_monthfree_intro u y d r c Hm Hy Hyr); [exact Hfc|].
    replace (td_ns d) with (- (-1) * td_ns d) at 1 by lia. exact Hback.
Qed.

Lemma add_sub_inverse u x d y :
  in_i64 x = true -> x <> NaT -> td_months d = 0 -> kf_subunit u d = false ->
  dt_add u x d = Ok y -> y <> NaT -> dt_sub u y d = Ok x.
Proof. intros. apply (add_sub_inverse_gen 1 u x d y); auto. Qed.

Lemma sub_add_inverse u x d y :
  in_i64 x = true -> x <> NaT -> td_months d = 0 -> kf_subunit u d = false ->
  dt_sub u x d = Ok y -> y <> NaT -> dt_add u y d = Ok x.
Proof. intros. apply (add_sub_inverse_gen (-1) u x d y); auto. Qed.

(* the class really fails: DateTime<Second>(0) + 1ns - 1ns = -1 *)
Lemma add_sub_inverse_class_fails :
  exists u x d y, td_months d = 0 /\ kf_subunit u d = true /\ dt_add u x d = Ok y /\ dt_sub u y d <> Ok x.
Proof. exists Sec, 0, (mktd 0 1), 0. vm_compute. repeat split; discriminate. Qed.

(* ------------------------------------------------------------------ (a - b) + b = a *)
Lemma diff_add_inverse u a b d :
  in_i64 a = true -> a <> NaT -> b <> NaT -> dt_diff u a b = Ok d -> dt_add u b d = Ok a.
Proof.
  intros Ha64 Ha Hb H. unfold dt_diff in H.
  rewrite (proj2 (is_nat_false a) Ha), (proj2 (is_nat_false b) Hb) in H. cbn [negb andb] in H.
  destruct (as_cr u a) as [ca|] eqn:Eca; [|discriminate].
  destruct (as_cr u b) as [cb|] eqn:Ecb; [|discriminate]. cbn [unwrap bind] in H. injection H as <-.
  assert (Hr : cr_add_ns cb (cr_total_ns ca - cr_total_ns cb) = Some ca).
  { unfold cr_add_ns. replace (cr_total_ns cb + (cr_total_ns ca - cr_total_ns cb)) with (cr_total_ns ca) by lia.
    destruct (as_cr_total _ _ _ Eca) as [E _].
    assert (Hw : cr_wf ca) by (rewrite E; apply cr_of_total_wf).
    rewrite (cr_of_total_total _ Hw), (as_cr_range _ _ _ Ha64 Eca). reflexivity. }
  rewrite (dt_add_monthfree_intro u b (mktd 0 (cr_total_ns ca - cr_total_ns cb)) cb ca eq_refl Hb Ecb Hr).
  apply as_cr_from_cr; assumption.
Qed.

(* the difference is the exact number of nanoseconds between the instants, month-free *)
Lemma dt_diff_value u a b d :
  a <> NaT -> b <> NaT -> dt_diff u a b = Ok d ->
  d = mktd 0 (instant_ns u a - instant_ns u b).
Proof.
  intros Ha Hb H. unfold dt_diff in H.
  rewrite (proj2 (is_nat_false a) Ha), (proj2 (is_nat_false b) Hb) in H. cbn [negb andb] in H.
  destruct (as_cr u a) as [ca|] eqn:Eca; [|discriminate].
  destruct (as_cr u b) as [cb|] eqn:Ecb; [|discriminate]. cbn [unwrap bind] in H. injection H as <-.
  destruct (as_cr_total _ _ _ Eca) as [-> _]. destruct (as_cr_total _ _ _ Ecb) as [-> _].
  rewrite !cr_total_of_total. reflexivity.
Qed.

(* ------------------------------------------------------------------ TimeDelta: abelian group, scaling *)
(* a valid (non-NaT, representable) duration *)
Definition td_valid (d : tdelta) : Prop :=
  i32_min < td_months d <= i32_max /\ - DUR_MAX_NS <= td_ns d <= DUR_MAX_NS.

Lemma td_valid_not_nat d : td_valid d -> td_is_nat d = false.
Proof. unfold td_valid, td_is_nat. intros [H _]. lia. Qed.

Lemma dur_chk_inv n r : dur_chk n = Ok r -> r = n /\ dur_in_range n = true.
Proof. unfold dur_chk. destruct (dur_in_range n); [intros [= <-]; auto|discriminate]. Qed.

Lemma td_add_inv a b r :
  td_is_nat a = false -> td_is_nat b = false -> td_add a b = Ok r ->
  r = mktd (td_months a + td_months b) (td_ns a + td_ns b)
  /\ in_i32 (td_months a + td_months b) = true /\ dur_in_range (td_ns a + td_ns b) = true.
Proof.
  intros Ha Hb. unfold td_add. rewrite Ha, Hb. cbn [negb andb].
  destruct (chk32 _) as [m|] eqn:Em; [|discriminate]. cbn [bind].
  destruct (dur_chk _) as [n|] eqn:En; [|discriminate]. cbn [bind]. intros [= <-].
  apply chk32_inv in Em. apply dur_chk_inv in En. destruct Em as [-> ?], En as [-> ?]. auto.
Qed.

Lemma td_add_intro a b :
  td_is_nat a = false -> td_is_nat b = false ->
  in_i32 (td_months a + td_months b) = true -> dur_in_range (td_ns a + td_ns b) = true ->
  td_add a b = Ok (mktd (td_months a + td_months b) (td_ns a + td_ns b)).
Proof.
  intros Ha Hb Hm Hn. unfold td_add, chk32, dur_chk. rewrite Ha, Hb, Hm, Hn. reflexivity.
Qed.

Lemma td_add_valid a b r :
  td_is_nat a = false -> td_is_nat b = false -> td_add a b = Ok r -> td_is_nat r = false -> td_valid r.
Proof.
  intros Ha Hb H Hr. destruct (td_add_inv _ _ _ Ha Hb H) as (-> & Hm & Hn).
  unfold td_valid, td_is_nat, dur_in_range in *. cbn [td_months td_ns] in *.
  apply in_i32_iff in Hm. lia.
Qed.

Lemma td_add_comm a b : td_add a b = td_add b a.
Proof.
  unfold td_add. rewrite (andb_comm (negb (td_is_nat a))), (Z.add_comm (td_months a)), (Z.add_comm (td_ns a)).
  reflexivity.
Qed.

Lemma td_add_assoc a b c ab bc :
  td_is_nat a = false -> td_is_nat b = false -> td_is_nat c = false ->
  td_add a b = Ok ab -> td_add b c = Ok bc -> td_is_nat ab = false -> td_is_nat bc = false ->
  td_add ab c = td_add a bc.
Proof.
  intros Ha Hb Hc Hab Hbc Nab Nbc.
  destruct (td_add_inv _ _ _ Ha Hb Hab) as (-> & _ & _).
  destruct (td_add_inv _ _ _ Hb Hc Hbc) as (-> & _ & _).
  unfold td_add. rewrite Ha, Hc, Nab, Nbc. cbn [td_months td_ns negb andb].
  rewrite !Z.add_assoc. reflexivity.
Qed.

Lemma td_add_zero_r a : td_valid a -> td_add a td_zero = Ok a.
Proof.
  intros Hv. pose proof (td_valid_not_nat _ Hv) as Hn. destruct Hv as [Hm Hd].
  rewrite td_add_intro; try assumption; try reflexivity.
  - destruct a as [am an]; cbn [td_zero td_months td_ns]. rewrite !Z.add_0_r. reflexivity.
  - cbn [td_zero td_months]. apply in_i32_iff. lia.
  - cbn [td_zero td_ns]. unfold dur_in_range. lia.
Qed.

Lemma td_neg_valid a : td_valid a -> td_valid (td_neg a).
Proof.
  intros Hv. pose proof (td_valid_not_nat _ Hv) as Hn. unfold td_neg. rewrite Hn. cbn [negb].
  unfold td_valid, i32_min, i32_max in *. cbn [td_months td_ns]. lia.
Qed.

Lemma td_add_neg_r a : td_valid a -> td_add a (td_neg a) = Ok td_zero.
Proof.
  intros Hv. pose proof (td_valid_not_nat _ Hv) as Hn.
  pose proof (td_valid_not_nat _ (td_neg_valid _ Hv)) as Hn'.
  rewrite td_add_intro; try assumption; unfold td_neg; rewrite Hn; cbn [negb td_months td_ns].
  - unfold td_zero. f_equal. f_equal; lia.
  - replace (td_months a + - td_months a) with 0 by lia. reflexivity.
  - replace (td_ns a + - td_ns a) with 0 by lia. reflexivity.
Qed.

Lemma td_neg_involutive a : td_valid a -> td_neg (td_neg a) = a.
Proof.
  intros Hv. pose proof (td_valid_not_nat _ (td_neg_valid _ Hv)) as Hn'.
  pose proof (td_valid_not_nat _ Hv) as Hn.
  unfold td_neg at 1. rewrite Hn'. unfold td_neg. rewrite Hn. cbn [negb td_months td_ns].
  destruct a as [am an]; cbn [td_months td_ns]. f_equal; lia.
Qed.

Lemma td_sub_as_add_neg a b r :
  td_is_nat a = false -> td_valid b -> td_sub a b = Ok r -> td_add a (td_neg b) = Ok r.
Proof.
  intros Ha Hv. pose proof (td_valid_not_nat _ Hv) as Hb.
  pose proof (td_valid_not_nat _ (td_neg_valid _ Hv)) as Hb'.
  unfold td_sub. rewrite Ha, Hb. cbn [negb andb].
  destruct (chk32s _) as [m|] eqn:Em; [|discriminate]. cbn [bind].
  destruct (dur_chk _) as [n|] eqn:En; [|discriminate]. cbn [bind]. intros [= <-].
  apply chk32s_inv in Em. apply dur_chk_inv in En. destruct Em as [-> Hm], En as [-> Hd].
  rewrite td_add_intro; try assumption; unfold td_neg; rewrite Hb; cbn [negb td_months td_ns].
  - reflexivity.
  - exact Hm.
  - exact Hd.
Qed.

Lemma dur_mul_inv n k r : dur_mul n k = Ok r -> r = n * k.
Proof. unfold dur_mul. destruct (_ || _); [discriminate|]. intros [= <-]. reflexivity. Qed.

Lemma td_mul_inv a k r :
  td_is_nat a = false -> td_mul a k = Ok r -> r = mktd (td_months a * k) (td_ns a * k).
Proof.
  intros Ha. unfold td_mul. rewrite Ha. cbn [negb].
  destruct (chk32 _) as [m|] eqn:Em; [|discriminate]. cbn [bind].
  destruct (dur_mul _ _) as [n|] eqn:En; [|discriminate]. cbn [bind]. intros [= <-].
  apply chk32_inv in Em. apply dur_mul_inv in En. destruct Em as [-> _]. subst n. reflexivity.
Qed.

(* k * (a + b) = k * a + k * b whenever every operation involved succeeds on valid values *)
Lemma td_mul_add_distr a b k ab l ak bk r :
  td_is_nat a = false -> td_is_nat b = false ->
  td_add a b = Ok ab -> td_is_nat ab = false -> td_mul ab k = Ok l ->
  td_mul a k = Ok ak -> td_mul b k = Ok bk -> td_is_nat ak = false -> td_is_nat bk = false ->
  td_add ak bk = Ok r -> r = l.
Proof.
  intros Ha Hb Hab Nab Hl Hak Hbk Nak Nbk Hr.
  destruct (td_add_inv _ _ _ Ha Hb Hab) as (-> & _ & _).
  apply (td_mul_inv _ _ _ Nab) in Hl. apply (td_mul_inv _ _ _ Ha) in Hak. apply (td_mul_inv _ _ _ Hb) in Hbk.
  subst ak bk l. destruct (td_add_inv _ _ _ Nak Nbk Hr) as (-> & _ & _).
  cbn [td_months td_ns]. f_equal; ring.
Qed.

(* scaling by 1, 0, -1 *)
Lemma td_mul_1 a : td_valid a -> td_mul a 1 = Ok a.
Proof.
  intros Hv. pose proof (td_valid_not_nat _ Hv) as Hn. destruct Hv as [Hm Hd].
  unfold td_mul, chk32, dur_mul. rewrite Hn, !Z.mul_1_r. cbn [negb].
  replace (in_i32 (td_months a)) with true by (symmetry; apply in_i32_iff; lia). cbn [bind].
  unfold DUR_MAX_NS, i64_min, i64_max in *.
  destruct (_ || _) eqn:E.
  - exfalso. Z.div_mod_to_equations. lia.
  - cbn [bind]. destruct a as [am an]; reflexivity.
Qed.

(* ------------------------------------------------------------------ Time of day *)
Definition hms_ok (h m s : Z) : Prop := 0 <= h < 24 /\ 0 <= m < 60 /\ 0 <= s < 60.

Lemma time_from_hms_value h m s :
  hms_ok h m s -> time_from_hms h m s = Ok ((h * 3600 + m * 60 + s) * 1000000000).
Proof.
  intros (Hh & Hm & Hs). unfold time_from_hms, SECS_PER_HOUR, SECS_PER_MINUTE, NANOS_PER_SEC.
  rewrite (chk64_ok (h * 3600)) by (apply in_i64_iff; unfold i64_min, i64_max; lia). cbn [bind].
  rewrite (chk64_ok (m * 60)) by (apply in_i64_iff; unfold i64_min, i64_max; lia). cbn [bind].
  rewrite (chk64_ok (h * 3600 + m * 60)) by (apply in_i64_iff; unfold i64_min, i64_max; lia). cbn [bind].
  rewrite (chk64_ok (h * 3600 + m * 60 + s)) by (apply in_i64_iff; unfold i64_min, i64_max; lia). cbn [bind].
  apply chk64_ok. apply in_i64_iff; unfold i64_min, i64_max; lia.
Qed.

Lemma time_from_hms_nano_value h m s n :
  hms_ok h m s -> 0 <= n < 1000000000 ->
  time_from_hms_nano h m s n = Ok ((h * 3600 + m * 60 + s) * 1000000000 + n).
Proof.
  intros H Hn. unfold time_from_hms_nano. rewrite (time_from_hms_value _ _ _ H). cbn [bind].
  destruct H as (Hh & Hm & Hs). apply chk64_ok. apply in_i64_iff; unfold i64_min, i64_max; lia.
Qed.

Lemma time_from_hms_sub_value scale h m s x :
  hms_ok h m s -> 0 < scale -> 0 <= x -> x * scale < 1000000000 ->
  time_from_hms_sub scale h m s x = Ok ((h * 3600 + m * 60 + s) * 1000000000 + x * scale).
Proof.
  intros H Hsc Hx Hlt. unfold time_from_hms_sub. rewrite (time_from_hms_value _ _ _ H). cbn [bind].
  destruct H as (Hh & Hm & Hs).
  rewrite (chk64_ok (x * scale)) by (apply in_i64_iff; unfold i64_min, i64_max; nia). cbn [bind].
  apply chk64_ok. apply in_i64_iff; unfold i64_min, i64_max; nia.
Qed.

(* a time of day inside 0 .. 86400 s converts to chrono's NaiveTime (secs, frac) exactly *)
Lemma time_as_cr_in_range t :
  0 <= t < 86400000000000 -> time_as_cr t = Some (t / 1000000000, t mod 1000000000).
Proof.
  intros Ht. unfold time_as_cr, NANOS_PER_SEC.
  rewrite Z.quot_div_nonneg, Z.rem_mod_nonneg by lia.
  unfold wrap_u32. rewrite !Z.mod_small by (Z.div_mod_to_equations; lia).
  unfold naive_time_opt.
  replace (86400 <=? t / 1000000000) with false by (symmetry; apply Z.leb_gt; Z.div_mod_to_equations; lia).
  replace (2000000000 <=? t mod 1000000000) with false by (symmetry; apply Z.leb_gt; Z.div_mod_to_equations; lia).
  replace (1000000000 <=? t mod 1000000000) with false by (symmetry; apply Z.leb_gt; Z.div_mod_to_equations; lia).
  reflexivity.
Qed.

Lemma time_cr_roundtrip t c :
  0 <= t < 86400000000000 -> time_as_cr t = Some c -> time_from_cr c = t.
Proof.
  intros Ht H. rewrite time_as_cr_in_range in H by exact Ht. injection H as <-.
  unfold time_from_cr, NANOS_PER_SEC. cbn [fst snd]. Z.div_mod_to_equations; lia.
Qed.

Lemma time_cr_roundtrip' secs frac :
  0 <= secs < 86400 -> 0 <= frac < 1000000000 ->
  time_as_cr (time_from_cr (secs, frac)) = Some (secs, frac).
Proof.
  intros Hs Hf. unfold time_from_cr, NANOS_PER_SEC. cbn [fst snd].
  rewrite time_as_cr_in_range by lia. f_equal. f_equal; Z.div_mod_to_equations; lia.
Qed.

Lemma time_getters h m s n t :
  hms_ok h m s -> 0 <= n < 1000000000 -> t = (h * 3600 + m * 60 + s) * 1000000000 + n ->
  time_hour t = Ok h /\ time_minute t = Ok m /\ time_second t = Ok s /\ time_nanosecond t = Ok n.
Proof.
  intros (Hh & Hm & Hs) Hn ->.
  unfold time_hour, time_minute, time_second, time_nanosecond.
  rewrite time_as_cr_in_range by lia. cbn [unwrap bind fst snd].
  repeat split; f_equal; Z.div_mod_to_equations; lia.
Qed.

(* Time +- d: exact shift, and inverse *)
Lemma time_add_exact t d :
  t <> NaT -> td_months d = 0 -> in_i64 (td_ns d) = true -> in_i64 (t + td_ns d) = true ->
  time_add t d = Ok (t + td_ns d).
Proof.
  intros Ht Hm Hd Hr. unfold time_add, num_ns. apply is_nat_false in Ht.
  rewrite Ht, (td_months0_not_nat _ Hm), Hm, Hd. cbn [negb andb Z.eqb]. apply chk64_ok. exact Hr.
Qed.

Lemma time_sub_exact t d :
  t <> NaT -> td_months d = 0 -> in_i64 (td_ns d) = true -> in_i64 (t - td_ns d) = true ->
  time_sub t d = Ok (t - td_ns d).
Proof.
  intros Ht Hm Hd Hr. unfold time_sub, num_ns, chk64s. apply is_nat_false in Ht.
  rewrite Ht, (td_months0_not_nat _ Hm), Hm, Hd. cbn [negb andb Z.eqb]. rewrite Hr. reflexivity.
Qed.

Lemma time_add_inv t d y :
  t <> NaT -> td_months d = 0 -> in_i64 (td_ns d) = true -> time_add t d = Ok y -> y = t + td_ns d.
Proof.
  intros Ht Hm Hd. unfold time_add, num_ns. apply is_nat_false in Ht.
  rewrite Ht, (td_months0_not_nat _ Hm), Hm, Hd. cbn [negb andb Z.eqb]. intros H.
  apply chk64_inv in H. tauto.
Qed.

Lemma time_add_sub_inverse t d y :
  in_i64 t = true -> t <> NaT -> td_months d = 0 -> in_i64 (td_ns d) = true ->
  time_add t d = Ok y -> y <> NaT -> time_sub y d = Ok t.
Proof.
  intros Ht64 Ht Hm Hd H Hy. apply time_add_inv in H; try assumption. subst y.
  rewrite time_sub_exact; try assumption.
  - f_equal. lia.
  - replace (t + td_ns d - td_ns d) with t by lia. exact Ht64.
Qed.

(* ------------------------------------------------------------------ duration_trunc, month-free *)
(* chrono's three-way case on the truncating remainder is the Euclidean floor *)
Lemma trunc_floor T n :
  0 < n ->
  let dd := Z.rem T n in
  (if dd =? 0 then T else if 0 <? dd then T - dd else T - (n - Z.abs dd)) = n * (T / n).
Proof.
  intros Hn dd. pose proof (Z.quot_rem' T n) as HT. fold dd in HT.
  destruct (Z.le_gt_cases 0 T) as [Hpos | Hneg].
  - pose proof (Z.rem_bound_pos_pos T n Hn Hpos) as Hb. fold dd in Hb.
    assert (Hq : Z.quot T n = T / n) by (apply Z.div_unique with (r := dd); [left; exact Hb | exact HT]).
    destruct (dd =? 0) eqn:E0; [|destruct (0 <? dd) eqn:E1]; lia.
  - pose proof (Z.rem_bound_pos_neg T n Hn ltac:(lia)) as Hb. fold dd in Hb.
    destruct (dd =? 0) eqn:E0.
    + assert (Hq : Z.quot T n = T / n) by (apply Z.div_unique with (r := 0); [left; lia | lia]). lia.
    + assert (Hq : Z.quot T n - 1 = T / n) by (apply Z.div_unique with (r := dd + n); [left; lia | lia]).
      destruct (0 <? dd) eqn:E1; lia.
Qed.

Lemma cr_duration_trunc_value c span r :
  cr_wf c -> 0 < span -> cr_duration_trunc c span = Ok r ->
  r = cr_of_total_ns (span * (cr_total_ns c / span)).
Proof.
  intros Hwf Hs. unfold cr_duration_trunc.
  destruct (num_ns span) as [sp|] eqn:Esp; [|discriminate].
  assert (sp = span) by (unfold num_ns in Esp; destruct (in_i64 span); [injection Esp; auto|discriminate]). subst sp.
  replace (span <=? 0) with false by lia.
  destruct (num_ns (cr_total_ns c)) as [st|] eqn:Est; [|discriminate].
  assert (st = cr_total_ns c) by (unfold num_ns in Est; destruct (in_i64 _); [injection Est; auto|discriminate]). subst st.
  pose proof (trunc_floor (cr_total_ns c) span Hs) as HF. cbv zeta in HF.
  destruct (Z.rem (cr_total_ns c) span =? 0) eqn:E0.
  - intros [= <-]. rewrite <- HF. symmetry. apply cr_of_total_total. exact Hwf.
  - destruct (0 <? Z.rem (cr_total_ns c) span) eqn:E1.
    + destruct (cr_add_ns _ _) as [r'|] eqn:Er; [|discriminate]. cbn [expect_overflow]. intros [= <-].
      apply cr_add_ns_inv in Er. destruct Er as [-> _]. f_equal. lia.
    + destruct (cr_add_ns _ _) as [r'|] eqn:Er; [|discriminate]. cbn [expect_overflow]. intros [= <-].
      apply cr_add_ns_inv in Er. destruct Er as [-> _]. f_equal. lia.
Qed.

Lemma dt_trunc_monthfree u x d y :
  x <> NaT -> td_months d = 0 -> 0 < td_ns d -> dt_trunc u x d = Ok y -> y <> NaT ->
  y = (td_ns d * (instant_ns u x / td_ns d)) / unit_ns u.
Proof.
  intros Hx Hm Hd. unfold dt_trunc. rewrite (proj2 (is_nat_false x) Hx), Hm. cbn [Z.eqb negb].
  destruct (as_cr u x) as [c|] eqn:Ec; [|discriminate]. cbn [unwrap bind].
  destruct (cr_duration_trunc c (td_ns d)) as [r|] eqn:Er; [|discriminate]. cbn [bind]. intros Hy Hyn.
  destruct (as_cr_total _ _ _ Ec) as [-> _].
  apply cr_duration_trunc_value in Er; [|apply cr_of_total_wf|exact Hd]. subst r.
  rewrite cr_total_of_total in Hy. apply from_cr_of_total_val in Hy; assumption.
Qed.

(* when d is a whole number of units: the greatest multiple of d not after x, as instants *)
Lemma dt_trunc_monthfree_multiple u x d y :
  x <> NaT -> td_months d = 0 -> 0 < td_ns d -> td_ns d mod unit_ns u = 0 -> dt_trunc u x d = Ok y ->
  y <> NaT ->
  instant_ns u y = td_ns d * (instant_ns u x / td_ns d)
  /\ instant_ns u y <= instant_ns u x < instant_ns u y + td_ns d.
Proof.
  intros Hx Hm Hd Hk H Hyn. apply dt_trunc_monthfree in H; try assumption.
  pose proof (unit_ns_pos u) as HU.
  set (n := td_ns d) in *. set (T := instant_ns u x) in *.
  assert (Hn : n = unit_ns u * (n / unit_ns u)).
  { pose proof (Z.div_mod n (unit_ns u) ltac:(lia)). lia. }
  assert (E : instant_ns u y = n * (T / n)).
  { unfold instant_ns at 1. subst y.
    rewrite Hn at 1. rewrite <- Z.mul_assoc, (Z.mul_comm (unit_ns u)), Z.div_mul by lia.
    rewrite Hn at 3. ring. }
  split; [exact E|]. rewrite E.
  pose proof (Z.mul_div_le T n Hd). pose proof (Z.mul_succ_div_gt T n Hd). lia.
Qed.

