(* Proofs/NoLookahead.v — C06: prefix laws and window-only dependence beyond the generic feature
   theorem of Proofs/Generic.v.                                                                  *)
From Coq Require Import ZArith Lia List.
From Tevec Require Import Base.Prelude Base.Num Model.Driver Proofs.Driver Model.Features Proofs.Generic.
Import ListNotations.

(* ---- slice forms (rolling_custom, e.g. fdiff): both bodies, any stateful callback -------------- *)
Lemma win_firstn {T} w i k (xs : list T) : i < k -> win w i (firstn k xs) = win w i xs.
Proof. intros Hi. rewrite !win_seg. apply seg_firstn. lia. Qed.

Lemma windows_firstn {T} w k (xs : list T) : windows w (firstn k xs) = firstn k (windows w xs).
Proof.
  unfold windows. apply nth_error_ext. intros i.
  rewrite nth_error_firstn, !nth_error_map, !nth_error_seq, firstn_length.
  destruct (i <? k) eqn:Ek.
  - apply Nat.ltb_lt in Ek. destruct (i <? length xs) eqn:El.
    + apply Nat.ltb_lt in El. replace (i <? Nat.min k (length xs)) with true by (symmetry; apply Nat.ltb_lt; lia).
      cbn. f_equal. apply win_firstn. exact Ek.
    + apply Nat.ltb_ge in El. replace (i <? Nat.min k (length xs)) with false by (symmetry; apply Nat.ltb_ge; lia).
      reflexivity.
  - apply Nat.ltb_ge in Ek. replace (i <? Nat.min k (length xs)) with false by (symmetry; apply Nat.ltb_ge; lia).
    reflexivity.
Qed.

Definition custom_out {T St O} (body : bool) (w : nat) (f : St -> list T -> St * O) (s0 : St) (xs : list T) : list O :=
  match (if body then rolling_custom_to w f s0 xs else rolling_custom_default w f s0 xs) with
  | Done l => l | _ => [] end.

Theorem custom_out_prefix {T St O} body (w : nat) (f : St -> list T -> St * O) s0 (xs : list T) k :
  1 <= w -> custom_out body w f s0 (firstn k xs) = firstn k (custom_out body w f s0 xs).
Proof.
  intros Hw. unfold custom_out. destruct body.
  - rewrite !rolling_custom_to_eq by exact Hw. rewrite windows_firstn. apply run_firstn.
  - rewrite !rolling_custom_default_eq by exact Hw. rewrite windows_firstn. apply run_firstn.
Qed.

(* a stateless slice callback (fdiff): output i is a function of the window alone *)
Theorem custom_window_only {T O} body (w : nat) (g : list T -> O) (xs ys : list T) i j :
  1 <= w -> i < length xs -> j < length ys -> win w i xs = win w j ys ->
  nth_error (custom_out body w (fun (u : unit) l => (u, g l)) tt xs) i
  = nth_error (custom_out body w (fun (u : unit) l => (u, g l)) tt ys) j.
Proof.
  intros Hw Hi Hj Hwin.
  assert (Hrun : forall zs, custom_out body w (fun (u : unit) l => (u, g l)) tt zs = map g (windows w zs)).
  { intros zs. unfold custom_out. destruct body.
    - rewrite rolling_custom_to_eq by exact Hw.
      induction (windows w zs) as [|a r IH]; [reflexivity|]. cbn. f_equal. exact IH.
    - rewrite rolling_custom_default_eq by exact Hw.
      induction (windows w zs) as [|a r IH]; [reflexivity|]. cbn. f_equal. exact IH. }
  rewrite !Hrun. unfold windows. rewrite !map_map, !nth_error_map, !nth_error_seq.
  replace (i <? length xs) with true by (symmetry; apply Nat.ltb_lt; exact Hi).
  replace (j <? length ys) with true by (symmetry; apply Nat.ltb_lt; exact Hj).
  cbn [option_map plus]. rewrite Hwin. reflexivity.
Qed.

(* ---- two-series features: the prefix of the zipped series is the zip of the prefixes ------------ *)
Lemma combine_firstn {X Y} (l1 : list X) (l2 : list Y) k :
  combine (firstn k l1) (firstn k l2) = firstn k (combine l1 l2).
Proof.
  revert l1 l2; induction k as [|k IH]; intros l1 l2; [reflexivity|].
  destruct l1 as [|a l1]; [reflexivity|]. destruct l2 as [|b l2]; [cbn; destruct (firstn k l1); reflexivity|].
  cbn. f_equal. apply IH.
Qed.

Theorem two_series_prefix {T1 T2 St O} (F : feat (T1 * T2) St O) body (w : nat) (xs : list T1) (ys : list T2) k :
  1 <= w ->
  ts_out F body w (combine (firstn k xs) (firstn k ys)) = firstn k (ts_out F body w (combine xs ys)).
Proof. intros Hw. rewrite combine_firstn. apply ts_out_prefix. exact Hw. Qed.
