(* Proofs/MaskOrd.v — C05 null masks and C06 prefix / window-only laws of the extrema / arg-extrema / rank family
   at every OrdLaws carrier (incl. binary64).  Stdlib only.                                                     *)
From Coq Require Import ZArith List Lia Bool.
From Tevec Require Import Base.Prelude Base.Num.
Import ListNotations.
