(* Proofs/MaskOrd.v — C05 null masks and C06 prefix / window-only laws of the extrema / arg-extrema / rank family
   at every OrdLaws carrier (incl. binary64).  Stdlib only.
     - (0) nullness of the window specification of Spec/ExtremaOrd.v (ext_last, glast_pos, gargmin/gargmax_spec);
     - (1) C05: the masks of ts_vmin / ts_vmax / ts_vargmin / ts_vargmax / ts_vrank and "one output per input, no panic"
           as corollaries of the closed forms of Proofs/CmpOrd.v / RollRankOrd.v (OrdLaws as a Section hypothesis);
     - (2) ts_vrank at EVERY input carrier A and EVERY output carrier B, no law at all: the callback's counter is the
           valid count of the window, the output is a function `g_rank_any` of the window (the carrier's own
           comparisons and arithmetic applied in program order) => never a panic, one output per input;
     - (3) C06: prefix law in the UNCONDITIONAL form "the whole call returns out, and the call on the prefix returns
           firstn k out" (totality from (1) / (2) + Proofs/IdxPrefix.v), window-only law in the strong form "both
           calls return and the two outputs are the same value" (from the closed forms);
     - (4) instances at Coq's primitive binary64 `float`: f64 series with NaN as the null (IsNoneF64; the premise on
           the series is automatic) and Option<f64> series (IsNoneOptF64; premise valid_not_nan = no Some(NaN),
           DESIGN 5.4).  Assumptions of (4): the stdlib specs eqb_spec / ltb_spec / leb_spec of Proofs/CmpOrdFloat.v (+ Reals where
           the rank arithmetic is in option R); (0)-(3) at a generic carrier are axiom-free except the XR-valued rank
           statements (Reals axioms).                                                                             *)
From Coq Require Import ZArith List Lia Bool Reals Floats.
From Tevec Require Import Base.Prelude Base.Num Base.XR Base.F64 Model.Driver Proofs.Driver Model.Cmp Proofs.IdxRun
     Spec.ExtremaOrd Proofs.CmpOrd Proofs.CmpOrdInst Proofs.CmpOrdFloat Proofs.RollRank Proofs.RollRankOrd
     Proofs.Fdiff Proofs.Mask Proofs.Mask2 Proofs.Mask3 Proofs.NoLookahead Proofs.NoLookahead2 Proofs.NoLookahead3
     Proofs.IdxPrefix.
Import ListNotations.

(* ---- (0) nullness of the window specification -------------------------------------------------------- *)
Section SpecNull.
  Context {A : Type} {NA : Num A}.

  Lemma ext_last_null (ltb : A -> A -> bool) (V : list A) : onull (ext_last ltb V) = (length V <? 1).
  Proof.
    destruct V as [|x r]; [reflexivity|]. cbn [ext_last].
    destruct (ext_last ltb r) as [m|]; [destruct (ltb x m)|]; reflexivity.
  Qed.

  Lemma ext_last_num_ok (ltb : A -> A -> bool) (V : list A) m :
    Forall num_ok V -> ext_last ltb V = Some m -> num_ok m.
  Proof. intros H E. rewrite Forall_forall in H. apply H. apply ext_last_In with ltb. exact E. Qed.

  Lemma glast_pos_some (ltb : A -> A -> bool) (DL : DirLaws ltb) (m : A) (W : list (option A)) :
    num_ok m -> In (Some m) W -> exists j, glast_pos m W = Some j.
  Proof.
    intros Hm. induction W as [|a r IH]; intros Hin; [contradiction|]. cbn [glast_pos].
    destruct (glast_pos m r) as [j|] eqn:E; [exists (S j); reflexivity|].
    destruct Hin as [->|Hin]; [rewrite (dl_eqb_refl DL m Hm); exists 0; reflexivity|].
    destruct (IH Hin) as (j & Hj). congruence.
  Qed.

  (* the gated value form: null iff below min_periods or no valid element; a non-null output is not NaN *)
  Lemma vext_form_mask (ltb : A -> A -> bool) (m : nat) (V : list A) : Forall num_ok V ->
    let o := if m <=? length V then ext_last ltb V else None in
    onull o = orb (length V <? m) (length V <? 1) /\ (forall x, o = Some x -> nisnan x = false).
  Proof.
    intros Hok o. split.
    - unfold o. apply gate_bool. intros _. apply ext_last_null.
    - intros x E. unfold o in E. destruct (m <=? length V); [|discriminate].
      exact (ext_last_num_ok ltb V x Hok E).
  Qed.

  (* the gated offset form *)
  Lemma varg_form_mask (ltb : A -> A -> bool) (DL : DirLaws ltb) (m : nat) (W : list (option A)) : Forall okv W ->
    onull (if m <=? length (gvalid W) then
             match ext_last ltb (gvalid W) with Some u => option_map S (glast_pos u W) | None => None end
           else None)
    = orb (length (gvalid W) <? m) (length (gvalid W) <? 1).
  Proof.
    intros Hok. apply gate_bool. intros _.
    destruct (ext_last ltb (gvalid W)) as [u|] eqn:E.
    - pose proof (ext_last_In _ _ _ E) as Hin.
      assert (Hu : num_ok u) by (apply (ext_last_num_ok ltb (gvalid W)); [apply Forall_okv_gvalid; exact Hok|exact E]).
      destruct (glast_pos_some ltb DL u W Hu (proj1 (In_gvalid u W) Hin)) as (j & ->). cbn [option_map onull].
      destruct (gvalid W); [contradiction|reflexivity].
    - apply ext_last_none in E. rewrite E. reflexivity.
  Qed.
End SpecNull.

Lemma In_seg {X} (a b : nat) (l : list X) x : In x (seg a b l) -> In x l.
Proof.
  intros H. apply In_nth_error in H. destruct H as [n Hn]. rewrite nth_error_seg in Hn.
  destruct (n <? b - a); [|discriminate]. apply nth_error_In with (a + n). exact Hn.
Qed.

Lemma win_okv {A} {NA : Num A} {T} {DT : IsNone T A} (xs : list T) w i :
  valid_not_nan xs -> Forall okv (win w i (map to_opt xs)).
Proof.
  intros H. apply Forall_forall. intros o Ho. rewrite win_seg in Ho. apply In_seg in Ho.
  apply in_map_iff in Ho. destruct Ho as (v & <- & Hv). exact (valid_not_nan_okv xs H v Hv).
Qed.

Lemma valid_not_nan_nil {A} {NA : Num A} {T} {DT : IsNone T A} : valid_not_nan (@nil T).
Proof. intros v []. Qed.

(* ---- (1) C05 at every ordered carrier ------------------------------------------------------------------ *)
Section MaskOrdG.
  Context {A : Type} {NA : Num A} {T : Type} {DT : IsNone T A}.
  Hypothesis OL : OrdLaws A.

  Theorem mask_vmin_ord body w mp (xs : list T) :
    valid_not_nan xs -> 1 <= w -> 1 <= length xs ->
    exists out, ts_vmin body w mp xs = Done out /\ length out = length xs /\
      forall i, i < length xs ->
        exists o, nth_error out i = Some o /\
          onull o = orb (length (gvalid (win w i (map to_opt xs))) <? cmp_mp mp (cmp_window w xs))
                        (length (gvalid (win w i (map to_opt xs))) <? 1) /\
          (forall x, o = Some x -> nisnan x = false).
  Proof.
    intros Hn Hw Hl.
    apply mask_transfer with (1 := ts_vmin_ord OL body w mp xs Hn Hw Hl)
      (P := fun i o =>
         onull o = orb (length (gvalid (win w i (map to_opt xs))) <? cmp_mp mp (cmp_window w xs))
                       (length (gvalid (win w i (map to_opt xs))) <? 1) /\
         (forall x, o = Some x -> nisnan x = false)).
    intros i Hi. cbv zeta. apply (vext_form_mask nltb). apply Forall_okv_gvalid, win_okv. exact Hn.
  Qed.

  Theorem mask_vmax_ord body w mp (xs : list T) :
    valid_not_nan xs -> 1 <= w -> 1 <= length xs ->
    exists out, ts_vmax body w mp xs = Done out /\ length out = length xs /\
      forall i, i < length xs ->
        exists o, nth_error out i = Some o /\
          onull o = orb (length (gvalid (win w i (map to_opt xs))) <? cmp_mp mp (cmp_window w xs))
                        (length (gvalid (win w i (map to_opt xs))) <? 1) /\
          (forall x, o = Some x -> nisnan x = false).
  Proof.
    intros Hn Hw Hl.
    apply mask_transfer with (1 := ts_vmax_ord OL body w mp xs Hn Hw Hl)
      (P := fun i o =>
         onull o = orb (length (gvalid (win w i (map to_opt xs))) <? cmp_mp mp (cmp_window w xs))
                       (length (gvalid (win w i (map to_opt xs))) <? 1) /\
         (forall x, o = Some x -> nisnan x = false)).
    intros i Hi. cbv zeta. apply (vext_form_mask ngtb). apply Forall_okv_gvalid, win_okv. exact Hn.
  Qed.

  Theorem mask_vargmin_ord body w mp (xs : list T) :
    valid_not_nan xs -> 1 <= w -> 1 <= length xs ->
    exists out, ts_vargmin body w mp xs = Done out /\ length out = length xs /\
      forall i, i < length xs ->
        exists o, nth_error out i = Some o /\
          onull o = orb (length (gvalid (win w i (map to_opt xs))) <? cmp_mp mp (cmp_window w xs))
                        (length (gvalid (win w i (map to_opt xs))) <? 1).
  Proof.
    intros Hn Hw Hl. apply mask_transfer with (1 := ts_vargmin_ord OL body w mp xs Hn Hw Hl).
    intros i Hi. cbv zeta. apply (varg_form_mask nltb (dir_lt OL)). apply win_okv. exact Hn.
  Qed.

  Theorem mask_vargmax_ord body w mp (xs : list T) :
    valid_not_nan xs -> 1 <= w -> 1 <= length xs ->
    exists out, ts_vargmax body w mp xs = Done out /\ length out = length xs /\
      forall i, i < length xs ->
        exists o, nth_error out i = Some o /\
          onull o = orb (length (gvalid (win w i (map to_opt xs))) <? cmp_mp mp (cmp_window w xs))
                        (length (gvalid (win w i (map to_opt xs))) <? 1).
  Proof.
    intros Hn Hw Hl. apply mask_transfer with (1 := ts_vargmax_ord OL body w mp xs Hn Hw Hl).
    intros i Hi. cbv zeta. apply (varg_form_mask ngtb (dir_gt OL)). apply win_okv. exact Hn.
  Qed.

  (* rank arithmetic in option R: null iff the current element is null or the valid count of the window (current
     element included) is below the effective min_periods *)
  Theorem mask_vrank_ord body w mp pct rev (xs : list T) :
    valid_not_nan xs -> 1 <= w -> 1 <= length xs ->
    exists out, ts_vrank (B := XR) body w mp pct rev xs = Done out /\ length out = length xs /\
      forall i, i < length xs ->
        exists o, nth_error out i = Some o /\
          is_null o = orb (null_at (map to_opt xs) i)
                          (length (gvalid (win w i (map to_opt xs))) <? cmp_mp mp (cmp_window w xs)).
  Proof.
    intros Hn Hw Hl. apply mask_transfer with (1 := ts_vrank_ord OL body w mp pct rev xs Hn Hw Hl).
    intros i Hi. unfold null_at. destruct (nth_error (map to_opt xs) i) as [[x|]|] eqn:Ev; [|reflexivity..].
    cbv zeta. cbn [orb].
    assert (HW : win w i (map to_opt xs) = seg (wstart w i) i (map to_opt xs) ++ [Some x]).
    { rewrite win_seg. apply seg_snoc; [unfold wstart; lia|exact Ev]. }
    rewrite HW, gvalid_app, app_length. cbn [gvalid flat_map app length]. rewrite Nat.add_1_r.
    rewrite is_null_onull, (gate_bool _ _ _ false); [apply orb_false_r|reflexivity].
  Qed.

  (* length / no panic / no unwritten slot for every series (the empty one included), every window >= 1 *)
  Theorem extrema_total_ord body w mp (xs : list T) :
    valid_not_nan xs -> 1 <= w ->
    (exists out, ts_vmin body w mp xs = Done out /\ length out = length xs) /\
    (exists out, ts_vmax body w mp xs = Done out /\ length out = length xs) /\
    (exists out, ts_vargmin body w mp xs = Done out /\ length out = length xs) /\
    (exists out, ts_vargmax body w mp xs = Done out /\ length out = length xs).
  Proof.
    intros Hn Hw. destruct xs as [|x xs'] eqn:Exs.
    - rewrite ts_vmin_empty, ts_vmax_empty, ts_vargmin_empty, ts_vargmax_empty.
      repeat split; exists []; split; reflexivity.
    - rewrite <- Exs in *. assert (Hl : 1 <= length xs) by (rewrite Exs; cbn; lia).
      destruct (ts_vmin_ord OL body w mp xs Hn Hw Hl) as (o1 & A1 & B1 & _).
      destruct (ts_vmax_ord OL body w mp xs Hn Hw Hl) as (o2 & A2 & B2 & _).
      destruct (ts_vargmin_ord OL body w mp xs Hn Hw Hl) as (o3 & A3 & B3 & _).
      destruct (ts_vargmax_ord OL body w mp xs Hn Hw Hl) as (o4 & A4 & B4 & _).
      repeat split; [exists o1|exists o2|exists o3|exists o4]; split; assumption.
  Qed.
End MaskOrdG.

(* ---- (2) ts_vrank at every input and output carrier, no law ----------------------------------------------- *)
Section RankAny.
  Context {A : Type} {NA : Num A} {T : Type} {DT : IsNone T A} {B : Type} {NB : Num B}.

  (* the recount loop as a fold over the optional elements it passes, in program order *)
  Fixpoint rank_list (x : A) (W : list (option A)) (rank : B) (nrep : nat) : B * nat :=
    match W with
    | [] => (rank, nrep)
    | None :: r => rank_list x r rank nrep
    | Some a :: r => if nltb a x then rank_list x r (nadd rank none) nrep
                     else if neqb a x then rank_list x r rank (S nrep)
                     else rank_list x r rank nrep
    end.

  (* what ts_vrank emits at a position, from the window (as optional elements) alone *)
  Definition g_rank_any (m : nat) (pct rev : bool) (W : list (option A)) : B :=
    match last_opt W with
    | Some (Some x) =>
        let r := rank_list x (removelast W) none 1 in
        rank_out m pct rev (length (gvalid W)) (fst r) (snd r)
    | _ => rank_out m pct rev (length (gvalid W)) nnan 1
    end.

  Variable xs : list T.

  Lemma rank_loop_list (x : A) : forall cnt i (rank : B) nrep, i + cnt <= length xs ->
    rank_loop xs x i cnt rank nrep = Ok (rank_list x (seg i (i + cnt) (govs xs)) rank nrep).
  Proof.
    induction cnt as [|cnt IH]; intros i rank nrep Hlen.
    - rewrite Nat.add_0_r, seg_nil. reflexivity.
    - destruct (nth_error_Some_lt xs i) as [v Hv]; [lia|].
      rewrite (@seg_cons _ i (i + S cnt) (govs xs) (to_opt v)); [|lia|rewrite govs_nth, Hv; reflexivity].
      replace (i + S cnt) with (S i + cnt) by lia.
      cbn [rank_loop]. rewrite (g_uget_ok xs i v Hv). cbn [bind]. cbv zeta.
      unfold not_none, to_opt. destruct (is_none v); cbn [negb rank_list].
      + apply IH. lia.
      + destruct (nltb (unwrap v) x); [apply IH; lia|]. destruct (neqb (unwrap v) x); apply IH; lia.
  Qed.

  Variable wd : nat.
  Hypothesis Hwd : 1 <= wd.
  Variables (mp : nat) (pct rev : bool).

  Definition rank_at_any (k : nat) : B :=
    match gov xs k with
    | Some x =>
        let r := rank_list x (seg (wstart wd k) k (govs xs)) none 1 in
        rank_out mp pct rev (gcount xs (wstart wd k) (S k)) (fst r) (snd r)
    | None => rank_out mp pct rev (gcount xs (wstart wd k) (S k)) nnan 1
    end.

  (* the counter is the valid count of the window — a fact about not_none alone, so no order law is needed *)
  Lemma vrank_cb_step_any k v n :
    nth_error xs k = Some v -> n = gcount xs (wstart wd k) k ->
    exists n' o, vrank_cb (B := B) mp (wd - 1) pct rev xs n (start_of wd k, k, v) = Ok (n', o) /\
                 n' = gcount xs (wstart wd (S k)) (S k) /\ o = rank_at_any k.
  Proof.
    intros Hv Hn.
    assert (Hk : k < length xs) by (apply nth_error_Some; congruence).
    assert (Hcnt : gcount xs (wstart wd k) (S k) = gcount xs (wstart wd k) k + gisv v)
      by (apply gcount_snoc; [unfold wstart; lia|exact Hv]).
    assert (Hfrom : match start_of wd k with Some st => st | None => 0 end = wstart wd k).
    { rewrite (g_start_of_wstart wd Hwd). destruct (k <? wd - 1) eqn:E; [|reflexivity].
      apply Nat.ltb_lt in E. unfold wstart. lia. }
    unfold vrank_cb. rewrite Hfrom.
    assert (Hpost : forall o : B, exists n',
              (do n2 <- (if wd - 1 <=? k then
                           match start_of wd k with
                           | None => Panic UnwrapNone
                           | Some st => do v0 <- uget xs st;
                                        if not_none v0 then usub (gcount xs (wstart wd k) (S k)) 1
                                        else Ok (gcount xs (wstart wd k) (S k))
                           end
                         else Ok (gcount xs (wstart wd k) (S k)));
               Ok (n2, o)) = Ok (n', o) /\ n' = gcount xs (wstart wd (S k)) (S k)).
    { intros o. rewrite (g_start_of_wstart wd Hwd).
      destruct (k <? wd - 1) eqn:E.
      - apply Nat.ltb_lt in E. replace (wd - 1 <=? k) with false by (symmetry; apply Nat.leb_gt; lia).
        cbn [bind]. eexists. split; [reflexivity|]. f_equal. unfold wstart. lia.
      - apply Nat.ltb_ge in E. replace (wd - 1 <=? k) with true by (symmetry; apply Nat.leb_le; lia).
        destruct (nth_error_Some_lt xs (wstart wd k)) as [v0 Hv0]; [unfold wstart; lia|].
        rewrite (g_uget_ok xs _ _ Hv0). cbn [bind].
        assert (Hc : gcount xs (wstart wd k) (S k) = gisv v0 + gcount xs (wstart wd (S k)) (S k)).
        { replace (wstart wd (S k)) with (S (wstart wd k)) by (unfold wstart; lia).
          apply gcount_cons; [unfold wstart; lia|exact Hv0]. }
        unfold gisv in Hc. destruct (not_none v0).
        + unfold usub. replace (1 <=? gcount xs (wstart wd k) (S k)) with true
            by (symmetry; apply Nat.leb_le; lia).
          cbn [bind]. eexists. split; [reflexivity|]. lia.
        + cbn [bind]. eexists. split; [reflexivity|]. lia. }
    unfold rank_at_any. rewrite (gov_nth xs k v Hv).
    destruct (not_none v) eqn:Ev.
    - rewrite (g_to_opt_valid v Ev).
      pose proof (rank_loop_list (unwrap v) (k - wstart wd k) (wstart wd k) none 1) as HL.
      replace (wstart wd k + (k - wstart wd k)) with k in HL by (unfold wstart; lia).
      rewrite HL by lia. cbn [bind].
      unfold gisv in Hcnt. rewrite Ev in Hcnt.
      replace (S n) with (gcount xs (wstart wd k) (S k)) by lia.
      set (r := rank_list (unwrap v) (seg (wstart wd k) k (govs xs)) none 1).
      destruct (Hpost (rank_out mp pct rev (gcount xs (wstart wd k) (S k)) (fst r) (snd r))) as (n' & H1 & H2).
      exists n'. eexists. split; [exact H1|]. split; [exact H2|reflexivity].
    - rewrite (g_to_opt_null v Ev). cbn [bind].
      unfold gisv in Hcnt. rewrite Ev in Hcnt.
      replace n with (gcount xs (wstart wd k) (S k)) by lia.
      destruct (Hpost (rank_out (B := B) mp pct rev (gcount xs (wstart wd k) (S k)) nnan 1)) as (n' & H1 & H2).
      exists n'. eexists. split; [exact H1|]. split; [exact H2|reflexivity].
  Qed.
End RankAny.

Section RankAnyFinal.
  Context {A : Type} {NA : Num A} {T : Type} {DT : IsNone T A} {B : Type} {NB : Num B}.

  (* closed form, bit for bit at every carrier: output i = g_rank_any of the window *)
  Theorem ts_vrank_any body w mp pct rev (xs : list T) :
    1 <= w -> 1 <= length xs ->
    exists out, ts_vrank (B := B) body w mp pct rev xs = Done out /\ length out = length xs /\
      forall i, i < length xs ->
        nth_error out i = Some (g_rank_any (cmp_mp mp (cmp_window w xs)) pct rev (win w i (map to_opt xs))).
  Proof.
    intros Hw Hlen. unfold ts_vrank. set (wd := cmp_window w xs). set (m := cmp_mp mp wd).
    assert (Hwd : 1 <= wd) by (unfold wd, cmp_window; lia).
    assert (Heff : eff_window body wd (length xs) = wd)
      by (unfold eff_window, wd, cmp_window; destruct body; lia).
    destruct (@idx_run_spec T nat B (vrank_cb m (wd - 1) pct rev xs) xs body wd
                (fun k n => n = gcount xs (wstart wd k) k)
                (fun k o => o = rank_at_any xs wd m pct rev k) 0 Hwd) as (out & H1 & H2 & H3).
    { assert (H0 : wstart wd 0 = 0) by (unfold wstart; lia). rewrite H0, gcount_nil. reflexivity. }
    { intros k v n Hv Hn. rewrite Heff. apply vrank_cb_step_any; assumption. }
    exists out. split; [exact H1|]. split; [exact H2|].
    apply g_nth_from_rel with (P := fun k o => o = rank_at_any xs wd m pct rev k); [exact H2|exact H3|].
    intros i o Hi ->. unfold rank_at_any, g_rank_any. fold (govs xs).
    unfold wd, cmp_window. rewrite g_wstart_clamp by exact Hi. fold (cmp_window w xs). fold wd.
    rewrite (win_snoc w i (govs xs) (gov xs i) Hw (govs_nth_lt xs i Hi)), last_opt_snoc, removelast_last.
    unfold gcount. rewrite (@seg_snoc _ (wstart w i) i (govs xs) (gov xs i));
      [|unfold wstart; lia|apply govs_nth_lt; exact Hi].
    destruct (gov xs i); reflexivity.
  Qed.

  Theorem rank_total_any body w mp pct rev (xs : list T) :
    1 <= w -> exists out, ts_vrank (B := B) body w mp pct rev xs = Done out /\ length out = length xs.
  Proof.
    intros Hw. destruct xs as [|x xs'] eqn:Exs.
    - rewrite ts_vrank_empty. exists []. split; reflexivity.
    - rewrite <- Exs. assert (Hl : 1 <= length xs) by (rewrite Exs; cbn; lia).
      destruct (ts_vrank_any body w mp pct rev xs Hw Hl) as (o & A1 & B1 & _).
      exists o. split; assumption.
  Qed.

  (* window-determined form under the min_periods condition of DESIGN 5.3 *)
  Lemma vrank_wd_any body w mp pct rev : 1 <= w ->
    forall xs : list T, 1 <= length xs -> cmp_dom w mp (length xs) ->
    exists out, ts_vrank (B := B) body w mp pct rev xs = Done out /\ length out = length xs /\
      forall i, i < length xs ->
        nth_error out i = Some (g_rank_any (cmp_mp mp w) pct rev (map to_opt (win w i xs))).
  Proof.
    intros Hw xs Hl Hd. destruct (ts_vrank_any body w mp pct rev xs Hw Hl) as (out & E & L & N).
    exists out. split; [exact E|]. split; [exact L|]. intros i Hi. rewrite (N i Hi).
    rewrite win_map, cmp_mp_const by exact Hd. reflexivity.
  Qed.
End RankAnyFinal.

(* ---- (3) C06 ---------------------------------------------------------------------------------------------- *)
(* window-only, strong form: both calls return, and the outputs at the two positions are the same value *)
Lemma wd_window_strong {T O} (f1 f2 : list T -> outcome O) (w : nat) (D : list T -> Prop) (g : list T -> O) :
  (forall xs, 1 <= length xs -> D xs ->
     exists out, f1 xs = Done out /\ length out = length xs /\
       forall i, i < length xs -> nth_error out i = Some (g (win w i xs))) ->
  (forall xs, 1 <= length xs -> D xs ->
     exists out, f2 xs = Done out /\ length out = length xs /\
       forall i, i < length xs -> nth_error out i = Some (g (win w i xs))) ->
  forall xs ys i j, D xs -> D ys -> i < length xs -> j < length ys -> win w i xs = win w j ys ->
    exists ox oy o, f1 xs = Done ox /\ f2 ys = Done oy /\ nth_error ox i = Some o /\ nth_error oy j = Some o.
Proof.
  intros H1 H2 xs ys i j Dx Dy Hi Hj HW.
  destruct (H1 xs) as (o1 & E1 & L1 & N1); [lia|exact Dx|].
  destruct (H2 ys) as (o2 & E2 & L2 & N2); [lia|exact Dy|].
  exists o1, o2, (g (win w i xs)). split; [exact E1|]. split; [exact E2|].
  split; [apply N1; exact Hi|]. rewrite HW. apply N2. exact Hj.
Qed.

(* prefix, unconditional form: totality + the bit-for-bit rule of Proofs/IdxPrefix.v *)
Lemma prefix_strong {T O} (f : list T -> outcome O) (xs : list T) (k : nat) :
  (exists out, f xs = Done out /\ length out = length xs) ->
  (forall out, f xs = Done out -> f (firstn k xs) = Done (firstn k out)) ->
  exists out, f xs = Done out /\ length out = length xs /\ f (firstn k xs) = Done (firstn k out).
Proof.
  intros (out & E & L) HP. exists out. split; [exact E|]. split; [exact L|]. apply HP. exact E.
Qed.

Section NoLookaheadOrdG.
  Context {A : Type} {NA : Num A} {T : Type} {DT : IsNone T A}.
  Hypothesis OL : OrdLaws A.

  (* the domain of the window-determined forms: valid elements are not NaN, and DESIGN 5.3 *)
  Definition ord_dom (w : nat) (mp : option nat) (xs : list T) : Prop :=
    valid_not_nan xs /\ cmp_dom w mp (length xs).

  Definition g_min_ord (w : nat) (mp : option nat) (W : list T) : option A :=
    let V := gvalid (map to_opt W) in if cmp_mp mp w <=? length V then gmin V else None.
  Definition g_max_ord (w : nat) (mp : option nat) (W : list T) : option A :=
    let V := gvalid (map to_opt W) in if cmp_mp mp w <=? length V then gmax V else None.
  Definition g_argmin_ord (w : nat) (mp : option nat) (W : list T) : option nat :=
    let W' := map to_opt W in if cmp_mp mp w <=? length (gvalid W') then gargmin_spec W' else None.
  Definition g_argmax_ord (w : nat) (mp : option nat) (W : list T) : option nat :=
    let W' := map to_opt W in if cmp_mp mp w <=? length (gvalid W') then gargmax_spec W' else None.
  Definition g_rank_ord (w : nat) (mp : option nat) (pct rev : bool) (W : list T) : XR :=
    match last_opt (map to_opt W) with
    | Some (Some x) =>
        let V' := gvalid (removelast (map to_opt W)) in
        if cmp_mp mp w <=? S (length V') then Some (g_avg_rank pct rev x V') else None
    | _ => None
    end.

  Lemma vmin_wd_ord body w mp : 1 <= w ->
    forall xs : list T, 1 <= length xs -> ord_dom w mp xs ->
    exists out, ts_vmin body w mp xs = Done out /\ length out = length xs /\
      forall i, i < length xs -> nth_error out i = Some (g_min_ord w mp (win w i xs)).
  Proof.
    intros Hw xs Hl [Hn Hd]. destruct (ts_vmin_ord OL body w mp xs Hn Hw Hl) as (out & E & L & N).
    exists out. split; [exact E|]. split; [exact L|]. intros i Hi. rewrite (N i Hi).
    unfold g_min_ord. rewrite win_map, cmp_mp_const by exact Hd. reflexivity.
  Qed.
  Lemma vmax_wd_ord body w mp : 1 <= w ->
    forall xs : list T, 1 <= length xs -> ord_dom w mp xs ->
    exists out, ts_vmax body w mp xs = Done out /\ length out = length xs /\
      forall i, i < length xs -> nth_error out i = Some (g_max_ord w mp (win w i xs)).
  Proof.
    intros Hw xs Hl [Hn Hd]. destruct (ts_vmax_ord OL body w mp xs Hn Hw Hl) as (out & E & L & N).
    exists out. split; [exact E|]. split; [exact L|]. intros i Hi. rewrite (N i Hi).
    unfold g_max_ord. rewrite win_map, cmp_mp_const by exact Hd. reflexivity.
  Qed.
  Lemma vargmin_wd_ord body w mp : 1 <= w ->
    forall xs : list T, 1 <= length xs -> ord_dom w mp xs ->
    exists out, ts_vargmin body w mp xs = Done out /\ length out = length xs /\
      forall i, i < length xs -> nth_error out i = Some (g_argmin_ord w mp (win w i xs)).
  Proof.
    intros Hw xs Hl [Hn Hd]. destruct (ts_vargmin_ord OL body w mp xs Hn Hw Hl) as (out & E & L & N).
    exists out. split; [exact E|]. split; [exact L|]. intros i Hi. rewrite (N i Hi).
    unfold g_argmin_ord. rewrite win_map, cmp_mp_const by exact Hd. reflexivity.
  Qed.
  Lemma vargmax_wd_ord body w mp : 1 <= w ->
    forall xs : list T, 1 <= length xs -> ord_dom w mp xs ->
    exists out, ts_vargmax body w mp xs = Done out /\ length out = length xs /\
      forall i, i < length xs -> nth_error out i = Some (g_argmax_ord w mp (win w i xs)).
  Proof.
    intros Hw xs Hl [Hn Hd]. destruct (ts_vargmax_ord OL body w mp xs Hn Hw Hl) as (out & E & L & N).
    exists out. split; [exact E|]. split; [exact L|]. intros i Hi. rewrite (N i Hi).
    unfold g_argmax_ord. rewrite win_map, cmp_mp_const by exact Hd. reflexivity.
  Qed.
  Lemma vrank_wd_ord body w mp pct rev : 1 <= w ->
    forall xs : list T, 1 <= length xs -> ord_dom w mp xs ->
    exists out, ts_vrank (B := XR) body w mp pct rev xs = Done out /\ length out = length xs /\
      forall i, i < length xs -> nth_error out i = Some (g_rank_ord w mp pct rev (win w i xs)).
  Proof.
    intros Hw xs Hl [Hn Hd]. destruct (ts_vrank_ord OL body w mp pct rev xs Hn Hw Hl) as (out & E & L & N).
    exists out. split; [exact E|]. split; [exact L|]. intros i Hi. rewrite (N i Hi).
    unfold g_rank_ord. rewrite <- win_map.
    destruct (nth_error (map to_opt xs) i) as [a|] eqn:Ea;
      [|apply nth_error_None in Ea; rewrite map_length in Ea; lia].
    rewrite (win_snoc w i _ a Hw Ea), last_opt_snoc, removelast_last, cmp_mp_const by exact Hd.
    reflexivity.
  Qed.

  (* ---- window-only: two series (any lengths, any histories, either driver body each) whose windows at positions
     i and j coincide: both calls return and give the same output there ---- *)
  Theorem window_only_vmin_ord bx by_ w mp (xs ys : list T) i j :
    1 <= w -> valid_not_nan xs -> valid_not_nan ys -> cmp_dom w mp (length xs) -> cmp_dom w mp (length ys) ->
    i < length xs -> j < length ys -> win w i xs = win w j ys ->
    exists ox oy o, ts_vmin bx w mp xs = Done ox /\ ts_vmin by_ w mp ys = Done oy /\
                    nth_error ox i = Some o /\ nth_error oy j = Some o.
  Proof.
    intros Hw Nx Ny Dx Dy.
    apply (wd_window_strong (ts_vmin bx w mp) (ts_vmin by_ w mp) w (ord_dom w mp) (g_min_ord w mp)
             (vmin_wd_ord bx w mp Hw) (vmin_wd_ord by_ w mp Hw)); split; assumption.
  Qed.
  Theorem window_only_vmax_ord bx by_ w mp (xs ys : list T) i j :
    1 <= w -> valid_not_nan xs -> valid_not_nan ys -> cmp_dom w mp (length xs) -> cmp_dom w mp (length ys) ->
    i < length xs -> j < length ys -> win w i xs = win w j ys ->
    exists ox oy o, ts_vmax bx w mp xs = Done ox /\ ts_vmax by_ w mp ys = Done oy /\
                    nth_error ox i = Some o /\ nth_error oy j = Some o.
  Proof.
    intros Hw Nx Ny Dx Dy.
    apply (wd_window_strong (ts_vmax bx w mp) (ts_vmax by_ w mp) w (ord_dom w mp) (g_max_ord w mp)
             (vmax_wd_ord bx w mp Hw) (vmax_wd_ord by_ w mp Hw)); split; assumption.
  Qed.
  Theorem window_only_vargmin_ord bx by_ w mp (xs ys : list T) i j :
    1 <= w -> valid_not_nan xs -> valid_not_nan ys -> cmp_dom w mp (length xs) -> cmp_dom w mp (length ys) ->
    i < length xs -> j < length ys -> win w i xs = win w j ys ->
    exists ox oy o, ts_vargmin bx w mp xs = Done ox /\ ts_vargmin by_ w mp ys = Done oy /\
                    nth_error ox i = Some o /\ nth_error oy j = Some o.
  Proof.
    intros Hw Nx Ny Dx Dy.
    apply (wd_window_strong (ts_vargmin bx w mp) (ts_vargmin by_ w mp) w (ord_dom w mp) (g_argmin_ord w mp)
             (vargmin_wd_ord bx w mp Hw) (vargmin_wd_ord by_ w mp Hw)); split; assumption.
  Qed.
  Theorem window_only_vargmax_ord bx by_ w mp (xs ys : list T) i j :
    1 <= w -> valid_not_nan xs -> valid_not_nan ys -> cmp_dom w mp (length xs) -> cmp_dom w mp (length ys) ->
    i < length xs -> j < length ys -> win w i xs = win w j ys ->
    exists ox oy o, ts_vargmax bx w mp xs = Done ox /\ ts_vargmax by_ w mp ys = Done oy /\
                    nth_error ox i = Some o /\ nth_error oy j = Some o.
  Proof.
    intros Hw Nx Ny Dx Dy.
    apply (wd_window_strong (ts_vargmax bx w mp) (ts_vargmax by_ w mp) w (ord_dom w mp) (g_argmax_ord w mp)
             (vargmax_wd_ord bx w mp Hw) (vargmax_wd_ord by_ w mp Hw)); split; assumption.
  Qed.

  (* ---- prefix, unconditional: the whole call returns, the prefix call returns the prefix of its result ---- *)
  Theorem prefix_vmin_ord body w mp (xs : list T) k :
    valid_not_nan xs -> 1 <= w -> cmp_dom w mp (Nat.min k (length xs)) -> cmp_dom w mp (length xs) ->
    exists out, ts_vmin body w mp xs = Done out /\ length out = length xs /\
                ts_vmin body w mp (firstn k xs) = Done (firstn k out).
  Proof.
    intros Hn Hw D1 D2. apply prefix_strong.
    - exact (proj1 (extrema_total_ord OL body w mp xs Hn Hw)).
    - intros out. apply ts_vmin_prefix_any; assumption.
  Qed.
  Theorem prefix_vmax_ord body w mp (xs : list T) k :
    valid_not_nan xs -> 1 <= w -> cmp_dom w mp (Nat.min k (length xs)) -> cmp_dom w mp (length xs) ->
    exists out, ts_vmax body w mp xs = Done out /\ length out = length xs /\
                ts_vmax body w mp (firstn k xs) = Done (firstn k out).
  Proof.
    intros Hn Hw D1 D2. apply prefix_strong.
    - exact (proj1 (proj2 (extrema_total_ord OL body w mp xs Hn Hw))).
    - intros out. apply ts_vmax_prefix_any; assumption.
  Qed.
  Theorem prefix_vargmin_ord body w mp (xs : list T) k :
    valid_not_nan xs -> 1 <= w -> cmp_dom w mp (Nat.min k (length xs)) -> cmp_dom w mp (length xs) ->
    exists out, ts_vargmin body w mp xs = Done out /\ length out = length xs /\
                ts_vargmin body w mp (firstn k xs) = Done (firstn k out).
  Proof.
    intros Hn Hw D1 D2. apply prefix_strong.
    - exact (proj1 (proj2 (proj2 (extrema_total_ord OL body w mp xs Hn Hw)))).
    - intros out. apply ts_vargmin_prefix_any; assumption.
  Qed.
  Theorem prefix_vargmax_ord body w mp (xs : list T) k :
    valid_not_nan xs -> 1 <= w -> cmp_dom w mp (Nat.min k (length xs)) -> cmp_dom w mp (length xs) ->
    exists out, ts_vargmax body w mp xs = Done out /\ length out = length xs /\
                ts_vargmax body w mp (firstn k xs) = Done (firstn k out).
  Proof.
    intros Hn Hw D1 D2. apply prefix_strong.
    - exact (proj2 (proj2 (proj2 (extrema_total_ord OL body w mp xs Hn Hw)))).
    - intros out. apply ts_vargmax_prefix_any; assumption.
  Qed.
End NoLookaheadOrdG.

(* ts_vrank: no law, no premise on the series, every input and output carrier — bit for bit also in the output
   arithmetic *)
Section NoLookaheadRankAny.
  Context {A : Type} {NA : Num A} {T : Type} {DT : IsNone T A} {B : Type} {NB : Num B}.

  Theorem prefix_vrank_any body w mp pct rev (xs : list T) k :
    1 <= w -> cmp_dom w mp (Nat.min k (length xs)) -> cmp_dom w mp (length xs) ->
    exists out, ts_vrank (B := B) body w mp pct rev xs = Done out /\ length out = length xs /\
                ts_vrank (B := B) body w mp pct rev (firstn k xs) = Done (firstn k out).
  Proof.
    intros Hw D1 D2. apply prefix_strong.
    - exact (rank_total_any body w mp pct rev xs Hw).
    - intros out. apply ts_vrank_prefix_any; assumption.
  Qed.

  Theorem window_only_vrank_any bx by_ w mp pct rev (xs ys : list T) i j :
    1 <= w -> cmp_dom w mp (length xs) -> cmp_dom w mp (length ys) ->
    i < length xs -> j < length ys -> win w i xs = win w j ys ->
    exists ox oy o, ts_vrank (B := B) bx w mp pct rev xs = Done ox /\ ts_vrank (B := B) by_ w mp pct rev ys = Done oy /\
                    nth_error ox i = Some o /\ nth_error oy j = Some o.
  Proof.
    intros Hw.
    apply (wd_window_strong (ts_vrank (B := B) bx w mp pct rev) (ts_vrank (B := B) by_ w mp pct rev) w
             (fun l => cmp_dom w mp (length l)) (fun W => g_rank_any (cmp_mp mp w) pct rev (map to_opt W))
             (vrank_wd_any bx w mp pct rev Hw) (vrank_wd_any by_ w mp pct rev Hw)).
  Qed.
End NoLookaheadRankAny.

(* ---- (4) binary64 ------------------------------------------------------------------------------------------ *)
(* f64 series, NaN is the null: the premise on the series is automatic *)
Lemma valid_not_nan_f64 (xs : list float) : valid_not_nan (DT := IsNoneF64) xs.
Proof. intros v _ H. exact H. Qed.

Theorem mask_vmin_f64 body w mp (xs : list float) :
  1 <= w -> 1 <= length xs ->
  exists out, ts_vmin (DT := IsNoneF64) body w mp xs = Done out /\ length out = length xs /\
    forall i, i < length xs ->
      exists o, nth_error out i = Some o /\
        onull o = orb (length (gvalid (win w i (map to_opt xs))) <? cmp_mp mp (cmp_window w xs))
                      (length (gvalid (win w i (map to_opt xs))) <? 1) /\
        (forall x, o = Some x -> nisnan x = false).
Proof. exact (mask_vmin_ord ordlaws_F64 body w mp xs (valid_not_nan_f64 xs)). Qed.
Theorem mask_vmax_f64 body w mp (xs : list float) :
  1 <= w -> 1 <= length xs ->
  exists out, ts_vmax (DT := IsNoneF64) body w mp xs = Done out /\ length out = length xs /\
    forall i, i < length xs ->
      exists o, nth_error out i = Some o /\
        onull o = orb (length (gvalid (win w i (map to_opt xs))) <? cmp_mp mp (cmp_window w xs))
                      (length (gvalid (win w i (map to_opt xs))) <? 1) /\
        (forall x, o = Some x -> nisnan x = false).
Proof. exact (mask_vmax_ord ordlaws_F64 body w mp xs (valid_not_nan_f64 xs)). Qed.
Theorem mask_vargmin_f64 body w mp (xs : list float) :
  1 <= w -> 1 <= length xs ->
  exists out, ts_vargmin (DT := IsNoneF64) body w mp xs = Done out /\ length out = length xs /\
    forall i, i < length xs ->
      exists o, nth_error out i = Some o /\
        onull o = orb (length (gvalid (win w i (map to_opt xs))) <? cmp_mp mp (cmp_window w xs))
                      (length (gvalid (win w i (map to_opt xs))) <? 1).
Proof. exact (mask_vargmin_ord ordlaws_F64 body w mp xs (valid_not_nan_f64 xs)). Qed.
Theorem mask_vargmax_f64 body w mp (xs : list float) :
  1 <= w -> 1 <= length xs ->
  exists out, ts_vargmax (DT := IsNoneF64) body w mp xs = Done out /\ length out = length xs /\
    forall i, i < length xs ->
      exists o, nth_error out i = Some o /\
        onull o = orb (length (gvalid (win w i (map to_opt xs))) <? cmp_mp mp (cmp_window w xs))
                      (length (gvalid (win w i (map to_opt xs))) <? 1).
Proof. exact (mask_vargmax_ord ordlaws_F64 body w mp xs (valid_not_nan_f64 xs)). Qed.
Theorem mask_vrank_f64_input body w mp pct rev (xs : list float) :
  1 <= w -> 1 <= length xs ->
  exists out, ts_vrank (DT := IsNoneF64) (B := XR) body w mp pct rev xs = Done out /\ length out = length xs /\
    forall i, i < length xs ->
      exists o, nth_error out i = Some o /\
        is_null o = orb (null_at (map to_opt xs) i)
                        (length (gvalid (win w i (map to_opt xs))) <? cmp_mp mp (cmp_window w xs)).
Proof. exact (mask_vrank_ord ordlaws_F64 body w mp pct rev xs (valid_not_nan_f64 xs)). Qed.

Theorem extrema_total_f64 body w mp (xs : list float) :
  1 <= w ->
  (exists out, ts_vmin (DT := IsNoneF64) body w mp xs = Done out /\ length out = length xs) /\
  (exists out, ts_vmax (DT := IsNoneF64) body w mp xs = Done out /\ length out = length xs) /\
  (exists out, ts_vargmin (DT := IsNoneF64) body w mp xs = Done out /\ length out = length xs) /\
  (exists out, ts_vargmax (DT := IsNoneF64) body w mp xs = Done out /\ length out = length xs).
Proof. exact (extrema_total_ord ordlaws_F64 body w mp xs (valid_not_nan_f64 xs)). Qed.

(* Option<f64> series: only `None` is null; the premise excludes Some(NaN) (DESIGN 5.4) *)
Theorem mask_cmp_optf64 body w mp (xs : list (option float)) :
  valid_not_nan (DT := IsNoneOptF64) xs -> 1 <= w -> 1 <= length xs ->
  (exists out, ts_vmin (DT := IsNoneOptF64) body w mp xs = Done out /\ length out = length xs /\
     forall i, i < length xs ->
       exists o, nth_error out i = Some o /\
         onull o = orb (length (gvalid (win w i (map to_opt xs))) <? cmp_mp mp (cmp_window w xs))
                       (length (gvalid (win w i (map to_opt xs))) <? 1) /\
         (forall x, o = Some x -> nisnan x = false)) /\
  (exists out, ts_vmax (DT := IsNoneOptF64) body w mp xs = Done out /\ length out = length xs /\
     forall i, i < length xs ->
       exists o, nth_error out i = Some o /\
         onull o = orb (length (gvalid (win w i (map to_opt xs))) <? cmp_mp mp (cmp_window w xs))
                       (length (gvalid (win w i (map to_opt xs))) <? 1) /\
         (forall x, o = Some x -> nisnan x = false)) /\
  (exists out, ts_vargmin (DT := IsNoneOptF64) body w mp xs = Done out /\ length out = length xs /\
     forall i, i < length xs ->
       exists o, nth_error out i = Some o /\
         onull o = orb (length (gvalid (win w i (map to_opt xs))) <? cmp_mp mp (cmp_window w xs))
                       (length (gvalid (win w i (map to_opt xs))) <? 1)) /\
  (exists out, ts_vargmax (DT := IsNoneOptF64) body w mp xs = Done out /\ length out = length xs /\
     forall i, i < length xs ->
       exists o, nth_error out i = Some o /\
         onull o = orb (length (gvalid (win w i (map to_opt xs))) <? cmp_mp mp (cmp_window w xs))
                       (length (gvalid (win w i (map to_opt xs))) <? 1)) /\
  (forall pct rev,
   exists out, ts_vrank (DT := IsNoneOptF64) (B := XR) body w mp pct rev xs = Done out /\ length out = length xs /\
     forall i, i < length xs ->
       exists o, nth_error out i = Some o /\
         is_null o = orb (null_at (map to_opt xs) i)
                         (length (gvalid (win w i (map to_opt xs))) <? cmp_mp mp (cmp_window w xs))).
Proof.
  intros Hn Hw Hl. split; [|split; [|split; [|split]]].
  - exact (mask_vmin_ord ordlaws_F64 body w mp xs Hn Hw Hl).
  - exact (mask_vmax_ord ordlaws_F64 body w mp xs Hn Hw Hl).
  - exact (mask_vargmin_ord ordlaws_F64 body w mp xs Hn Hw Hl).
  - exact (mask_vargmax_ord ordlaws_F64 body w mp xs Hn Hw Hl).
  - intros pct rev. exact (mask_vrank_ord ordlaws_F64 body w mp pct rev xs Hn Hw Hl).
Qed.

Theorem extrema_total_optf64 body w mp (xs : list (option float)) :
  valid_not_nan (DT := IsNoneOptF64) xs -> 1 <= w ->
  (exists out, ts_vmin (DT := IsNoneOptF64) body w mp xs = Done out /\ length out = length xs) /\
  (exists out, ts_vmax (DT := IsNoneOptF64) body w mp xs = Done out /\ length out = length xs) /\
  (exists out, ts_vargmin (DT := IsNoneOptF64) body w mp xs = Done out /\ length out = length xs) /\
  (exists out, ts_vargmax (DT := IsNoneOptF64) body w mp xs = Done out /\ length out = length xs).
Proof. exact (extrema_total_ord ordlaws_F64 body w mp xs). Qed.

(* C06 at binary64: the four extrema functions; ts_vrank is covered, output arithmetic included, by
   prefix_vrank_any / window_only_vrank_any at A = B = float *)
Theorem prefix_extrema_f64 body w mp (xs : list float) k :
  1 <= w -> cmp_dom w mp (Nat.min k (length xs)) -> cmp_dom w mp (length xs) ->
  (exists out, ts_vmin (DT := IsNoneF64) body w mp xs = Done out /\ length out = length xs /\
               ts_vmin (DT := IsNoneF64) body w mp (firstn k xs) = Done (firstn k out)) /\
  (exists out, ts_vmax (DT := IsNoneF64) body w mp xs = Done out /\ length out = length xs /\
               ts_vmax (DT := IsNoneF64) body w mp (firstn k xs) = Done (firstn k out)) /\
  (exists out, ts_vargmin (DT := IsNoneF64) body w mp xs = Done out /\ length out = length xs /\
               ts_vargmin (DT := IsNoneF64) body w mp (firstn k xs) = Done (firstn k out)) /\
  (exists out, ts_vargmax (DT := IsNoneF64) body w mp xs = Done out /\ length out = length xs /\
               ts_vargmax (DT := IsNoneF64) body w mp (firstn k xs) = Done (firstn k out)).
Proof.
  intros Hw D1 D2. pose proof (valid_not_nan_f64 xs) as Hn. split; [|split; [|split]].
  - exact (prefix_vmin_ord ordlaws_F64 body w mp xs k Hn Hw D1 D2).
  - exact (prefix_vmax_ord ordlaws_F64 body w mp xs k Hn Hw D1 D2).
  - exact (prefix_vargmin_ord ordlaws_F64 body w mp xs k Hn Hw D1 D2).
  - exact (prefix_vargmax_ord ordlaws_F64 body w mp xs k Hn Hw D1 D2).
Qed.

Theorem prefix_extrema_optf64 body w mp (xs : list (option float)) k :
  valid_not_nan (DT := IsNoneOptF64) xs ->
  1 <= w -> cmp_dom w mp (Nat.min k (length xs)) -> cmp_dom w mp (length xs) ->
  (exists out, ts_vmin (DT := IsNoneOptF64) body w mp xs = Done out /\ length out = length xs /\
               ts_vmin (DT := IsNoneOptF64) body w mp (firstn k xs) = Done (firstn k out)) /\
  (exists out, ts_vmax (DT := IsNoneOptF64) body w mp xs = Done out /\ length out = length xs /\
               ts_vmax (DT := IsNoneOptF64) body w mp (firstn k xs) = Done (firstn k out)) /\
  (exists out, ts_vargmin (DT := IsNoneOptF64) body w mp xs = Done out /\ length out = length xs /\
               ts_vargmin (DT := IsNoneOptF64) body w mp (firstn k xs) = Done (firstn k out)) /\
  (exists out, ts_vargmax (DT := IsNoneOptF64) body w mp xs = Done out /\ length out = length xs /\
               ts_vargmax (DT := IsNoneOptF64) body w mp (firstn k xs) = Done (firstn k out)).
Proof.
  intros Hn Hw D1 D2. split; [|split; [|split]].
  - exact (prefix_vmin_ord ordlaws_F64 body w mp xs k Hn Hw D1 D2).
  - exact (prefix_vmax_ord ordlaws_F64 body w mp xs k Hn Hw D1 D2).
  - exact (prefix_vargmin_ord ordlaws_F64 body w mp xs k Hn Hw D1 D2).
  - exact (prefix_vargmax_ord ordlaws_F64 body w mp xs k Hn Hw D1 D2).
Qed.

Theorem window_only_extrema_f64 bx by_ w mp (xs ys : list float) i j :
  1 <= w -> cmp_dom w mp (length xs) -> cmp_dom w mp (length ys) ->
  i < length xs -> j < length ys -> win w i xs = win w j ys ->
  (exists ox oy o, ts_vmin (DT := IsNoneF64) bx w mp xs = Done ox /\ ts_vmin (DT := IsNoneF64) by_ w mp ys = Done oy /\
                   nth_error ox i = Some o /\ nth_error oy j = Some o) /\
  (exists ox oy o, ts_vmax (DT := IsNoneF64) bx w mp xs = Done ox /\ ts_vmax (DT := IsNoneF64) by_ w mp ys = Done oy /\
                   nth_error ox i = Some o /\ nth_error oy j = Some o) /\
  (exists ox oy o, ts_vargmin (DT := IsNoneF64) bx w mp xs = Done ox /\ ts_vargmin (DT := IsNoneF64) by_ w mp ys = Done oy /\
                   nth_error ox i = Some o /\ nth_error oy j = Some o) /\
  (exists ox oy o, ts_vargmax (DT := IsNoneF64) bx w mp xs = Done ox /\ ts_vargmax (DT := IsNoneF64) by_ w mp ys = Done oy /\
                   nth_error ox i = Some o /\ nth_error oy j = Some o).
Proof.
  intros Hw Dx Dy Hi Hj HW.
  pose proof (valid_not_nan_f64 xs) as Nx. pose proof (valid_not_nan_f64 ys) as Ny. split; [|split; [|split]].
  - exact (window_only_vmin_ord ordlaws_F64 bx by_ w mp xs ys i j Hw Nx Ny Dx Dy Hi Hj HW).
  - exact (window_only_vmax_ord ordlaws_F64 bx by_ w mp xs ys i j Hw Nx Ny Dx Dy Hi Hj HW).
  - exact (window_only_vargmin_ord ordlaws_F64 bx by_ w mp xs ys i j Hw Nx Ny Dx Dy Hi Hj HW).
  - exact (window_only_vargmax_ord ordlaws_F64 bx by_ w mp xs ys i j Hw Nx Ny Dx Dy Hi Hj HW).
Qed.

Theorem window_only_extrema_optf64 bx by_ w mp (xs ys : list (option float)) i j :
  valid_not_nan (DT := IsNoneOptF64) xs -> valid_not_nan (DT := IsNoneOptF64) ys ->
  1 <= w -> cmp_dom w mp (length xs) -> cmp_dom w mp (length ys) ->
  i < length xs -> j < length ys -> win w i xs = win w j ys ->
  (exists ox oy o, ts_vmin (DT := IsNoneOptF64) bx w mp xs = Done ox /\ ts_vmin (DT := IsNoneOptF64) by_ w mp ys = Done oy /\
                   nth_error ox i = Some o /\ nth_error oy j = Some o) /\
  (exists ox oy o, ts_vmax (DT := IsNoneOptF64) bx w mp xs = Done ox /\ ts_vmax (DT := IsNoneOptF64) by_ w mp ys = Done oy /\
                   nth_error ox i = Some o /\ nth_error oy j = Some o) /\
  (exists ox oy o, ts_vargmin (DT := IsNoneOptF64) bx w mp xs = Done ox /\
                   ts_vargmin (DT := IsNoneOptF64) by_ w mp ys = Done oy /\
                   nth_error ox i = Some o /\ nth_error oy j = Some o) /\
  (exists ox oy o, ts_vargmax (DT := IsNoneOptF64) bx w mp xs = Done ox /\
                   ts_vargmax (DT := IsNoneOptF64) by_ w mp ys = Done oy /\
                   nth_error ox i = Some o /\ nth_error oy j = Some o).
Proof.
  intros Nx Ny Hw Dx Dy Hi Hj HW. split; [|split; [|split]].
  - exact (window_only_vmin_ord ordlaws_F64 bx by_ w mp xs ys i j Hw Nx Ny Dx Dy Hi Hj HW).
  - exact (window_only_vmax_ord ordlaws_F64 bx by_ w mp xs ys i j Hw Nx Ny Dx Dy Hi Hj HW).
  - exact (window_only_vargmin_ord ordlaws_F64 bx by_ w mp xs ys i j Hw Nx Ny Dx Dy Hi Hj HW).
  - exact (window_only_vargmax_ord ordlaws_F64 bx by_ w mp xs ys i j Hw Nx Ny Dx Dy Hi Hj HW).
Qed.

(* the premise valid_not_nan cannot be dropped for Option<f64>: with Some(NaN) elements the call does not even
   return (Proofs/CmpOrdFloat.v), so no mask / prefix / window-only statement about its output can hold *)
Lemma optf64_some_nan_no_output :
  ~ (exists out, ts_vargmin (DT := IsNoneOptF64) true 2 (Some 0) [Some nan; Some nan; Some nan] = Done out) /\
  ~ valid_not_nan (DT := IsNoneOptF64) [Some nan; Some nan; Some nan].
Proof.
  destruct f64_some_nan_is_outside as [H1 H2]. split; [|exact H2].
  intros (out & E). rewrite H1 in E. discriminate.
Qed.

Print Assumptions mask_vmin_f64.
Print Assumptions mask_vrank_f64_input.
Print Assumptions prefix_extrema_f64.
Print Assumptions window_only_extrema_optf64.

(* ts_vrank with binary64 input and output: the any-carrier theorems at A = B = float *)
Theorem vrank_f64_no_lookahead bx by_ w mp pct rev (xs ys : list float) i j k :
  1 <= w ->
  (cmp_dom w mp (Nat.min k (length xs)) -> cmp_dom w mp (length xs) ->
   exists out, ts_vrank (DT := IsNoneF64) (B := float) bx w mp pct rev xs = Done out /\ length out = length xs /\
               ts_vrank (DT := IsNoneF64) (B := float) bx w mp pct rev (firstn k xs) = Done (firstn k out)) /\
  (cmp_dom w mp (length xs) -> cmp_dom w mp (length ys) ->
   i < length xs -> j < length ys -> win w i xs = win w j ys ->
   exists ox oy o, ts_vrank (DT := IsNoneF64) (B := float) bx w mp pct rev xs = Done ox /\
                   ts_vrank (DT := IsNoneF64) (B := float) by_ w mp pct rev ys = Done oy /\
                   nth_error ox i = Some o /\ nth_error oy j = Some o).
Proof.
  intros Hw. split.
  - intros D1 D2. exact (prefix_vrank_any bx w mp pct rev xs k Hw D1 D2).
  - intros Dx Dy Hi Hj HW. exact (window_only_vrank_any bx by_ w mp pct rev xs ys i j Hw Dx Dy Hi Hj HW).
Qed.
Print Assumptions vrank_f64_no_lookahead.
