(* Proofs/TransQuantile.v — C08 (null transparency) for vquantile / vmedian at EVERY carrier (no law of the numeric
   class, no order law, axiom-free).

   The model of std's sort is a stable insertion sort under sort_cmp / sort_cmp_rev.  Whatever the comparison of two
   non-null values does (no transitivity or totality is assumed), a null compares `Gt` against a non-null, `Eq` against
   a null, and a non-null compares `Lt` against a null.  Hence, for every series,
        isort cmp l = isort cmp (filter not_none l) ++ filter is_none l                       (isort_split)
   — the sorted arrangement of the non-null elements, literally the same term for a series and for the series with
   nulls inserted, followed by the nulls.  `select_nth j` therefore returns the same pivot and a head with the same
   non-null elements whenever the call on the original series succeeds, and the quantile — computed from
   `vmax head` / `vmin head` (null-skipping folds) and `tcast pivot` — is literally the same term.

   The index j = ceil((n-1) q) comes from the carrier's `NumFloor`, about which the class says nothing; for a j that is
   not below the number n of valid elements the shorter series may make `select_nth_unstable_by` panic (j >= len) where
   the longer one does not.  The statements are therefore: (1) every successful result on xs is the result on ys;
   (2) equality outright when the selected index is in range (always the case at binary64 and at option R).        *)
From Coq Require Import List Bool Arith Lia ZArith Permutation.
From Tevec Require Import Base.Prelude Base.Num Model.NullView Model.SortCmp Model.Quantile Proofs.SortCmp.
Import ListNotations.

Section NullSort.
  Context {A : Type} {NA : Num A} {T : Type} {DT : IsNone T A}.

  Lemma cmp_null_valid rev x y : is_none x = true -> is_none y = false -> cmp_dir rev x y = Gt.
  Proof. intros Hx Hy. destruct rev; cbn [cmp_dir]; unfold sort_cmp, sort_cmp_rev, to_opt; rewrite Hx, Hy; reflexivity. Qed.
  Lemma cmp_null_null rev x y : is_none x = true -> is_none y = true -> cmp_dir rev x y = Eq.
  Proof. intros Hx Hy. destruct rev; cbn [cmp_dir]; unfold sort_cmp, sort_cmp_rev, to_opt; rewrite Hx, Hy; reflexivity. Qed.
  Lemma cmp_valid_null rev x y : is_none x = false -> is_none y = true -> cmp_dir rev x y = Lt.
  Proof. intros Hx Hy. destruct rev; cbn [cmp_dir]; unfold sort_cmp, sort_cmp_rev, to_opt; rewrite Hx, Hy; reflexivity. Qed.

  Definition all_valid (l : list T) : Prop := Forall (fun y => is_none y = false) l.
  Definition all_null (l : list T) : Prop := Forall (fun y => is_none y = true) l.

  Lemma insert_null_split rev x N Z :
    is_none x = true -> all_valid N -> all_null Z -> insert (cmp_dir rev) x (N ++ Z) = N ++ x :: Z.
  Proof.
    intros Hx HN HZ. induction HN as [|y N Hy _ IH]; cbn [app insert].
    - destruct HZ as [|z Z Hz _]; [reflexivity|]. cbn [insert]. unfold cle. rewrite (cmp_null_null rev _ _ Hx Hz). reflexivity.
    - unfold cle. rewrite (cmp_null_valid rev _ _ Hx Hy). f_equal. exact IH.
  Qed.

  Lemma insert_valid_split rev x N Z :
    is_none x = false -> all_null Z -> insert (cmp_dir rev) x (N ++ Z) = insert (cmp_dir rev) x N ++ Z.
  Proof.
    intros Hx HZ. induction N as [|y N IH]; cbn [app insert].
    - destruct HZ as [|z Z Hz _]; [reflexivity|]. cbn [insert]. unfold cle. rewrite (cmp_valid_null rev _ _ Hx Hz). reflexivity.
    - destruct (cle (cmp_dir rev) x y); [reflexivity|]. cbn [app]. f_equal. exact IH.
  Qed.

  Lemma filter_not_none_all_valid l : all_valid (filter not_none l).
  Proof.
    unfold all_valid. apply Forall_forall. intros y Hy. apply filter_In in Hy. destruct Hy as [_ Hy].
    unfold not_none in Hy. destruct (is_none y); [discriminate|reflexivity].
  Qed.
  Lemma filter_is_none_all_null l : all_null (filter is_none l).
  Proof. unfold all_null. apply Forall_forall. intros y Hy. apply filter_In in Hy. exact (proj2 Hy). Qed.

  Lemma isort_all_valid rev l : all_valid l -> all_valid (isort (cmp_dir rev) l).
  Proof.
    unfold all_valid. rewrite !Forall_forall. intros H y Hy. apply H.
    apply Permutation_in with (isort (cmp_dir rev) l); [apply isort_perm|exact Hy].
  Qed.

  (* the sorted series = the sorted non-null elements, then the nulls (no order law needed) *)
  Theorem isort_split rev l :
    isort (cmp_dir rev) l = isort (cmp_dir rev) (filter not_none l) ++ filter is_none l.
  Proof.
    induction l as [|x l IH]; [reflexivity|].
    change (isort (cmp_dir rev) (x :: l)) with (insert (cmp_dir rev) x (isort (cmp_dir rev) l)). rewrite IH.
    cbn [filter]. assert (Hn : not_none x = negb (is_none x)) by reflexivity. rewrite Hn.
    destruct (is_none x) eqn:Hx; cbn [negb].
    - apply insert_null_split; [exact Hx| |apply filter_is_none_all_null].
      apply isort_all_valid. apply filter_not_none_all_valid.
    - change (isort (cmp_dir rev) (x :: filter not_none l))
        with (insert (cmp_dir rev) x (isort (cmp_dir rev) (filter not_none l))).
      apply insert_valid_split; [exact Hx|apply filter_is_none_all_null].
  Qed.

  (* ---- null insertion ------------------------------------------------------------------------------------ *)
  Lemma filter_valid_insert xs ys : NullInsert xs ys -> filter not_none ys = filter not_none xs.
  Proof.
    induction 1 as [|x xs ys _ IH|v xs ys Hv _ IH]; [reflexivity| |].
    - cbn [filter]. rewrite IH. reflexivity.
    - cbn [filter]. assert (Hn : not_none v = false) by (unfold not_none; rewrite Hv; reflexivity).
      rewrite Hn. exact IH.
  Qed.
  Lemma filter_null_insert_length xs ys :
    NullInsert xs ys -> (length (filter is_none xs) <= length (filter is_none ys))%nat.
  Proof.
    induction 1 as [|x xs ys _ IH|v xs ys Hv _ IH]; [apply le_n| |].
    - cbn [filter]. destruct (is_none x); cbn [length]; lia.
    - cbn [filter]. rewrite Hv. cbn [length]. lia.
  Qed.
  Lemma count_valid_insert xs ys : NullInsert xs ys -> count_valid ys = count_valid xs.
  Proof. intros H. unfold count_valid. rewrite (filter_valid_insert _ _ H). reflexivity. Qed.
  Lemma vfirst_insert xs ys : NullInsert xs ys -> vfirst ys = vfirst xs.
  Proof.
    unfold vfirst. induction 1 as [|x xs ys _ IH|v xs ys Hv _ IH]; [reflexivity| |].
    - cbn [find]. rewrite IH. reflexivity.
    - cbn [find]. assert (Hn : not_none v = false) by (unfold not_none; rewrite Hv; reflexivity).
      rewrite Hn. exact IH.
  Qed.

  (* the null-skipping folds see only the non-null elements *)
  Lemma vmax_filter l : vmax l = vmax (filter not_none l).
  Proof.
    unfold vmax. generalize (@None A) as acc. induction l as [|x l IH]; intros acc; [reflexivity|].
    cbn [fold_left filter]. destruct (not_none x) eqn:E; [cbn [fold_left]; rewrite E|]; apply IH.
  Qed.
  Lemma vmin_filter l : vmin l = vmin (filter not_none l).
  Proof.
    unfold vmin. generalize (@None A) as acc. induction l as [|x l IH]; intros acc; [reflexivity|].
    cbn [fold_left filter]. destruct (not_none x) eqn:E; [cbn [fold_left]; rewrite E|]; apply IH.
  Qed.

  Lemma tcast_null v : is_none v = true -> tcast v = nnan.
  Proof. intros H. unfold tcast. rewrite H. reflexivity. Qed.

  Lemma filter_valid_of_null Z : all_null Z -> filter not_none Z = [].
  Proof.
    induction 1 as [|z Z Hz _ IH]; [reflexivity|]. cbn [filter].
    assert (Hn : not_none z = false) by (unfold not_none; rewrite Hz; reflexivity). rewrite Hn. exact IH.
  Qed.

  Lemma all_null_firstn k Z : all_null Z -> all_null (firstn k Z).
  Proof.
    unfold all_null. rewrite !Forall_forall. intros H y Hy. apply H.
    rewrite <- (firstn_skipn k Z). apply in_or_app. left. exact Hy.
  Qed.

  Context {NF : NumFloor A}.

  (* select_nth on the series with nulls inserted: the same pivot (as a number) and a head with the same non-null
     elements, whenever the selection on the original series succeeds *)
  Lemma select_nth_insert rev j xs ys h m :
    NullInsert xs ys -> select_nth (cmp_dir rev) j xs = Ok (h, m) ->
    exists h' m', select_nth (cmp_dir rev) j ys = Ok (h', m') /\
                  filter not_none h' = filter not_none h /\ tcast m' = tcast m.
  Proof.
    intros HI. unfold select_nth. rewrite (isort_split rev xs), (isort_split rev ys).
    rewrite (filter_valid_insert _ _ HI).
    set (S0 := isort (cmp_dir rev) (filter not_none xs)).
    pose proof (filter_is_none_all_null xs) as HZx. pose proof (filter_is_none_all_null ys) as HZy.
    pose proof (filter_null_insert_length _ _ HI) as HL.
    set (Zx := filter is_none xs) in *. set (Zy := filter is_none ys) in *.
    rewrite !nth_error_app, !firstn_app.
    destruct (j <? length S0)%nat eqn:Ej.
    - apply Nat.ltb_lt in Ej. replace (j - length S0)%nat with 0%nat by lia. cbn [firstn]. rewrite !app_nil_r.
      destruct (nth_error S0 j) as [m0|]; [|discriminate]. intros E. injection E as <- <-.
      exists (firstn j S0), m0. repeat split; reflexivity.
    - apply Nat.ltb_ge in Ej. rewrite (firstn_all2 (n := j) S0) by exact Ej.
      destruct (nth_error Zx (j - length S0)) as [mx|] eqn:Ex; [|discriminate]. intros E. injection E as <- <-.
      assert (Hlt : (j - length S0 < length Zy)%nat).
      { assert (j - length S0 < length Zx)%nat by (apply nth_error_Some; rewrite Ex; discriminate). lia. }
      destruct (nth_error Zy (j - length S0)) as [my|] eqn:Ey; [|apply nth_error_None in Ey; lia].
      exists (S0 ++ firstn (j - length S0) Zy), my. split; [reflexivity|]. split.
      + rewrite !filter_app. rewrite (filter_valid_of_null _ (all_null_firstn _ _ HZx)).
        rewrite (filter_valid_of_null _ (all_null_firstn _ _ HZy)). reflexivity.
      + rewrite !tcast_null; [reflexivity| |].
        * unfold all_null in HZx. rewrite Forall_forall in HZx. apply HZx. eapply nth_error_In; exact Ex.
        * unfold all_null in HZy. rewrite Forall_forall in HZy. apply HZy. eapply nth_error_In; exact Ey.
  Qed.

  (* (1) every carrier, every q (in range, out of range, NaN), every method, every insertion pattern *)
  Theorem vquantile_insert_ok (q : A) (mth : qmethod) xs ys r :
    NullInsert xs ys -> vquantile q mth xs = Ok r -> vquantile q mth ys = Ok r.
  Proof.
    intros HI. unfold vquantile. rewrite (count_valid_insert _ _ HI), (vfirst_insert _ _ HI).
    destruct (negb (nleb nzero q && nleb q none)); [exact (fun H => H)|].
    destruct (count_valid xs =? 0)%nat; [exact (fun H => H)|].
    destruct (count_valid xs =? 1)%nat; [exact (fun H => H)|].
    destruct (nleb q nhalf).
    - set (j := Z.to_nat (nceilZ (nmul (nofnat (count_valid xs - 1)) q))).
      change (@sort_cmp A NA T DT) with (cmp_dir (DT := DT) false).
      destruct (select_nth (cmp_dir false) j xs) as [[h m]|k] eqn:E; cbn [bind]; [|discriminate].
      destruct (select_nth_insert false j xs ys h m HI E) as (h' & m' & E' & Hh & Hm).
      rewrite E'. cbn [bind]. rewrite (vmax_filter h'), Hh, <- (vmax_filter h), Hm. exact (fun H => H).
    - set (j := Z.to_nat (nceilZ (nmul (nofnat (count_valid xs - 1)) (nsub none q)))).
      change (@sort_cmp_rev A NA T DT) with (cmp_dir (DT := DT) true).
      destruct (select_nth (cmp_dir true) j xs) as [[h m]|k] eqn:E; cbn [bind]; [|discriminate].
      destruct (select_nth_insert true j xs ys h m HI E) as (h' & m' & E' & Hh & Hm).
      rewrite E'. cbn [bind]. rewrite (vmin_filter h'), Hh, <- (vmin_filter h), Hm. exact (fun H => H).
  Qed.

  Theorem vmedian_insert_ok xs ys r :
    NullInsert xs ys -> vmedian xs = Ok r -> vmedian ys = Ok r.
  Proof.
    intros HI. unfold vmedian. destruct (vquantile nhalf Linear xs) as [r0|k] eqn:E; cbn [bind]; [|discriminate].
    rewrite (vquantile_insert_ok _ _ _ _ _ HI E). cbn [bind]. exact (fun H => H).
  Qed.

  (* (2) the index handed to select_nth_unstable_by: j = ceil((n-1) q), resp. ceil((n-1) (1-q)) on the mirrored branch *)
  Definition qsel_index (q : A) (n : nat) : nat :=
    if nleb q nhalf then Z.to_nat (nceilZ (nmul (nofnat (n - 1)) q))
    else Z.to_nat (nceilZ (nmul (nofnat (n - 1)) (nsub none q))).

  Lemma count_valid_le_length xs : (count_valid xs <= length xs)%nat.
  Proof.
    unfold count_valid. induction xs as [|x xs IH]; [apply le_n|]. cbn [filter].
    destruct (not_none x); cbn [length]; lia.
  Qed.

  Lemma vfirst_some_of_valid xs : (0 < count_valid xs)%nat -> exists v, vfirst xs = Some v.
  Proof.
    unfold count_valid, vfirst. induction xs as [|x xs IH]; cbn [filter find length]; [lia|].
    destruct (not_none x); [intros _; exists x; reflexivity|exact IH].
  Qed.

  (* the carrier's index law: for q in [0, 1] and n >= 2 valid elements the selected index is below n
     (ceil((n-1) q) <= n-1).  True at option R (Proofs/TransRank.v) and at binary64 (monotone rounding). *)
  Definition QIdxLaw : Prop :=
    forall (q : A) (n : nat), nleb nzero q && nleb q none = true -> (2 <= n)%nat -> (qsel_index q n < n)%nat.
  Definition q_idx_ok (q : A) (n : nat) : Prop :=
    nleb nzero q && nleb q none = true -> (2 <= n)%nat -> (qsel_index q n < n)%nat.

  Lemma vquantile_ok_in_range (q : A) (mth : qmethod) xs :
    q_idx_ok q (count_valid xs) -> exists r, vquantile q mth xs = Ok r.
  Proof.
    intros Hj. unfold vquantile. unfold q_idx_ok, qsel_index in Hj.
    destruct (nleb nzero q && nleb q none); cbn [negb]; [|eexists; reflexivity].
    destruct (count_valid xs =? 0)%nat eqn:E0; [eexists; reflexivity|].
    destruct (count_valid xs =? 1)%nat eqn:E1.
    { apply Nat.eqb_eq in E1. destruct (vfirst_some_of_valid xs) as [v Hv]; [lia|]. rewrite Hv. eexists; reflexivity. }
    apply Nat.eqb_neq in E0. apply Nat.eqb_neq in E1. specialize (Hj eq_refl ltac:(lia)).
    pose proof (count_valid_le_length xs) as HL.
    destruct (nleb q nhalf).
    - set (j := Z.to_nat (nceilZ (nmul (nofnat (count_valid xs - 1)) q))) in *.
      unfold select_nth. destruct (nth_error (isort sort_cmp xs) j) as [m|] eqn:E.
      + cbn [bind]. destruct (negb _); eexists; reflexivity.
      + apply nth_error_None in E. rewrite isort_length in E. lia.
    - set (j := Z.to_nat (nceilZ (nmul (nofnat (count_valid xs - 1)) (nsub none q)))) in *.
      unfold select_nth. destruct (nth_error (isort sort_cmp_rev xs) j) as [m|] eqn:E.
      + cbn [bind]. destruct (negb _); eexists; reflexivity.
      + apply nth_error_None in E. rewrite isort_length in E. lia.
  Qed.

  Theorem vquantile_insert_in_range (q : A) (mth : qmethod) xs ys :
    NullInsert xs ys -> q_idx_ok q (count_valid xs) -> vquantile q mth ys = vquantile q mth xs.
  Proof.
    intros HI Hj. destruct (vquantile_ok_in_range q mth xs Hj) as [r Hr].
    rewrite Hr. apply (vquantile_insert_ok _ _ _ _ _ HI Hr).
  Qed.

  Theorem vmedian_insert_in_range xs ys :
    NullInsert xs ys -> q_idx_ok nhalf (count_valid xs) -> vmedian ys = vmedian xs.
  Proof. intros HI Hj. unfold vmedian. rewrite (vquantile_insert_in_range _ _ _ _ HI Hj). reflexivity. Qed.

  (* for a carrier satisfying the index law: outright equality, every q, every method *)
  Theorem vquantile_insert_law : QIdxLaw -> forall (q : A) (mth : qmethod) xs ys,
    NullInsert xs ys -> vquantile q mth ys = vquantile q mth xs /\ vmedian ys = vmedian xs.
  Proof.
    intros HL q mth xs ys HI. split.
    - apply vquantile_insert_in_range; [exact HI|]. intros H1 H2. apply HL; assumption.
    - apply vmedian_insert_in_range; [exact HI|]. intros H1 H2. apply HL; assumption.
  Qed.
End NullSort.
