(* Proofs/Audit14.v — audit of property C14: the theorems of Proofs/Binning.v / Proofs/Unique.v restated and proved
   for EVERY carrier the code is generic over.
     Part 1 (vcut): the model `cut1`/`vcut` of Model/Binning.v is generic in the element type A and its `<`, `<=`.
       Here the specification is generic too (extended carrier `gext` = -inf | a | +inf, interval membership written
       with the carrier's own comparisons), the first-match / Err / label-provenance / bound-independence theorems
       need NO order law at all, uniqueness of the enclosing interval and totality with open bounds need the laws
       of a strict weak order on the non-null elements (`CutLaws`), which hold at Z (i32 / i64 / u64 / usize) and at
       binary64 (f64, and f32 whose values are binary64 values) — instances at the end.
     Part 2 (vsorted_unique_idx / vsorted_unique): generic in A and its `==`; positional characterisations for
       ARBITRARY series (nulls anywhere) under the laws of a partial equivalence on the non-null elements
       (`EqLaws`), law-free range / non-null / ascending facts about the reported indices.
   Stdlib only; axiom-free except the binary64 instances (FloatAxioms through Proofs/CmpOrdFloat.v).          *)
From Coq Require Import ZArith List Lia Bool Sorted.
From Tevec Require Import Base.Prelude Model.Binning Proofs.Binning Proofs.Unique.
Import ListNotations.

(* ================================================================================================== *)
(* Part 1: vcut                                                                                         *)

Section GenCut.
  Context {A : Type}.
  Variables ltb leb : A -> A -> bool.

  (* the carrier extended by the two infinities that `add_bounds` stands for *)
  Inductive gext := GNeg | GFin (a : A) | GPos.

  Definition gext_edges (ab : bool) (edges : list A) : list gext :=
    if ab then GNeg :: map GFin edges ++ [GPos] else map GFin edges.

  (* v lies above the lower edge / below the upper edge of an interval, right- or left-closed *)
  Definition above (right : bool) (lo : gext) (v : A) : bool :=
    match lo with GNeg => true | GFin a => if right then ltb a v else leb a v | GPos => false end.
  Definition below (right : bool) (hi : gext) (v : A) : bool :=
    match hi with GPos => true | GFin b => if right then leb v b else ltb v b | GNeg => false end.

  (* interval number j (between edge j and edge j+1 of the extended edge sequence) contains v *)
  Definition gcontains (right ab : bool) (edges : list A) (j : nat) (v : A) : Prop :=
    exists lo hi, nth_error (gext_edges ab edges) j = Some lo
               /\ nth_error (gext_edges ab edges) (S j) = Some hi
               /\ above right lo v = true /\ below right hi v = true.

  (* ---- positions --------------------------------------------------------------------------------- *)
  Lemma g_mat_bins_nth (tmin tmax : A) (ab : bool) (edges : list A) k :
    nth_error (mat_bins tmin tmax ab edges) k =
    if ab then
      if (k =? 0)%nat then Some tmin
      else if (k <=? length edges)%nat then nth_error edges (k - 1)
      else if (k =? S (length edges))%nat then Some tmax else None
    else nth_error edges k.
  Proof.
    unfold mat_bins. destruct ab; [|reflexivity].
    destruct k as [|k]; [reflexivity|].
    cbn [nth_error Nat.eqb]. rewrite Nat.sub_succ, Nat.sub_0_r.
    rewrite Prelude.nth_error_app.
    destruct (k <? length edges)%nat eqn:E.
    - apply Nat.ltb_lt in E. replace (S k <=? length edges)%nat with true by (symmetry; apply Nat.leb_le; lia).
      reflexivity.
    - apply Nat.ltb_ge in E. replace (S k <=? length edges)%nat with false by (symmetry; apply Nat.leb_gt; lia).
      destruct (k =? length edges)%nat eqn:E2.
      + apply Nat.eqb_eq in E2. replace (k - length edges)%nat with 0%nat by lia. reflexivity.
      + apply Nat.eqb_neq in E2. destruct (k - length edges)%nat as [|d] eqn:Ed; [lia|].
        cbn. destruct d; reflexivity.
  Qed.

  Lemma gext_edges_nth (ab : bool) (edges : list A) k :
    nth_error (gext_edges ab edges) k =
    if ab then
      if (k =? 0)%nat then Some GNeg
      else if (k <=? length edges)%nat then option_map GFin (nth_error edges (k - 1))
      else if (k =? S (length edges))%nat then Some GPos else None
    else option_map GFin (nth_error edges k).
  Proof.
    unfold gext_edges. destruct ab; [|apply nth_error_map].
    destruct k as [|k]; [reflexivity|].
    cbn [nth_error Nat.eqb]. rewrite Nat.sub_succ, Nat.sub_0_r.
    rewrite Prelude.nth_error_app, map_length.
    destruct (k <? length edges)%nat eqn:E.
    - apply Nat.ltb_lt in E. replace (S k <=? length edges)%nat with true by (symmetry; apply Nat.leb_le; lia).
      apply nth_error_map.
    - apply Nat.ltb_ge in E. replace (S k <=? length edges)%nat with false by (symmetry; apply Nat.leb_gt; lia).
      destruct (k =? length edges)%nat eqn:E2.
      + apply Nat.eqb_eq in E2. replace (k - length edges)%nat with 0%nat by lia. reflexivity.
      + apply Nat.eqb_neq in E2. destruct (k - length edges)%nat as [|d] eqn:Ed; [lia|].
        cbn. destruct d; reflexivity.
  Qed.

  Lemma gext_edges_length ab edges :
    length (gext_edges ab edges) = if ab then (length edges + 2)%nat else length edges.
  Proof.
    unfold gext_edges. destruct ab; [|apply map_length].
    cbn [length]. rewrite app_length, map_length. cbn. lia.
  Qed.

  Lemma g_mat_bins_length (tmin tmax : A) ab (edges : list A) :
    length (mat_bins tmin tmax ab edges) = if ab then (length edges + 2)%nat else length edges.
  Proof.
    unfold mat_bins. destruct ab; [|reflexivity].
    cbn [length]. rewrite app_length. cbn. lia.
  Qed.

  (* ---- the scan: first match ----------------------------------------------------------------------- *)
  Lemma g_scan_some {L} right ab nlab v (ws : list ((A * A) * L)) : forall i lab,
    scan ltb leb right ab nlab v i ws = Some lab ->
    exists k w, nth_error ws k = Some (w, lab) /\ bin_test ltb leb right ab nlab (i + k) w v = true
                /\ forall k' w' lab', (k' < k)%nat -> nth_error ws k' = Some (w', lab') ->
                                      bin_test ltb leb right ab nlab (i + k') w' v = false.
  Proof.
    induction ws as [|[w l0] r IH]; intros i lab H; [discriminate|].
    cbn [scan] in H.
    destruct (bin_test ltb leb right ab nlab i w v) eqn:E.
    - injection H as <-. exists 0%nat, w. rewrite Nat.add_0_r. repeat split; [exact E|].
      intros k' w' lab' Hk. lia.
    - destruct (IH _ _ H) as (k & w1 & Hn & Ht & Hmin).
      exists (S k), w1. replace (i + S k)%nat with (S i + k)%nat by lia. repeat split; [exact Hn|exact Ht|].
      intros [|k'] w' lab' Hk Hn'.
      + cbn in Hn'. injection Hn' as <- <-. rewrite Nat.add_0_r. exact E.
      + replace (i + S k')%nat with (S i + k')%nat by lia. apply (Hmin k' w' lab'); [lia|exact Hn'].
  Qed.

  Lemma g_scan_none {L} right ab nlab v (ws : list ((A * A) * L)) : forall i,
    scan ltb leb right ab nlab v i ws = None ->
    forall k w lab, nth_error ws k = Some (w, lab) -> bin_test ltb leb right ab nlab (i + k) w v = false.
  Proof.
    induction ws as [|[w l0] r IH]; intros i H k w1 lab Hn; [destruct k; discriminate|].
    cbn [scan] in H.
    destruct (bin_test ltb leb right ab nlab i w v) eqn:E; [discriminate|].
    destruct k as [|k].
    - cbn in Hn. injection Hn as <- <-. rewrite Nat.add_0_r. exact E.
    - replace (i + S k)%nat with (S i + k)%nat by lia. apply (IH _ H k w1 lab). exact Hn.
  Qed.

  (* ---- the test at position k = membership in interval k of the extended edges ------------------------ *)
  Lemma g_count_ok_true {L} ab (edges : list A) (labels : list L) :
    count_ok ab edges labels = true ->
    if ab then length labels = (length edges + 1)%nat else (length labels + 1)%nat = length edges.
  Proof. unfold count_ok. destruct ab; intros H; apply Nat.eqb_eq in H; exact H. Qed.

  Lemma g_ws_nth {L} (tmin tmax : A) ab (edges : list A) (labels : list L) k w lab :
    nth_error (combine (windows (mat_bins tmin tmax ab edges)) labels) k = Some (w, lab) ->
    nth_error (mat_bins tmin tmax ab edges) k = Some (fst w)
    /\ nth_error (mat_bins tmin tmax ab edges) (S k) = Some (snd w)
    /\ nth_error labels k = Some lab.
  Proof.
    rewrite nth_error_combine, nth_error_windows.
    destruct (nth_error (mat_bins tmin tmax ab edges) k) as [lo|]; [|discriminate].
    destruct (nth_error (mat_bins tmin tmax ab edges) (S k)) as [hi|]; [|discriminate].
    destruct (nth_error labels k) as [l|]; [|discriminate].
    intros H. injection H as <- <-. auto.
  Qed.

  Lemma g_ws_nth_inv {L} (tmin tmax : A) ab (edges : list A) (labels : list L) k lo hi lab :
    nth_error (mat_bins tmin tmax ab edges) k = Some lo ->
    nth_error (mat_bins tmin tmax ab edges) (S k) = Some hi ->
    nth_error labels k = Some lab ->
    nth_error (combine (windows (mat_bins tmin tmax ab edges)) labels) k = Some ((lo, hi), lab).
  Proof.
    intros H1 H2 H3. rewrite nth_error_combine, nth_error_windows, H1, H2, H3. reflexivity.
  Qed.

  Lemma g_test_contains {L} (tmin tmax : A) right ab (edges : list A) (labels : list L) k lo hi v :
    count_ok ab edges labels = true ->
    (k < length labels)%nat ->
    nth_error (mat_bins tmin tmax ab edges) k = Some lo ->
    nth_error (mat_bins tmin tmax ab edges) (S k) = Some hi ->
    (bin_test ltb leb right ab (length labels) k (lo, hi) v = true <-> gcontains right ab edges k v).
  Proof.
    intros Hc Hk Hlo Hhi. apply g_count_ok_true in Hc.
    unfold gcontains. rewrite !gext_edges_nth. rewrite g_mat_bins_nth in Hlo, Hhi.
    unfold bin_test. cbn [fst snd].
    destruct ab.
    - rewrite Hc in *.
      replace (length edges + 1)%nat with (S (length edges)) in * by lia.
      change (S k =? S (length edges))%nat with (k =? length edges)%nat in *.
      change (S k =? 0)%nat with false in *.
      rewrite Nat.sub_succ, Nat.sub_0_r in *.
      replace (k <=? length edges)%nat with true in * by (symmetry; apply Nat.leb_le; lia).
      destruct (Nat.eqb_spec k 0) as [K0|K0]; destruct (Nat.leb_spec (S k) (length edges)) as [K1|K1];
        [ replace (k =? length edges)%nat with false in * by (symmetry; apply Nat.eqb_neq; lia)
        | replace (k =? length edges)%nat with true in * by (symmetry; apply Nat.eqb_eq; lia)
        | replace (k =? length edges)%nat with false in * by (symmetry; apply Nat.eqb_neq; lia)
        | replace (k =? length edges)%nat with true in * by (symmetry; apply Nat.eqb_eq; lia) ];
        cbn [andb orb]; try rewrite Hlo; try rewrite Hhi; cbn [option_map];
        (split;
         [ intros H; do 2 eexists; split; [reflexivity|split; [reflexivity|]];
           cbn [above below]; destruct right; rewrite ?andb_true_iff in H; intuition
         | intros (lo' & hi' & E1 & E2 & H1 & H2); injection E1 as <-; injection E2 as <-;
           cbn [above below] in H1, H2; destruct right; rewrite ?andb_true_iff; intuition ]).
    - cbn [andb orb]. rewrite Hlo, Hhi. cbn [option_map]. split.
      + intros H. exists (GFin lo), (GFin hi). cbn [above below].
        destruct right; rewrite andb_true_iff in H; intuition.
      + intros (lo' & hi' & E1 & E2 & H1 & H2). injection E1 as <-. injection E2 as <-.
        cbn [above below] in H1, H2. destruct right; rewrite andb_true_iff; intuition.
  Qed.

  Lemma gcontains_in_range {L} right ab (edges : list A) (labels : list L) j v :
    count_ok ab edges labels = true -> gcontains right ab edges j v -> (j < length labels)%nat.
  Proof.
    intros Hc (lo & hi & _ & H2 & _). apply g_count_ok_true in Hc.
    assert (Hl : (S j < length (gext_edges ab edges))%nat) by (apply nth_error_Some; congruence).
    rewrite gext_edges_length in Hl. destruct ab; lia.
  Qed.

  Lemma g_in_range_ws {L} (tmin tmax : A) ab (edges : list A) (labels : list L) j :
    count_ok ab edges labels = true -> (j < length labels)%nat ->
    exists lo hi lab, nth_error (mat_bins tmin tmax ab edges) j = Some lo
                   /\ nth_error (mat_bins tmin tmax ab edges) (S j) = Some hi
                   /\ nth_error labels j = Some lab.
  Proof.
    intros Hc Hj. apply g_count_ok_true in Hc.
    assert (H1 : (j < length (mat_bins tmin tmax ab edges))%nat) by (rewrite g_mat_bins_length; destruct ab; lia).
    assert (H2 : (S j < length (mat_bins tmin tmax ab edges))%nat) by (rewrite g_mat_bins_length; destruct ab; lia).
    apply nth_error_Some in H1, H2, Hj.
    destruct (nth_error (mat_bins tmin tmax ab edges) j) as [lo|]; [|congruence].
    destruct (nth_error (mat_bins tmin tmax ab edges) (S j)) as [hi|]; [|congruence].
    destruct (nth_error labels j) as [lab|]; [|congruence].
    exists lo, hi, lab. auto.
  Qed.

  (* ---- the element closure: no order law needed ------------------------------------------------------- *)
  Lemma g_cut1_some_inv {L} (tmin tmax : A) right ab (edges : list A) (labels : list L) v l :
    count_ok ab edges labels = true ->
    cut1 ltb leb tmin tmax right ab edges labels (Some v) = Lab l ->
    exists j, gcontains right ab edges j v /\ nth_error labels j = Some l
              /\ forall j', (j' < j)%nat -> ~ gcontains right ab edges j' v.
  Proof.
    intros Hc H. unfold cut1 in H.
    destruct (scan ltb leb right ab (length labels) v 0 _) as [lab|] eqn:E; [|discriminate].
    injection H as ->.
    destruct (g_scan_some _ _ _ _ _ _ _ E) as (k & [lo hi] & Hn & Ht & Hmin). cbn [plus] in Ht.
    destruct (g_ws_nth _ _ _ _ _ _ _ _ Hn) as (Hlo & Hhi & Hlab). cbn [fst snd] in Hlo, Hhi.
    assert (Hk : (k < length labels)%nat) by (apply nth_error_Some; congruence).
    exists k. split; [|split; [exact Hlab|]].
    - apply (g_test_contains tmin tmax right ab edges labels k lo hi v Hc Hk Hlo Hhi). exact Ht.
    - intros j' Hj' Hcj'.
      assert (Hr : (j' < length labels)%nat) by lia.
      destruct (g_in_range_ws tmin tmax ab edges labels _ Hc Hr) as (lo' & hi' & lab' & H1 & H2 & H3).
      pose proof (g_ws_nth_inv _ _ _ _ _ _ _ _ _ H1 H2 H3) as Hw.
      specialize (Hmin j' (lo', hi') lab' Hj' Hw). cbn [plus] in Hmin.
      apply (g_test_contains tmin tmax right ab edges labels j' lo' hi' v Hc Hr H1 H2) in Hcj'.
      congruence.
  Qed.

  Lemma g_cut1_err_inv {L} (tmin tmax : A) right ab (edges : list A) (labels : list L) v :
    count_ok ab edges labels = true ->
    cut1 ltb leb tmin tmax right ab edges labels (Some v) = ErrItem ->
    forall j, ~ gcontains right ab edges j v.
  Proof.
    intros Hc H j Hcj. unfold cut1 in H.
    destruct (scan ltb leb right ab (length labels) v 0 _) as [lab|] eqn:E; [discriminate|].
    pose proof (gcontains_in_range _ _ _ labels _ _ Hc Hcj) as Hr.
    destruct (g_in_range_ws tmin tmax ab edges labels _ Hc Hr) as (lo & hi & lab & H1 & H2 & H3).
    pose proof (g_ws_nth_inv _ _ _ _ _ _ _ _ _ H1 H2 H3) as Hw.
    pose proof (g_scan_none _ _ _ _ _ _ E _ _ _ Hw) as Hf. cbn [plus] in Hf.
    apply (g_test_contains tmin tmax right ab edges labels j lo hi v Hc Hr H1 H2) in Hcj.
    congruence.
  Qed.

  Lemma g_cut1_cases {L} (tmin tmax : A) right ab (edges : list A) (labels : list L) v :
    (exists l, cut1 ltb leb tmin tmax right ab edges labels (Some v) = Lab l)
    \/ cut1 ltb leb tmin tmax right ab edges labels (Some v) = ErrItem.
  Proof.
    unfold cut1. destruct (scan _ _ _ _ _ _ _ _); [left; eauto|right; reflexivity].
  Qed.

  (* first match wins — any carrier, any comparison functions, any (unsorted, repeated, NaN) edges *)
  Theorem g_cut1_first_match {L} (tmin tmax : A) right ab (edges : list A) (labels : list L) v l :
    count_ok ab edges labels = true ->
    (cut1 ltb leb tmin tmax right ab edges labels (Some v) = Lab l
     <-> exists j, gcontains right ab edges j v /\ nth_error labels j = Some l
                   /\ forall j', (j' < j)%nat -> ~ gcontains right ab edges j' v).
  Proof.
    intros Hc. split; [apply g_cut1_some_inv; exact Hc|].
    intros (j & Hj & Hl & Hmin).
    destruct (g_cut1_cases tmin tmax right ab edges labels v) as [[l' H]|H].
    - destruct (g_cut1_some_inv _ _ _ _ _ _ _ _ Hc H) as (k & H1 & H2 & Hmin').
      destruct (Nat.lt_trichotomy k j) as [Hlt|[->|Hlt]].
      + exfalso. exact (Hmin k Hlt H1).
      + rewrite H. congruence.
      + exfalso. exact (Hmin' j Hlt Hj).
    - exfalso. exact (g_cut1_err_inv _ _ _ _ _ _ _ Hc H _ Hj).
  Qed.

  Theorem g_cut1_err_iff {L} (tmin tmax : A) right ab (edges : list A) (labels : list L) v :
    count_ok ab edges labels = true ->
    (cut1 ltb leb tmin tmax right ab edges labels (Some v) = ErrItem <-> forall j, ~ gcontains right ab edges j v).
  Proof.
    intros Hc. split; [apply g_cut1_err_inv; exact Hc|].
    intros Hno. destruct (g_cut1_cases tmin tmax right ab edges labels v) as [[l H]|H]; [|exact H].
    destruct (g_cut1_some_inv _ _ _ _ _ _ _ _ Hc H) as (j & H1 & _). exfalso. exact (Hno j H1).
  Qed.

  (* what must NOT happen: a label that is not one of the given labels; a dependence on the materialised
     T::MIN / T::MAX; a change of the length or of the positions *)
  Theorem g_cut1_label_from_labels {L} (tmin tmax : A) right ab (edges : list A) (labels : list L) x l :
    cut1 ltb leb tmin tmax right ab edges labels x = Lab l -> In l labels.
  Proof.
    destruct x as [v|]; [|discriminate]. unfold cut1.
    destruct (scan ltb leb right ab (length labels) v 0 _) as [lab|] eqn:E; [|discriminate].
    intros H. injection H as <-.
    destruct (g_scan_some _ _ _ _ _ _ _ E) as (k & w & Hn & _).
    rewrite nth_error_combine in Hn.
    destruct (nth_error (windows _) k); [|discriminate].
    destruct (nth_error labels k) as [l'|] eqn:El; [|discriminate].
    injection Hn as _ <-. eapply nth_error_In. exact El.
  Qed.

  Theorem g_cut1_bounds_irrelevant {L} (tmin tmax tmin' tmax' : A) right ab (edges : list A) (labels : list L) x :
    count_ok ab edges labels = true ->
    cut1 ltb leb tmin tmax right ab edges labels x = cut1 ltb leb tmin' tmax' right ab edges labels x.
  Proof.
    intros Hc. destruct x as [v|]; [|reflexivity].
    destruct (g_cut1_cases tmin tmax right ab edges labels v) as [[l H]|H]; rewrite H; symmetry.
    - apply (g_cut1_first_match tmin' tmax' right ab edges labels v l Hc).
      apply (g_cut1_first_match tmin tmax right ab edges labels v l Hc). exact H.
    - apply (g_cut1_err_iff tmin' tmax' right ab edges labels v Hc).
      apply (g_cut1_err_iff tmin tmax right ab edges labels v Hc). exact H.
  Qed.

  Theorem g_vcut_shape {L} (tmin tmax : A) right ab (edges : list A) (labels : list L) xs :
    (vcut ltb leb tmin tmax right ab edges labels xs = None <-> count_ok ab edges labels = false) /\
    (forall its, vcut ltb leb tmin tmax right ab edges labels xs = Some its ->
       length its = length xs /\
       forall i, nth_error its i = option_map (cut1 ltb leb tmin tmax right ab edges labels) (nth_error xs i)) /\
    (forall its i, vcut ltb leb tmin tmax right ab edges labels xs = Some its ->
       (nth_error its i = Some NullLab <-> nth_error xs i = Some None)).
  Proof.
    unfold vcut. destruct (count_ok ab edges labels).
    - split; [split; discriminate|]. split.
      + intros its H. injection H as <-. split; [apply map_length|]. intros i. apply nth_error_map.
      + intros its i H. injection H as <-. rewrite nth_error_map.
        destruct (nth_error xs i) as [[v|]|]; cbn [option_map]; split; intros H; try discriminate; try reflexivity.
        exfalso. injection H as H. destruct (scan ltb leb right ab (length labels) v 0 _); discriminate.
    - split; [split; reflexivity|]. split; intros; discriminate.
  Qed.

  (* ---- with the laws of a strict weak order on the non-null elements ----------------------------------- *)
  Variable ok : A -> Prop.

  Record CutLaws : Prop := {
    cl_asym : forall a b, ok a -> ok b -> ltb a b = true -> ltb b a = false;
    cl_cotrans : forall a b c, ok a -> ok b -> ok c -> ltb a b = true -> ltb a c = true \/ ltb c b = true;
    cl_leb : forall a b, ok a -> ok b -> leb a b = negb (ltb b a);
  }.
  Hypothesis CL : CutLaws.

  Lemma cl_trans a b c : ok a -> ok b -> ok c -> ltb a b = true -> ltb b c = true -> ltb a c = true.
  Proof.
    intros Ha Hb Hc H1 H2. destruct (cl_cotrans CL a b c Ha Hb Hc H1) as [H|H]; [exact H|].
    rewrite (cl_asym CL b c Hb Hc H2) in H. discriminate.
  Qed.

  (* strictly ascending edges, in the carrier's own `<` *)
  Fixpoint gascending (l : list A) : Prop :=
    match l with
    | a :: (b :: _) as r => ltb a b = true /\ gascending r
    | _ => True
    end.

  Lemma gascending_tail a l : gascending (a :: l) -> gascending l.
  Proof. destruct l as [|b r]; [intros; exact I|]. intros [_ H]. exact H. Qed.

  Lemma gascending_head_lt a l : Forall ok (a :: l) -> gascending (a :: l) -> forall b, In b l -> ltb a b = true.
  Proof.
    revert a; induction l as [|c l IH]; intros a Hok H b Hb; [destruct Hb|].
    cbn in H. destruct H as [Hac Hl]. destruct Hb as [<-|Hb]; [exact Hac|].
    inversion Hok as [|? ? Oa Hok']; subst. inversion Hok' as [|? ? Oc Hok'']; subst.
    specialize (IH c Hok' Hl b Hb).
    apply (cl_trans a c b); try assumption. rewrite Forall_forall in Hok''. apply Hok''. exact Hb.
  Qed.

  Lemma gascending_nth l : Forall ok l -> gascending l -> forall i j a b, (i < j)%nat ->
    nth_error l i = Some a -> nth_error l j = Some b -> ltb a b = true.
  Proof.
    induction l as [|c l IH]; intros Hok H i j a b Hij Hi Hj; [destruct i; discriminate|].
    destruct j as [|j]; [lia|]. cbn in Hj.
    destruct i as [|i].
    - cbn in Hi. injection Hi as <-. eapply gascending_head_lt; [exact Hok|exact H|].
      eapply nth_error_In; eassumption.
    - cbn in Hi. inversion Hok; subst.
      apply (IH ltac:(assumption) (gascending_tail _ _ H) i j); [lia|assumption|assumption].
  Qed.

  (* order of two positions of the extended edge sequence *)
  Definition gxlt (x y : gext) : Prop :=
    match x, y with
    | GNeg, GNeg => False
    | GNeg, _ => True
    | GFin a, GFin b => ltb a b = true
    | GFin _, GPos => True
    | _, _ => False
    end.

  Lemma gext_edges_ascending ab edges : Forall ok edges -> gascending edges -> forall i j x y, (i < j)%nat ->
    nth_error (gext_edges ab edges) i = Some x -> nth_error (gext_edges ab edges) j = Some y -> gxlt x y.
  Proof.
    intros Hok Ha i j x y Hij. rewrite !gext_edges_nth. destruct ab.
    - destruct (i =? 0)%nat eqn:I0.
      + intros Hx. injection Hx as <-.
        replace (j =? 0)%nat with false by (symmetry; apply Nat.eqb_neq; lia).
        destruct (j <=? length edges)%nat.
        * destruct (nth_error edges (j - 1)); [|discriminate]. intros Hy. injection Hy as <-. exact I.
        * destruct (j =? S (length edges))%nat; [|discriminate]. intros Hy. injection Hy as <-. exact I.
      + apply Nat.eqb_neq in I0.
        replace (j =? 0)%nat with false by (symmetry; apply Nat.eqb_neq; lia).
        destruct (i <=? length edges)%nat eqn:I1.
        * destruct (nth_error edges (i - 1)) as [a|] eqn:Ea; [|discriminate]. intros Hx. injection Hx as <-.
          destruct (j <=? length edges)%nat.
          -- destruct (nth_error edges (j - 1)) as [b|] eqn:Eb; [|discriminate]. intros Hy. injection Hy as <-.
             cbn. apply (gascending_nth _ Hok Ha (i - 1)%nat (j - 1)%nat); [lia|assumption|assumption].
          -- destruct (j =? S (length edges))%nat; [|discriminate]. intros Hy. injection Hy as <-. exact I.
        * apply Nat.leb_gt in I1.
          destruct (i =? S (length edges))%nat eqn:I2; [|discriminate]. apply Nat.eqb_eq in I2.
          intros _.
          replace (j <=? length edges)%nat with false by (symmetry; apply Nat.leb_gt; lia).
          replace (j =? S (length edges))%nat with false by (symmetry; apply Nat.eqb_neq; lia).
          discriminate.
    - destruct (nth_error edges i) as [a|] eqn:Ea; [|discriminate]. intros Hx. injection Hx as <-.
      destruct (nth_error edges j) as [b|] eqn:Eb; [|discriminate]. intros Hy. injection Hy as <-.
      cbn. apply (gascending_nth _ Hok Ha i j); assumption.
  Qed.

  Lemma gext_ok ab edges k a : Forall ok edges -> nth_error (gext_edges ab edges) k = Some (GFin a) -> ok a.
  Proof.
    intros Hok H. assert (Hin : In (GFin a) (gext_edges ab edges)) by (eapply nth_error_In; exact H).
    unfold gext_edges in Hin. rewrite Forall_forall in Hok.
    destruct ab; cbn in Hin; rewrite ?in_app_iff, ?in_map_iff in Hin.
    - destruct Hin as [Hin|[(b & E & Hb)|[Hin|[]]]]; try discriminate. injection E as <-. apply Hok. exact Hb.
    - destruct Hin as (b & E & Hb). injection E as <-. apply Hok. exact Hb.
  Qed.

  (* uniqueness of the enclosing interval *)
  Lemma gcontains_lt_absurd right ab edges j j' v :
    Forall ok edges -> ok v -> gascending edges -> (j < j')%nat ->
    gcontains right ab edges j v -> gcontains right ab edges j' v -> False.
  Proof.
    intros Hok Hv Ha Hjj (lo & hi & _ & Hhi & _ & Hb) (lo' & hi' & Hlo' & _ & Ha' & _).
    assert (Hle : hi = lo' \/ gxlt hi lo').
    { destruct (Nat.eq_dec (S j) j') as [E|E].
      - subst j'. rewrite Hhi in Hlo'. injection Hlo' as <-. left. reflexivity.
      - right. apply (gext_edges_ascending ab edges Hok Ha (S j) j'); [lia|assumption|assumption]. }
    destruct hi as [|h|]; [discriminate Hb| |].
    2:{ destruct Hle as [<-|Hle]; [discriminate Ha'|destruct lo'; exact Hle]. }
    destruct lo' as [|l|]; [|  |discriminate Ha'].
    1:{ destruct Hle as [E|Hle]; [discriminate E|exact Hle]. }
    pose proof (gext_ok ab edges _ _ Hok Hhi) as Oh. pose proof (gext_ok ab edges _ _ Hok Hlo') as Ol.
    cbn [above below] in Hb, Ha'. destruct right.
    - (* v <= h, l < v, h = l or h < l *)
      rewrite (cl_leb CL v h Hv Oh) in Hb. apply negb_true_iff in Hb.
      destruct Hle as [E|Hle].
      + injection E as ->. congruence.
      + cbn in Hle. destruct (cl_cotrans CL h l v Oh Ol Hv Hle) as [H|H]; [congruence|].
        rewrite (cl_asym CL v l Hv Ol H) in Ha'. discriminate.
    - (* v < h, l <= v *)
      rewrite (cl_leb CL l v Ol Hv) in Ha'. apply negb_true_iff in Ha'.
      destruct Hle as [E|Hle].
      + injection E as ->. congruence.
      + cbn in Hle. rewrite (cl_trans v h l Hv Oh Ol Hb Hle) in Ha'. discriminate.
  Qed.

  Theorem gcontains_unique right ab edges j j' v :
    Forall ok edges -> ok v -> gascending edges ->
    gcontains right ab edges j v -> gcontains right ab edges j' v -> j = j'.
  Proof.
    intros Hok Hv Ha H H'. destruct (Nat.lt_trichotomy j j') as [Hl|[He|Hl]]; [|exact He|].
    - exfalso. exact (gcontains_lt_absurd _ _ _ _ _ _ Hok Hv Ha Hl H H').
    - exfalso. exact (gcontains_lt_absurd _ _ _ _ _ _ Hok Hv Ha Hl H' H).
  Qed.

  (* label j iff interval j contains v *)
  Theorem g_cut1_label_iff {L} (tmin tmax : A) right ab (edges : list A) (labels : list L) v l :
    Forall ok edges -> ok v -> gascending edges -> count_ok ab edges labels = true ->
    (cut1 ltb leb tmin tmax right ab edges labels (Some v) = Lab l
     <-> exists j, gcontains right ab edges j v /\ nth_error labels j = Some l).
  Proof.
    intros Hok Hv Ha Hc. split.
    - intros H. destruct (g_cut1_some_inv _ _ _ _ _ _ _ _ Hc H) as (j & H1 & H2 & _). eauto.
    - intros (j & Hj & Hl).
      destruct (g_cut1_cases tmin tmax right ab edges labels v) as [[l' H]|H].
      + destruct (g_cut1_some_inv _ _ _ _ _ _ _ _ Hc H) as (k & H1 & H2 & _).
        assert (k = j) by (eapply gcontains_unique; eassumption). subst k.
        rewrite H. congruence.
      + exfalso. exact (g_cut1_err_inv _ _ _ _ _ _ _ Hc H _ Hj).
  Qed.

  (* open outer bounds: some interval always contains a non-null v (edges need not be sorted) *)
  Lemma g_exists_bin (P Q : gext -> bool) (tot : forall b, Q b = true \/ P b = true) :
    forall (l : list gext) (a : gext), P a = true -> l <> [] -> (forall d, Q (last l d) = true) ->
    exists j lo hi, nth_error (a :: l) j = Some lo /\ nth_error (a :: l) (S j) = Some hi
                    /\ P lo = true /\ Q hi = true.
  Proof.
    induction l as [|b r IH]; intros a Pa Hne Hq; [congruence|].
    destruct (tot b) as [Qb|Pb].
    - exists 0%nat, a, b. cbn. auto.
    - destruct r as [|c r'].
      + specialize (Hq a). cbn in Hq. exists 0%nat, a, b. cbn. auto.
      + destruct (IH b Pb ltac:(discriminate)) as (j & lo & hi & H1 & H2 & H3 & H4).
        { intros d. specialize (Hq d). cbn [last] in Hq |- *. exact Hq. }
        exists (S j), lo, hi. cbn [nth_error]. auto.
  Qed.

  Theorem g_open_bounds_contains right edges v :
    Forall ok edges -> ok v -> exists j, gcontains right true edges j v.
  Proof.
    intros Hok Hv. unfold gcontains, gext_edges.
    assert (Hall : forall b, In b (map GFin edges ++ [GPos]) -> below right b v = true \/ above right b v = true).
    { intros b Hb. apply in_app_iff in Hb. destruct Hb as [Hb|[<-|[]]]; [|left; reflexivity].
      apply in_map_iff in Hb. destruct Hb as (e & <- & He). rewrite Forall_forall in Hok. specialize (Hok e He).
      cbn [above below]. destruct right.
      - rewrite (cl_leb CL v e Hv Hok). destruct (ltb e v); auto.
      - rewrite (cl_leb CL e v Hok Hv). destruct (ltb v e); auto. }
    (* the totality is only needed on the members of the list: run the search with a guarded predicate *)
    set (Q := fun b => below right b v).
    set (P := fun b => above right b v || negb (below right b v)).
    destruct (@g_exists_bin P Q) with (l := map GFin edges ++ [GPos]) (a := GNeg) as (j & lo & hi & H1 & H2 & H3 & H4).
    - intros b. unfold P, Q. destruct (below right b v); auto. right. apply orb_true_r.
    - reflexivity.
    - destruct (map GFin edges); discriminate.
    - intros d. rewrite last_last. reflexivity.
    - exists j, lo, hi. split; [exact H1|]. split; [exact H2|]. split; [|exact H4].
      unfold P in H3. apply orb_true_iff in H3. destruct H3 as [H3|H3]; [exact H3|].
      destruct j as [|j]; [cbn in H1; injection H1 as <-; reflexivity|].
      cbn [nth_error] in H1. apply nth_error_In in H1. destruct (Hall lo H1) as [H|H]; [|exact H].
      rewrite H in H3. discriminate.
  Qed.

  Theorem g_cut1_open_total {L} (tmin tmax : A) right (edges : list A) (labels : list L) v :
    Forall ok edges -> ok v -> count_ok true edges labels = true ->
    exists l, cut1 ltb leb tmin tmax right true edges labels (Some v) = Lab l.
  Proof.
    intros Hok Hv Hc. destruct (g_cut1_cases tmin tmax right true edges labels v) as [H|H]; [exact H|].
    exfalso. destruct (g_open_bounds_contains right edges v Hok Hv) as [j Hj].
    exact (g_cut1_err_inv _ _ _ _ _ _ _ Hc H _ Hj).
  Qed.
End GenCut.

Arguments GNeg {A}.
Arguments GFin {A} a.
Arguments GPos {A}.

(* ================================================================================================== *)
(* Part 2: vsorted_unique_idx / vsorted_unique                                                          *)

Lemma filter_seq_lt (p : nat -> bool) n : forall a, StronglySorted lt (filter p (seq a n)).
Proof.
  induction n as [|n IH]; intros a; [constructor|].
  cbn [seq filter]. destruct (p a); [|apply IH].
  constructor; [apply IH|]. apply Forall_forall. intros k Hk.
  apply filter_In in Hk. destruct Hk as [Hk _]. apply in_seq in Hk. lia.
Qed.

Section GenUnique.
  Context {A : Type}.
  Variable eqb : A -> A -> bool.

  (* the cell at position k holds a non-null value *)
  Definition cell_some (xs : list (option A)) (k : nat) : Prop := exists v, nth_error xs k = Some (Some v).

  (* ---- law-free: every reported index is a position of the input, of a non-null cell; strictly ascending.
     Holds for ANY `==` (also a non-reflexive one: Some(NaN) elements), any series.                      *)
  Lemma g_first_go_range : forall xs last i k, In k (uidx_first_go eqb last i xs) ->
    (i <= k)%nat /\ cell_some xs (k - i).
  Proof.
    induction xs as [|x r IH]; intros last i k Hk; [destruct Hk|].
    cbn [uidx_first_go] in Hk. destruct x as [v|].
    - destruct (last_is eqb last v).
      + destruct (IH _ _ _ Hk) as [H1 (w & H2)]. split; [lia|]. exists w.
        replace (k - i)%nat with (S (k - S i)) by lia. exact H2.
      + destruct Hk as [<-|Hk].
        * split; [lia|]. exists v. rewrite Nat.sub_diag. reflexivity.
        * destruct (IH _ _ _ Hk) as [H1 (w & H2)]. split; [lia|]. exists w.
          replace (k - i)%nat with (S (k - S i)) by lia. exact H2.
    - destruct (IH _ _ _ Hk) as [H1 (w & H2)]. split; [lia|]. exists w.
      replace (k - i)%nat with (S (k - S i)) by lia. exact H2.
  Qed.

  Lemma g_first_go_sorted : forall xs last i, StronglySorted lt (uidx_first_go eqb last i xs).
  Proof.
    induction xs as [|x r IH]; intros last i; [constructor|].
    cbn [uidx_first_go]. destruct x as [v|]; [|apply IH].
    destruct (last_is eqb last v); [apply IH|].
    constructor; [apply IH|]. apply Forall_forall. intros k Hk.
    apply g_first_go_range in Hk. lia.
  Qed.

  Theorem g_first_idx_valid xs :
    (forall k, In k (uidx_first eqb xs) -> (k < length xs)%nat /\ cell_some xs k)
    /\ StronglySorted lt (uidx_first eqb xs).
  Proof.
    split; [|apply g_first_go_sorted].
    intros k Hk. apply g_first_go_range in Hk. rewrite Nat.sub_0_r in Hk. destruct Hk as [_ (v & Hv)].
    split; [apply nth_error_Some; congruence|exists v; exact Hv].
  Qed.

  Lemma g_last_go_range : forall ys last i k, In k (uidx_last_go eqb last i ys) ->
    (i <= k < i + length ys)%nat /\ (k = i -> is_some last = true) /\ ((i < k)%nat -> cell_some ys (k - i - 1)).
  Proof.
    induction ys as [|y r IH]; intros last i k Hk; [destruct Hk|].
    cbn [uidx_last_go] in Hk. cbn [length].
    assert (Hrec : forall l', In k (uidx_last_go eqb l' (S i) r) ->
                     (k = S i -> is_some l' = true) ->
                     (S i <= k < i + S (length r))%nat /\ ((i < k)%nat -> (k = S i \/ cell_some (y :: r) (k - i - 1)))).
    { intros l' Hin _. destruct (IH _ _ _ Hin) as (H1 & H2 & H3). split; [lia|]. intros Hik.
      destruct (Nat.eq_dec k (S i)) as [E|E]; [left; exact E|right].
      destruct (H3 ltac:(lia)) as (w & Hw). exists w.
      replace (k - i - 1)%nat with (S (k - S i - 1)) by lia. exact Hw. }
    destruct y as [v|].
    - destruct (last_is eqb last v).
      + destruct (IH _ _ _ Hk) as (H1 & H2 & H3). split; [lia|]. split; [lia|]. intros Hik.
        destruct (Nat.eq_dec k (S i)) as [E|E].
        * exists v. subst k. replace (S i - i - 1)%nat with 0%nat by lia. reflexivity.
        * destruct (H3 ltac:(lia)) as (w & Hw). exists w.
          replace (k - i - 1)%nat with (S (k - S i - 1)) by lia. exact Hw.
      + apply in_app_iff in Hk. destruct Hk as [Hk|Hk].
        * destruct (is_some last) eqn:E; [|destruct Hk]. destruct Hk as [<-|[]].
          split; [lia|]. split; [intros _; reflexivity|lia].
        * destruct (IH _ _ _ Hk) as (H1 & H2 & H3). split; [lia|]. split; [lia|]. intros Hik.
          destruct (Nat.eq_dec k (S i)) as [E'|E'].
          -- exists v. subst k. replace (S i - i - 1)%nat with 0%nat by lia. reflexivity.
          -- destruct (H3 ltac:(lia)) as (w & Hw). exists w.
             replace (k - i - 1)%nat with (S (k - S i - 1)) by lia. exact Hw.
    - apply in_app_iff in Hk. destruct Hk as [Hk|Hk].
      + destruct (is_some last) eqn:E; [|destruct Hk]. destruct Hk as [<-|[]].
        split; [lia|]. split; [intros _; reflexivity|lia].
      + destruct (IH _ _ _ Hk) as (H1 & H2 & H3). split; [lia|]. split; [lia|]. intros Hik.
        destruct (Nat.eq_dec k (S i)) as [E'|E']; [specialize (H2 E'); discriminate H2|].
        destruct (H3 ltac:(lia)) as (w & Hw). exists w.
        replace (k - i - 1)%nat with (S (k - S i - 1)) by lia. exact Hw.
  Qed.

  Lemma g_last_go_sorted : forall ys last i, StronglySorted lt (uidx_last_go eqb last i ys).
  Proof.
    assert (Hcons : forall i l, StronglySorted lt l -> (forall k, In k l -> (S i <= k)%nat) ->
                                forall b : bool, StronglySorted lt ((if b then [i] else []) ++ l)).
    { intros i l Hs Hl [|]; [|exact Hs]. cbn [app]. constructor; [exact Hs|].
      apply Forall_forall. intros k Hk. specialize (Hl k Hk). lia. }
    induction ys as [|y r IH]; intros last i; [constructor|].
    cbn [uidx_last_go]. destruct y as [v|].
    - destruct (last_is eqb last v); [apply IH|].
      apply Hcons; [apply IH|]. intros k Hk. apply g_last_go_range in Hk. lia.
    - apply Hcons; [apply IH|]. intros k Hk. apply g_last_go_range in Hk. lia.
  Qed.

  Theorem g_last_idx_valid xs :
    (forall k, In k (uidx_last eqb xs) -> (k < length xs)%nat /\ cell_some xs k)
    /\ StronglySorted lt (uidx_last eqb xs).
  Proof.
    unfold uidx_last. destruct xs as [|x r].
    - split; [|apply g_last_go_sorted]. intros k Hk. cbn in Hk. destruct Hk.
    - split; [|apply g_last_go_sorted]. intros k Hk.
      destruct (g_last_go_range _ _ _ _ Hk) as (H1 & H2 & H3).
      rewrite app_length in H1. cbn [length] in H1 |- *. split; [lia|].
      destruct k as [|k].
      + specialize (H2 eq_refl). destruct x as [v|]; [|discriminate]. exists v. reflexivity.
      + destruct (H3 ltac:(lia)) as (w & Hw). exists w. cbn [nth_error].
        replace (S k - 0 - 1)%nat with k in Hw by lia.
        destruct (Nat.lt_ge_cases k (length r)) as [Hlt|Hge].
        * rewrite nth_error_app1 in Hw by exact Hlt. exact Hw.
        * rewrite nth_error_app2 in Hw by exact Hge.
          destruct (k - length r)%nat as [|d]; [discriminate Hw|destruct d; discriminate Hw].
  Qed.

  (* ---- with the laws of a (partial) equivalence on the non-null elements -------------------------------- *)
  Variable ok : A -> Prop.
  Record EqLaws : Prop := {
    el_refl : forall a, ok a -> eqb a a = true;
    el_sym : forall a b, ok a -> ok b -> eqb a b = eqb b a;
    el_trans : forall a b c, ok a -> ok b -> ok c -> eqb a b = true -> eqb b c = true -> eqb a c = true;
  }.
  Hypothesis EL : EqLaws.
  Definition okc (o : option A) : Prop := match o with Some x => ok x | None => True end.

  Lemma el_transfer u p v : ok u -> ok p -> ok v -> eqb u p = true -> eqb u v = eqb p v.
  Proof.
    intros Hu Hp Hv H. destruct (eqb p v) eqn:E.
    - apply (el_trans EL u p v); assumption.
    - destruct (eqb u v) eqn:E2; [|reflexivity].
      rewrite (el_sym EL u p Hu Hp) in H. rewrite (el_trans EL p u v Hp Hu Hv H E2) in E. discriminate.
  Qed.

  (* the state of the scans (`last_value`) is the FIRST element of the current run; `rep last p`: it represents
     the same value as the cell p *)
  Definition rep (last : option A) (p : option A) : Prop :=
    match p with
    | None => last = None
    | Some a => exists u, last = Some u /\ ok u /\ eqb u a = true
    end.

  (* ---- Keep::Last, positional, for EVERY series ------------------------------------------------------- *)
  (* p is non-null and y is not an equal value *)
  Definition g_differs (p y : option A) : bool :=
    match p with
    | Some a => negb (match y with Some b => eqb a b | None => false end)
    | None => false
    end.
  Fixpoint g_pair_scan (i : nat) (prev : option A) (ys : list (option A)) : list nat :=
    match ys with
    | [] => []
    | y :: r => (if g_differs prev y then [i] else []) ++ g_pair_scan (S i) y r
    end.

  Lemma g_last_go_pair_scan : forall ys last prev i,
    Forall okc ys -> okc prev -> rep last prev -> uidx_last_go eqb last i ys = g_pair_scan i prev ys.
  Proof.
    induction ys as [|y r IH]; intros last prev i Hok Hp Hr; [reflexivity|].
    inversion Hok as [|? ? Hy Hok']; subst.
    cbn [uidx_last_go g_pair_scan]. destruct y as [v|].
    - destruct prev as [p|]; cbn [rep] in Hr.
      + destruct Hr as (u & -> & Hu & Hup). cbn [last_is g_differs is_some okc] in *.
        rewrite (el_transfer u p v Hu Hp Hy Hup). destruct (eqb p v) eqn:E; cbn [negb app].
        * apply IH; [exact Hok'|exact Hy|]. exists u. repeat split; [exact Hu|].
          rewrite (el_transfer u p v Hu Hp Hy Hup). exact E.
        * f_equal. apply IH; [exact Hok'|exact Hy|]. exists v. repeat split; [exact Hy|apply (el_refl EL); exact Hy].
      + subst last. cbn [last_is g_differs is_some app].
        apply IH; [exact Hok'|exact Hy|]. exists v. repeat split; [exact Hy|apply (el_refl EL); exact Hy].
    - destruct prev as [p|]; cbn [rep] in Hr.
      + destruct Hr as (u & -> & _). cbn [g_differs is_some negb app]. f_equal. apply IH; [exact Hok'|exact I|reflexivity].
      + subst last. cbn [g_differs is_some app]. apply IH; [exact Hok'|exact I|reflexivity].
  Qed.

  Definition g_pair_b (zs : list (option A)) (k : nat) : bool :=
    match nth_error zs k, nth_error zs (S k) with
    | Some p, Some y => g_differs p y
    | _, _ => false
    end.

  Lemma g_pair_scan_filter : forall ys prev i,
    g_pair_scan i prev ys = map (Nat.add i) (filter (g_pair_b (prev :: ys)) (seq 0 (length ys))).
  Proof.
    induction ys as [|y r IH]; intros prev i; [reflexivity|].
    cbn [g_pair_scan length]. change (seq 0 (S (length r))) with (0 :: seq 1 (length r)).
    cbn [filter]. unfold g_pair_b at 1. cbn [nth_error].
    rewrite filter_seq_shift, IH.
    assert (Hext : filter (fun k => g_pair_b (prev :: y :: r) (S k)) (seq 0 (length r))
                   = filter (g_pair_b (y :: r)) (seq 0 (length r))).
    { apply filter_ext. intros k. reflexivity. }
    rewrite Hext.
    assert (Hm : map (Nat.add i) (map S (filter (g_pair_b (y :: r)) (seq 0 (length r))))
                 = map (Nat.add (S i)) (filter (g_pair_b (y :: r)) (seq 0 (length r)))).
    { rewrite map_map. apply map_ext. intros k. lia. }
    destruct (g_differs prev y); cbn [app map]; rewrite Hm; [rewrite Nat.add_0_r|]; reflexivity.
  Qed.

  (* i is the last index of a run: non-null and the next cell (if any) is not an equal value *)
  Definition g_last_of_run_b (xs : list (option A)) (i : nat) : bool :=
    match nth_error xs i with
    | Some p => g_differs p (match nth_error xs (S i) with Some y => y | None => None end)
    | None => false
    end.

  Lemma g_pair_b_last xs k : (k < length xs)%nat -> g_pair_b (xs ++ [None]) k = g_last_of_run_b xs k.
  Proof.
    intros Hk. unfold g_pair_b, g_last_of_run_b.
    rewrite nth_error_app1 by exact Hk.
    destruct (nth_error xs k) as [p|] eqn:E; [|apply nth_error_None in E; lia].
    destruct (Nat.eq_dec (S k) (length xs)) as [He|Hne].
    - assert (Hn : nth_error xs (S k) = None) by (apply nth_error_None; lia). rewrite Hn.
      rewrite nth_error_app2 by lia. replace (S k - length xs)%nat with 0%nat by lia. reflexivity.
    - rewrite nth_error_app1 by lia.
      destruct (nth_error xs (S k)) as [y|] eqn:E2; [reflexivity|apply nth_error_None in E2; lia].
  Qed.

  Theorem g_last_positional xs :
    Forall okc xs -> uidx_last eqb xs = filter (g_last_of_run_b xs) (seq 0 (length xs)).
  Proof.
    intros Hok. unfold uidx_last. destruct xs as [|x r]; [reflexivity|].
    inversion Hok as [|? ? Hx Hok']; subst.
    rewrite (g_last_go_pair_scan (r ++ [None]) x x 0).
    - rewrite g_pair_scan_filter. rewrite app_length. cbn [length]. rewrite Nat.add_1_r.
      change (x :: r ++ [None]) with ((x :: r) ++ [None]).
      rewrite (filter_ext_in_seq (g_pair_b ((x :: r) ++ [None])) (g_last_of_run_b (x :: r)))
        by (intros k Hk; apply g_pair_b_last; cbn [length]; exact Hk).
      rewrite map_ext with (g := fun k => k) by reflexivity. apply map_id.
    - apply Forall_app. split; [exact Hok'|]. constructor; [exact I|constructor].
    - exact Hx.
    - destruct x as [p|]; [|reflexivity]. exists p. repeat split; [exact Hx|apply (el_refl EL); exact Hx].
  Qed.

  Lemma g_last_of_run_b_spec xs i :
    g_last_of_run_b xs i = true <->
    exists v, nth_error xs i = Some (Some v) /\ forall u, nth_error xs (S i) = Some (Some u) -> eqb v u = false.
  Proof.
    unfold g_last_of_run_b. destruct (nth_error xs i) as [[v|]|].
    - cbn [g_differs]. destruct (nth_error xs (S i)) as [[u|]|].
      + split.
        * intros H. exists v. split; [reflexivity|]. intros u' E. injection E as <-. apply negb_true_iff. exact H.
        * intros (w & E & H). injection E as <-. apply negb_true_iff. apply H. reflexivity.
      + split; [intros _; exists v; split; [reflexivity|intros u E; discriminate]|reflexivity].
      + split; [intros _; exists v; split; [reflexivity|intros u E; discriminate]|reflexivity].
    - split; [discriminate|intros (w & E & _); discriminate].
    - split; [discriminate|intros (w & E & _); discriminate].
  Qed.

  (* ---- Keep::First, positional, for EVERY series: the cell is compared with the NEAREST NON-NULL cell before it
     (a null between two equal values does not separate them) ---------------------------------------------- *)
  Fixpoint last_valid (l : list (option A)) (acc : option A) : option A :=
    match l with
    | [] => acc
    | Some v :: r => last_valid r (Some v)
    | None :: r => last_valid r acc
    end.

  Lemma last_valid_app l1 l2 acc : last_valid (l1 ++ l2) acc = last_valid l2 (last_valid l1 acc).
  Proof. revert acc; induction l1 as [|[v|] r IH]; intros acc; cbn; auto. Qed.

  Definition g_first_b (xs : list (option A)) (i : nat) : bool :=
    match nth_error xs i with
    | Some (Some v) => negb (last_is eqb (last_valid (firstn i xs) None) v)
    | _ => false
    end.

  Lemma firstn_app_exact (l1 l2 : list (option A)) : firstn (length l1) (l1 ++ l2) = l1.
  Proof. rewrite firstn_app, Nat.sub_diag, firstn_all. cbn. apply app_nil_r. Qed.

  Lemma g_first_go_filter : forall xs pre last,
    Forall okc pre -> Forall okc xs -> rep last (last_valid pre None) ->
    uidx_first_go eqb last (length pre) xs = filter (g_first_b (pre ++ xs)) (seq (length pre) (length xs)).
  Proof.
    induction xs as [|x r IH]; intros pre last Hpre Hok Hr; [reflexivity|].
    inversion Hok as [|? ? Hx Hok']; subst.
    cbn [length seq filter uidx_first_go].
    assert (Hnth : nth_error (pre ++ x :: r) (length pre) = Some x).
    { rewrite nth_error_app2 by lia. rewrite Nat.sub_diag. reflexivity. }
    assert (Hre : pre ++ x :: r = (pre ++ [x]) ++ r) by (rewrite <- app_assoc; reflexivity).
    assert (Hlen : S (length pre) = length (pre ++ [x])) by (rewrite app_length; cbn; lia).
    assert (Hpre' : Forall okc (pre ++ [x])) by (apply Forall_app; split; [exact Hpre|constructor; [exact Hx|constructor]]).
    assert (Hlv : forall acc, okc acc -> okc (last_valid pre acc)).
    { clear -Hpre. induction pre as [|[v|] p IHp]; intros acc Ha; cbn; [exact Ha| |];
        inversion Hpre; subst; apply IHp; assumption. }
    unfold g_first_b at 1. rewrite Hnth, firstn_app_exact.
    destruct x as [v|].
    - assert (Hli : last_is eqb last v = last_is eqb (last_valid pre None) v).
      { pose proof (Hlv None I) as Hp. destruct (last_valid pre None) as [p|]; cbn [rep] in Hr.
        - destruct Hr as (u & -> & Hu & Hup). cbn [last_is]. apply el_transfer; assumption.
        - subst last. reflexivity. }
      rewrite <- Hli. destruct (last_is eqb last v) eqn:E; cbn [negb].
      + rewrite Hre, Hlen. apply IH; [exact Hpre'|exact Hok'|].
        rewrite last_valid_app. cbn [last_valid rep].
        destruct last as [u|]; [|discriminate E]. cbn [last_is] in E. exists u. repeat split; [|exact E].
        pose proof (Hlv None I) as Hp. destruct (last_valid pre None) as [p|]; cbn [rep] in Hr.
        * destruct Hr as (u' & Eu & Hu & _). injection Eu as <-. exact Hu.
        * discriminate Hr.
      + f_equal. rewrite Hre, Hlen. apply IH; [exact Hpre'|exact Hok'|].
        rewrite last_valid_app. cbn [last_valid rep]. exists v. repeat split; [exact Hx|apply (el_refl EL); exact Hx].
    - rewrite Hre, Hlen. apply IH; [exact Hpre'|exact Hok'|].
      rewrite last_valid_app. cbn [last_valid]. exact Hr.
  Qed.

  Theorem g_first_positional xs :
    Forall okc xs -> uidx_first eqb xs = filter (g_first_b xs) (seq 0 (length xs)).
  Proof.
    intros Hok. exact (g_first_go_filter xs [] None (Forall_nil _) Hok eq_refl).
  Qed.

  (* what `last_valid` is: the nearest non-null cell, everything after it being null *)
  Lemma last_valid_spec l p :
    last_valid l None = Some p <->
    exists j, nth_error l j = Some (Some p) /\ forall k, (j < k)%nat -> (k < length l)%nat -> nth_error l k = Some None.
  Proof.
    assert (G : forall l acc p,
              last_valid l acc = Some p <->
              (exists j, nth_error l j = Some (Some p) /\
                         forall k, (j < k)%nat -> (k < length l)%nat -> nth_error l k = Some None)
              \/ (acc = Some p /\ forall k, (k < length l)%nat -> nth_error l k = Some None)).
    { clear l p. induction l as [|x r IH]; intros acc p.
      - cbn. split.
        + intros ->. right. split; [reflexivity|]. intros k Hk. lia.
        + intros [(j & Hj & _)|[-> _]]; [destruct j; discriminate|reflexivity].
      - destruct x as [v|]; cbn [last_valid]; rewrite IH; split.
        + intros [(j & Hj & Hn)|[E Hn]].
          * left. exists (S j). split; [exact Hj|]. intros [|k] H1 H2; [lia|]. cbn. apply Hn; cbn in H2; lia.
          * injection E as ->. left. exists 0%nat. split; [reflexivity|].
            intros [|k] H1 H2; [lia|]. cbn. apply Hn. cbn in H2. lia.
        + intros [(j & Hj & Hn)|[_ Hn]].
          * destruct j as [|j].
            -- cbn in Hj. injection Hj as ->. right. split; [reflexivity|].
               intros k Hk. apply (Hn (S k)); cbn; lia.
            -- left. exists j. split; [exact Hj|]. intros k H1 H2. apply (Hn (S k)); cbn; lia.
          * specialize (Hn 0%nat ltac:(cbn; lia)). discriminate Hn.
        + intros [(j & Hj & Hn)|[E Hn]].
          * left. exists (S j). split; [exact Hj|]. intros [|k] H1 H2; [lia|]. cbn. apply Hn; cbn in H2; lia.
          * right. split; [exact E|]. intros [|k] Hk; [reflexivity|]. cbn. apply Hn. cbn in Hk. lia.
        + intros [(j & Hj & Hn)|[E Hn]].
          * destruct j as [|j]; [discriminate Hj|].
            left. exists j. split; [exact Hj|]. intros k H1 H2. apply (Hn (S k)); cbn; lia.
          * right. split; [exact E|]. intros k Hk. apply (Hn (S k)). cbn. lia. }
    rewrite G. split; [intros [H|[H _]]; [exact H|discriminate H]|intros H; left; exact H].
  Qed.

  Lemma g_first_b_spec xs i :
    g_first_b xs i = true <->
    exists v, nth_error xs i = Some (Some v) /\ forall p, last_valid (firstn i xs) None = Some p -> eqb p v = false.
  Proof.
    unfold g_first_b. destruct (nth_error xs i) as [[v|]|].
    - destruct (last_valid (firstn i xs) None) as [p|]; cbn [last_is].
      + split.
        * intros H. exists v. split; [reflexivity|]. intros p' E. injection E as <-. apply negb_true_iff. exact H.
        * intros (w & E & H). injection E as <-. apply negb_true_iff. apply H. reflexivity.
      + split; [intros _; exists v; split; [reflexivity|intros p E; discriminate]|reflexivity].
    - split; [discriminate|intros (w & E & _); discriminate].
    - split; [discriminate|intros (w & E & _); discriminate].
  Qed.

  (* ---- vsorted_unique = the values at the Keep::First indices, for EVERY series --------------------------- *)
  Definition cell_vals (zs : list (option A)) (k : nat) : list A :=
    match nth_error zs k with Some (Some v) => [v] | _ => [] end.

  Lemma g_uniq_first_go : forall xs pre last,
    Forall okc xs -> okc last ->
    uniq_go eqb last xs = flat_map (cell_vals (pre ++ xs)) (uidx_first_go eqb last (length pre) xs).
  Proof.
    induction xs as [|x r IH]; intros pre last Hok Hl; [reflexivity|].
    inversion Hok as [|? ? Hx Hok']; subst.
    assert (Hre : pre ++ x :: r = (pre ++ [x]) ++ r) by (rewrite <- app_assoc; reflexivity).
    assert (Hlen : S (length pre) = length (pre ++ [x])) by (rewrite app_length; cbn; lia).
    assert (Hcv : forall v, x = Some v -> cell_vals (pre ++ x :: r) (length pre) = [v]).
    { intros v ->. unfold cell_vals. rewrite nth_error_app2 by lia. rewrite Nat.sub_diag. reflexivity. }
    cbn [uniq_go uidx_first_go]. destruct x as [v|].
    - destruct last as [lv|]; cbn [last_is].
      + rewrite (el_sym EL v lv Hx Hl). destruct (eqb lv v); cbn [negb].
        * rewrite Hre, Hlen. apply IH; assumption.
        * cbn [flat_map]. rewrite (Hcv v eq_refl). cbn [app]. f_equal. rewrite Hre, Hlen. apply IH; assumption.
      + cbn [flat_map]. rewrite (Hcv v eq_refl). cbn [app]. f_equal. rewrite Hre, Hlen. apply IH; assumption.
    - rewrite Hre, Hlen. apply IH; assumption.
  Qed.

  Theorem g_uniq_is_values_at_first xs :
    Forall okc xs -> vsorted_unique eqb xs = flat_map (cell_vals xs) (uidx_first eqb xs).
  Proof. intros Hok. exact (g_uniq_first_go xs [] None Hok I). Qed.

  (* one value per reported index, each of them a non-null cell of the input: as many representatives as indices *)
  Theorem g_uniq_length xs : Forall okc xs -> length (vsorted_unique eqb xs) = length (uidx_first eqb xs).
  Proof.
    intros Hok. rewrite (g_uniq_is_values_at_first xs Hok).
    pose proof (proj1 (g_first_idx_valid xs)) as Hv.
    induction (uidx_first eqb xs) as [|k l IH]; [reflexivity|].
    cbn [flat_map]. rewrite app_length. cbn [length].
    destruct (Hv k (or_introl eq_refl)) as [_ (v & E)]. unfold cell_vals at 1. rewrite E. cbn [length Nat.add].
    f_equal. apply IH. intros k' Hk'. apply Hv. right. exact Hk'.
  Qed.

  Theorem g_uniq_values_from_input xs v :
    Forall okc xs -> In v (vsorted_unique eqb xs) -> In (Some v) xs.
  Proof.
    intros Hok. rewrite (g_uniq_is_values_at_first xs Hok). rewrite in_flat_map.
    intros (k & _ & Hk). unfold cell_vals in Hk. destruct (nth_error xs k) as [[w|]|] eqn:E; [|contradiction|contradiction].
    destruct Hk as [<-|[]]. eapply nth_error_In. exact E.
  Qed.
End GenUnique.

(* ================================================================================================== *)
(* Part 3: the laws hold on every carrier the code is instantiated at                                   *)
From Coq Require Import Floats.
From Tevec Require Import Base.Num Base.F64 Model.Cmp Spec.ExtremaOrd Proofs.CmpOrdInst Proofs.CmpOrdFloat Spec.Binning.

(* any carrier of the `Num` class whose non-NaN elements satisfy the order laws of Spec/ExtremaOrd.v *)
Lemma cutlaws_of_ordlaws {A} {NA : Num A} : OrdLaws A -> CutLaws (A := A) nltb nleb num_ok.
Proof.
  intros [H1 H2 H3 H4]. split.
  - exact H1.
  - exact H2.
  - exact H4.
Qed.

Lemma eqlaws_of_ordlaws {A} {NA : Num A} : OrdLaws A -> EqLaws (A := A) neqb num_ok.
Proof.
  intros [H1 H2 H3 H4].
  assert (Hirr : forall a, num_ok a -> nltb a a = false).
  { intros a Ha. destruct (nltb a a) eqn:E; [|reflexivity]. rewrite (H1 a a Ha Ha E) in E. discriminate. }
  split.
  - intros a Ha. rewrite (H3 a a Ha Ha), (Hirr a Ha). reflexivity.
  - intros a b Ha Hb. rewrite (H3 a b Ha Hb), (H3 b a Hb Ha). apply andb_comm.
  - intros a b c Ha Hb Hc. rewrite (H3 a b Ha Hb), (H3 b c Hb Hc), (H3 a c Ha Hc).
    rewrite !andb_true_iff, !negb_true_iff. intros [Eab Eba] [Ebc Ecb]. split.
    + destruct (nltb a c) eqn:E; [|reflexivity]. destruct (H2 a c b Ha Hc Hb E); congruence.
    + destruct (nltb c a) eqn:E; [|reflexivity]. destruct (H2 c a b Hc Ha Hb E); congruence.
Qed.

(* Z: i32 / i64 / u64 / usize and their Option forms (every element is non-null) *)
Lemma cutlaws_Z : CutLaws Z.ltb Z.leb (fun _ => True).
Proof. split; intros; lia. Qed.
Lemma eqlaws_Z : EqLaws Z.eqb (fun _ => True).
Proof. split; intros; lia. Qed.

(* binary64: f64 (and f32, whose values and comparisons are those of binary64); ok = not NaN *)
Definition f64_ok (a : float) : Prop := PrimFloat.is_nan a = false.
Lemma cutlaws_f64 : CutLaws PrimFloat.ltb PrimFloat.leb f64_ok.
Proof. exact (cutlaws_of_ordlaws ordlaws_F64). Qed.
Lemma eqlaws_f64 : EqLaws PrimFloat.eqb f64_ok.
Proof. exact (eqlaws_of_ordlaws ordlaws_F64). Qed.

(* at Z the generic specification is the integer specification of Spec/Binning.v *)
Lemma gascending_Z l : gascending Z.ltb l <-> ascending l.
Proof.
  induction l as [|a [|b r] IH]; cbn; try tauto.
  cbn in IH. rewrite IH. rewrite Z.ltb_lt. tauto.
Qed.

Definition of_ext (x : ext) : gext (A := Z) :=
  match x with NegInf => GNeg | Fin z => GFin z | PosInf => GPos end.

Lemma gext_edges_Z ab edges : gext_edges ab edges = map of_ext (ext_edges ab edges).
Proof.
  unfold gext_edges, ext_edges. destruct ab; cbn [map]; rewrite ?map_app, ?map_map; reflexivity.
Qed.

Lemma gcontains_Z right ab edges j v : gcontains Z.ltb Z.leb right ab edges j v <-> contains right ab edges j v.
Proof.
  unfold gcontains, contains. rewrite gext_edges_Z, !nth_error_map. split.
  - intros (lo & hi & H1 & H2 & H3 & H4).
    destruct (nth_error (ext_edges ab edges) j) as [lo'|]; [|discriminate].
    destruct (nth_error (ext_edges ab edges) (S j)) as [hi'|]; [|discriminate].
    cbn in H1, H2. injection H1 as <-. injection H2 as <-. exists lo', hi'. repeat split.
    unfold in_bin. destruct lo', hi', right; cbn in H3, H4 |- *; try discriminate; lia.
  - intros (lo & hi & H1 & H2 & H3). rewrite H1, H2. exists (of_ext lo), (of_ext hi). repeat split.
    + unfold in_bin in H3. destruct lo, right; cbn in H3 |- *; lia.
    + unfold in_bin in H3. destruct hi, right; cbn in H3 |- *; lia.
Qed.

(* the binary64 instances of the generic theorems, as they are stated in Props/C14.v *)
Definition cut1F {L} := @cut1 float L PrimFloat.ltb PrimFloat.leb.
Definition containsF := @gcontains float PrimFloat.ltb PrimFloat.leb.
Definition ascendingF := @gascending float PrimFloat.ltb.
Definition okcF := @okc float f64_ok.

Theorem cut1_label_iff_f64 {L} (tmin tmax : float) right ab (edges : list float) (labels : list L) v l :
  Forall f64_ok edges -> f64_ok v -> ascendingF edges -> count_ok ab edges labels = true ->
  (cut1F tmin tmax right ab edges labels (Some v) = Lab l
   <-> exists j, containsF right ab edges j v /\ nth_error labels j = Some l).
Proof. apply g_cut1_label_iff. exact cutlaws_f64. Qed.

Theorem contains_unique_f64 right ab (edges : list float) j j' v :
  Forall f64_ok edges -> f64_ok v -> ascendingF edges ->
  containsF right ab edges j v -> containsF right ab edges j' v -> j = j'.
Proof. apply gcontains_unique. exact cutlaws_f64. Qed.

Theorem cut1_open_total_f64 {L} (tmin tmax : float) right (edges : list float) (labels : list L) v :
  Forall f64_ok edges -> f64_ok v -> count_ok true edges labels = true ->
  exists l, cut1F tmin tmax right true edges labels (Some v) = Lab l.
Proof. apply g_cut1_open_total. exact cutlaws_f64. Qed.

(* a NaN edge is outside the quantifier and the premise cannot be dropped: with open bounds and the single edge
   NaN no interval contains 1.0 except ... none: both explicit tests are false *)
Lemma nan_edge_loses_totality :
  cut1F (L := Z) neg_infinity infinity true true [nan] [100; 101]%Z (Some one) = ErrItem.
Proof. vm_compute. reflexivity. Qed.

(* ================================================================================================== *)
(* Part 4: the inputs the quantifier excludes, as the code treats them (Model/Binning.v `vcut_call`)     *)
Section CutCallFacts.
  Context {A L : Type}.
  Variables ltb leb : A -> A -> bool.
  Variables tmin tmax : A.

  Lemma unwrap_all_some (es : list (option A)) l : unwrap_all es = Some l <-> es = map Some l.
  Proof.
    revert l; induction es as [|[e|] r IH]; intros l; cbn [unwrap_all].
    - split; [intros H; injection H as <-; reflexivity|]. destruct l; [reflexivity|discriminate].
    - destruct (unwrap_all r) as [l'|] eqn:E.
      + split.
        * intros H. injection H as <-. cbn. f_equal. apply IH. reflexivity.
        * destruct l as [|a l]; [discriminate|]. cbn. intros H. injection H as -> Hr.
          apply IH in Hr. injection Hr as ->. reflexivity.
      + split; [discriminate|]. destruct l as [|a l]; [discriminate|]. cbn. intros H. injection H as _ Hr.
        apply IH in Hr. discriminate.
    - split; [discriminate|]. destruct l; discriminate.
  Qed.

  Lemma unwrap_all_none (es : list (option A)) : unwrap_all es = None <-> In None es.
  Proof.
    induction es as [|[e|] r IH]; cbn [unwrap_all In].
    - split; [discriminate|tauto].
    - destruct (unwrap_all r); split; try discriminate.
      + intros [H|H]; [discriminate|]. apply IH in H. discriminate.
      + intros _. right. apply IH. reflexivity.
      + intros _. reflexivity.
    - split; [intros _; left; reflexivity|reflexivity].
  Qed.

  (* the guard comes first: a label count that does not match is `Err` - never a panic - whatever the edges hold; with a
     matching count a null edge of an Option<_> edge vector panics at call time (`Option::unwrap()` on `None`), and
     without null edges the call is `vcut` on the unwrapped edges *)
  Theorem vcut_call_spec right ab (edges : list (option A)) (labels : list L) xs :
    (count_ok ab edges labels = false -> vcut_call ltb leb tmin tmax right ab edges labels xs = Ok None) /\
    (count_ok ab edges labels = true -> In None edges ->
       vcut_call ltb leb tmin tmax right ab edges labels xs = Panic UnwrapNone) /\
    (forall es, edges = map Some es ->
       vcut_call ltb leb tmin tmax right ab edges labels xs = Ok (vcut ltb leb tmin tmax right ab es labels xs)).
  Proof.
    unfold vcut_call, vcut. split; [intros ->; reflexivity|]. split.
    - intros -> Hn. apply unwrap_all_none in Hn. rewrite Hn. reflexivity.
    - intros es ->. unfold count_ok. rewrite map_length.
      destruct (if ab then _ else _); [|reflexivity].
      rewrite (proj2 (unwrap_all_some (map Some es) es) eq_refl). reflexivity.
  Qed.

  (* a label type without a null: the iteration unwinds exactly when the input holds a null value *)
  Theorem collect_items_spec (nullable right ab : bool) (es : list A) (labels : list L) (xs : list (option A)) :
    collect_items nullable (map (cut1 ltb leb tmin tmax right ab es labels) xs) =
    if negb nullable && existsb (fun x => match x with None => true | Some _ => false end) xs
    then Panic OtherPanic else Ok (map (cut1 ltb leb tmin tmax right ab es labels) xs).
  Proof.
    unfold collect_items.
    assert (E : existsb item_is_null (map (cut1 ltb leb tmin tmax right ab es labels) xs)
                = existsb (fun x => match x with None => true | Some _ => false end) xs).
    { induction xs as [|x r IH]; [reflexivity|]. cbn [map existsb]. rewrite IH. f_equal.
      destruct x as [v|]; [|reflexivity].
      destruct (g_cut1_cases ltb leb tmin tmax right ab es labels v) as [[l El]|El]; rewrite El; reflexivity. }
    rewrite E. reflexivity.
  Qed.
End CutCallFacts.
