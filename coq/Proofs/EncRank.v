(* Proofs/EncRank.v — C08 (re-encoding) for the rank map and the partitions:
     vrank (Model/Rank.v), vpartition / varg_partition (Model/Partition.v)
   under two arbitrary null dictionaries and inputs with pointwise equal option views, for EVERY carrier
   (no law of the numeric class is used; axiom-free).

   * the argsort step: the index comparators `cmp_idx (cmp_dir rev) xs1` and `cmp_idx (cmp_dir rev) xs2` are the
     same function (sort_cmp / sort_cmp_rev see an element only through `to_opt`), so the two sorted index vectors
     are EQUAL lists of naturals;
   * the run-length loop reads the series through `is_none` (determined by the view) and through `==` (`teqb`,
     the PartialEq of the element type).  `==` is NOT determined by the view for an arbitrary IsNoneX instance, so
     the statement needs the hypothesis `EqbView`: on two non-null elements `==` agrees under the two encodings
     (f64 `==` on non-NaN values vs Option<f64> `==` on two `Some`s).  The loop only ever compares non-null
     elements (invariant: the element at the current sorted position is non-null — it was the `idx1` of the
     previous iteration, which did not break, resp. the head that `vrank` tests before the loop), which is what the
     relational induction over `seq k n` carries;
   * vpartition returns elements of the input type: the results are related (same panic, or SameView lists), i.e.
     their option views are equal; `T::none()` enters through `tnone`, hence the hypothesis `tnone_rel`;
   * varg_partition returns indices: the results are equal.                                                    *)
From Coq Require Import List Bool Arith Lia ZArith.
From Tevec Require Import Base.Prelude Base.Num Model.NullView Model.SortCmp Model.Rank Model.Partition
     Proofs.SortCmp Proofs.ViewBase.
From Tevec Require Proofs.Partition Proofs.NullOrder.
Import ListNotations.

(* `==` of the element type agrees under the two encodings on non-null elements *)
Definition EqbView {A T1 T2 : Type} (D1 : IsNone T1 A) (D2 : IsNone T2 A)
           (X1 : IsNoneX T1 A) (X2 : IsNoneX T2 A) : Prop :=
  forall (a1 b1 : T1) (a2 b2 : T2),
    same_view D1 D2 a1 a2 -> same_view D1 D2 b1 b2 -> is_none a2 = false -> is_none b2 = false ->
    teqb (IsNoneX := X1) a1 b1 = teqb (IsNoneX := X2) a2 b2.

(* `T::none()` under the two encodings: the same panic (integer types), or two nulls *)
Definition tnone_rel {A T1 T2 : Type} (D1 : IsNone T1 A) (D2 : IsNone T2 A)
           (X1 : IsNoneX T1 A) (X2 : IsNoneX T2 A) : Prop :=
  match tnone (IsNoneX := X1), tnone (IsNoneX := X2) with
  | Ok a, Ok b => same_view D1 D2 a b
  | Panic k1, Panic k2 => k1 = k2
  | _, _ => False
  end.

(* results of element type: the same panic, or lists with pointwise equal option views *)
Definition res_view {A T1 T2 : Type} (D1 : IsNone T1 A) (D2 : IsNone T2 A)
           (r1 : res (list T1)) (r2 : res (list T2)) : Prop :=
  match r1, r2 with
  | Ok l1, Ok l2 => SameView D1 D2 l1 l2
  | Panic k1, Panic k2 => k1 = k2
  | _, _ => False
  end.
Definition res_opt_view {A T : Type} {D : IsNone T A} (r : res (list T)) : res (list (option A)) :=
  match r with Ok l => Ok (opt_view l) | Panic k => Panic k end.

Lemma res_view_opt_view {A T1 T2 : Type} (D1 : IsNone T1 A) (D2 : IsNone T2 A) r1 r2 :
  res_view D1 D2 r1 r2 <-> res_opt_view (D := D1) r1 = res_opt_view (D := D2) r2.
Proof.
  destruct r1 as [l1|k1], r2 as [l2|k2]; cbn [res_view res_opt_view]; split; intros H;
    try contradiction; try discriminate.
  - f_equal. unfold opt_view. apply (map_rel (R := same_view D1 D2)); [|exact H]. intros a b E; exact E.
  - injection H as H. unfold opt_view in H. revert l2 H. induction l1 as [|a l1 IH]; intros [|b l2] H; try discriminate.
    + constructor.
    + cbn [map] in H. injection H as Hab H. constructor; [exact Hab|apply IH; exact H].
  - congruence.
  - congruence.
Qed.

(* ---- the instances of the real dictionaries ------------------------------------------------------------- *)
Section Instances.
  Context {A : Type} {NA : Num A}.

  Lemma eqb_view_float_option : EqbView (IsNone_float (A := A)) IsNone_option IsNoneX_float IsNoneX_option.
  Proof.
    intros a1 b1 [a2|] [b2|] Ha Hb Na Nb; try discriminate.
    unfold same_view, to_opt in Ha, Hb. cbn [is_none unwrap IsNone_float IsNone_option] in Ha, Hb.
    destruct (nisnan a1); [discriminate|]. destruct (nisnan b1); [discriminate|].
    injection Ha as ->. injection Hb as ->. reflexivity.
  Qed.
  Lemma eqb_view_option_float : EqbView (IsNone_option (A := A)) IsNone_float IsNoneX_option IsNoneX_float.
  Proof.
    intros a1 b1 a2 b2 Ha Hb Na Nb; unfold same_view, to_opt in Ha, Hb;
      cbn [is_none unwrap IsNone_float IsNone_option] in Ha, Hb, Na, Nb. rewrite Na in Ha. rewrite Nb in Hb.
    destruct a1 as [a1|]; [|discriminate]. destruct b1 as [b1|]; [|discriminate].
    injection Ha as ->. injection Hb as ->. reflexivity.
  Qed.
  Lemma eqb_view_float_float : EqbView (IsNone_float (A := A)) IsNone_float IsNoneX_float IsNoneX_float.
  Proof.
    intros a1 b1 a2 b2 Ha Hb Na Nb. unfold same_view, to_opt in Ha, Hb.
    cbn [is_none unwrap IsNone_float] in Ha, Hb, Na, Nb. rewrite Na in Ha. rewrite Nb in Hb.
    destruct (nisnan a1); [discriminate|]. destruct (nisnan b1); [discriminate|].
    injection Ha as ->. injection Hb as ->. reflexivity.
  Qed.
  Lemma eqb_view_option_option : EqbView (IsNone_option (A := A)) IsNone_option IsNoneX_option IsNoneX_option.
  Proof.
    intros [a1|] [b1|] [a2|] [b2|] Ha Hb Na Nb; try discriminate.
    unfold same_view, to_opt in Ha, Hb. cbn [is_none unwrap IsNone_option] in Ha, Hb.
    injection Ha as ->. injection Hb as ->. reflexivity.
  Qed.

  (* T::none(): f64::NAN vs None — related as soon as the carrier's NaN test recognises its NaN (true at binary64
     and at option R; the class has no laws, so it is a hypothesis here) *)
  Lemma tnone_rel_float_option :
    nisnan (nnan (A := A)) = true -> tnone_rel (IsNone_float (A := A)) IsNone_option IsNoneX_float IsNoneX_option.
  Proof.
    intros H. unfold tnone_rel. cbn [tnone IsNoneX_float IsNoneX_option]. unfold same_view, to_opt.
    cbn [is_none unwrap IsNone_float IsNone_option]. rewrite H. reflexivity.
  Qed.
  Lemma tnone_rel_option_float :
    nisnan (nnan (A := A)) = true -> tnone_rel (IsNone_option (A := A)) IsNone_float IsNoneX_option IsNoneX_float.
  Proof.
    intros H. unfold tnone_rel. cbn [tnone IsNoneX_float IsNoneX_option]. unfold same_view, to_opt.
    cbn [is_none unwrap IsNone_float IsNone_option]. rewrite H. reflexivity.
  Qed.
End Instances.

(* ---- generic list facts ------------------------------------------------------------------------------------ *)
Lemma Forall2_repeat {X Y} (R : X -> Y -> Prop) a b n : R a b -> Forall2 R (repeat a n) (repeat b n).
Proof. intros H. induction n as [|n IH]; cbn [repeat]; constructor; assumption. Qed.

Lemma pad_take_rel {X Y} (R : X -> Y -> Prop) k p1 p2 l1 l2 :
  R p1 p2 -> Forall2 R l1 l2 -> Forall2 R (pad_take k p1 l1) (pad_take k p2 l2).
Proof.
  intros Hp HF. unfold pad_take. apply Forall2_firstn. apply Forall2_app; [exact HF|apply Forall2_repeat; exact Hp].
Qed.

Section Enc.
  Context {A : Type} {NA : Num A} {T1 T2 : Type} (D1 : IsNone T1 A) (D2 : IsNone T2 A)
          (X1 : IsNoneX T1 A) (X2 : IsNoneX T2 A).
  Local Notation SV := (same_view D1 D2).

  Lemma cmp_dir_view rev a1 a2 b1 b2 :
    SV a1 a2 -> SV b1 b2 -> cmp_dir (DT := D1) rev a1 b1 = cmp_dir (DT := D2) rev a2 b2.
  Proof.
    intros Ha Hb. destruct rev; cbn [cmp_dir];
      [apply NullOrder.sort_cmp_rev_view|apply NullOrder.sort_cmp_view]; assumption.
  Qed.

  Lemma valid_idx_gen l1 l2 : SameView D1 D2 l1 l2 -> forall s : list nat,
    flat_map (fun p => if not_none (H := D1) (snd p) then [Z.of_nat (fst p)] else []) (combine s l1) =
    flat_map (fun p => if not_none (H := D2) (snd p) then [Z.of_nat (fst p)] else []) (combine s l2).
  Proof.
    induction 1 as [|a b r1 r2 Hab _ IH]; intros s; [destruct s; reflexivity|].
    destruct s as [|i s]; [reflexivity|]. cbn [combine flat_map fst snd].
    rewrite (sv_not_none Hab). f_equal. apply IH.
  Qed.

  Variables (xs1 : list T1) (xs2 : list T2).
  Hypothesis HS : SameView D1 D2 xs1 xs2.

  Lemma nth_view i :
    match nth_error xs1 i, nth_error xs2 i with
    | Some a, Some b => SV a b | None, None => True | _, _ => False end.
  Proof. apply (NullOrder.Forall2_nth _ _ _ HS). Qed.

  (* the index comparators are the same function *)
  Lemma cmp_idx_view rev a b :
    cmp_idx (cmp_dir (DT := D1) rev) xs1 a b = cmp_idx (cmp_dir (DT := D2) rev) xs2 a b.
  Proof.
    unfold cmp_idx. pose proof (nth_view a) as Ha. pose proof (nth_view b) as Hb.
    destruct (nth_error xs1 a), (nth_error xs2 a); try contradiction;
      destruct (nth_error xs1 b), (nth_error xs2 b); try contradiction; try reflexivity.
    apply cmp_dir_view; assumption.
  Qed.

  (* ... so the argsorts are equal index vectors *)
  Lemma argsort_view rev l :
    isort (cmp_idx (cmp_dir (DT := D1) rev) xs1) l = isort (cmp_idx (cmp_dir (DT := D2) rev) xs2) l.
  Proof. apply Partition.isort_ext_in. intros a b _ _. apply cmp_idx_view. Qed.

  Lemma get_is_none_view i : get_is_none (DT := D1) xs1 i = get_is_none (DT := D2) xs2 i.
  Proof.
    unfold get_is_none. pose proof (nth_view i) as H.
    destruct (nth_error xs1 i), (nth_error xs2 i); try contradiction; [|reflexivity]. apply (sv_is_none H).
  Qed.

  Lemma count_valid_view' : count_valid (DT := D1) xs1 = count_valid (DT := D2) xs2.
  Proof. apply NullOrder.count_valid_view. exact HS. Qed.

  Lemma length_view : length xs1 = length xs2.
  Proof. apply (Forall2_len HS). Qed.

  (* ---- vrank ------------------------------------------------------------------------------------------ *)
  Section Rank.
    Hypothesis HE : EqbView D1 D2 X1 X2.

    Lemma get_eq_view i j :
      get_is_none (DT := D2) xs2 i = false -> get_is_none (DT := D2) xs2 j = false ->
      get_eq (DX := X1) xs1 i j = get_eq (DX := X2) xs2 i j.
    Proof.
      unfold get_is_none, get_eq. pose proof (nth_view i) as Hi. pose proof (nth_view j) as Hj.
      destruct (nth_error xs1 i), (nth_error xs2 i); try contradiction;
        destruct (nth_error xs1 j), (nth_error xs2 j); try contradiction; try reflexivity; try discriminate.
      intros Ni Nj. apply HE; assumption.
    Qed.

    (* the run-length loop over consecutive sorted positions k, k+1, ...: the element at position k is non-null *)
    Lemma rank_loop_view pct nn p : forall n k st,
      get_is_none (DT := D2) xs2 (nth k p 0%nat) = false ->
      rank_loop (DT := D1) (DX := X1) pct nn xs1 p (seq k n) st =
      rank_loop (DT := D2) (DX := X2) pct nn xs2 p (seq k n) st.
    Proof.
      induction n as [|n IH]; intros k st Hk; [reflexivity|]. cbn [seq rank_loop].
      rewrite get_is_none_view.
      destruct (get_is_none (DT := D2) xs2 (nth (S k) p 0%nat)) eqn:E1; [reflexivity|].
      rewrite (get_eq_view _ _ Hk E1).
      destruct (get_eq (DX := X2) xs2 (nth k p 0%nat) (nth (S k) p 0%nat)); [apply IH; exact E1|].
      destruct (r_rep st =? 1)%nat; apply IH; exact E1.
    Qed.

    Theorem vrank_view pct rev :
      vrank (DT := D1) (DX := X1) pct rev xs1 = vrank (DT := D2) (DX := X2) pct rev xs2.
    Proof.
      unfold vrank. rewrite length_view.
      destruct (length xs2 =? 0)%nat; [reflexivity|].
      destruct (length xs2 =? 1)%nat; [rewrite get_is_none_view; reflexivity|].
      rewrite argsort_view. rewrite get_is_none_view.
      set (p := isort (cmp_idx (cmp_dir (DT := D2) rev) xs2) (seq 0 (length xs2))).
      destruct (get_is_none (DT := D2) xs2 (nth 0 p 0%nat)) eqn:E0; [reflexivity|].
      rewrite count_valid_view'. rewrite (rank_loop_view _ _ _ _ _ _ E0). reflexivity.
    Qed.
  End Rank.

  (* ---- varg_partition: equal index lists ------------------------------------------------------------------ *)
  Lemma valid_idx_view : valid_idx (DT := D1) xs1 = valid_idx (DT := D2) xs2.
  Proof. unfold valid_idx. rewrite length_view. apply valid_idx_gen. exact HS. Qed.

  Theorem varg_partition_view k sort rev :
    varg_partition (DT := D1) k sort rev xs1 = varg_partition (DT := D2) k sort rev xs2.
  Proof.
    unfold varg_partition. rewrite count_valid_view', valid_idx_view, length_view.
    rewrite !argsort_view. reflexivity.
  Qed.

  (* ---- vpartition: related results ------------------------------------------------------------------------- *)
  Lemma filter_valid_view : SameView D1 D2 (filter (not_none (H := D1)) xs1) (filter (not_none (H := D2)) xs2).
  Proof. apply Forall2_filter; [|exact HS]. intros a b E. apply (sv_not_none E). Qed.

  Lemma isort_view rev l1 l2 :
    SameView D1 D2 l1 l2 -> SameView D1 D2 (isort (cmp_dir (DT := D1) rev) l1) (isort (cmp_dir (DT := D2) rev) l2).
  Proof. intros H. apply NullOrder.isort_rel; [|exact H]. intros a1 a2 b1 b2. apply cmp_dir_view. Qed.

  Theorem vpartition_view k sort rev :
    tnone_rel D1 D2 X1 X2 ->
    res_view D1 D2 (vpartition (DT := D1) (DX := X1) k sort rev xs1) (vpartition (DT := D2) (DX := X2) k sort rev xs2).
  Proof.
    intros HT. unfold vpartition. rewrite count_valid_view'.
    pose proof filter_valid_view as HF. pose proof (isort_view rev _ _ HS) as HI.
    destruct ((count_valid (DT := D2) xs2 =? k + 1)%nat && negb sort); [exact HF|].
    destruct (count_valid (DT := D2) xs2 <=? k + 1)%nat.
    - destruct (negb sort).
      + unfold tnone_rel in HT.
        destruct (tnone (IsNoneX := X1)) as [p1|k1], (tnone (IsNoneX := X2)) as [p2|k2]; try contradiction;
          cbn [bind res_view]; [|exact HT].
        apply pad_take_rel; assumption.
      + rewrite (Forall2_len HI).
        destruct (length (isort (cmp_dir (DT := D2) rev) xs2) <? k + 1)%nat.
        * unfold tnone_rel in HT.
          destruct (tnone (IsNoneX := X1)) as [p1|k1], (tnone (IsNoneX := X2)) as [p2|k2]; try contradiction;
            cbn [bind res_view]; [|exact HT].
          apply pad_take_rel; assumption.
        * cbn [res_view]. apply Forall2_firstn. exact HI.
    - cbn [res_view]. destruct sort.
      + apply isort_view. apply Forall2_firstn. exact HI.
      + apply Forall2_firstn. exact HI.
  Qed.
End Enc.
