(* Proofs/RoundSum.v — rounding-error bounds for the running sums (C11 one-pass `vsum`, C01/C06 rolling
   `ts_vsum`), in three layers:
     (1) real level: a left fold  s := rnd (s + y)  over a list of reals, with the standard model of
         floating-point addition  |rnd (a+b) - (a+b)| <= u |a+b|  on a format closed under rnd;
     (2) binary64: Flocq's `Bplus_correct` / `FLT_plus_error_N_ex` discharge (1)'s hypotheses for
         round-to-nearest-even in FLT(-1074, 53), with u = 2^-53 (addition has no underflow error), and
         `Flocq.IEEE754.PrimFloat.add_equiv` carries it to Coq's primitive `float` — the carrier
         `NumF64` that the correspondence run evaluates and compares bit for bit with Rust;
     (3) the models: `vsum` (Model/Agg.v) and `ts_vsum_f` (Model/Features.v) at NumF64 / IsNoneF64.
   No overflow premise other than an executable one: the OUTPUT is finite (a non-finite partial sum or
   operand can never become finite again).                                                           *)
From Coq Require Import Reals Lra Lia ZArith List Floats Psatz.
From Flocq Require Import Core Relative Plus_error BinarySingleNaN.
From Flocq Require PrimFloat.
From Coq Require Import Permutation.
From Tevec Require Import Base.Prelude Base.Num Base.XR Base.F64 Spec.Stats Spec.Stats2 Model.Driver Proofs.Driver
     Model.Features Proofs.Generic Model.Agg Proofs.AggGeneric Proofs.Sliding Proofs.Features.
Import ListNotations.
Local Open Scope R_scope.

(* ===================================================================================================== *)
(* (1) real level                                                                                        *)
(* ===================================================================================================== *)
Definition sumabs (l : list R) : R := sumR (map Rabs l).

Lemma sumabs_nonneg l : 0 <= sumabs l.
Proof.
  unfold sumabs. induction l as [|a l IH]; cbn [map sumR fold_right]; [lra|].
  fold (sumR (map Rabs l)). pose proof (Rabs_pos a). lra.
Qed.
Lemma sumabs_app l1 l2 : sumabs (l1 ++ l2) = sumabs l1 + sumabs l2.
Proof. unfold sumabs. rewrite map_app. apply sumR_app. Qed.
Lemma sumR_cons a l : sumR (a :: l) = a + sumR l.
Proof. reflexivity. Qed.
Lemma sumabs_cons a l : sumabs (a :: l) = Rabs a + sumabs l.
Proof. reflexivity. Qed.
Lemma sumR_le_sumabs l : Rabs (sumR l) <= sumabs l.
Proof.
  induction l as [|a l IH]; [unfold sumabs; cbn [map sumR fold_right]; rewrite Rabs_R0; lra|].
  rewrite sumR_cons, sumabs_cons. pose proof (Rabs_triang a (sumR l)). lra.
Qed.

(* (1+u)^n - 1, the classical growth factor of recursive summation, and its linearisation *)
Definition gam (u : R) (n : nat) : R := (1 + u) ^ n - 1.

Lemma gam_nonneg u n : 0 <= u -> 0 <= gam u n.
Proof. intros Hu. unfold gam. pose proof (pow_R1_Rle (1 + u) n ltac:(lra)). lra. Qed.
Lemma gam_S u n : gam u (S n) = (1 + u) * gam u n + u.
Proof. unfold gam. cbn [pow]. ring. Qed.
Lemma gam_mono u n m : 0 <= u -> (n <= m)%nat -> gam u n <= gam u m.
Proof.
  intros Hu Hnm. unfold gam. pose proof (Rle_pow (1 + u) n m ltac:(lra) Hnm). lra.
Qed.
(* explicit constant: (1+u)^n - 1 <= n u (1+u)^n *)
Lemma gam_le_linear u n : 0 <= u -> gam u n <= INR n * u * (1 + u) ^ n.
Proof.
  intros Hu. induction n as [|n IH]; [unfold gam; cbn; lra|].
  rewrite gam_S, S_INR. cbn [pow].
  pose proof (pow_R1_Rle (1 + u) n ltac:(lra)) as Hp.
  pose proof (pos_INR n) as Hn.
  assert (H1 : (1 + u) * gam u n <= (1 + u) * (INR n * u * (1 + u) ^ n)) by (apply Rmult_le_compat_l; lra).
  assert (H2 : u <= u * ((1 + u) * (1 + u) ^ n)) by nra.
  nra.
Qed.

Section RealFold.
  Variable u : R.
  Hypothesis u_nonneg : 0 <= u.
  Variable Fmt : R -> Prop.                       (* the format *)
  Variable rnd : R -> R.                          (* rounding *)
  Hypothesis rnd_fmt : forall x, Fmt (rnd x).
  (* standard model of floating-point ADDITION (no underflow term: holds in FLT for sums of two floats) *)
  Hypothesis rnd_add_err : forall a b, Fmt a -> Fmt b -> Rabs (rnd (a + b) - (a + b)) <= u * Rabs (a + b).

  Definition rfold (s : R) (ys : list R) : R := fold_left (fun s y => rnd (s + y)) ys s.

  Lemma rfold_app s l1 l2 : rfold s (l1 ++ l2) = rfold (rfold s l1) l2.
  Proof. unfold rfold. apply fold_left_app. Qed.

  Lemma rfold_fmt s ys : Fmt s -> Fmt (rfold s ys).
  Proof.
    revert s; induction ys as [|y ys IH]; intros s Hs; [exact Hs|]. cbn [rfold fold_left]. apply IH, rnd_fmt.
  Qed.

  (* the a-priori bound (Higham, Accuracy and Stability, (4.4)): n additions, starting from s *)
  Theorem rfold_error s ys :
    Fmt s -> Forall Fmt ys ->
    Rabs (rfold s ys - (s + sumR ys)) <= gam u (length ys) * (Rabs s + sumabs ys).
  Proof.
    revert s; induction ys as [|y ys IH]; intros s Hs Hys.
    - cbn [rfold fold_left sumR fold_right length]. unfold gam. cbn [pow].
      replace (s - (s + 0)) with 0 by ring. rewrite Rabs_R0. lra.
    - inversion Hys as [|? ? Hy Hys']; subst.
      cbn [rfold fold_left length]. fold (rfold (rnd (s + y)) ys).
      specialize (IH (rnd (s + y)) (rnd_fmt _) Hys').
      pose proof (rnd_add_err s y Hs Hy) as Hd.
      set (s1 := rnd (s + y)) in *.
      rewrite sumR_cons, sumabs_cons, gam_S.
      pose proof (gam_nonneg u (length ys) u_nonneg) as Hg.
      pose proof (sumabs_nonneg ys) as Hsa.
      pose proof (Rabs_triang s y) as Ht.
      pose proof (Rabs_pos s) as Hps. pose proof (Rabs_pos y) as Hpy.
      (* |s1| <= (1+u)(|s|+|y|) *)
      assert (Hs1 : Rabs s1 <= (1 + u) * (Rabs s + Rabs y)).
      { replace s1 with ((s1 - (s + y)) + (s + y)) by ring.
        eapply Rle_trans; [apply Rabs_triang|]. nra. }
      replace (rfold s1 ys - (s + (y + sumR ys)))
        with ((rfold s1 ys - (s1 + sumR ys)) + (s1 - (s + y))) by ring.
      eapply Rle_trans; [apply Rabs_triang|].
      assert (Hd' : Rabs (s1 - (s + y)) <= u * (Rabs s + Rabs y)) by nra.
      assert (H3 : gam u (length ys) * (Rabs s1 + sumabs ys)
                   <= gam u (length ys) * ((1 + u) * (Rabs s + Rabs y) + sumabs ys))
        by (apply Rmult_le_compat_l; lra).
      set (g := gam u (length ys)) in *. set (P := Rabs s + Rabs y) in *. set (sa := sumabs ys) in *.
      assert (H4 : 0 <= u * g * sa) by (apply Rmult_le_pos; [apply Rmult_le_pos|]; assumption).
      assert (H5 : 0 <= u * sa) by (apply Rmult_le_pos; assumption).
      replace (Rabs s + (Rabs y + sa)) with (P + sa) by (unfold P; ring).
      replace (((1 + u) * g + u) * (P + sa)) with (g * ((1 + u) * P + sa) + u * P + (u * g * sa + u * sa)) by ring.
      lra.
  Qed.

  (* the running (a-posteriori) bound: every step loses at most u' times the magnitude of the value it
     produces, so the drift is at most (number of operations) * u' * (largest accumulator value) *)
  Variable u' : R.
  Hypothesis u'_nonneg : 0 <= u'.
  Hypothesis rnd_add_err' : forall a b, Fmt a -> Fmt b -> Rabs (rnd (a + b) - (a + b)) <= u' * Rabs (rnd (a + b)).

  (* all accumulator values produced by the fold *)
  Fixpoint rpartials (s : R) (ys : list R) : list R :=
    match ys with [] => [] | y :: r => rnd (s + y) :: rpartials (rnd (s + y)) r end.

  Theorem rfold_error_running s ys M :
    Fmt s -> Forall Fmt ys -> Forall (fun p => Rabs p <= M) (rpartials s ys) ->
    Rabs (rfold s ys - (s + sumR ys)) <= INR (length ys) * u' * M.
  Proof.
    revert s; induction ys as [|y ys IH]; intros s Hs Hys HM.
    - cbn [rfold fold_left sumR fold_right length INR]. replace (s - (s + 0)) with 0 by ring.
      rewrite Rabs_R0. lra.
    - inversion Hys as [|? ? Hy Hys']; subst. cbn [rpartials] in HM.
      inversion HM as [|? ? HM1 HM']; subst.
      cbn [rfold fold_left]. fold (rfold (rnd (s + y)) ys).
      specialize (IH (rnd (s + y)) (rnd_fmt _) Hys' HM').
      pose proof (rnd_add_err' s y Hs Hy) as Hd.
      set (s1 := rnd (s + y)) in *.
      change (length (y :: ys)) with (S (length ys)). rewrite S_INR, sumR_cons.
      replace (rfold s1 ys - (s + (y + sumR ys)))
        with ((rfold s1 ys - (s1 + sumR ys)) + (s1 - (s + y))) by ring.
      eapply Rle_trans; [apply Rabs_triang|].
      assert (u' * Rabs s1 <= u' * M) by (apply Rmult_le_compat_l; lra).
      lra.
  Qed.

  (* exactness: when every exact partial sum is representable, nothing is ever rounded *)
  Hypothesis rnd_id : forall x, Fmt x -> rnd x = x.
  Fixpoint xpartials (s : R) (ys : list R) : list R :=
    match ys with [] => [] | y :: r => (s + y) :: xpartials (s + y) r end.
  Theorem rfold_exact s ys :
    Forall Fmt (xpartials s ys) -> rfold s ys = s + sumR ys.
  Proof.
    revert s; induction ys as [|y ys IH]; intros s H.
    - cbn. ring.
    - cbn [xpartials] in H. inversion H as [|? ? H1 H2]; subst.
      cbn [rfold fold_left]. rewrite (rnd_id _ H1). fold (rfold (s + y) ys).
      rewrite (IH _ H2), sumR_cons. ring.
  Qed.
End RealFold.

(* ===================================================================================================== *)
(* (2) binary64: Flocq's specification of IEEE addition, carried to Coq's primitive floats               *)
(* ===================================================================================================== *)
Module FP := Flocq.IEEE754.PrimFloat.
Module CF := Coq.Floats.PrimFloat.
Notation float := CF.float (only parsing).

Definition fmt64 : R -> Prop := generic_format radix2 (FLT_exp (-1074) 53).
Definition rnd64 (x : R) : R := round radix2 (FLT_exp (-1074) 53) ZnearestE x.
Definition u64 : R := bpow radix2 (-53).                     (* unit roundoff 2^-53 *)
Definition f2r (x : float) : R := B2R (FP.Prim2B x).          (* real value of a finite float (0 otherwise) *)
Definition ffin (x : float) : bool := CF.is_finite x.

Local Instance prec64_gt_0 : Prec_gt_0 53 := eq_refl _.

Lemma u64_is_u_ro : u64 = u_ro radix2 53.
Proof.
  change u64 with (/ 9007199254740992). change (u_ro radix2 53) with (/ 2 * / 4503599627370496). lra.
Qed.
Lemma u64_value : u64 = / 9007199254740992.
Proof. reflexivity. Qed.
Lemma u64_nonneg : 0 <= u64.
Proof. apply bpow_ge_0. Qed.

Lemma fmt64_0 : fmt64 0. Proof. apply generic_format_0. Qed.
Lemma fmt64_f2r x : fmt64 (f2r x).
Proof. unfold fmt64, f2r. apply (generic_format_B2R 53 1024). Qed.
Lemma fmt64_rnd x : fmt64 (rnd64 x).
Proof. apply generic_format_round; [apply FLT_exp_valid; exact prec64_gt_0|apply valid_rnd_N]. Qed.
Lemma fmt64_opp x : fmt64 x -> fmt64 (- x).
Proof. apply generic_format_opp. Qed.
Lemma rnd64_id x : fmt64 x -> rnd64 x = x.
Proof. intros H. apply round_generic; [apply valid_rnd_N|exact H]. Qed.

(* the standard model for the SUM of two binary64 numbers: no underflow term *)
Lemma rnd64_add_err a b : fmt64 a -> fmt64 b -> Rabs (rnd64 (a + b) - (a + b)) <= u64 * Rabs (a + b).
Proof.
  intros Ha Hb.
  destruct (FLT_plus_error_N_ex radix2 (-1074) 53 (fun z => negb (Z.even z)) a b Ha Hb) as (eps & He & Hr).
  unfold rnd64. change ZnearestE with (Znearest (fun z => negb (Z.even z))). rewrite Hr.
  replace ((a + b) * (1 + eps) - (a + b)) with ((a + b) * eps) by ring.
  rewrite Rabs_mult, Rmult_comm. apply Rmult_le_compat_r; [apply Rabs_pos|].
  eapply Rle_trans; [exact He|]. rewrite u64_is_u_ro.
  pose proof (u_ro_pos radix2 53) as Hu.
  apply Rle_trans with (u_ro radix2 53 / 1); [|lra].
  unfold Rdiv. apply Rmult_le_compat_l; [exact Hu|]. apply Rinv_le_contravar; lra.
Qed.
(* the same error relative to the ROUNDED sum *)
Lemma rnd64_add_err' a b : fmt64 a -> fmt64 b -> Rabs (rnd64 (a + b) - (a + b)) <= u64 * Rabs (rnd64 (a + b)).
Proof.
  intros Ha Hb.
  destruct (FLT_plus_error_N_round_ex radix2 (-1074) 53 (fun z => negb (Z.even z)) a b Ha Hb) as (eps & He & Hr).
  fold (rnd64 (a + b)) in Hr. change (Znearest (fun z => negb (Z.even z))) with ZnearestE in Hr.
  fold (rnd64 (a + b)) in Hr.
  set (r := rnd64 (a + b)) in *. rewrite Hr.
  replace (r - r * (1 + eps)) with (- (r * eps)) by ring.
  rewrite Rabs_Ropp, Rabs_mult, Rmult_comm. apply Rmult_le_compat_r; [apply Rabs_pos|].
  rewrite u64_is_u_ro. exact He.
Qed.

(* ---- primitive float addition --------------------------------------------------------------------- *)
Lemma ffin_equiv x : ffin x = is_finite (FP.Prim2B x).
Proof. apply FP.is_finite_equiv. Qed.

(* a non-finite operand never gives a finite sum *)
Lemma add_finite_inv x y : ffin (x + y)%float = true -> ffin x = true /\ ffin y = true.
Proof.
  rewrite !ffin_equiv, FP.add_equiv.
  destruct (FP.Prim2B x) as [sx|sx| |sx mx ex Hx], (FP.Prim2B y) as [sy|sy| |sy my ey Hy];
    cbn [Bplus is_finite]; try (intros; split; reflexivity); try discriminate.
  destruct (Bool.eqb sx sy); discriminate.
Qed.

(* a finite sum is the correctly rounded exact sum *)
Lemma add_finite_val x y : ffin (x + y)%float = true -> f2r (x + y)%float = rnd64 (f2r x + f2r y).
Proof.
  intros Hf. destruct (add_finite_inv x y Hf) as [Hx Hy].
  rewrite ffin_equiv in Hf, Hx, Hy. unfold f2r. rewrite FP.add_equiv in *.
  pose proof (Bplus_correct FloatOps.prec FloatOps.emax FP.Hprec FP.Hmax mode_NE (FP.Prim2B x) (FP.Prim2B y) Hx Hy) as HC.
  destruct (Rlt_bool _ _) in HC.
  - destruct HC as (HC & _). exact HC.
  - destruct HC as (HC & _). exfalso.
    unfold binary_overflow in HC. cbn [overflow_to_inf] in HC.
    match type of HC with B2SF ?z = _ =>
      assert (HF : is_finite z = true) by exact Hf; clear Hf; destruct z; cbn [B2SF is_finite] in HC, HF; discriminate
    end.
Qed.

(* an exactly representable sum below the overflow threshold is computed exactly and is finite *)
Lemma add_exact x y :
  ffin x = true -> ffin y = true -> fmt64 (f2r x + f2r y) -> Rabs (f2r x + f2r y) < bpow radix2 1024 ->
  ffin (x + y)%float = true /\ f2r (x + y)%float = f2r x + f2r y.
Proof.
  intros Hx Hy HF HB. rewrite ffin_equiv in *. unfold f2r in *. rewrite FP.add_equiv.
  pose proof (Bplus_correct FloatOps.prec FloatOps.emax FP.Hprec FP.Hmax mode_NE (FP.Prim2B x) (FP.Prim2B y) Hx Hy) as HC.
  match type of HC with context [round ?a ?b ?c ?d] =>
    assert (Hr : round a b c d = d) by exact (rnd64_id _ HF); rewrite Hr in HC end.
  rewrite Rlt_bool_true in HC by exact HB.
  destruct HC as (H1 & H2 & _). split; assumption.
Qed.

Lemma sub_is_add_opp x y : (x - y)%float = (x + - y)%float.
Proof.
  apply FP.Prim2B_inj. rewrite FP.sub_equiv, FP.add_equiv, FP.opp_equiv.
  destruct (FP.Prim2B x), (FP.Prim2B y); reflexivity.
Qed.
Lemma f2r_opp x : f2r (- x)%float = - f2r x.
Proof. unfold f2r. rewrite FP.opp_equiv. apply B2R_Bopp. Qed.
Lemma ffin_opp x : ffin (- x)%float = ffin x.
Proof. rewrite !ffin_equiv, FP.opp_equiv. apply is_finite_Bopp. Qed.
Lemma f2r_zero : f2r zero = 0.
Proof. unfold f2r. rewrite FP.zero_equiv, FP.Prim2B_B2Prim. reflexivity. Qed.
Lemma ffin_zero : ffin zero = true.
Proof. reflexivity. Qed.

(* ---- the float fold  s := s + y ------------------------------------------------------------------- *)
Definition ffold (s : float) (ys : list float) : float := fold_left CF.add ys s.
Notation rfold64 := (rfold rnd64).

Lemma ffold_app s l1 l2 : ffold s (l1 ++ l2) = ffold (ffold s l1) l2.
Proof. unfold ffold. apply fold_left_app. Qed.

Lemma ffold_finite_inv s ys :
  ffin (ffold s ys) = true -> ffin s = true /\ Forall (fun y => ffin y = true) ys.
Proof.
  revert s; induction ys as [|y ys IH]; intros s H; [split; [exact H|constructor]|].
  cbn [ffold fold_left] in H. destruct (IH _ H) as [H1 H2]. destruct (add_finite_inv _ _ H1) as [Hs Hy].
  split; [exact Hs|constructor; assumption].
Qed.

Lemma ffold_real s ys :
  ffin (ffold s ys) = true -> f2r (ffold s ys) = rfold64 (f2r s) (map f2r ys).
Proof.
  revert s; induction ys as [|y ys IH]; intros s H; [reflexivity|].
  cbn [ffold fold_left map rfold] in *. fold (ffold (s + y)%float ys) in *.
  rewrite (IH _ H). destruct (ffold_finite_inv _ _ H) as [H1 _]. rewrite (add_finite_val _ _ H1). reflexivity.
Qed.

Lemma Forall_fmt64_map ys : Forall fmt64 (map f2r ys).
Proof. induction ys; constructor; [apply fmt64_f2r|assumption]. Qed.

(* round_sum_fold: s_0 = 0, s_{k+1} = fl(s_k + x_k); premise: the computed result is finite *)
Theorem round_sum_fold ys :
  ffin (ffold zero ys) = true ->
  Rabs (f2r (ffold zero ys) - sumR (map f2r ys)) <= gam u64 (length ys) * sumabs (map f2r ys).
Proof.
  intros H. rewrite (ffold_real _ _ H), f2r_zero.
  pose proof (rfold_error u64 u64_nonneg fmt64 rnd64 fmt64_rnd rnd64_add_err 0 (map f2r ys) fmt64_0
                          (Forall_fmt64_map ys)) as HE.
  rewrite map_length, Rabs_R0, !Rplus_0_l in HE. exact HE.
Qed.

(* explicit constant n u (1+u)^n *)
Corollary round_sum_fold_linear ys :
  ffin (ffold zero ys) = true ->
  Rabs (f2r (ffold zero ys) - sumR (map f2r ys))
  <= INR (length ys) * u64 * (1 + u64) ^ length ys * sumabs (map f2r ys).
Proof.
  intros H. eapply Rle_trans; [apply round_sum_fold, H|].
  apply Rmult_le_compat_r; [apply sumabs_nonneg|apply gam_le_linear, u64_nonneg].
Qed.

(* ===================================================================================================== *)
(* (3a) the one-pass sum `vsum` of Model/Agg.v at the execution instance (NumF64, NaN = null)            *)
(* ===================================================================================================== *)
(* the valid (non-NaN) elements of a float series, and their real values *)
Definition fvals (xs : list float) : list float := vals (DT := IsNoneF64) xs.
Definition rvals64 (xs : list float) : list R := map f2r (fvals xs).

(* float -> option R: NaN is the null; (an infinity has no real value — it never occurs under a finite sum) *)
Definition fx (x : float) : XR := if CF.is_nan x then None else Some (f2r x).

Lemma vsum_f64_fold xs :
  vsum (NA := NumF64) (DT := IsNoneF64) xs
  = if 1 <=? length (fvals xs) then Some (ffold zero (fvals xs)) else None.
Proof. unfold vsum. rewrite vfold_n_spec. reflexivity. Qed.

(* C11: |vsum_float xs - sum of the valid elements| <= ((1+u)^n - 1) * sum |valid elements|,  n = number of valid
   elements, u = 2^-53; the only premise is that the computed sum is finite *)
Theorem vsum_binary64_error xs r :
  vsum (NA := NumF64) (DT := IsNoneF64) xs = Some r -> ffin r = true ->
  Rabs (f2r r - sumR (rvals64 xs)) <= gam u64 (length (rvals64 xs)) * sumabs (rvals64 xs).
Proof.
  rewrite vsum_f64_fold. destruct (1 <=? length (fvals xs)); [|discriminate].
  intros [= <-] Hf. unfold rvals64. rewrite map_length. apply round_sum_fold, Hf.
Qed.

Corollary vsum_binary64_error_linear xs r :
  vsum (NA := NumF64) (DT := IsNoneF64) xs = Some r -> ffin r = true ->
  Rabs (f2r r - sumR (rvals64 xs))
  <= INR (length (rvals64 xs)) * u64 * (1 + u64) ^ length (rvals64 xs) * sumabs (rvals64 xs).
Proof.
  intros H Hf. eapply Rle_trans; [apply (vsum_binary64_error xs r H Hf)|].
  apply Rmult_le_compat_r; [apply sumabs_nonneg|apply gam_le_linear, u64_nonneg].
Qed.

(* a finite result certifies that every valid element was finite (no infinity was absorbed) *)
Lemma vsum_finite_inputs xs r :
  vsum (NA := NumF64) (DT := IsNoneF64) xs = Some r -> ffin r = true ->
  Forall (fun y => ffin y = true) (fvals xs).
Proof.
  rewrite vsum_f64_fold. destruct (1 <=? length (fvals xs)); [|discriminate].
  intros [= <-] Hf. apply (ffold_finite_inv _ _ Hf).
Qed.

(* the exact model (option R) on the same series: its sum is the exact sum of the valid elements *)
Lemma fold_xadd_some (l : list R) (a : R) :
  fold_left (fun acc x => nadd acc x) (map Some l) (Some a) = Some (a + sumR l).
Proof.
  revert a; induction l as [|x l IH]; intros a; cbn [map fold_left]; [f_equal; cbn; ring|].
  rewrite xadd_some, IH, sumR_cons. f_equal. ring.
Qed.
Lemma not_none_f64 (x : float) : not_none (H := IsNoneF64) x = negb (CF.is_nan x).
Proof. reflexivity. Qed.
Lemma not_none_fx (x : float) : not_none (H := IsNoneXR) (fx x) = negb (CF.is_nan x).
Proof. unfold fx. destruct (CF.is_nan x); reflexivity. Qed.
Lemma vals_map_fx xs : vals (DT := IsNoneXR) (map fx xs) = map Some (rvals64 xs).
Proof.
  unfold rvals64, fvals. induction xs as [|x xs IH]; [reflexivity|]. cbn [map].
  rewrite !vals_cons, not_none_fx, not_none_f64. destruct (CF.is_nan x) eqn:E; cbn [negb]; [exact IH|].
  cbn [map]. rewrite IH. f_equal. unfold fx. rewrite E. reflexivity.
Qed.
Lemma vsum_XR_of_float xs :
  vsum (NA := NumXR) (DT := IsNoneXR) (map fx xs)
  = if 1 <=? length (rvals64 xs) then Some (Some (sumR (rvals64 xs))) else None.
Proof.
  unfold vsum. rewrite vfold_n_spec, vals_map_fx, map_length. cbn [fst snd].
  change (@nzero XR NumXR) with (Some 0). rewrite fold_xadd_some, Rplus_0_l. reflexivity.
Qed.

(* model(float) against model(option R): same nullness, values within the bound *)
Theorem vsum_float_vs_exact_model xs r :
  vsum (NA := NumF64) (DT := IsNoneF64) xs = Some r -> ffin r = true ->
  exists e, vsum (NA := NumXR) (DT := IsNoneXR) (map fx xs) = Some (Some e) /\
            Rabs (f2r r - e) <= gam u64 (length (rvals64 xs)) * sumabs (rvals64 xs).
Proof.
  intros H Hf. exists (sumR (rvals64 xs)). split; [|apply (vsum_binary64_error xs r H Hf)].
  rewrite vsum_XR_of_float. rewrite vsum_f64_fold in H. unfold rvals64. rewrite map_length.
  destruct (1 <=? length (fvals xs)); [reflexivity|discriminate].
Qed.

(* ---- exactness on a dyadic grid ------------------------------------------------------------------- *)
(* x is an integer multiple of 2^e *)
Definition grid (e : Z) (x : R) : Prop := exists m : Z, x = IZR m * bpow radix2 e.

Lemma grid_0 e : grid e 0. Proof. exists 0%Z. ring. Qed.
Lemma grid_plus e a b : grid e a -> grid e b -> grid e (a + b).
Proof. intros (m & ->) (n & ->). exists (m + n)%Z. rewrite plus_IZR. ring. Qed.
Lemma grid_opp e a : grid e a -> grid e (- a).
Proof. intros (m & ->). exists (- m)%Z. rewrite opp_IZR. ring. Qed.

(* a grid point of magnitude below 2^(e+53) is a binary64 number (e >= -1074) *)
Lemma grid_fmt e x : (-1074 <= e)%Z -> grid e x -> Rabs x < bpow radix2 (e + 53) -> fmt64 x.
Proof.
  intros He (m & ->) Hb. apply generic_format_FLT.
  apply (FLT_spec radix2 (-1074) 53 _ (Float radix2 m e)); [reflexivity| |exact He].
  cbn [Fnum]. apply lt_IZR. rewrite abs_IZR, IZR_Zpower by lia.
  rewrite Rabs_mult, (Rabs_pos_eq (bpow radix2 e)) in Hb by apply bpow_ge_0.
  rewrite bpow_plus, Rmult_comm in Hb. apply Rmult_lt_reg_l in Hb; [exact Hb|apply bpow_gt_0].
Qed.

Lemma ffin_not_nan x : ffin x = true -> CF.is_nan x = false.
Proof. unfold ffin, CF.is_finite. destruct (CF.is_nan x); [discriminate|reflexivity]. Qed.

Definition fgrid (e : Z) (y : float) : Prop := ffin y = true /\ grid e (f2r y).

Lemma ffold_exact_grid e s ys :
  (-1074 <= e <= 971)%Z -> fgrid e s -> Forall (fgrid e) ys ->
  Rabs (f2r s) + sumabs (map f2r ys) < bpow radix2 (e + 53) ->
  ffin (ffold s ys) = true /\ f2r (ffold s ys) = f2r s + sumR (map f2r ys).
Proof.
  intros He. revert s; induction ys as [|y ys IH]; intros s [Hs Gs] Hys Hb.
  - cbn [ffold fold_left map sumR fold_right]. split; [exact Hs|ring].
  - inversion Hys as [|? ? [Hy Gy] Hys']; subst.
    cbn [map] in Hb. rewrite sumabs_cons in Hb.
    pose proof (sumabs_nonneg (map f2r ys)) as Hsa. pose proof (Rabs_triang (f2r s) (f2r y)) as Ht.
    assert (Hlt : Rabs (f2r s + f2r y) < bpow radix2 (e + 53)) by lra.
    destruct (add_exact s y Hs Hy) as [Hf Hv].
    { apply (grid_fmt e); [lia|apply grid_plus; assumption|exact Hlt]. }
    { eapply Rlt_le_trans; [exact Hlt|]. apply bpow_le. lia. }
    cbn [ffold fold_left]. fold (ffold (s + y)%float ys).
    destruct (IH (s + y)%float) as [H1 H2].
    + split; [exact Hf|]. rewrite Hv. apply grid_plus; assumption.
    + exact Hys'.
    + rewrite Hv. lra.
    + split; [exact H1|]. rewrite H2, Hv. cbn [map]. rewrite sumR_cons. ring.
Qed.

(* on such inputs the float model and the exact model compute THE SAME sum *)
Theorem vsum_f64_exact_on_grid e xs :
  (-1074 <= e <= 971)%Z -> Forall (fgrid e) (fvals xs) -> sumabs (rvals64 xs) < bpow radix2 (e + 53) ->
  option_map fx (vsum (NA := NumF64) (DT := IsNoneF64) xs) = vsum (NA := NumXR) (DT := IsNoneXR) (map fx xs).
Proof.
  intros He HG Hb. rewrite vsum_f64_fold, vsum_XR_of_float. unfold rvals64 at 1. rewrite map_length.
  destruct (1 <=? length (fvals xs)); [|reflexivity]. cbn [option_map]. f_equal.
  destruct (ffold_exact_grid e zero (fvals xs) He) as [H1 H2].
  - split; [reflexivity|]. rewrite f2r_zero. apply grid_0.
  - exact HG.
  - rewrite f2r_zero, Rabs_R0, Rplus_0_l. exact Hb.
  - unfold fx. rewrite (ffin_not_nan _ H1), H2, f2r_zero, Rplus_0_l. reflexivity.
Qed.

(* ===================================================================================================== *)
(* (3b) the rolling sum with removal: `ts_vsum_f` of Model/Features.v at NumF64 (add -> emit -> remove)  *)
(* ===================================================================================================== *)
Lemma sumabs_perm l1 l2 : Permutation l1 l2 -> sumabs l1 = sumabs l2.
Proof. intros H. unfold sumabs. apply sumR_perm, Permutation_map, H. Qed.

Lemma firstn_S_nth {X} (l : list X) k a : nth_error l k = Some a -> firstn (S k) l = firstn k l ++ [a].
Proof.
  revert l; induction k as [|k IH]; intros l H; destruct l as [|b l]; try discriminate.
  - cbn in H. injection H as ->. reflexivity.
  - cbn [nth_error] in H. cbn [firstn app]. f_equal. apply IH, H.
Qed.
Lemma firstn_seg_split {X} a b (xs : list X) : (a <= b)%nat -> firstn b xs = firstn a xs ++ seg a b xs.
Proof.
  revert b xs; induction a as [|a IH]; intros b xs Hab.
  - unfold seg. cbn [firstn skipn app]. rewrite Nat.sub_0_r. reflexivity.
  - destruct xs as [|x xs].
    + unfold seg. rewrite skipn_nil, !firstn_nil. reflexivity.
    + destruct b as [|b]; [lia|]. cbn [firstn app]. f_equal.
      change (seg (S a) (S b) (x :: xs)) with (seg a b xs). apply IH. lia.
Qed.

(* the signed operands of the accumulator: +v for a valid new element, then -r for a valid removed one *)
Definition addop (v : float) : list float := if not_none (H := IsNoneF64) v then [v] else [].
Definition ops_of (A : list (option float * float)) : list float :=
  flat_map (fun a => addop (snd a) ++
                     match fst a with Some r => map CF.opp (addop r) | None => [] end) A.

Lemma ops_of_app A B : ops_of (A ++ B) = ops_of A ++ ops_of B.
Proof. apply flat_map_app. Qed.
Lemma fvals_single v : fvals [v] = addop v.
Proof. unfold fvals, addop. rewrite vals_cons. destruct (not_none v); reflexivity. Qed.
Lemma fvals_app l1 l2 : fvals (l1 ++ l2) = fvals l1 ++ fvals l2.
Proof. apply vals_app. Qed.
Lemma rvals64_app l1 l2 : rvals64 (l1 ++ l2) = rvals64 l1 ++ rvals64 l2.
Proof. unfold rvals64. rewrite fvals_app, map_app. reflexivity. Qed.

Section RollingSum.
  Variable emit : @mom float -> float.
  Let F := mom_feat (NA := NumF64) (DT := IsNoneF64) emit.

  (* the first power sum of the state is the float fold over the operands, in program order *)
  Lemma s1_pre (s : @mom float) v : m_s1 (f_pre F s v) = ffold (m_s1 s) (addop v).
  Proof.
    cbn [F mom_feat f_pre]. unfold mom_pre, addop. destruct (not_none v); reflexivity.
  Qed.
  Lemma s1_post (s : @mom float) rm :
    m_s1 (f_post F s rm) = ffold (m_s1 s) (match rm with Some r => map CF.opp (addop r) | None => [] end).
  Proof.
    cbn [F mom_feat f_post]. unfold mom_post, addop. destruct rm as [r|]; [|reflexivity].
    destruct (not_none r); [|reflexivity]. cbn [map ffold fold_left mom_sub m_s1].
    apply sub_is_add_opp.
  Qed.
  Lemma s1_state_after (s : @mom float) A :
    m_s1 (state_after (feat_cb F) s A) = ffold (m_s1 s) (ops_of A).
  Proof.
    revert s; induction A as [|a A IH]; intros s; [reflexivity|].
    cbn [state_after]. rewrite IH. unfold feat_cb at 1. cbn [fst].
    change (ops_of (a :: A)) with ((addop (snd a) ++ match fst a with Some r => map CF.opp (addop r) | None => [] end)
                                   ++ ops_of A).
    rewrite !ffold_app, s1_post, s1_pre. reflexivity.
  Qed.
End RollingSum.

(* the callback arguments of a run, and the operands performed up to (and including) the add of step i *)
Definition rargs (w : nat) (xs : list float) : list (option float * float) :=
  mapi (fun i v => (removed w xs i, v)) xs.
Definition emit_ops (w : nat) (xs : list float) (i : nat) : list float :=
  ops_of (firstn i (rargs w xs)) ++ match nth_error xs i with Some v => addop v | None => [] end.

(* up to order, they are: every valid element of positions 0..i, and minus every valid element of the positions
   that have left the window, 0..i-w *)
Lemma ops_prefix_perm w xs k :
  (k <= length xs)%nat ->
  Permutation (ops_of (firstn k (rargs w xs)))
              (fvals (firstn k xs) ++ map CF.opp (fvals (firstn (k - (w - 1)) xs))).
Proof.
  induction k as [|k IH]; intros Hk; [reflexivity|].
  specialize (IH ltac:(lia)).
  destruct (nth_error xs k) as [v|] eqn:Hv; [|apply nth_error_None in Hv; lia].
  assert (Ha : nth_error (rargs w xs) k = Some (removed w xs k, v)).
  { unfold rargs. rewrite nth_error_mapi, Hv. reflexivity. }
  rewrite (firstn_S_nth _ _ _ Ha), ops_of_app, (firstn_S_nth _ _ _ Hv), fvals_app, fvals_single.
  unfold ops_of at 2. cbn [flat_map fst snd]. rewrite app_nil_r.
  unfold removed. destruct (k <? w - 1)%nat eqn:E.
  - apply Nat.ltb_lt in E. replace (S k - (w - 1))%nat with (k - (w - 1))%nat by lia.
    rewrite app_nil_r.
    set (P := fvals (firstn k xs)) in *. set (N := map CF.opp (fvals (firstn (k - (w - 1)) xs))) in *.
    eapply Permutation_trans; [apply Permutation_app_tail, IH|].
    rewrite <- !app_assoc. apply Permutation_app_head, Permutation_app_comm.
  - apply Nat.ltb_ge in E.
    destruct (nth_error xs (k - (w - 1))) as [x|] eqn:Hx; [|apply nth_error_None in Hx; lia].
    replace (S k - (w - 1))%nat with (S (k - (w - 1))) by lia.
    rewrite (firstn_S_nth _ _ _ Hx), fvals_app, fvals_single, map_app.
    set (P := fvals (firstn k xs)) in *. set (N := map CF.opp (fvals (firstn (k - (w - 1)) xs))) in *.
    set (V := addop v). set (X := map CF.opp (addop x)).
    eapply Permutation_trans; [apply Permutation_app_tail, IH|].
    rewrite <- !app_assoc. apply Permutation_app_head.
    rewrite !app_assoc. apply Permutation_app_tail, Permutation_app_comm.
Qed.

Lemma emit_ops_perm w xs i :
  (1 <= w)%nat -> (i < length xs)%nat ->
  Permutation (emit_ops w xs i) (fvals (firstn (S i) xs) ++ map CF.opp (fvals (firstn (S i - w) xs))).
Proof.
  intros Hw Hi. unfold emit_ops.
  destruct (nth_error xs i) as [v|] eqn:Hv; [|apply nth_error_None in Hv; lia].
  rewrite (firstn_S_nth _ _ _ Hv), fvals_app, fvals_single.
  replace (S i - w)%nat with (i - (w - 1))%nat by lia.
  eapply Permutation_trans; [apply Permutation_app_tail, (ops_prefix_perm w xs i); lia|].
  rewrite <- !app_assoc. apply Permutation_app_head, Permutation_app_comm.
Qed.

Lemma map_f2r_opp l : map f2r (map CF.opp l) = map Ropp (map f2r l).
Proof. rewrite !map_map. apply map_ext. intros x. apply f2r_opp. Qed.
Lemma sumR_map_opp l : sumR (map Ropp l) = - sumR l.
Proof. induction l as [|a l IH]; [cbn; ring|]. cbn [map]. rewrite !sumR_cons, IH. ring. Qed.
Lemma sumabs_map_opp l : sumabs (map Ropp l) = sumabs l.
Proof. unfold sumabs. rewrite map_map. f_equal. apply map_ext. intros x. apply Rabs_Ropp. Qed.

(* number of additions / subtractions performed up to the emit of step i, and the magnitude they moved *)
Definition nops (w : nat) (xs : list float) (i : nat) : nat :=
  (length (fvals (firstn (S i) xs)) + length (fvals (firstn (S i - w) xs)))%nat.
Definition habs (w : nat) (xs : list float) (i : nat) : R :=
  sumabs (rvals64 (firstn (S i) xs)) + sumabs (rvals64 (firstn (S i - w) xs)).

Lemma emit_ops_length w xs i : (1 <= w)%nat -> (i < length xs)%nat -> length (emit_ops w xs i) = nops w xs i.
Proof.
  intros Hw Hi. rewrite (Permutation_length (emit_ops_perm w xs i Hw Hi)), app_length, map_length. reflexivity.
Qed.
Lemma emit_ops_sumabs w xs i :
  (1 <= w)%nat -> (i < length xs)%nat -> sumabs (map f2r (emit_ops w xs i)) = habs w xs i.
Proof.
  intros Hw Hi. rewrite (sumabs_perm _ _ (Permutation_map f2r (emit_ops_perm w xs i Hw Hi))).
  rewrite map_app, sumabs_app, map_f2r_opp, sumabs_map_opp. reflexivity.
Qed.
(* the exact value of the operand sum is the exact sum of the window: nothing of the history is left *)
Lemma emit_ops_sum w xs i :
  (1 <= w)%nat -> (i < length xs)%nat -> sumR (map f2r (emit_ops w xs i)) = sumR (rvals64 (win w i xs)).
Proof.
  intros Hw Hi. rewrite (sumR_perm (Permutation_map f2r (emit_ops_perm w xs i Hw Hi))).
  rewrite map_app, sumR_app, map_f2r_opp, sumR_map_opp.
  rewrite win_seg. unfold wstart.
  rewrite (firstn_seg_split (S i - w) (S i) xs) by lia.
  fold (rvals64 (firstn (S i - w) xs ++ seg (S i - w) (S i) xs)).
  rewrite rvals64_app, sumR_app. fold (rvals64 (firstn (S i - w) xs)). ring.
Qed.

(* the accumulator behind output i *)
Lemma ts_vsum_output w mp body xs i o :
  (1 <= w)%nat ->
  nth_error (ts_out (ts_vsum_f (NA := NumF64) (DT := IsNoneF64) w mp) body w xs) i = Some o ->
  ffin o = true -> (i < length xs)%nat /\ o = ffold zero (emit_ops w xs i).
Proof.
  intros Hw Ho Hf. unfold ts_out in Ho. rewrite ts_run_iter in Ho by exact Hw.
  fold (rargs w xs) in Ho.
  assert (Hi : (i < length xs)%nat).
  { match type of Ho with nth_error ?l _ = _ =>
      assert (H : (i < length l)%nat) by (apply nth_error_Some; rewrite Ho; discriminate) end.
    rewrite run_length in H. unfold rargs in H. rewrite mapi_length in H. exact H. }
  split; [exact Hi|].
  destruct (nth_error xs i) as [v|] eqn:Hv; [|apply nth_error_None in Hv; lia].
  assert (Ha : nth_error (rargs w xs) i = Some (removed w xs i, v)).
  { unfold rargs. rewrite nth_error_mapi, Hv. reflexivity. }
  rewrite (@run_nth _ _ _ _ _ _ _ _ Ha) in Ho.
  set (s := state_after _ _ _) in Ho.
  assert (Hs : m_s1 s = ffold zero (ops_of (firstn i (rargs w xs))))
    by exact (s1_state_after (emit_sum (mp_eff mp w 0)) mom0 (firstn i (rargs w xs))).
  clearbody s. injection Ho as <-.
  unfold emit_ops. rewrite Hv, ffold_app, <- Hs.
  unfold feat_cb in *. cbn [snd fst ts_vsum_f mom_feat f_emit f_pre] in *. unfold emit_sum in *.
  destruct (mp_eff mp w 0 <=? _); [|discriminate].
  apply (s1_pre (emit_sum (mp_eff mp w 0)) s v).
Qed.

Notation ts_vsum64 w mp := (ts_vsum_f (NA := NumF64) (DT := IsNoneF64) w mp).

(* after ANY history: the emitted accumulator differs from the exact window sum by at most
   ((1+u)^m - 1) * H,  m = number of additions and subtractions performed so far, H = the magnitude they moved *)
Theorem ts_vsum_binary64_error w mp body xs i o :
  (1 <= w)%nat -> nth_error (ts_out (ts_vsum64 w mp) body w xs) i = Some o -> ffin o = true ->
  Rabs (f2r o - sumR (rvals64 (win w i xs))) <= gam u64 (nops w xs i) * habs w xs i.
Proof.
  intros Hw Ho Hf. destruct (ts_vsum_output w mp body xs i o Hw Ho Hf) as [Hi ->].
  rewrite <- (emit_ops_sum w xs i Hw Hi), <- (emit_ops_length w xs i Hw Hi), <- (emit_ops_sumabs w xs i Hw Hi).
  apply round_sum_fold, Hf.
Qed.

(* the drift is bounded by the number of operations: at most 2i+1 of them, moving at most twice the history *)
Lemma length_fvals_le l : (length (fvals l) <= length l)%nat.
Proof.
  unfold fvals, vals, valid_elems. rewrite map_length.
  induction l as [|a l IH]; [apply le_n|]. cbn [filter length]. destruct (not_none a); cbn [length]; lia.
Qed.
Lemma nops_le w xs i : (1 <= w)%nat -> (nops w xs i <= 2 * i + 1)%nat.
Proof.
  intros Hw. unfold nops.
  pose proof (length_fvals_le (firstn (S i) xs)) as H1. pose proof (length_fvals_le (firstn (S i - w) xs)) as H2.
  rewrite firstn_length in H1, H2. lia.
Qed.
Lemma habs_le w xs i : habs w xs i <= 2 * sumabs (rvals64 (firstn (S i) xs)).
Proof.
  unfold habs. destruct (Nat.le_gt_cases (S i - w) (S i)) as [H|H]; [|lia].
  rewrite (firstn_seg_split (S i - w) (S i) xs H), rvals64_app, sumabs_app.
  pose proof (sumabs_nonneg (rvals64 (seg (S i - w) (S i) xs))). lra.
Qed.
Corollary ts_vsum_binary64_drift w mp body xs i o :
  (1 <= w)%nat -> nth_error (ts_out (ts_vsum64 w mp) body w xs) i = Some o -> ffin o = true ->
  Rabs (f2r o - sumR (rvals64 (win w i xs)))
  <= INR (2 * i + 1) * u64 * (1 + u64) ^ (2 * i + 1) * (2 * sumabs (rvals64 (firstn (S i) xs))).
Proof.
  intros Hw Ho Hf. eapply Rle_trans; [apply (ts_vsum_binary64_error w mp body xs i o Hw Ho Hf)|].
  pose proof (gam_nonneg u64 (nops w xs i) u64_nonneg) as G0.
  pose proof (gam_mono u64 _ _ u64_nonneg (nops_le w xs i Hw)) as G1.
  pose proof (gam_le_linear u64 (2 * i + 1) u64_nonneg) as G2.
  pose proof (habs_le w xs i) as H1.
  assert (H0 : 0 <= habs w xs i).
  { unfold habs. pose proof (sumabs_nonneg (rvals64 (firstn (S i) xs))).
    pose proof (sumabs_nonneg (rvals64 (firstn (S i - w) xs))). lra. }
  apply Rmult_le_compat; lra.
Qed.

(* running form: (number of operations) * u * (largest accumulator value so far) *)
Fixpoint fpartials (s : float) (ys : list float) : list float :=
  match ys with [] => [] | y :: r => (s + y)%float :: fpartials (s + y)%float r end.
Lemma fpartials_real s ys :
  ffin (ffold s ys) = true -> map f2r (fpartials s ys) = rpartials rnd64 (f2r s) (map f2r ys).
Proof.
  revert s; induction ys as [|y ys IH]; intros s H; [reflexivity|].
  cbn [ffold fold_left] in H. fold (ffold (s + y)%float ys) in H.
  destruct (ffold_finite_inv _ _ H) as [H1 _].
  cbn [fpartials map rpartials]. rewrite <- (add_finite_val _ _ H1). f_equal. apply IH, H.
Qed.
(* every accumulator value the run has gone through up to the emit of step i *)
Definition accumulators (w : nat) (xs : list float) (i : nat) : list float := fpartials zero (emit_ops w xs i).

Theorem ts_vsum_binary64_error_running w mp body xs i o M :
  (1 <= w)%nat -> nth_error (ts_out (ts_vsum64 w mp) body w xs) i = Some o -> ffin o = true ->
  Forall (fun a => Rabs (f2r a) <= M) (accumulators w xs i) ->
  Rabs (f2r o - sumR (rvals64 (win w i xs))) <= INR (nops w xs i) * u64 * M.
Proof.
  intros Hw Ho Hf HM. destruct (ts_vsum_output w mp body xs i o Hw Ho Hf) as [Hi ->].
  rewrite <- (emit_ops_sum w xs i Hw Hi), <- (emit_ops_length w xs i Hw Hi).
  rewrite (ffold_real _ _ Hf), f2r_zero.

  pose proof (rfold_error_running fmt64 rnd64 fmt64_rnd u64 u64_nonneg rnd64_add_err' 0 (map f2r (emit_ops w xs i)) M
                fmt64_0 (Forall_fmt64_map _)) as HE.
  rewrite map_length, Rplus_0_l in HE. apply HE.
  rewrite <- f2r_zero, <- (fpartials_real _ _ Hf). unfold accumulators in HM.
  apply Forall_map. exact HM.
Qed.
Corollary ts_vsum_binary64_drift_running w mp body xs i o M :
  (1 <= w)%nat -> nth_error (ts_out (ts_vsum64 w mp) body w xs) i = Some o -> ffin o = true ->
  0 <= M -> Forall (fun a => Rabs (f2r a) <= M) (accumulators w xs i) ->
  Rabs (f2r o - sumR (rvals64 (win w i xs))) <= INR (2 * i + 1) * u64 * M.
Proof.
  intros Hw Ho Hf HM0 HM. eapply Rle_trans; [apply (ts_vsum_binary64_error_running w mp body xs i o M Hw Ho Hf HM)|].
  apply Rmult_le_compat_r; [exact HM0|]. apply Rmult_le_compat_r; [apply u64_nonneg|].
  apply le_INR, nops_le, Hw.
Qed.

(* C06, quantitatively: two histories followed by the same window give sums that differ by at most the two
   rounding bounds — "replacing the pre-window history changes the result by at most rounding error" *)
Theorem ts_vsum_history_independence_up_to_rounding w mp body1 body2 xs ys i j o1 o2 :
  (1 <= w)%nat -> win w i xs = win w j ys ->
  nth_error (ts_out (ts_vsum64 w mp) body1 w xs) i = Some o1 ->
  nth_error (ts_out (ts_vsum64 w mp) body2 w ys) j = Some o2 ->
  ffin o1 = true -> ffin o2 = true ->
  Rabs (f2r o1 - f2r o2) <= gam u64 (nops w xs i) * habs w xs i + gam u64 (nops w ys j) * habs w ys j.
Proof.
  intros Hw HW H1 H2 F1 F2.
  pose proof (ts_vsum_binary64_error w mp body1 xs i o1 Hw H1 F1) as E1.
  pose proof (ts_vsum_binary64_error w mp body2 ys j o2 Hw H2 F2) as E2.
  rewrite HW in E1. set (S := sumR (rvals64 (win w j ys))) in *.
  replace (f2r o1 - f2r o2) with ((f2r o1 - S) + - (f2r o2 - S)) by ring.
  eapply Rle_trans; [apply Rabs_triang|]. rewrite Rabs_Ropp. lra.
Qed.

(* ---- an executable test for "finite and an integer multiple of 2^e" -------------------------------- *)
Definition pow2 (e : Z) : R := bpow radix2 e.

Definition grid_check (e : Z) (x : float) : bool :=
  match Prim2SF x with
  | S754_zero _ => true
  | S754_finite _ m ex => if (e <=? ex)%Z then true else (Zpos m mod 2 ^ (e - ex) =? 0)%Z
  | _ => false
  end.

Lemma grid_check_ok e x : grid_check e x = true -> fgrid e x.
Proof.
  unfold grid_check, fgrid. rewrite ffin_equiv. unfold f2r. rewrite <- FP.B2SF_Prim2B.
  destruct (FP.Prim2B x) as [s|s| |s m ex Hb]; cbn [B2SF is_finite B2R]; try discriminate.
  - intros _. split; [reflexivity|apply grid_0].
  - intros H. split; [reflexivity|]. unfold F2R. cbn [Fnum Fexp].
    destruct (e <=? ex)%Z eqn:E.
    + apply Z.leb_le in E. exists (cond_Zopp s (Z.pos m) * 2 ^ (ex - e))%Z.
      rewrite mult_IZR, (IZR_Zpower radix2) by lia. rewrite Rmult_assoc, <- bpow_plus. do 2 f_equal. lia.
    + apply Z.leb_gt in E. apply Z.eqb_eq in H.
      assert (Hp : (0 < 2 ^ (e - ex))%Z) by (apply Z.pow_pos_nonneg; lia).
      pose proof (Z_div_mod_eq_full (Z.pos m) (2 ^ (e - ex))) as Hd. rewrite H, Z.add_0_r in Hd.
      exists (cond_Zopp s (Z.pos m / 2 ^ (e - ex)))%Z.
      replace (cond_Zopp s (Z.pos m)) with (cond_Zopp s (Z.pos m / 2 ^ (e - ex)) * 2 ^ (e - ex))%Z.
      * rewrite mult_IZR, (IZR_Zpower radix2) by lia. rewrite Rmult_assoc, <- bpow_plus. do 2 f_equal. lia.
      * rewrite Hd at 2. destruct s; cbn [cond_Zopp]; ring.
Qed.
Lemma grid_check_all e l : forallb (grid_check e) l = true -> Forall (fgrid e) l.
Proof. intros H. apply Forall_forall. intros x Hx. apply grid_check_ok. exact (proj1 (forallb_forall _ _) H x Hx). Qed.

(* ---- the rolling sum on a dyadic grid: model(float) = model(option R) ------------------------------ *)
(* the count field tracks the number of valid elements of the window (generic sliding invariant) *)
Definition cnt_abs (s : @mom float) (l : list float) : Prop := m_n s = length (fvals l).

Lemma cnt_state_after emit w xs k :
  (1 <= w)%nat -> (k <= length xs)%nat ->
  cnt_abs (state_after (feat_cb (mom_feat (NA := NumF64) (DT := IsNoneF64) emit)) mom0 (firstn k (rargs w xs)))
          (seg (k - (w - 1)) k xs).
Proof.
  intros Hw Hk.
  apply (state_after_abs (mom_feat (NA := NumF64) (DT := IsNoneF64) emit) cnt_abs); try assumption.
  - reflexivity.
  - intros s l v H. unfold cnt_abs in *. rewrite fvals_app, fvals_single, app_length.
    cbn [mom_feat f_pre]. unfold mom_pre, addop. destruct (not_none v); cbn [mom_add m_n length]; lia.
  - intros s x l H. unfold cnt_abs in *. change (x :: l) with ([x] ++ l) in H.
    rewrite fvals_app, fvals_single, app_length in H.
    cbn [mom_feat f_post]. unfold mom_post. unfold addop in H.
    destruct (not_none x); cbn [mom_sub m_n length] in *; lia.
  - reflexivity.
Qed.

(* the state behind output i: its sum field is the float fold over the operands, its count the window count *)
Lemma ts_vsum_emit_state w mp body xs i v :
  (1 <= w)%nat -> nth_error xs i = Some v ->
  exists s : @mom float,
    nth_error (ts_out (ts_vsum64 w mp) body w xs) i = Some (emit_sum (mp_eff mp w 0) s) /\
    m_s1 s = ffold zero (emit_ops w xs i) /\ m_n s = length (fvals (win w i xs)).
Proof.
  intros Hw Hv.
  assert (Hi : (i < length xs)%nat) by (apply nth_error_Some; rewrite Hv; discriminate).
  assert (Ha : nth_error (rargs w xs) i = Some (removed w xs i, v)).
  { unfold rargs. rewrite nth_error_mapi, Hv. reflexivity. }
  set (s0 := state_after (feat_cb (ts_vsum64 w mp)) mom0 (firstn i (rargs w xs))).
  exists (mom_pre s0 v). split; [|split].
  - unfold ts_out. rewrite ts_run_iter by exact Hw. fold (rargs w xs).
    rewrite (@run_nth _ _ _ _ _ _ _ _ Ha). reflexivity.
  - unfold emit_ops. rewrite Hv, ffold_app.
    assert (Hs : m_s1 s0 = ffold zero (ops_of (firstn i (rargs w xs))))
      by exact (s1_state_after (emit_sum (mp_eff mp w 0)) mom0 (firstn i (rargs w xs))).
    rewrite <- Hs. exact (s1_pre (emit_sum (mp_eff mp w 0)) s0 v).
  - pose proof (cnt_state_after (emit_sum (mp_eff mp w 0)) w xs i Hw ltac:(lia)) as HC.
    fold s0 in HC || change (cnt_abs s0 (seg (i - (w - 1)) i xs)) in HC.
    unfold cnt_abs in HC.
    rewrite win_seg. unfold wstart. replace (S i - w)%nat with (i - (w - 1))%nat by lia.
    rewrite (@seg_snoc _ (i - (w - 1)) i xs v) by (try lia; exact Hv).
    rewrite fvals_app, fvals_single, app_length, <- HC.
    unfold mom_pre, addop. destruct (not_none v); cbn [mom_add m_n length]; lia.
Qed.

Lemma win_map {X Y} (f : X -> Y) w i xs : win w i (map f xs) = map f (win w i xs).
Proof. unfold win. rewrite skipn_map, firstn_map. reflexivity. Qed.
Lemma valid_map_fx l : valid (map fx l) = rvals64 l.
Proof.
  unfold rvals64, fvals. induction l as [|x l IH]; [reflexivity|].
  cbn [map]. rewrite vals_cons, not_none_f64. change (valid (fx x :: map fx l)) with
    (match fx x with Some r => [r] | None => [] end ++ valid (map fx l)).
  rewrite IH. unfold fx. destruct (CF.is_nan x); reflexivity.
Qed.

Lemma Forall_fgrid_prefix e xs k : Forall (fgrid e) (fvals xs) -> Forall (fgrid e) (fvals (firstn k xs)).
Proof.
  intros H. rewrite <- (firstn_skipn k xs), fvals_app in H. apply Forall_app in H. exact (proj1 H).
Qed.
Lemma fgrid_opp e x : fgrid e x -> fgrid e (- x)%float.
Proof. intros [H1 H2]. split; [rewrite ffin_opp; exact H1|rewrite f2r_opp; apply grid_opp, H2]. Qed.
Lemma sumabs_prefix_le xs k : sumabs (rvals64 (firstn k xs)) <= sumabs (rvals64 xs).
Proof.
  rewrite <- (firstn_skipn k xs) at 2. rewrite rvals64_app, sumabs_app.
  pose proof (sumabs_nonneg (rvals64 (skipn k xs))). lra.
Qed.

Theorem ts_vsum_f64_exact_on_grid e w mp body xs :
  (1 <= w)%nat -> (-1074 <= e <= 971)%Z ->
  Forall (fgrid e) (fvals xs) -> 2 * sumabs (rvals64 xs) < pow2 (e + 53) ->
  map fx (ts_out (ts_vsum64 w mp) body w xs)
  = ts_out (ts_vsum_f (NA := NumXR) (DT := IsNoneXR) w mp) body w (map fx xs).
Proof.
  intros Hw He HG Hb.
  destruct (mom_entry (emit_sum (mp_eff mp w 0))
              (fun V => if mp_eff mp w 0 <=? length V then Some (sumR V) else None) body w (map fx xs) Hw)
    as (outx & Hrun & Hlen & Hout).
  { intros s W HA. apply emit_sum_spec. exact HA. }
  destruct (ts_run_total (ts_vsum64 w mp) w xs body Hw) as (outf & Hrunf & Hlenf).
  unfold ts_out. change (ts_vsum_f (NA := NumXR) (DT := IsNoneXR) w mp) with (mom_feat (NA := NumXR) (DT := IsNoneXR) (emit_sum (mp_eff mp w 0))).
  rewrite Hrun, Hrunf. apply nth_error_ext. intros i. rewrite nth_error_map.
  destruct (nth_error xs i) as [v|] eqn:Hv.
  - assert (Hi : (i < length xs)%nat) by (apply nth_error_Some; rewrite Hv; discriminate).
    destruct (ts_vsum_emit_state w mp body xs i v Hw Hv) as (s & Ho & Hs1 & Hn).
    unfold ts_out in Ho. rewrite Hrunf in Ho. rewrite Ho. cbn [option_map].
    rewrite Hout by (rewrite map_length; exact Hi). f_equal.
    rewrite win_map, valid_map_fx. unfold rvals64 at 1. rewrite map_length.
    unfold emit_sum. rewrite Hn. destruct (mp_eff mp w 0 <=? length (fvals (win w i xs))); [|reflexivity].
    destruct (ffold_exact_grid e zero (emit_ops w xs i) He) as [H1 H2].
    + split; [reflexivity|]. rewrite f2r_zero. apply grid_0.
    + apply (Permutation_Forall (Permutation_sym (emit_ops_perm w xs i Hw Hi))).
      apply Forall_app. split; [apply Forall_fgrid_prefix, HG|].
      apply Forall_map. eapply Forall_impl; [intros a; apply fgrid_opp|]. apply Forall_fgrid_prefix, HG.
    + rewrite f2r_zero, Rabs_R0, Rplus_0_l, (emit_ops_sumabs w xs i Hw Hi).
      pose proof (habs_le w xs i). pose proof (sumabs_prefix_le xs (S i)). unfold pow2 in Hb. lra.
    + rewrite Hs1. unfold fx. rewrite (ffin_not_nan _ H1), H2, f2r_zero, Rplus_0_l.
      rewrite (emit_ops_sum w xs i Hw Hi). reflexivity.
  - apply nth_error_None in Hv.
    replace (nth_error outf i) with (@None float) by (symmetry; apply nth_error_None; lia).
    symmetry. apply nth_error_None. rewrite Hlen, map_length. exact Hv.
Qed.
