(* Proofs/TimeAccess.v — laws of the accessors of Model/TimeAccess.v (extension X9). *)
From Coq Require Import ZArith Bool Lia.
From Tevec Require Import Base.Prelude Model.Time Proofs.Time Model.TimeAccess.
Local Open Scope Z_scope.

Lemma is_not_nat_negb x : is_not_nat x = negb (is_nat x).
Proof. reflexivity. Qed.

Lemma is_not_nat_iff x : is_not_nat x = true <-> x <> NaT.
Proof.
  unfold is_not_nat, NaT. rewrite negb_true_iff. split.
  - intros H E. apply Z.eqb_neq in H. contradiction.
  - intros H. apply Z.eqb_neq. exact H.
Qed.

Lemma is_not_nat_opt x : is_not_nat x = true <-> into_opt_i64 x = Some x.
Proof.
  unfold is_not_nat, into_opt_i64, is_nat, NaT. destruct (x =? i64_min); cbn; split; congruence.
Qed.

Lemma is_not_nat_NaT : is_not_nat NaT = false.
Proof. reflexivity. Qed.

Lemma td_is_not_nat_negb d : td_is_not_nat d = negb (td_is_nat d).
Proof. reflexivity. Qed.

Lemma td_from_i64_not_nat v : td_is_not_nat (td_from_i64 v) = is_not_nat v.
Proof.
  unfold td_from_i64, td_is_not_nat, is_not_nat. destruct (v =? i64_min); reflexivity.
Qed.

(* Option<i64> view: both round trips *)
Lemma into_from_opt_i64 o : o <> Some NaT -> into_opt_i64 (from_opt_i64 o) = o.
Proof.
  destruct o as [v|]; intros H; [|reflexivity].
  unfold from_opt_i64, into_opt_i64, is_nat. destruct (v =? NaT) eqn:E; [|reflexivity].
  apply Z.eqb_eq in E. subst v. contradiction.
Qed.

Lemma into_from_opt_i64_collapse : into_opt_i64 (from_opt_i64 (Some NaT)) = None.
Proof. reflexivity. Qed.

Lemma from_into_opt_i64' x : from_opt_i64 (into_opt_i64 x) = x.
Proof.
  unfold from_opt_i64, into_opt_i64, is_nat. destruct (x =? NaT) eqn:E; [|reflexivity].
  apply Z.eqb_eq in E. symmetry. exact E.
Qed.

(* the raw TryFrom agrees with as_cr on EVERY timestamp of every unit, NaT included: for s / ms / us NaT lies
   outside chrono's date range, for ns the impl tests it *)
Lemma try_from_cr_as_cr u x : try_from_cr u x = as_cr u x.
Proof.
  unfold try_from_cr, as_cr. destruct (is_nat x) eqn:E; [|reflexivity].
  unfold is_nat in E. apply Z.eqb_eq in E. subst x. destruct u; reflexivity.
Qed.

Lemma try_from_cr_nat u : try_from_cr u NaT = None.
Proof. destruct u; reflexivity. Qed.

Lemma try_from_cr_roundtrip u x c : in_i64 x = true -> try_from_cr u x = Some c -> from_cr u c = Ok x.
Proof. rewrite try_from_cr_as_cr. apply as_cr_from_cr. Qed.

Lemma try_from_cr_some_not_nat u x c : try_from_cr u x = Some c -> x <> NaT.
Proof. intros H E. subst x. rewrite try_from_cr_nat in H. discriminate. Qed.

Lemma to_cr_as_cr u x : to_cr u x = as_cr u x.
Proof. reflexivity. Qed.

(* what the nanosecond impl did before the repair: NaT became a valid calendar value *)
Lemma try_from_cr_before_fix_nat :
  try_from_cr_before_fix Nano NaT = Some (mkcr (-9223372037) 145224192) /\ as_cr Nano NaT = None.
Proof. split; reflexivity. Qed.
