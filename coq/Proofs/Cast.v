(* Proofs/Cast.v — lemmas about Model/Cast.v: the IsNone dictionary, the Cast lattice, the sort comparators.
   Everything is proved for an arbitrary float type F and an arbitrary `Ext F` satisfying `ExtLaws` (facts about
   Rust's float `as`, abs, partial_cmp, Display/FromStr that the correspondence run checks on the real thing). *)
From Coq Require Import ZArith List Bool Lia.
From Tevec Require Import Base.Prelude Model.Cast.
Import ListNotations.
Local Open Scope Z_scope.

(* ------------------------------------------------------------------ *)
(* What is assumed of the external float operations *)

Record ExtLaws {F : Type} (X : Ext F) : Prop := {
  nan_is_nan : feq X (f_nan X) (f_nan X) = false;
  abs_nan : forall f, feq X (fabs X f) (fabs X f) = feq X f f;
  round32_nan : forall f, feq X (round32 X f) (round32 X f) = feq X f f;
  z2f32_num : forall z, feq X (z2f32 X z) (z2f32 X z) = true;
  z2f64_num : forall z, feq X (z2f64 X z) (z2f64 X z) = true;
  (* partial_cmp is defined exactly on the non-NaN values and is a total preorder there *)
  fcmp_some : forall a b, feq X a a = true -> feq X b b = true -> exists c, fcmp X a b = Some c;
  fcmp_refl : forall a, feq X a a = true -> fcmp X a a = Some Eq;
  fcmp_antisym : forall a b c, fcmp X a b = Some c -> fcmp X b a = Some (CompOpp c);
  fcmp_trans : forall a b c x y, fcmp X a b = Some x -> fcmp X b c = Some y -> x <> Gt -> y <> Gt ->
                                 exists z, fcmp X a c = Some z /\ z <> Gt;
  (* text: a number is never printed as "None", and "None" is not a number / date / duration *)
  f2s32_num : forall f, feq X f f = true -> str_eqb (f2s32 X f) s_None = false;
  f2s64_num : forall f, feq X f f = true -> str_eqb (f2s64 X f) s_None = false;
  s2f32_None : s2f32 X s_None = None;
  s2f64_None : s2f64 X s_None = None;
  s2dt_None : s2dt X s_None = None;
  s2td_None : s2td X s_None = None;
}.

(* ------------------------------------------------------------------ *)
(* strings *)

Lemma str_eqb_eq (a b : str) : str_eqb a b = true <-> a = b.
Proof.
  revert b; induction a as [|x a IH]; intros [|y b]; cbn; split; intros H; try reflexivity; try discriminate.
  - apply andb_true_iff in H. destruct H as [H1 H2]. apply Z.eqb_eq in H1. apply IH in H2. congruence.
  - injection H as -> ->. rewrite Z.eqb_refl. cbn. apply IH. reflexivity.
Qed.

Lemma str_eqb_refl (a : str) : str_eqb a a = true.
Proof. apply str_eqb_eq. reflexivity. Qed.

Definition digit_head (l : str) : Prop := exists d r, l = d :: r /\ 48 <= d <= 57.

Lemma dec_digits_head k : forall z acc, digit_head acc -> digit_head (dec_digits k z acc).
Proof.
  induction k as [|k IH]; intros z acc H; cbn [dec_digits]; [exact H|].
  assert (H' : digit_head ((48 + z mod 10) :: acc)).
  { exists (48 + z mod 10), acc. split; [reflexivity|]. pose proof (Z.mod_pos_bound z 10 ltac:(lia)). lia. }
  destruct (z <? 10); [exact H'|]. apply IH. exact H'.
Qed.

Lemma digit_head_not_None l : digit_head l -> str_eqb l s_None = false.
Proof.
  intros (d & r & -> & Hd). unfold s_None. cbn [str_eqb].
  replace (d =? 78) with false by (symmetry; apply Z.eqb_neq; lia). reflexivity.
Qed.

Lemma dec_digits_S_head k z : digit_head (dec_digits (S k) z []).
Proof.
  cbn [dec_digits].
  assert (H' : digit_head [48 + z mod 10]).
  { exists (48 + z mod 10), []. split; [reflexivity|]. pose proof (Z.mod_pos_bound z 10 ltac:(lia)). lia. }
  destruct (z <? 10); [exact H'|]. apply dec_digits_head. exact H'.
Qed.

Lemma z_to_string_not_None z : str_eqb (z_to_string z) s_None = false.
Proof.
  unfold z_to_string. destruct (z <? 0).
  - reflexivity.
  - apply digit_head_not_None. exact (dec_digits_S_head 79 z).
Qed.

(* ------------------------------------------------------------------ *)
(* small facts about the sentinels *)

Lemma i64min_is : (i64min =? i64min) = true. Proof. reflexivity. Qed.
Lemma i32min_is : (i32min =? i32min) = true. Proof. reflexivity. Qed.

Section Laws.
  Context {F : Type} (X : Ext F) (L : ExtLaws X).

  Lemma fisnan_nan : fisnan X (f_nan X) = true.
  Proof. unfold fisnan. rewrite (nan_is_nan X L). reflexivity. Qed.

  (* ---------------------------------------------------------------- *)
  (* 1. the null predicates agree *)

  Lemma not_none_negb t (v : val t) : not_none X t v = negb (is_none X t v).
  Proof.
    destruct t as [b|b]; [destruct b as [[]| | | | |]|destruct v]; cbn; unfold fisnan;
      rewrite ?negb_involutive; reflexivity.
  Qed.

  Lemma to_opt_spec t (v : val t) :
    (is_none X t v = true -> to_opt X t v = None) /\
    (is_none X t v = false -> exists x, to_opt X t v = Some x /\ unwrap t v = Ok x).
  Proof.
    destruct t as [b|b]; cbn [is_none to_opt unwrap base].
    - split; intros H; rewrite H; [reflexivity|]. exists v. auto.
    - destruct v as [x|]; split; intros H; try discriminate; [|reflexivity]. exists x. auto.
  Qed.

  Lemma to_opt_none_iff t (v : val t) : to_opt X t v = None <-> is_none X t v = true.
  Proof.
    destruct t as [b|b]; cbn [is_none to_opt].
    - destruct (b_is_none X b v); split; intros H; try reflexivity; discriminate.
    - destruct v; split; intros H; try reflexivity; discriminate.
  Qed.

  Lemma as_opt_to_opt t (v : val t) : as_opt X t v = to_opt X t v.
  Proof. destruct t as [b|b]; cbn; [reflexivity|destruct v; reflexivity]. Qed.

  Lemma unwrap_to_opt t (v : val t) x : to_opt X t v = Some x -> unwrap t v = Ok x.
  Proof.
    destruct t as [b|b]; cbn [to_opt unwrap].
    - destruct (b_is_none X b v); [discriminate|]. intros H; injection H as ->. reflexivity.
    - intros ->. reflexivity.
  Qed.

  Lemma to_opt_some_nonnull t (v : val t) x :
    canonical X t v = true -> to_opt X t v = Some x -> b_is_none X (base t) x = false.
  Proof.
    destruct t as [b|b]; cbn [to_opt canonical base].
    - intros _. destruct (b_is_none X b v) eqn:E; [discriminate|]. intros H; injection H as <-. exact E.
    - intros Hc ->. apply negb_true_iff. exact Hc.
  Qed.

  (* ---------------------------------------------------------------- *)
  (* 2. the null constructor *)

  Lemma none_is_none t w : none X t = Ok w -> is_none X t w = true.
  Proof.
    destruct t as [b|b]; cbn [none is_none].
    - destruct b as [[]| | | | |]; cbn; intros H; try discriminate; injection H as <-;
        try apply fisnan_nan; reflexivity.
    - intros H; injection H as <-. reflexivity.
  Qed.

  Lemma none_defined t : can_null t = true <-> exists w, none X t = Ok w.
  Proof.
    destruct t as [b|b]; cbn [none can_null].
    - destruct b as [[]| | | | |]; cbn; split; intros H; try discriminate; try reflexivity; try (eexists; reflexivity);
        destruct H as [w H]; discriminate.
    - split; [eexists; reflexivity|reflexivity].
  Qed.

  (* ---------------------------------------------------------------- *)
  (* 3. wrapping and unwrapping *)

  Lemma from_inner_nonnull t (x : inner t) :
    b_is_none X (base t) x = false ->
    to_opt X t (from_inner X t x) = Some x /\ unwrap t (from_inner X t x) = Ok x /\
    is_none X t (from_inner X t x) = false.
  Proof.
    destruct t as [b|b]; cbn [from_inner to_opt unwrap is_none base]; intros H; rewrite H; auto.
  Qed.

  Lemma from_inner_null t (x : inner t) :
    b_is_none X (base t) x = true -> is_none X t (from_inner X t x) = true.
  Proof. destruct t as [b|b]; cbn [from_inner is_none base]; intros H; rewrite H; auto. Qed.

  Lemma from_opt_to_opt t (v : val t) :
    canonical X t v = true -> is_none X t v = false -> from_opt X t (to_opt X t v) = Ok v.
  Proof.
    destruct t as [b|b]; cbn [is_none to_opt from_opt from_inner canonical].
    - intros _ H; rewrite H. reflexivity.
    - destruct v as [x|]; [|discriminate]. intros Hc _. cbn.
      apply negb_true_iff in Hc. rewrite Hc. reflexivity.
  Qed.

  Lemma from_opt_null t (v : val t) w :
    is_none X t v = true -> from_opt X t (to_opt X t v) = Ok w -> is_none X t w = true.
  Proof.
    intros H. apply to_opt_none_iff in H. rewrite H. cbn [from_opt]. apply none_is_none.
  Qed.

  Lemma into_cast_plain b (v : bval b) : into_cast X false b v = v.
  Proof. reflexivity. Qed.

  Lemma into_cast_opt b (v : bval b) :
    is_none X (Opt b) (into_cast X true b v) = b_is_none X b v /\
    to_opt X (Opt b) (into_cast X true b v) = to_opt X (Plain b) v /\
    into_cast X true b v = from_inner X (Opt b) v.
  Proof. cbn [into_cast is_none to_opt from_inner]. destruct (b_is_none X b v); auto. Qed.

  (* ---------------------------------------------------------------- *)
  (* 4. vabs *)

  Lemma n_abs_nullness n (x a : nval n) : n_abs X n x = Ok a -> n_is_none X n a = n_is_none X n x.
  Proof.
    destruct n; cbn [n_abs n_is_none]; intros H; try reflexivity;
      injection H as <-; unfold fisnan; rewrite (abs_nan X L); reflexivity.
  Qed.

  Lemma vabs_nullness (shape : bool) (n : nt) (v w : val (if shape then Opt (N n) else Plain (N n))) :
    canonical X (if shape then Opt (N n) else Plain (N n)) v = true ->
    vabs X shape n v = Ok w ->
    is_none X (if shape then Opt (N n) else Plain (N n)) w = is_none X (if shape then Opt (N n) else Plain (N n)) v.
  Proof.
    destruct shape; cbn [vabs is_none canonical b_is_none].
    - destruct v as [x|]; intros Hc H.
      + destruct (n_abs X n x) as [a|k] eqn:E; cbn [bind] in H; [|discriminate]. injection H as <-.
        apply n_abs_nullness in E. rewrite E. apply negb_true_iff in Hc. cbn [b_is_none] in Hc. rewrite Hc. reflexivity.
      + injection H as <-. reflexivity.
    - intros _ H. destruct (n_abs X n v) as [a|k] eqn:E; cbn [bind] in H; [|discriminate]. injection H as <-.
      apply n_abs_nullness. exact E.
  Qed.
End Laws.
