(* Proofs/Audit11.v — audit of property C11 (notes/C11.md, "Audit matrix"): the lemmas behind sections (A1)-(A9)
   of Props/C11.v.
     Part 1  Number helpers of tea-dtype/src/number.rs (Model/AggNumber.v): n_add / n_prod folds, Kahan step,
             floor / ceil, min_with / max_with incl. NaN operands, to / fromas.
     Part 2  iter_traits.rs vfold2 / vapply.
     Part 3  extrema and first arg-extrema over ANY weakly ordered carrier (Spec/ExtremaOrd.v: OrdLaws) — no
             antisymmetry, so binary64 with +0 / -0 is an instance (Proofs/Audit11Float.v); the arg-extreme points
             at the extreme with NO order hypothesis at all.
     Part 4  plain family (AggBasic): first / last / n_sum, arg-extrema on integers and reals, min / max with NaN.
     Part 5  masked sum / mean and two-series functions: permutation of the pairs, zip truncation.
     Part 6  non-canonical input (a valid NaN) and min_periods above the length.
   Parts 1-3 and the list facts are axiom-free; statements over option R use the stdlib Reals axioms only. *)
From Coq Require Import Reals Lra Lia List Permutation Bool ZArith.
From Tevec Require Import Base.Prelude Base.Num Base.XR Spec.Stats Spec.Stats2 Spec.ExtremaOrd
     Model.Agg Model.AggNumber Proofs.AggGeneric Proofs.AggOrder Proofs.AggXR Proofs.Agg Proofs.OrderXR.
Import ListNotations.
Set Implicit Arguments.

(* ===================================================================================================== *)
(* Part 1 — Number helpers                                                                                *)
(* ===================================================================================================== *)
Section NumberGeneric.
  Context {A : Type} {NA : Num A} {DN : IsNone A A}.

  (* what one call does, on a null and on a non-null `other` (`self` is never looked at) *)
  Lemma n_add_cases (self other : A) (n : nat) :
    (is_none other = true -> n_add self other n = (self, n)) /\
    (is_none other = false -> n_add self other n = (nadd self other, S n)).
  Proof. unfold n_add, not_none. split; intros ->; reflexivity. Qed.
  Lemma n_prod_cases (self other : A) (n : nat) :
    (is_none other = true -> n_prod self other n = (self, n)) /\
    (is_none other = false -> n_prod self other n = (nmul self other, S n)).
  Proof. unfold n_prod, not_none. split; intros ->; reflexivity. Qed.

End NumberGeneric.

(* the folds are stated for the two kinds of dictionaries a Number type has: unwrap is the identity *)
Definition unwrap_id {A} (DN : IsNone A A) : Prop := forall x : A, unwrap x = x.
Lemma unwrap_id_float {A} {NA : Num A} : unwrap_id (@IsNone_float A NA).
Proof. intros x. reflexivity. Qed.
Lemma unwrap_id_plain {A} : unwrap_id (@IsNone_plain A).
Proof. intros x. reflexivity. Qed.

Section NumberFolds.
  Context {A : Type} {NA : Num A} {DN : IsNone A A}.
  Hypothesis Hun : unwrap_id DN.

  Lemma n_fold_gen (op : A -> A -> A) (xs : list A) (s : A) (n0 : nat) :
    fold_left (fun sn v => if not_none v then (op (fst sn) v, S (snd sn)) else (fst sn, snd sn)) xs (s, n0)
    = (fold_left op (vals xs) s, n0 + length (vals xs)).
  Proof.
    revert s n0. induction xs as [|v xs IH]; intros s n0; cbn [fold_left].
    - cbn. f_equal. lia.
    - rewrite vals_cons. destruct (not_none v) eqn:E; cbn [fst snd].
      + rewrite IH. cbn [fold_left length]. rewrite (Hun v). f_equal. lia.
      + destruct (s, n0) eqn:P. injection P as <- <-. apply IH.
  Qed.

  Lemma vals_unwrap_id (xs : list A) : vals xs = filter (fun v => not_none v) xs.
  Proof. unfold vals, valid_elems. rewrite (map_ext _ (fun x => x) Hun), map_id. reflexivity. Qed.

  (* folding n_add over a series: (sum of the non-null elements added to init in order, their number) —
     i.e. exactly what vfold_n / vsum compute (Model/Agg.v) *)
  Theorem n_add_fold_spec (init : A) (xs : list A) :
    n_add_fold init xs = (fold_left nadd (vals xs) init, length (vals xs)).
  Proof.
    unfold n_add_fold.
    rewrite (fold_left_ext (fun sn v => n_add (fst sn) v (snd sn))
               (fun sn v => if not_none v then (nadd (fst sn) v, S (snd sn)) else (fst sn, snd sn))).
    - rewrite n_fold_gen. reflexivity.
    - intros sn v. unfold n_add. reflexivity.
  Qed.
  Theorem n_prod_fold_spec (init : A) (xs : list A) :
    n_prod_fold init xs = (fold_left nmul (vals xs) init, length (vals xs)).
  Proof.
    unfold n_prod_fold.
    rewrite (fold_left_ext (fun sn v => n_prod (fst sn) v (snd sn))
               (fun sn v => if not_none v then (nmul (fst sn) v, S (snd sn)) else (fst sn, snd sn))).
    - rewrite n_fold_gen. reflexivity.
    - intros sn v. unfold n_prod. reflexivity.
  Qed.

  Theorem n_add_fold_is_vfold_n (xs : list A) :
    n_add_fold nzero xs = (snd (vfold_n (fun acc x => nadd acc x) nzero xs), fst (vfold_n (fun acc x => nadd acc x) nzero xs)).
  Proof. rewrite n_add_fold_spec, vfold_n_spec. reflexivity. Qed.

  Theorem n_add_fold_is_vsum (xs : list A) :
    vsum xs = if (1 <=? snd (n_add_fold nzero xs))%nat then Some (fst (n_add_fold nzero xs)) else None.
  Proof. unfold vsum. rewrite n_add_fold_spec, vfold_n_spec. reflexivity. Qed.
End NumberFolds.

(* ---- Kahan step: exact carriers --------------------------------------------------------------------- *)
(* integers: the compensation term is always 0 and the running sum is the plain sum *)
Lemma kh_sum_Z (s v c : Z) : kh_sum (NA := AggNumZ) s v c = ((s + (v - c))%Z, 0%Z).
Proof. unfold kh_sum. cbn. f_equal. lia. Qed.
Theorem kh_fold_Z (xs : list Z) : kh_fold (NA := AggNumZ) xs = (sumZ xs, 0%Z).
Proof.
  unfold kh_fold. change (@nzero Z AggNumZ) with 0%Z.
  assert (G : forall l s, fold_left (fun sc v => kh_sum (NA := AggNumZ) (fst sc) v (snd sc)) l (s, 0%Z)
                          = ((s + sumZ l)%Z, 0%Z)).
  { induction l as [|v l IH]; intros s; cbn [fold_left fst snd].
    - cbn. f_equal. lia.
    - rewrite kh_sum_Z, IH. unfold sumZ. cbn [fold_right]. f_equal. lia. }
  rewrite G. reflexivity.
Qed.

Local Open Scope R_scope.
(* option R (exact reals): the compensation is exactly 0 — Kahan summation is the plain sum without rounding *)
Lemma kh_sum_XR (s v c : R) : kh_sum (Some s) (Some v) (Some c) = (Some (s + (v - c)), Some 0).
Proof. unfold kh_sum. cbn. f_equal. f_equal. ring. Qed.
Theorem kh_fold_XR (V : list R) : kh_fold (map Some V) = (Some (sumR V), Some 0).
Proof.
  unfold kh_fold. change (@nzero XR NumXR) with (Some 0).
  assert (G : forall l s, fold_left (fun sc v => kh_sum (fst sc) v (snd sc)) (map Some l) (Some s, Some 0)
                          = (Some (s + sumR l), Some 0)).
  { induction l as [|v l IH]; intros s; cbn [fold_left map fst snd].
    - rewrite sumR_nil. f_equal. f_equal. ring.
    - rewrite kh_sum_XR. replace (s + (v - 0)) with (s + v) by ring. rewrite IH, sumR_cons. f_equal. f_equal. ring. }
  rewrite G. f_equal. f_equal. ring.
Qed.
(* no null test: a NaN operand poisons the sum AND the compensation, for good *)
Lemma kh_sum_XR_nan_v (s c : XR) : kh_sum s None c = (None, None).
Proof. unfold kh_sum. destruct s, c; reflexivity. Qed.
Lemma kh_fold_XR_poisoned (l : list XR) :
  fold_left (fun sc v => kh_sum (fst sc) v (snd sc)) l (None, None) = (None : XR, None : XR).
Proof. induction l as [|v l IH]; [reflexivity|]. cbn [fold_left fst snd]. unfold kh_sum at 2. cbn. exact IH. Qed.
Theorem kh_fold_XR_nan (xs : list XR) : In None xs -> kh_fold xs = (None, None).
Proof.
  unfold kh_fold. generalize (@nzero XR NumXR, @nzero XR NumXR). induction xs as [|v xs IH]; intros sc [].
  - subst v. cbn [fold_left]. rewrite kh_sum_XR_nan_v. apply kh_fold_XR_poisoned.
  - cbn [fold_left]. apply IH. assumption.
Qed.

(* ---- floor / ceil ----------------------------------------------------------------------------------- *)
Definition NumRoundXR : NumRound XR :=
  {| nfloor := fun a => match a with Some x => Some (IZR (Rfloor x)) | None => None end;
     nceil := fun a => match a with Some x => Some (IZR (Rceil x)) | None => None end |}.

Theorem number_floor_ceil_Z (z : Z) :
  number_floor (NR := NumRoundZ) z = z /\ number_ceil (NR := NumRoundZ) z = z.
Proof. split; reflexivity. Qed.

Theorem number_floor_XR (a : XR) :
  match a with
  | None => number_floor (NR := NumRoundXR) a = None /\ number_ceil (NR := NumRoundXR) a = None
  | Some x => exists f c : Z,
      number_floor (NR := NumRoundXR) a = Some (IZR f) /\ number_ceil (NR := NumRoundXR) a = Some (IZR c) /\
      IZR f <= x < IZR f + 1 /\ IZR c - 1 < x <= IZR c /\ c = (- Rfloor (- x))%Z
  end.
Proof.
  destruct a as [x|]; [|split; reflexivity].
  exists (Rfloor x), (Rceil x). repeat split; try apply Rfloor_spec; try apply Rceil_spec.
Qed.

(* ---- min_with / max_with: every operand, NaN included ----------------------------------------------- *)
Section MinMaxWith.
  Context {A : Type} {NA : Num A}.
  (* the result is one of the operands; `other` wins only when strictly better *)
  Lemma min_with_cases (s o : A) :
    (nltb o s = true /\ min_with s o = o) \/ (nltb o s = false /\ min_with s o = s).
  Proof. unfold min_with. destruct (nltb o s); [left|right]; split; reflexivity. Qed.
  Lemma max_with_cases (s o : A) :
    (nltb s o = true /\ max_with s o = o) \/ (nltb s o = false /\ max_with s o = s).
  Proof. unfold max_with. destruct (nltb s o); [left|right]; split; reflexivity. Qed.

  (* a carrier whose `<` is false on NaN (IEEE): a NaN `other` is ignored, a NaN `self` STAYS *)
  Hypothesis lt_nan_l : forall a b, nisnan a = true -> nltb a b = false.
  Hypothesis lt_nan_r : forall a b, nisnan b = true -> nltb a b = false.
  Theorem min_max_with_nan (s o : A) :
    (nisnan o = true -> min_with s o = s /\ max_with s o = s) /\
    (nisnan s = true -> min_with s o = s /\ max_with s o = s).
  Proof.
    unfold min_with, max_with. split; intros H.
    - rewrite (lt_nan_l o s H), (lt_nan_r s o H). split; reflexivity.
    - rewrite (lt_nan_r o s H), (lt_nan_l s o H). split; reflexivity.
  Qed.

  (* on non-NaN operands of a weakly ordered carrier: a lower / upper bound of both *)
  Hypothesis OL : OrdLaws A.
  Theorem min_max_with_ord (s o : A) :
    num_ok s -> num_ok o ->
    nltb s (min_with s o) = false /\ nltb o (min_with s o) = false /\
    nltb (max_with s o) s = false /\ nltb (max_with s o) o = false.
  Proof.
    intros Hs Ho. pose proof (dl_irrefl (dir_lt OL)) as Irr. unfold min_with, max_with.
    destruct (nltb o s) eqn:E1, (nltb s o) eqn:E2.
    - pose proof (ol_asym OL o s Ho Hs E1) as C. congruence.
    - repeat split; first [assumption | apply Irr; assumption].
    - repeat split; first [assumption | apply Irr; assumption].
    - repeat split; first [assumption | apply Irr; assumption].
  Qed.
End MinMaxWith.

Lemma xlt_nan_l (a b : XR) : nisnan a = true -> nltb a b = false.
Proof. destruct a; [discriminate|reflexivity]. Qed.
Lemma xlt_nan_r (a b : XR) : nisnan b = true -> nltb a b = false.
Proof. destruct b; [discriminate|]. destruct a; reflexivity. Qed.

Theorem min_max_with_XR (x y : R) :
  min_with (Some x) (Some y) = Some (Rmin x y) /\ max_with (Some x) (Some y) = Some (Rmax x y).
Proof.
  unfold min_with, max_with. cbn [nltb NumXR xltb]. split.
  - destruct (Rlt_dec y x) as [H|H]; f_equal; [rewrite Rmin_right by lra|rewrite Rmin_left by lra]; reflexivity.
  - destruct (Rlt_dec x y) as [H|H]; f_equal; [rewrite Rmax_right by lra|rewrite Rmax_left by lra]; reflexivity.
Qed.
Theorem min_max_with_Z (x y : Z) :
  min_with (NA := AggNumZ) x y = Z.min x y /\ max_with (NA := AggNumZ) x y = Z.max x y.
Proof. unfold min_with, max_with. cbn [nltb AggNumZ]. split; destruct (Z.ltb_spec y x), (Z.ltb_spec x y); lia. Qed.

(* ---- to / fromas ------------------------------------------------------------------------------------ *)
Theorem number_to_fromas {S U : Type} (cast : U -> S) (v : U) :
  number_fromas cast v = number_to cast v /\ number_to cast v = cast v.
Proof. split; reflexivity. Qed.
Local Close Scope R_scope.

(* ===================================================================================================== *)
(* Part 2 — iter_traits.rs: vfold2, vapply                                                                *)
(* ===================================================================================================== *)
Section Folds2Proofs.
  Context {A A2 T T2 : Type} {DT : IsNone T A} {DT2 : IsNone T2 A2}.

  (* the pairwise-complete observations, as elements *)
  Definition complete_pairs (xs : list T) (ys : list T2) : list (T * T2) :=
    filter (fun p => not_none (fst p) && not_none (snd p)) (combine xs ys).

  Theorem vfold2_spec {U} (f : U -> T -> T2 -> U) (init : U) (xs : list T) (ys : list T2) :
    vfold2 f init xs ys = fold_left (fun acc p => f acc (fst p) (snd p)) (complete_pairs xs ys) init.
  Proof.
    unfold vfold2, complete_pairs. generalize (combine xs ys) as l. intros l. revert init.
    induction l as [|p l IH]; intros init; [reflexivity|]. cbn [fold_left filter].
    destruct (not_none (fst p) && not_none (snd p)); cbn [fold_left]; apply IH.
  Qed.

  (* a null on either side, or the end of the shorter series, contributes nothing *)
  Theorem vfold2_truncates {U} (f : U -> T -> T2 -> U) (init : U) (xs : list T) (ys : list T2) :
    let n := Nat.min (length xs) (length ys) in
    vfold2 f init xs ys = vfold2 f init (firstn n xs) (firstn n ys).
  Proof.
    intros n. unfold vfold2. f_equal. unfold n. clear n. revert ys.
    induction xs as [|x xs IH]; intros [|y ys]; cbn [length Nat.min firstn combine]; try reflexivity.
    f_equal. apply IH.
  Qed.

  Theorem vapply_spec {U} (f : U -> A -> U) (init : U) (xs : list T) :
    vapply f init xs = fold_left f (vals xs) init /\ vapply f init xs = snd (vapply_n f init xs).
  Proof.
    assert (E : vapply f init xs = fold_left f (vals xs) init).
    { unfold vapply. revert init. induction xs as [|v xs IH]; intros init; [reflexivity|].
      cbn [fold_left]. rewrite vals_cons. destruct (not_none v); cbn [fold_left]; apply IH. }
    split; [exact E|]. rewrite E, vapply_n_spec. reflexivity.
  Qed.
End Folds2Proofs.

(* vcov / vcorr_pearson ARE such two-series null-skipping folds (the count rides in the state) *)
Section CovIsFold2.
  Context {A : Type} {T T2 : Type} {DT : IsNone T A} {DT2 : IsNone T2 A} {F : Type} {NF : Num F}.
  Variable tof : A -> F.
  Definition cov_acc (s : nat * F * F * F) (a : T) (b : T2) : nat * F * F * F :=
    let '(n, sa, sb, sab) := s in
    let va := tof (unwrap a) in let vb := tof (unwrap b) in
    (S n, nadd sa va, nadd sb vb, nadd sab (nmul va vb)).
  Theorem cov_fold_is_vfold2 (xs : list T) (ys : list T2) s0 :
    fold_left (cov_step tof) (combine xs ys) s0 = vfold2 cov_acc s0 xs ys.
  Proof.
    unfold vfold2. apply fold_left_ext. intros [[[n sa] sb] sab] p. unfold cov_step, cov_acc.
    destruct (not_none (fst p) && not_none (snd p)); reflexivity.
  Qed.
End CovIsFold2.

(* ===================================================================================================== *)
(* Part 3 — extrema / first arg-extrema                                                                   *)
(* ===================================================================================================== *)
(* (3a) NO order hypothesis: the arg-extreme fold carries the extreme fold in its first component, and its
   index points at a valid element holding that value — any carrier, any comparison `better`. *)
Section ArgPointsAtExt.
  Context {A T : Type} {NA : Num A} {DT : IsNone T A}.
  Variable better : A -> A -> bool.

  Definition ext_step (acc : option A) (x : T) : option A :=
    match acc with None => Some (unwrap x) | Some e => if better e (unwrap x) then Some (unwrap x) else Some e end.
  Definition vext (xs : list T) : option A := vfold ext_step None xs.

  Definition pinv (pre : list T) (st : option A * option nat * nat) : Prop :=
    let '(ext, idx, cur) := st in
    cur = length pre /\ ext = vext pre /\
    match ext, idx with
    | None, None => forall v, In v pre -> not_none v = false
    | Some m, Some i => exists v, nth_error pre i = Some v /\ not_none v = true /\ unwrap v = m
    | _, _ => False
    end.

  Lemma vext_snoc pre v : vext (pre ++ [v]) = if not_none v then ext_step (vext pre) v else vext pre.
  Proof. unfold vext, vfold. rewrite fold_left_app. reflexivity. Qed.

  Lemma pinv_step pre st v : pinv pre st -> pinv (pre ++ [v]) (arg_step better st v).
  Proof.
    destruct st as [[ext idx] cur]. intros (Hc & He & Hm). unfold arg_step, pinv.
    rewrite vext_snoc, app_length. cbn [length]. destruct (not_none v) eqn:Ev.
    - destruct ext as [m|], idx as [i|]; try contradiction.
      + destruct Hm as (u & Hu & Hun & Hum).
        assert (Hi : i < length pre) by (apply nth_error_Some; rewrite Hu; discriminate).
        rewrite <- He. cbn [ext_step]. destruct (better m (unwrap v)).
        * split; [lia|]. split; [reflexivity|]. exists v.
          split; [rewrite nth_error_app2 by lia; replace (cur - length pre) with 0 by lia; reflexivity|].
          split; [exact Ev|reflexivity].
        * split; [lia|]. split; [reflexivity|]. exists u.
          split; [rewrite nth_error_app1 by exact Hi; exact Hu|]. split; assumption.
      + rewrite <- He. cbn [ext_step]. split; [lia|]. split; [reflexivity|]. exists v.
        split; [rewrite nth_error_app2 by lia; replace (cur - length pre) with 0 by lia; reflexivity|].
        split; [exact Ev|reflexivity].
    - split; [lia|]. split; [exact He|].
      destruct ext as [m|], idx as [i|]; try contradiction.
      + destruct Hm as (u & Hu & Hun & Hum).
        assert (Hi : i < length pre) by (apply nth_error_Some; rewrite Hu; discriminate).
        exists u. split; [rewrite nth_error_app1 by exact Hi; exact Hu|]. split; assumption.
      + intros w Hw. apply in_app_or in Hw. destruct Hw as [Hw|[<-|[]]]; [apply Hm, Hw|exact Ev].
  Qed.

  Lemma pinv_fold xs pre st : pinv pre st -> pinv (pre ++ xs) (fold_left (arg_step better) xs st).
  Proof.
    revert pre st. induction xs as [|v xs IH]; intros pre st H; cbn [fold_left].
    - rewrite app_nil_r. exact H.
    - replace (pre ++ v :: xs) with ((pre ++ [v]) ++ xs) by (rewrite <- app_assoc; reflexivity).
      apply IH, pinv_step, H.
  Qed.

  Theorem varg_points_at_vext (xs : list T) :
    match varg better xs with
    | None => vals xs = [] /\ vext xs = None
    | Some i => exists v, nth_error xs i = Some v /\ not_none v = true /\ vext xs = Some (unwrap v)
    end.
  Proof.
    unfold varg. pose proof (@pinv_fold xs [] (None, None, 0)) as H. cbn [app] in H.
    assert (H0 : pinv [] (None, None, 0)).
    { unfold pinv. split; [reflexivity|]. split; [reflexivity|]. intros v []. }
    specialize (H H0). destruct (fold_left (arg_step better) xs (None, None, 0)) as [[ext idx] cur].
    cbn [fst snd]. destruct H as (_ & He & Hm). destruct ext as [m|], idx as [i|]; try contradiction.
    - destruct Hm as (v & Hv & Hn & Hvm). exists v. split; [exact Hv|]. split; [exact Hn|]. rewrite <- He, Hvm. reflexivity.
    - split; [apply no_valid_vals, Hm|symmetry; exact He].
  Qed.
End ArgPointsAtExt.

Section ArgPointsInst.
  Context {A T : Type} {NA : Num A} {DT : IsNone T A}.
  Lemma vmin_is_vext (xs : list T) : vmin xs = vext (fun e v => nltb v e) xs.
  Proof.
    unfold vmin, vext, vfold. apply fold_left_ext. intros acc v. destruct (not_none v); [|reflexivity].
    unfold ext_step, min_with. destruct acc as [e|]; [|reflexivity]. destruct (nltb (unwrap v) e); reflexivity.
  Qed.
  Lemma vmax_is_vext (xs : list T) : vmax xs = vext (fun e v => nltb e v) xs.
  Proof.
    unfold vmax, vext, vfold. apply fold_left_ext. intros acc v. destruct (not_none v); [|reflexivity].
    unfold ext_step, max_with. destruct acc as [e|]; [|reflexivity]. destruct (nltb e (unwrap v)); reflexivity.
  Qed.

  (* every carrier, every dictionary, every input (NaN under Some included): the arg-extreme is None exactly when there
     is no valid element, and otherwise indexes a valid element whose value IS the extreme the value fold returns *)
  Theorem vargmin_points_at_vmin_any (xs : list T) :
    match vargmin xs with
    | None => vals xs = [] /\ vmin xs = None
    | Some i => exists v, nth_error xs i = Some v /\ not_none v = true /\ vmin xs = Some (unwrap v)
    end.
  Proof. unfold vargmin. rewrite vmin_is_vext. apply varg_points_at_vext. Qed.
  Theorem vargmax_points_at_vmax_any (xs : list T) :
    match vargmax xs with
    | None => vals xs = [] /\ vmax xs = None
    | Some i => exists v, nth_error xs i = Some v /\ not_none v = true /\ vmax xs = Some (unwrap v)
    end.
  Proof. unfold vargmax. rewrite vmax_is_vext. apply varg_points_at_vext. Qed.
End ArgPointsInst.

(* (3b) weak orders.  Proofs/AggOrder.v characterises vmin / vargmin under a strict TOTAL order (antisymmetry:
   incomparable => equal), which binary64 does not satisfy (+0 / -0).  Here the same characterisations under
   asymmetry + co-transitivity only (a strict weak order on the valid values: Spec/ExtremaOrd.v OrdLaws). *)
Section WeakOrd.
  Context {A : Type} {NA : Num A}.
  Variable ok : A -> Prop.
  Hypothesis w_asym : forall a b, ok a -> ok b -> nltb a b = true -> nltb b a = false.
  Hypothesis w_cotrans : forall a b c, ok a -> ok b -> ok c -> nltb a b = true -> nltb a c = true \/ nltb c b = true.
  Local Notation wle := (@AggOrder.le A NA).

  Lemma w_irrefl a : ok a -> nltb a a = false.
  Proof. intros Ha. destruct (nltb a a) eqn:E; [|reflexivity]. pose proof (w_asym Ha Ha E). congruence. Qed.
  Lemma w_le_refl a : ok a -> wle a a.
  Proof. apply w_irrefl. Qed.
  Lemma w_lt_le_trans a b c : ok a -> ok b -> ok c -> nltb a b = true -> wle b c -> nltb a c = true.
  Proof.
    intros Ha Hb Hc Hab Hbc. unfold AggOrder.le in Hbc.
    destruct (w_cotrans Ha Hb Hc Hab) as [H|H]; [exact H|congruence].
  Qed.
  Lemma w_le_trans a b c : ok a -> ok b -> ok c -> wle a b -> wle b c -> wle a c.
  Proof.
    intros Ha Hb Hc Hab Hbc. unfold AggOrder.le in *. destruct (nltb c a) eqn:E; [|reflexivity].
    destruct (w_cotrans Hc Ha Hb E) as [H|H]; congruence.
  Qed.

  Lemma w_min_fold l v :
    ok v -> Forall ok l ->
    exists m, fold_left (fun acc x => match acc with None => Some x | Some v => Some (min_with v x) end) l (Some v)
              = Some m /\ (m = v \/ In m l) /\ wle m v /\ (forall x, In x l -> wle m x) /\ ok m.
  Proof.
    revert v. induction l as [|x l IH]; intros v Hv Hl.
    - exists v. cbn. repeat split; auto using w_le_refl. intros x [].
    - inversion Hl as [|? ? Hx Hl']; subst. cbn [fold_left].
      assert (Hv' : ok (min_with v x)) by (unfold min_with; destruct (nltb x v); assumption).
      assert (L1 : wle (min_with v x) v).
      { unfold min_with. destruct (nltb x v) eqn:E; [apply (w_asym Hx Hv E)|apply w_le_refl, Hv]. }
      assert (L2 : wle (min_with v x) x).
      { unfold min_with. destruct (nltb x v) eqn:E; [apply w_le_refl, Hx|exact E]. }
      destruct (IH _ Hv' Hl') as (m & Hm & Hin & Hle & Hall & Hokm). exists m. split; [exact Hm|].
      repeat split.
      + destruct Hin as [->|Hin]; [|right; right; exact Hin].
        unfold min_with. destruct (nltb x v); [right; left; reflexivity|left; reflexivity].
      + eapply w_le_trans; [| | |exact Hle|exact L1]; assumption.
      + intros y [<-|Hy]; [|apply Hall, Hy]. eapply w_le_trans; [| | |exact Hle|exact L2]; assumption.
      + exact Hokm.
  Qed.

  Theorem w_pmin_spec (l : list A) :
    Forall ok l -> match pmin l with None => l = [] | Some m => is_min l m end.
  Proof.
    intros Hl. unfold pmin. destruct l as [|v l]; [reflexivity|]. cbn [fold_left].
    inversion Hl as [|? ? Hv Hl']; subst.
    destruct (w_min_fold Hv Hl') as (m & -> & Hin & Hle & Hall & _). split.
    - destruct Hin as [->|Hin]; [left; reflexivity|right; exact Hin].
    - intros x [<-|Hx]; [exact Hle|apply Hall, Hx].
  Qed.

  (* two minima of the same multiset are EQUIVALENT (neither is below the other); equal only on a strict carrier *)
  Lemma w_is_min_equiv l1 l2 m1 m2 :
    Permutation l1 l2 -> is_min l1 m1 -> is_min l2 m2 -> nltb m1 m2 = false /\ nltb m2 m1 = false.
  Proof.
    intros HP [I1 L1] [I2 L2]. split.
    - apply L2. eapply Permutation_in; eassumption.
    - apply L1. eapply Permutation_in; [apply Permutation_sym|]; eassumption.
  Qed.

  Context {T : Type} {DT : IsNone T A}.

  Lemma w_arg_inv_step pre st (v : T) :
    all_ok ok (pre ++ [v]) ->
    arg_inv ok pre st -> arg_inv ok (pre ++ [v]) (arg_step (fun e x => nltb x e) st v).
  Proof.
    intros Hok.
    assert (Hokpre : forall j w, nth_error pre j = Some w -> not_none w = true -> ok (unwrap w)).
    { intros j w Hj Hw. apply Hok; [|exact Hw]. apply in_or_app. left. eapply nth_error_In; eassumption. }
    assert (Hokv : not_none v = true -> ok (unwrap v)).
    { intros Hv. apply Hok; [|exact Hv]. apply in_or_app. right. left. reflexivity. }
    destruct st as [[ext idx] cur]. intros [Hcur Hinv]. unfold arg_step.
    destruct (not_none v) eqn:Ev.
    - specialize (Hokv eq_refl). destruct ext as [m|], idx as [i|]; cbn beta iota in Hinv; try contradiction.
      + destruct Hinv as (u & Hu & Hun & Hum & Hokm & Hall & Hbefore).
        assert (Hi : i < length pre) by (apply nth_error_Some; rewrite Hu; discriminate).
        destruct (nltb (unwrap v) m) eqn:Eb; unfold arg_inv.
        * split; [rewrite app_length; cbn; lia|]. exists v.
          split; [rewrite nth_error_app2 by lia; replace (cur - length pre) with 0 by lia; reflexivity|].
          split; [exact Ev|]. split; [reflexivity|]. split; [exact Hokv|]. split.
          -- intros j w Hj Hw. destruct (nth_error_snoc_cases _ _ _ Hj) as [[_ Hj']|[_ ->]].
             ++ eapply w_le_trans; [exact Hokv|exact Hokm|eapply Hokpre; eassumption| |eapply Hall; eassumption].
                apply (w_asym Hokv Hokm Eb).
             ++ apply w_le_refl, Hokv.
          -- intros j w Hlt Hj Hw. destruct (nth_error_snoc_cases _ _ _ Hj) as [[_ Hj']|[Hj' _]]; [|lia].
             eapply w_lt_le_trans; [exact Hokv|exact Hokm|eapply Hokpre; eassumption|exact Eb|eapply Hall; eassumption].
        * split; [rewrite app_length; cbn; lia|]. exists u.
          split; [rewrite nth_error_app1 by exact Hi; exact Hu|].
          split; [exact Hun|]. split; [exact Hum|]. split; [exact Hokm|]. split.
          -- intros j w Hj Hw. destruct (nth_error_snoc_cases _ _ _ Hj) as [[_ Hj']|[_ ->]].
             ++ eapply Hall; eassumption.
             ++ exact Eb.
          -- intros j w Hlt Hj Hw. destruct (nth_error_snoc_cases _ _ _ Hj) as [[_ Hj']|[Hj' _]]; [|lia].
             eapply Hbefore; eassumption.
      + unfold arg_inv. split; [rewrite app_length; cbn; lia|]. exists v.
        split; [rewrite nth_error_app2 by lia; replace (cur - length pre) with 0 by lia; reflexivity|].
        split; [exact Ev|]. split; [reflexivity|]. split; [exact Hokv|]. split.
        -- intros j w Hj Hw. destruct (nth_error_snoc_cases _ _ _ Hj) as [[_ Hj']|[_ ->]].
           ++ rewrite (Hinv w) in Hw; [discriminate|eapply nth_error_In; eassumption].
           ++ apply w_le_refl, Hokv.
        -- intros j w Hlt Hj Hw. destruct (nth_error_snoc_cases _ _ _ Hj) as [[_ Hj']|[Hj' _]]; [|lia].
           rewrite (Hinv w) in Hw; [discriminate|eapply nth_error_In; eassumption].
    - unfold arg_inv. split; [rewrite app_length; cbn; lia|].
      destruct ext as [m|], idx as [i|]; cbn beta iota in Hinv; try contradiction.
      + destruct Hinv as (u & Hu & Hun & Hum & Hokm & Hall & Hbefore).
        assert (Hi : i < length pre) by (apply nth_error_Some; rewrite Hu; discriminate).
        exists u. split; [rewrite nth_error_app1 by exact Hi; exact Hu|].
        split; [exact Hun|]. split; [exact Hum|]. split; [exact Hokm|]. split.
        -- intros j w Hj Hw. destruct (nth_error_snoc_cases _ _ _ Hj) as [[_ Hj']|[_ ->]].
           ++ eapply Hall; eassumption.
           ++ rewrite Ev in Hw. discriminate.
        -- intros j w Hlt Hj Hw. destruct (nth_error_snoc_cases _ _ _ Hj) as [[_ Hj']|[Hj' _]]; [|lia].
           eapply Hbefore; eassumption.
      + intros w Hw. apply in_app_or in Hw. destruct Hw as [Hw|[<-|[]]]; [apply Hinv, Hw|exact Ev].
  Qed.

  Lemma w_arg_inv_fold (xs pre : list T) st :
    all_ok ok (pre ++ xs) -> arg_inv ok pre st ->
    arg_inv ok (pre ++ xs) (fold_left (arg_step (fun e x => nltb x e)) xs st).
  Proof.
    revert pre st. induction xs as [|v xs IH]; intros pre st Hok Hinv; cbn [fold_left].
    - rewrite app_nil_r. exact Hinv.
    - replace (pre ++ v :: xs) with ((pre ++ [v]) ++ xs) by (rewrite <- app_assoc; reflexivity).
      apply IH.
      + rewrite <- app_assoc. exact Hok.
      + apply w_arg_inv_step; [|exact Hinv]. intros w Hw. apply Hok.
        rewrite in_app_iff in *. cbn [In] in *. tauto.
  Qed.

  Theorem w_vargmin_spec (xs : list T) :
    all_ok ok xs -> match vargmin xs with None => vals xs = [] | Some i => first_argmin xs i end.
  Proof.
    intros Hok. unfold vargmin, varg.
    pose proof (@w_arg_inv_fold xs [] (None, None, 0) Hok) as H. cbn [app] in H.
    specialize (H (conj eq_refl (fun v (Hv : In v []) => match Hv with end))).
    destruct (fold_left _ xs (None, None, 0)) as [[ext idx] cur]. cbn [fst snd].
    destruct H as [_ H]. destruct ext as [m|], idx as [i|]; try contradiction.
    - destruct H as (v & Hv & Hn & Hm & _ & Hall & Hbefore). exists v. subst m. repeat split; assumption.
    - apply no_valid_vals, H.
  Qed.

  Theorem w_vmin_spec (xs : list T) :
    all_ok ok xs -> match vmin xs with None => vals xs = [] | Some m => is_min (vals xs) m end.
  Proof. intros H. rewrite vmin_is_plain_min. apply w_pmin_spec, all_ok_vals, H. Qed.

  (* permutation: null together, otherwise equivalent minima *)
  Theorem w_vmin_perm (xs ys : list T) :
    all_ok ok xs -> Permutation xs ys ->
    match vmin xs, vmin ys with
    | None, None => True
    | Some a, Some b => nltb a b = false /\ nltb b a = false
    | _, _ => False
    end.
  Proof.
    intros H HP. pose proof (w_vmin_spec H) as S1. pose proof (w_vmin_spec (all_ok_perm HP H)) as S2.
    pose proof (vals_perm HP) as HV.
    destruct (vmin xs) as [a|], (vmin ys) as [b|]; [| | |exact I].
    - eapply w_is_min_equiv; eassumption.
    - rewrite S2 in HV. apply Permutation_sym, Permutation_nil in HV. rewrite HV in S1. destruct S1 as [[] _].
    - rewrite S1 in HV. apply Permutation_nil in HV. rewrite HV in S2. destruct S2 as [[] _].
  Qed.
End WeakOrd.

(* the two directions of an OrdLaws carrier *)
Section OrdInst.
  Context {A : Type} {NA : Num A}.
  Hypothesis OL : OrdLaws A.
  Context {T : Type} {DT : IsNone T A}.
  Definition valid_ok (xs : list T) : Prop := all_ok (@num_ok A NA) xs.

  Lemma flip_asym a b : num_ok a -> num_ok b -> @nltb A (NumFlip NA) a b = true -> @nltb A (NumFlip NA) b a = false.
  Proof. intros Ha Hb H. apply (ol_asym OL b a Hb Ha H). Qed.
  Lemma flip_cotrans a b c : num_ok a -> num_ok b -> num_ok c ->
    @nltb A (NumFlip NA) a b = true -> @nltb A (NumFlip NA) a c = true \/ @nltb A (NumFlip NA) c b = true.
  Proof. intros Ha Hb Hc H. destruct (ol_cotrans OL b a c Hb Ha Hc H) as [H'|H']; [right|left]; exact H'. Qed.

  Theorem vmin_ord (xs : list T) : valid_ok xs ->
    match vmin xs with
    | None => vals xs = []
    | Some m => In m (vals xs) /\ forall x, In x (vals xs) -> nltb x m = false
    end.
  Proof. intros H. exact (w_vmin_spec (ol_asym OL) (ol_cotrans OL) H). Qed.
  Theorem vmax_ord (xs : list T) : valid_ok xs ->
    match vmax xs with
    | None => vals xs = []
    | Some m => In m (vals xs) /\ forall x, In x (vals xs) -> nltb m x = false
    end.
  Proof. intros H. rewrite (vmax_flip NA). exact (w_vmin_spec (NA := NumFlip NA) flip_asym flip_cotrans H). Qed.

  Theorem vargmin_ord (xs : list T) : valid_ok xs ->
    match vargmin xs with
    | None => vals xs = []
    | Some i => exists v, nth_error xs i = Some v /\ not_none v = true /\
        (forall j w, nth_error xs j = Some w -> not_none w = true -> nltb (unwrap w) (unwrap v) = false) /\
        (forall j w, j < i -> nth_error xs j = Some w -> not_none w = true -> nltb (unwrap v) (unwrap w) = true)
    end.
  Proof. intros H. exact (w_vargmin_spec (ol_asym OL) (ol_cotrans OL) H). Qed.
  Theorem vargmax_ord (xs : list T) : valid_ok xs ->
    match vargmax xs with
    | None => vals xs = []
    | Some i => exists v, nth_error xs i = Some v /\ not_none v = true /\
        (forall j w, nth_error xs j = Some w -> not_none w = true -> nltb (unwrap v) (unwrap w) = false) /\
        (forall j w, j < i -> nth_error xs j = Some w -> not_none w = true -> nltb (unwrap w) (unwrap v) = true)
    end.
  Proof. intros H. rewrite (vargmax_flip NA). exact (w_vargmin_spec (NA := NumFlip NA) flip_asym flip_cotrans H). Qed.

  Theorem vmin_vmax_perm_ord (xs ys : list T) : valid_ok xs -> Permutation xs ys ->
    match vmin xs, vmin ys with
    | None, None => True | Some a, Some b => neqb a b = true | _, _ => False end /\
    match vmax xs, vmax ys with
    | None, None => True | Some a, Some b => neqb a b = true | _, _ => False end.
  Proof.
    intros H HP. split.
    - pose proof (w_vmin_perm (ol_asym OL) (ol_cotrans OL) H HP) as W.
      pose proof (w_vmin_spec (ol_asym OL) (ol_cotrans OL) H) as S1.
      pose proof (w_vmin_spec (ol_asym OL) (ol_cotrans OL) (all_ok_perm HP H)) as S2.
      destruct (vmin xs) as [a|], (vmin ys) as [b|]; try exact W.
      destruct W as [W1 W2]. destruct S1 as [I1 _], S2 as [I2 _].
      rewrite (ol_eqb OL a b), W1, W2; [reflexivity| |].
      + apply (proj1 (Forall_forall _ _) (all_ok_vals H)). exact I1.
      + apply (proj1 (Forall_forall _ _) (all_ok_vals (all_ok_perm HP H))). exact I2.
    - pose proof (w_vmin_perm (NA := NumFlip NA) flip_asym flip_cotrans H HP) as W.
      pose proof (w_vmin_spec (NA := NumFlip NA) flip_asym flip_cotrans H) as S1.
      pose proof (w_vmin_spec (NA := NumFlip NA) flip_asym flip_cotrans (all_ok_perm HP H)) as S2.
      rewrite !(vmax_flip NA).
      destruct (vmin (NA := NumFlip NA) xs) as [a|], (vmin (NA := NumFlip NA) ys) as [b|]; try exact W.
      destruct W as [W1 W2]. destruct S1 as [I1 _], S2 as [I2 _]. cbn in W1, W2.
      rewrite (ol_eqb OL a b), W1, W2; [reflexivity| |].
      + apply (proj1 (Forall_forall _ _) (all_ok_vals H)). exact I1.
      + apply (proj1 (Forall_forall _ _) (all_ok_vals (all_ok_perm HP H))). exact I2.
  Qed.
End OrdInst.

(* ===================================================================================================== *)
(* Part 4 — the plain family (AggBasic)                                                                   *)
(* ===================================================================================================== *)
From Tevec Require Proofs.CmpOrdInst.

Lemma ordlaws_AggZ : @OrdLaws Z AggNumZ.
Proof.
  split; cbn [nltb neqb nleb AggNumZ]; intros.
  - apply Z.ltb_ge. apply Z.ltb_lt in H1. lia.
  - apply Z.ltb_lt in H2. destruct (Z.ltb_spec a c); [left; reflexivity|right; apply Z.ltb_lt; lia].
  - destruct (Z.eqb_spec a b), (Z.ltb_spec a b), (Z.ltb_spec b a); cbn; try reflexivity; lia.
  - destruct (Z.leb_spec a b), (Z.ltb_spec b a); cbn; try reflexivity; lia.
Qed.
Lemma num_ok_Z (z : Z) : @num_ok Z AggNumZ z.
Proof. reflexivity. Qed.
Lemma valid_ok_Z {T} {DT : IsNone T Z} (xs : list T) : valid_ok (NA := AggNumZ) xs.
Proof. intros v _ _. reflexivity. Qed.
Definition ordlaws_XR : OrdLaws XR := Proofs.CmpOrdInst.ordlaws_XR.

Section PlainGeneric.
  Context {A : Type} {NA : Num A}.

  (* first / last / n_sum: every carrier, every input *)
  Theorem plain_first_last {X} (xs : list X) :
    first xs = hd_error xs /\ last xs = hd_error (rev xs) /\
    (first xs = None <-> xs = []) /\ (last xs = None <-> xs = []).
  Proof.
    unfold last, first. split; [destruct xs; reflexivity|]. split; [destruct (rev xs); reflexivity|].
    split; [destruct xs; split; intros; try reflexivity; discriminate|].
    destruct xs as [|x xs]; [split; reflexivity|]. cbn [rev].
    destruct (rev xs ++ [x]) eqn:E; [apply app_eq_nil in E; destruct E; discriminate|split; discriminate].
  Qed.
  Theorem n_sum_spec (xs : list A) :
    n_sum xs = (length xs, if (length xs =? 0)%nat then None else Some (fold_left nadd xs nzero)) /\
    sum xs = snd (n_sum xs).
  Proof.
    split; [|reflexivity]. unfold n_sum.
    assert (G : forall l n0 s, fold_left (fun na x => (S (fst na), nadd (snd na) x)) l (n0, s)
                               = (n0 + length l, fold_left nadd l s)).
    { induction l as [|x l IH]; intros n0 s; cbn [fold_left fst snd length]; [f_equal; lia|].
      rewrite IH. f_equal. lia. }
    rewrite G. cbn [fst snd Nat.add]. destruct xs; reflexivity.
  Qed.

  (* the valid family's first / last ARE the plain ones on the valid elements *)
  Theorem vfirst_vlast_are_plain {T} {DT : IsNone T A} (xs : list T) :
    vfirst xs = first (valid_elems xs) /\ vlast xs = last (valid_elems xs).
  Proof.
    split.
    - rewrite vfirst_spec. destruct (valid_elems xs); reflexivity.
    - rewrite vlast_spec. unfold last, first. destruct (rev (valid_elems xs)); reflexivity.
  Qed.

  (* first arg-extrema of the plain family over a weakly ordered carrier (every element an ordinary value) *)
  Hypothesis OL : OrdLaws A.
  Theorem plain_arg_ord (l : list A) :
    Forall num_ok l ->
    match argmin l with
    | None => l = []
    | Some i => exists m, nth_error l i = Some m /\
        (forall j x, nth_error l j = Some x -> nltb x m = false) /\
        (forall j x, j < i -> nth_error l j = Some x -> nltb m x = true)
    end /\
    match argmax l with
    | None => l = []
    | Some i => exists m, nth_error l i = Some m /\
        (forall j x, nth_error l j = Some x -> nltb m x = false) /\
        (forall j x, j < i -> nth_error l j = Some x -> nltb x m = true)
    end.
  Proof.
    intros Hl.
    assert (Hok : valid_ok (DT := IsNone_plain) l).
    { intros v Hv _. rewrite Forall_forall in Hl. apply Hl, Hv. }
    split.
    - unfold argmin. rewrite parg_is_varg. fold (vargmin (DT := IsNone_plain) l).
      pose proof (vargmin_ord OL Hok) as S. destruct (vargmin (DT := IsNone_plain) l) as [i|].
      + destruct S as (v & Hv & _ & Hall & Hbefore). exists v. split; [exact Hv|]. split.
        * intros j x Hj. apply (Hall j x Hj). reflexivity.
        * intros j x Hlt Hj. apply (Hbefore j x Hlt Hj). reflexivity.
      + rewrite vals_plain in S. exact S.
    - unfold argmax. rewrite parg_is_varg. fold (vargmax (DT := IsNone_plain) l).
      pose proof (vargmax_ord OL Hok) as S. destruct (vargmax (DT := IsNone_plain) l) as [i|].
      + destruct S as (v & Hv & _ & Hall & Hbefore). exists v. split; [exact Hv|]. split.
        * intros j x Hj. apply (Hall j x Hj). reflexivity.
        * intros j x Hlt Hj. apply (Hbefore j x Hlt Hj). reflexivity.
      + rewrite vals_plain in S. exact S.
  Qed.
End PlainGeneric.

Local Open Scope R_scope.
Theorem plain_argmax_float (V : list R) :
  match argmax (map Some V) with
  | None => V = []
  | Some i => exists r, nth_error V i = Some r /\
      (forall j x, nth_error V j = Some x -> x <= r) /\
      (forall j x, (j < i)%nat -> nth_error V j = Some x -> x < r)
  end.
Proof.
  assert (Hok : Forall num_ok (map Some V)).
  { apply Forall_forall. intros a Ha. apply in_map_iff in Ha. destruct Ha as (r & <- & _). reflexivity. }
  destruct (plain_arg_ord ordlaws_XR Hok) as [_ H].
  destruct (argmax (map Some V)) as [i|].
  - destruct H as (m & Hm & Hall & Hbefore). rewrite nth_error_map in Hm.
    destruct (nth_error V i) as [r|] eqn:Er; [|discriminate]. cbn in Hm. injection Hm as <-.
    exists r. split; [reflexivity|]. split.
    + intros j x Hj. assert (L : nltb (Some r) (Some x) = false).
      { apply (Hall j). rewrite nth_error_map, Hj. reflexivity. }
      cbn [nltb NumXR xltb] in L. destruct (Rlt_dec r x); [discriminate|lra].
    + intros j x Hlt Hj. assert (L : nltb (Some x) (Some r) = true).
      { apply (Hbefore j); [exact Hlt|]. rewrite nth_error_map, Hj. reflexivity. }
      cbn [nltb NumXR xltb] in L. destruct (Rlt_dec x r); [assumption|discriminate].
  - destruct V; [reflexivity|discriminate].
Qed.
Local Close Scope R_scope.

Theorem plain_arg_int (l : list Z) :
  match argmin (NA := AggNumZ) l with
  | None => l = []
  | Some i => exists m, nth_error l i = Some m /\
      (forall j x, nth_error l j = Some x -> (m <= x)%Z) /\
      (forall j x, j < i -> nth_error l j = Some x -> (m < x)%Z)
  end /\
  match argmax (NA := AggNumZ) l with
  | None => l = []
  | Some i => exists m, nth_error l i = Some m /\
      (forall j x, nth_error l j = Some x -> (x <= m)%Z) /\
      (forall j x, j < i -> nth_error l j = Some x -> (x < m)%Z)
  end.
Proof.
  assert (Hok : Forall (@num_ok Z AggNumZ) l) by (apply Forall_forall; intros; reflexivity).
  destruct (plain_arg_ord ordlaws_AggZ Hok) as [H1 H2]. split.
  - destruct (argmin l) as [i|]; [|exact H1]. destruct H1 as (m & Hm & Ha & Hb). exists m. split; [exact Hm|]. split.
    + intros j x Hj. specialize (Ha j x Hj). cbn [nltb AggNumZ] in Ha. apply Z.ltb_ge in Ha. exact Ha.
    + intros j x Hlt Hj. specialize (Hb j x Hlt Hj). cbn [nltb AggNumZ] in Hb. apply Z.ltb_lt in Hb. exact Hb.
  - destruct (argmax l) as [i|]; [|exact H2]. destruct H2 as (m & Hm & Ha & Hb). exists m. split; [exact Hm|]. split.
    + intros j x Hj. specialize (Ha j x Hj). cbn [nltb AggNumZ] in Ha. apply Z.ltb_ge in Ha. exact Ha.
    + intros j x Hlt Hj. specialize (Hb j x Hlt Hj). cbn [nltb AggNumZ] in Hb. apply Z.ltb_lt in Hb. exact Hb.
Qed.

(* AggBasic::min / max on an ARBITRARY float series (NaN is an ordinary value there): a leading NaN is returned,
   a later NaN is skipped — the hypothesis "null-free" of C11_plain_min_max_f64 replaced by the full description *)
Local Open Scope R_scope.
Lemma pfold_nan (better_min : bool) (l : list XR) :
  fold_left (fun acc x => match acc with None => Some x | Some v => Some (if better_min then min_with v x else max_with v x) end)
            l (Some (None : XR)) = Some None.
Proof.
  induction l as [|x l IH]; [reflexivity|]. cbn [fold_left].
  replace (if better_min then min_with None x else max_with None x) with (None : XR); [exact IH|].
  destruct better_min; unfold min_with, max_with; cbn [nltb NumXR xltb]; destruct x; reflexivity.
Qed.
Theorem plain_min_max_with_nan (l : list XR) :
  match l with
  | [] => pmin l = None /\ pmax l = None
  | None :: _ => pmin l = Some None /\ pmax l = Some None
  | Some r :: t => pmin l = Some (Some (fold_left Rmin (valid t) r)) /\ pmax l = Some (Some (fold_left Rmax (valid t) r))
  end.
Proof.
  destruct l as [|[r|] t]; [split; reflexivity| |].
  - unfold pmin, pmax. cbn [fold_left]. split.
    + revert r. induction t as [|x t IH]; intros r; [reflexivity|]. cbn [fold_left].
      destruct x as [y|].
      * rewrite (proj1 (min_max_with_XR r y)). cbn [valid flat_map app fold_left]. apply IH.
      * unfold min_with. cbn [nltb NumXR xltb valid flat_map app]. apply IH.
    + revert r. induction t as [|x t IH]; intros r; [reflexivity|]. cbn [fold_left].
      destruct x as [y|].
      * rewrite (proj2 (min_max_with_XR r y)). cbn [valid flat_map app fold_left]. apply IH.
      * unfold max_with. cbn [nltb NumXR xltb valid flat_map app]. apply IH.
  - unfold pmin, pmax. cbn [fold_left]. split; [apply (pfold_nan true)|apply (pfold_nan false)].
Qed.
Local Close Scope R_scope.

(* ===================================================================================================== *)
(* Part 5 — two series and masks: zip truncation, permutation of the pairs                                *)
(* ===================================================================================================== *)
Lemma combine_truncate {X Y} (xs : list X) (ys : list Y) :
  combine xs ys = combine (firstn (Nat.min (length xs) (length ys)) xs) (firstn (Nat.min (length xs) (length ys)) ys).
Proof.
  revert ys. induction xs as [|x xs IH]; intros [|y ys]; cbn [length Nat.min firstn combine]; try reflexivity.
  f_equal. apply IH.
Qed.

Section Truncation.
  Context {A : Type} {NA : Num A} {T T2 : Type} {DT : IsNone T A} {DT2 : IsNone T2 A} {F : Type} {NF : Num F}.
  Variable tof : A -> F.
  Context {U : Type} {DU : IsNone U bool}.
  (* unequal lengths: everything beyond the shorter series is ignored (Iterator::zip) — every carrier *)
  Theorem two_series_truncate (mp : nat) (xs : list T) (ys : list T2) (mask : list U) :
    let n := Nat.min (length xs) (length ys) in let k := Nat.min (length xs) (length mask) in
    vcov tof mp xs ys = vcov tof mp (firstn n xs) (firstn n ys) /\
    vcorr_pearson tof mp xs ys = vcorr_pearson tof mp (firstn n xs) (firstn n ys) /\
    mask_filter xs mask = mask_filter (firstn k xs) (firstn k mask).
  Proof.
    intros n k. subst n k. unfold vcov, vcorr_pearson, mask_filter.
    rewrite <- (combine_truncate xs ys), <- (combine_truncate xs mask). repeat split; reflexivity.
  Qed.
End Truncation.

Section MaskPerm.
  Context {A : Type} {NA : Num A} {T : Type} {DT : IsNone T A} {U : Type} {DU : IsNone U bool}.
  Lemma mask_filter_perm (xs xs' : list T) (mask mask' : list U) :
    Permutation (combine xs mask) (combine xs' mask') ->
    Permutation (mask_filter xs mask) (mask_filter xs' mask').
  Proof.
    intros HP. rewrite !mask_filter_spec. apply Permutation_map.
    generalize dependent (combine xs' mask'). generalize (combine xs mask). intros l l' HP.
    induction HP as [|x l l' _ IH|x y l|l l' l'' _ IH1 _ IH2]; cbn [filter].
    - constructor.
    - destruct (not_none (snd x) && unwrap (snd x)); [constructor|]; exact IH.
    - destruct (not_none (snd x) && unwrap (snd x)), (not_none (snd y) && unwrap (snd y));
        try apply Permutation_refl. apply perm_swap.
    - eapply Permutation_trans; eassumption.
  Qed.
  Theorem masked_count_perm (xs xs' : list T) (mask mask' : list U) :
    Permutation (combine xs mask) (combine xs' mask') ->
    fst (n_vsum_filter xs mask) = fst (n_vsum_filter xs' mask').
  Proof.
    intros HP. rewrite !n_vsum_filter_spec. cbn [fst]. apply count_valid_perm, (mask_filter_perm xs xs' mask mask' HP).
  Qed.
End MaskPerm.

Theorem masked_perm_float {T} {DT : IsNone T XR} {U} {DU : IsNone U bool} (mp : nat)
    (xs xs' : list T) (mask mask' : list U) :
  canonical idX xs -> canonical idX xs' -> Permutation (combine xs mask) (combine xs' mask') ->
  n_sum_filter xs mask = n_sum_filter xs' mask' /\ vmean_filter idX mp xs mask = vmean_filter idX mp xs' mask'.
Proof.
  intros H H' HP. pose proof (mask_filter_perm xs xs' mask mask' HP) as HM.
  pose proof (canonical_mask_filter mask H) as C. split.
  - rewrite !n_sum_filter_is_vsum. apply vsum_perm_float; assumption.
  - rewrite (vmean_filter_textbook (@sum_hom_float T DT) mp mask H),
            (vmean_filter_textbook (@sum_hom_float T DT) mp mask' H'). cbv zeta.
    pose proof (rvals_perm idX HM) as HR. rewrite (Permutation_length HR), (meanR_perm HR). reflexivity.
Qed.
Theorem masked_perm_int {T} {DT : IsNone T Z} {U} {DU : IsNone U bool} (mp : nat)
    (xs xs' : list T) (mask mask' : list U) :
  Permutation (combine xs mask) (combine xs' mask') ->
  n_sum_filter (NA := AggNumZ) xs mask = n_sum_filter (NA := AggNumZ) xs' mask' /\
  vmean_filter (NA := AggNumZ) zR mp xs mask = vmean_filter (NA := AggNumZ) zR mp xs' mask'.
Proof.
  intros HP. pose proof (mask_filter_perm xs xs' mask mask' HP) as HM. split.
  - rewrite !n_sum_filter_is_vsum. apply vsum_perm_int; assumption.
  - rewrite (vmean_filter_textbook (NA := AggNumZ) (@sum_hom_int T DT) mp mask (canonical_int xs)),
            (vmean_filter_textbook (NA := AggNumZ) (@sum_hom_int T DT) mp mask' (canonical_int xs')). cbv zeta.
    pose proof (rvals_perm zR HM) as HR. rewrite (Permutation_length HR), (meanR_perm HR). reflexivity.
Qed.

(* ===================================================================================================== *)
(* Part 6 — nullness at EVERY carrier; a valid NaN (non-canonical input)                                  *)
(* ===================================================================================================== *)
(* (6a) "null when fewer than the required number of valid observations" needs no arithmetic: it is decided by
   the count alone, so it holds for every carrier (binary64 included), every dictionary, every cast — also for
   non-canonical input.  (The converse — non-null when there ARE enough — is carrier specific: option R,
   C11_nullness_*; at binary64 an overflowing sum can produce inf - inf = NaN.)  Only `nisnan nnan = true`
   is asked of the carrier (skew / kurt test their intermediate result with is_nan). *)
Section NullBelow.
  Context {A : Type} {NA : Num A} {T : Type} {DT : IsNone T A} {F : Type} {NF : Num F}.
  Variable tof : A -> F.
  Hypothesis nan_is_nan : @nisnan F NF nnan = true.

  Lemma count_valid_le_length (xs : list T) : count_valid xs <= length xs.
  Proof. clear nan_is_nan. pose proof (count_valid_plus_none xs). lia. Qed.

  Theorem null_below_single (mp : nat) (xs : list T) :
    (count_valid xs = 0 -> vsum xs = None /\ vmean tof xs = nnan /\ vmin xs = None /\ vmax xs = None /\
                           vargmin xs = None /\ vargmax xs = None /\ vfirst xs = None /\ vlast xs = None) /\
    (count_valid xs < Nat.max mp 2 -> vvar tof mp xs = nnan /\ vstd tof mp xs = nsqrt nnan) /\
    (count_valid xs < Nat.max mp 3 -> vskew tof mp xs = nnan) /\
    (count_valid xs < Nat.max mp 4 -> vkurt tof mp xs = nnan).
  Proof.
    rewrite count_valid_spec. split; [|split; [|split]].
    - intros H0. assert (V0 : vals xs = []) by (destruct (vals xs); [reflexivity|discriminate]).
      pose proof (vargmin_points_at_vmin_any xs) as P1. pose proof (vargmax_points_at_vmax_any xs) as P2.
      unfold vsum, vmean. rewrite vfold_n_spec, V0. cbn [length fst snd Nat.leb].
      split; [reflexivity|]. split; [reflexivity|].
      rewrite vmin_is_plain_min, vmax_is_plain_max, V0. split; [reflexivity|]. split; [reflexivity|].
      split; [|split; [|split; [apply vfirst_none, V0|apply vlast_none, V0]]].
      + destruct (vargmin xs) as [i|]; [|reflexivity]. destruct P1 as (v & Hv & Hn & _). exfalso.
        assert (In (unwrap v) (vals xs)).
        { unfold vals, valid_elems. apply in_map, filter_In. split; [eapply nth_error_In; eassumption|exact Hn]. }
        rewrite V0 in H. destruct H.
      + destruct (vargmax xs) as [i|]; [|reflexivity]. destruct P2 as (v & Hv & Hn & _). exfalso.
        assert (In (unwrap v) (vals xs)).
        { unfold vals, valid_elems. apply in_map, filter_In. split; [eapply nth_error_In; eassumption|exact Hn]. }
        rewrite V0 in H. destruct H.
    - intros H. assert (E : vvar tof mp xs = nnan).
      { unfold vvar, vmean_var. rewrite vapply_n_spec. cbn [fst snd].
        destruct (length (vals xs) <? mp) eqn:E1; [reflexivity|]. apply Nat.ltb_ge in E1.
        replace (length (vals xs) <? 2) with true by (symmetry; apply Nat.ltb_lt; lia). reflexivity. }
      split; [exact E|]. unfold vstd. rewrite E. reflexivity.
    - intros H. unfold vskew. rewrite vapply_n_spec. cbn [fst snd].
      destruct (fold_left (sk_step tof) (vals xs) (nzero, nzero, nzero)) as [[m1 m2] m3].
      destruct (length (vals xs) <? mp) eqn:E1; [reflexivity|]. apply Nat.ltb_ge in E1.
      replace (3 <=? length (vals xs)) with false by (symmetry; apply Nat.leb_gt; lia).
      rewrite nan_is_nan. reflexivity.
    - intros H. unfold vkurt. rewrite vapply_n_spec. cbn [fst snd].
      destruct (fold_left (ku_step tof) (vals xs) (nzero, nzero, nzero, nzero)) as [[[m1 m2] m3] m4].
      destruct (length (vals xs) <? mp) eqn:E1; [reflexivity|]. apply Nat.ltb_ge in E1.
      replace (4 <=? length (vals xs)) with false by (symmetry; apply Nat.leb_gt; lia).
      rewrite nan_is_nan. reflexivity.
  Qed.

  (* min_periods above the length: null whatever the data (the quantifier's `min_periods = len + 1`) *)
  Corollary min_periods_above_length (mp : nat) (xs : list T) :
    length xs < mp ->
    vvar tof mp xs = nnan /\ vstd tof mp xs = nsqrt nnan /\ vskew tof mp xs = nnan /\ vkurt tof mp xs = nnan /\
    vmean_var tof mp xs = (nnan, nnan).
  Proof.
    intros H. pose proof (count_valid_le_length xs) as L.
    destruct (null_below_single mp xs) as (_ & H2 & H3 & H4).
    destruct H2 as [E1 E2]; [lia|]. split; [exact E1|]. split; [exact E2|].
    split; [apply H3; lia|]. split; [apply H4; lia|].
    unfold vmean_var. rewrite vapply_n_spec. cbn [fst snd]. rewrite <- count_valid_spec.
    replace (count_valid xs <? mp) with true by (symmetry; apply Nat.ltb_lt; lia). reflexivity.
  Qed.

  Context {T2 : Type} {DT2 : IsNone T2 A}.
  Definition npairs (xs : list T) (ys : list T2) : nat := length (complete_pairs xs ys).

  Lemma cov_count (xs : list T) (ys : list T2) s :
    fst (fst (fst (fold_left (cov_step tof) (combine xs ys) s))) = fst (fst (fst s)) + npairs xs ys.
  Proof.
    clear nan_is_nan. unfold npairs, complete_pairs. generalize (combine xs ys) as l. intros l. revert s.
    induction l as [|p l IH]; intros s; cbn [fold_left filter]; [cbn; lia|].
    rewrite IH. unfold cov_step. destruct s as [[[n sa] sb] sab].
    destruct (not_none (fst p) && not_none (snd p)); cbn [fst snd length]; lia.
  Qed.
  Lemma corr_count (xs : list T) (ys : list T2) s :
    fst (fst (fst (fst (fst (fold_left (corr_step tof) (combine xs ys) s)))))
    = fst (fst (fst (fst (fst s)))) + npairs xs ys.
  Proof.
    clear nan_is_nan. unfold npairs, complete_pairs. generalize (combine xs ys) as l. intros l. revert s.
    induction l as [|p l IH]; intros s; cbn [fold_left filter]; [cbn; lia|].
    rewrite IH. unfold corr_step. destruct s as [[[[[n sa] s2a] sb] s2b] sab].
    destruct (not_none (fst p) && not_none (snd p)); cbn [fst snd length]; lia.
  Qed.

  Theorem null_below_two (mp : nat) (xs : list T) (ys : list T2) :
    npairs xs ys < Nat.max mp 2 -> vcov tof mp xs ys = nnan /\ vcorr_pearson tof mp xs ys = nnan.
  Proof.
    clear nan_is_nan. intros H. split.
    - unfold vcov. pose proof (cov_count xs ys (0, nzero, nzero, nzero)) as C.
      destruct (fold_left (cov_step tof) (combine xs ys) (0, nzero, nzero, nzero)) as [[[n sa] sb] sab].
      cbn [fst snd] in C. replace (Nat.max mp 2 <=? n) with false by (symmetry; apply Nat.leb_gt; lia). reflexivity.
    - unfold vcorr_pearson. pose proof (corr_count xs ys (0, nzero, nzero, nzero, nzero, nzero)) as C.
      destruct (fold_left (corr_step tof) (combine xs ys) (0, nzero, nzero, nzero, nzero, nzero))
        as [[[[[n sa] s2a] sb] s2b] sab].
      cbn [fst snd] in C. replace (Nat.max mp 2 <=? n) with false by (symmetry; apply Nat.leb_gt; lia). reflexivity.
  Qed.
End NullBelow.

(* (6b) non-canonical input (DESIGN 5.4 excludes it; this is what the code does there): a VALID element whose value is
   NaN — `Some(NaN)` in an Option<f64> series — is counted as an observation and poisons the arithmetic aggregations *)
Local Open Scope R_scope.
Lemma xfold_add_none (l : list XR) : fold_left (fun acc x : XR => nadd acc x) l None = None.
Proof. induction l as [|x l IH]; [reflexivity|]. cbn [fold_left]. exact IH. Qed.
Lemma xfold_add_poison (l : list XR) (a : XR) : In None l -> fold_left (fun acc x : XR => nadd acc x) l a = None.
Proof.
  revert a. induction l as [|x l IH]; intros a []; cbn [fold_left].
  - subst x. replace (nadd a None) with (None : XR) by (destruct a; reflexivity). apply xfold_add_none.
  - apply IH. assumption.
Qed.
Lemma xfold_mv_none (l : list XR) : fold_left (mv_step idX) l (None, None) = (None, None).
Proof. induction l as [|x l IH]; [reflexivity|]. cbn [fold_left]. exact IH. Qed.
Lemma xfold_mv_poison (l : list XR) (s : XR * XR) : In None l -> fold_left (mv_step idX) l s = (None, None).
Proof.
  revert s. induction l as [|x l IH]; intros s []; cbn [fold_left].
  - subst x. replace (mv_step idX s None) with (None : XR, None : XR).
    + apply xfold_mv_none.
    + unfold mv_step. destruct s as [[a|] [b|]]; reflexivity.
  - apply IH. assumption.
Qed.

Theorem valid_nan_poisons {T} {DT : IsNone T XR} (mp : nat) (xs : list T) :
  In None (vals xs) ->
  vsum xs = Some None /\ vmean idX xs = None /\ vmean_var idX mp xs = (None, None) /\
  vvar idX mp xs = None /\ vstd idX mp xs = None /\ (1 <= count_valid xs)%nat.
Proof.
  intros H. assert (L : (1 <= length (vals xs))%nat) by (destruct (vals xs); [destruct H|cbn; lia]).
  assert (MV : vmean_var idX mp xs = (None, None)).
  { unfold vmean_var. rewrite vapply_n_spec. cbn [fst snd]. rewrite (@xfold_mv_poison (vals xs) _ H). cbn [fst snd].
    destruct (length (vals xs) <? mp)%nat; [reflexivity|].
    destruct (length (vals xs) <? 2)%nat; reflexivity. }
  split; [|split; [|split; [exact MV|split; [|split]]]].
  - unfold vsum. rewrite vfold_n_spec. cbn [fst snd]. rewrite (@xfold_add_poison (vals xs) _ H).
    replace (1 <=? length (vals xs))%nat with true by (symmetry; apply Nat.leb_le; exact L). reflexivity.
  - unfold vmean. rewrite vfold_n_spec. cbn [fst snd]. rewrite (@xfold_add_poison (vals xs) _ H).
    replace (1 <=? length (vals xs))%nat with true by (symmetry; apply Nat.leb_le; exact L). reflexivity.
  - unfold vvar. rewrite MV. reflexivity.
  - unfold vstd, vvar. rewrite MV. reflexivity.
  - rewrite count_valid_spec. exact L.
Qed.
Local Close Scope R_scope.
