(* Proofs/KernelSteps.v — C10: the step-structured kernel trace (Model/KernelSteps.v) IS the kernel trace.
     (F) flattening the steps gives `kernel_trace` back, for every traced callback, window, body;
     (P) step number i is position i: its driver reads are those of position i, its write (if the callback
         returned) is slot i, and its callback accesses are unchecked reads inside the window of position i;
     (N) only the last step can carry a panic, there are at most `length xs` steps, and exactly `length xs`
         without any panic whenever the erased run returns;
     (S) the sorted read numbers of a step are a permutation of the numbers of its reads (nothing lost, no
         read invented by the normalisation), and sorted.
   Stdlib only, axiom-free.                                                                               *)
From Coq Require Import ZArith Lia List Permutation Sorted.
From Tevec Require Import Base.Prelude Base.Num Model.Driver Proofs.Driver Model.Features Model.Cmp
     Model.Norm Model.Binary Model.Reg Model.Kernels Proofs.Kernels Proofs.IdxRun Proofs.IdxPrefix
     Proofs.Kernels2 Model.SortCmp Model.Rank Model.KernelsMap Proofs.KernelsMap Proofs.KernelsMap2
     Model.KernelSteps.
Import ListNotations.

(* ---- (F) flattening ------------------------------------------------------------------------------------ *)
Section Flatten.
  Context {T St O : Type}.
  Variable cbt : St -> option nat * nat * T -> tr (St * O).
  Variable drv : nat -> list acc.
  Variable wr : bool.

  Lemma steps_calls_flatten : forall calls s,
    flat_map kstep_accs (steps_calls cbt drv wr s calls) = trace_calls cbt drv wr s calls.
  Proof.
    induction calls as [|[slot a] rest IH]; intros s; [reflexivity|].
    cbn [steps_calls trace_calls].
    destruct (snd (cbt s a)) as [[s' o]|pk].
    - cbn [flat_map]. unfold kstep_accs at 1. cbn [ks_drv ks_cb ks_wr]. rewrite IH.
      rewrite <- !app_assoc. reflexivity.
    - cbn [flat_map]. unfold kstep_accs. cbn [ks_drv ks_cb ks_wr]. rewrite !app_nil_r. reflexivity.
  Qed.

  (* only the last step can carry a panic *)
  Lemma steps_calls_panic_last : forall calls s i k,
    nth_error (steps_calls cbt drv wr s calls) i = Some k -> ks_panic k <> None ->
    S i = length (steps_calls cbt drv wr s calls).
  Proof.
    induction calls as [|[slot a] rest IH]; intros s i k Hk Hp.
    - destruct i; discriminate.
    - cbn [steps_calls] in *. destruct (snd (cbt s a)) as [[s' o]|pk].
      + destruct i as [|i].
        * cbn in Hk. injection Hk as <-. cbn in Hp. congruence.
        * cbn [nth_error length] in *. f_equal. exact (IH s' i k Hk Hp).
      + destruct i as [|i]; [reflexivity|]. destruct i; discriminate.
  Qed.

  Lemma steps_calls_length : forall calls s, length (steps_calls cbt drv wr s calls) <= length calls.
  Proof.
    induction calls as [|[slot a] rest IH]; intros s; [apply Nat.le_refl|].
    cbn [steps_calls]. destruct (snd (cbt s a)) as [[s' o]|pk]; cbn [length]; [specialize (IH s')|]; lia.
  Qed.

  (* step i is the i-th call *)
  Lemma steps_calls_nth : forall calls s i k,
    nth_error (steps_calls cbt drv wr s calls) i = Some k ->
    exists slot a s', nth_error calls i = Some (slot, a) /\
      ks_drv k = drv (snd (fst a)) /\ ks_cb k = fst (cbt s' a) /\
      (ks_panic k = None -> ks_wr k = if wr then [AUset slot] else []) /\
      (ks_panic k <> None -> ks_wr k = []).
  Proof.
    induction calls as [|[slot a] rest IH]; intros s i k Hk.
    - destruct i; discriminate.
    - cbn [steps_calls] in Hk. destruct (snd (cbt s a)) as [[s' o]|pk] eqn:E.
      + destruct i as [|i].
        * cbn in Hk. injection Hk as <-. exists slot, a, s. cbn. repeat split; congruence.
        * cbn [nth_error] in *. exact (IH s' i k Hk).
      + destruct i as [|i]; [|destruct i; discriminate].
        cbn in Hk. injection Hk as <-. exists slot, a, s. cbn. repeat split; congruence.
  Qed.

  (* no panic in the erased run: one step per call, none of them carries a panic *)
  Variable cb : St -> option nat * nat * T -> res (St * O).
  Hypothesis Herase : forall s a, snd (cbt s a) = cb s a.

  Lemma steps_calls_complete : forall calls s outs,
    run (lift_cb cb) (Ok s) (map snd calls) = map Ok outs ->
    length (steps_calls cbt drv wr s calls) = length calls /\
    Forall (fun k => ks_panic k = None) (steps_calls cbt drv wr s calls).
  Proof.
    induction calls as [|[slot a] rest IH]; intros s outs Hrun; [split; [reflexivity|constructor]|].
    cbn [steps_calls map snd run lift_cb] in *. rewrite Herase.
    destruct (cb s a) as [[s' o]|pk].
    - destruct outs as [|o' outs]; [discriminate|]. cbn [map] in Hrun. injection Hrun as _ Hrun.
      destruct (IH s' outs Hrun) as [Hl Hf]. split; [cbn [length]; f_equal; exact Hl|].
      constructor; [reflexivity|exact Hf].
    - destruct outs; discriminate.
  Qed.
End Flatten.

Lemma kernel_steps_unfold {T St O} body two w (cbt : St -> option nat * nat * T -> tr (St * O)) s0 (xs : list T) :
  1 <= w ->
  kernel_steps body two w cbt s0 xs
  = steps_calls cbt (if body then drv_reads two else fun _ => []) body s0 (kcalls body w xs).
Proof.
  intros Hw. unfold kernel_steps, kcalls. rewrite bad_window_false by exact Hw. destruct body; cbn [eff_window].
  - rewrite calls_to_idx_spec by exact Hw. reflexivity.
  - rewrite args_iter_idx_mapi by exact Hw.
    rewrite (mapi_slot_combine (fun i v => (start_of w i, i, v)) xs), mapi_length. reflexivity.
Qed.

Lemma kernel_steps_w0 {T St O} body two (cbt : St -> option nat * nat * T -> tr (St * O)) s0 (xs : list T) :
  kernel_steps body two 0 cbt s0 xs = [].
Proof.
  unfold kernel_steps, bad_window. destruct xs as [|x xs]; [|reflexivity]. cbn. destruct body; reflexivity.
Qed.

(* (F) for every traced callback, window (0 and > len included), body, one or two series *)
Theorem kernel_steps_flatten {T St O} body two w (cbt : St -> option nat * nat * T -> tr (St * O)) s0
        (xs : list T) :
  flat_map kstep_accs (kernel_steps body two w cbt s0 xs) = kernel_trace body two w cbt s0 xs.
Proof.
  unfold kernel_steps, kernel_trace. destruct (bad_window w xs); [reflexivity|].
  destruct body; apply steps_calls_flatten.
Qed.

(* (N) *)
Theorem kernel_steps_length {T St O} body two w (cbt : St -> option nat * nat * T -> tr (St * O)) s0
        (xs : list T) :
  length (kernel_steps body two w cbt s0 xs) <= length xs.
Proof.
  destruct w as [|w]; [rewrite kernel_steps_w0; cbn; lia|].
  rewrite kernel_steps_unfold by lia. eapply Nat.le_trans; [apply steps_calls_length|].
  unfold kcalls. rewrite mapi_length. apply Nat.le_refl.
Qed.

Theorem kernel_steps_panic_last {T St O} body two w (cbt : St -> option nat * nat * T -> tr (St * O)) s0
        (xs : list T) i k :
  nth_error (kernel_steps body two w cbt s0 xs) i = Some k -> ks_panic k <> None ->
  S i = length (kernel_steps body two w cbt s0 xs).
Proof.
  unfold kernel_steps. destruct (bad_window w xs); [destruct i; discriminate|].
  destruct body; apply steps_calls_panic_last.
Qed.

Theorem kernel_steps_complete {T St O} body two w (cbt : St -> option nat * nat * T -> tr (St * O))
        (cb : St -> option nat * nat * T -> res (St * O)) s0 (xs : list T) out :
  (forall s a, snd (cbt s a) = cb s a) -> 1 <= w ->
  idx_run body w cb s0 xs = Done out ->
  length (kernel_steps body two w cbt s0 xs) = length xs /\
  Forall (fun k => ks_panic k = None) (kernel_steps body two w cbt s0 xs).
Proof.
  intros He Hw Hrun. apply idx_run_Done_iff in Hrun; [|exact Hw].
  rewrite kernel_steps_unfold by exact Hw.
  destruct (steps_calls_complete cbt (if body then drv_reads two else fun _ => []) body cb He
              (kcalls body w xs) s0 out) as [Hl Hf].
  - unfold kcalls. rewrite map_mapi. cbn [snd]. exact Hrun.
  - split; [rewrite Hl; unfold kcalls; apply mapi_length|exact Hf].
Qed.

(* (P) step i is position i *)
Theorem kernel_step_shape {T St O} body two w (cbt : St -> option nat * nat * T -> tr (St * O)) s0
        (xs : list T) i k :
  (forall s st e v, start_le st e -> reads_within (start_or_0 st) e (fst (cbt s (st, e, v)))) ->
  1 <= w ->
  nth_error (kernel_steps body two w cbt s0 xs) i = Some k ->
  i < length xs /\
  ks_drv k = (if body then drv_reads two i else []) /\
  (ks_panic k = None -> ks_wr k = if body then [AUset i] else []) /\
  (ks_panic k <> None -> ks_wr k = []) /\
  reads_within (start_or_0 (start_of (eff_window body w (length xs)) i)) i (ks_cb k).
Proof.
  intros Hcb Hw Hk. rewrite kernel_steps_unfold in Hk by exact Hw.
  apply steps_calls_nth in Hk. destruct Hk as (slot & a & s' & Hc & Hd & Hr & Hw1 & Hw2).
  unfold kcalls in Hc. rewrite nth_error_mapi in Hc.
  destruct (nth_error xs i) as [v|] eqn:E; [|discriminate]. cbn in Hc. injection Hc as <- <-.
  assert (Hi : i < length xs) by (apply nth_error_Some; congruence).
  cbn [fst snd] in *. split; [exact Hi|]. split; [rewrite Hd; destruct body; reflexivity|].
  split; [exact Hw1|]. split; [exact Hw2|]. rewrite Hr. apply Hcb. apply start_of_le.
Qed.

(* ---- the five entry points --------------------------------------------------------------------------- *)
Section Entries.
  Context {A : Type} {NA : Num A} {T : Type} {DT : IsNone T A}.

  Theorem steps_ts_vext_flatten scmp body w mp (xs : list T) :
    flat_map kstep_accs (steps_ts_vext scmp body w mp xs) = trace_ts_vext scmp body w mp xs.
  Proof. apply kernel_steps_flatten. Qed.
  Theorem steps_ts_varg_flatten scmp body w mp (xs : list T) :
    flat_map kstep_accs (steps_ts_varg scmp body w mp xs) = trace_ts_varg scmp body w mp xs.
  Proof. apply kernel_steps_flatten. Qed.
  Theorem steps_ts_vrank_flatten {B : Type} {NB : Num B} body w mp pct rev (xs : list T) :
    flat_map kstep_accs (steps_ts_vrank (B := B) body w mp pct rev xs)
    = trace_ts_vrank (B := B) body w mp pct rev xs.
  Proof. apply kernel_steps_flatten. Qed.
  Theorem steps_ts_vminmaxnorm_flatten tmin tmax body w mp (xs : list T) :
    flat_map kstep_accs (steps_ts_vminmaxnorm tmin tmax body w mp xs)
    = trace_ts_vminmaxnorm tmin tmax body w mp xs.
  Proof. apply kernel_steps_flatten. Qed.

  (* the callback reads of step i lie in the window of position i; the clamped window of the cmp family *)
  Definition step_in_window (body : bool) (w len i : nat) (k : kstep) : Prop :=
    i < len /\ ks_drv k = (if body then drv_reads false i else []) /\
    (ks_panic k = None -> ks_wr k = if body then [AUset i] else []) /\
    reads_within (start_or_0 (start_of (eff_window body w len) i)) i (ks_cb k).

  Theorem steps_ts_vext_in_window scmp body w mp (xs : list T) i k :
    nth_error (steps_ts_vext scmp body w mp xs) i = Some k ->
    step_in_window body (cmp_window w xs) (length xs) i k.
  Proof.
    unfold steps_ts_vext. cbv zeta. intros Hk.
    destruct (cmp_window w xs) as [|w'] eqn:Ew; [rewrite kernel_steps_w0 in Hk; destruct i; discriminate|].
    eapply kernel_step_shape in Hk; [|intros; apply vext_cb_tr_reads; assumption|lia].
    destruct Hk as (H1 & H2 & H3 & _ & H5). repeat split; assumption.
  Qed.
  Theorem steps_ts_varg_in_window scmp body w mp (xs : list T) i k :
    nth_error (steps_ts_varg scmp body w mp xs) i = Some k ->
    step_in_window body (cmp_window w xs) (length xs) i k.
  Proof.
    unfold steps_ts_varg. cbv zeta. intros Hk.
    destruct (cmp_window w xs) as [|w'] eqn:Ew; [rewrite kernel_steps_w0 in Hk; destruct i; discriminate|].
    eapply kernel_step_shape in Hk; [|intros; apply varg_cb_tr_reads; assumption|lia].
    destruct Hk as (H1 & H2 & H3 & _ & H5). repeat split; assumption.
  Qed.
  Theorem steps_ts_vrank_in_window {B : Type} {NB : Num B} body w mp pct rev (xs : list T) i k :
    nth_error (steps_ts_vrank (B := B) body w mp pct rev xs) i = Some k ->
    step_in_window body (cmp_window w xs) (length xs) i k.
  Proof.
    unfold steps_ts_vrank. cbv zeta. intros Hk.
    destruct (cmp_window w xs) as [|w'] eqn:Ew; [rewrite kernel_steps_w0 in Hk; destruct i; discriminate|].
    eapply kernel_step_shape in Hk; [|intros; apply vrank_cb_tr_reads; assumption|lia].
    destruct Hk as (H1 & H2 & H3 & _ & H5). repeat split; assumption.
  Qed.
  Theorem steps_ts_vminmaxnorm_in_window tmin tmax body w mp (xs : list T) i k :
    nth_error (steps_ts_vminmaxnorm tmin tmax body w mp xs) i = Some k ->
    step_in_window body w (length xs) i k.
  Proof.
    unfold steps_ts_vminmaxnorm. intros Hk.
    destruct w as [|w']; [rewrite kernel_steps_w0 in Hk; destruct i; discriminate|].
    eapply kernel_step_shape in Hk; [|intros; apply mmnorm_cb_tr_reads; assumption|lia].
    destruct Hk as (H1 & H2 & H3 & _ & H5). repeat split; assumption.
  Qed.
End Entries.

Section Entries2.
  Context {A : Type} {NA : Num A} {T1 : Type} {D1 : IsNone T1 A} {T2 : Type} {D2 : IsNone T2 A}.

  Theorem steps_ts_vregx_resid_flatten (K : rstat) body w mp (xs : list T1) (ys : list T2) :
    flat_map kstep_accs (steps_ts_vregx_resid (A := A) K body w mp xs ys)
    = trace_ts_vregx_resid (A := A) K body w mp xs ys.
  Proof.
    unfold steps_ts_vregx_resid, trace_ts_vregx_resid. cbv zeta.
    destruct (body && (length ys <? length xs)); [reflexivity|]. apply kernel_steps_flatten.
  Qed.

  (* both views: the step of position i reads (self, other) at indices of its own window, i < min of the lengths *)
  Theorem steps_ts_vregx_resid_in_window (K : rstat) body w mp (xs : list T1) (ys : list T2) i k :
    nth_error (steps_ts_vregx_resid (A := A) K body w mp xs ys) i = Some k ->
    i < Nat.min (length xs) (length ys) /\
    ks_drv k = (if body then drv_reads true i else []) /\
    (ks_panic k = None -> ks_wr k = if body then [AUset i] else []) /\
    reads_within (start_or_0 (start_of (eff_window body w (Nat.min (length xs) (length ys))) i)) i (ks_cb k).
  Proof.
    unfold steps_ts_vregx_resid. cbv zeta. intros Hk.
    destruct (body && (length ys <? length xs)); [destruct i; discriminate|].
    destruct w as [|w']; [rewrite kernel_steps_w0 in Hk; destruct i; discriminate|].
    eapply kernel_step_shape in Hk; [|intros; apply resid_cb_tr_reads; assumption|lia].
    rewrite combine_length in Hk. destruct Hk as (H1 & H2 & H3 & _ & H5). repeat split; assumption.
  Qed.
End Entries2.

(* ---- (S) the sorted read numbers ---------------------------------------------------------------------- *)
Lemma ins_z_perm x l : Permutation (ins_z x l) (x :: l).
Proof.
  induction l as [|y r IH]; [reflexivity|]. cbn [ins_z]. destruct (x <=? y)%Z; [reflexivity|].
  rewrite IH. apply perm_swap.
Qed.
Lemma sort_z_perm l : Permutation (sort_z l) l.
Proof.
  induction l as [|x r IH]; [reflexivity|]. cbn [sort_z]. rewrite ins_z_perm. constructor. exact IH.
Qed.
Lemma ins_z_hd x l z : HdRel Z.le z l -> (z <= x)%Z -> HdRel Z.le z (ins_z x l).
Proof.
  intros Hl Hz. destruct l as [|y r]; cbn [ins_z]; [constructor; exact Hz|].
  destruct (x <=? y)%Z; constructor; [exact Hz|]. inversion Hl; assumption.
Qed.
Lemma ins_z_sorted x l : Sorted Z.le l -> Sorted Z.le (ins_z x l).
Proof.
  induction l as [|y r IH]; intros Hs; cbn [ins_z]; [repeat constructor|].
  destruct (x <=? y)%Z eqn:E.
  - apply Z.leb_le in E. constructor; [exact Hs|constructor; exact E].
  - apply Z.leb_gt in E. inversion Hs as [|? ? Hr Hh]; subst. constructor; [apply IH; exact Hr|].
    apply ins_z_hd; [exact Hh|lia].
Qed.
Lemma sort_z_sorted l : Sorted Z.le (sort_z l).
Proof. induction l as [|x r IH]; [constructor|]. cbn [sort_z]. apply ins_z_sorted. exact IH. Qed.

Theorem read_nums_sound (t : list acc) :
  Permutation (read_nums t) (map acc_num (filter is_read t)) /\ Sorted Z.le (read_nums t).
Proof. split; [apply sort_z_perm|apply sort_z_sorted]. Qed.

(* an unchecked read is among the emitted numbers exactly when the step performs it (the numbering is
   injective on the reads a callback can make: index < 10^6) *)
Theorem read_nums_uget (t : list acc) v i :
  Forall (fun a => match a with AUget v' i' => (Z.of_nat i' < 1000000)%Z | _ => False end) t ->
  (Z.of_nat i < 1000000)%Z ->
  (In (1000000 * (1 + Z.of_nat v) + Z.of_nat i)%Z (read_nums t) <-> In (AUget v i) t).
Proof.
  intros Hf Hi. split.
  - intros Hin. apply (Permutation_in _ (sort_z_perm _)) in Hin.
    apply in_map_iff in Hin. destruct Hin as (a & Ha & Hin). apply filter_In in Hin. destruct Hin as [Hin _].
    rewrite Forall_forall in Hf. specialize (Hf a Hin).
    destruct a as [v' i'| | |]; try contradiction. cbn [acc_num] in Ha. rename Hf into Hi'.
    assert (v' = v /\ i' = i) as [-> ->] by lia. exact Hin.
  - intros Hin. apply (Permutation_in _ (Permutation_sym (sort_z_perm _))).
    apply in_map_iff. exists (AUget v i). split; [reflexivity|]. apply filter_In. split; [exact Hin|reflexivity].
Qed.

(* ---- vrank: the trace cut at its writes ---------------------------------------------------------------- *)
Lemma segs_of_flatten : forall t cur, flat_map wseg_accs (segs_of t cur) = cur ++ t.
Proof.
  induction t as [|a r IH]; intros cur.
  - cbn [segs_of]. destruct cur; [reflexivity|]. cbn. unfold wseg_accs. cbn. rewrite !app_nil_r. reflexivity.
  - destruct a as [v i|v x y|v x y|i]; cbn [segs_of];
      try (rewrite IH, <- app_assoc; reflexivity).
    cbn [flat_map]. rewrite IH. unfold wseg_accs. cbn. rewrite <- app_assoc. reflexivity.
Qed.

Lemma segs_of_writes : forall t cur, seg_writes (segs_of t cur) = writes_of t.
Proof.
  induction t as [|a r IH]; intros cur.
  - cbn [segs_of]. destruct cur; reflexivity.
  - destruct a as [v i|v x y|v x y|i]; cbn [segs_of]; try (rewrite IH; reflexivity).
    unfold seg_writes in *. cbn [flat_map ws_write]. rewrite IH. reflexivity.
Qed.

Lemma writes_of_filter_observable t : writes_of (filter observable t) = writes_of t.
Proof.
  induction t as [|a r IH]; [reflexivity|].
  destruct a as [[|[|[|v]]] i|v x y|v x y|i]; cbn [filter observable]; cbn [writes_of flat_map app] in *;
    rewrite ?IH; try reflexivity; unfold writes_of in *; cbn [flat_map app]; rewrite ?IH; reflexivity.
Qed.

(* every segment but the last ends with a write *)
Lemma segs_of_write_last : forall t cur i s,
  nth_error (segs_of t cur) i = Some s -> ws_write s = None -> S i = length (segs_of t cur).
Proof.
  induction t as [|a r IH]; intros cur i s Hs Hw.
  - cbn [segs_of] in *. destruct cur; [destruct i; discriminate|].
    destruct i as [|i]; [reflexivity|destruct i; discriminate].
  - destruct a as [v j|v x y|v x y|j]; cbn [segs_of] in *; try (eapply IH; eassumption).
    destruct i as [|i]; [cbn in Hs; injection Hs as <-; discriminate|].
    cbn [nth_error length] in *. f_equal. eapply IH; eassumption.
Qed.

Lemma class_rep_le {T} (same : T -> T -> bool) (xs : list T) i : class_rep same xs i <= i.
Proof.
  unfold class_rep. destruct (nth_error xs i) as [x|]; [|apply Nat.le_refl].
  destruct (find _ (seq 0 i)) as [j|] eqn:E; [|apply Nat.le_refl].
  apply find_some in E. destruct E as [E _]. apply in_seq in E. lia.
Qed.

(* the representative holds an element of the same class (for a reflexive `same`) *)
Lemma class_rep_same {T} (same : T -> T -> bool) (xs : list T) i x :
  (forall y, same y y = true) -> nth_error xs i = Some x ->
  exists y, nth_error xs (class_rep same xs i) = Some y /\ same y x = true.
Proof.
  intros Hr Hx. unfold class_rep. rewrite Hx.
  destruct (find _ (seq 0 i)) as [j|] eqn:E; [|exists x; split; [exact Hx|apply Hr]].
  apply find_some in E. destruct E as [_ E]. destruct (nth_error xs j) as [y|]; [|discriminate].
  exists y. split; [reflexivity|exact E].
Qed.

Section VrankSegs.
  Context {A : Type} {NA : Num A} {T : Type} {DT : IsNone T A} {DX : IsNoneX T A}.

  (* nothing observable is added, dropped or reordered by the cut *)
  Theorem vrank_segs_flatten pct rev (xs : list T) :
    flat_map wseg_accs (vrank_segs pct rev xs) = filter observable (fst (vrank_tr pct rev xs)).
  Proof. unfold vrank_segs. rewrite segs_of_flatten. reflexivity. Qed.

  Theorem vrank_segs_writes pct rev (xs : list T) :
    seg_writes (vrank_segs pct rev xs) = writes_of (fst (vrank_tr pct rev xs)).
  Proof. unfold vrank_segs. rewrite segs_of_writes. apply writes_of_filter_observable. Qed.

  (* hence the segments write every slot exactly once on the uninitialised-buffer path *)
  Theorem vrank_segs_each_slot_once pct rev (xs : list T) :
    2 <= length xs ->
    get_is_none xs (nth 0 (isort (cmp_idx (cmp_dir rev) xs) (seq 0 (length xs))) 0) = false ->
    Permutation (seg_writes (vrank_segs pct rev xs)) (seq 0 (length xs)).
  Proof. intros H1 H2. rewrite vrank_segs_writes. apply vrank_tr_writes_perm; assumption. Qed.

  (* every observable access of every segment is in bounds *)
  Theorem vrank_segs_in_bounds pct rev (xs : list T) :
    Forall (fun s => Forall (acc_ok (length xs) (length xs)) (wseg_accs s)) (vrank_segs pct rev xs).
  Proof.
    assert (H : Forall (acc_ok (length xs) (length xs)) (flat_map wseg_accs (vrank_segs pct rev xs))).
    { rewrite vrank_segs_flatten. apply Forall_forall. intros a Ha. apply filter_In in Ha.
      destruct Ha as [Ha _]. pose proof (vrank_tr_in_bounds pct rev xs) as Hb.
      rewrite Forall_forall in Hb. exact (Hb a Ha). }
    apply Forall_forall. intros s Hs. apply Forall_forall. intros a Ha.
    rewrite Forall_forall in H. apply H. apply in_flat_map. exists s. split; assumption.
  Qed.

  Theorem vrank_segs_write_last pct rev (xs : list T) i s :
    nth_error (vrank_segs pct rev xs) i = Some s -> ws_write s = None ->
    S i = length (vrank_segs pct rev xs).
  Proof. apply segs_of_write_last. Qed.
End VrankSegs.

(* ---- window 0 on a non-empty first series (X12: Model/Driver.v now follows view.rs here) -----------------
   Both bodies assert before anything is accessed: the index body `other.len() >= len` and then
   `window > 0 || len == 0`, the iterator body `window > 0 || self.is_empty()` on SELF - so also when the
   second series is empty and the zipped series has no element.  No step, no access.                     *)
Lemma resid_window0_rejected {A : Type} {NA : Num A} {T1 : Type} {D1 : IsNone T1 A}
      {T2 : Type} {D2 : IsNone T2 A} (K : rstat) body mp (xs : list T1) (ys : list T2) :
  xs <> [] ->
  ts_vregx_resid (A := A) (D1 := D1) (D2 := D2) K body 0 mp xs ys = Panicked AssertFail
  /\ steps_ts_vregx_resid (A := A) (D1 := D1) (D2 := D2) K body 0 mp xs ys = [].
Proof.
  intros Hx. split.
  - unfold ts_vregx_resid. cbv zeta. destruct body.
    + rewrite rolling2_apply_idx_to_total. destruct (length ys <? length xs); [reflexivity|].
      replace (bad_window 0 xs) with true by (symmetry; apply bad_window_true_iff; auto). reflexivity.
    + apply rolling2_apply_idx_default_window0. exact Hx.
  - unfold steps_ts_vregx_resid. cbv zeta. destruct (body && (length ys <? length xs)); [reflexivity|].
    apply kernel_steps_w0.
Qed.
