(* Proofs/Partition.v — vpartition / varg_partition at XR: closed forms in terms of THE sorted
   arrangement of the valid elements, and the consequences the property lists.                   *)
From Coq Require Import Reals Lra Lia List Sorting Permutation ZArith Bool.
From Tevec Require Import Base.Prelude Base.Num Base.XR Spec.Stats Model.SortCmp Model.Partition
     Proofs.SortCmp Proofs.OrderXR Proofs.Quantile.
Import ListNotations.

Global Instance IsNoneXXR : IsNoneX XR XR := IsNoneX_float.

Lemma In_firstn {X} (l : list X) m x : In x (firstn m l) -> In x l.
Proof.
  revert m. induction l as [|y l IH]; intros m Hx; [rewrite firstn_nil in Hx; exact Hx|].
  destruct m; [contradiction|]. destruct Hx as [->|Hx]; [left; reflexivity|right; eapply IH; exact Hx].
Qed.
Lemma In_skipn {X} (l : list X) m x : In x (skipn m l) -> In x l.
Proof.
  revert m. induction l as [|y l IH]; intros m Hx; [destruct m; exact Hx|].
  destruct m; [exact Hx|]. right. eapply IH. exact Hx.
Qed.
Lemma NoDup_firstn {X} (l : list X) m : NoDup l -> NoDup (firstn m l).
Proof.
  revert m. induction l as [|a l IH]; intros m Hnd; [rewrite firstn_nil; constructor|].
  destruct m; [constructor|]. cbn [firstn]. inversion Hnd; subst. constructor; [|apply IH; assumption].
  intros Hin. apply In_firstn in Hin. contradiction.
Qed.

(* ---- generic facts about the sort model ------------------------------------------------------- *)
Section SortMap.
  Context {X Y : Type} (f : X -> Y) (cmp : Y -> Y -> comparison).
  Let cmpf := fun a b => cmp (f a) (f b).

  Lemma insert_map x l : map f (insert cmpf x l) = insert cmp (f x) (map f l).
  Proof.
    induction l as [|y r IH]; [reflexivity|]. cbn [insert map]. unfold cle, cmpf.
    destruct (cmp (f x) (f y)); cbn [map]; try reflexivity. f_equal. exact IH.
  Qed.
  Lemma isort_map l : map f (isort cmpf l) = isort cmp (map f l).
  Proof.
    induction l as [|x l IH]; [reflexivity|]. cbn [isort fold_right map].
    fold (isort cmpf l). fold (isort cmp (map f l)). rewrite insert_map, IH. reflexivity.
  Qed.
End SortMap.

Lemma insert_ext_in {X} (c1 c2 : X -> X -> comparison) x l :
  (forall b, In b l -> c1 x b = c2 x b) -> insert c1 x l = insert c2 x l.
Proof.
  induction l as [|y r IH]; intros H; [reflexivity|]. cbn [insert]. unfold cle.
  rewrite (H y) by (left; reflexivity). destruct (c2 x y); try reflexivity.
  f_equal. apply IH. intros b Hb. apply H. right. exact Hb.
Qed.
Lemma isort_ext_in {X} (c1 c2 : X -> X -> comparison) l :
  (forall a b, In a l -> In b l -> c1 a b = c2 a b) -> isort c1 l = isort c2 l.
Proof.
  induction l as [|x l IH]; intros H; [reflexivity|]. cbn [isort fold_right].
  fold (isort c1 l) (isort c2 l). rewrite IH by (intros a b Ha Hb; apply H; right; assumption).
  apply insert_ext_in. intros b Hb. apply H; [left; reflexivity|right].
  apply Permutation_in with (isort c2 l); [apply isort_perm|exact Hb].
Qed.

(* a sorted list is a fixed point of the sort (antisymmetric order: the arrangement is unique) *)
Lemma isort_sorted_id rev (l : list XR) :
  Sorted (xr_le rev) l -> isort (cmp_dir (DT := IsNoneXR) rev) l = l.
Proof.
  intros Hs. apply (@sorted_perm_unique XR (xr_le rev)).
  - apply xr_le_trans.
  - apply xr_le_antisym.
  - apply sorted_cle_iff. apply isort_sorted. apply cle_dir_total.
  - exact Hs.
  - apply isort_perm.
Qed.

(* argsort: the values along the sorted index vector are the sorted values *)
Definition xval (xs : list XR) (i : nat) : XR := nth i xs None.

Lemma map_xval_seq xs : map (xval xs) (seq 0 (length xs)) = xs.
Proof.
  apply nth_error_ext. intros i. rewrite nth_error_map, nth_error_seq.
  destruct (i <? length xs)%nat eqn:E; cbn [option_map].
  - apply Nat.ltb_lt in E. unfold xval. cbn [Nat.add]. symmetry. apply nth_error_nth'. exact E.
  - apply Nat.ltb_ge in E. symmetry. apply nth_error_None. exact E.
Qed.

Lemma argsort_values (cmp : XR -> XR -> comparison) xs :
  map (xval xs) (isort (cmp_idx cmp xs) (seq 0 (length xs))) = isort cmp xs.
Proof.
  rewrite (isort_ext_in (cmp_idx cmp xs) (fun a b => cmp (xval xs a) (xval xs b))).
  - rewrite isort_map, map_xval_seq. reflexivity.
  - intros a b Ha Hb. apply in_seq in Ha. apply in_seq in Hb. unfold cmp_idx, xval.
    rewrite (nth_error_nth' xs None) by lia. rewrite (nth_error_nth' xs None) by lia. reflexivity.
Qed.

(* ---- pad_take ------------------------------------------------------------------------------------ *)
Lemma pad_take_short {X} k1 (pad : X) l :
  (length l <= k1)%nat -> pad_take k1 pad l = l ++ repeat pad (k1 - length l).
Proof.
  intros H. unfold pad_take. rewrite firstn_app, firstn_all2 by exact H. f_equal.
  apply nth_error_ext. intros i. rewrite nth_error_firstn, !nth_error_repeat.
  destruct (i <? k1 - length l)%nat eqn:E1; [|reflexivity].
  apply Nat.ltb_lt in E1. replace (i <? k1)%nat with true by (symmetry; apply Nat.ltb_lt; lia). reflexivity.
Qed.
Lemma pad_take_long {X} k1 (pad : X) l :
  (k1 <= length l)%nat -> pad_take k1 pad l = firstn k1 l.
Proof.
  intros H. unfold pad_take. rewrite firstn_app. replace (k1 - length l)%nat with 0%nat by lia.
  cbn [firstn]. apply app_nil_r.
Qed.

Lemma filter_not_none_valid (xs : list XR) : filter (not_none (H := IsNoneXR)) xs = map Some (valid xs).
Proof. induction xs as [|[x|] xs IH]; cbn; try fold (valid xs); [reflexivity| |exact IH]. f_equal. exact IH. Qed.

Lemma firstn_repeat {X} (x : X) k n : firstn k (repeat x n) = repeat x (Nat.min k n).
Proof.
  revert n. induction k as [|k IH]; intros n; [reflexivity|].
  destruct n as [|n]; [reflexivity|]. cbn. f_equal. apply IH.
Qed.

(* ---- vpartition ------------------------------------------------------------------------------------ *)
Definition part_canon (k : nat) (s : list R) : list XR :=
  map Some (firstn (k + 1) s) ++ repeat None (k + 1 - length s).

Lemma vpartition_spec (k : nat) (sort rev : bool) (xs : list XR) (s : list R) :
  Sorted (rle rev) s -> Permutation s (valid xs) ->
  exists r, vpartition k sort rev xs = Ok r /\
            Permutation r (part_canon k s) /\ (sort = true -> r = part_canon k s).
Proof.
  intros Hs HP.
  assert (Hn : count_valid (DT := IsNoneXR) xs = length s).
  { rewrite count_valid_nv. unfold nv. symmetry. apply Permutation_length. exact HP. }
  assert (Hnl : (length s <= length xs)%nat).
  { rewrite <- Hn, count_valid_nv. apply nv_le_length. }
  assert (Hz : nnull xs = (length xs - length s)%nat).
  { unfold nnull. rewrite <- count_valid_nv, Hn. reflexivity. }
  unfold vpartition, part_canon. rewrite Hn.
  destruct ((length s =? k + 1)%nat && negb sort) eqn:E1.
  { apply andb_prop in E1. destruct E1 as [E1 E2]. apply Nat.eqb_eq in E1.
    destruct sort; [discriminate|].
    eexists. split; [reflexivity|]. split; [|discriminate].
    rewrite filter_not_none_valid. rewrite firstn_all2 by lia.
    replace (k + 1 - length s)%nat with 0%nat by lia. cbn [repeat]. rewrite app_nil_r.
    apply Permutation_map. symmetry. exact HP. }
  destruct (length s <=? k + 1)%nat eqn:E2.
  - apply Nat.leb_le in E2. rewrite (firstn_all2 s) by lia.
    destruct sort; cbn [negb].
    + (* sorted fast path *)
      rewrite (isort_canon rev xs s Hs HP). rewrite app_length, map_length, repeat_length, Hz.
      replace (length s + (length xs - length s))%nat with (length xs) by lia.
      destruct (length xs <? k + 1)%nat eqn:E3.
      * apply Nat.ltb_lt in E3. cbn [tnone IsNoneXXR IsNoneX_float bind].
        eexists. split; [reflexivity|].
        assert (Heq : pad_take (k + 1) (@nnan XR NumXR) (map Some s ++ repeat None (length xs - length s))
                      = map Some s ++ repeat None (k + 1 - length s)).
        { rewrite pad_take_short by (rewrite app_length, map_length, repeat_length; lia).
          rewrite app_length, map_length, repeat_length, <- app_assoc.
          change (@nnan XR NumXR) with (@None R). rewrite <- repeat_app. do 2 f_equal. lia. }
        rewrite Heq. split; [reflexivity|reflexivity].
      * apply Nat.ltb_ge in E3. eexists. split; [reflexivity|].
        assert (Heq : firstn (k + 1) (map Some s ++ repeat None (length xs - length s))
                      = map Some s ++ repeat None (k + 1 - length s)).
        { rewrite firstn_app, map_length, firstn_all2 by (rewrite map_length; lia).
          rewrite firstn_repeat. do 2 f_equal. lia. }
        rewrite Heq. split; reflexivity.
    + (* unsorted fast path *)
      cbn [tnone IsNoneXXR IsNoneX_float bind]. eexists. split; [reflexivity|]. split; [|discriminate].
      rewrite filter_not_none_valid.
      rewrite pad_take_short by (rewrite map_length; rewrite <- (Permutation_length HP); lia).
      rewrite map_length, <- (Permutation_length HP).
      apply Permutation_app_tail. apply Permutation_map. symmetry. exact HP.
  - apply Nat.leb_gt in E2. replace (k + 1 - length s)%nat with 0%nat by lia. cbn [repeat].
    rewrite app_nil_r. rewrite (isort_canon rev xs s Hs HP).
    rewrite firstn_app, map_length. replace (k + 1 - length s)%nat with 0%nat by lia.
    cbn [firstn]. rewrite app_nil_r, firstn_map.
    eexists. split; [reflexivity|].
    assert (Hid : isort (cmp_dir (DT := IsNoneXR) rev) (map Some (firstn (k + 1) s)) = map Some (firstn (k + 1) s)).
    { apply isort_sorted_id. rewrite <- (app_nil_r (map Some _)). apply (sorted_canon rev _ 0).
      apply sorted_firstn. exact Hs. }
    destruct sort; rewrite ?Hid; split; reflexivity.
Qed.

(* consequences of the canonical form *)
Lemma part_canon_length k s : length (part_canon k s) = (k + 1)%nat.
Proof. unfold part_canon. rewrite app_length, map_length, firstn_length, repeat_length. lia. Qed.

Lemma sorted_split_le rev (s : list R) k a b :
  Sorted (rle rev) s -> In a (firstn k s) -> In b (skipn k s) -> rle rev a b.
Proof.
  intros Hs. apply Sorted_StronglySorted in Hs; [|intros x y z; unfold rle; destruct rev; lra].
  revert k. induction Hs as [|c l Hl IH Hall]; intros k Ha Hb.
  - rewrite firstn_nil in Ha. contradiction.
  - destruct k as [|k]; [contradiction|]. cbn [firstn skipn] in *.
    destruct Ha as [->|Ha].
    + rewrite Forall_forall in Hall. apply Hall. eapply In_skipn. exact Hb.
    + apply (IH k); assumption.
Qed.

(* ---- varg_partition ---------------------------------------------------------------------------------- *)
Lemma valid_idx_spec_gen (xs : list XR) (a : nat) :
  exists idx : list nat,
    flat_map (fun p : nat * XR => if not_none (H := IsNoneXR) (snd p) then [Z.of_nat (fst p)] else [])
             (combine (seq a (length xs)) xs) = map Z.of_nat idx /\ NoDup idx /\
    (forall i, In i idx -> a <= i < a + length xs)%nat /\
    map (fun i => nth (i - a) xs None) idx = map Some (valid xs).
Proof.
  revert a. induction xs as [|[x|] xs IH]; intros a; cbn [length seq combine flat_map].
  - exists []. split; [reflexivity|]. split; [constructor|]. split; [intros i []|reflexivity].
  - destruct (IH (S a)) as (idx & E & Hnd & Hr & Hv).
    change (not_none (H := IsNoneXR) (snd (a, Some x))) with true. cbn iota. cbn [fst app].
    exists (a :: idx). rewrite E. split; [reflexivity|]. split.
    { constructor; [|exact Hnd]. intros Hin. apply Hr in Hin. lia. }
    split.
    { intros i [<-|Hi]; [lia|]. apply Hr in Hi. lia. }
    cbn [map valid flat_map app]. fold (valid xs). rewrite Nat.sub_diag. cbn [nth]. f_equal.
    rewrite <- Hv. apply map_ext_in. intros i Hi. apply Hr in Hi.
    replace (i - a)%nat with (S (i - S a)) by lia. reflexivity.
  - destruct (IH (S a)) as (idx & E & Hnd & Hr & Hv).
    change (not_none (H := IsNoneXR) (snd (a, @None R))) with false. cbn iota. cbn [app].
    exists idx. split; [exact E|]. split; [exact Hnd|]. split.
    { intros i Hi. apply Hr in Hi. lia. }
    cbn [valid flat_map app]. fold (valid xs). rewrite <- Hv. apply map_ext_in. intros i Hi.
    apply Hr in Hi. replace (i - a)%nat with (S (i - S a)) by lia. reflexivity.
Qed.

Lemma valid_idx_spec (xs : list XR) :
  exists idx : list nat, valid_idx (DT := IsNoneXR) xs = map Z.of_nat idx /\ NoDup idx /\
    (forall i, In i idx -> i < length xs)%nat /\ map (xval xs) idx = map Some (valid xs).
Proof.
  destruct (valid_idx_spec_gen xs 0) as (idx & E & Hnd & Hr & Hv).
  exists idx. split; [exact E|]. split; [exact Hnd|]. split.
  - intros i Hi. apply Hr in Hi. lia.
  - rewrite <- Hv. apply map_ext. intros i. unfold xval. rewrite Nat.sub_0_r. reflexivity.
Qed.

(* the result: real indices followed by -1 padding *)
Lemma varg_partition_spec (k : nat) (sort rev : bool) (xs : list XR) (s : list R) :
  Sorted (rle rev) s -> Permutation s (valid xs) ->
  exists idx : list nat,
    varg_partition k sort rev xs = map Z.of_nat idx ++ repeat (-1)%Z (k + 1 - length s) /\
    NoDup idx /\ (forall i, In i idx -> i < length xs)%nat /\
    Permutation (map (xval xs) idx) (map Some (firstn (k + 1) s)) /\
    (sort = true -> map (xval xs) idx = map Some (firstn (k + 1) s)).
Proof.
  intros Hs HP.
  assert (Hn : count_valid (DT := IsNoneXR) xs = length s).
  { rewrite count_valid_nv. unfold nv. symmetry. apply Permutation_length. exact HP. }
  assert (Hnl : (length s <= length xs)%nat).
  { rewrite <- Hn, count_valid_nv. apply nv_le_length. }
  set (cmpi := cmp_idx (cmp_dir (DT := IsNoneXR) rev) xs).
  set (p := isort cmpi (seq 0 (length xs))).
  assert (Hpp : Permutation p (seq 0 (length xs))) by apply isort_perm.
  assert (Hpv : map (xval xs) p = map Some s ++ repeat None (nnull xs)).
  { unfold p, cmpi. rewrite argsort_values. apply isort_canon; assumption. }
  assert (Hpnd : NoDup p) by (apply Permutation_NoDup with (seq 0 (length xs)); [symmetry; exact Hpp|apply seq_NoDup]).
  assert (Hpr : forall i, In i p -> (i < length xs)%nat).
  { intros i Hi. apply (Permutation_in _ Hpp) in Hi. apply in_seq in Hi. lia. }
  assert (Hplen : length p = length xs) by (rewrite (Permutation_length Hpp); apply seq_length).
  assert (Hfv : forall m, (m <= length s)%nat -> map (xval xs) (firstn m p) = map Some (firstn m s)).
  { intros m Hm. rewrite <- firstn_map, Hpv, firstn_app, map_length.
    replace (m - length s)%nat with 0%nat by lia. cbn [firstn]. rewrite app_nil_r, firstn_map. reflexivity. }
  unfold varg_partition. rewrite Hn. fold cmpi. fold p.
  destruct (length s <=? k + 1)%nat eqn:E2.
  - apply Nat.leb_le in E2. rewrite (firstn_all2 s) by lia.
    destruct sort; cbn [negb].
    + exists (firstn (length s) p).
      rewrite pad_take_short by (rewrite map_length, firstn_length; lia).
      rewrite map_length, firstn_length, Hplen. replace (Nat.min (length s) (length xs)) with (length s) by lia.
      split; [reflexivity|]. split; [|split].
      * apply NoDup_firstn. exact Hpnd.
      * intros i Hi. apply Hpr. eapply In_firstn. exact Hi.
      * rewrite (Hfv (length s)) by lia. rewrite firstn_all. split; [reflexivity|reflexivity].
    + destruct (valid_idx_spec xs) as (idx & E & Hnd & Hr & Hv).
      exists idx. rewrite E.
      assert (Hli : length idx = length s).
      { apply (f_equal (@length XR)) in Hv. rewrite !map_length in Hv. rewrite Hv. symmetry. apply Permutation_length. exact HP. }
      rewrite pad_take_short by (rewrite map_length; lia). rewrite map_length, Hli.
      split; [reflexivity|]. split; [exact Hnd|]. split; [exact Hr|]. split; [|discriminate].
      rewrite Hv. apply Permutation_map. symmetry. exact HP.
  - apply Nat.leb_gt in E2. replace (k + 1 - length s)%nat with 0%nat by lia. cbn [repeat].
    set (t := firstn (k + 1) p).
    assert (Htnd : NoDup t).
    { unfold t. apply NoDup_firstn. exact Hpnd. }
    assert (Htr : forall i, In i t -> (i < length xs)%nat).
    { intros i Hi. apply Hpr. unfold t in Hi. eapply In_firstn. exact Hi. }
    assert (Htv : map (xval xs) t = map Some (firstn (k + 1) s)) by (apply Hfv; lia).
    destruct sort.
    + exists (isort cmpi t). rewrite app_nil_r. split; [reflexivity|].
      assert (Hpt : Permutation (isort cmpi t) t) by apply isort_perm.
      split; [apply Permutation_NoDup with t; [symmetry; exact Hpt|exact Htnd]|].
      split; [intros i Hi; apply Htr; apply (Permutation_in _ Hpt); exact Hi|].
      assert (Hval : map (xval xs) (isort cmpi t) = map Some (firstn (k + 1) s)).
      { unfold cmpi.
        rewrite (isort_ext_in (cmp_idx (cmp_dir (DT := IsNoneXR) rev) xs)
                              (fun a b => cmp_dir (DT := IsNoneXR) rev (xval xs a) (xval xs b))).
        - rewrite isort_map, Htv. apply isort_sorted_id.
          rewrite <- (app_nil_r (map Some _)). apply (sorted_canon rev _ 0). apply sorted_firstn. exact Hs.
        - intros a b Ha Hb. apply Htr in Ha. apply Htr in Hb. unfold cmp_idx, xval.
          rewrite (nth_error_nth' xs None) by lia. rewrite (nth_error_nth' xs None) by lia. reflexivity. }
      rewrite Hval. split; reflexivity.
    + exists t. rewrite app_nil_r. split; [reflexivity|]. split; [exact Htnd|]. split; [exact Htr|].
      rewrite Htv. split; [reflexivity|discriminate].
Qed.
