(* Proofs/CalendarC18.v — the calendar inverse law: days_from_civil inverts civil_from_days for every
   day number (one 400-year era swept by computation, eras translated algebraically). *)
From Coq Require Import List ZArith Lia Bool.
From Tevec Require Import Base.Prelude Spec.CalendarC18.
Import ListNotations.
Local Open Scope Z_scope.

(* ------------------------------------------------------------------ *)
(* calendar: days_from_civil inverts civil_from_days, for every day number.
   One 400-year era (146097 days) is swept by computation; eras are translated algebraically. *)

Fixpoint all_from (n : nat) (z : Z) (p : Z -> bool) : bool :=
  match n with
  | O => true
  | S k => p z && all_from k (z + 1) p
  end.

Lemma all_from_spec : forall n z p, all_from n z p = true ->
  forall i, z <= i < z + Z.of_nat n -> p i = true.
Proof.
  induction n as [|n IH]; intros z p H i Hi; [lia|].
  cbn [all_from] in H. apply andb_true_iff in H. destruct H as [H1 H2].
  destruct (Z.eq_dec i z) as [->|Hne]; [exact H1|].
  apply (IH (z + 1) p H2). lia.
Qed.

Definition era_check (doe : Z) : bool :=
  let '(y, m, d) := civil_of_doe doe in
  valid_date y m d && (days_from_civil y m d =? doe - 719468) && (0 <=? y) && (y <=? 400).

Lemma era_sweep : all_from (Z.to_nat 146097) 0 era_check = true.
Proof. vm_compute. reflexivity. Qed.

Lemma era_fact doe : 0 <= doe < 146097 -> era_check doe = true.
Proof. intros H. apply (all_from_spec _ _ _ era_sweep). rewrite Z2Nat.id; lia. Qed.

Local Ltac zdm := Z.div_mod_to_equations; lia.

Lemma is_leap_shift y k : is_leap (y + k * 400) = is_leap y.
Proof.
  unfold is_leap.
  replace ((y + k * 400) mod 4) with (y mod 4) by zdm.
  replace ((y + k * 400) mod 100) with (y mod 100) by zdm.
  replace ((y + k * 400) mod 400) with (y mod 400) by zdm.
  reflexivity.
Qed.

Lemma valid_date_shift y k m d : valid_date (y + k * 400) m d = valid_date y m d.
Proof. unfold valid_date, days_in_month. rewrite is_leap_shift. reflexivity. Qed.

Lemma days_from_civil_shift y k m d :
  days_from_civil (y + k * 400) m d = days_from_civil y m d + k * 146097.
Proof.
  unfold days_from_civil. destruct (m <=? 2).
  - replace ((y + k * 400 - 1) / 400) with ((y - 1) / 400 + k) by zdm.
    replace ((y + k * 400 - 1) mod 400) with ((y - 1) mod 400) by zdm. lia.
  - replace ((y + k * 400) / 400) with (y / 400 + k) by zdm.
    replace ((y + k * 400) mod 400) with (y mod 400) by zdm. lia.
Qed.

(* the calendar law, for every day number *)
Lemma civil_roundtrip z :
  let '(y, m, d) := civil_from_days z in
  valid_date y m d = true /\ days_from_civil y m d = z.
Proof.
  unfold civil_from_days.
  set (z' := z + 719468). set (era := z' / 146097). set (doe := z' mod 146097).
  assert (Hdoe : 0 <= doe < 146097) by (subst doe; apply Z.mod_pos_bound; lia).
  assert (Hz : z' = 146097 * era + doe) by (subst era doe; apply Z.div_mod; lia).
  pose proof (era_fact doe Hdoe) as H. unfold era_check in H.
  destruct (civil_of_doe doe) as [[y m] d].
  apply andb_true_iff in H. destruct H as [H _]. apply andb_true_iff in H. destruct H as [H _].
  apply andb_true_iff in H. destruct H as [Hv Hd]. apply Z.eqb_eq in Hd.
  rewrite valid_date_shift, days_from_civil_shift. split; [exact Hv|]. subst z'. lia.
Qed.

Lemma valid_date_bounds y m d : valid_date y m d = true -> 1 <= m <= 12 /\ 1 <= d <= 31.
Proof.
  unfold valid_date, days_in_month. intros H.
  apply andb_true_iff in H. destruct H as [H H4]. apply andb_true_iff in H. destruct H as [H H3].
  apply andb_true_iff in H. destruct H as [H1 H2].
  apply Z.leb_le in H1, H2, H3, H4.
  destruct (m =? 2); [destruct (is_leap y); lia|].
  destruct ((m =? 4) || (m =? 6) || (m =? 9) || (m =? 11)); lia.
Qed.
