(* Proofs/CmpOrd.v — the cached-extreme state machines of Model/Cmp.v for EVERY ordered carrier:
   Proofs/Cmp.v generalised from Z to any `Num A` satisfying Spec/ExtremaOrd.OrdLaws on its non-NaN elements
   (Section hypotheses, instantiated for Z, option R and binary64 in Proofs/CmpOrdInst.v / CmpOrdFloat.v), any null
   dictionary `IsNone T A` and any series whose valid elements are not NaN.  Maxima are minima of the converse
   order (DirLaws ltb, ltb = nltb or ngtb) — no negation on the carrier is needed.
     - sort_cmp / sort_cmp_rev are the null-last orders gocmp nltb / gocmp ngtb on non-NaN values;
     - no panic, every slot written; after every step the cached (value, index) pair is the LAST position of
       the null-last extreme of the window (glm), the count is the number of valid elements of the window;
     - ts_vmin / ts_vmax = gmin / gmax of the valid window, ts_vargmin / ts_vargmax = 1-based offset of the
       last position holding it; both driver bodies, every window, min_periods, position.
   Stdlib only, axiom-free.                                                                              *)
From Coq Require Import ZArith List Lia Bool.
From Tevec Require Import Base.Prelude Base.Num Model.Driver Proofs.Driver Model.Cmp Proofs.IdxRun
     Spec.ExtremaOrd.
Import ListNotations.

(* ---- the null-last order on option A in direction ltb ---------------------------------------------- *)
Section Order.
  Context {A : Type} {NA : Num A}.
  Variable ltb : A -> A -> bool.

  Definition gocmp (a b : option A) : comparison :=
    match a, b with
    | Some x, Some y => if ltb x y then Lt else if ltb y x then Gt else Eq
    | None, None => Eq
    | None, Some _ => Gt
    | Some _, None => Lt
    end.
  Definition gole (a b : option A) : Prop := gocmp a b <> Gt.

  Lemma gtakes_ole a b : takes (gocmp a b) = true <-> gole a b.
  Proof. unfold gole. destruct (gocmp a b); cbn; split; intros H; try reflexivity; try discriminate; congruence. Qed.
  Lemma gtakes_not_ole a b : takes (gocmp a b) = false <-> ~ gole a b.
  Proof. rewrite <- gtakes_ole. destruct (takes (gocmp a b)); split; intros H; congruence. Qed.

  Lemma gole_none_some y : ~ gole None (Some y).
  Proof. unfold gole. cbn. intros H. apply H. reflexivity. Qed.
  Lemma gole_any_none a : gole a None.
  Proof. unfold gole. destruct a; cbn; discriminate. Qed.

  Hypothesis DL : DirLaws ltb.

  Lemma gole_some x y : num_ok x -> num_ok y -> (gole (Some x) (Some y) <-> ltb y x = false).
  Proof.
    intros Hx Hy. unfold gole. cbn. destruct (ltb x y) eqn:E1.
    - rewrite (dl_asym DL x y Hx Hy E1). split; intros _; [reflexivity|discriminate].
    - destruct (ltb y x); split; intros H; try reflexivity; try discriminate.
      exfalso. apply H. reflexivity.
  Qed.

  Lemma gole_refl a : okv a -> gole a a.
  Proof.
    destruct a as [x|]; intros Ha; [|apply gole_any_none].
    apply gole_some; [exact Ha|exact Ha|]. apply (dl_irrefl DL). exact Ha.
  Qed.
  Lemma gole_trans a b c : okv a -> okv b -> okv c -> gole a b -> gole b c -> gole a c.
  Proof.
    intros Ha Hb Hc H1 H2. destruct c as [z|]; [|apply gole_any_none].
    destruct b as [y|]; [|exfalso; exact (gole_none_some _ H2)].
    destruct a as [x|]; [|exfalso; exact (gole_none_some _ H1)].
    cbn in Ha, Hb, Hc. apply gole_some in H1; [|assumption|assumption]. apply gole_some in H2; [|assumption|assumption].
    apply gole_some; [assumption|assumption|].
    destruct (ltb z x) eqn:E; [|reflexivity].
    destruct (dl_cotrans DL z x y Hc Ha Hb E) as [H|H]; congruence.
  Qed.
  Lemma not_gole_gole a b : okv a -> okv b -> ~ gole a b -> gole b a.
  Proof.
    intros Ha Hb H. destruct a as [x|]; [|apply gole_any_none].
    destruct b as [y|]; [|exfalso; apply H; apply gole_any_none].
    cbn in Ha, Hb. apply gole_some; [assumption|assumption|].
    destruct (ltb x y) eqn:E; [|reflexivity].
    exfalso. apply H. apply gole_some; [assumption|assumption|]. apply (dl_asym DL); assumption.
  Qed.
  Lemma not_gole_some y x : num_ok y -> num_ok x -> ~ gole (Some y) (Some x) -> ltb x y = true.
  Proof.
    intros Hy Hx H. destruct (ltb x y) eqn:E; [reflexivity|]. exfalso. apply H. apply gole_some; assumption.
  Qed.
End Order.
Arguments gole_some {A NA ltb} DL {x y}.
Arguments gole_refl {A NA ltb} DL a.
Arguments gole_trans {A NA ltb} DL a b c.
Arguments not_gole_gole {A NA ltb} DL a b.
Arguments not_gole_some {A NA ltb} DL {y x}.

(* ---- isnone.rs: sort_cmp / sort_cmp_rev are these orders on non-NaN values -------------------------- *)
Section SortCmp.
  Context {A : Type} {NA : Num A}.
  Hypothesis OL : OrdLaws A.

  Lemma sort_cmp_ord (a b : option A) : okv a -> okv b -> sort_cmp a b = gocmp nltb a b.
  Proof.
    destruct a as [x|], b as [y|]; cbn; try reflexivity. intros Hx Hy. unfold pcmp.
    rewrite (ol_eqb OL x y Hx Hy).
    destruct (nltb x y) eqn:E1; [reflexivity|]. destruct (nltb y x) eqn:E2; reflexivity.
  Qed.

  Lemma sort_cmp_rev_ord (a b : option A) : okv a -> okv b -> sort_cmp_rev a b = gocmp ngtb a b.
  Proof.
    destruct a as [x|], b as [y|]; cbn; try reflexivity. intros Hx Hy. unfold pcmp, ngtb.
    rewrite (ol_eqb OL x y Hx Hy).
    destruct (nltb x y) eqn:E1.
    - rewrite (ol_asym OL x y Hx Hy E1). reflexivity.
    - destruct (nltb y x) eqn:E2; reflexivity.
  Qed.
End SortCmp.

(* ---- the list characterisation of "last extreme position" ------------------------------------------- *)
Section ListChar.
  Context {A : Type} {NA : Num A}.
  Variable ltb : A -> A -> bool.
  Hypothesis DL : DirLaws ltb.

  (* position q of W holds a null-last minimum, nothing after it is as small: it is ext_last of the valid part *)
  Lemma ext_last_char : forall (W : list (option A)) q o,
    Forall okv W ->
    nth_error W q = Some o ->
    (forall j oj, nth_error W j = Some oj -> gole ltb o oj) ->
    (forall j oj, q < j -> nth_error W j = Some oj -> ~ gole ltb oj o) ->
    o = ext_last ltb (gvalid W).
  Proof.
    induction W as [|c r IH]; intros q o Hok Hq Hmin Hlast; [destruct q; discriminate|].
    inversion Hok as [|c' r' Hc Hr]; subst c' r'.
    destruct q as [|q].
    - cbn in Hq. injection Hq as <-.
      destruct c as [x|].
      + change (gvalid (Some x :: r)) with (x :: gvalid r). cbn [ext_last].
        destruct (ext_last ltb (gvalid r)) as [m|] eqn:Er; [|reflexivity].
        assert (Hm : In (Some m) r) by (apply In_gvalid; apply ext_last_In with ltb; exact Er).
        destruct (In_nth_error _ _ Hm) as [j Hj].
        assert (Hmok : num_ok m) by (rewrite Forall_forall in Hr; exact (Hr _ Hm)).
        rewrite (not_gole_some DL Hmok Hc (Hlast (S j) (Some m) (Nat.lt_0_succ j) Hj)). reflexivity.
      + destruct r as [|d r]; [reflexivity|]. exfalso.
        apply (Hlast 1 d); [lia|reflexivity|apply gole_any_none].
    - cbn in Hq.
      assert (IHo : o = ext_last ltb (gvalid r)).
      { apply IH with q; [exact Hr|exact Hq| |].
        - intros j oj Hj. apply (Hmin (S j)). exact Hj.
        - intros j oj Hlt Hj. apply (Hlast (S j)); [lia|exact Hj]. }
      destruct c as [x|]; [|exact IHo].
      change (gvalid (Some x :: r)) with (x :: gvalid r). cbn [ext_last]. rewrite <- IHo.
      pose proof (Hmin 0 (Some x) eq_refl) as H0.
      destruct o as [m|]; [|exfalso; exact (gole_none_some _ _ H0)].
      assert (Hmok : num_ok m).
      { assert (Hin : In (Some m) r) by (apply nth_error_In with q; exact Hq).
        rewrite Forall_forall in Hr. exact (Hr _ Hin). }
      apply (gole_some DL Hmok Hc) in H0. rewrite H0. reflexivity.
  Qed.

  Lemma glast_pos_absent m : forall r : list (option A),
    (forall j y, nth_error r j = Some (Some y) -> neqb y m = false) -> glast_pos m r = None.
  Proof.
    induction r as [|b r IH]; intros H; [reflexivity|]. cbn [glast_pos].
    rewrite IH by (intros j y Hj; apply (H (S j)); exact Hj).
    destruct b as [x|]; [|reflexivity]. rewrite (H 0 x eq_refl). reflexivity.
  Qed.

  Lemma glast_pos_char : forall (W : list (option A)) q m,
    Forall okv W ->
    nth_error W q = Some (Some m) ->
    (forall j oj, q < j -> nth_error W j = Some oj -> ~ gole ltb oj (Some m)) ->
    glast_pos m W = Some q.
  Proof.
    induction W as [|c r IH]; intros q m Hok Hq Hlast; [destruct q; discriminate|].
    inversion Hok as [|c' r' Hc Hr]; subst c' r'.
    cbn [glast_pos]. destruct q as [|q].
    - cbn in Hq. injection Hq as ->. cbn in Hc.
      rewrite glast_pos_absent.
      + rewrite (dl_eqb_refl DL m Hc). reflexivity.
      + intros j y Hj.
        assert (Hy : num_ok y).
        { rewrite Forall_forall in Hr. apply (Hr (Some y)). apply nth_error_In with j. exact Hj. }
        apply (dl_lt_neq DL m y Hc Hy).
        apply (not_gole_some DL Hy Hc). apply (Hlast (S j)); [lia|exact Hj].
    - cbn in Hq. rewrite (IH q m Hr Hq); [reflexivity|].
      intros j oj Hlt Hj. apply (Hlast (S j)); [lia|exact Hj].
  Qed.
End ListChar.
Arguments ext_last_char {A NA ltb} DL W q o.
Arguments glast_pos_char {A NA ltb} DL W q m.

(* ---- positions of a series ---------------------------------------------------------------------------- *)
Section Positions.
  Context {A : Type} {T : Type} {DT : IsNone T A}.
  Variable xs : list T.

  (* the element at position i as an optional carrier value (None: null, or out of range) *)
  Definition gov (i : nat) : option A := match nth_error xs i with Some v => to_opt v | None => None end.
  Definition govs : list (option A) := map to_opt xs.

  Lemma govs_nth i : nth_error govs i = option_map to_opt (nth_error xs i).
  Proof. unfold govs. apply nth_error_map. Qed.
  Lemma gov_nth i v : nth_error xs i = Some v -> gov i = to_opt v.
  Proof. intros H. unfold gov. rewrite H. reflexivity. Qed.
  Lemma govs_nth_lt i : i < length xs -> nth_error govs i = Some (gov i).
  Proof.
    intros Hi. rewrite govs_nth. unfold gov. destruct (nth_error xs i) eqn:E; [reflexivity|].
    apply nth_error_None in E. lia.
  Qed.
  Lemma g_uget_ok i v : nth_error xs i = Some v -> uget xs i = Ok v.
  Proof. intros H. unfold uget. rewrite H. reflexivity. Qed.
  Lemma g_some_lt i : i < length xs -> exists v, nth_error xs i = Some v.
  Proof. apply nth_error_Some_lt. Qed.

  Definition gisv (v : T) : nat := if not_none v then 1 else 0.
  Lemma g_to_opt_not_none (v : T) : not_none v = match to_opt v with Some _ => true | None => false end.
  Proof. unfold not_none, to_opt. destruct (is_none v); reflexivity. Qed.
  Lemma g_to_opt_valid (v : T) : not_none v = true -> to_opt v = Some (unwrap v).
  Proof. unfold not_none, to_opt. destruct (is_none v); [discriminate|reflexivity]. Qed.
  Lemma g_to_opt_null (v : T) : not_none v = false -> to_opt v = None.
  Proof. unfold not_none, to_opt. destruct (is_none v); [reflexivity|discriminate]. Qed.

  (* ---- the count of valid elements ---------------------------------------------------------------- *)
  Definition gcount (a b : nat) : nat := length (gvalid (seg a b govs)).

  Lemma gcount_snoc a k v : a <= k -> nth_error xs k = Some v -> gcount a (S k) = gcount a k + gisv v.
  Proof.
    intros Hak Hv. unfold gcount.
    rewrite (@seg_snoc _ a k govs (to_opt v)); [|exact Hak|rewrite govs_nth, Hv; reflexivity].
    rewrite gvalid_app, app_length. f_equal. unfold gisv. rewrite g_to_opt_not_none.
    destruct (to_opt v); reflexivity.
  Qed.
  Lemma gcount_cons a b v0 : a < b -> nth_error xs a = Some v0 -> gcount a b = gisv v0 + gcount (S a) b.
  Proof.
    intros Hab Hv. unfold gcount.
    rewrite (@seg_cons _ a b govs (to_opt v0)); [|exact Hab|rewrite govs_nth, Hv; reflexivity].
    change (to_opt v0 :: seg (S a) b govs) with ([to_opt v0] ++ seg (S a) b govs).
    rewrite gvalid_app, app_length. f_equal. unfold gisv. rewrite g_to_opt_not_none.
    destruct (to_opt v0); reflexivity.
  Qed.
  Lemma gcount_nil a : gcount a a = 0.
  Proof. unfold gcount. rewrite seg_nil. reflexivity. Qed.
End Positions.

(* the premise on the series: its valid elements are not NaN (automatic for the float-like dictionary, where
   NaN IS the null, and for carriers without NaN) *)
Definition valid_not_nan {A} {NA : Num A} {T} {DT : IsNone T A} (xs : list T) : Prop :=
  forall v, In v xs -> is_none v = false -> nisnan (unwrap v) = false.

Lemma valid_not_nan_okv {A} {NA : Num A} {T} {DT : IsNone T A} (xs : list T) :
  valid_not_nan xs -> forall v, In v xs -> okv (to_opt v).
Proof.
  intros H v Hv. unfold to_opt. destruct (is_none v) eqn:E; [exact I|]. cbn. apply H; assumption.
Qed.

Section ExtG.
  Context {A : Type} {NA : Num A} {T : Type} {DT : IsNone T A}.
  Variable ltb : A -> A -> bool.
  Hypothesis DL : DirLaws ltb.
  Variable scmp : option A -> option A -> comparison.
  Hypothesis scmp_ok : forall a b, okv a -> okv b -> scmp a b = gocmp ltb a b.
  Variable xs : list T.
  Hypothesis Hxs : forall v, In v xs -> okv (to_opt v).

  Notation gov := (gov xs).
  Notation govs := (govs xs).
  Notation gcount := (gcount xs).

  Lemma nth_ok i v : nth_error xs i = Some v -> okv (to_opt v).
  Proof. intros H. apply Hxs. apply nth_error_In with i. exact H. Qed.
  Lemma gov_ok i : okv (gov i).
  Proof. unfold CmpOrd.gov. destruct (nth_error xs i) eqn:E; [apply (nth_ok i); exact E|exact I]. Qed.
  Lemma govs_ok : Forall okv govs.
  Proof.
    apply Forall_forall. intros o Ho. unfold CmpOrd.govs in Ho. apply in_map_iff in Ho.
    destruct Ho as (v & <- & Hv). apply Hxs. exact Hv.
  Qed.
  Lemma seg_ok a b : Forall okv (seg a b govs).
  Proof.
    apply Forall_forall. intros o Ho. apply In_nth_error in Ho. destruct Ho as [n Hn].
    rewrite nth_error_seg in Hn. destruct (n <? b - a); [|discriminate].
    pose proof govs_ok as H. rewrite Forall_forall in H. apply H. apply nth_error_In with (a + n). exact Hn.
  Qed.

  (* p is the LAST position of the null-last minimum (in direction ltb) of the positions [a, b) *)
  Definition glm (a b p : nat) : Prop :=
    a <= p < b /\ (forall j, a <= j < b -> gole ltb (gov p) (gov j)) /\
    (forall j, p < j < b -> ~ gole ltb (gov j) (gov p)).

  Lemma glm_single i : glm i (S i) i.
  Proof.
    split; [lia|]. split; intros j Hj; [replace j with i by lia; apply (gole_refl DL), gov_ok|lia].
  Qed.
  Lemma glm_drop a a' b p : glm a b p -> a <= a' <= p -> glm a' b p.
  Proof. intros (H1 & H2 & H3) Ha. split; [lia|]. split; intros j Hj; [apply H2|apply H3]; lia. Qed.
  Lemma glm_snoc_take a i p : glm a i p -> gole ltb (gov i) (gov p) -> glm a (S i) i.
  Proof.
    intros (H1 & H2 & H3) Hle. split; [lia|]. split; intros j Hj; [|lia].
    destruct (Nat.eq_dec j i) as [->|Hne]; [apply (gole_refl DL), gov_ok|].
    apply (gole_trans DL) with (gov p); try apply gov_ok; [exact Hle|apply H2; lia].
  Qed.
  Lemma glm_snoc_keep a i p : glm a i p -> ~ gole ltb (gov i) (gov p) -> glm a (S i) p.
  Proof.
    intros (H1 & H2 & H3) Hn. split; [lia|]. split; intros j Hj.
    - destruct (Nat.eq_dec j i) as [->|Hne]; [apply (not_gole_gole DL); try apply gov_ok; exact Hn|apply H2; lia].
    - destruct (Nat.eq_dec j i) as [->|Hne]; [exact Hn|apply H3; lia].
  Qed.

  (* the rescan loop continues a last-minimum of [a, i) to one of [a, i + cnt) *)
  Lemma g_rescan_from : forall cnt i p a,
    glm a i p -> i + cnt <= length xs ->
    exists p', rescan scmp xs i cnt (gov p) (Some p) = Ok (gov p', Some p') /\ glm a (i + cnt) p'.
  Proof.
    induction cnt as [|cnt IH]; intros i p a Hlm Hlen.
    - exists p. rewrite Nat.add_0_r. split; [reflexivity|exact Hlm].
    - destruct (g_some_lt xs i) as [v Hv]; [lia|].
      cbn [rescan]. rewrite (g_uget_ok xs i v Hv). cbn [bind]. rewrite <- (gov_nth xs i v Hv).
      rewrite scmp_ok by apply gov_ok.
      replace (i + S cnt) with (S i + cnt) by lia.
      destruct (takes (gocmp ltb (gov i) (gov p))) eqn:E.
      + apply gtakes_ole in E. apply IH; [|lia]. apply glm_snoc_take with p; assumption.
      + apply gtakes_not_ole in E. apply IH; [|lia]. apply glm_snoc_keep; assumption.
  Qed.

  (* the whole re-search: min = uget(start); for i in start..=end *)
  Lemma g_rescan_spec st e v0 mi :
    st <= e -> e < length xs -> nth_error xs st = Some v0 ->
    exists p', rescan scmp xs st (S e - st) (to_opt v0) mi = Ok (gov p', Some p') /\ glm st (S e) p'.
  Proof.
    intros Hse He Hv0. replace (S e - st) with (S (e - st)) by lia.
    cbn [rescan]. rewrite (g_uget_ok xs st v0 Hv0). cbn [bind].
    rewrite scmp_ok by (apply (nth_ok st); exact Hv0).
    assert (Ht : takes (gocmp ltb (to_opt v0) (to_opt v0)) = true)
      by (apply gtakes_ole, (gole_refl DL), (nth_ok st); exact Hv0).
    rewrite Ht, <- (gov_nth xs st v0 Hv0).
    destruct (g_rescan_from (e - st) (S st) st st (glm_single st)) as (p' & H1 & H2); [lia|].
    exists p'. split; [exact H1|]. replace (S e) with (S st + (e - st)) by lia. exact H2.
  Qed.

  (* ---- from the positional invariant to the window specification -------------------------------- *)
  Lemma glm_window_facts a b p : b <= length xs -> glm a b p ->
    let W := seg a b govs in
    nth_error W (p - a) = Some (gov p) /\
    (forall j oj, nth_error W j = Some oj -> gole ltb (gov p) oj) /\
    (forall j oj, p - a < j -> nth_error W j = Some oj -> ~ gole ltb oj (gov p)).
  Proof.
    intros Hb (Hp & Hmin & Hlast) W. unfold W. split; [|split].
    - rewrite nth_error_seg.
      replace (p - a <? b - a) with true by (symmetry; apply Nat.ltb_lt; lia).
      replace (a + (p - a)) with p by lia. apply govs_nth_lt. lia.
    - intros j oj Hj. rewrite nth_error_seg in Hj. destruct (j <? b - a) eqn:E; [|discriminate].
      apply Nat.ltb_lt in E. rewrite govs_nth_lt in Hj by lia. injection Hj as <-. apply Hmin. lia.
    - intros j oj Hlt Hj. rewrite nth_error_seg in Hj. destruct (j <? b - a) eqn:E; [|discriminate].
      apply Nat.ltb_lt in E. rewrite govs_nth_lt in Hj by lia. injection Hj as <-. apply Hlast. lia.
  Qed.

  Lemma glm_ext_last a b p : b <= length xs -> glm a b p ->
    gov p = ext_last ltb (gvalid (seg a b govs)).
  Proof.
    intros Hb Hlm. destruct (glm_window_facts a b p Hb Hlm) as (H1 & H2 & H3).
    apply (ext_last_char DL) with (q := p - a); [apply seg_ok|exact H1|exact H2|exact H3].
  Qed.

  Lemma glm_last_pos a b p m : b <= length xs -> glm a b p -> gov p = Some m ->
    glast_pos m (seg a b govs) = Some (p - a).
  Proof.
    intros Hb Hlm Em. destruct (glm_window_facts a b p Hb Hlm) as (H1 & _ & H3). rewrite Em in H1, H3.
    apply (glast_pos_char DL); [apply seg_ok|exact H1|exact H3].
  Qed.

  (* ---- the state invariant ----------------------------------------------------------------------- *)
  Variable wd : nat.
  Hypothesis Hwd : 1 <= wd.

  (* state before step k *)
  Definition GPre (k : nat) (s : ext) : Prop :=
    x_n s = gcount (wstart wd k) k /\
    ((k = 0 /\ x_val s = None /\ x_idx s = None) \/
     (0 < k /\ exists p, x_idx s = Some p /\ x_val s = gov p /\ glm (wstart wd (k - 1)) k p)).

  (* state at emit time of step k *)
  Definition GMid (k : nat) (s : ext) : Prop :=
    x_n s = gcount (wstart wd k) (S k) /\
    exists p, x_idx s = Some p /\ x_val s = gov p /\ glm (wstart wd k) (S k) p.

  Lemma g_start_of_wstart k :
    start_of wd k = if k <? wd - 1 then None else Some (wstart wd k).
  Proof.
    unfold start_of, wstart. destruct (k <? wd - 1) eqn:E; [reflexivity|].
    apply Nat.ltb_ge in E. f_equal. lia.
  Qed.

  Lemma GMid_intro k val p n :
    n = gcount (wstart wd k) (S k) -> val = gov p -> glm (wstart wd k) (S k) p ->
    GMid k {| x_val := val; x_idx := Some p; x_n := n |}.
  Proof. intros H1 H2 H3. split; [exact H1|]. exists p. auto. Qed.

  Lemma g_ext_step_spec k v s :
    nth_error xs k = Some v -> GPre k s ->
    exists s1, ext_step scmp xs s (start_of wd k) k v = Ok s1 /\ GMid k s1.
  Proof.
    intros Hv [Hn Hst].
    assert (Hk : k < length xs) by (apply nth_error_Some; congruence).
    assert (Hcnt : gcount (wstart wd k) (S k) = gcount (wstart wd k) k + gisv v)
      by (apply gcount_snoc; [unfold wstart; lia|exact Hv]).
    pose proof (nth_ok k v Hv) as Hvok.
    unfold ext_step. rewrite g_start_of_wstart.
    (* the state after counting the newcomer *)
    set (s1 := match to_opt v with
               | Some _ => match x_idx s with
                           | None => {| x_val := to_opt v; x_idx := Some k; x_n := S (x_n s) |}
                           | Some _ => {| x_val := x_val s; x_idx := x_idx s; x_n := S (x_n s) |}
                           end
               | None => s end).
    assert (Hn1 : x_n s1 = gcount (wstart wd k) (S k)).
    { rewrite Hcnt, <- Hn. unfold s1, gisv. rewrite g_to_opt_not_none.
      destruct (to_opt v); [destruct (x_idx s); cbn; lia|lia]. }
    destruct Hst as [(-> & Hval & Hidx)|(Hk0 & p & Hidx & Hval & Hlm)].
    - (* first step *)
      assert (Hw0 : wstart wd 0 = 0) by (unfold wstart; lia).
      destruct (to_opt v) as [x|] eqn:Ev.
      + (* valid first element: initialised, then the comparison is Equal *)
        assert (Hs1 : s1 = {| x_val := Some x; x_idx := Some 0; x_n := S (x_n s) |})
          by (unfold s1; rewrite Hidx; reflexivity).
        rewrite Hs1 in Hn1 |- *. cbn [x_idx x_val x_n] in Hn1 |- *. rewrite Hw0.
        assert (Hno : opt_lt (Some 0) (if 0 <? wd - 1 then None else Some 0) = false)
          by (destruct (0 <? wd - 1); reflexivity).
        rewrite Hno, scmp_ok by exact Hvok.
        assert (Ht : takes (gocmp ltb (Some x) (Some x)) = true)
          by (apply gtakes_ole, (gole_refl DL); exact Hvok).
        rewrite Ht. eexists. split; [reflexivity|].
        apply GMid_intro; [exact Hn1|rewrite (gov_nth xs 0 v Hv); symmetry; exact Ev|rewrite Hw0; apply glm_single].
      + assert (Hs1 : s1 = s) by reflexivity. rewrite Hs1 in Hn1 |- *. rewrite Hidx, Hval, Hw0.
        destruct (0 <? wd - 1) eqn:Ew; cbn [opt_lt].
        * rewrite scmp_ok by exact I. cbn [gocmp takes].
          eexists. split; [reflexivity|].
          apply GMid_intro; [exact Hn1|rewrite (gov_nth xs 0 v Hv), Ev; reflexivity|rewrite Hw0; apply glm_single].
        * rewrite (g_uget_ok xs 0 v Hv). cbn [bind].
          destruct (g_rescan_spec 0 0 v None (le_n 0) Hk Hv) as (p' & Hr & Hlm).
          cbn [Nat.sub] in Hr |- *. rewrite Hr. cbn [bind fst snd].
          eexists. split; [reflexivity|].
          apply GMid_intro; [exact Hn1|reflexivity|rewrite Hw0; exact Hlm].
    - (* later steps: the cache describes the previous window *)
      assert (Hs1 : x_val s1 = gov p /\ x_idx s1 = Some p).
      { unfold s1. destruct (to_opt v); [rewrite Hidx|]; cbn [x_val x_idx]; split; try assumption; try reflexivity. }
      destruct Hs1 as [Hv1 Hi1]. rewrite Hi1, Hv1.
      assert (Hmono : wstart wd (k - 1) <= wstart wd k) by (unfold wstart; lia).
      assert (Hcmp : forall a, a <= p -> wstart wd (k - 1) <= a ->
                exists s2, (if takes (scmp (to_opt v) (gov p))
                            then Ok {| x_val := to_opt v; x_idx := Some k; x_n := x_n s1 |}
                            else Ok s1) = Ok s2 /\
                           x_n s2 = gcount (wstart wd k) (S k) /\
                           exists p', x_idx s2 = Some p' /\ x_val s2 = gov p' /\ glm a (S k) p').
      { intros a Hap Ha. rewrite <- (gov_nth xs k v Hv). rewrite scmp_ok by apply gov_ok.
        pose proof (glm_drop _ _ _ _ Hlm (conj Ha Hap)) as Hl.
        destruct (takes (gocmp ltb (gov k) (gov p))) eqn:E.
        - apply gtakes_ole in E. eexists. split; [reflexivity|]. split; [cbn; exact Hn1|].
          exists k. cbn. split; [reflexivity|]. split; [reflexivity|].
          apply glm_snoc_take with p; assumption.
        - apply gtakes_not_ole in E. exists s1. split; [reflexivity|]. split; [exact Hn1|].
          exists p. split; [exact Hi1|]. split; [exact Hv1|]. apply glm_snoc_keep; assumption. }
      destruct (k <? wd - 1) eqn:Ew; cbn [opt_lt].
      + (* warm-up: no start index, the window still starts at 0 *)
        apply Nat.ltb_lt in Ew.
        assert (H0 : wstart wd k = 0 /\ wstart wd (k - 1) = 0) by (unfold wstart; lia).
        destruct H0 as [H0 H0'].
        destruct (Hcmp 0) as (s2 & Hs2 & Hn2 & p' & Hp1 & Hp2 & Hp3); [lia|lia|].
        exists s2. split; [exact Hs2|]. split; [exact Hn2|].
        exists p'. rewrite H0. auto.
      + apply Nat.ltb_ge in Ew.
        destruct (p <? wstart wd k) eqn:Ep.
        * (* the cached extreme has expired: full re-search *)
          destruct (g_some_lt xs (wstart wd k)) as [v0 Hv0]; [unfold wstart; lia|].
          rewrite (g_uget_ok xs _ _ Hv0). cbn [bind].
          destruct (g_rescan_spec (wstart wd k) k v0 (Some p)) as (p' & Hr & Hl);
            [unfold wstart; lia|exact Hk|exact Hv0|].
          rewrite Hr. cbn [bind fst snd].
          eexists. split; [reflexivity|]. split; [cbn; exact Hn1|].
          exists p'. cbn. auto.
        * apply Nat.ltb_ge in Ep.
          destruct (Hcmp (wstart wd k)) as (s2 & Hs2 & Hn2 & p' & Hp1 & Hp2 & Hp3); [exact Ep|exact Hmono|].
          exists s2. split; [exact Hs2|]. split; [exact Hn2|]. exists p'. auto.
  Qed.

  Lemma g_ext_post_spec k s1 :
    k < length xs -> GMid k s1 ->
    exists s2, ext_post xs s1 (start_of wd k) = Ok s2 /\ GPre (S k) s2.
  Proof.
    intros Hk (Hn & p & Hi & Hv & Hlm).
    assert (Hpre : forall s2, x_idx s2 = x_idx s1 -> x_val s2 = x_val s1 ->
                     x_n s2 = gcount (wstart wd (S k)) (S k) -> GPre (S k) s2).
    { intros s2 E1 E2 E3. split; [exact E3|]. right. split; [lia|].
      exists p. rewrite E1, E2. cbn [Nat.sub]. rewrite Nat.sub_0_r. auto. }
    unfold ext_post. rewrite g_start_of_wstart.
    destruct (k <? wd - 1) eqn:Ew.
    - apply Nat.ltb_lt in Ew. exists s1. split; [reflexivity|]. apply Hpre; try reflexivity.
      rewrite Hn. f_equal. unfold wstart. lia.
    - apply Nat.ltb_ge in Ew.
      destruct (g_some_lt xs (wstart wd k)) as [v0 Hv0]; [unfold wstart; lia|].
      rewrite (g_uget_ok xs _ _ Hv0). cbn [bind].
      assert (Hc : gcount (wstart wd k) (S k) = gisv v0 + gcount (wstart wd (S k)) (S k)).
      { replace (wstart wd (S k)) with (S (wstart wd k)) by (unfold wstart; lia).
        apply gcount_cons; [unfold wstart; lia|exact Hv0]. }
      unfold gisv in Hc. destruct (not_none v0).
      + unfold usub. replace (1 <=? x_n s1) with true by (symmetry; apply Nat.leb_le; lia).
        cbn [bind]. eexists. split; [reflexivity|]. apply Hpre; cbn [x_n x_idx x_val]; try reflexivity. lia.
      + exists s1. split; [reflexivity|]. apply Hpre; try reflexivity. lia.
  Qed.

  Lemma GPre_init : GPre 0 ext0.
  Proof.
    assert (H0 : wstart wd 0 = 0) by (unfold wstart; lia).
    split; [rewrite H0, gcount_nil; reflexivity|]. left. auto.
  Qed.

  (* ---- the two callbacks ---------------------------------------------------------------------- *)
  Variable mp : nat.

  Definition GOutVal (k : nat) (o : option A) : Prop :=
    exists p, glm (wstart wd k) (S k) p /\
              o = if mp <=? gcount (wstart wd k) (S k) then gov p else None.
  Definition GOutArg (k : nat) (o : option nat) : Prop :=
    exists p, glm (wstart wd k) (S k) p /\
              o = if (mp <=? gcount (wstart wd k) (S k)) && (match gov p with Some _ => true | None => false end)
                  then Some (p - wstart wd k + 1) else None.

  Lemma g_vext_cb_step k v s :
    nth_error xs k = Some v -> GPre k s ->
    exists s' o, vext_cb scmp mp xs s (start_of wd k, k, v) = Ok (s', o) /\ GPre (S k) s' /\ GOutVal k o.
  Proof.
    intros Hv HP.
    assert (Hk : k < length xs) by (apply nth_error_Some; congruence).
    destruct (g_ext_step_spec k v s Hv HP) as (s1 & Hs1 & HM).
    destruct (g_ext_post_spec k s1 Hk HM) as (s2 & Hs2 & HP2).
    unfold vext_cb. rewrite Hs1. cbn [bind]. rewrite Hs2. cbn [bind].
    eexists. eexists. split; [reflexivity|]. split; [exact HP2|].
    destruct HM as (Hn & p & Hi & Hval & Hlm). exists p. split; [exact Hlm|]. rewrite Hn, Hval. reflexivity.
  Qed.

  Lemma g_varg_cb_step k v s :
    nth_error xs k = Some v -> GPre k s ->
    exists s' o, varg_cb scmp mp xs s (start_of wd k, k, v) = Ok (s', o) /\ GPre (S k) s' /\ GOutArg k o.
  Proof.
    intros Hv HP.
    assert (Hk : k < length xs) by (apply nth_error_Some; congruence).
    destruct (g_ext_step_spec k v s Hv HP) as (s1 & Hs1 & HM).
    destruct (g_ext_post_spec k s1 Hk HM) as (s2 & Hs2 & HP2).
    unfold varg_cb. rewrite Hs1. cbn [bind].
    destruct HM as (Hn & p & Hi & Hval & Hlm). rewrite Hn, Hval, Hi.
    assert (Hst : match start_of wd k with Some st => st | None => 0 end = wstart wd k).
    { rewrite g_start_of_wstart. destruct (k <? wd - 1) eqn:E; [|reflexivity].
      apply Nat.ltb_lt in E. unfold wstart. lia. }
    rewrite Hst.
    destruct ((mp <=? gcount (wstart wd k) (S k)) && match gov p with Some _ => true | None => false end) eqn:Eb.
    - unfold usub. destruct Hlm as (Hp & Hrest).
      replace (wstart wd k <=? p) with true by (symmetry; apply Nat.leb_le; lia).
      cbn [bind]. rewrite Hs2. cbn [bind].
      eexists. eexists. split; [reflexivity|]. split; [exact HP2|].
      exists p. split; [split; assumption|]. rewrite Eb. reflexivity.
    - cbn [bind]. rewrite Hs2. cbn [bind].
      eexists. eexists. split; [reflexivity|]. split; [exact HP2|].
      exists p. split; [exact Hlm|]. rewrite Eb. reflexivity.
  Qed.

End ExtG.
Arguments glm_ext_last {A NA T DT ltb} DL xs Hxs a b p.
Arguments glm_last_pos {A NA T DT ltb} DL xs Hxs a b p m.

(* ---- entry points --------------------------------------------------------------------------------- *)
Lemma g_wstart_clamp w len i : i < len -> wstart (Nat.min len w) i = wstart w i.
Proof. intros Hi. unfold wstart. lia. Qed.

Lemma g_nth_from_rel {O} (out : list O) n (P : nat -> O -> Prop) (f : nat -> O) :
  length out = n -> (forall i o, nth_error out i = Some o -> P i o) ->
  (forall i o, i < n -> P i o -> o = f i) ->
  forall i, i < n -> nth_error out i = Some (f i).
Proof.
  intros Hl HP Hf i Hi. destruct (nth_error out i) as [o|] eqn:E.
  - f_equal. apply Hf; [exact Hi|apply HP; exact E].
  - apply nth_error_None in E. lia.
Qed.

Section Entry.
  Context {A : Type} {NA : Num A} {T : Type} {DT : IsNone T A}.
  Variable ltb : A -> A -> bool.
  Hypothesis DL : DirLaws ltb.
  Variable scmp : option A -> option A -> comparison.
  Hypothesis scmp_ok : forall a b, okv a -> okv b -> scmp a b = gocmp ltb a b.

  Lemma g_ts_vext_inv body w mp (xs : list T) :
    (forall v, In v xs -> okv (to_opt v)) ->
    1 <= w -> 1 <= length xs ->
    exists out, ts_vext scmp body w mp xs = Done out /\ length out = length xs /\
      forall i o, nth_error out i = Some o ->
        GOutVal ltb xs (cmp_window w xs) (cmp_mp mp (cmp_window w xs)) i o.
  Proof.
    intros Hxs Hw Hlen. unfold ts_vext. set (wd := cmp_window w xs).
    assert (Hwd : 1 <= wd) by (unfold wd, cmp_window; lia).
    assert (Heff : eff_window body wd (length xs) = wd)
      by (unfold eff_window, wd, cmp_window; destruct body; lia).
    apply idx_run_spec with (Pre := GPre ltb xs wd); [exact Hwd|apply GPre_init; exact Hwd|].
    intros k v s Hv HP. rewrite Heff. apply g_vext_cb_step; assumption.
  Qed.

  Lemma g_ts_varg_inv body w mp (xs : list T) :
    (forall v, In v xs -> okv (to_opt v)) ->
    1 <= w -> 1 <= length xs ->
    exists out, ts_varg scmp body w mp xs = Done out /\ length out = length xs /\
      forall i o, nth_error out i = Some o ->
        GOutArg ltb xs (cmp_window w xs) (cmp_mp mp (cmp_window w xs)) i o.
  Proof.
    intros Hxs Hw Hlen. unfold ts_varg. set (wd := cmp_window w xs).
    assert (Hwd : 1 <= wd) by (unfold wd, cmp_window; lia).
    assert (Heff : eff_window body wd (length xs) = wd)
      by (unfold eff_window, wd, cmp_window; destruct body; lia).
    apply idx_run_spec with (Pre := GPre ltb xs wd); [exact Hwd|apply GPre_init; exact Hwd|].
    intros k v s Hv HP. rewrite Heff. apply g_varg_cb_step; assumption.
  Qed.

  (* value form: output i = the extreme (direction ltb) of the valid window, masked *)
  Lemma g_ts_vext_spec body w mp (xs : list T) :
    (forall v, In v xs -> okv (to_opt v)) ->
    1 <= w -> 1 <= length xs ->
    exists out, ts_vext scmp body w mp xs = Done out /\ length out = length xs /\
      forall i, i < length xs ->
        nth_error out i =
        Some (let V := gvalid (win w i (map to_opt xs)) in
              if cmp_mp mp (cmp_window w xs) <=? length V then ext_last ltb V else None).
  Proof.
    intros Hxs Hw Hlen.
    destruct (g_ts_vext_inv body w mp xs Hxs Hw Hlen) as (out & H1 & H2 & H3).
    exists out. split; [exact H1|]. split; [exact H2|].
    apply g_nth_from_rel with (P := GOutVal ltb xs (cmp_window w xs) (cmp_mp mp (cmp_window w xs)));
      [exact H2|exact H3|].
    intros i o Hi (p & Hlm & ->). cbv zeta. rewrite win_seg. unfold cmp_window in *.
    rewrite g_wstart_clamp in * by exact Hi. unfold gcount. fold (govs xs).
    rewrite (glm_ext_last DL xs Hxs _ _ _ (proj1 (Nat.le_succ_l i (length xs)) Hi) Hlm). reflexivity.
  Qed.

  Lemma g_ts_varg_spec body w mp (xs : list T) :
    (forall v, In v xs -> okv (to_opt v)) ->
    1 <= w -> 1 <= length xs ->
    exists out, ts_varg scmp body w mp xs = Done out /\ length out = length xs /\
      forall i, i < length xs ->
        nth_error out i =
        Some (let W := win w i (map to_opt xs) in
              if cmp_mp mp (cmp_window w xs) <=? length (gvalid W) then
                match ext_last ltb (gvalid W) with
                | Some m => option_map S (glast_pos m W)
                | None => None
                end
              else None).
  Proof.
    intros Hxs Hw Hlen.
    destruct (g_ts_varg_inv body w mp xs Hxs Hw Hlen) as (out & H1 & H2 & H3).
    exists out. split; [exact H1|]. split; [exact H2|].
    apply g_nth_from_rel with (P := GOutArg ltb xs (cmp_window w xs) (cmp_mp mp (cmp_window w xs)));
      [exact H2|exact H3|].
    intros i o Hi (p & Hlm & ->). cbv zeta. rewrite win_seg. unfold cmp_window in *.
    rewrite g_wstart_clamp in * by exact Hi. unfold gcount. fold (govs xs).
    assert (Hb : S i <= length xs) by lia.
    rewrite <- (glm_ext_last DL xs Hxs _ _ _ Hb Hlm).
    destruct (cmp_mp mp (Nat.min (length xs) w) <=? length (gvalid (seg (wstart w i) (S i) (govs xs))));
      [|reflexivity]. cbn [andb].
    destruct (gov xs p) as [m|] eqn:Em; [|reflexivity].
    rewrite (glm_last_pos DL xs Hxs _ _ _ _ Hb Hlm Em). cbn [option_map]. f_equal. lia.
  Qed.

  (* ---- the cached-extreme invariant, as a statement about the state BETWEEN the steps -------------- *)
  Theorem g_ext_cache_invariant w mp (xs : list T) k :
    (forall v, In v xs -> okv (to_opt v)) ->
    1 <= w -> 1 <= length xs -> k <= length xs ->
    let wd := cmp_window w xs in
    exists s,
      state_after (lift_cb (vext_cb scmp (cmp_mp mp wd) xs)) (Ok ext0)
                  (firstn k (mapi (fun i v => (start_of wd i, i, v)) xs)) = Ok s /\
      GPre ltb xs wd k s.
  Proof.
    intros Hxs Hw Hlen Hk wd.
    assert (Hwd : 1 <= wd) by (unfold wd, cmp_window; lia).
    apply (state_lift (vext_cb scmp (cmp_mp mp wd) xs) xs (start_of wd) (GPre ltb xs wd)
                      (GOutVal ltb xs wd (cmp_mp mp wd))).
    - intros j v s Hv HP. apply g_vext_cb_step; assumption.
    - apply GPre_init. exact Hwd.
    - exact Hk.
  Qed.
End Entry.

(* "fresh or stale" needs no law at all: it is arithmetic on the cached index *)
Lemma g_cache_fresh_or_stale {A T} {DT : IsNone T A} (ltb : A -> A -> bool) (xs : list T) wd k s :
  1 <= wd -> 0 < k -> GPre ltb xs wd k s ->
  exists p, x_idx s = Some p /\ x_val s = gov xs p /\
            ((wstart wd k <= p /\ glm ltb xs (wstart wd k) k p) \/
             (p < wstart wd k /\ opt_lt (x_idx s) (start_of wd k) = true)).
Proof.
  intros Hwd Hk [_ [(H0 & _)|(_ & p & Hi & Hv & Hlm)]]; [lia|].
  exists p. split; [exact Hi|]. split; [exact Hv|].
  destruct (Nat.le_gt_cases (wstart wd k) p) as [Hle|Hgt].
  - left. split; [exact Hle|]. apply glm_drop with (wstart wd (k - 1)); [exact Hlm|].
    split; [unfold wstart; lia|exact Hle].
  - right. split; [exact Hgt|]. rewrite Hi, (g_start_of_wstart wd Hwd).
    destruct (k <? wd - 1) eqn:E.
    + apply Nat.ltb_lt in E. unfold wstart in Hgt. lia.
    + cbn. apply Nat.ltb_lt. exact Hgt.
Qed.

(* ---- the four functions, for every carrier satisfying the laws ------------------------------------ *)
Section Final.
  Context {A : Type} {NA : Num A} {T : Type} {DT : IsNone T A}.
  Hypothesis OL : OrdLaws A.

  Theorem ts_vmin_ord body w mp (xs : list T) :
    valid_not_nan xs -> 1 <= w -> 1 <= length xs ->
    exists out, ts_vmin body w mp xs = Done out /\ length out = length xs /\
      forall i, i < length xs ->
        nth_error out i =
        Some (let V := gvalid (win w i (map to_opt xs)) in
              if cmp_mp mp (cmp_window w xs) <=? length V then gmin V else None).
  Proof.
    intros Hxs. apply (g_ts_vext_spec _ (dir_lt OL) _ (sort_cmp_ord OL)). apply valid_not_nan_okv. exact Hxs.
  Qed.

  Theorem ts_vmax_ord body w mp (xs : list T) :
    valid_not_nan xs -> 1 <= w -> 1 <= length xs ->
    exists out, ts_vmax body w mp xs = Done out /\ length out = length xs /\
      forall i, i < length xs ->
        nth_error out i =
        Some (let V := gvalid (win w i (map to_opt xs)) in
              if cmp_mp mp (cmp_window w xs) <=? length V then gmax V else None).
  Proof.
    intros Hxs. apply (g_ts_vext_spec _ (dir_gt OL) _ (sort_cmp_rev_ord OL)). apply valid_not_nan_okv. exact Hxs.
  Qed.

  Theorem ts_vargmin_ord body w mp (xs : list T) :
    valid_not_nan xs -> 1 <= w -> 1 <= length xs ->
    exists out, ts_vargmin body w mp xs = Done out /\ length out = length xs /\
      forall i, i < length xs ->
        nth_error out i =
        Some (let W := win w i (map to_opt xs) in
              if cmp_mp mp (cmp_window w xs) <=? length (gvalid W) then gargmin_spec W else None).
  Proof.
    intros Hxs. apply (g_ts_varg_spec _ (dir_lt OL) _ (sort_cmp_ord OL)). apply valid_not_nan_okv. exact Hxs.
  Qed.

  Theorem ts_vargmax_ord body w mp (xs : list T) :
    valid_not_nan xs -> 1 <= w -> 1 <= length xs ->
    exists out, ts_vargmax body w mp xs = Done out /\ length out = length xs /\
      forall i, i < length xs ->
        nth_error out i =
        Some (let W := win w i (map to_opt xs) in
              if cmp_mp mp (cmp_window w xs) <=? length (gvalid W) then gargmax_spec W else None).
  Proof.
    intros Hxs. apply (g_ts_varg_spec _ (dir_gt OL) _ (sort_cmp_rev_ord OL)). apply valid_not_nan_okv. exact Hxs.
  Qed.
End Final.
