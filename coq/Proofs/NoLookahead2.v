(* Proofs/NoLookahead2.v — C06, second part: functions whose output i is a function of the window
   positions max(0,i-w+1)..=i alone ("window determined") satisfy both the prefix law and the
   pre-window independence; instances: rolling extrema / arg-extrema / rank (exact, integer carrier),
   the accumulator families (moments, ewm, wma, cross sums, trend) at option R; and the prefix law of
   the lagging maps shift / vshift / vdiff / vpct_change for n >= 0 from their positional theorems. *)
From Coq Require Import ZArith Lia List Reals.
From Tevec Require Import Base.Prelude Base.Num Base.XR Model.Driver Proofs.Driver Model.Features
     Proofs.Generic Proofs.Sliding Proofs.NoLookahead Model.Cmp Spec.Extrema Proofs.IdxRun Proofs.Cmp
     Proofs.RollRank Proofs.Fdiff Model.MapOps Spec.MapOps Proofs.MapOps.
Import ListNotations.

Definition out_of {O} (o : outcome O) : list O := match o with Done l => l | _ => [] end.

(* ---- window-determined functions ---------------------------------------------------------------- *)
Section WindowDetermined.
  Context {T O : Type}.
  Variable f : list T -> outcome O.
  Variable w : nat.
  Variable dom : nat -> Prop.            (* the lengths on which the characterisation is claimed *)
  Variable g : list T -> O.
  Hypothesis Hspec : forall xs, 1 <= length xs -> dom (length xs) ->
    exists out, f xs = Done out /\ length out = length xs /\
      forall i, i < length xs -> nth_error out i = Some (g (win w i xs)).
  Hypothesis Hempty : f [] = Done [].

  Lemma wd_prefix xs k :
    (1 <= k -> 1 <= length xs -> dom (Nat.min k (length xs)) /\ dom (length xs)) ->
    out_of (f (firstn k xs)) = firstn k (out_of (f xs)).
  Proof.
    intros Hd. destruct k as [|k]; [cbn [firstn]; rewrite Hempty; reflexivity|].
    destruct xs as [|x xs]; [cbn [firstn]; rewrite Hempty; reflexivity|].
    destruct Hd as [Hd1 Hd2]; [lia|cbn [length]; lia|].
    set (ys := x :: xs) in *.
    assert (Hl : length (firstn (S k) ys) = Nat.min (S k) (length ys)) by apply firstn_length.
    destruct (Hspec (firstn (S k) ys)) as (o1 & E1 & L1 & N1); [rewrite Hl; unfold ys; cbn [length]; lia|rewrite Hl; exact Hd1|].
    destruct (Hspec ys) as (o2 & E2 & L2 & N2); [unfold ys; cbn [length]; lia|exact Hd2|].
    rewrite E1, E2. cbn [out_of]. apply nth_error_ext. intros i. rewrite nth_error_firstn.
    destruct (i <? S k) eqn:Ek.
    - apply Nat.ltb_lt in Ek. destruct (Nat.lt_ge_cases i (length ys)) as [Hi|Hi].
      + rewrite N1 by (rewrite Hl; lia). rewrite N2 by exact Hi. f_equal. f_equal.
        apply win_firstn. exact Ek.
      + rewrite (proj2 (nth_error_None o1 i)) by (rewrite L1, Hl; lia).
        rewrite (proj2 (nth_error_None o2 i)) by (rewrite L2; lia). reflexivity.
    - apply Nat.ltb_ge in Ek. apply nth_error_None. rewrite L1, Hl. lia.
  Qed.

  Lemma wd_window xs ys i j :
    dom (length xs) -> dom (length ys) -> i < length xs -> j < length ys ->
    win w i xs = win w j ys ->
    nth_error (out_of (f xs)) i = nth_error (out_of (f ys)) j.
  Proof.
    intros Dx Dy Hi Hj Hw.
    destruct (Hspec xs) as (o1 & E1 & L1 & N1); [lia|exact Dx|].
    destruct (Hspec ys) as (o2 & E2 & L2 & N2); [lia|exact Dy|].
    rewrite E1, E2. cbn [out_of]. rewrite N1, N2 by assumption. rewrite Hw. reflexivity.
  Qed.
End WindowDetermined.

(* ---- the extrema / rank family (integer carrier, exact) --------------------------------------------- *)
Definition last_opt {X} (l : list X) : option X := nth_error l (length l - 1).

Lemma last_opt_snoc {X} (l : list X) a : last_opt (l ++ [a]) = Some a.
Proof.
  unfold last_opt. rewrite app_length. cbn [length]. replace (length l + 1 - 1) with (length l) by lia.
  rewrite nth_error_app2 by lia. rewrite Nat.sub_diag. reflexivity.
Qed.

Lemma win_snoc {X} w i (l : list X) a :
  1 <= w -> nth_error l i = Some a -> win w i l = seg (wstart w i) i l ++ [a].
Proof.
  intros Hw Ha. rewrite win_seg. apply seg_snoc; [unfold wstart; lia|exact Ha].
Qed.

Section CmpFamily.
  Context {T : Type} {DT : IsNone T Z}.

  (* the effective min_periods of this family does not depend on the series when it is explicit, or when the
     series is at least as long as the window (DESIGN 5.3) *)
  Definition cmp_dom (w : nat) (mp : option nat) (len : nat) : Prop :=
    match mp with Some _ => True | None => w <= len end.

  Lemma cmp_mp_const w mp (xs : list T) :
    cmp_dom w mp (length xs) -> cmp_mp mp (cmp_window w xs) = cmp_mp mp w.
  Proof.
    unfold cmp_dom, cmp_mp, cmp_window. destruct mp; [reflexivity|]. intros H.
    rewrite Nat.min_r by exact H. reflexivity.
  Qed.

  Lemma idx_run_nil {St O} body (cb : St -> option nat * nat * T -> res (St * O)) s0 :
    idx_run body 0 cb s0 [] = Done [].
  Proof. destruct body; reflexivity. Qed.

  Definition g_min (w : nat) (mp : option nat) (W : list T) : option Z :=
    let V := validZ (map to_opt W) in if cmp_mp mp w <=? length V then list_min V else None.
  Definition g_max (w : nat) (mp : option nat) (W : list T) : option Z :=
    let V := validZ (map to_opt W) in if cmp_mp mp w <=? length V then list_max V else None.
  Definition g_argmin (w : nat) (mp : option nat) (W : list T) : option nat :=
    let W' := map to_opt W in if cmp_mp mp w <=? length (validZ W') then argmin_spec W' else None.
  Definition g_argmax (w : nat) (mp : option nat) (W : list T) : option nat :=
    let W' := map to_opt W in if cmp_mp mp w <=? length (validZ W') then argmax_spec W' else None.
  Definition g_rank (w : nat) (mp : option nat) (pct rev : bool) (W : list T) : XR :=
    match last_opt (map to_opt W) with
    | Some (Some x) =>
        let V' := validZ (removelast (map to_opt W)) in
        if cmp_mp mp w <=? S (length V') then Some (avg_rank pct rev x V') else None
    | _ => None
    end.

  Lemma vmin_wd body w mp : 1 <= w ->
    forall xs : list T, 1 <= length xs -> cmp_dom w mp (length xs) ->
    exists out, ts_vmin body w mp xs = Done out /\ length out = length xs /\
      forall i, i < length xs -> nth_error out i = Some (g_min w mp (win w i xs)).
  Proof.
    intros Hw xs Hl Hd. destruct (ts_vmin_spec body w mp xs Hw Hl) as (out & E & L & N).
    exists out. split; [exact E|]. split; [exact L|]. intros i Hi. rewrite (N i Hi).
    unfold g_min. rewrite win_map, cmp_mp_const by exact Hd. reflexivity.
  Qed.

  Lemma vmax_wd body w mp : 1 <= w ->
    forall xs : list T, 1 <= length xs -> cmp_dom w mp (length xs) ->
    exists out, ts_vmax body w mp xs = Done out /\ length out = length xs /\
      forall i, i < length xs -> nth_error out i = Some (g_max w mp (win w i xs)).
  Proof.
    intros Hw xs Hl Hd. destruct (ts_vmax_spec body w mp xs Hw Hl) as (out & E & L & N).
    exists out. split; [exact E|]. split; [exact L|]. intros i Hi. rewrite (N i Hi).
    unfold g_max. rewrite win_map, cmp_mp_const by exact Hd. reflexivity.
  Qed.

  Lemma vargmin_wd body w mp : 1 <= w ->
    forall xs : list T, 1 <= length xs -> cmp_dom w mp (length xs) ->
    exists out, ts_vargmin body w mp xs = Done out /\ length out = length xs /\
      forall i, i < length xs -> nth_error out i = Some (g_argmin w mp (win w i xs)).
  Proof.
    intros Hw xs Hl Hd. destruct (ts_vargmin_spec body w mp xs Hw Hl) as (out & E & L & N).
    exists out. split; [exact E|]. split; [exact L|]. intros i Hi. rewrite (N i Hi).
    unfold g_argmin. rewrite win_map, cmp_mp_const by exact Hd. reflexivity.
  Qed.

  Lemma vargmax_wd body w mp : 1 <= w ->
    forall xs : list T, 1 <= length xs -> cmp_dom w mp (length xs) ->
    exists out, ts_vargmax body w mp xs = Done out /\ length out = length xs /\
      forall i, i < length xs -> nth_error out i = Some (g_argmax w mp (win w i xs)).
  Proof.
    intros Hw xs Hl Hd. destruct (ts_vargmax_spec body w mp xs Hw Hl) as (out & E & L & N).
    exists out. split; [exact E|]. split; [exact L|]. intros i Hi. rewrite (N i Hi).
    unfold g_argmax. rewrite win_map, cmp_mp_const by exact Hd. reflexivity.
  Qed.

  Lemma vrank_wd body w mp pct rev : 1 <= w ->
    forall xs : list T, 1 <= length xs -> cmp_dom w mp (length xs) ->
    exists out, ts_vrank (B := XR) body w mp pct rev xs = Done out /\ length out = length xs /\
      forall i, i < length xs -> nth_error out i = Some (g_rank w mp pct rev (win w i xs)).
  Proof.
    intros Hw xs Hl Hd. destruct (ts_vrank_spec body w mp pct rev xs Hw Hl) as (out & E & L & N).
    exists out. split; [exact E|]. split; [exact L|]. intros i Hi. rewrite (N i Hi).
    unfold g_rank. rewrite <- win_map.
    destruct (nth_error (map to_opt xs) i) as [a|] eqn:Ea;
      [|apply nth_error_None in Ea; rewrite map_length in Ea; lia].
    rewrite (win_snoc w i _ a Hw Ea), last_opt_snoc, removelast_last, cmp_mp_const by exact Hd.
    reflexivity.
  Qed.
End CmpFamily.

(* ---- accumulator families at option R: the abstraction relation determines the state's output ------ *)
Section AbsFunctional.
  Context {T St O : Type}.
  Variable F : feat T St O.
  Variable Abs : St -> list T -> Prop.
  Hypothesis Abs_init : Abs (f_init F) [].
  Hypothesis Abs_pre : forall s l v, Abs s l -> Abs (f_pre F s v) (l ++ [v]).
  Hypothesis Abs_post : forall s x l, Abs s (x :: l) -> Abs (f_post F s (Some x)) l.
  Hypothesis post_none : forall s, f_post F s None = s.
  Hypothesis Abs_fun : forall s s' W, Abs s W -> Abs s' W -> f_emit F s = f_emit F s'.

  Theorem sliding_window_only body (w : nat) (xs ys : list T) i j :
    1 <= w -> i < length xs -> j < length ys -> win w i xs = win w j ys ->
    nth_error (ts_out F body w xs) i = nth_error (ts_out F body w ys) j.
  Proof.
    intros Hw Hi Hj HW. unfold ts_out.
    destruct (sliding_ts_run F Abs Abs_init Abs_pre Abs_post post_none w Hw xs body) as (o1 & E1 & _ & N1).
    destruct (sliding_ts_run F Abs Abs_init Abs_pre Abs_post post_none w Hw ys body) as (o2 & E2 & _ & N2).
    rewrite E1, E2.
    destruct (nth_error xs i) as [a|] eqn:Ea; [|apply nth_error_None in Ea; lia].
    destruct (nth_error ys j) as [b|] eqn:Eb; [|apply nth_error_None in Eb; lia].
    destruct (N1 i a Ea) as (s1 & A1 & ->). destruct (N2 j b Eb) as (s2 & A2 & ->).
    f_equal. apply (Abs_fun s1 s2 (win w i xs)); [exact A1|rewrite HW; exact A2].
  Qed.
End AbsFunctional.

(* ---- lagging maps: prefix law from the positional theorems ----------------------------------------- *)
Lemma positional_prefix {T O} (f : list T -> res (list O)) (g : list T -> nat -> O) :
  (forall xs, exists r, f xs = Ok r /\ length r = length xs /\
     forall i, i < length xs -> nth_error r i = Some (g xs i)) ->
  (forall xs k i, i < k -> i < length xs -> g (firstn k xs) i = g xs i) ->
  forall xs k, exists r, f xs = Ok r /\ f (firstn k xs) = Ok (firstn k r).
Proof.
  intros Hpos Hg xs k.
  destruct (Hpos xs) as (r & E & L & N). destruct (Hpos (firstn k xs)) as (r' & E' & L' & N').
  exists r. split; [exact E|]. rewrite E'. f_equal. rewrite firstn_length in L', N'.
  apply nth_error_ext. intros i. rewrite nth_error_firstn.
  destruct (i <? k) eqn:Ek.
  - apply Nat.ltb_lt in Ek. destruct (Nat.lt_ge_cases i (length xs)) as [Hi|Hi].
    + rewrite N' by lia. rewrite N by exact Hi. f_equal. apply Hg; assumption.
    + rewrite (proj2 (nth_error_None r' i)) by lia. rewrite (proj2 (nth_error_None r i)) by lia. reflexivity.
  - apply Nat.ltb_ge in Ek. apply nth_error_None. lia.
Qed.

Lemma nth_firstn_lt {X} (l : list X) k j d : j < k -> nth j (firstn k l) d = nth j l d.
Proof.
  revert k j; induction l as [|a l IH]; intros k j Hj.
  - rewrite firstn_nil. reflexivity.
  - destruct k as [|k]; [lia|]. destruct j as [|j]; [reflexivity|]. cbn [firstn nth]. apply IH. lia.
Qed.

Lemma in_range_firstn {X} (xs : list X) k n i :
  (0 <= n)%Z -> i < k -> i < length xs ->
  in_range (length (firstn k xs)) (src n i) = in_range (length xs) (src n i).
Proof. intros Hn Hk Hi. rewrite firstn_length. unfold in_range, src. lia. Qed.

Lemma shift_at_firstn {X} (n : Z) (v : X) xs k i :
  (0 <= n)%Z -> i < k -> i < length xs -> shift_at n v (firstn k xs) i = shift_at n v xs i.
Proof.
  intros Hn Hk Hi. unfold shift_at. rewrite in_range_firstn by assumption.
  destruct (in_range (length xs) (src n i)) eqn:E; [|reflexivity].
  apply nth_firstn_lt. unfold in_range, src in *. lia.
Qed.

Lemma diff_at_firstn {X} (sub : X -> X -> X) (n : Z) (v : X) xs k i :
  (0 <= n)%Z -> i < k -> i < length xs -> diff_at sub n v (firstn k xs) i = diff_at sub n v xs i.
Proof.
  intros Hn Hk Hi. unfold diff_at. rewrite in_range_firstn by assumption.
  destruct (in_range (length xs) (src n i)) eqn:E; [|reflexivity].
  rewrite !nth_firstn_lt; [reflexivity| |exact Hk]. unfold in_range, src in *. lia.
Qed.

Lemma pct_at_firstn {X I F} (d : NullDict X I) (o : FOps F) (cast : X -> F) (n : Z) xs k i :
  (0 <= n)%Z -> i < k -> i < length xs -> pct_at d o cast n (firstn k xs) i = pct_at d o cast n xs i.
Proof.
  intros Hn Hk Hi. unfold pct_at. rewrite in_range_firstn by assumption.
  destruct (in_range (length xs) (src n i)) eqn:E; [|reflexivity].
  rewrite !nth_error_firstn.
  replace (i <? k) with true by (symmetry; apply Nat.ltb_lt; exact Hk).
  replace (Z.to_nat (src n i) <? k) with true; [reflexivity|].
  symmetry. apply Nat.ltb_lt. unfold in_range, src in *. lia.
Qed.

(* ---- instances of the window-only law for the accumulator families (carrier option R) -------------- *)
From Tevec Require Import Spec.Stats Proofs.Features Model.Binary Proofs.Binary Model.Reg Proofs.Trend
     Model.Norm Proofs.Norm.

Lemma mom_abs_fun (s s' : @mom XR) W : mom_abs s W -> mom_abs s' W -> s = s'.
Proof.
  intros (A0 & A1 & A2 & A3 & A4) (B0 & B1 & B2 & B3 & B4). destruct s, s'. cbn in *. congruence.
Qed.

Lemma wma_abs_fun (s s' : @wma_st XR) W : wma_abs s W -> wma_abs s' W -> s = s'.
Proof. intros (A0 & A1 & A2) (B0 & B1 & B2). destruct s, s'. cbn in *. congruence. Qed.

Lemma ewm_abs_fun w (s s' : @ewm_st XR) W : ewm_abs w s W -> ewm_abs w s' W -> s = s'.
Proof. intros (A0 & A1) (B0 & B1). destruct s, s'. cbn in *. congruence. Qed.

Lemma csum_abs_fun (s s' : @csum XR) W : csum_abs s W -> csum_abs s' W -> s = s'.
Proof.
  intros (A0 & A1 & A2 & A3 & A4 & A5) (B0 & B1 & B2 & B3 & B4 & B5). destruct s, s'. cbn in *. congruence.
Qed.

Lemma tr_abs_fun (s s' : @tr_st XR) W : tr_abs s W -> tr_abs s' W -> s = s'.
Proof. intros (A0 & A1 & A2 & A3) (B0 & B1 & B2 & B3). destruct s, s'. cbn in *. congruence. Qed.

Theorem mom_window_only (emit : @mom XR -> XR) body (w : nat) (xs ys : list XR) i j :
  1 <= w -> i < length xs -> j < length ys -> win w i xs = win w j ys ->
  nth_error (ts_out (mom_feat emit) body w xs) i = nth_error (ts_out (mom_feat emit) body w ys) j.
Proof.
  apply (sliding_window_only (mom_feat emit) mom_abs mom_abs_init mom_abs_pre mom_abs_post).
  - reflexivity.
  - intros s s' W A B. rewrite (mom_abs_fun s s' W A B). reflexivity.
Qed.

Theorem wma_window_only mp body (w : nat) (xs ys : list XR) i j :
  1 <= w -> i < length xs -> j < length ys -> win w i xs = win w j ys ->
  nth_error (ts_out (ts_vwma_f w mp) body w xs) i = nth_error (ts_out (ts_vwma_f w mp) body w ys) j.
Proof.
  apply (sliding_window_only (ts_vwma_f w mp) wma_abs).
  - repeat split; reflexivity.
  - exact wma_abs_pre.
  - exact wma_abs_post.
  - reflexivity.
  - intros s s' W A B. rewrite (wma_abs_fun s s' W A B). reflexivity.
Qed.

Theorem ewm_window_only mp body (w : nat) (xs ys : list XR) i j :
  1 <= w -> i < length xs -> j < length ys -> win w i xs = win w j ys ->
  nth_error (ts_out (ts_vewm_f w mp) body w xs) i = nth_error (ts_out (ts_vewm_f w mp) body w ys) j.
Proof.
  intros Hw.
  assert (H1 : ewm_abs w (f_init (ts_vewm_f w mp)) []) by (split; reflexivity).
  assert (H4 : forall s, f_post (ts_vewm_f w mp) s None = s) by reflexivity.
  assert (H5 : forall s s' W, ewm_abs w s W -> ewm_abs w s' W ->
                 f_emit (ts_vewm_f w mp) s = f_emit (ts_vewm_f w mp) s').
  { intros s s' W A B. rewrite (ewm_abs_fun w s s' W A B). reflexivity. }
  exact (sliding_window_only (ts_vewm_f w mp) (ewm_abs w) H1 (ewm_abs_pre w Hw) (ewm_abs_post w Hw) H4 H5
                             body w xs ys i j Hw).
Qed.

Theorem csum_window_only {O} (emit : @csum XR -> O) body (w : nat) (zs zs' : list (XR * XR)) i j :
  1 <= w -> i < length zs -> j < length zs' -> win w i zs = win w j zs' ->
  nth_error (ts_out (csum_feat emit) body w zs) i = nth_error (ts_out (csum_feat emit) body w zs') j.
Proof.
  apply (sliding_window_only (csum_feat emit) csum_abs csum_abs_init csum_abs_pre csum_abs_post).
  - reflexivity.
  - intros s s' W A B. rewrite (csum_abs_fun s s' W A B). reflexivity.
Qed.

Theorem trend_window_only (emit : @tr_st XR -> XR) body (w : nat) (xs ys : list XR) i j :
  1 <= w -> i < length xs -> j < length ys -> win w i xs = win w j ys ->
  nth_error (ts_out (tr_feat emit) body w xs) i = nth_error (ts_out (tr_feat emit) body w ys) j.
Proof.
  apply (sliding_window_only (tr_feat emit) tr_abs tr_abs_init tr_abs_pre tr_abs_post).
  - reflexivity.
  - intros s s' W A B. rewrite (tr_abs_fun s s' W A B). reflexivity.
Qed.

(* ---- the four lagging maps, n >= 0: evaluating on a prefix yields the prefix -------------------------- *)
Theorem shift_prefix {X} (n : Z) (v : X) (xs : list X) k :
  (0 <= n)%Z -> exists r, shift n v xs = Ok r /\ shift n v (firstn k xs) = Ok (firstn k r).
Proof.
  intros Hn. apply (positional_prefix (shift n v) (shift_at n v)).
  - intros l. exact (shift_positional n v l).
  - intros l k' i Hk Hi. apply shift_at_firstn; assumption.
Qed.

Theorem vshift_prefix {X I} (d : NullDict X I) (n : Z) (value : option X) (v : X) (xs : list X) k :
  (0 <= n)%Z -> or_none d value = Ok v ->
  exists r, vshift d n value xs = Ok r /\ vshift d n value (firstn k xs) = Ok (firstn k r).
Proof.
  intros Hn Hv. apply (positional_prefix (vshift d n value) (shift_at n v)).
  - intros l. exact (vshift_positional d n value l Hv).
  - intros l k' i Hk Hi. apply shift_at_firstn; assumption.
Qed.

Theorem vdiff_prefix {X I} (d : NullDict X I) (sub : X -> X -> X) (n : Z) (value : option X) (v : X)
        (xs : list X) k :
  (0 <= n)%Z -> or_none d value = Ok v ->
  exists r, vdiff d sub n value xs = Ok r /\ vdiff d sub n value (firstn k xs) = Ok (firstn k r).
Proof.
  intros Hn Hv. apply (positional_prefix (vdiff d sub n value) (diff_at sub n v)).
  - intros l. exact (vdiff_positional d sub n value l Hv).
  - intros l k' i Hk Hi. apply diff_at_firstn; assumption.
Qed.

Theorem vpct_change_prefix {X I F} (d : NullDict X I) (o : FOps F) (cast : X -> F) (n : Z) (xs : list X) k :
  (forall v, fisnan o (cast v) = is_none d v) -> fisnan o (fnanv o) = true -> (0 <= n)%Z ->
  exists r, vpct_change d o cast n xs = Ok r /\ vpct_change d o cast n (firstn k xs) = Ok (firstn k r).
Proof.
  intros H1 H2 Hn. apply (positional_prefix (vpct_change d o cast n) (pct_at d o cast n)).
  - intros l. exact (vpct_change_positional d o cast H1 H2 n l).
  - intros l k' i Hk Hi. apply pct_at_firstn; assumption.
Qed.

(* with a negative lag the law fails: output i reads x[i+|n|], which a prefix may not contain *)
Lemma shift_negative_lag_looks_ahead :
  exists r, shift (-1)%Z 0%Z [1; 2; 3]%Z = Ok r /\ shift (-1)%Z 0%Z (firstn 2 [1; 2; 3]%Z) <> Ok (firstn 2 r).
Proof. eexists. split; [reflexivity|]. cbn. discriminate. Qed.
