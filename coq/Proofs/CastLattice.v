(* Proofs/CastLattice.v — the Cast lattice of Model/Cast.v: nullness is preserved, values follow `as`,
   casts compose through Option.  Case analysis over the finite universe of type codes; values are
   universally quantified.                                                                            *)
From Coq Require Import ZArith List Bool Lia.
From Tevec Require Import Base.Prelude Model.Cast Proofs.Cast.
Import ListNotations.
Local Open Scope Z_scope.

Ltac destr_bt b := destruct b as [[]| | | | |].
Ltac destr_ty t := let b := fresh "b" in destruct t as [b|b]; destr_bt b.

Section Lattice.
  Context {F : Type} (X : Ext F) (L : ExtLaws X).

  (* nullness of the results of the float conversions *)
  Lemma f_to_float_nan s t (f : F) (Ht : is_float t = true) :
    n_is_none X t (f_to X s t f) = fisnan X f.
  Proof.
    destruct t; try discriminate; cbn [f_to n_is_none]; [|reflexivity].
    destruct s; try reflexivity. unfold fisnan. rewrite (round32_nan X L). reflexivity.
  Qed.

  Lemma z_to_float_num s t (z : Z) (Ht : is_float t = true) : n_is_none X t (z_to X s t z) = false.
  Proof.
    destruct t; try discriminate; cbn [z_to n_is_none]; unfold fisnan;
      rewrite ?(z2f32_num X L), ?(z2f64_num X L); reflexivity.
  Qed.

  Lemma as_nn_nullness s t (v : nval s) (Ht : is_float t = true) :
    n_is_none X t (as_nn X s t v) = n_is_none X s v.
  Proof.
    destruct s; cbn [as_nn n_is_none]; try apply f_to_float_nan; try apply z_to_float_num; assumption.
  Qed.

  Lemma n_none_null t w : n_none X t = Ok w -> n_is_none X t w = true.
  Proof. destruct t; cbn; intros H; try discriminate; injection H as <-; apply fisnan_nan; exact L. Qed.

  Lemma is_none_i64min_dt : b_is_none X DT i64min = true. Proof. reflexivity. Qed.

  (* ---------------------------------------------------------------- *)
  (* null |-> null *)

  Ltac fin :=
    repeat match goal with
    | H : Ok _ = Ok _ |- _ => injection H as H; try subst
    | H : Panic _ = Ok _ |- _ => discriminate H
    | H : bind ?r _ = Ok _ |- _ => let E := fresh "E" in destruct r eqn:E; cbn [bind] in H
    | H : (if ?c then _ else _) = Ok _ |- _ => let E := fresh "E" in destruct c eqn:E
    | H : match ?o with Some _ => _ | None => _ end = Ok _ |- _ => let E := fresh "E" in destruct o eqn:E
    end.

  (* normalise the hypothesis "the source is null": substitute the null value *)
  Ltac null_src Hn v :=
    cbn [is_none b_is_none n_is_none] in Hn; try discriminate Hn;
    first
      [ apply str_eqb_eq in Hn; subst v
      | apply Z.eqb_eq in Hn; subst v
      | destruct v as [? ?]; cbn [fst] in Hn; apply Z.eqb_eq in Hn; subst
      | destruct v; [discriminate Hn|]
      | idtac ].

  Theorem cast_null_preserved (s t : ty) (v : val s) (w : val t) :
    implemented s t = true -> can_null t = true -> kf_text_null s t = false ->
    is_none X s v = true -> cast X s t v = Ok w -> is_none X t w = true.
  Proof.
    intros Hi Hc Hk Hn Hw.
    destr_ty s; destr_ty t; try discriminate Hi; try discriminate Hc; try discriminate Hk.
    all: null_src Hn v.
    all: cbn in Hw; try rewrite Hn in Hw; cbn in Hw;
         rewrite ?(s2dt_None X L), ?(s2td_None X L), ?(s2f32_None X L), ?(s2f64_None X L) in Hw; fin.
    all: try reflexivity.
    all: try (apply (fisnan_nan X L)).
    all: try exact Hn.
    all: try (unfold n_to_dt, n_to_td; cbn [n_is_none]; rewrite Hn; reflexivity).
    all: cbn [is_none b_is_none n_is_none]; unfold fisnan in *; rewrite (round32_nan X L); exact Hn.
  Qed.

  (* ---------------------------------------------------------------- *)
  (* non-null |-> non-null *)

  (* the i64 through which a numeric source reaches the time types (i64::MIN is their null) *)
  Definition src_i64 (s : ty) : @val F s -> option Z :=
    match s return @val F s -> option Z with
    | Plain (N a) => fun v => Some (as_nn X a I64 v)
    | Opt (N a) => fun o => option_map (as_nn X a I64) o
    | _ => fun _ => None
    end.
  Definition is_time_ty (t : ty) : bool := match t with Plain DT | Plain TD | Plain TM => true | _ => false end.
  (* a TimeDelta whose microseconds fit an i64 *)
  Definition td_src_ok (s : ty) : @val F s -> bool :=
    match s return @val F s -> bool with
    | Plain TD => fun d => match td_micros d with Some _ => true | None => false end
    | _ => fun _ => true
    end.

  (* String -> DateTime / TimeDelta are the parsers of property C18 (a parsed date may even be i64::MIN) *)
  Definition parser_pair (s t : ty) : bool :=
    match s, t with Plain Str, Plain DT | Plain Str, Plain TD => true | _, _ => false end.

  Lemma float_num_nonnull32 z : fisnan X (z2f32 X z) = false.
  Proof. unfold fisnan. rewrite (z2f32_num X L). reflexivity. Qed.
  Lemma float_num_nonnull64 z : fisnan X (z2f64 X z) = false.
  Proof. unfold fisnan. rewrite (z2f64_num X L). reflexivity. Qed.
  Lemma round32_nonnull f : fisnan X f = false -> fisnan X (round32 X f) = false.
  Proof. unfold fisnan. rewrite (round32_nan X L). auto. Qed.
  Lemma f2s32_nonnull f : fisnan X f = false -> str_eqb (f2s32 X f) s_None = false.
  Proof. unfold fisnan. intros H. apply (f2s32_num X L). apply negb_false_iff. exact H. Qed.
  Lemma f2s64_nonnull f : fisnan X f = false -> str_eqb (f2s64 X f) s_None = false.
  Proof. unfold fisnan. intros H. apply (f2s64_num X L). apply negb_false_iff. exact H. Qed.

  Lemma time_to_n_float b u (v : bval b) (w : nval u) :
    is_float u = true -> time_to_n X b u v = Ok w -> n_is_none X u w = b_is_none X b v.
  Proof.
    intros Hu. unfold time_to_n. destruct (b_is_none X b v) eqn:E; intros H.
    - apply n_none_null. exact H.
    - destruct (time_to_i64 b v) as [z|k]; cbn [bind] in H; [|discriminate]. injection H as <-.
      exact (as_nn_nullness I64 u z Hu).
  Qed.

  Theorem cast_nonnull_preserved (s t : ty) (v : val s) (w : val t) :
    implemented s t = true -> can_null t = true -> kf_text_null s t = false -> parser_pair s t = false ->
    canonical X s v = true -> is_none X s v = false ->
    (is_time_ty t = true -> src_i64 s v <> Some i64min) ->
    (t = Opt (N I64) -> td_src_ok s v = true) ->
    cast X s t v = Ok w -> is_none X t w = false.
  Proof.
    intros Hi Hc Hk Hp Hcan Hn Hsen Htd Hw.
    destr_ty s; destr_ty t; try discriminate Hi; try discriminate Hc; try discriminate Hk; try discriminate Hp.
    all: lazymatch type of v with val (Opt _) => destruct v as [x|]; [|discriminate Hn] | _ => idtac end.
    all: cbn in Hn, Hw, Hcan; try apply negb_true_iff in Hcan;
         try discriminate Hn; try rewrite Hn in Hw; try rewrite Hcan in Hw; cbn in Hw; fin.
    all: try reflexivity.
    all: cbn [is_none b_is_none n_is_none].
    all: try assumption.
    all: try apply float_num_nonnull32; try apply float_num_nonnull64.
    all: try (apply round32_nonnull; assumption).
    all: try apply z_to_string_not_None.
    all: try (apply f2s32_nonnull; assumption); try (apply f2s64_nonnull; assumption).
    all: try (match goal with |- context [if ?b then s_true else s_false] => destruct b; reflexivity end).
    all: try (match type of Hw with time_to_n X ?b ?u ?v0 = Ok ?w0 =>
                pose proof (time_to_n_float b u v0 w0 eq_refl Hw) as Hw2 end;
              etransitivity; [exact Hw2|exact Hn]).
    all: try (specialize (Htd eq_refl); cbn in Htd; destruct (td_micros v); [reflexivity|discriminate]).
    all: assert (Hs := Hsen eq_refl); cbn [src_i64 option_map] in Hs.
    all: unfold n_to_dt, n_to_td, td_of_i64; cbn [n_is_none]; rewrite ?Hn, ?Hcan.
    all: try (apply Z.eqb_neq; intro E; apply Hs; exact (f_equal Some E)).
    all: match goal with |- context [if ?c then _ else _] => destruct c eqn:E end;
         [exfalso; apply Z.eqb_eq in E; apply Hs; exact (f_equal Some E)| reflexivity].
  Qed.

  (* ---------------------------------------------------------------- *)
  (* values follow Rust's `as` on non-nulls *)

  Theorem cast_value_as (a u : nt) (v : nval a) :
    cast X (Plain (N a)) (Plain (N u)) v = Ok (as_nn X a u v) /\
    (n_is_none X a v = false -> cast X (Plain (N a)) (Opt (N u)) v = Ok (Some (as_nn X a u v))) /\
    cast X (Opt (N a)) (Opt (N u)) (Some v) = Ok (Some (as_nn X a u v)) /\
    cast X (Opt (N a)) (Plain (N u)) (Some v) = Ok (as_nn X a u v).
  Proof.
    repeat split. intros H. cbn [cast cast_num]. rewrite H. reflexivity.
  Qed.

  (* the integer part of `as` is concrete: wrapping, and the identity inside the target range *)
  Lemma wrap_in_range t z : imin t <= z <= imax t -> imin t < imax t -> wrap t z = z.
  Proof.
    intros H Hlt. unfold wrap. rewrite Z.mod_small by lia. lia.
  Qed.

  Lemma wrap_range t z : imin t < imax t -> imin t <= wrap t z <= imax t.
  Proof.
    intros Hlt. unfold wrap. pose proof (Z.mod_pos_bound (z - imin t) (imax t - imin t + 1) ltac:(lia)). lia.
  Qed.

  Lemma f2i_range t f : is_float t = false -> imin t <= f2i X t f <= imax t.
  Proof.
    intros H. unfold f2i, clamp. destruct t; try discriminate H; destruct (ftrunc X f); cbn [imin imax]; lia.
  Qed.

  (* ---------------------------------------------------------------- *)
  (* casts compose through Option on either side *)

  Theorem cast_opt_opt (a b : bt) (o : option (bval a)) :
    implemented (Opt a) (Opt b) = true ->
    cast X (Opt a) (Opt b) o =
    match o with None => Ok None | Some v => do w <- cast X (Plain a) (Plain b) v; Ok (Some w) end.
  Proof.
    intros Hi. destr_bt a; destr_bt b; try discriminate Hi; destruct o as [v|]; cbn; try reflexivity.
    all: try (destruct (n_to_bool X _ v); reflexivity).
  Qed.

  Theorem cast_plain_opt (a b : bt) (v : bval a) :
    implemented (Plain a) (Opt b) = true -> (bt_eqb a TD && bt_eqb b (N I64)) = false ->
    cast X (Plain a) (Opt b) v =
    if b_is_none X a v then Ok None else do w <- cast X (Plain a) (Plain b) v; Ok (Some w).
  Proof.
    intros Hi Hx. destr_bt a; destr_bt b; try discriminate Hi; try discriminate Hx; cbn; try reflexivity.
    all: try (destruct (fisnan X v); reflexivity).
    all: try (destruct (str_eqb v s_None); [reflexivity|]).
    all: try (match goal with |- context [match ?p with Some _ => _ | None => _ end] => destruct p; reflexivity end).
    all: try (destruct (v =? i64min); reflexivity).
    all: try (destruct (fst v =? i32min); reflexivity).
    all: try reflexivity.
    all: match goal with |- context [if ?c then _ else _] => destruct c; reflexivity end.
  Qed.

  (* the excluded pair: TimeDelta -> Option<i64>, for durations whose microseconds fit an i64 *)
  Theorem cast_td_opt_i64 (d : Z * Z) q :
    td_micros d = Some q ->
    cast X (Plain TD) (Opt (N I64)) d =
    if b_is_none X TD d then Ok None else do w <- cast X (Plain TD) (Plain (N I64)) d; Ok (Some w).
  Proof.
    intros H. cbn. rewrite H. destruct (fst d =? -2147483648); [reflexivity|].
    destruct (fst d =? 0); reflexivity.
  Qed.

  Theorem cast_opt_plain_some (a b : bt) (v : bval a) :
    implemented (Opt a) (Plain b) = true ->
    cast X (Opt a) (Plain b) (Some v) = cast X (Plain a) (Plain b) v.
  Proof. intros Hi. destr_bt a; destr_bt b; try discriminate Hi; reflexivity. Qed.

  Theorem cast_opt_plain_none (a b : bt) :
    implemented (Opt a) (Plain b) = true -> (bt_eqb a Bool && is_time b) = false ->
    cast X (Opt a) (Plain b) None = none X (Plain b).
  Proof. intros Hi Hx. destr_bt a; destr_bt b; try discriminate Hi; try discriminate Hx; reflexivity. Qed.
End Lattice.
