(* Proofs/KernelsXR.v — C10: the carrier hypotheses of Proofs/Kernels3.v / KernelsMap.v discharged at option R
   (exact reals + one NaN): the index law of vquantile, 0 <= 0.5 <= 1, and "every non-null element equals
   itself".  Reals axioms of the standard library only.                                                  *)
From Coq Require Import Reals Lra Lia List ZArith Bool.
From Tevec Require Import Base.Prelude Base.Num Base.XR Model.Driver Model.Cmp Model.SortCmp Model.Quantile
     Proofs.OrderXR Proofs.Quantile Proofs.TransQuantile Proofs.TransRank Proofs.Kernels3 Proofs.KernelsMap.
Import ListNotations.
Local Open Scope R_scope.

Lemma half_in_range_xr : nleb nzero (nhalf (A := XR)) && nleb (nhalf (A := XR)) none = true.
Proof.
  rewrite nhalf_xr. change (@nzero XR NumXR) with (Some 0). change (@none XR NumXR) with (Some 1).
  rewrite !xleb_true by lra. reflexivity.
Qed.

Theorem vquantile_never_panics_xr (q : XR) m (xs : list XR) :
  exists r, vquantile (NF := NumFloorXR) (DT := IsNoneXR) q m xs = Ok r /\
            (r = None <-> nleb nzero q && nleb q none = false).
Proof. apply vquantile_never_panics. exact qidx_law_xr. Qed.

Theorem vmedian_never_panics_xr (xs : list XR) :
  exists v, vmedian (NF := NumFloorXR) (DT := IsNoneXR) xs = Ok v.
Proof. apply vmedian_never_panics; [exact qidx_law_xr|exact half_in_range_xr]. Qed.

Lemma self_eq_on_xr (xs : list XR) : self_eq_on (DT := IsNoneXR) xs.
Proof.
  intros i v _ Hv. destruct v as [x|]; [|discriminate Hv]. cbn [unwrap IsNoneXR IsNone_float].
  split.
  - cbn [nltb NumXR]. unfold xltb. destruct (Rlt_dec x x) as [H|_]; [lra|reflexivity].
  - cbn [neqb NumXR]. unfold xeqb. destruct (Req_EM_T x x) as [_|H]; [reflexivity|contradiction].
Qed.
