(* Proofs/Collect.v — lemmas about Model/Collect.v.  Stdlib only, axiom-free. *)
From Tevec Require Import Base.Prelude Model.Driver Proofs.Driver Model.Create Proofs.Create Model.Collect.
Set Implicit Arguments.

(* ---- infallible collectors: identity on the item sequence ---------------------------------- *)
Lemma collect_from_trusted_exact {A} (b : backend) (items : list A) :
  collect_from_trusted b (exact_iter items) = Done items.
Proof. destruct b; [apply collect_trusted_exact|reflexivity]. Qed.

Lemma collect_with_len_exact {A} (b : backend) (items : list A) :
  collect_with_len b items (length items) = Done items.
Proof. apply (collect_from_trusted_exact b items). Qed.

Lemma collect_from_trusted_done {A} (b : backend) (it : titer A) (out : list A) :
  collect_from_trusted b it = Done out -> out = ti_items it.
Proof.
  destruct b; cbn [collect_from_trusted].
  - intros H. apply collect_trusted_done in H. tauto.
  - unfold collect_from_iter, collect_plain. intros [= <-]. reflexivity.
Qed.

Lemma full_repeat {A} (b : backend) (n : nat) (v : A) : full b n v = Done (repeat v n).
Proof. apply collect_from_trusted_exact. Qed.

(* optional -> null-encoded *)
Definition unwrap_or {A} (none : A) (o : option A) : A := match o with Some v => v | None => none end.

Lemma collect_opt_spec {A} (none : A) (items : list (option A)) :
  collect_from_opt_iter none items = Done (map (unwrap_or none) items).
Proof. reflexivity. Qed.

(* position by position: None becomes the null value, Some v stays v; with canonical nulls (no
   `Some none`, DESIGN 5.4) the null pattern of the output is exactly the None pattern of the input *)
Lemma collect_opt_nth {A} (none : A) (is_none : A -> bool) (items : list (option A)) :
  is_none none = true ->
  (forall v, In (Some v) items -> is_none v = false) ->
  exists out, collect_from_opt_iter none items = Done out /\ length out = length items /\
    forall i o, nth_error items i = Some o ->
      exists x, nth_error out i = Some x /\
        (o = None -> x = none) /\ (forall v, o = Some v -> x = v) /\
        (is_none x = true <-> o = None).
Proof.
  intros Hn Hcanon. eexists. split; [reflexivity|]. split; [apply map_length|].
  intros i o Hi. exists (unwrap_or none o). split.
  - rewrite nth_error_map, Hi. reflexivity.
  - split; [intros ->; reflexivity|]. split; [intros v ->; reflexivity|].
    destruct o as [v|]; cbn [unwrap_or].
    + rewrite (Hcanon v) by (eapply nth_error_In; exact Hi). split; discriminate.
    + rewrite Hn. split; reflexivity.
Qed.

(* ---- fallible collectors --------------------------------------------------------------------- *)
Section Try.
  Context {A E : Type}.

  Lemma ok_prefix_all (xs : list A) : ok_prefix (map (@inl A E) xs) = xs.
  Proof. induction xs as [|x r IH]; [reflexivity|]. cbn. rewrite IH. reflexivity. Qed.
  Lemma first_err_all (xs : list A) : first_err (map (@inl A E) xs) = None.
  Proof. induction xs as [|x r IH]; [reflexivity|]. exact IH. Qed.
  Lemma ok_prefix_err (xs : list A) (e : E) rest : ok_prefix (map (@inl A E) xs ++ inr e :: rest) = xs.
  Proof. induction xs as [|x r IH]; [reflexivity|]. cbn. rewrite IH. reflexivity. Qed.
  Lemma first_err_err (xs : list A) (e : E) rest : first_err (map (@inl A E) xs ++ inr e :: rest) = Some e.
  Proof. induction xs as [|x r IH]; [reflexivity|]. exact IH. Qed.
  Lemma pulled_all (xs : list A) : pulled (map (@inl A E) xs) = length xs.
  Proof. induction xs as [|x r IH]; [reflexivity|]. cbn. rewrite IH. reflexivity. Qed.
  Lemma pulled_err (xs : list A) (e : E) rest : pulled (map (@inl A E) xs ++ inr e :: rest) = S (length xs).
  Proof. induction xs as [|x r IH]; [reflexivity|]. cbn. rewrite IH. reflexivity. Qed.

  (* every item sequence is either all-Ok or has a first error *)
  Lemma items_shape (items : list (A + E)) :
    (exists xs, items = map (@inl A E) xs)
    \/ (exists xs e rest, items = map (@inl A E) xs ++ inr e :: rest).
  Proof.
    induction items as [|[a|e] r IH].
    - left. exists []. reflexivity.
    - destruct IH as [[xs ->]|(xs & e & rest & ->)].
      + left. exists (a :: xs). reflexivity.
      + right. exists (a :: xs), e, rest. reflexivity.
    - right. exists [], e, r. reflexivity.
  Qed.

  Lemma try_collect_ok (hint : nat) (xs : list A) :
    try_collect_from_iter (TI hint (map (@inl A E) xs)) = TOk (Done xs).
  Proof. unfold try_collect_from_iter. cbn [ti_items]. rewrite first_err_all, ok_prefix_all. reflexivity. Qed.

  Lemma try_collect_err (hint : nat) (xs : list A) (e : E) rest :
    try_collect_from_iter (TI hint (map (@inl A E) xs ++ inr e :: rest)) = TErr e.
  Proof. unfold try_collect_from_iter. cbn [ti_items]. rewrite first_err_err. reflexivity. Qed.

  Lemma try_collect_trusted_ok (b : backend) (xs : list A) :
    try_collect_from_trusted b (exact_iter (map (@inl A E) xs)) = TOk (Done xs).
  Proof.
    destruct b; cbn [try_collect_from_trusted]; [|apply try_collect_ok].
    unfold exact_iter. cbn [ti_hint ti_items]. rewrite ok_prefix_all, first_err_all, map_length.
    rewrite Nat.ltb_irrefl, fill_from_exact. unfold finish. rewrite assume_init_map_Some. reflexivity.
  Qed.

  Lemma try_collect_trusted_err (b : backend) (xs : list A) (e : E) rest :
    try_collect_from_trusted b (exact_iter (map (@inl A E) xs ++ inr e :: rest)) = TErr e.
  Proof.
    destruct b; cbn [try_collect_from_trusted]; [|apply try_collect_err].
    unfold exact_iter. cbn [ti_hint ti_items]. rewrite ok_prefix_err, first_err_err.
    rewrite app_length, map_length. cbn [length].
    replace (length xs + S (length rest) <? length xs) with false by (symmetry; apply Nat.ltb_ge; lia).
    reflexivity.
  Qed.
End Try.

(* ---- write_trust_iter ------------------------------------------------------------------------ *)
Lemma write_each_exact {A} (items : list A) : forall i,
  write_each i (length items) items = (WOk, combine (seq i (length items)) items).
Proof.
  induction items as [|x r IH]; intros i; [reflexivity|].
  cbn [length write_each seq combine]. rewrite IH. reflexivity.
Qed.

Lemma apply_writes_in_order {A} (items : list A) : forall (pre : list (option A)) (old : list (option A)),
  length old = length items ->
  apply_writes (combine (seq (length pre) (length items)) items) (pre ++ old) = pre ++ map Some items.
Proof.
  unfold apply_writes.
  induction items as [|x r IH]; intros pre old Hlen.
  - destruct old; [|discriminate]. reflexivity.
  - destruct old as [|c old]; [discriminate|]. cbn [length seq combine fold_left fst snd map].
    rewrite set_nth_app.
    specialize (IH (pre ++ [Some x]) old ltac:(cbn in Hlen; lia)).
    rewrite app_length in IH. cbn [length] in IH. rewrite Nat.add_1_r in IH.
    rewrite <- app_assoc in IH. cbn [app] in IH. rewrite IH, <- app_assoc. reflexivity.
Qed.

Lemma apply_writes_broadcast {A} (v : A) (n : nat) : forall (pre old : list (option A)),
  length old = n ->
  apply_writes (map (fun i => (i, v)) (seq (length pre) n)) (pre ++ old) = pre ++ repeat (Some v) n.
Proof.
  unfold apply_writes.
  induction n as [|n IH]; intros pre old Hlen.
  - destruct old; [|discriminate]. reflexivity.
  - destruct old as [|c old]; [discriminate|]. cbn [seq map fold_left fst snd repeat].
    rewrite set_nth_app.
    specialize (IH (pre ++ [Some v]) old ltac:(cbn in Hlen; lia)).
    rewrite app_length in IH. cbn [length] in IH. rewrite Nat.add_1_r in IH.
    rewrite <- app_assoc in IH. cbn [app] in IH. rewrite IH, <- app_assoc. reflexivity.
Qed.

Lemma map_fst_combine_seq {A} (items : list A) i :
  map fst (combine (seq i (length items)) items) = seq i (length items).
Proof.
  revert i; induction items as [|x r IH]; intros i; [reflexivity|].
  cbn [length seq combine map fst]. rewrite IH. reflexivity.
Qed.

(* the complete behaviour under the TrustedLen contract (announced length = number of items) *)
Lemma write_trust_iter_spec {A} (old : list (option A)) (items : list A) :
  let len := length old in
  let r := write_trust_iter len (exact_iter items) in
  (* equal lengths (including the empty buffer against the empty iterator) *)
  (len = length items ->
     fst r = WOk /\ map fst (snd r) = seq 0 len /\ apply_writes (snd r) old = map Some items) /\
  (* singleton broadcast *)
  (forall v, items = [v] -> len <> 0 ->
     fst r = WOk /\ map fst (snd r) = seq 0 len /\ apply_writes (snd r) old = repeat (Some v) len) /\
  (* empty buffer: Ok, nothing to write, whatever the iterator *)
  (len = 0 -> r = (WOk, [])) /\
  (* mismatch: Err and not a single write — the buffer is untouched *)
  (len <> 0 -> len <> length items -> length items <> 1 ->
     r = (WErr, []) /\ apply_writes (snd r) old = old).
Proof.
  cbv zeta. unfold write_trust_iter, exact_iter. cbn [ti_hint ti_items].
  split; [|split; [|split]].
  - intros Hlen. rewrite Hlen.
    destruct (length items =? 0) eqn:E0.
    + apply Nat.eqb_eq in E0. destruct items; [|discriminate]. destruct old; [|discriminate].
      cbn. auto.
    + rewrite Nat.eqb_refl, write_each_exact. cbn [fst snd].
      split; [reflexivity|]. split; [apply map_fst_combine_seq|].
      apply (apply_writes_in_order items [] old). exact Hlen.
  - intros v -> Hne. cbn [length].
    replace (length old =? 0) with false by (symmetry; apply Nat.eqb_neq; exact Hne).
    destruct (length old =? 1) eqn:E1.
    + apply Nat.eqb_eq in E1. rewrite E1. cbn [write_each fst snd map seq repeat].
      destruct old as [|c [|c' old]]; try discriminate. cbn. auto.
    + cbn [Nat.eqb fst snd]. split; [reflexivity|]. split.
      * rewrite map_map. cbn [fst]. apply map_id.
      * apply (apply_writes_broadcast v [] old). reflexivity.
  - intros ->. reflexivity.
  - intros H0 Hne H1.
    replace (length old =? 0) with false by (symmetry; apply Nat.eqb_neq; exact H0).
    replace (length old =? length items) with false by (symmetry; apply Nat.eqb_neq; exact Hne).
    replace (length items =? 1) with false by (symmetry; apply Nat.eqb_neq; exact H1).
    split; reflexivity.
Qed.

(* under the contract write_trust_iter never panics, and is Err exactly on a genuine mismatch *)
Lemma write_trust_iter_status {A} (len : nat) (items : list A) :
  fst (write_trust_iter len (exact_iter items))
  = if orb (len =? 0) (orb (len =? length items) (length items =? 1)) then WOk else WErr.
Proof.
  unfold write_trust_iter, exact_iter. cbn [ti_hint ti_items].
  destruct (len =? 0) eqn:E0; [reflexivity|]. cbn [orb].
  destruct (len =? length items) eqn:E1; cbn [orb].
  - apply Nat.eqb_eq in E1. subst len. rewrite write_each_exact. reflexivity.
  - destruct (length items =? 1) eqn:E2; [|reflexivity].
    apply Nat.eqb_eq in E2. destruct items as [|v [|]]; try discriminate. reflexivity.
Qed.

(* without the contract (announced length wrong): whatever happens, a write never lands outside
   0..len-1, no slot is written twice, and Err still means "nothing written" *)
Lemma write_each_slots {A} (items : list A) : forall i n,
  map fst (snd (write_each i n items)) = seq i (Nat.min n (length items)).
Proof.
  induction items as [|x r IH]; intros i n.
  - destruct n; reflexivity.
  - destruct n as [|n]; [reflexivity|]. cbn [write_each length Nat.min].
    specialize (IH (S i) n). destruct (write_each (S i) n r) as [st ws]. cbn [snd map fst seq] in *.
    rewrite IH. reflexivity.
Qed.

Lemma write_trust_iter_slots {A} (len : nat) (it : titer A) :
  exists k, k <= len /\ map fst (snd (write_trust_iter len it)) = seq 0 k
  /\ (fst (write_trust_iter len it) = WErr -> k = 0)
  /\ (fst (write_trust_iter len it) = WOk -> k = len).
Proof.
  unfold write_trust_iter.
  destruct (len =? 0) eqn:E0.
  { apply Nat.eqb_eq in E0. exists 0. cbn. repeat split; auto; lia. }
  destruct (len =? ti_hint it) eqn:E1.
  { exists (Nat.min len (length (ti_items it))). split; [lia|]. split; [apply write_each_slots|].
    split.
    - intros H. exfalso. revert H. generalize 0. generalize (ti_items it). clear.
      induction len as [|n IH]; intros l i; [discriminate|]. cbn [write_each].
      destruct l as [|x r]; [discriminate|]. specialize (IH r (S i)).
      destruct (write_each (S i) n r). exact IH.
    - generalize 0. generalize (ti_items it). clear. induction len as [|n IH]; intros l i H; [reflexivity|].
      cbn [write_each] in H. destruct l as [|x r]; [discriminate|]. specialize (IH r (S i)).
      destruct (write_each (S i) n r) as [st ws]. cbn [fst] in *. cbn [length]. specialize (IH H). lia. }
  destruct (ti_hint it =? 1).
  - destruct (ti_items it) as [|v r].
    + exists 0. cbn. repeat split; auto; try lia; discriminate.
    + exists len. cbn [fst snd]. split; [lia|]. split; [|split; [discriminate|reflexivity]].
      rewrite map_map. cbn [fst]. apply map_id.
  - exists 0. cbn. repeat split; auto; try lia; discriminate.
Qed.

(* ---- Vec1Mut::apply_mut_with / get_mut, Vec1::sort_unstable_by ---------------------------------- *)
From Coq Require Import Sorting.Sorted Sorting.Permutation.

Lemma get_mut_spec {T} (xs : list T) (i : nat) :
  (i < length xs -> exists x, get_mut xs i = Some x /\ nth_error xs i = Some x)
  /\ (length xs <= i -> get_mut xs i = None).
Proof.
  unfold get_mut. split; intros H.
  - replace (i <? length xs) with true by (symmetry; apply Nat.ltb_lt; exact H).
    destruct (nth_error xs i) as [x|] eqn:E; [exists x; auto|]. apply nth_error_None in E. lia.
  - replace (i <? length xs) with false by (symmetry; apply Nat.ltb_ge; exact H). reflexivity.
Qed.

Lemma apply_mut_with_spec {T OT} (f : T -> OT -> T) (xs : list T) (ys : list OT) :
  (length xs = length ys ->
     exists out, apply_mut_with f xs ys = (true, out, combine xs ys) /\ length out = length xs /\
       forall i x y, nth_error xs i = Some x -> nth_error ys i = Some y -> nth_error out i = Some (f x y))
  /\ (length xs <> length ys -> apply_mut_with f xs ys = (false, xs, [])).
Proof.
  unfold apply_mut_with. split; intros H.
  - rewrite H, Nat.eqb_refl. eexists. split; [reflexivity|]. split.
    + rewrite map_length, combine_length. lia.
    + intros i x y Hx Hy. rewrite nth_error_map, nth_error_combine, Hx, Hy. reflexivity.
  - replace (length xs =? length ys) with false by (symmetry; apply Nat.eqb_neq; exact H). reflexivity.
Qed.

Section SortProofs.
  Context {T : Type} (leb : T -> T -> bool).
  Hypothesis leb_total : forall x y, leb x y = false -> leb y x = true.
  Let le x y := leb x y = true.

  Lemma insert_perm x l : Permutation (insert_sorted leb x l) (x :: l).
  Proof.
    induction l as [|y r IH]; [apply Permutation_refl|]. cbn [insert_sorted].
    destruct (leb x y); [apply Permutation_refl|].
    eapply Permutation_trans; [apply perm_skip; exact IH|apply perm_swap].
  Qed.

  Lemma isort_perm l : Permutation (isort leb l) l.
  Proof.
    induction l as [|x r IH]; [apply Permutation_refl|]. cbn [isort].
    eapply Permutation_trans; [apply insert_perm|apply perm_skip; exact IH].
  Qed.

  Lemma insert_hdrel a x l : le a x -> HdRel le a l -> HdRel le a (insert_sorted leb x l).
  Proof.
    intros Hax Hl. destruct l as [|y r]; cbn [insert_sorted]; [constructor; exact Hax|].
    destruct (leb x y); constructor; [exact Hax|]. inversion Hl; assumption.
  Qed.

  Lemma insert_sorted_sorted x l : Sorted le l -> Sorted le (insert_sorted leb x l).
  Proof.
    induction l as [|y r IH]; intros Hs; cbn [insert_sorted]; [repeat constructor|].
    destruct (leb x y) eqn:E.
    - constructor; [exact Hs|constructor; exact E].
    - inversion Hs as [|? ? Hr Hhd]; subst. constructor; [apply IH; exact Hr|].
      apply insert_hdrel; [apply leb_total; exact E|exact Hhd].
  Qed.

  Lemma isort_sorted l : Sorted le (isort leb l).
  Proof. induction l as [|x r IH]; [constructor|]. cbn [isort]. apply insert_sorted_sorted. exact IH. Qed.

  Lemma sort_unstable_by_spec (xs : list T) :
    sort_unstable_by leb xs = (true, isort leb xs)
    /\ Sorted le (isort leb xs) /\ Permutation (isort leb xs) xs.
  Proof.
    split; [|split; [apply isort_sorted|apply isort_perm]].
    unfold sort_unstable_by. rewrite collect_from_trusted_exact.
    assert (Hlen : length xs = length (isort leb xs)).
    { apply Permutation_length. apply Permutation_sym. apply isort_perm. }
    unfold apply_mut_with. rewrite Hlen, Nat.eqb_refl. f_equal.
    generalize (isort leb xs) Hlen. clear. induction xs as [|x r IH]; intros l Hl.
    - destruct l; [reflexivity|discriminate].
    - destruct l as [|y l]; [discriminate|]. cbn [combine map fst snd]. f_equal. apply IH.
      cbn in Hl. lia.
  Qed.
End SortProofs.
