(* Proofs/TransRank.v — C08 (null transparency) at option R:
   * vrank: from the C12 characterisation (Proofs/Rank.v : vrank_spec) the rank map IS a `map` — every slot is
     a function of the element at that slot and of the valid elements of the series (`vrank_map`); inserting nulls
     leaves the valid elements unchanged, so the ranks of the original elements are the same terms and the inserted
     positions carry the null rank: `vrank (insert_pat None p xs) = insert_pat (Some None) p (vrank xs)`;
   * the index law `QIdxLaw` of Proofs/TransQuantile.v holds at option R (ceil((n-1) q) <= n-1 for 0 <= q <= 1), so
     the carrier-generic quantile transparency instantiates to an unconditional equality there.
   Reals axioms of the standard library only.                                                                  *)
From Coq Require Import Reals Lra Lia List ZArith Bool.
From Tevec Require Import Base.Prelude Base.Num Base.XR Spec.Stats Model.NullView Model.SortCmp Model.Quantile
     Model.Rank Proofs.OrderXR Proofs.Quantile Proofs.Partition Proofs.Rank Proofs.NullOrder Proofs.TransQuantile.
Import ListNotations.

(* ---- insert_pat ------------------------------------------------------------------------------------------- *)
Lemma map_insert_pat {X Y} (f : X -> Y) (nl : X) (p : list bool) : forall xs,
  map f (insert_pat nl p xs) = insert_pat (f nl) p (map f xs).
Proof.
  induction p as [|b p IH]; intros xs; [reflexivity|]. destruct b; cbn [insert_pat map].
  - rewrite IH. reflexivity.
  - destruct xs as [|x xs]; cbn [map]; [apply (IH [])|]. rewrite IH. reflexivity.
Qed.

Lemma null_insert_pattern (xs ys : list XR) :
  NullInsert (D := IsNoneXR) xs ys -> exists p, ys = insert_pat None p xs.
Proof.
  induction 1 as [|x xs ys _ [p IH]|v xs ys Hv _ [p IH]].
  - exists []. reflexivity.
  - exists (false :: p). cbn [insert_pat]. rewrite IH. reflexivity.
  - exists (true :: p). cbn [insert_pat]. rewrite IH. destruct v as [r|]; [discriminate Hv|reflexivity].
Qed.

Lemma valid_insert_pat (p : list bool) (xs : list XR) : valid (insert_pat None p xs) = valid xs.
Proof.
  revert xs. induction p as [|b p IH]; intros xs; [reflexivity|]. destruct b; cbn [insert_pat].
  - unfold valid. cbn [flat_map app]. apply IH.
  - destruct xs as [|x xs]; [apply (IH [])|]. unfold valid. cbn [flat_map]. f_equal. apply IH.
Qed.

(* ---- vrank is a map ----------------------------------------------------------------------------------------- *)
(* the rank slot of an element x in a series whose valid elements are l *)
Definition rank_slot (pct rev : bool) (l : list R) (x : XR) : option XR :=
  Some (match x with Some x => Some (rank_spec pct rev l x) | None => None end).

Lemma vrank_map (pct rev : bool) (xs : list XR) :
  vrank (DX := IsNoneXXR) pct rev xs = map (rank_slot pct rev (valid xs)) xs.
Proof.
  destruct (vrank_spec pct rev xs) as [Hlen Hnth].
  apply nth_error_ext. intros i. rewrite nth_error_map.
  destruct (Nat.lt_ge_cases i (length xs)) as [Hi|Hi].
  - rewrite (Hnth i Hi). unfold rank_expected, rank_slot.
    rewrite (nth_error_nth' xs None Hi). reflexivity.
  - assert (E1 : nth_error xs i = None) by (apply nth_error_None; exact Hi).
    rewrite E1. apply nth_error_None. rewrite Hlen. exact Hi.
Qed.

(* inserting nulls by a pattern: the ranks of the original elements are unchanged, the inserted slots are null *)
Theorem vrank_insert_pat (pct rev : bool) (p : list bool) (xs : list XR) :
  vrank (DX := IsNoneXXR) pct rev (insert_pat None p xs)
  = insert_pat (Some None) p (vrank (DX := IsNoneXXR) pct rev xs).
Proof. rewrite !vrank_map, valid_insert_pat, map_insert_pat. reflexivity. Qed.

Theorem vrank_null_insert (pct rev : bool) (xs ys : list XR) :
  NullInsert (D := IsNoneXR) xs ys ->
  exists p, ys = insert_pat None p xs /\
            vrank (DX := IsNoneXXR) pct rev ys = insert_pat (Some None) p (vrank (DX := IsNoneXXR) pct rev xs).
Proof.
  intros H. destruct (null_insert_pattern _ _ H) as [p ->]. exists p. split; [reflexivity|apply vrank_insert_pat].
Qed.

(* pointwise reading: an original element keeps its rank whatever is inserted *)
Corollary vrank_insert_same_slot (pct rev : bool) (xs ys : list XR) (i j : nat) (x : XR) :
  NullInsert (D := IsNoneXR) xs ys -> nth_error xs i = Some x -> nth_error ys j = Some x ->
  nth_error (vrank (DX := IsNoneXXR) pct rev ys) j = nth_error (vrank (DX := IsNoneXXR) pct rev xs) i.
Proof.
  intros H Hi Hj. rewrite !vrank_map, (valid_null_insert _ _ H), !nth_error_map, Hi, Hj. reflexivity.
Qed.

(* ---- the index law at option R ------------------------------------------------------------------------------ *)
Local Open Scope R_scope.
Lemma qidx_law_xr : QIdxLaw (A := XR) (NF := NumFloorXR).
Proof.
  intros q n Hq Hn. destruct q as [q|]; [|discriminate Hq].
  change (@nzero XR NumXR) with (Some 0) in Hq. change (@none XR NumXR) with (Some 1) in Hq.
  apply andb_true_iff in Hq. destruct Hq as [H0 H1].
  assert (Hq0 : 0 <= q) by (destruct (Rle_dec 0 q); [assumption|rewrite xleb_false in H0 by assumption; discriminate]).
  assert (Hq1 : q <= 1) by (destruct (Rle_dec q 1); [assumption|rewrite xleb_false in H1 by assumption; discriminate]).
  unfold qsel_index. rewrite xofnat, nhalf_xr.
  set (L := INR (n - 1)).
  assert (HLZ : L = IZR (Z.of_nat (n - 1))) by (unfold L; apply INR_IZR_INZ).
  assert (HL0 : 0 <= L) by (unfold L; apply pos_INR).
  destruct (Rle_dec q (1 / 2)) as [Hlo|Hhi].
  - rewrite xleb_true by exact Hlo. rewrite xmul_some. cbn [nceilZ NumFloorXR].
    assert (Hh : 0 <= L * q <= IZR (Z.of_nat (n - 1))).
    { rewrite <- HLZ. split; [apply Rmult_le_pos; lra|]. rewrite <- (Rmult_1_r L) at 2. apply Rmult_le_compat_l; lra. }
    pose proof (Rceil_range _ _ Hh). lia.
  - rewrite xleb_false by exact Hhi. change (@none XR NumXR) with (Some 1). rewrite xsub_some, xmul_some.
    cbn [nceilZ NumFloorXR].
    assert (Hh : 0 <= L * (1 - q) <= IZR (Z.of_nat (n - 1))).
    { rewrite <- HLZ. split; [apply Rmult_le_pos; lra|]. rewrite <- (Rmult_1_r L) at 2. apply Rmult_le_compat_l; lra. }
    pose proof (Rceil_range _ _ Hh). lia.
Qed.
