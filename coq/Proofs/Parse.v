(* Proofs/Parse.v — the duration scanner: totality (no panic, fuel suffices) and the meaning of
   well-formed strings. *)
From Coq Require Import List ZArith Lia Bool.
From Tevec Require Import Base.Prelude Model.Parse Spec.DurationC18.
Import ListNotations.
Local Open Scope Z_scope.

(* ------------------------------------------------------------------ *)
(* totality *)

Definition safe (r : pres) : Prop :=
  match r with PPanic _ | PFuel => False | _ => True end.

Lemma finish_safe a : safe (finish a).
Proof.
  unfold finish. destruct (duration_new (a_secs a) 0) as [[s1 n1]|]; [|exact I].
  destruct (n1 + a_nsecs a mod giga >=? giga);
    match goal with |- context [duration_new ?x ?y] => destruct (duration_new x y) as [[? ?]|] end; exact I.
Qed.

Lemma unit_loop_inv : forall rest ch pos start unit u r2 p2 s2,
  unit_loop ch rest pos start unit = (u, r2, p2, s2) -> (start <= pos)%nat ->
  (s2 <= p2)%nat /\ (p2 + length r2 = pos + length rest)%nat /\ (length r2 <= length rest)%nat.
Proof.
  induction rest as [|c rest IH]; intros ch pos start unit u r2 p2 s2 H Hs; cbn [unit_loop] in H.
  - destruct (is_alpha ch); inversion H; subst; cbn [length]; lia.
  - destruct (is_alpha ch).
    + apply IH in H; [|lia]. cbn [length]. lia.
    + inversion H; subst. cbn [length]. lia.
Qed.

(* the scanner invariant: start <= pos <= len, rest is what is left after pos, fuel covers rest *)
Lemma scan_safe : forall fuel s rest pos start a,
  (start <= pos)%nat -> (pos + length rest = length s)%nat -> (length rest < fuel)%nat ->
  safe (scan fuel s rest pos start a).
Proof.
  induction fuel as [|fuel IH]; intros s rest pos start a Hs Hp Hf; [lia|].
  cbn [scan]. destruct rest as [|ch rest1]; [apply finish_safe|].
  cbn [length] in *.
  destruct (negb (is_digit ch) && negb (pos =? 0)%nat).
  - unfold slice.
    replace (start <=? pos)%nat with true by (symmetry; apply Nat.leb_le; lia).
    replace (pos <=? length s)%nat with true by (symmetry; apply Nat.leb_le; lia).
    cbn [andb].
    destruct (parse_i64 (seg start pos s)); [|exact I].
    destruct (unit_loop ch rest1 (S pos) start []) as [[[u r2] p2] s2] eqn:E.
    apply unit_loop_inv in E; [|lia].
    destruct u; [exact I|]. destruct (unit_of _); [|exact I].
    destruct (apply_unit _ _ _); [|exact I].
    apply IH; lia.
  - apply IH; lia.
Qed.

Lemma parse_safe s : safe (parse s).
Proof. unfold parse. apply scan_safe; cbn [length]; lia. Qed.

Lemma parse_total s : (forall k, parse s <> PPanic k) /\ parse s <> PFuel.
Proof.
  pose proof (parse_safe s) as H. destruct (parse s); cbn in H; try contradiction;
    split; try intros ?; discriminate.
Qed.

(* ------------------------------------------------------------------ *)
(* well-formed strings *)

Definition digit (c : Z) : Prop := is_digit c = true.

Lemma digit_range c : digit c -> 48 <= c <= 57.
Proof. unfold digit, is_digit. intros H. apply andb_true_iff in H. destruct H as [H1 H2].
       apply Z.leb_le in H1. apply Z.leb_le in H2. lia. Qed.

Lemma digit_not_alpha c : digit c -> is_alpha c = false.
Proof. intros H. apply digit_range in H. unfold is_alpha.
       destruct (Z.leb_spec 65 c); destruct (Z.leb_spec c 90); destruct (Z.leb_spec 97 c);
         destruct (Z.leb_spec c 122); cbn; try reflexivity; lia. Qed.

Lemma unit_of_str u : unit_of (unit_str u) = Some u.
Proof. destruct u; reflexivity. Qed.

Lemma unit_str_head u : exists u1 ur, unit_str u = u1 :: ur /\ is_digit u1 = false.
Proof. destruct u; cbn [unit_str]; do 2 eexists; (split; [reflexivity|reflexivity]). Qed.

(* i64::from_str on a rendered number *)
Lemma digits_val_spec ds : forall acc, Forall digit ds ->
  digits_val acc ds = Some (fold_left (fun a c => a * 10 + (c - 48)) ds acc).
Proof.
  induction ds as [|c r IH]; intros acc H; [reflexivity|].
  inversion H as [|? ? Hc Hr]; subst. cbn [digits_val fold_left]. rewrite Hc. apply IH. exact Hr.
Qed.

Lemma parse_i64_term t : wf_term t -> in_i64 (tval t) = true ->
  parse_i64 (sign_str (t_sign t) ++ t_digits t) = Some (tval t).
Proof.
  intros [Hne Hd] Hr. unfold tval in *. destruct (t_digits t) as [|d ds] eqn:Ed; [contradiction|].
  destruct (t_sign t) as [[|]|]; cbn [sign_str app]; unfold parse_i64.
  - rewrite Z.eqb_refl. rewrite digits_val_spec by exact Hd. unfold dval in *. rewrite Hr. reflexivity.
  - change (43 =? 45) with false. rewrite Z.eqb_refl. rewrite digits_val_spec by exact Hd.
    unfold dval in *. rewrite Hr. reflexivity.
  - inversion Hd as [|? ? Hc ?]; subst. pose proof (digit_range _ Hc) as Hc'.
    replace (d =? 45) with false by (symmetry; apply Z.eqb_neq; lia).
    replace (d =? 43) with false by (symmetry; apply Z.eqb_neq; lia).
    rewrite digits_val_spec by exact Hd. unfold dval in *. rewrite Hr. reflexivity.
Qed.

(* a rendered number is  c0 :: dr  with dr all digits, and c0 is not alphabetic *)
Lemma number_shape t : wf_term t ->
  exists c0 dr, sign_str (t_sign t) ++ t_digits t = c0 :: dr /\ Forall digit dr /\ is_alpha c0 = false.
Proof.
  intros [Hne Hd]. destruct (t_digits t) as [|d ds]; [contradiction|].
  inversion Hd as [|? ? Hc Hr]; subst.
  destruct (t_sign t) as [[|]|]; cbn [sign_str app]; do 2 eexists; (split; [reflexivity|]); split;
    try exact Hd; try exact Hr; try reflexivity. apply digit_not_alpha; exact Hc.
Qed.

Lemma slice_mid (pre mid post : str) :
  slice (pre ++ mid ++ post) (length pre) (length pre + length mid) = Ok mid.
Proof.
  unfold slice.
  replace (length pre <=? length pre + length mid)%nat with true by (symmetry; apply Nat.leb_le; lia).
  replace (length pre + length mid <=? length (pre ++ mid ++ post))%nat with true
    by (symmetry; apply Nat.leb_le; rewrite !app_length; lia).
  cbn [andb]. f_equal. unfold seg.
  rewrite skipn_app, skipn_all, Nat.sub_diag. cbn [skipn app].
  replace (length pre + length mid - length pre)%nat with (length mid) by lia.
  rewrite firstn_app, firstn_all, Nat.sub_diag. cbn [firstn]. apply app_nil_r.
Qed.

(* the outer loop steps over the digits of the pending number *)
Lemma scan_digits : forall dr fuel s rest pos start a,
  Forall digit dr -> (length (dr ++ rest) < fuel)%nat ->
  exists fuel2, (length rest < fuel2)%nat /\
    scan fuel s (dr ++ rest) pos start a = scan fuel2 s rest (pos + length dr) start a.
Proof.
  induction dr as [|d dr IH]; intros fuel s rest pos start a Hd Hf.
  - exists fuel. cbn [app length] in *. rewrite Nat.add_0_r. split; [lia|reflexivity].
  - inversion Hd as [|? ? Hc Hr]; subst. destruct fuel as [|fuel]; [cbn in Hf; lia|].
    cbn [app scan]. rewrite Hc. cbn [negb andb].
    destruct (IH fuel s rest (S pos) start a Hr) as [f2 [Hf2 E]]; [cbn [app length] in Hf; lia|].
    exists f2. split; [exact Hf2|]. rewrite E. cbn [length]. f_equal. lia.
Qed.

(* one term at the end of the string *)
Lemma scan_term_last : forall pre c0 dr u n a a' fuel,
  Forall digit dr -> parse_i64 (c0 :: dr) = Some n -> apply_unit u n a = Some a' ->
  (length (dr ++ unit_str u) < fuel)%nat ->
  scan fuel (pre ++ (c0 :: dr) ++ unit_str u) (dr ++ unit_str u) (S (length pre)) (length pre) a
  = finish a'.
Proof.
  intros pre c0 dr u n a a' fuel Hd Hn Ha Hf.
  destruct (scan_digits dr fuel (pre ++ (c0 :: dr) ++ unit_str u) (unit_str u) (S (length pre)) (length pre) a Hd Hf)
    as [f2 [Hf2 E]].
  rewrite E. clear E Hf.
  destruct f2 as [|f2]; [lia|].
  replace (S (length pre) + length dr)%nat with (length pre + length (c0 :: dr))%nat by (cbn [length]; lia).
  destruct (unit_str_head u) as [u1 [ur [Eu Hu1]]].
  rewrite Eu at 2. cbn [scan]. rewrite Hu1.
  replace (length pre + length (c0 :: dr) =? 0)%nat with false
    by (symmetry; apply Nat.eqb_neq; cbn [length]; lia).
  cbn [negb andb]. rewrite slice_mid, Hn.
  assert (EL : exists p2 s2, unit_loop u1 ur (S (length pre + length (c0 :: dr))) (length pre) []
                             = (unit_str u, [], p2, s2)).
  { clear -Eu. destruct u; cbn [unit_str] in Eu; inversion Eu; subst; cbn; do 2 eexists; reflexivity. }
  destruct EL as [p2 [s2 EL]]. rewrite EL. rewrite unit_of_str, Ha. rewrite Eu at 1.
  destruct f2; [rewrite Eu in Hf2; cbn [length] in Hf2; lia|]. reflexivity.
Qed.

(* one term followed by more text whose first character is not alphabetic: the inner loop consumes
   that character and leaves `start` on it *)
Lemma scan_term_more : forall pre c0 dr u n a a' c1 more fuel,
  Forall digit dr -> parse_i64 (c0 :: dr) = Some n -> apply_unit u n a = Some a' ->
  is_alpha c1 = false ->
  (length (dr ++ unit_str u ++ c1 :: more) < fuel)%nat ->
  exists fuel2, (length more < fuel2)%nat /\
    scan fuel (pre ++ (c0 :: dr) ++ unit_str u ++ c1 :: more) (dr ++ unit_str u ++ c1 :: more)
         (S (length pre)) (length pre) a
    = scan fuel2 (pre ++ (c0 :: dr) ++ unit_str u ++ c1 :: more) more
           (S (length (pre ++ (c0 :: dr) ++ unit_str u))) (length (pre ++ (c0 :: dr) ++ unit_str u)) a'.
Proof.
  intros pre c0 dr u n a a' c1 more fuel Hd Hn Ha Hc1 Hf.
  destruct (scan_digits dr fuel (pre ++ (c0 :: dr) ++ unit_str u ++ c1 :: more) (unit_str u ++ c1 :: more)
                        (S (length pre)) (length pre) a Hd Hf) as [f2 [Hf2 E]].
  rewrite E. clear E Hf.
  destruct f2 as [|f2]; [lia|].
  replace (S (length pre) + length dr)%nat with (length pre + length (c0 :: dr))%nat by (cbn [length]; lia).
  destruct (unit_str_head u) as [u1 [ur [Eu Hu1]]].
  exists f2. split; [rewrite app_length in Hf2; cbn [length] in Hf2; lia|].
  assert (EL : unit_loop u1 (ur ++ c1 :: more) (S (length pre + length (c0 :: dr))) (length pre) []
               = (unit_str u, more, S (length ur + S (length pre + length (c0 :: dr))),
                  (length ur + S (length pre + length (c0 :: dr)))%nat)).
  { clear -Eu Hc1.
    assert (EC : forall p st un, unit_loop c1 more p st un = (un, more, p, st))
      by (intros; destruct more; cbn [unit_loop]; rewrite Hc1; reflexivity).
    destruct u; cbn [unit_str] in Eu; inversion Eu; subst; cbn [app unit_loop];
      repeat (match goal with |- context [is_alpha ?z] => change (is_alpha z) with true end;
              cbn [app unit_loop]);
      rewrite EC; reflexivity. }
  assert (EP : S (length (pre ++ (c0 :: dr) ++ unit_str u)) = S (length ur + S (length pre + length (c0 :: dr))))
    by (rewrite !app_length, Eu; cbn [length]; lia).
  assert (ES : length (pre ++ (c0 :: dr) ++ unit_str u) = (length ur + S (length pre + length (c0 :: dr)))%nat)
    by (rewrite !app_length, Eu; cbn [length]; lia).
  rewrite EP, ES. clear EP ES.
  pose proof (slice_mid pre (c0 :: dr) (unit_str u ++ c1 :: more)) as ESl.
  set (s := pre ++ (c0 :: dr) ++ unit_str u ++ c1 :: more) in *.
  replace (unit_str u ++ c1 :: more) with (u1 :: ur ++ c1 :: more) by (rewrite Eu; reflexivity).
  cbn [scan]. rewrite Hu1.
  replace (length pre + length (c0 :: dr) =? 0)%nat with false
    by (symmetry; apply Nat.eqb_neq; cbn [length]; lia).
  cbn [negb andb]. rewrite ESl, Hn, EL, unit_of_str, Ha. rewrite Eu at 1. reflexivity.
Qed.

(* the running state over a term list *)
Fixpoint acc_terms (a : accs) (ts : list term) : option accs :=
  match ts with
  | [] => Some a
  | t :: r => match apply_unit (t_unit t) (tval t) a with
              | Some a' => acc_terms a' r
              | None => None
              end
  end.

Lemma render_terms_head t ts : wf_term t ->
  exists c1 more, render_terms (t :: ts) = c1 :: more /\ is_alpha c1 = false.
Proof.
  intros Hw. destruct (number_shape _ Hw) as [c0 [dr [E [_ Hc0]]]].
  unfold render_terms. cbn [flat_map]. unfold render_term. rewrite app_assoc, E.
  cbn [app]. do 2 eexists. split; [reflexivity|exact Hc0].
Qed.

(* scanner invariant at a term boundary: the first character of the term has been consumed and
   `start` indexes it *)
Lemma scan_terms : forall ts t pre a a' fuel,
  Forall wf_term (t :: ts) -> Forall (fun t => in_i64 (tval t) = true) (t :: ts) ->
  acc_terms a (t :: ts) = Some a' ->
  (length (tl (render_terms (t :: ts))) < fuel)%nat ->
  scan fuel (pre ++ render_terms (t :: ts)) (tl (render_terms (t :: ts))) (S (length pre)) (length pre) a
  = finish a'.
Proof.
  induction ts as [|t2 ts IH]; intros t pre a a' fuel Hw Hr Ha Hf.
  - inversion Hw as [|? ? Hwt _]; subst. inversion Hr as [|? ? Hrt _]; subst.
    destruct (number_shape _ Hwt) as [c0 [dr [E [Hd Hc0]]]].
    pose proof (parse_i64_term _ Hwt Hrt) as Hn. rewrite E in Hn.
    cbn [acc_terms] in Ha. destruct (apply_unit (t_unit t) (tval t) a) as [a1|] eqn:Ea; [|discriminate].
    injection Ha as <-.
    assert (ER : render_terms [t] = (c0 :: dr) ++ unit_str (t_unit t)).
    { unfold render_terms. cbn [flat_map]. rewrite app_nil_r. unfold render_term.
      rewrite app_assoc, E. reflexivity. }
    rewrite ER in *. cbn [app tl] in Hf |- *.
    change (c0 :: dr ++ unit_str (t_unit t)) with ((c0 :: dr) ++ unit_str (t_unit t)).
    eapply scan_term_last; eassumption.
  - inversion Hw as [|? ? Hwt Hw2]; subst. inversion Hr as [|? ? Hrt Hr2]; subst.
    destruct (number_shape _ Hwt) as [c0 [dr [E [Hd Hc0]]]].
    pose proof (parse_i64_term _ Hwt Hrt) as Hn. rewrite E in Hn.
    cbn [acc_terms] in Ha. destruct (apply_unit (t_unit t) (tval t) a) as [a1|] eqn:Ea; [|discriminate].
    inversion Hw2 as [|? ? Hwt2 _]; subst.
    destruct (render_terms_head _ ts Hwt2) as [c1 [more [E2 Hc1]]].
    assert (ER : render_terms (t :: t2 :: ts) = (c0 :: dr) ++ unit_str (t_unit t) ++ c1 :: more).
    { change (render_terms (t :: t2 :: ts)) with (render_term t ++ render_terms (t2 :: ts)).
      rewrite E2. unfold render_term. rewrite app_assoc, E. rewrite <- app_assoc. reflexivity. }
    rewrite ER in *. cbn [app tl] in Hf |- *.
    destruct (scan_term_more pre c0 dr (t_unit t) _ a _ c1 more fuel Hd Hn Ea Hc1 Hf) as [f2 [Hf2 Es]].
    cbn [app] in Es. rewrite Es.
    specialize (IH t2 (pre ++ (c0 :: dr) ++ unit_str (t_unit t)) a1 a' f2 Hw2 Hr2 Ha).
    rewrite E2 in IH. cbn [tl] in IH. rewrite <- app_assoc in IH. cbn [app] in IH.
    rewrite <- app_assoc in IH. cbn [app]. apply IH. exact Hf2.
Qed.

Lemma scan_first f s c r a : scan (S f) s (c :: r) 0 0 a = scan f s r 1 0 a.
Proof. cbn [scan]. cbn [Nat.eqb negb]. rewrite andb_false_r. reflexivity. Qed.

Lemma parse_terms ts a' :
  Forall wf_term ts -> Forall (fun t => in_i64 (tval t) = true) ts ->
  acc_terms (mk_accs 0 0 0) ts = Some a' ->
  parse (render_terms ts) = finish a'.
Proof.
  intros Hw Hr Ha. destruct ts as [|t ts].
  - cbn in Ha. injection Ha as <-. reflexivity.
  - inversion Hw as [|? ? Hwt _]; subst.
    destruct (render_terms_head _ ts Hwt) as [c1 [more [E _]]].
    unfold parse. pose proof (fun fuel => scan_terms ts t [] _ _ fuel Hw Hr Ha) as H. cbn [app length] in H.
    rewrite E in *. cbn [tl] in H. rewrite scan_first. apply H. cbn [length]. lia.
Qed.

(* ------------------------------------------------------------------ *)
(* from the declarative range conditions to the accumulator run *)

Lemma in_i64_iff z : in_i64 z = true <-> i64_min <= z <= i64_max.
Proof. unfold in_i64. rewrite andb_true_iff, !Z.leb_le. tauto. Qed.
Lemma in_i32_iff z : in_i32 z = true <-> i32_min <= z <= i32_max.
Proof. unfold in_i32. rewrite andb_true_iff, !Z.leb_le. tauto. Qed.

Lemma add_i64_ok acc n k : in_i64 (n * k) = true -> in_i64 (n * k + acc) = true ->
  add_i64 acc n k = Some (acc + n * k).
Proof. intros H1 H2. unfold add_i64. rewrite H1, H2. f_equal. lia. Qed.

Lemma add_i32_ok acc n k : in_i32 n = true -> in_i32 (n * k) = true -> in_i32 (n * k + acc) = true ->
  add_i32 acc n k = Some (acc + n * k).
Proof. intros H0 H1 H2. unfold add_i32. rewrite H0, H1, H2. f_equal. lia. Qed.

Definition acc_plus (a : accs) (t : term) : accs :=
  mk_accs (a_nsecs a + t_nsecs t) (a_secs a + t_secs t) (a_months a + t_months t).

Lemma apply_unit_term a t :
  term_in_range t ->
  in_i32 (a_months a + t_months t) = true -> in_i64 (a_secs a + t_secs t) = true ->
  in_i64 (a_nsecs a + t_nsecs t) = true ->
  apply_unit (t_unit t) (tval t) a = Some (acc_plus a t).
Proof.
  intros [Hv [Hs [Hn [Hm Hmo]]]] Am As An. unfold acc_plus.
  unfold t_months, t_secs, t_nsecs in *. destruct a as [an asx am]. cbn [a_nsecs a_secs a_months] in *.
  destruct (t_unit t); cbn [apply_unit unit_scale a_nsecs a_secs a_months];
    try (rewrite add_i64_ok; [cbn [option_map]; f_equal; f_equal; lia
                             | first [exact Hs | exact Hn | rewrite Z.mul_1_r; exact Hv]
                             | rewrite ?Z.mul_1_r, Z.add_comm; first [exact As | exact An]]);
    try (rewrite add_i32_ok; [cbn [option_map]; f_equal; f_equal; lia
                             | exact Hmo
                             | first [exact Hm | rewrite Z.mul_1_r; exact Hm]
                             | rewrite ?Z.mul_1_r, Z.add_comm; exact Am]).
Qed.

Lemma acc_terms_ok : forall ts a,
  Forall term_in_range ts ->
  (forall k, (k <= length ts)%nat ->
     in_i32 (a_months a + sumf t_months (firstn k ts)) = true /\
     in_i64 (a_secs a + sumf t_secs (firstn k ts)) = true /\
     in_i64 (a_nsecs a + sumf t_nsecs (firstn k ts)) = true) ->
  acc_terms a ts = Some (mk_accs (a_nsecs a + sumf t_nsecs ts) (a_secs a + sumf t_secs ts)
                                 (a_months a + sumf t_months ts)).
Proof.
  induction ts as [|t ts IH]; intros a Hr Hp.
  - cbn [acc_terms sumf fold_right]. rewrite !Z.add_0_r. destruct a; reflexivity.
  - inversion Hr as [|? ? Ht Hr']; subst. cbn [acc_terms].
    destruct (Hp 1%nat) as [P1 [P2 P3]]; [cbn [length]; lia|].
    cbn [firstn sumf fold_right] in P1, P2, P3. rewrite !Z.add_0_r in P1, P2, P3.
    rewrite (apply_unit_term a t Ht P1 P2 P3).
    rewrite IH; [|exact Hr'|].
    + unfold acc_plus, sumf. cbn [a_nsecs a_secs a_months fold_right]. f_equal. f_equal; lia.
    + intros k Hk. destruct (Hp (S k)) as [Q1 [Q2 Q3]]; [cbn [length]; lia|].
      cbn [firstn sumf fold_right] in Q1, Q2, Q3. unfold acc_plus. cbn [a_nsecs a_secs a_months].
      rewrite <- !Z.add_assoc. auto.
Qed.

Lemma duration_new_ok s n :
  0 <= n < giga ->
  cr_min_secs * giga + cr_min_nanos <= s * giga + n <= cr_max_secs * giga + cr_max_nanos ->
  duration_new s n = Some (s, n).
Proof.
  unfold duration_new, giga, cr_min_secs, cr_max_secs, cr_min_nanos, cr_max_nanos. intros Hn Hr.
  destruct (Z.ltb_spec s (-9223372036854776)); [lia|].
  destruct (Z.gtb_spec s 9223372036854775); [lia|].
  destruct (Z.geb_spec n 1000000000); [lia|].
  destruct (Z.eqb_spec s 9223372036854775); destruct (Z.gtb_spec n 807000000);
    destruct (Z.eqb_spec s (-9223372036854776)); destruct (Z.ltb_spec n 193000000); cbn; try reflexivity; lia.
Qed.

Lemma finish_ok N S M :
  - cr_max_secs <= S <= cr_max_secs ->
  - (i64_max * 1000000) <= S * giga + N <= i64_max * 1000000 ->
  finish (mk_accs N S M) = POk M (S * giga + N).
Proof.
  intros HS HT. unfold finish. cbn [a_nsecs a_secs a_months].
  rewrite (duration_new_ok S 0);
    [|unfold giga; lia
     |unfold giga, cr_min_secs, cr_max_secs, cr_min_nanos, cr_max_nanos in *; lia].
  pose proof (Z.div_mod N giga ltac:(unfold giga; lia)) as HD.
  pose proof (Z.mod_pos_bound N giga ltac:(unfold giga; lia)) as HB.
  cbn [Z.add]. replace (0 + N mod giga) with (N mod giga) by lia.
  destruct (Z.geb_spec (N mod giga) giga); [lia|].
  rewrite duration_new_ok; [f_equal; lia|exact HB|].
  unfold giga, cr_min_secs, cr_max_secs, cr_min_nanos, cr_max_nanos, i64_max in *. lia.
Qed.

Lemma wellformed_sum ts :
  Forall wf_term ts -> Forall term_in_range ts -> partial_sums_in_range ts -> total_in_range ts ->
  parse (render_terms ts) = POk (sumf t_months ts) (fixed_ns ts).
Proof.
  intros Hw Hr Hp [HS HT].
  assert (Hv : Forall (fun t => in_i64 (tval t) = true) ts).
  { eapply Forall_impl; [|exact Hr]. intros t [H _]. exact H. }
  assert (Ha : acc_terms (mk_accs 0 0 0) ts = Some (mk_accs (sumf t_nsecs ts) (sumf t_secs ts) (sumf t_months ts))).
  { rewrite acc_terms_ok; [cbn [a_nsecs a_secs a_months]; rewrite !Z.add_0_l; reflexivity|exact Hr|].
    intros k Hk. cbn [a_nsecs a_secs a_months]. rewrite !Z.add_0_l. apply Hp. exact Hk. }
  rewrite (parse_terms ts _ Hw Hv Ha). apply finish_ok; assumption.
Qed.
