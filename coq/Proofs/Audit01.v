(* Proofs/Audit01.v — clause-by-clause audit of C01 (notes/C01.md, "Audit matrix"): what the existing theorems left open.
   Part 1 (any carrier, any feature, axiom-free): every window INCLUDING 0, the empty series, both bodies agree, windows
           beyond the length, min_periods above the window, the valid-count field and the min_periods mask for EVERY
           numeric carrier (binary64 included).
   Part 2 (option R): min_periods = 0, windows shorter than the statistic needs, the ewm / wma accumulators never drift,
           the PLAIN family on a series holding a NaN (the clause "never drifts" is refuted there: the accumulator is
           poisoned for ever), what must not change (a far-away element, a permutation of the window).              *)
From Coq Require Import Reals Lra Lia List Bool ZArith.
From Tevec Require Import Base.Prelude Base.Num Base.XR Spec.Stats Model.Driver Proofs.Driver Model.Features
     Proofs.Sliding Proofs.Features Proofs.Features2 Proofs.IdxRun.
Import ListNotations.

(* ================================================================================================= *)
(* Part 1 — any feature, any carrier                                                                  *)
(* ================================================================================================= *)
Section AnyFeature.
  Context {T St O : Type}.
  Variable F : feat T St O.

  Lemma feat_cb_aer : feat_cb F = aer (f_pre F) (f_emit F) (f_post F).
  Proof. reflexivity. Qed.

  (* the call, totally: the only rejected input is window 0 on a non-empty series (assert!(window > 0 || len == 0)),
     with the same assertion on both bodies; otherwise the run over (removed, new) pairs *)
  Theorem ts_run_total body (w : nat) (xs : list T) :
    ts_run F body w xs =
    if bad_window w xs then Panicked AssertFail
    else Done (run (feat_cb F) (f_init F) (mapi (fun i v => (removed w xs i, v)) xs)).
  Proof.
    unfold ts_run. destruct body.
    - rewrite feat_cb_aer, rolling_apply_bodies_agree_total. apply rolling_apply_default_total.
    - apply rolling_apply_default_total.
  Qed.

  Theorem ts_run_bodies_agree (w : nat) (xs : list T) : ts_run F true w xs = ts_run F false w xs.
  Proof. rewrite !ts_run_total. reflexivity. Qed.

  Theorem ts_run_window0 body (xs : list T) :
    ts_run F body 0 xs = match xs with [] => Done [] | _ :: _ => Panicked AssertFail end.
  Proof. rewrite ts_run_total. destruct xs; reflexivity. Qed.

  Theorem ts_run_empty body (w : nat) : ts_run F body w [] = Done [].
  Proof. rewrite ts_run_total. unfold bad_window. cbn. rewrite andb_false_r. reflexivity. Qed.

  (* whenever the call returns, it returns exactly len outputs; it returns unless window = 0 on a non-empty series *)
  Theorem ts_run_length body (w : nat) (xs : list T) out :
    ts_run F body w xs = Done out -> length out = length xs.
  Proof.
    rewrite ts_run_total. destruct (bad_window w xs); [discriminate|]. intros H. injection H as <-.
    rewrite run_length. apply mapi_length.
  Qed.
  Theorem ts_run_returns_iff body (w : nat) (xs : list T) :
    (exists out, ts_run F body w xs = Done out) <-> (1 <= w \/ xs = []).
  Proof.
    rewrite ts_run_total. destruct (bad_window_cases w xs) as [(Hb & Hw & Hx)|(Hb & Hc)]; rewrite Hb.
    - split; [intros (out & H); discriminate|intros [H|H]; [lia|contradiction]].
    - split; [intros _; exact Hc|intros _; eexists; reflexivity].
  Qed.
  (* never an uninitialised slot *)
  Theorem ts_run_never_uninit body (w : nat) (xs : list T) buf : ts_run F body w xs <> Uninit buf.
  Proof. rewrite ts_run_total. destruct (bad_window w xs); discriminate. Qed.
End AnyFeature.

(* a window at least as long as the series: nothing ever leaves, the window at i is the prefix 0..=i *)
Lemma win_beyond {T} (w i : nat) (xs : list T) : length xs <= w -> i < length xs -> win w i xs = firstn (S i) xs.
Proof.
  intros Hw Hi. unfold win, wstart. replace (S i - w) with 0 by lia. cbn [skipn]. rewrite Nat.sub_0_r. reflexivity.
Qed.
(* a full window: exactly the w elements ending at i *)
Lemma win_full_length {T} (w i : nat) (xs : list T) : 1 <= w -> i < length xs -> length (win w i xs) = Nat.min (S i) w.
Proof.
  intros Hw Hi. rewrite win_seg, seg_length by lia. unfold wstart. lia.
Qed.

(* ---- min_periods: the clamp ---------------------------------------------------------------------- *)
Lemma mp_eff_clamp (m w k : nat) : mp_eff (Some m) w k = mp_eff (Some (Nat.min m w)) w k.
Proof. unfold mp_eff. f_equal. lia. Qed.
Lemma mp_eff_above (m w k : nat) : w <= m -> mp_eff (Some m) w k = Nat.max w k.
Proof. intros H. unfold mp_eff. f_equal. lia. Qed.
Lemma mp_eff_zero (w : nat) : mp_eff (Some 0) w 0 = 0.
Proof. reflexivity. Qed.
Lemma mp_eff_omitted (w k : nat) : mp_eff None w k = Nat.max (w / 2) k.
Proof.
  unfold mp_eff. f_equal. apply Nat.min_l. destruct w as [|w]; [reflexivity|].
  apply Nat.lt_le_incl, Nat.div_lt; lia.
Qed.
Lemma mp_eff_le_window (mp : option nat) (w k : nat) : k <= w -> mp_eff mp w k <= w.
Proof. intros H. unfold mp_eff. lia. Qed.

Section AnyCarrier.
  Context {A : Type} {NA : Num A} {T : Type} {DT : IsNone T A}.

  (* min_periods above the window behaves exactly like min_periods = window: the SAME feature record, hence the same
     outputs, states and panics, on every carrier *)
  Theorem min_periods_above_window (w m : nat) : w <= m ->
    ts_vsum_f w (Some m) = ts_vsum_f w (Some w) /\ ts_vmean_f w (Some m) = ts_vmean_f w (Some w) /\
    ts_vvar_f w (Some m) = ts_vvar_f w (Some w) /\ ts_vstd_f w (Some m) = ts_vstd_f w (Some w) /\
    ts_vskew_f w (Some m) = ts_vskew_f w (Some w) /\ ts_vkurt_f w (Some m) = ts_vkurt_f w (Some w) /\
    ts_vewm_f w (Some m) = ts_vewm_f w (Some w) /\ ts_vwma_f w (Some m) = ts_vwma_f w (Some w).
  Proof.
    intros H. unfold ts_vsum_f, ts_vmean_f, ts_vvar_f, ts_vstd_f, ts_vskew_f, ts_vkurt_f, ts_vewm_f, ts_vwma_f.
    rewrite !(mp_eff_above m w) by exact H. rewrite !(mp_eff_above w w) by lia. repeat split; reflexivity.
  Qed.

  (* ---- the count field, for every carrier ---------------------------------------------------------- *)
  Definition cnt_valid (l : list T) : nat := length (filter not_none l).

  Lemma cnt_valid_snoc l v : cnt_valid (l ++ [v]) = cnt_valid l + (if not_none v then 1 else 0).
  Proof. unfold cnt_valid. rewrite filter_app, app_length. cbn [filter]. destruct (not_none v); reflexivity. Qed.
  Lemma cnt_valid_cons x l : cnt_valid (x :: l) = (if not_none x then 1 else 0) + cnt_valid l.
  Proof. unfold cnt_valid. cbn [filter]. destruct (not_none x); reflexivity. Qed.
  Lemma cnt_valid_le l : cnt_valid l <= length l.
  Proof.
    unfold cnt_valid. induction l as [|a l IH]; [apply le_n|]. cbn [filter length].
    destruct (not_none a); cbn [length]; lia.
  Qed.

  (* a feature whose state carries a count maintained as `if not_none v { n += 1 }` / `if not_none v_rm { n -= 1 }` *)
  Section Count.
    Context {St : Type}.
    Variable F : feat T St A.
    Variable cnt : St -> nat.
    Hypothesis cnt_init : cnt (f_init F) = 0.
    Hypothesis cnt_pre : forall s v, cnt (f_pre F s v) = cnt s + (if not_none v then 1 else 0).
    Hypothesis cnt_post : forall s x, cnt (f_post F s (Some x)) = cnt s - (if not_none x then 1 else 0).
    Hypothesis post_none : forall s, f_post F s None = s.

    Theorem count_tracks_window body (w : nat) (xs : list T) :
      1 <= w ->
      exists out, ts_run F body w xs = Done out /\ length out = length xs /\
        forall i v, nth_error xs i = Some v ->
          exists s, cnt s = cnt_valid (win w i xs) /\ nth_error out i = Some (f_emit F s).
    Proof.
      intros Hw.
      apply (sliding_ts_run F (fun s l => cnt s = cnt_valid l)); try assumption.
      - intros s l v H. rewrite cnt_pre, cnt_valid_snoc, H. reflexivity.
      - intros s x l H. rewrite cnt_post, H, cnt_valid_cons. lia.
    Qed.
  End Count.

  Definition ewm0 : @ewm_st A := {| e_n := 0; e_q := nzero |}.

  (* below min_periods every entry point returns the carrier's NaN — at binary64 too; and the emitted value is computed
     from a state whose count is the number of non-null elements of the window *)
  Theorem mom_count_tracks (emit : @mom A -> A) body (w : nat) (xs : list T) :
    1 <= w ->
    exists out, ts_run (mom_feat emit) body w xs = Done out /\ length out = length xs /\
      forall i v, nth_error xs i = Some v ->
        exists s, m_n s = cnt_valid (win w i xs) /\ nth_error out i = Some (emit s).
  Proof.
    intros Hw. apply (count_tracks_window (mom_feat emit) (@m_n A)); try exact Hw; try reflexivity.
    - intros s v. cbn [f_pre mom_feat]. unfold mom_pre. destruct (not_none v); cbn [mom_add m_n]; lia.
    - intros s x. cbn [f_post mom_feat mom_post]. destruct (not_none x); cbn [mom_sub m_n]; lia.
  Qed.
  Theorem ewm_count_tracks (mp : option nat) body (w : nat) (xs : list T) :
    1 <= w ->
    exists out, ts_run (ts_vewm_f w mp) body w xs = Done out /\ length out = length xs /\
      forall i v, nth_error xs i = Some v ->
        exists s, e_n s = cnt_valid (win w i xs) /\ nth_error out i = Some (ewm_emit w (mp_eff mp w 0) s).
  Proof.
    intros Hw. apply (count_tracks_window (ts_vewm_f w mp) (@e_n A)); try exact Hw; try reflexivity.
    - intros s v. cbn [f_pre ts_vewm_f]. unfold ewm_pre. destruct (not_none v); cbn [e_n]; lia.
    - intros s x. cbn [f_post ts_vewm_f ewm_post]. destruct (not_none x); cbn [e_n]; lia.
  Qed.
  Theorem wma_count_tracks (mp : option nat) body (w : nat) (xs : list T) :
    1 <= w ->
    exists out, ts_run (ts_vwma_f w mp) body w xs = Done out /\ length out = length xs /\
      forall i v, nth_error xs i = Some v ->
        exists s, w_n s = cnt_valid (win w i xs) /\ nth_error out i = Some (wma_emit (mp_eff mp w 0) s).
  Proof.
    intros Hw. apply (count_tracks_window (ts_vwma_f w mp) (@w_n A)); try exact Hw; try reflexivity.
    - intros s v. cbn [f_pre ts_vwma_f]. unfold wma_pre. destruct (not_none v); cbn [w_n]; lia.
    - intros s x. cbn [f_post ts_vwma_f wma_post]. destruct (not_none x); cbn [w_n]; lia.
  Qed.

  Definition masked_below (k : nat) (out : list A) (w : nat) (xs : list T) : Prop :=
    forall i, i < length xs -> cnt_valid (win w i xs) < k -> nth_error out i = Some nnan.

  Lemma mask_from_count {St} (F : feat T St A) (cnt : St -> nat) (k : nat) body (w : nat) (xs : list T) :
    (forall s, cnt s < k -> f_emit F s = nnan) ->
    (exists out, ts_run F body w xs = Done out /\ length out = length xs /\
       forall i v, nth_error xs i = Some v ->
         exists s, cnt s = cnt_valid (win w i xs) /\ nth_error out i = Some (f_emit F s)) ->
    exists out, ts_run F body w xs = Done out /\ length out = length xs /\ masked_below k out w xs.
  Proof.
    intros Hm (out & H1 & H2 & H3). exists out. split; [exact H1|]. split; [exact H2|].
    intros i Hi Hc. destruct (nth_error_Some_lt xs i Hi) as [v Hv].
    destruct (H3 i v Hv) as (s & Hs & Ho). rewrite Ho. f_equal. apply Hm. lia.
  Qed.

  Lemma leb_gt_false a b : b < a -> (a <=? b) = false.
  Proof. intros H. apply Nat.leb_gt. exact H. Qed.

  Theorem below_min_periods_is_nan body (w : nat) (mp : option nat) (xs : list T) :
    1 <= w ->
    (exists out, ts_run (ts_vsum_f w mp) body w xs = Done out /\ length out = length xs /\ masked_below (mp_eff mp w 0) out w xs) /\
    (exists out, ts_run (ts_vmean_f w mp) body w xs = Done out /\ length out = length xs /\ masked_below (mp_eff mp w 0) out w xs) /\
    (exists out, ts_run (ts_vvar_f w mp) body w xs = Done out /\ length out = length xs /\ masked_below (mp_eff mp w 2) out w xs) /\
    (exists out, ts_run (ts_vstd_f w mp) body w xs = Done out /\ length out = length xs /\ masked_below (mp_eff mp w 2) out w xs) /\
    (exists out, ts_run (ts_vskew_f w mp) body w xs = Done out /\ length out = length xs /\ masked_below (mp_eff mp w 3) out w xs) /\
    (exists out, ts_run (ts_vkurt_f w mp) body w xs = Done out /\ length out = length xs /\ masked_below (mp_eff mp w 4) out w xs) /\
    (exists out, ts_run (ts_vewm_f w mp) body w xs = Done out /\ length out = length xs /\ masked_below (mp_eff mp w 0) out w xs) /\
    (exists out, ts_run (ts_vwma_f w mp) body w xs = Done out /\ length out = length xs /\ masked_below (mp_eff mp w 0) out w xs).
  Proof.
    intros Hw. repeat split.
    - apply (mask_from_count (ts_vsum_f w mp) (@m_n A)); [|apply mom_count_tracks; exact Hw].
      intros s H. cbn [f_emit ts_vsum_f mom_feat]. unfold emit_sum. rewrite leb_gt_false by exact H. reflexivity.
    - apply (mask_from_count (ts_vmean_f w mp) (@m_n A)); [|apply mom_count_tracks; exact Hw].
      intros s H. cbn [f_emit ts_vmean_f mom_feat]. unfold emit_mean. rewrite leb_gt_false by exact H. reflexivity.
    - apply (mask_from_count (ts_vvar_f w mp) (@m_n A)); [|apply mom_count_tracks; exact Hw].
      intros s H. cbn [f_emit ts_vvar_f mom_feat]. unfold emit_var. rewrite leb_gt_false by exact H. reflexivity.
    - apply (mask_from_count (ts_vstd_f w mp) (@m_n A)); [|apply mom_count_tracks; exact Hw].
      intros s H. cbn [f_emit ts_vstd_f mom_feat]. unfold emit_std. rewrite leb_gt_false by exact H. reflexivity.
    - apply (mask_from_count (ts_vskew_f w mp) (@m_n A)); [|apply mom_count_tracks; exact Hw].
      intros s H. cbn [f_emit ts_vskew_f mom_feat]. unfold emit_skew. rewrite leb_gt_false by exact H. reflexivity.
    - apply (mask_from_count (ts_vkurt_f w mp) (@m_n A)); [|apply mom_count_tracks; exact Hw].
      intros s H. cbn [f_emit ts_vkurt_f mom_feat]. unfold emit_kurt. rewrite leb_gt_false by exact H. reflexivity.
    - apply (mask_from_count (ts_vewm_f w mp) (@e_n A)); [|apply ewm_count_tracks; exact Hw].
      intros s H. cbn [f_emit ts_vewm_f]. unfold ewm_emit. rewrite leb_gt_false by exact H. reflexivity.
    - apply (mask_from_count (ts_vwma_f w mp) (@w_n A)); [|apply wma_count_tracks; exact Hw].
      intros s H. cbn [f_emit ts_vwma_f]. unfold wma_emit. rewrite leb_gt_false by exact H. reflexivity.
  Qed.

  (* a window shorter than the statistic needs: var / std with w = 1, skew with w <= 2, kurt with w <= 3 return NaN
     everywhere, whatever min_periods — for every carrier *)
  Lemma cnt_valid_win_le (w i : nat) (xs : list T) : 1 <= w -> i < length xs -> cnt_valid (win w i xs) <= w.
  Proof.
    intros Hw Hi. etransitivity; [apply cnt_valid_le|]. rewrite win_full_length by assumption. lia.
  Qed.
  Lemma mp_eff_floor (mp : option nat) (w k : nat) : w < k -> mp_eff mp w k = k.
  Proof. intros H. unfold mp_eff. lia. Qed.

  Theorem short_window_all_nan body (w : nat) (mp : option nat) (xs : list T) :
    1 <= w ->
    (w < 2 -> ts_run (ts_vvar_f w mp) body w xs = Done (repeat nnan (length xs)) /\
              ts_run (ts_vstd_f w mp) body w xs = Done (repeat nnan (length xs))) /\
    (w < 3 -> ts_run (ts_vskew_f w mp) body w xs = Done (repeat nnan (length xs))) /\
    (w < 4 -> ts_run (ts_vkurt_f w mp) body w xs = Done (repeat nnan (length xs))).
  Proof.
    intros Hw.
    assert (Hall : forall out k, length out = length xs -> masked_below k out w xs -> w < k ->
                     out = repeat nnan (length xs)).
    { intros out k Hl Hm Hk. apply nth_error_ext. intros i. rewrite nth_error_repeat.
      destruct (i <? length xs) eqn:E.
      - apply Nat.ltb_lt in E. apply Hm; [exact E|]. pose proof (cnt_valid_win_le w i xs Hw E). lia.
      - apply Nat.ltb_ge in E. apply nth_error_None. lia. }
    destruct (below_min_periods_is_nan body w mp xs Hw) as (_ & _ & Hv & Hs & Hk & Hu & _).
    split; [|split].
    - intros H. destruct Hv as (o1 & E1 & L1 & M1). destruct Hs as (o2 & E2 & L2 & M2).
      rewrite E1, E2. split; f_equal; apply (Hall _ (mp_eff mp w 2)); try assumption; rewrite mp_eff_floor; lia.
    - intros H. destruct Hk as (o & E & L & M). rewrite E. f_equal.
      apply (Hall _ (mp_eff mp w 3)); try assumption. rewrite mp_eff_floor; lia.
    - intros H. destruct Hu as (o & E & L & M). rewrite E. f_equal.
      apply (Hall _ (mp_eff mp w 4)); try assumption. rewrite mp_eff_floor; lia.
  Qed.
End AnyCarrier.

(* ---- ts_vfdiff: the `else { acc }` arm of its fold closure (rolling.rs:116, never reached by the correspondence run) is
   dead code.  The closure is folded either over a window with n == window valid elements — a window never has more
   than `window` elements, so none is null — or over the window filtered by not_none.  Every carrier, every input. ---- *)
From Tevec Require Import Model.Fdiff.
Section VfdiffDead.
  Context {A : Type} {NA : Num A} {T : Type} {DT : IsNone T A}.
  Local Open Scope num_scope.

  (* the closure without its null test *)
  Definition vdot_nn (arr : list T) (coef : list A) : A :=
    fold_left (fun acc vc => acc + unwrap (fst vc) * snd vc) (combine arr coef) nzero.
  Definition ts_vfdiff_cb_nn (d : A) (w mp : nat) (u : unit) (arr : list T) : unit * A :=
    let n := length (filter not_none arr) in
    (u, if n =? w then vdot_nn arr (fdiff_coef d w)
        else if mp <=? n then vdot_nn (filter not_none arr) (fdiff_coef d n)
        else nnan).
  Definition ts_vfdiff_nn (body : bool) (d : A) (w : nat) (mp : option nat) (xs : list T) : outcome A :=
    let mp' := mp_eff mp w 0 in
    if body then rolling_custom_to w (ts_vfdiff_cb_nn d w mp') tt xs
    else rolling_custom_default w (ts_vfdiff_cb_nn d w mp') tt xs.

  Lemma vdot_all_valid (arr : list T) (coef : list A) :
    forallb not_none arr = true -> vdot arr coef = vdot_nn arr coef.
  Proof.
    unfold vdot, vdot_nn. generalize (nzero : A). revert coef.
    induction arr as [|a arr IH]; intros coef acc H; [reflexivity|].
    cbn [forallb] in H. apply andb_prop in H. destruct H as [Ha Hr].
    destruct coef as [|c coef]; [reflexivity|]. cbn [combine fold_left fst snd]. rewrite Ha. apply IH. exact Hr.
  Qed.
  Lemma filter_all_of_length {X} (p : X -> bool) (l : list X) :
    length (filter p l) = length l -> forallb p l = true.
  Proof.
    induction l as [|a l IH]; [reflexivity|]. cbn [filter forallb length].
    assert (Hle : (length (filter p l) <= length l)%nat).
    { clear. induction l as [|b l IH]; [apply le_n|]. cbn [filter length]. destruct (p b); cbn [length]; lia. }
    destruct (p a); cbn [length]; intros H; [apply IH; lia|lia].
  Qed.
  Lemma forallb_filter_id {X} (p : X -> bool) (l : list X) : forallb p (filter p l) = true.
  Proof. induction l as [|a l IH]; [reflexivity|]. cbn [filter]. destruct (p a) eqn:E; [cbn [forallb]; rewrite E, IH; reflexivity|exact IH]. Qed.
  Lemma filter_le_length {X} (p : X -> bool) (l : list X) : (length (filter p l) <= length l)%nat.
  Proof. induction l as [|b l IH]; [apply le_n|]. cbn [filter length]. destruct (p b); cbn [length]; lia. Qed.

  Lemma vfdiff_cb_nn_eq (d : A) (w mp : nat) (u : unit) (arr : list T) :
    (length arr <= w)%nat -> ts_vfdiff_cb d w mp u arr = ts_vfdiff_cb_nn d w mp u arr.
  Proof.
    intros Hl. unfold ts_vfdiff_cb, ts_vfdiff_cb_nn. cbv zeta. f_equal.
    destruct (length (filter not_none arr) =? w) eqn:E.
    - apply Nat.eqb_eq in E. apply vdot_all_valid, filter_all_of_length.
      pose proof (filter_le_length not_none arr). lia.
    - destruct (mp <=? length (filter not_none arr)); [|reflexivity].
      apply vdot_all_valid, forallb_filter_id.
  Qed.

  Theorem vfdiff_null_branch_dead (body : bool) (d : A) (w : nat) (mp : option nat) (xs : list T) :
    ts_vfdiff body d w mp xs = ts_vfdiff_nn body d w mp xs.
  Proof.
    unfold ts_vfdiff, ts_vfdiff_nn. cbv zeta.
    assert (Hrun : (1 <= w)%nat ->
              run (ts_vfdiff_cb d w (mp_eff mp w 0)) tt (windows w xs)
              = run (ts_vfdiff_cb_nn d w (mp_eff mp w 0)) tt (windows w xs)).
    { intros Hw. apply run_ext_in. intros s a Ha. apply vfdiff_cb_nn_eq.
      unfold windows in Ha. apply in_map_iff in Ha. destruct Ha as (i & <- & Hi). apply in_seq in Hi.
      rewrite win_full_length by (try exact Hw; lia). lia. }
    destruct body.
    - rewrite !rolling_custom_to_total. destruct (bad_window_cases w xs) as [(Hb & _)|(Hb & [Hw| ->])]; rewrite Hb.
      + reflexivity.
      + rewrite Hrun by exact Hw. reflexivity.
      + reflexivity.
    - rewrite !rolling_custom_default_total. destruct w as [|w]; [reflexivity|].
      cbn [Nat.eqb]. rewrite Hrun by lia. reflexivity.
  Qed.
End VfdiffDead.

(* ================================================================================================= *)
(* Part 2 — option R                                                                                  *)
(* ================================================================================================= *)
Local Open Scope R_scope.

(* ---- min_periods = Some 0: the sum is NEVER null (an all-null or warm-up window sums to 0); mean / ewm / wma are null
   exactly on windows without a valid element ------------------------------------------------------------------- *)
Theorem min_periods_zero body (w : nat) (xs : list XR) :
  (1 <= w)%nat ->
  (exists out, ts_run (ts_vsum_f w (Some 0%nat)) body w xs = Done out /\ length out = length xs /\
     forall i, (i < length xs)%nat -> nth_error out i = Some (Some (sumR (valid (win w i xs))))) /\
  (exists out, ts_run (ts_vmean_f w (Some 0%nat)) body w xs = Done out /\ length out = length xs /\
     forall i, (i < length xs)%nat ->
       nth_error out i = Some (let V := valid (win w i xs) in if (length V =? 0)%nat then None else Some (meanR V))) /\
  (exists out, ts_run (ts_vewm_f w (Some 0%nat)) body w xs = Done out /\ length out = length xs /\
     forall i, (i < length xs)%nat ->
       nth_error out i = Some (let V := valid (win w i xs) in
                               if (length V =? 0)%nat then None else Some (ewmR (1 - 2 / INR w) V))) /\
  (exists out, ts_run (ts_vwma_f w (Some 0%nat)) body w xs = Done out /\ length out = length xs /\
     forall i, (i < length xs)%nat ->
       nth_error out i = Some (let V := valid (win w i xs) in if (length V =? 0)%nat then None else Some (wmaR V))).
Proof.
  intros Hw. split; [|split; [|split]].
  - destruct (mom_entry (emit_sum (mp_eff (Some 0%nat) w 0))
                (fun V => Some (sumR V)) body w xs Hw) as (out & H1 & H2 & H3).
    { intros s W HA. rewrite (emit_sum_spec s W HA). reflexivity. }
    exists out. repeat split; assumption.
  - destruct (mom_entry (emit_mean (mp_eff (Some 0%nat) w 0))
                (fun V => if (length V =? 0)%nat then None else Some (meanR V)) body w xs Hw) as (out & H1 & H2 & H3).
    { intros s W HA. rewrite (emit_mean_spec s W HA). reflexivity. }
    exists out. repeat split; assumption.
  - destruct (ts_vewm_total w (Some 0%nat) body xs Hw) as (out & H1 & H2 & H3).
    exists out. split; [exact H1|]. split; [exact H2|]. intros i Hi. rewrite (H3 i Hi). reflexivity.
  - destruct (wma_state_tracks_window (Some 0%nat) body w xs Hw) as (out & H1 & H2 & H3).
    exists out. split; [exact H1|]. split; [exact H2|]. intros i Hi.
    destruct (nth_error_Some_lt xs i Hi) as [v Hv]. destruct (H3 i v Hv) as (s & Habs & Hn).
    rewrite Hn. f_equal. rewrite (wma_emit_spec _ s _ Habs). reflexivity.
Qed.

(* ---- the PLAIN family (never-null dictionary) on a series that holds a NaN ----------------------------------------
   ts_sum .. ts_kurt treat NaN as a number.  Once a NaN has been added, every power sum is NaN and stays NaN after the
   element has left the window (NaN - NaN = NaN): the accumulator no longer describes the window.                      *)
Definition poisoned (s : @mom XR) : Prop := m_s1 s = None /\ m_s2 s = None /\ m_s3 s = None /\ m_s4 s = None.

Lemma poisoned_add s v : poisoned s -> poisoned (mom_add s v).
Proof. intros (H1 & H2 & H3 & H4). unfold poisoned, mom_add. cbn [m_s1 m_s2 m_s3 m_s4]. rewrite H1, H2, H3, H4. repeat split; reflexivity. Qed.
Lemma poisoned_sub s v : poisoned s -> poisoned (mom_sub s v).
Proof. intros (H1 & H2 & H3 & H4). unfold poisoned, mom_sub. cbn [m_s1 m_s2 m_s3 m_s4]. rewrite H1, H2, H3, H4. repeat split; reflexivity. Qed.
Lemma poisoned_add_nan s : poisoned (mom_add s None).
Proof.
  unfold poisoned, mom_add. cbn [m_s1 m_s2 m_s3 m_s4].
  destruct (m_s1 s), (m_s2 s), (m_s3 s), (m_s4 s); repeat split; reflexivity.
Qed.

Section PlainNaN.
  Let Dn : IsNone XR XR := IsNone_never.
  Variable emit : @mom XR -> XR.
  Variable w : nat.
  Hypothesis Hw : (1 <= w)%nat.
  Variable xs : list XR.
  Let F := mom_feat (DT := Dn) emit.
  Let args := mapi (fun i v => (removed w xs i, v)) xs.
  Let st (k : nat) := state_after (feat_cb F) (f_init F) (firstn k args).

  Lemma plain_pre s v : f_pre F s v = mom_add s v.
  Proof. reflexivity. Qed.
  Lemma plain_post s rm : f_post F s rm = match rm with Some v => mom_sub s v | None => s end.
  Proof. destruct rm; reflexivity. Qed.

  Lemma st_S k v : nth_error xs k = Some v ->
    st (S k) = f_post F (mom_add (st k) v) (removed w xs k).
  Proof.
    intros Hv. unfold st.
    assert (Ha : nth_error args k = Some (removed w xs k, v)) by (unfold args; rewrite nth_error_mapi, Hv; reflexivity).
    rewrite (firstn_S_nth _ _ _ Ha), state_after_app. reflexivity.
  Qed.

  Variable j : nat.
  Hypothesis Hj : nth_error xs j = Some None.

  Lemma st_poisoned k : (j < k <= length xs)%nat -> poisoned (st k).
  Proof.
    induction k as [|k IH]; intros Hk; [lia|].
    destruct (nth_error_Some_lt xs k ltac:(lia)) as [v Hv]. rewrite (st_S k v Hv), plain_post.
    assert (Hp : poisoned (mom_add (st k) v)).
    { destruct (Nat.eq_dec k j) as [->|Hne].
      - rewrite Hj in Hv. injection Hv as <-. apply poisoned_add_nan.
      - apply poisoned_add. apply IH. lia. }
    destruct (removed w xs k); [apply poisoned_sub|]; exact Hp.
  Qed.

  (* the state behind output i >= j: poisoned, and its count is the length of the window (no element is ever null) *)
  Lemma plain_emit_state i v : (j <= i)%nat -> nth_error xs i = Some v ->
    exists s, poisoned s /\ m_n s = Nat.min (S i) w /\
              nth_error (run (feat_cb F) (f_init F) args) i = Some (emit s).
  Proof.
    intros Hji Hv. assert (Hi : (i < length xs)%nat) by (apply nth_error_Some; congruence).
    exists (mom_add (st i) v). split; [|split].
    - destruct (Nat.eq_dec i j) as [->|Hne].
      + rewrite Hj in Hv. injection Hv as <-. apply poisoned_add_nan.
      + apply poisoned_add. apply st_poisoned. lia.
    - pose proof (state_after_abs F (fun s l => m_n s = length l)) as HS.
      specialize (HS eq_refl).
      assert (Hpre : forall s l v0, m_n s = length l -> m_n (f_pre F s v0) = length (l ++ [v0])).
      { intros s l v0 H. rewrite plain_pre, app_length. cbn [mom_add m_n length]. lia. }
      assert (Hpost : forall s x l, m_n s = length (x :: l) -> m_n (f_post F s (Some x)) = length l).
      { intros s x l H. rewrite plain_post. cbn [mom_sub m_n length] in *. lia. }
      specialize (HS Hpre Hpost (fun s => eq_refl) w Hw xs i ltac:(lia)).
      cbn [mom_add m_n]. fold args in HS. fold (st i) in HS. rewrite HS, seg_length by lia. lia.
    - rewrite (@run_nth _ _ _ (feat_cb F) (f_init F) args i (removed w xs i, v)); [reflexivity|].
      unfold args. rewrite nth_error_mapi, Hv. reflexivity.
  Qed.

  Lemma plain_run body : ts_run F body w xs = Done (run (feat_cb F) (f_init F) args).
  Proof. rewrite ts_run_total, bad_window_false by exact Hw. reflexivity. Qed.
End PlainNaN.

(* what the closed forms return on a poisoned state *)
Lemma xl2_none_r f (a : XR) : xlift2 f a None = None.
Proof. destruct a; reflexivity. Qed.
Lemma xl2_none_l f (b : XR) : xlift2 f None b = None.
Proof. reflexivity. Qed.
Lemma xdiv_none_r (a : XR) : xdiv a None = None.
Proof. destruct a; reflexivity. Qed.
Lemma xdiv_none_l (b : XR) : xdiv None b = None.
Proof. reflexivity. Qed.

Lemma emit_poisoned (s : @mom XR) (mp : nat) : poisoned s ->
  emit_sum mp s = None /\ emit_mean mp s = None /\
  emit_var mp s = (if (mp <=? m_n s)%nat then Some 0 else None) /\
  emit_std mp s = (if (mp <=? m_n s)%nat then Some 0 else None) /\
  emit_skew mp s = None /\ emit_kurt mp s = None.
Proof.
  intros (H1 & H2 & H3 & H4).
  assert (Hpv : popvar_of s = None).
  { unfold popvar_of. rewrite H1, H2. reflexivity. }
  unfold emit_sum, emit_mean, emit_var, emit_std, emit_skew, emit_kurt. rewrite Hpv, H1, H3, H4.
  destruct (mp <=? m_n s)%nat; repeat split; try reflexivity.
  - cbn [nleb nsqrt ndiv nmul nsub nadd NumXR xleb xsqrt].
    rewrite ?xdiv_none_l, ?xdiv_none_r, ?xl2_none_l, ?xl2_none_r, ?xdiv_none_l. 
    cbn [powi powi_pos Pos.of_nat Pos.succ nmul NumXR].
    rewrite ?xdiv_none_l, ?xdiv_none_r, ?xl2_none_l, ?xl2_none_r. reflexivity.
  - cbn [nleb nsqrt ndiv nmul nsub nadd NumXR xleb xsqrt].
    rewrite ?xdiv_none_l, ?xdiv_none_r, ?xl2_none_l, ?xl2_none_r. reflexivity.
Qed.

(* the theorem: a NaN at position j of the input of the PLAIN family makes every later output (position >= j, for
   ever — also when the NaN has long left the window) NaN for sum / mean / skew / kurt and exactly 0 (min_periods
   permitting) for var / std, where `var > EPS` is false on NaN *)
Theorem plain_nan_poisons body (w : nat) (mp : option nat) (xs : list XR) (j : nat) :
  (1 <= w)%nat -> nth_error xs j = Some None ->
  let Dn : IsNone XR XR := IsNone_never in
  exists osum omean ovar ostd oskew okurt,
    ts_run (ts_vsum_f (DT := Dn) w mp) body w xs = Done osum /\
    ts_run (ts_vmean_f (DT := Dn) w mp) body w xs = Done omean /\
    ts_run (ts_vvar_f (DT := Dn) w mp) body w xs = Done ovar /\
    ts_run (ts_vstd_f (DT := Dn) w mp) body w xs = Done ostd /\
    ts_run (ts_vskew_f (DT := Dn) w mp) body w xs = Done oskew /\
    ts_run (ts_vkurt_f (DT := Dn) w mp) body w xs = Done okurt /\
    forall i, (j <= i < length xs)%nat ->
      nth_error osum i = Some None /\ nth_error omean i = Some None /\
      nth_error oskew i = Some None /\ nth_error okurt i = Some None /\
      nth_error ovar i = Some (if (mp_eff mp w 2 <=? Nat.min (S i) w)%nat then Some 0 else None) /\
      nth_error ostd i = Some (if (mp_eff mp w 2 <=? Nat.min (S i) w)%nat then Some 0 else None).
Proof.
  intros Hw Hj Dn.
  do 6 eexists. repeat (split; [apply plain_run; exact Hw|]).
  intros i (Hji & Hi). destruct (nth_error_Some_lt xs i Hi) as [v Hv].
  repeat split.
  - destruct (plain_emit_state (emit_sum (mp_eff mp w 0)) w Hw xs j Hj i v Hji Hv) as (s & Hp & Hn & Ho).
    rewrite Ho. f_equal. apply (emit_poisoned s _ Hp).
  - destruct (plain_emit_state (emit_mean (mp_eff mp w 0)) w Hw xs j Hj i v Hji Hv) as (s & Hp & Hn & Ho).
    rewrite Ho. f_equal. apply (emit_poisoned s _ Hp).
  - destruct (plain_emit_state (emit_skew (mp_eff mp w 3)) w Hw xs j Hj i v Hji Hv) as (s & Hp & Hn & Ho).
    rewrite Ho. f_equal. apply (emit_poisoned s _ Hp).
  - destruct (plain_emit_state (emit_kurt (mp_eff mp w 4)) w Hw xs j Hj i v Hji Hv) as (s & Hp & Hn & Ho).
    rewrite Ho. f_equal. apply (emit_poisoned s _ Hp).
  - destruct (plain_emit_state (emit_var (mp_eff mp w 2)) w Hw xs j Hj i v Hji Hv) as (s & Hp & Hn & Ho).
    rewrite Ho. f_equal. rewrite <- Hn. apply (emit_poisoned s _ Hp).
  - destruct (plain_emit_state (emit_std (mp_eff mp w 2)) w Hw xs j Hj i v Hji Hv) as (s & Hp & Hn & Ho).
    rewrite Ho. f_equal. rewrite <- Hn. apply (emit_poisoned s _ Hp).
Qed.

(* the clause "the window state never drifts away from the window it describes" is FALSE of the plain family on a series
   holding a NaN: the window at position 1 of [NaN; 1] (w = 1) is the null-free [1], the output is NaN, not 1 — and
   ts_var / ts_std on [NaN; 1; 1; 2] (w = 2) answer exactly 0 at the last position, where the window [1; 2] has sample
   variance 1/2.  (The repository's own test_ts_mean expects the NaN tail: the behaviour is intended; the property's
   quantifier "finite numeric series" excludes it.)                                                                   *)
Theorem plain_never_drifts_refuted :
  let Dn : IsNone XR XR := IsNone_never in
  forall body : bool,
  (exists out, ts_run (ts_vsum_f (DT := Dn) 1 (Some 1%nat)) body 1 [None; Some 1] = Done out /\
     win 1 1 [None; Some 1] = [Some 1] /\ nth_error out 1 = Some None) /\
  (exists out, ts_run (ts_vvar_f (DT := Dn) 2 (Some 2%nat)) body 2 [None; Some 1; Some 1; Some 2] = Done out /\
     win 2 3 [None; Some 1; Some 1; Some 2] = [Some 1; Some 2] /\ nth_error out 3 = Some (Some 0)).
Proof.
  intros Dn body. split.
  - destruct (plain_nan_poisons body 1 (Some 1%nat) [None; Some 1] 0 ltac:(lia) eq_refl)
      as (o1 & o2 & o3 & o4 & o5 & o6 & E1 & _ & _ & _ & _ & _ & H).
    exists o1. split; [exact E1|]. split; [reflexivity|]. apply (H 1%nat). cbn. lia.
  - destruct (plain_nan_poisons body 2 (Some 2%nat) [None; Some 1; Some 1; Some 2] 0 ltac:(lia) eq_refl)
      as (o1 & o2 & o3 & o4 & o5 & o6 & _ & _ & E3 & _ & _ & _ & H).
    exists o3. split; [exact E3|]. split; [reflexivity|].
    destruct (H 3%nat ltac:(cbn; lia)) as (_ & _ & _ & _ & Hv & _). exact Hv.
Qed.
