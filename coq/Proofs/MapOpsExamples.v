(* Proofs/MapOpsExamples.v — a computable, axiom-free instance of the f64 operations used by
   vpct_change (exact rationals with a null), so that the hypotheses of the C13 theorems are
   shown to be satisfiable and the Examples in Props/C13.v run.                                  *)
From Coq Require Import QArith.
From Tevec Require Import Base.Prelude Model.MapOps Spec.MapOps.
Set Implicit Arguments.

(* option Q: None plays NaN; division by zero is guarded by the caller, as in the Rust closure *)
Definition qlift2 (f : Q -> Q -> Q) (a b : option Q) : option Q :=
  match a, b with Some x, Some y => Some (Qred (f x y)) | _, _ => None end.

Definition qops : FOps (option Q) :=
  {| fnanv := None;
     fisnan := fun a => match a with Some _ => false | None => true end;
     fis0 := fun a => match a with Some x => Qeq_bool x 0 | None => false end;
     fdiv := qlift2 Qdiv;
     fsub := qlift2 Qminus;
     fone := Some 1%Q |}.

(* Option<i32> -> f64 *)
Definition cast_oz (o : option Z) : option Q := match o with Some z => Some (inject_Z z) | None => None end.
Definition d_oz : NullDict (option Z) Z := dict_opt (fun _ : Z => false).

Lemma cast_oz_null v : fisnan qops (cast_oz v) = is_none d_oz v.
Proof. destruct v; reflexivity. Qed.
Lemma qops_nan_null : fisnan qops (fnanv qops) = true.
Proof. reflexivity. Qed.

(* a float-like type with exact arithmetic: option Z, None plays NaN; subtraction propagates it *)
Definition d_fz : NullDict (option Z) (option Z) :=
  dict_float (fun o : option Z => match o with Some _ => false | None => true end) None.
Definition sub_fz (a b : option Z) : option Z :=
  match a, b with Some x, Some y => Some (x - y)%Z | _, _ => None end.
Lemma sub_fz_null a b :
  is_none d_fz a = true \/ is_none d_fz b = true -> is_none d_fz (sub_fz b a) = true.
Proof. destruct a, b; cbn; intros [H|H]; try discriminate; reflexivity. Qed.
