(* Proofs/Audit10.v — audit YB of property C10: hypotheses dropped (every window, every pair of lengths: the
   rejected inputs get the panic of the first failing check and NO access), the clamp `window.min(len)`, the
   missing write-once statements (two-series window-index body, lazy slice forms written through write_trust_iter,
   a caller buffer of any length), the one-series entry points for every window, the trusted-length (collected)
   forms of the lazy kernels and of the partition kernels, the exposed buffer of vrank and of the two-phase
   bodies, the exact panic condition of vpartition.  Axiom-free.                                              *)
From Coq Require Import ZArith Lia Permutation.
From Tevec Require Import Base.Prelude Base.Num Model.Driver Proofs.Driver Model.Kernels Proofs.Kernels
     Model.Create Proofs.Create Model.Collect Proofs.Collect Model.Features
     Model.SortCmp Proofs.SortCmp Model.Rank Model.Partition Model.KernelsMap Proofs.KernelsMap Proofs.KernelsMap2
     Proofs.Audit07.

(* ================================================================================================================= *)
(* (A) the clamp window.min(len): a window larger than the series behaves as window = len                             *)
(* ================================================================================================================= *)
Lemma min_min_r w len : Nat.min (Nat.min w len) len = Nat.min w len.
Proof. lia. Qed.

Lemma calls_to_clamp {T} w (xs : list T) : calls_to w xs = calls_to (Nat.min w (length xs)) xs.
Proof. unfold calls_to. rewrite min_min_r. reflexivity. Qed.
Lemma calls_to_idx_clamp {T} w (xs : list T) : calls_to_idx w xs = calls_to_idx (Nat.min w (length xs)) xs.
Proof. unfold calls_to_idx. rewrite min_min_r. reflexivity. Qed.
Lemma slices_to_clamp w len : slices_to w len = slices_to (Nat.min w len) len.
Proof. unfold slices_to. rewrite min_min_r. reflexivity. Qed.

Lemma bad_window_clamp {T} w (xs : list T) : bad_window (Nat.min w (length xs)) xs = bad_window w xs.
Proof.
  unfold bad_window. destruct xs as [|x xs]; [cbn; rewrite !Bool.andb_false_r; reflexivity|].
  destruct w; reflexivity.
Qed.

Lemma traces_clamp w len cb :
  trace_apply_to w len = trace_apply_to (Nat.min w len) len /\
  trace_apply2_to w len = trace_apply2_to (Nat.min w len) len /\
  trace_idx_to cb w len = trace_idx_to cb (Nat.min w len) len /\
  trace_idx2_to cb w len = trace_idx2_to cb (Nat.min w len) len /\
  trace_custom_to w len = trace_custom_to (Nat.min w len) len.
Proof.
  unfold trace_apply_to, trace_apply2_to, trace_idx_to, trace_idx2_to, trace_custom_to.
  rewrite (calls_to_clamp w (seq 0 len)), (calls_to_idx_clamp w (seq 0 len)), (slices_to_clamp w len), seq_length.
  repeat split.
Qed.

Section Clamp.
  Context {T St O : Type}.
  Lemma rolling_apply_to_clamp w (f : St -> option T * T -> St * O) s0 xs :
    rolling_apply_to w f s0 xs = rolling_apply_to (Nat.min w (length xs)) f s0 xs.
  Proof. unfold rolling_apply_to. rewrite bad_window_clamp, <- calls_to_clamp. reflexivity. Qed.
  Lemma rolling_apply_idx_to_clamp w (f : St -> option nat * nat * T -> St * O) s0 xs :
    rolling_apply_idx_to w f s0 xs = rolling_apply_idx_to (Nat.min w (length xs)) f s0 xs.
  Proof. unfold rolling_apply_idx_to. rewrite bad_window_clamp, <- calls_to_idx_clamp. reflexivity. Qed.
  Lemma rolling_custom_to_clamp w (f : St -> list T -> St * O) s0 xs :
    rolling_custom_to w f s0 xs = rolling_custom_to (Nat.min w (length xs)) f s0 xs.
  Proof. unfold rolling_custom_to. rewrite bad_window_clamp, <- slices_to_clamp. reflexivity. Qed.
End Clamp.

(* ================================================================================================================= *)
(* (B) write-once statements that were missing                                                                        *)
(* ================================================================================================================= *)
Lemma bad_window_seq w len : bad_window w (seq 0 len) = (w =? 0) && negb (len =? 0).
Proof. unfold bad_window. rewrite seq_length. reflexivity. Qed.

Theorem trace_idx2_to_writes cb w len :
  (forall st e, writes_of (cb st e) = []) ->
  bad_window w (seq 0 len) = false -> writes_of (trace_idx2_to cb w len) = seq 0 len.
Proof.
  intros Hcb Hb. destruct w as [|w].
  - unfold bad_window in Hb. rewrite seq_length in Hb. cbn in Hb.
    destruct len; [reflexivity|discriminate].
  - unfold trace_idx2_to. rewrite calls_to_idx_spec by lia.
    rewrite (flat_map_writes _ fst).
    + rewrite map_mapi. cbn [fst]. rewrite mapi_fst_seq, seq_length. reflexivity.
    + intros [slot [[st e] v]] _.
      change (AUget 0 v :: AUget 1 v :: cb st e ++ [AUset slot]) with ([AUget 0 v; AUget 1 v] ++ cb st e ++ [AUset slot]).
      rewrite !writes_of_app, Hcb. reflexivity.
Qed.

Lemma writes_of_no_uset (t : list acc) :
  Forall (fun a => match a with AUset _ => False | _ => True end) t -> writes_of t = [].
Proof.
  induction 1 as [|a t Ha _ IH]; [reflexivity|]. unfold writes_of in *. cbn [flat_map]. rewrite IH.
  destruct a; try reflexivity. contradiction.
Qed.

Lemma trace_custom_iter_no_write w len : writes_of (trace_custom_iter w len) = [].
Proof.
  apply writes_of_no_uset. apply Forall_forall. intros a Ha. unfold trace_custom_iter in Ha.
  apply in_map_iff in Ha. destruct Ha as ([st e] & <- & _). exact I.
Qed.
Lemma trace_custom2_no_write w len : writes_of (trace_custom2 w len) = [].
Proof.
  apply writes_of_no_uset. apply Forall_forall. intros a Ha. unfold trace_custom2 in Ha.
  apply in_flat_map in Ha. destruct Ha as ([st e] & _ & [<-|[<-|[]]]); exact I.
Qed.

Lemma trace_write_writes n : writes_of (trace_write n) = seq 0 n.
Proof. apply (proj2 (trace_write_ok n n)). Qed.
Lemma trace_write_in_bounds n len2 : Forall (acc_ok n len2) (trace_write n).
Proof. apply (proj1 (trace_write_ok n len2)). Qed.

(* ================================================================================================================= *)
(* (C) a whole call of every driver: EVERY window, EVERY pair of lengths, no hypothesis                               *)
(* ================================================================================================================= *)
Theorem driver_call_safe cb k w len len2 :
  cb_reads_in_window cb -> (forall st e, writes_of (cb st e) = []) -> (k = KIdxTo -> len <= len2) ->
  match driver_call cb k w len len2 with
  | DPanic _ => True
  | DTrace t => Forall (acc_ok len len2) t /\ writes_of t = if dkind_writes k then seq 0 len else []
  end.
Proof.
  intros Hcb Hcw Hk.
  assert (G : forall t, Forall (acc_ok len len2) t -> (bad_window w (seq 0 len) = false -> writes_of t = seq 0 len) ->
              match (if (w =? 0) && negb (len =? 0) then DPanic AssertFail else DTrace t) with
              | DPanic _ => True | DTrace t => Forall (acc_ok len len2) t /\ writes_of t = seq 0 len end).
  { intros t Ht Hw. rewrite <- bad_window_seq. destruct (bad_window w (seq 0 len)) eqn:E; [exact I|].
    split; [exact Ht|apply Hw; reflexivity]. }
  destruct k; cbn [driver_call dkind_writes].
  - apply G; [apply trace_apply_to_ok|apply trace_apply_to_writes].
  - destruct (len2 <? len) eqn:E; [exact I|]. apply Nat.ltb_ge in E.
    apply G; [apply trace_apply2_to_ok; exact E|apply trace_apply2_to_writes].
  - apply G; [apply trace_idx_to_ok; [exact Hcb|apply Hk; reflexivity]|apply trace_idx_to_writes; exact Hcw].
  - destruct (len2 <? len) eqn:E; [exact I|]. apply Nat.ltb_ge in E.
    apply G; [apply trace_idx2_to_ok; assumption|apply trace_idx2_to_writes; exact Hcw].
  - apply G; [apply trace_custom_to_ok|apply trace_custom_to_writes].
  - destruct w as [|w]; [exact I|]. cbn [Nat.eqb]. split; [apply trace_custom_iter_ok; lia|apply trace_custom_iter_no_write].
  - destruct w as [|w]; [exact I|]. cbn [Nat.eqb]. split.
    + apply Forall_app. split; [apply trace_custom_iter_ok; lia|apply trace_write_in_bounds].
    + rewrite writes_of_app, trace_custom_iter_no_write, trace_write_writes. reflexivity.
  - destruct (len2 <? len) eqn:E; [exact I|]. apply Nat.ltb_ge in E.
    destruct w as [|w]; [exact I|]. cbn [Nat.eqb]. split; [apply trace_custom2_ok; lia|apply trace_custom2_no_write].
  - destruct (len2 <? len) eqn:E; [exact I|]. apply Nat.ltb_ge in E.
    destruct w as [|w]; [exact I|]. cbn [Nat.eqb]. split.
    + apply Forall_app. split; [apply trace_custom2_ok; lia|apply trace_write_in_bounds].
    + rewrite writes_of_app, trace_custom2_no_write, trace_write_writes. reflexivity.
  - destruct ((w =? 0) && negb (len =? 0)); [exact I|]. split; [constructor|reflexivity].
Qed.

(* the drivers themselves (callbacks that read nothing: what Run/RunC10.v run_trace evaluates): no hypothesis at all *)
Corollary driver_call_safe_plain k w len len2 :
  match driver_call (fun _ _ => []) k w len len2 with
  | DPanic _ => True
  | DTrace t => Forall (acc_ok len len2) t /\ writes_of t = if dkind_writes k then seq 0 len else []
  end.
Proof.
  destruct (Nat.eq_dec 0 0) as [_|]; [|contradiction].
  destruct k eqn:Ek; try (apply driver_call_safe; [intros st e a []|reflexivity|discriminate]).
  (* KIdxTo with a callback that reads nothing: the second length is irrelevant *)
  cbn [driver_call dkind_writes]. rewrite <- bad_window_seq. destruct (bad_window w (seq 0 len)) eqn:E; [exact I|]. split.
  - apply Forall_forall. intros a Ha. unfold trace_idx_to in Ha. apply in_flat_map in Ha.
    destruct Ha as ([slot [[st e] v]] & Hin & Ha). apply calls_to_idx_positions in Hin.
    destruct Hin as (Hs & -> & -> & Hst). cbn in Ha. destruct Ha as [<-|[<-|[]]]; cbn; lia.
  - apply trace_idx_to_writes; [reflexivity|exact E].
Qed.

(* which panic, exactly when: the guards of the trace model are the guards of the value model (Model/Driver.v) *)
Section Guards.
  Context {T T2 St O : Type}.
  Lemma driver_call_guard_one cb k w (xs : list T) len2 : In k [KApplyTo; KIdxTo; KCustomTo; KIterBody] ->
    (exists p, driver_call cb k w (length xs) len2 = DPanic p) <-> bad_window w xs = true.
  Proof.
    intros Hk. unfold bad_window.
    assert (E : forall t, (exists p, (if (w =? 0) && negb (length xs =? 0) then DPanic AssertFail else DTrace t) = DPanic p)
                          <-> (w =? 0) && negb (length xs =? 0) = true).
    { intros t. destruct ((w =? 0) && negb (length xs =? 0)); split; intros H; try reflexivity; try discriminate.
      - exists AssertFail. reflexivity.
      - destruct H as [p H]. discriminate. }
    destruct Hk as [<-|[<-|[<-|[<-|[]]]]]; cbn [driver_call]; apply E.
  Qed.

  Lemma driver_call_guard_two cb k w (xs : list T) (ys : list T2) : In k [KApply2To; KIdx2To] ->
    driver_call cb k w (length xs) (length ys)
    = match check2_to w xs ys with
      | Some g => DPanic (guard_kind g)
      | None => driver_call cb k w (length xs) (length ys)
      end
    /\ (check2_to w xs ys = None <-> exists t, driver_call cb k w (length xs) (length ys) = DTrace t).
  Proof.
    intros Hk. unfold check2_to, bad_window.
    destruct Hk as [<-|[<-|[]]]; cbn [driver_call]; destruct (length ys <? length xs);
      cbn [guard_kind]; try (destruct ((w =? 0) && negb (length xs =? 0)); cbn [guard_kind]);
      (split; [reflexivity|split; [try discriminate; intros _; eexists; reflexivity|intros [t H]; try discriminate H; reflexivity]]).
  Qed.

  Lemma driver_call_guard_custom2 cb k w (xs : list T) (ys : list T2) : In k [KCustom2Lazy; KCustom2Write] ->
    (forall g, check2_custom w xs ys = Some g -> driver_call cb k w (length xs) (length ys) = DPanic (guard_kind g)) /\
    (check2_custom w xs ys = None -> exists t, driver_call cb k w (length xs) (length ys) = DTrace t).
  Proof.
    intros Hk. unfold check2_custom.
    destruct Hk as [<-|[<-|[]]]; cbn [driver_call]; destruct (length ys <? length xs); try destruct (w =? 0);
      (split; [intros g H; try discriminate H; injection H as <-; reflexivity|intros H; try discriminate H; eexists; reflexivity]).
  Qed.
End Guards.

(* ---- a caller buffer of ANY length handed to the default rolling_custom ------------------------------------------- *)
Theorem custom_write_call_safe w len lo :
  match custom_write_call w len lo with
  | DPanic p => (p = Underflow /\ w = 0) \/ (p = UnwrapNone /\ 1 <= w /\ lo <> 0 /\ lo <> len /\ len <> 1)
  | DTrace t =>
      1 <= w /\
      (* reads: checked slices inside the series *)
      Forall (fun a => match a with AUset i => i < lo | a => acc_ok len len a end) t /\
      (* writes: nothing for an empty buffer, otherwise every slot of the BUFFER exactly once, in order *)
      writes_of t = seq 0 lo
  end.
Proof.
  unfold custom_write_call. destruct w as [|w]; [left; split; reflexivity|]. cbn [Nat.eqb].
  destruct (lo =? 0) eqn:E0.
  { apply Nat.eqb_eq in E0. subst lo. split; [lia|]. split; [constructor|reflexivity]. }
  apply Nat.eqb_neq in E0.
  destruct (lo =? len) eqn:E1.
  { apply Nat.eqb_eq in E1. subst lo. split; [lia|]. split.
    - apply Forall_app. split.
      + pose proof (trace_custom_iter_ok (S w) len len ltac:(lia)) as H. apply Forall_forall. intros a Ha.
        rewrite Forall_forall in H. specialize (H a Ha). unfold trace_custom_iter in Ha. apply in_map_iff in Ha.
        destruct Ha as ([st e] & <- & _). exact H.
      + apply Forall_forall. intros a Ha. unfold trace_write in Ha. apply in_map_iff in Ha.
        destruct Ha as (i & <- & Hi). apply in_seq in Hi. lia.
    - rewrite writes_of_app, trace_custom_iter_no_write, trace_write_writes. reflexivity. }
  apply Nat.eqb_neq in E1.
  destruct (len =? 1) eqn:E2.
  { apply Nat.eqb_eq in E2. subst len. split; [lia|]. split.
    - apply Forall_app. split.
      + pose proof (trace_custom_iter_ok (S w) 1 1 ltac:(lia)) as H. apply Forall_forall. intros a Ha.
        rewrite Forall_forall in H. specialize (H a Ha). unfold trace_custom_iter in Ha. apply in_map_iff in Ha.
        destruct Ha as ([st e] & <- & _). exact H.
      + apply Forall_forall. intros a Ha. unfold trace_write in Ha. apply in_map_iff in Ha.
        destruct Ha as (i & <- & Hi). apply in_seq in Hi. lia.
    - rewrite writes_of_app, trace_custom_iter_no_write, trace_write_writes. reflexivity. }
  apply Nat.eqb_neq in E2. right. repeat split; try assumption; lia.
Qed.

(* it is write_trust_iter (Model/Collect.v, C19) fed with the len items of the lazy iterator *)
Lemma custom_write_call_is_write_trust_iter {O} w (items : list O) lo : 1 <= w ->
  let r := write_trust_iter lo (exact_iter items) in
  match custom_write_call w (length items) lo with
  | DPanic p => p = UnwrapNone /\ fst r = WErr /\ snd r = []
  | DTrace t => fst r = WOk /\ writes_of t = map fst (snd r)
  end.
Proof.
  intros Hw. cbv zeta. unfold custom_write_call, write_trust_iter, exact_iter. cbn [ti_hint ti_items].
  replace (w =? 0) with false by (symmetry; apply Nat.eqb_neq; lia).
  destruct (lo =? 0) eqn:E0; [split; reflexivity|].
  destruct (lo =? length items) eqn:E1.
  - apply Nat.eqb_eq in E1. subst lo. rewrite write_each_exact. cbn [fst snd]. split; [reflexivity|].
    rewrite writes_of_app, trace_custom_iter_no_write, trace_write_writes, map_fst_combine_seq. reflexivity.
  - destruct (length items =? 1) eqn:E2.
    + apply Nat.eqb_eq in E2. destruct items as [|v [|? ?]]; try discriminate. cbn [fst snd]. split; [reflexivity|].
      rewrite writes_of_app, trace_custom_iter_no_write, trace_write_writes, map_map. cbn [fst]. rewrite map_id. reflexivity.
    + repeat split.
Qed.

(* ================================================================================================================= *)
(* (D) the one-series entry points for EVERY window: a complete result of the input's length, or the panic of the   *)
(*     code's check - never `Uninit` (C10_never_uninit covered rolling_apply_to only)                                *)
(* ================================================================================================================= *)
Section OneSeries.
  Context {T St O : Type}.

  Definition complete_or (k : panic_kind) (rejected : bool) (n : nat) (r : outcome O) : Prop :=
    if rejected then r = Panicked k else exists out, r = Done out /\ length out = n.

  Lemma apply_to_outcome w (f : St -> option T * T -> St * O) s0 xs :
    complete_or AssertFail (bad_window w xs) (length xs) (rolling_apply_to w f s0 xs).
  Proof.
    unfold complete_or. rewrite rolling_apply_to_total. destruct (bad_window w xs); [reflexivity|].
    eexists. split; [reflexivity|]. rewrite run_length. unfold args_to. apply mapi_length.
  Qed.
  Lemma apply_default_outcome w (f : St -> option T * T -> St * O) s0 xs :
    complete_or AssertFail (bad_window w xs) (length xs) (rolling_apply_default w f s0 xs).
  Proof.
    unfold complete_or. rewrite rolling_apply_default_total. destruct (bad_window w xs); [reflexivity|].
    eexists. split; [reflexivity|]. rewrite run_length. apply mapi_length.
  Qed.
  Lemma apply_idx_to_outcome w (f : St -> option nat * nat * T -> St * O) s0 xs :
    complete_or AssertFail (bad_window w xs) (length xs) (rolling_apply_idx_to w f s0 xs).
  Proof.
    unfold complete_or. rewrite rolling_apply_idx_to_total. destruct (bad_window w xs); [reflexivity|].
    eexists. split; [reflexivity|]. rewrite run_length. unfold args_to_idx. apply mapi_length.
  Qed.
  Lemma apply_idx_default_outcome w (f : St -> option nat * nat * T -> St * O) s0 xs :
    complete_or AssertFail (bad_window w xs) (length xs) (rolling_apply_idx_default w f s0 xs).
  Proof.
    unfold complete_or. rewrite rolling_apply_idx_default_total. destruct (bad_window w xs); [reflexivity|].
    eexists. split; [reflexivity|]. rewrite run_length. apply mapi_length.
  Qed.
  Lemma custom_to_outcome w (f : St -> list T -> St * O) s0 xs :
    complete_or AssertFail (bad_window w xs) (length xs) (rolling_custom_to w f s0 xs).
  Proof.
    unfold complete_or. rewrite rolling_custom_to_total. destruct (bad_window w xs); [reflexivity|].
    eexists. split; [reflexivity|]. rewrite run_length. unfold windows. rewrite map_length, seq_length. reflexivity.
  Qed.
  Lemma custom_default_outcome w (f : St -> list T -> St * O) s0 xs :
    complete_or Underflow (w =? 0) (length xs) (rolling_custom_default w f s0 xs).
  Proof.
    unfold complete_or. rewrite rolling_custom_default_total. destruct (w =? 0); [reflexivity|].
    eexists. split; [reflexivity|]. rewrite run_length. unfold windows. rewrite map_length, seq_length. reflexivity.
  Qed.
End OneSeries.

(* ================================================================================================================= *)
(* (E) the collected (trusted-length) forms of the lazy bodies: the announced length IS the number of items, for      *)
(*     every window (0 included) and every pair of lengths, so the raw collector writes each slot once and exposes    *)
(*     exactly what the iterator yielded                                                                              *)
(* ================================================================================================================= *)
Ltac lens := repeat (rewrite combine_length || rewrite app_length || rewrite repeat_length || rewrite map_length
                     || rewrite seq_length); try lia.
Section Hints.
  Context {T T2 : Type}.
  Lemma hint_apply_exact w (xs : list T) : hint_apply w (length xs) = length (args_iter w xs).
  Proof. unfold hint_apply, args_iter. lens. Qed.
  Lemma hint_apply2_exact w (xs : list T) (ys : list T2) :
    hint_apply2 w (length xs) (length ys) = length (args_iter w (combine xs ys)).
  Proof.
    unfold hint_apply2, args_iter. lens.
  Qed.
  Lemma hint_idx_exact w (xs : list T) : hint_idx w (length xs) = length (args_iter_idx w xs).
  Proof.
    unfold hint_idx, args_iter_idx. lens.
  Qed.
  Lemma hint_idx2_exact w (xs : list T) (ys : list T2) :
    hint_idx2 w (length xs) (length ys) = length (args_iter_idx2 w xs ys).
  Proof.
    unfold hint_idx2, args_iter_idx2. lens.
  Qed.
  Lemma hint_custom_exact w len : 1 <= w -> hint_custom w len = length (slices_iter w len)
                                          /\ hint_custom2 w len = length (slices_iter w len).
  Proof.
    intros Hw. unfold hint_custom, hint_custom2, slices_iter. lens.
  Qed.
End Hints.

Lemma collect_trusted_run {St X O} (g : St -> X -> St * O) s0 (args : list X) hint :
  hint = length args -> collect_trusted hint (run g s0 args) = Done (run g s0 args).
Proof. intros ->. rewrite <- (run_length g s0 args). apply collect_trusted_exact. Qed.

Section LazyCollected.
  Context {T T2 St O : Type}.
  (* the returned paths of the default trait methods = collect_trusted(announced hint) of the lazy iterator *)
  Lemma apply_lazy_collected w (f : St -> option T * T -> St * O) s0 xs :
    bad_window w xs = false ->
    collect_trusted (hint_apply w (length xs)) (run f s0 (args_iter w xs)) = rolling_apply_default w f s0 xs.
  Proof. intros Hb. unfold rolling_apply_default. rewrite Hb. apply collect_trusted_run, hint_apply_exact. Qed.
  Lemma apply_idx_lazy_collected w (f : St -> option nat * nat * T -> St * O) s0 xs :
    bad_window w xs = false ->
    collect_trusted (hint_idx w (length xs)) (run f s0 (args_iter_idx w xs)) = rolling_apply_idx_default w f s0 xs.
  Proof. intros Hb. unfold rolling_apply_idx_default. rewrite Hb. apply collect_trusted_run, hint_idx_exact. Qed.
  Lemma apply2_lazy_collected w (f : St -> option (T * T2) * (T * T2) -> St * O) s0 xs ys :
    bad_window w xs = false ->
    collect_trusted (hint_apply2 w (length xs) (length ys)) (run f s0 (args_iter w (combine xs ys)))
    = rolling2_apply_default w f s0 xs ys.
  Proof. intros Hb. unfold rolling2_apply_default. rewrite Hb. apply collect_trusted_run, hint_apply2_exact. Qed.
  Lemma apply_idx2_lazy_collected w (f : St -> option nat * nat * (T * T2) -> St * O) s0 xs ys :
    bad_window w xs = false ->
    collect_trusted (hint_idx2 w (length xs) (length ys)) (run f s0 (args_iter_idx2 w xs ys))
    = rolling2_apply_idx_default w f s0 xs ys.
  Proof. intros Hb. unfold rolling2_apply_idx_default. rewrite Hb. apply collect_trusted_run, hint_idx2_exact. Qed.
  Lemma custom_lazy_collected w (f : St -> list T -> St * O) s0 xs :
    1 <= w ->
    collect_trusted (hint_custom w (length xs))
                    (run f s0 (map (fun '(st, e) => seg st e xs) (slices_iter w (length xs))))
    = rolling_custom_default w f s0 xs.
  Proof.
    intros Hw. unfold rolling_custom_default. replace (w =? 0) with false by (symmetry; apply Nat.eqb_neq; lia).
    apply collect_trusted_run. rewrite map_length. apply (hint_custom_exact w (length xs) Hw).
  Qed.
  Lemma custom2_lazy_collected w (f : St -> list T * list T2 -> St * O) s0 xs ys :
    1 <= w -> length xs <= length ys ->
    collect_trusted (hint_custom2 w (length xs))
                    (run f s0 (map (fun '(st, e) => (seg st e xs, seg st e ys)) (slices_iter w (length xs))))
    = rolling2_custom_default w f s0 xs ys.
  Proof.
    intros Hw Hl. unfold rolling2_custom_default.
    replace (length ys <? length xs) with false by (symmetry; apply Nat.ltb_ge; exact Hl).
    replace (w =? 0) with false by (symmetry; apply Nat.eqb_neq; lia).
    apply collect_trusted_run. rewrite map_length. apply (hint_custom_exact w (length xs) Hw).
  Qed.
End LazyCollected.

(* the partition kernels announce kth + 1 (`.to_trust(kth + 1)`) and yield exactly that many items *)
Section PartCollected.
  Context {A : Type} {NA : Num A} {T : Type} {DT : IsNone T A} {DX : IsNoneX T A}.
  Lemma varg_partition_collected kth sort rev (xs : list T) :
    collect_trusted (kth + 1) (varg_partition kth sort rev xs) = Done (varg_partition kth sort rev xs).
  Proof. rewrite <- (varg_partition_length kth sort rev xs) at 1. apply collect_trusted_exact. Qed.
  Lemma vpartition_collected kth sort rev (xs : list T) l :
    vpartition kth sort rev xs = Ok l -> collect_trusted (kth + 1) l = Done l.
  Proof. intros H. rewrite <- (vpartition_length _ _ _ _ _ H). apply collect_trusted_exact. Qed.

  (* the exact panic condition of vpartition: T::none() of a non-nullable element type, needed for padding *)
  Lemma vpartition_panics_iff kth sort rev (xs : list T) :
    (exists p, vpartition kth sort rev xs = Panic p) <->
    (exists p, tnone = Panic p) /\ (if sort then length xs < kth + 1 else count_valid xs < kth + 1).
  Proof.
    pose proof (count_valid_le xs) as Hc. split.
    - intros [p Hp]. destruct (@tnone T A DX) as [pad|q] eqn:Et.
      + destruct (vpartition_ok kth sort rev xs pad Et) as (l & Hl & _). rewrite Hl in Hp. discriminate.
      + split; [exists q; reflexivity|].
        destruct (Nat.le_gt_cases (kth + 1) (count_valid xs)) as [Hk|Hk].
        { destruct (vpartition_no_padding_ok kth sort rev xs Hk) as (l & Hl & _). rewrite Hl in Hp. discriminate. }
        destruct sort; [|exact Hk].
        unfold vpartition in Hp. cbn [negb] in Hp. rewrite Bool.andb_false_r in Hp.
        replace (count_valid xs <=? kth + 1) with true in Hp by (symmetry; apply Nat.leb_le; lia).
        destruct (length (isort (cmp_dir rev) xs) <? kth + 1) eqn:El; [|discriminate].
        apply Nat.ltb_lt in El. rewrite isort_length in El. exact El.
    - intros [[q Hq] Hk]. unfold vpartition. rewrite Hq. destruct sort; cbn [negb].
      + rewrite Bool.andb_false_r.
        replace (count_valid xs <=? kth + 1) with true by (symmetry; apply Nat.leb_le; lia).
        replace (length (isort (cmp_dir rev) xs) <? kth + 1) with true
          by (symmetry; apply Nat.ltb_lt; rewrite isort_length; exact Hk).
        exists q. reflexivity.
      + rewrite Bool.andb_true_r.
        replace (count_valid xs =? kth + 1) with false by (symmetry; apply Nat.eqb_neq; lia).
        replace (count_valid xs <=? kth + 1) with true by (symmetry; apply Nat.leb_le; lia).
        exists q. reflexivity.
  Qed.
End PartCollected.

(* ================================================================================================================= *)
(* (F) "before the buffer is exposed as initialised": the write lists of the kernels fed to the buffer model          *)
(* ================================================================================================================= *)
(* a trace whose writes are 0..n-1 in order (all two-phase bodies), with ANY values: complete, slot i = value i *)
Lemma in_order_writes_expose {O} (vs : list O) :
  finish (apply_writes (combine (seq 0 (length vs)) vs) (repeat None (length vs))) = Done vs.
Proof.
  pose proof (apply_writes_in_order vs [] (repeat None (length vs)) (repeat_length _ _)) as H.
  cbn [length app] in H. rewrite H. unfold finish. rewrite assume_init_map_Some. reflexivity.
Qed.

Lemma combine_fst_length {X Y} (l1 : list X) (l2 : list Y) : length l1 = length l2 -> map fst (combine l1 l2) = l1.
Proof.
  revert l2. induction l1 as [|a l1 IH]; intros l2 H; [reflexivity|].
  destruct l2 as [|b l2]; [discriminate|]. cbn. f_equal. apply IH. cbn in H. lia.
Qed.

Section VrankExposed.
  Context {A : Type} {NA : Num A} {T : Type} {DT : IsNone T A} {DX : IsNoneX T A}.
  (* vrank on the uninitialised-buffer path: whatever values the usets carry, after the last uset the buffer is
     complete (assume_init is sound), and each slot holds THE value stored there *)
  Theorem vrank_buffer_exposed_initialised {O} pct rev (xs : list T) (vs : list O) :
    2 <= length xs ->
    get_is_none xs (nth 0 (isort (cmp_idx (cmp_dir rev) xs) (seq 0 (length xs))) 0) = false ->
    length vs = length (writes_of (fst (vrank_tr pct rev xs))) ->
    exists l, finish (apply_writes (combine (writes_of (fst (vrank_tr pct rev xs))) vs) (repeat None (length xs))) = Done l
              /\ length l = length xs
              /\ forall j v, In (j, v) (combine (writes_of (fst (vrank_tr pct rev xs))) vs) -> nth_error l j = Some v.
  Proof.
    intros H2 Hn Hl. apply writes_permutation.
    rewrite combine_fst_length by (symmetry; exact Hl). apply vrank_tr_writes_perm; assumption.
  Qed.
End VrankExposed.
