(* Proofs/SrcTablesMap.v — the translator tie (DESIGN 10.2) extended to binning / unique (C14), the generators (C19),
   partition / rank (C12) and the extrema kernels (C03): this file only gathers the four conformance files, one per property,

     Proofs/SrcTablesMapBin.v    C14   tea-map/src/valid_iter.rs   vcut, vsorted_unique_idx, vsorted_unique      (Model/Binning.v)
     Proofs/SrcTablesMapGen.v    C19   tea-core/src/linspace.rs, create.rs   Linspace, linspace, range, Vec1Create  (Model/Create.v)
     Proofs/SrcTablesMapPart.v   C12   tea-map/src/vec_map.rs      vpartition, varg_partition, vrank               (Model/Partition.v, Rank.v)
     Proofs/SrcTablesMapExt.v    C03   tea-rolling/src/cmp.rs, norm.rs   ts_vmin/vmax/vargmin/vargmax/vrank/vminmaxnorm/vzscore
                                                                                                                  (Model/Cmp.v, Norm.v)
   which are kept apart on purpose: each check names only the file of ITS family in `src_tables_proofs`
   (tools/propcfg/C{14,19,12,03}.py), so that a changed decision in vcut breaks an obligation of C14 and of nothing else.
   The tables are section "(a)".."(d)" at the end of coq/Gen/SrcTables.v, written by tools/gen_tables_map.py (token templates:
   see notes/translator.md).  Building this file re-checks all four families at once.  Axiom-free.                           *)
From Tevec Require Export Proofs.SrcTablesMapBase Proofs.SrcTablesMapBin Proofs.SrcTablesMapGen Proofs.SrcTablesMapPart
                          Proofs.SrcTablesMapExt.

(* one line per family: the headline conformance theorems, re-exported under one roof *)
Definition src_map_conformance_C14 := (@src_vcut_conforms, @src_vcut_call_conforms, @src_uidx_first_conforms,
                                       @src_uidx_last_conforms, @src_vsorted_unique_conforms).
Definition src_map_conformance_C19 := (@src_ls_next_conforms, @src_ls_next_back_conforms, @src_ls_size_hint_conforms,
                                       @src_linspace_new_conforms, @src_range_new_conforms, @src_create_range_conforms,
                                       @src_create_linspace_conforms).
Definition src_map_conformance_C12 := (@src_partition_dirs_conform, @src_vpartition_conforms, @src_varg_partition_conforms,
                                       @src_rk_avg_conforms, @src_rk_one_conforms, @src_vrank_conforms).
Definition src_map_conformance_C03 := (@src_ext_step_conforms, @src_ts_vmin_conforms, @src_ts_vmax_conforms,
                                       @src_ts_vargmin_conforms, @src_ts_vargmax_conforms, @src_ts_vrank_conforms,
                                       @src_mm_research_conforms, @src_ts_vminmaxnorm_conforms, @src_ts_vzscore_conforms).
Print Assumptions src_map_conformance_C14.
Print Assumptions src_map_conformance_C19.
Print Assumptions src_map_conformance_C12.
Print Assumptions src_map_conformance_C03.
