(* Proofs/HalfLifeExec.v — C20: the executable half_life (oracle = vcorr_pearson(xs, vshift(xs, lag)) > 0.5)
   satisfies the hypothesis of Proofs/HalfLife.v (a lag >= len shifts everything out: correlation null),
   hence terminates, never panics, returns a lag in 0..=len-1 (0 iff len < 2), and finds the threshold.
   Also: half_life only looks at lags >= 1.                                                           *)
From Coq Require Import Reals Lia List ZArith Bool.
From Tevec Require Import Base.Prelude Model.MapOps Spec.MapOps Proofs.MapOps.
From Tevec Require Import Base.Num Base.XR Model.SortCmp Model.Quantile Model.Agg Model.HalfLife Model.Composite
     Proofs.HalfLife.
Import ListNotations.

(* ---- the search only probes lags >= 1 (axiom-free) ------------------------------------------------- *)
Section Ext.
  Variables a1 a2 : nat -> bool.
  Variable len : nat.
  Hypothesis Hext : forall k, 1 <= k -> a1 k = a2 k.

  Lemma pow2_pos i : 1 <= 2 ^ i.
  Proof. pose proof (Nat.pow_nonzero 2 i). lia. Qed.

  Lemma doubling_ext fuel : forall n last i, doubling a1 len fuel n last i = doubling a2 len fuel n last i.
  Proof.
    induction fuel as [|fuel IH]; intros n last i; [reflexivity|].
    cbn [doubling]. rewrite (Hext _ (pow2_pos i)). destruct (n <? len); [|reflexivity].
    destruct (a2 (2 ^ i)); [apply IH|reflexivity].
  Qed.

  Lemma bisect_ext fuel : forall n last, bisect a1 fuel n last = bisect a2 fuel n last.
  Proof.
    induction fuel as [|fuel IH]; intros n last; [reflexivity|].
    cbn [bisect]. unfold usub. destruct (last <=? n) eqn:Hle; [|reflexivity].
    destruct (1 <? n - last) eqn:Hd; [|reflexivity].
    apply Nat.leb_le in Hle. apply Nat.ltb_lt in Hd.
    assert (Hmid : 1 <= (n + last) / 2).
    { apply Nat.div_le_lower_bound; lia. }
    rewrite (Hext _ Hmid). destruct (a2 ((n + last) / 2)); apply IH.
  Qed.

  Theorem half_life_ext : half_life a1 len = half_life a2 len.
  Proof.
    unfold half_life. destruct (len =? 0); [reflexivity|].
    rewrite doubling_ext. destruct (doubling a2 len (S (S len)) 0 0 0) as [[n last]|]; [|reflexivity].
    apply bisect_ext.
  Qed.
End Ext.

(* total + range + threshold with the hypotheses only on lags >= 1 *)
Section Oracle.
  Variable above : nat -> bool.
  Variable len : nat.
  Hypothesis above_out : forall k, len <= k -> above k = false.
  Hypothesis Hlen : 1 <= len.

  Theorem half_life_range :
    exists r, half_life above len = Some (Ok r) /\ r <= len - 1 /\ (r = 0 <-> len < 2).
  Proof.
    destruct (half_life_total above len above_out Hlen) as (r & Hr & Hle & Hpos).
    exists r. split; [exact Hr|]. split; [exact Hle|]. split; intros H; [|lia].
    destruct (Nat.lt_ge_cases len 2) as [L|L]; [exact L|]. specialize (Hpos L). lia.
  Qed.

  Theorem half_life_threshold_from_1 L :
    1 <= L -> (forall k, 1 <= k -> above k = (k <? L)) ->
    half_life above len = Some (Ok (Nat.min L (len - 1))).
  Proof.
    intros HL Hthr.
    pose (above' := fun k => if k =? 0 then true else above k).
    rewrite (half_life_ext above above' len).
    - apply half_life_threshold.
      + intros k Hk. unfold above'. replace (k =? 0) with false by (symmetry; apply Nat.eqb_neq; lia).
        apply above_out. exact Hk.
      + exact Hlen.
      + exact HL.
      + intros k. unfold above'. destruct (k =? 0) eqn:E.
        * apply Nat.eqb_eq in E. subst k. symmetry. apply Nat.ltb_lt. lia.
        * apply Nat.eqb_neq in E. apply Hthr. lia.
    - intros k Hk. unfold above'. replace (k =? 0) with false by (symmetry; apply Nat.eqb_neq; lia). reflexivity.
  Qed.
End Oracle.

(* ---- the executable oracle ------------------------------------------------------------------------ *)
Section Exec.
  Context {T : Type} {DT : IsNone T XR}.
  Variable dm : NullDict T XR.

  (* vshift by a lag >= len: every element is the fill *)
  Lemma lagged_out (nv : T) (lag : nat) (xs : list T) :
    length xs <= lag -> lagged nv lag xs = repeat nv (length xs).
  Proof.
    intros H. unfold lagged, shift.
    replace (Z.of_nat (length xs) <=? Z.abs (Z.of_nat lag))%Z with true; [reflexivity|].
    symmetry. apply Z.leb_le. lia.
  Qed.

  (* vshift never panics and keeps the length (C13_shift_positional): the Panic arm of `lagged` is dead *)
  Lemma lagged_is_shift (nv : T) (lag : nat) (xs : list T) :
    shift (Z.of_nat lag) nv xs = Ok (lagged nv lag xs) /\ length (lagged nv lag xs) = length xs.
  Proof.
    destruct (shift_positional (Z.of_nat lag) nv xs) as (r & Hr & Hl & _).
    unfold lagged. rewrite Hr. split; [reflexivity|exact Hl].
  Qed.

  (* no complete pair when the second series is all null *)
  Lemma corr_fold_all_null (nv : T) (Hnv : Num.is_none nv = true) (xs : list T) :
    forall n st, fold_left (corr_step (DT := DT) (DT2 := DT) (@idA XR)) (combine xs (repeat nv n)) st = st.
  Proof.
    induction xs as [|x xs IH]; intros n st; [reflexivity|].
    destruct n as [|n]; [reflexivity|]. cbn [repeat combine fold_left].
    assert (Hs : corr_step (DT := DT) (DT2 := DT) (@idA XR) st (x, nv) = st).
    { destruct st as [[[[[c sa] s2a] sb] s2b] sab]. unfold corr_step. cbn [fst snd].
      unfold not_none. rewrite Hnv. rewrite andb_false_r. reflexivity. }
    rewrite Hs. apply IH.
  Qed.

  Lemma autocorr_out (mp : nat) (nv : T) (Hnv : Num.is_none nv = true) (xs : list T) (lag : nat) :
    length xs <= lag -> autocorr (DT := DT) mp nv xs lag = None.
  Proof.
    intros H. unfold autocorr, vcorr_pearson. rewrite (lagged_out nv lag xs H), (corr_fold_all_null nv Hnv).
    replace (Nat.max mp 2 <=? 0) with false by (symmetry; apply Nat.leb_gt; lia). reflexivity.
  Qed.

  Lemma above_half_out (mp : nat) (nv : T) (Hnv : Num.is_none nv = true) (xs : list T) (lag : nat) :
    length xs <= lag -> above_half (DT := DT) mp nv xs lag = false.
  Proof. intros H. unfold above_half. rewrite (autocorr_out mp nv Hnv xs lag H). reflexivity. Qed.

  (* the property's half-life statement, for every element type whose T::none() is a null value *)
  Theorem half_life_exec_total (mp : option nat) (nv : T) (xs : list T) :
    MapOps.none dm = Ok nv -> Num.is_none nv = true ->
    exists r, half_life_exec (DT := DT) dm mp xs = Some (Ok r) /\
              r <= length xs - 1 /\ (r = 0 <-> length xs < 2).
  Proof.
    intros Hn Hnv. unfold half_life_exec.
    destruct (length xs =? 0) eqn:E.
    - apply Nat.eqb_eq in E. exists 0. split; [reflexivity|]. split; lia.
    - apply Nat.eqb_neq in E. rewrite Hn.
      apply half_life_range; [|lia].
      intros k Hk. apply above_half_out; assumption.
  Qed.

  Theorem half_life_exec_threshold (mp : option nat) (nv : T) (xs : list T) (L : nat) :
    MapOps.none dm = Ok nv -> Num.is_none nv = true -> xs <> [] -> 1 <= L ->
    (forall k, 1 <= k -> above_half (DT := DT) (mp_default mp (length xs)) nv xs k = (k <? L)) ->
    half_life_exec (DT := DT) dm mp xs = Some (Ok (Nat.min L (length xs - 1))).
  Proof.
    intros Hn Hnv Hne HL Hthr. unfold half_life_exec.
    assert (E : length xs <> 0) by (destruct xs; [contradiction|cbn; lia]).
    replace (length xs =? 0) with false by (symmetry; apply Nat.eqb_neq; exact E).
    rewrite Hn. apply half_life_threshold_from_1; try assumption; [|lia].
    intros k Hk. apply above_half_out; assumption.
  Qed.

  (* integer element types: T::none() panics in the first vshift (DESIGN 5.4), except on the empty series *)
  Theorem half_life_exec_none_panics (mp : option nat) (k : panic_kind) (xs : list T) :
    MapOps.none dm = Panic k ->
    half_life_exec (DT := DT) dm mp xs = if length xs =? 0 then Some (Ok 0) else Some (Panic k).
  Proof. intros Hn. unfold half_life_exec. destruct (length xs =? 0); [reflexivity|]. rewrite Hn. reflexivity. Qed.
End Exec.
