(* Proofs/Rank.v — vrank at XR: every valid element gets #{before} + (#{equal} + 1)/2 among the valid
   elements (/ valid count when pct), nulls get null, every output slot is written.            *)
From Coq Require Import Reals Lra Lia List Sorting Permutation ZArith Bool.
From Tevec Require Import Base.Prelude Base.Num Base.XR Spec.Stats Model.SortCmp Model.Rank
     Proofs.SortCmp Proofs.OrderXR Proofs.Quantile Proofs.Partition.
Import ListNotations.

(* ---- uset ------------------------------------------------------------------------------------------ *)
Lemma uset_length {X} i (v : X) out : length (uset i v out) = length out.
Proof.
  unfold uset. rewrite app_length, firstn_length.
  destruct (skipn i out) as [|y r] eqn:E.
  - assert (H : length (skipn i out) = 0%nat) by (rewrite E; reflexivity). rewrite skipn_length in H. cbn. lia.
  - assert (H : length (skipn i out) = S (length r)) by (rewrite E; reflexivity). rewrite skipn_length in H. cbn. lia.
Qed.

Lemma uset_nth {X} i (v : X) out k :
  nth_error (uset i v out) k = if ((k =? i) && (i <? length out))%nat then Some (Some v) else nth_error out k.
Proof.
  unfold uset. rewrite nth_error_app, firstn_length.
  destruct (i <? length out)%nat eqn:Ei.
  - apply Nat.ltb_lt in Ei. replace (Nat.min i (length out)) with i by lia.
    destruct (k <? i)%nat eqn:Ek.
    + apply Nat.ltb_lt in Ek. replace (k =? i)%nat with false by (symmetry; apply Nat.eqb_neq; lia).
      cbn [andb]. rewrite nth_error_firstn. replace (k <? i)%nat with true by (symmetry; apply Nat.ltb_lt; lia). reflexivity.
    + apply Nat.ltb_ge in Ek.
      destruct (skipn i out) as [|y r] eqn:E.
      { assert (H : length (skipn i out) = 0%nat) by (rewrite E; reflexivity). rewrite skipn_length in H. lia. }
      assert (Hr : forall m, nth_error r m = nth_error out (i + S m)).
      { intros m. rewrite <- nth_error_skipn, E. reflexivity. }
      destruct (k =? i)%nat eqn:Eki.
      * apply Nat.eqb_eq in Eki. subst k. rewrite Nat.sub_diag. reflexivity.
      * apply Nat.eqb_neq in Eki. cbn [andb]. destruct (k - i)%nat as [|m] eqn:Em; [lia|].
        cbn [nth_error]. rewrite Hr. f_equal. lia.
  - apply Nat.ltb_ge in Ei. rewrite andb_false_r.
    rewrite skipn_all2 by exact Ei. rewrite firstn_all2 by exact Ei.
    replace (Nat.min i (length out)) with (length out) by lia.
    destruct (k <? length out)%nat eqn:Ek; [reflexivity|].
    apply Nat.ltb_ge in Ek. destruct (k - length out)%nat; cbn; symmetry; apply nth_error_None; lia.
Qed.

Lemma fold_uset_length {X} (g : nat -> nat) (v : X) js out :
  length (fold_left (fun o j => uset (g j) v o) js out) = length out.
Proof. revert out. induction js as [|j js IH]; intros out; [reflexivity|]. cbn. rewrite IH. apply uset_length. Qed.

Lemma fold_uset_nth {X} (g : nat -> nat) (v : X) js out k :
  (forall j, In j js -> g j < length out)%nat ->
  nth_error (fold_left (fun o j => uset (g j) v o) js out) k
  = if existsb (fun j => k =? g j)%nat js then Some (Some v) else nth_error out k.
Proof.
  revert out. induction js as [|j js IH]; intros out Hr; [reflexivity|].
  cbn [fold_left existsb]. rewrite IH by (intros j' Hj'; rewrite uset_length; apply Hr; right; exact Hj').
  rewrite uset_nth. replace (g j <? length out)%nat with true
    by (symmetry; apply Nat.ltb_lt; apply Hr; left; reflexivity).
  rewrite andb_true_r. destruct (k =? g j)%nat; cbn [orb]; [|reflexivity].
  destruct (existsb _ js); reflexivity.
Qed.

(* sum of the ranks u+1 of the sorted positions a <= u < b *)
Definition sumr (a b : nat) : nat := fold_right Nat.add 0%nat (map S (seq a (b - a))).
Lemma sumr_nil a : sumr a a = 0%nat.
Proof. unfold sumr. rewrite Nat.sub_diag. reflexivity. Qed.
Lemma sumr_snoc a b : (a <= b)%nat -> sumr a (S b) = (sumr a b + S b)%nat.
Proof.
  intros H. unfold sumr. replace (S b - a)%nat with (S (b - a)) by lia.
  rewrite seq_S, map_app. cbn [map]. replace (a + (b - a))%nat with b by lia.
  generalize (map S (seq a (b - a))). intros l. induction l as [|x l IH]; cbn; [lia|]. rewrite IH. lia.
Qed.
Lemma sumr_closed a e : (2 * sumr a (a + e) = e * (2 * a + e + 1))%nat.
Proof.
  induction e as [|e IH]; [rewrite Nat.add_0_r, sumr_nil; lia|].
  replace (a + S e)%nat with (S (a + e)) by lia. rewrite sumr_snoc by lia. lia.
Qed.

Ltac cond_eq :=
  match goal with
  | |- (if ?b1 then _ else _) = (if ?b2 then _ else _) =>
      let H := fresh in assert (H : b1 = b2); [apply eq_true_iff_eq|rewrite H; reflexivity]
  end.

(* ---- the loop ------------------------------------------------------------------------------------------ *)
Section RankLoop.
  Variables (pct : bool) (nn : nat) (xs : list XR) (p : list nat) (s : list R) (len : nat).
  Let n := length s.
  Let P (t : nat) : nat := nth t p 0%nat.
  Hypothesis Hplen : length p = len.
  Hypothesis Hpnd : NoDup p.
  Hypothesis Hpr : forall i, In i p -> (i < len)%nat.
  Hypothesis Hn : (1 <= n <= len)%nat.
  Hypothesis Hnone : forall t, (t < len)%nat -> get_is_none (DT := IsNoneXR) xs (P t) = (n <=? t)%nat.
  Hypothesis Heq : forall t, (S t < n)%nat ->
    get_eq (DX := IsNoneXXR) xs (P t) (P (S t)) = if Req_EM_T (nth t s 0%R) (nth (S t) s 0%R) then true else false.

  Lemma P_range t : (t < len)%nat -> (P t < len)%nat.
  Proof. intros Ht. apply Hpr. unfold P. apply nth_In. lia. Qed.
  Lemma P_inj t u : (t < len)%nat -> (u < len)%nat -> P t = P u -> t = u.
  Proof. intros Ht Hu E. apply (proj1 (NoDup_nth p 0%nat) Hpnd); [lia|lia|exact E]. Qed.

  Definition val (a b : nat) : XR := rk_avg (A := XR) pct nn (sumr a (S b)) (b - a + 1).
  Definition Written (t : nat) (out : list (option XR)) (v : XR) : Prop := nth_error out (P t) = Some (Some v).

  Definition is_run (a b : nat) : Prop :=
    (a <= b < n)%nat /\ (forall u, (a <= u <= b)%nat -> nth u s 0%R = nth a s 0%R) /\
    (a = 0%nat \/ nth (a - 1) s 0%R <> nth a s 0%R) /\ (S b = n \/ nth (S b) s 0%R <> nth b s 0%R).

  Definition Done (out : list (option XR)) (a : nat) : Prop :=
    forall t, (t < a)%nat -> exists a' b', is_run a' b' /\ (a' <= t <= b')%nat /\ Written t out (val a' b').

  Definition Final (out : list (option XR)) : Prop :=
    length out = len /\ Done out n /\ (forall t, (n <= t < len)%nat -> Written t out None).

  Definition Inv (i : nat) (st : rstate (A := XR)) : Prop :=
    (i < n)%nat /\ r_cur st = S i /\ (1 <= r_rep st <= S i)%nat /\
    (forall u, (S i - r_rep st <= u <= i)%nat -> nth u s 0%R = nth i s 0%R) /\
    (S i - r_rep st = 0%nat \/ nth (S i - r_rep st - 1) s 0%R <> nth (S i - r_rep st) s 0%R) /\
    r_sum st = sumr (S i - r_rep st) i /\ length (r_out st) = len /\ Done (r_out st) (S i - r_rep st).

  (* writing the run a..i *)
  Lemma write_run_nth i rep (v : XR) out t :
    (rep <= S i)%nat -> (i < len)%nat -> length out = len -> (t < len)%nat ->
    nth_error (write_run p i rep v out) (P t)
    = if ((S i - rep <=? t) && (t <=? i))%nat then Some (Some v) else nth_error out (P t).
  Proof.
    intros Hrep Hi Hlen Ht. unfold write_run.
    rewrite (fold_uset_nth (fun j => nth (i - j) p 0%nat)).
    2:{ intros j Hj. apply in_seq in Hj. rewrite Hlen. apply (P_range (i - j)). lia. }
    cond_eq. rewrite existsb_exists, andb_true_iff, !Nat.leb_le. split.
    - intros (j & Hj & E). apply in_seq in Hj. apply Nat.eqb_eq in E.
      apply (P_inj t (i - j)) in E; lia.
    - intros [H1 H2]. exists (i - t)%nat. split; [apply in_seq; lia|].
      apply Nat.eqb_eq. replace (i - (i - t))%nat with t by lia. reflexivity.
  Qed.
  Lemma write_run_length i rep (v : XR) out : length (write_run p i rep v out) = length out.
  Proof. unfold write_run. apply fold_uset_length. Qed.

  Lemma fold_seq_nth a m (v : XR) out t :
    (a + m <= len)%nat -> length out = len -> (t < len)%nat ->
    nth_error (fold_left (fun o i => uset (nth i p 0%nat) v o) (seq a m) out) (P t)
    = if ((a <=? t) && (t <? a + m))%nat then Some (Some v) else nth_error out (P t).
  Proof.
    intros Ham Hlen Ht.
    rewrite (fold_uset_nth (fun j => nth j p 0%nat)).
    2:{ intros j Hj. apply in_seq in Hj. rewrite Hlen. apply (P_range j). lia. }
    cond_eq. rewrite existsb_exists, andb_true_iff, Nat.leb_le, Nat.ltb_lt. split.
    - intros (j & Hj & E). apply in_seq in Hj. apply Nat.eqb_eq in E. apply (P_inj t j) in E; lia.
    - intros [H1 H2]. exists t. split; [apply in_seq; lia|apply Nat.eqb_refl].
  Qed.

  Lemma Done_mono out out' a :
    Done out a -> (forall t, (t < a)%nat -> nth_error out' (P t) = nth_error out (P t)) -> Done out' a.
  Proof.
    intros HD Hsame t Ht. destruct (HD t Ht) as (a' & b' & Hr & Hab & Hw).
    exists a', b'. split; [exact Hr|]. split; [exact Hab|]. unfold Written. rewrite Hsame by exact Ht. exact Hw.
  Qed.

  (* a singleton run written through rk_one *)
  Lemma rk_one_val i : (1 <= nn)%nat -> rk_one (A := XR) pct nn (S i) = val i i.
  Proof.
    intros Hnn. unfold val, rk_one, rk_avg. rewrite sumr_snoc, sumr_nil by lia.
    replace (i - i + 1)%nat with 1%nat by lia. cbn [Nat.add Nat.mul]. rewrite Nat.add_0_r.
    destruct pct; [reflexivity|].
    rewrite !xofnat. cbn [INR]. rewrite xdiv_some by lra. f_equal. field.
  Qed.

  Hypothesis Hnn : (1 <= nn)%nat.

  Lemma loop_correct m : forall i st,
    (i + m = len - 1)%nat -> Inv i st ->
    Final (rank_finish pct nn p len (rank_loop (DX := IsNoneXXR) pct nn xs p (seq i m) st)).
  Proof.
    induction m as [|m IH]; intros i st Him (Hi & Hcur & Hrep & Hall & Hleft & Hsum & Hlen & HD).
    - (* loop ran to the end without break: i = len - 1 = n - 1 *)
      cbn [seq rank_loop rank_finish].
      assert (Hin : S i = n) by lia. assert (Hnl : n = len) by lia.
      set (a := (S i - r_rep st)%nat) in *.
      replace (len - r_rep st)%nat with a by (unfold a; lia).
      replace (r_sum st + r_cur st)%nat with (sumr a (S i)) by (rewrite sumr_snoc by (unfold a; lia); lia).
      split; [rewrite fold_uset_length; exact Hlen|]. split.
      + intros t Ht. destruct (Nat.lt_ge_cases t a) as [Hta|Hta].
        * destruct (HD t Hta) as (a' & b' & Hr & Hab & Hw). exists a', b'. split; [exact Hr|]. split; [exact Hab|].
          unfold Written. rewrite fold_seq_nth by (unfold a; lia).
          replace (a <=? t)%nat with false by (symmetry; apply Nat.leb_gt; lia). exact Hw.
        * exists a, i. split.
          { split; [unfold a; lia|]. split; [intros u Hu; rewrite Hall by lia; symmetry; apply Hall; unfold a; lia|].
            split; [exact Hleft|left; exact Hin]. }
          split; [lia|]. unfold Written. rewrite fold_seq_nth by (unfold a; lia).
          replace ((a <=? t) && (t <? a + r_rep st))%nat with true
            by (symmetry; apply andb_true_iff; rewrite Nat.leb_le, Nat.ltb_lt; unfold a; lia).
          unfold val. replace (i - a + 1)%nat with (r_rep st) by (unfold a; lia). reflexivity.
      + intros t Ht. lia.
    - (* one iteration at i <= len - 2 *)
      cbn [seq rank_loop]. fold (P i). fold (P (S i)).
      rewrite Hnone by lia.
      set (a := (S i - r_rep st)%nat) in *.
      destruct (n <=? S i)%nat eqn:En.
      + (* the next value is null: break *)
        apply Nat.leb_le in En. assert (Hin : S i = n) by lia.
        cbn [rank_finish r_out].
        replace (r_sum st + r_cur st)%nat with (sumr a (S i)) by (rewrite sumr_snoc by (unfold a; lia); lia).
        split; [rewrite fold_uset_length, write_run_length; exact Hlen|]. split.
        * intros t Ht. destruct (Nat.lt_ge_cases t a) as [Hta|Hta].
          -- destruct (HD t Hta) as (a' & b' & Hr & Hab & Hw). exists a', b'. split; [exact Hr|]. split; [exact Hab|].
             unfold Written. rewrite fold_seq_nth by (rewrite ?write_run_length; lia).
             replace (S i <=? t)%nat with false by (symmetry; apply Nat.leb_gt; lia). cbn [andb].
             rewrite write_run_nth by lia. fold a.
             replace (a <=? t)%nat with false by (symmetry; apply Nat.leb_gt; lia). exact Hw.
          -- exists a, i. split.
             { split; [unfold a; lia|]. split; [intros u Hu; rewrite Hall by lia; symmetry; apply Hall; unfold a; lia|].
               split; [exact Hleft|left; exact Hin]. }
             split; [lia|]. unfold Written. rewrite fold_seq_nth by (rewrite ?write_run_length; lia).
             replace (S i <=? t)%nat with false by (symmetry; apply Nat.leb_gt; lia). cbn [andb].
             rewrite write_run_nth by lia. fold a.
             replace ((a <=? t) && (t <=? i))%nat with true
               by (symmetry; apply andb_true_iff; rewrite !Nat.leb_le; lia).
             unfold val. replace (i - a + 1)%nat with (r_rep st) by (unfold a; lia). reflexivity.
        * intros t Ht. unfold Written. rewrite fold_seq_nth by (rewrite ?write_run_length; lia).
          replace ((S i <=? t) && (t <? S i + (len - S i)))%nat with true
            by (symmetry; apply andb_true_iff; rewrite Nat.leb_le, Nat.ltb_lt; lia).
          reflexivity.
      + apply Nat.leb_gt in En. rewrite Heq by lia.
        destruct (Req_EM_T (nth i s 0%R) (nth (S i) s 0%R)) as [Esame|Ediff].
        * (* the run continues *)
          apply IH; [lia|]. unfold Inv. cbn [r_rep r_cur r_sum r_out].
          replace (S (S i) - S (r_rep st))%nat with a by (unfold a; lia).
          split; [lia|]. split; [lia|]. split; [lia|]. split.
          { intros u Hu. destruct (Nat.eq_dec u (S i)) as [->|Hne]; [reflexivity|].
            rewrite <- Esame. apply Hall. lia. }
          split; [exact Hleft|]. split; [rewrite sumr_snoc by (unfold a; lia); lia|]. split; [exact Hlen|exact HD].
        * destruct (r_rep st =? 1)%nat eqn:Erep.
          -- (* a run of one element ends at i *)
             apply Nat.eqb_eq in Erep. apply IH; [lia|]. unfold Inv. cbn [r_rep r_cur r_sum r_out].
             assert (Ha : a = i) by (unfold a; lia).
             replace (S (S i) - r_rep st)%nat with (S i) by lia.
             split; [lia|]. split; [lia|]. split; [lia|]. split.
             { intros u Hu. replace u with (S i) by lia. reflexivity. }
             split; [right; replace (S i - 1)%nat with i by lia; exact Ediff|].
             split; [rewrite sumr_nil; rewrite Hsum; fold a; rewrite Ha; apply sumr_nil|].
             split; [rewrite uset_length; exact Hlen|].
             intros t Ht. destruct (Nat.eq_dec t i) as [->|Hne].
             ++ exists i, i. split.
                { split; [lia|]. split; [intros u Hu; replace u with i by lia; reflexivity|].
                  split; [rewrite <- Ha; exact Hleft|right; intros E; apply Ediff; symmetry; exact E]. }
                split; [lia|]. unfold Written. rewrite uset_nth, Hlen, Nat.eqb_refl.
                replace (P i <? len)%nat with true by (symmetry; apply Nat.ltb_lt; apply P_range; lia).
                cbn [andb]. rewrite Hcur, rk_one_val by exact Hnn. reflexivity.
             ++ destruct (HD t ltac:(lia)) as (a' & b' & Hr & Hab & Hw). exists a', b'. split; [exact Hr|]. split; [exact Hab|].
                unfold Written. rewrite uset_nth.
                replace (P t =? P i)%nat with false
                  by (symmetry; apply Nat.eqb_neq; intros E; apply P_inj in E; lia).
                exact Hw.
          -- (* a run of several elements ends at i *)
             apply Nat.eqb_neq in Erep. apply IH; [lia|]. unfold Inv. cbn [r_rep r_cur r_sum r_out].
             replace (S (S i) - 1)%nat with (S i) by lia.
             split; [lia|]. split; [lia|]. split; [lia|]. split.
             { intros u Hu. replace u with (S i) by lia. reflexivity. }
             split; [right; replace (S i - 1)%nat with i by lia; exact Ediff|].
             split; [rewrite sumr_nil; reflexivity|]. split; [rewrite write_run_length; exact Hlen|].
             replace (r_sum st + r_cur st)%nat with (sumr a (S i)) by (rewrite sumr_snoc by (unfold a; lia); lia).
             intros t Ht. destruct (Nat.lt_ge_cases t a) as [Hta|Hta].
             ++ destruct (HD t Hta) as (a' & b' & Hr & Hab & Hw). exists a', b'. split; [exact Hr|]. split; [exact Hab|].
                unfold Written. rewrite write_run_nth by lia. fold a.
                replace (a <=? t)%nat with false by (symmetry; apply Nat.leb_gt; lia). exact Hw.
             ++ exists a, i. split.
                { split; [unfold a; lia|]. split; [intros u Hu; rewrite Hall by lia; symmetry; apply Hall; unfold a; lia|].
                  split; [exact Hleft|right; intros E; apply Ediff; symmetry; exact E]. }
                split; [lia|]. unfold Written. rewrite write_run_nth by lia. fold a.
                replace ((a <=? t) && (t <=? i))%nat with true
                  by (symmetry; apply andb_true_iff; rewrite !Nat.leb_le; lia).
                unfold val. replace (i - a + 1)%nat with (r_rep st) by (unfold a; lia). reflexivity.
  Qed.

  Lemma loop_from_start :
    (2 <= len)%nat ->
    Final (rank_finish pct nn p len
             (rank_loop (DX := IsNoneXXR) pct nn xs p (seq 0 (len - 1))
                        {| r_rep := 1; r_cur := 1; r_sum := 0; r_out := repeat None len |})).
  Proof.
    intros Hlen. apply loop_correct; [lia|].
    unfold Inv. cbn [r_rep r_cur r_sum r_out]. split; [lia|]. split; [reflexivity|]. split; [lia|].
    split; [intros u Hu; replace u with 0%nat by lia; reflexivity|].
    split; [left; reflexivity|]. split; [reflexivity|]. split; [apply repeat_length|].
    intros t Ht. lia.
  Qed.
End RankLoop.

(* ---- runs of a sorted list and counts ---------------------------------------------------------------- *)
Local Open Scope R_scope.

(* y comes strictly before x in the order: y < x ascending, y > x descending *)
Definition before_b (rev : bool) (x y : R) : bool :=
  if rev then (if Rlt_dec x y then true else false) else (if Rlt_dec y x then true else false).
Definition count_before (rev : bool) (x : R) (l : list R) : nat := length (filter (before_b rev x) l).

(* average rank: #{before} + (#{equal} + 1) / 2, as a fraction of the valid count when pct *)
Definition rank_spec (pct rev : bool) (l : list R) (x : R) : R :=
  let r := INR (count_before rev x l) + (INR (count_eq x l) + 1) / 2 in
  if pct then r / INR (length l) else r.

Lemma filter_length_perm {X} (f : X -> bool) l1 l2 :
  Permutation l1 l2 -> length (filter f l1) = length (filter f l2).
Proof.
  intros HP. induction HP as [|x l1 l2 HP IH|x y l|l1 l2 l3 H1 IH1 H2 IH2]; cbn.
  - reflexivity.
  - destruct (f x); cbn; rewrite IH; reflexivity.
  - destruct (f x), (f y); reflexivity.
  - rewrite IH1. exact IH2.
Qed.

Lemma count_interval {X} (f : X -> bool) (d : X) (l : list X) : forall a c,
  (a <= c <= length l)%nat ->
  (forall u, (u < length l)%nat -> f (nth u l d) = ((a <=? u) && (u <? c))%nat) ->
  length (filter f l) = (c - a)%nat.
Proof.
  induction l as [|x l IH]; intros a c Hac Hf; [cbn in *; lia|].
  cbn [filter]. pose proof (Hf 0%nat ltac:(cbn; lia)) as H0. cbn [nth] in H0.
  assert (Htail : length (filter f l) = (Nat.pred c - Nat.pred a)%nat).
  { destruct c as [|c].
    - assert (forall u, (u < length l)%nat -> f (nth u l d) = false).
      { intros u Hu. specialize (Hf (S u) ltac:(cbn; lia)). cbn [nth] in Hf. rewrite Hf.
        destruct (a <=? S u)%nat; reflexivity. }
      rewrite (IH 0%nat 0%nat); [reflexivity|lia|]. intros u Hu. rewrite H by exact Hu. reflexivity.
    - apply IH; [cbn [length] in Hac; destruct a; cbn; lia|].
      intros u Hu. specialize (Hf (S u) ltac:(cbn; lia)). cbn [nth] in Hf. rewrite Hf.
      destruct a as [|a]; cbn [Nat.pred]; [reflexivity|]. reflexivity. }
  destruct (f x) eqn:Ex; cbn [length]; rewrite Htail.
  - symmetry in H0. apply andb_true_iff in H0. destruct H0 as [Ha Hc].
    apply Nat.leb_le in Ha. apply Nat.ltb_lt in Hc. destruct a; [|lia]. destruct c; [lia|]. cbn. lia.
  - symmetry in H0. apply andb_false_iff in H0. destruct H0 as [Ha|Hc].
    + apply Nat.leb_gt in Ha. destruct a; [lia|]. destruct c; cbn; lia.
    + apply Nat.ltb_ge in Hc. destruct c; [|lia]. cbn. lia.
Qed.

Lemma sorted_nth_mono rev (s : list R) u w :
  Sorted (rle rev) s -> (u <= w < length s)%nat -> rle rev (nth u s 0) (nth w s 0).
Proof.
  intros Hs. apply Sorted_StronglySorted in Hs; [|intros x y z; unfold rle; destruct rev; lra].
  revert u w. induction Hs as [|c l Hl IH Hall]; intros u w Huw; [cbn in Huw; lia|].
  destruct u as [|u], w as [|w]; cbn [nth]; try lia.
  - unfold rle. destruct rev; lra.
  - rewrite Forall_forall in Hall. apply Hall. apply nth_In. cbn in Huw. lia.
  - apply IH. cbn in Huw. lia.
Qed.

Section Runs.
  Variables (rev : bool) (s : list R).
  Hypothesis Hs : Sorted (rle rev) s.

  Lemma run_counts a b :
    (a <= b < length s)%nat ->
    (forall u, (a <= u <= b)%nat -> nth u s 0 = nth a s 0) ->
    (a = 0%nat \/ nth (a - 1) s 0 <> nth a s 0) -> (S b = length s \/ nth (S b) s 0 <> nth b s 0) ->
    count_before rev (nth a s 0) s = a /\ count_eq (nth a s 0) s = (b - a + 1)%nat.
  Proof.
    intros Hab Hrun Hleft Hright. set (v := nth a s 0).
    assert (Hlt : forall u, (u < a)%nat -> before_b rev v (nth u s 0) = true /\ nth u s 0 <> v).
    { intros u Hu. destruct Hleft as [->|Hne]; [lia|].
      pose proof (sorted_nth_mono rev s u (a - 1) Hs ltac:(lia)) as H1.
      pose proof (sorted_nth_mono rev s (a - 1) a Hs ltac:(lia)) as H2.
      fold v in Hne, H2. unfold before_b, rle in *. destruct rev.
      - destruct (Rlt_dec v (nth u s 0)); split; try reflexivity; lra.
      - destruct (Rlt_dec (nth u s 0) v); split; try reflexivity; lra. }
    assert (Hgt : forall u, (b < u < length s)%nat -> before_b rev v (nth u s 0) = false /\ nth u s 0 <> v).
    { intros u Hu. destruct Hright as [E|Hne]; [lia|].
      pose proof (sorted_nth_mono rev s (S b) u Hs ltac:(lia)) as H1.
      pose proof (sorted_nth_mono rev s b (S b) Hs ltac:(lia)) as H2.
      rewrite (Hrun b ltac:(lia)) in Hne, H2. fold v in Hne, H2. unfold before_b, rle in *. destruct rev.
      - destruct (Rlt_dec v (nth u s 0)); split; try reflexivity; lra.
      - destruct (Rlt_dec (nth u s 0) v); split; try reflexivity; lra. }
    split.
    - unfold count_before. rewrite (count_interval (before_b rev v) 0 s 0%nat a); [lia|lia|].
      intros u Hu. cbn [Nat.leb andb].
      destruct (Nat.lt_ge_cases u a) as [H|H].
      + replace (u <? a)%nat with true by (symmetry; apply Nat.ltb_lt; lia). apply Hlt. exact H.
      + replace (u <? a)%nat with false by (symmetry; apply Nat.ltb_ge; lia).
        destruct (Nat.le_gt_cases u b) as [H'|H'].
        * rewrite Hrun by lia. fold v. unfold before_b. destruct rev; destruct (Rlt_dec v v); try reflexivity; lra.
        * apply Hgt. lia.
    - unfold count_eq. rewrite (count_interval (fun x => if Req_EM_T x v then true else false) 0 s a (S b)); [lia|lia|].
      intros u Hu.
      destruct (Nat.lt_ge_cases u a) as [H|H].
      + replace (a <=? u)%nat with false by (symmetry; apply Nat.leb_gt; lia). cbn [andb].
        destruct (Req_EM_T (nth u s 0) v); [|reflexivity]. exfalso. apply (proj2 (Hlt u H)). assumption.
      + replace (a <=? u)%nat with true by (symmetry; apply Nat.leb_le; lia). cbn [andb].
        destruct (Nat.le_gt_cases u b) as [H'|H'].
        * replace (u <? S b)%nat with true by (symmetry; apply Nat.ltb_lt; lia).
          rewrite Hrun by lia. fold v. destruct (Req_EM_T v v); [reflexivity|contradiction].
        * replace (u <? S b)%nat with false by (symmetry; apply Nat.ltb_ge; lia).
          destruct (Req_EM_T (nth u s 0) v); [|reflexivity]. exfalso. apply (proj2 (Hgt u ltac:(lia))). assumption.
  Qed.
End Runs.

(* the value written for a run = the rank specification *)
Lemma val_closed pct nn a b :
  (a <= b)%nat -> (1 <= nn)%nat ->
  val pct nn a b
  = Some (let r := INR a + (INR (b - a + 1) + 1) / 2 in if pct then r / INR nn else r).
Proof.
  intros Hab Hnn. unfold val, rk_avg.
  set (e := (b - a + 1)%nat).
  assert (He : INR e <> 0) by (apply not_0_INR; unfold e; lia).
  assert (Hn' : INR nn <> 0) by (apply not_0_INR; lia).
  assert (Hsum : 2 * INR (sumr a (S b)) = INR e * (2 * INR a + INR e + 1)).
  { replace (S b) with (a + e)%nat by (unfold e; lia).
    pose proof (sumr_closed a e) as H. apply (f_equal INR) in H.
    rewrite !mult_INR, !plus_INR, mult_INR in H. cbn [INR] in H. lra. }
  destruct pct.
  - rewrite !xofnat, mult_INR, xdiv_some by (apply Rmult_integral_contrapositive; split; assumption).
    f_equal. cbn zeta. field_simplify_eq; [|split; assumption]. lra.
  - rewrite !xofnat, xdiv_some by exact He. f_equal. cbn zeta. field_simplify_eq; [|assumption]. lra.
Qed.

(* ---- assembling: vrank ------------------------------------------------------------------------------------ *)
Lemma valid_nil_all_none (xs : list XR) i : valid xs = [] -> nth i xs None = None.
Proof.
  revert i. induction xs as [|[x|] xs IH]; intros i Hv; [destruct i; reflexivity|discriminate|].
  destruct i; [reflexivity|]. cbn [nth]. apply IH. exact Hv.
Qed.

Lemma canon_nth (s : list R) z t :
  nth t (map Some s ++ repeat None z) None = if (t <? length s)%nat then Some (nth t s 0) else None.
Proof.
  destruct (t <? length s)%nat eqn:E.
  - apply Nat.ltb_lt in E. rewrite app_nth1 by (rewrite map_length; exact E).
    rewrite (nth_indep _ None (Some 0)) by (rewrite map_length; exact E). apply map_nth.
  - apply Nat.ltb_ge in E. rewrite app_nth2 by (rewrite map_length; exact E).
    rewrite map_length. destruct (Nat.lt_ge_cases (t - length s) z) as [H|H].
    + apply nth_repeat.
    + apply nth_overflow. rewrite repeat_length. exact H.
Qed.

Definition rank_expected (pct rev : bool) (xs : list XR) (i : nat) : XR :=
  match nth i xs None with Some x => Some (rank_spec pct rev (valid xs) x) | None => None end.

Lemma vrank_spec (pct rev : bool) (xs : list XR) :
  length (vrank (DX := IsNoneXXR) pct rev xs) = length xs /\
  forall i, (i < length xs)%nat ->
    nth_error (vrank (DX := IsNoneXXR) pct rev xs) i = Some (Some (rank_expected pct rev xs i)).
Proof.
  destruct (sorted_exists rev (valid xs)) as (s & Hs & HP).
  assert (Hnv : count_valid (DT := IsNoneXR) xs = length s).
  { rewrite count_valid_nv. unfold nv. symmetry. apply Permutation_length. exact HP. }
  unfold vrank.
  destruct (length xs) as [|[|len2]] eqn:Hlen.
  - cbn [Nat.eqb]. split; [reflexivity|]. intros i Hi. lia.
  - cbn [Nat.eqb]. split; [reflexivity|]. intros i Hi. assert (i = 0%nat) by lia. subst i.
    destruct xs as [|x0 [|? ?]]; try discriminate. unfold rank_expected, get_is_none. cbn [nth_error nth].
    destruct x0 as [x|]; [|reflexivity].
    change (is_none (IsNone := IsNoneXR) (Some x)) with false. cbn iota. do 2 f_equal.
    change (@none XR NumXR) with (Some 1). f_equal.
    unfold rank_spec, count_before, count_eq. cbn [valid flat_map app filter length].
    assert (Hb : before_b rev x x = false).
    { unfold before_b. destruct rev; destruct (Rlt_dec x x); try reflexivity; lra. }
    rewrite Hb. destruct (Req_EM_T x x); [|contradiction]. cbn [length INR]. destruct pct; lra.
  - cbn [Nat.eqb]. set (len := S (S len2)) in *.
    set (cmpi := cmp_idx (cmp_dir (DT := IsNoneXR) rev) xs).
    set (p := isort cmpi (seq 0 len)).
    assert (Hpp : Permutation p (seq 0 len)) by apply isort_perm.
    assert (Hpv : map (xval xs) p = map Some s ++ repeat None (nnull xs)).
    { unfold p, cmpi. rewrite <- Hlen. rewrite argsort_values. apply isort_canon; assumption. }
    assert (Hpnd : NoDup p) by (apply Permutation_NoDup with (seq 0 len); [symmetry; exact Hpp|apply seq_NoDup]).
    assert (Hpr : forall i, In i p -> (i < len)%nat).
    { intros i Hi. apply (Permutation_in _ Hpp) in Hi. apply in_seq in Hi. lia. }
    assert (Hplen : length p = len) by (rewrite (Permutation_length Hpp); apply seq_length).
    assert (Hvs : forall t, (t < len)%nat ->
              nth_error xs (nth t p 0%nat) = Some (if (t <? length s)%nat then Some (nth t s 0) else None)).
    { intros t Ht. assert (Hr : (nth t p 0%nat < length xs)%nat) by (rewrite Hlen; apply Hpr; apply nth_In; lia).
      rewrite (nth_error_nth' xs None Hr). f_equal. fold (xval xs (nth t p 0%nat)).
      rewrite <- canon_nth with (z := nnull xs). rewrite <- Hpv.
      rewrite (nth_indep _ None (xval xs 0%nat)) by (rewrite map_length; lia). symmetry. apply map_nth. }
    assert (Hsl : (length s <= len)%nat).
    { rewrite <- Hnv, count_valid_nv, <- Hlen. apply nv_le_length. }
    assert (Hnone : forall t, (t < len)%nat ->
              get_is_none (DT := IsNoneXR) xs (nth t p 0%nat) = (length s <=? t)%nat).
    { intros t Ht. unfold get_is_none. rewrite Hvs by exact Ht.
      destruct (t <? length s)%nat eqn:E.
      - apply Nat.ltb_lt in E. symmetry. apply Nat.leb_gt. exact E.
      - apply Nat.ltb_ge in E. symmetry. apply Nat.leb_le. exact E. }
    rewrite Hnone by (unfold len; lia).
    destruct (length s <=? 0)%nat eqn:E0.
    + (* no valid element *)
      apply Nat.leb_le in E0. assert (Hs0 : s = []) by (destruct s; [reflexivity|cbn in E0; lia]).
      subst s. apply Permutation_nil in HP.
      split; [apply repeat_length|]. intros i Hi.
      rewrite nth_error_repeat. replace (i <? len)%nat with true by (symmetry; apply Nat.ltb_lt; exact Hi).
      unfold rank_expected. rewrite valid_nil_all_none by exact HP. reflexivity.
    + apply Nat.leb_gt in E0.
      assert (HF : Final pct (count_valid (DT := IsNoneXR) xs) p s len
                     (rank_finish pct (count_valid (DT := IsNoneXR) xs) p len
                        (rank_loop (DX := IsNoneXXR) pct (count_valid (DT := IsNoneXR) xs) xs p (seq 0 (len - 1))
                           {| r_rep := 1; r_cur := 1; r_sum := 0; r_out := repeat None len |}))).
      { apply loop_from_start; try assumption; try lia.
        - intros t Ht. unfold get_eq. rewrite !Hvs by lia.
          replace (t <? length s)%nat with true by (symmetry; apply Nat.ltb_lt; lia).
          replace (S t <? length s)%nat with true by (symmetry; apply Nat.ltb_lt; lia).
          reflexivity. }
      destruct HF as (HFlen & HFdone & HFnull).
      split; [exact HFlen|]. intros i Hi.
      assert (Hin : In i p) by (apply (Permutation_in _ (Permutation_sym Hpp)); apply in_seq; lia).
      destruct (In_nth p i 0%nat Hin) as (t & Ht & Et). rewrite Hplen in Ht.
      pose proof (Hvs t Ht) as Hx. rewrite Et in Hx.
      unfold rank_expected. rewrite (nth_error_nth xs i None Hx).
      destruct (t <? length s)%nat eqn:Etn.
      * apply Nat.ltb_lt in Etn.
        destruct (HFdone t Etn) as (a' & b' & Hrun & Hab & Hw).
        unfold Written in Hw. rewrite Et in Hw. rewrite Hw. do 2 f_equal.
        destruct Hrun as (Hr1 & Hr2 & Hr3 & Hr4).
        rewrite val_closed by lia.
        destruct (run_counts rev s Hs a' b' Hr1 Hr2 Hr3 Hr4) as [Hcb Hce].
        rewrite <- (Hr2 t Hab) in Hcb, Hce.
        f_equal. unfold rank_spec, count_before, count_eq.
        rewrite <- (filter_length_perm _ _ _ HP), <- (filter_length_perm _ _ _ HP).
        fold (count_before rev (nth t s 0) s). fold (count_eq (nth t s 0) s).
        rewrite Hcb, Hce, Hnv, (Permutation_length HP). reflexivity.
      * apply Nat.ltb_ge in Etn. specialize (HFnull t ltac:(lia)).
        unfold Written in HFnull. rewrite Et in HFnull. exact HFnull.
Qed.
